"""Shared machinery of C01 (block production): Production.tla model checking, behaviour export for the model ->
implementation replay, the real-code driver harness/cmd/production, trace validation with Trace_Production.tla.

Verdict policy (DESIGN 2, FRAMEWORK):
  * a packer block rejected by any validator history, or accepted with another state root / receipts root / gas than the
    header's, is decided by the driver on the real code alone -> VIOLATION (signature = history + error class);
  * a recorded trace rejected at a Validate event (the model, whose cache follows poaCacher / posCacher.Handle, derives
    another verdict for that history) or failing Deterministic / ObsDeterministic -> VIOLATION;
  * the model's abstract world differing from the real proposer machinery state while all verdicts agree, a Pack event
    the model cannot take, CacheCoherent failing on the MODEL's cache -> specification drift, exit 2.
"""
import json
import os
import re

from verifkit import Infra, VERIF, read_ndjson, write_ndjson

SCHED = {"Scheduler.tla": os.path.join(VERIF, "specs", "sched", "Scheduler.tla")}
INVS = ("TypeOK", "CacheCoherent", "CacheExact", "PackAccepted", "Deterministic")


def _cfg_text(name):
    return open(os.path.join(VERIF, "specs", "rules", name)).read()


def design(ctx, cfgs, timeout):
    """Exhaustive exploration of the design model; every config has to hold."""
    for cfg in cfgs:
        ctx.tlc_must_hold("rules", "MC_Production", cfg=cfg, workers=4, timeout=timeout, files=SCHED, label="exhaustive " + cfg)


def _variant(base, rules=None, invariant=None):
    t = _cfg_text(base)
    if rules:
        t = t.replace("Rules <- AllRules", "Rules <- " + rules)
        if rules in ("NoCow", "NoPosNoWrite"):
            t = t.replace("AliasSafe = FALSE", "AliasSafe = TRUE")
    if invariant:
        t = "\n".join(l for l in t.splitlines() if not l.startswith("INVARIANT")) + "\nINVARIANT %s\n" % invariant
    return t


TEETH = [  # (base config, rule switched off, what it is in the code)
    ("MC_Production_member_quick.cfg", "NoAuthDrop", "poaCacher.Handle returns nil on an Authority event"),
    ("MC_Production_endorse_quick.cfg", "NoParamsInv", "InvalidateCache on a Params event"),
    ("MC_Production_endorse_quick.cfg", "NoXferInv", "InvalidateCache on a transfer from/to an endorsor"),
    ("MC_Production_pos_quick.cfg", "NoPosSync", "validatorsCache.Remove(parent) when SyncPOS reports updates"),
    ("MC_Production_pos_quick.cfg", "NoPosOnline", "noOpCacher when the block switches validators on/off"),
    ("MC_Production_pos_quick.cfg", "NoPosBen", "posCacher.Handle skips the entry on BeneficiarySet"),
    ("MC_Production_member_quick.cfg", "NoCow", "Candidates.Update clones the shared candidate slice before writing (copy-on-write)"),
    ("MC_Production_pos_quick.cfg", "NoPosNoWrite", "validateStakingProposer never writes into the (shared) cached leader slice"),
]
VACUITY = [
    ("MC_Production_member_quick.cfg", "X_NeverHit"), ("MC_Production_member_quick.cfg", "X_NeverMemo"),
    ("MC_Production_member_quick.cfg", "X_NeverInactive"), ("MC_Production_endorse_quick.cfg", "X_NeverUnendorsed"),
    ("MC_Production_pos_quick.cfg", "X_NeverPoS"), ("MC_Production_pos_quick.cfg", "X_NeverPosEntry"),
    ("MC_Production_pos_quick.cfg", "X_NeverExit"), ("MC_Production_pos_quick.cfg", "X_NeverHeavier"),
]


def teeth(ctx, which=None, vac=None):
    """Each cache rule of the code, removed from the SPEC's rules, must break CacheCoherent; each 'this never happens'
    statement must be refuted (vacuity).  Anything else means the model has no teeth -> Infra."""
    shown = []
    for base, rules, what in (which or TEETH):
        r = ctx.tlc("rules", "MC_Production", cfg="teeth.cfg", workers=2, timeout=600, count=False, label="teeth " + rules,
                    files=dict(SCHED, **{"teeth.cfg": _variant(base, rules, "CacheCoherent")}))
        if r.invariant != "CacheCoherent":
            raise Infra("teeth: without the rule '%s' CacheCoherent still holds (%s)" % (what, r.invariant or r.error or "no violation"))
        shown.append("%s: CacheCoherent violated after %d states" % (rules, r.distinct))
    ctx.cov["teeth"] = shown
    refuted = []
    for base, inv in (vac or VACUITY):
        r = ctx.tlc("rules", "MC_Production", cfg="vac.cfg", workers=2, timeout=600, count=False, label="vacuity " + inv,
                    files=dict(SCHED, **{"vac.cfg": _variant(base, None, inv)}))
        if r.invariant != inv:
            raise Infra("vacuity: %s was not refuted in %s (%s)" % (inv, base, r.invariant or r.error or "holds"))
        refuted.append(inv)
    ctx.cov["vacuity_refuted"] = refuted


def export_behaviours(ctx, profile, num, depth=15):
    """model -> implementation: TLC's simulator samples behaviours of MC_ProductionSim (who packs on which parent after
    how many skipped slots with which tx kinds; which validations / restarts the model node does)."""
    r = ctx.tlc("rules", "MC_ProductionSim", cfg="MC_ProductionSim_%s.cfg" % profile, workers=1, simulate="num=%d" % num,
                depth=depth, timeout=900, files=SCHED, count=False, label="behaviour export " + profile)
    if r.invariant or r.timeout or (r.error and "BEH" not in r.out):
        raise Infra("behaviour export (%s) failed: %s\n%s" % (profile, r.invariant or r.error or "timeout", r.out[-1500:]))
    behs, seen = [], set()
    for m in re.finditer(r'<<"BEH", "((?:[^"\\]|\\.)*)">>', r.out):
        b = json.loads(json.loads('"' + m.group(1) + '"'))
        key = json.dumps(b["steps"][:-1], sort_keys=True)      # successors of the last step are printed too
        if key in seen:
            continue
        seen.add(key)
        b["name"] = "%s-%d" % (profile, len(behs))
        behs.append(b)
    if not behs:
        raise Infra("TLC exported no behaviour for " + profile)
    path = os.path.join(ctx.tmp("behs"), "behs-%s.json" % profile)
    json.dump(behs, open(path, "w"))
    return path, behs


def run_driver(ctx, args, label, binp=None):
    """Runs harness/cmd/production. Returns (results, events, outdir)."""
    binp = binp or ctx.build("production")
    out = ctx.tmp("drv-" + label)
    rc, o = ctx.run([binp] + args + ["-out", out], timeout=3000)
    if rc == 3:
        raise Infra("production driver harness error (%s): %s" % (label, o[-1500:]))
    if rc != 0:
        if rc is not None and ("panic:" in o or "goroutine " in o or "fatal error" in o):
            rp = ctx.save_replay("panic-%s-seed%d.txt" % (label, ctx.seed), o[-20000:])
            first = [x for x in o.splitlines() if x.startswith(("panic:", "fatal error"))][:1]
            ctx.report("panic:" + label, "real code panicked in the production driver (%s): %s" % (label, first), rp)
            return None, [], out
        raise Infra("production driver failed rc=%s (%s): %s" % (rc, label, o[-2000:]))
    res = json.load(open(os.path.join(out, "results.json")))
    return res, read_ndjson(os.path.join(out, "trace.ndjson")), out


def validate_trace(ctx, path, timeout=2400, module="Trace_Production"):
    """ctx.validate_trace, except that a failing invariant is located through the depth of the (linear) state graph:
    after an invariant violation TLC's postcondition no longer sees the high-water mark register.
    Returns (accepted, index of the offending event or None, length, TLCResult)."""
    r = ctx.tlc("rules", module, cfg=module + ".cfg", workers=1, timeout=timeout, dfs=True, count=False,
                files=dict(SCHED, **{"trace.ndjson": path}), label="trace:" + os.path.basename(path))
    if r.timeout:
        raise Infra("trace validation timed out: %s" % path)
    n = sum(1 for _ in open(path))
    if r.invariant:
        m = re.findall(r"(\d+) states generated", r.out)
        states = int(m[-1]) if m else 0
        if states < 2:
            raise Infra("invariant %s violated but the position is unknown:\n%s" % (r.invariant, r.out[-2000:]))
        return False, states - 2, n, r          # state k+2 is the one after event k (0-based)
    m = re.findall(r'TRACE-HWM",? (-?\d+),? (\d+)', r.out)
    if not m:
        raise Infra("trace spec did not report a high-water mark (TLC error?):\n" + r.out[-3000:])
    hwm, ln = int(m[-1][0]), int(m[-1][1])
    if r.error and hwm == ln and "Postcondition" not in r.out:
        raise Infra("TLC error during trace validation: %s\n%s" % (r.error, r.out[-3000:]))
    accepted = hwm == ln and r.error is None and r.rc == 0
    return accepted, (None if accepted else hwm), ln, r


def _run_events(res, events, run):
    info = res["runInfo"][run]
    return events[info["start"]:info["start"] + info["events"]]


def judge(ctx, res, events, label, how, acc):
    """Reports what the driver decided on the real code; collects statistics into acc. Returns the set of runs with
    violations."""
    bad = set()
    by_sig = {}
    for v in res["violations"]:
        by_sig.setdefault(v["sig"], []).append(v)
        bad.add(v["run"])
    for sig, vs in sorted(by_sig.items()):
        v = vs[0]
        evs = _run_events(res, events, v["run"])
        rp = ctx.save_replay("%s-%s-run%d-seed%d.json" % (label, re.sub(r"[^A-Za-z0-9_.-]", "_", sig)[:60], v["run"], ctx.seed),
                             {"how": how, "signature": sig, "violation": v, "same_signature": len(vs), "offending_index": v["index"],
                              "run": res["runInfo"][v["run"]], "trace": evs})
        ctx.report(sig, "%s: %s (%d occurrence(s) of this signature)" % (label, v["what"], len(vs)), rp)
    for k in ("blocks", "validations", "revertedTxs", "forkBlocks", "blocksByInactiveProposer", "blocksAfterSkippedSlots", "posBlocks",
              "blocksWithEventTxs", "runs"):
        acc[k] = acc.get(k, 0) + res[k]
    for k in ("byHistory", "kinds", "flavours"):
        d = acc.setdefault(k, {})
        for kk, n in res[k].items():
            d[kk] = d.get(kk, 0) + n
    acc.setdefault("shapes", set()).update(res.get("shapes") or [])
    acc.setdefault("notes", []).extend(res["notes"][:5])
    if res["drift"]:
        if not res["violations"]:
            raise Infra("specification drift (%s): the model's world / enabledness differs from the real chain while all "
                        "verdicts agree: %s" % (label, res["drift"][:3]))
        acc.setdefault("drift_with_violations", []).extend(res["drift"][:3])
    return bad


def validate(ctx, res, events, label, how, bad_runs, acc):
    """implementation -> model: Trace_Production.tla re-derives every event of every run."""
    runs = [(_i, _run_events(res, events, _i)) for _i in range(len(res["runInfo"]))]
    pending = [k for k, _ in runs]
    guard = 0
    while pending:
        guard += 1
        if guard > 6:
            ctx.cov["validation_stopped_early"] = "more than 6 rejected runs in %s; remaining runs not validated" % label
            return
        evs = [e for k in pending for e in runs[k][1]]
        path = os.path.join(ctx.tmp("val-" + label), "trace-%d.ndjson" % guard)
        write_ndjson(path, evs)
        accepted, pos_ev, ln, r = validate_trace(ctx, path)
        if accepted:
            acc["traces_accepted"] = acc.get("traces_accepted", 0) + len(pending)
            acc["events_validated"] = acc.get("events_validated", 0) + ln
            ctx.cov["states"] += r.distinct
            ctx.cov["transitions"] += r.generated
            return
        pos, badk, off = 0, None, 0
        for k in pending:
            n = len(runs[k][1])
            if pos_ev < pos + n:
                badk, off = k, pos_ev - pos
                break
            pos += n
        if badk is None:
            raise Infra("trace rejected but the offending run was not found (event %s len=%d)\n%s" % (pos_ev, ln, r.out[-2000:]))
        ev = runs[badk][1][off]
        idx = pending.index(badk)
        acc["traces_accepted"] = acc.get("traces_accepted", 0) + idx
        pending = pending[idx + 1:]
        if badk in bad_runs:
            acc["rejected_runs_already_reported"] = acc.get("rejected_runs_already_reported", 0) + 1
            continue            # the driver reported this run already (a rejected block changes everything after it)
        what = None
        if r.invariant in ("ObsDeterministic", "Deterministic"):
            sig, what = "invariant:" + r.invariant, "invariant %s fails on the recorded run" % r.invariant
        elif r.invariant:
            raise Infra("specification drift: %s fails on the MODEL's cache while replaying %s run %d event #%d %s"
                        % (r.invariant, label, badk, off, json.dumps(ev)[:400]))
        elif ev.get("e") == "Validate":
            sig = "trace-verdict:" + str(ev.get("hist"))
            what = "the model derives another verdict than the implementation logged for history '%s'" % ev.get("hist")
        else:
            raise Infra("specification drift (%s run %d): event #%d is not a step of Production.tla with the logged facts "
                        "(slot / score / beneficiary / abstract world after the block): %s" % (label, badk, off, json.dumps(ev)[:600]))
        rp = ctx.save_replay("%s-trace-run%d-seed%d.json" % (label, badk, ctx.seed),
                             {"how": how, "signature": sig, "offending_index": off, "offending_event": ev, "tlc_verdict": what,
                              "run": res["runInfo"][badk], "trace": runs[badk][1]})
        ctx.report(sig, "%s run %d event #%d %s -> %s" % (label, badk, off, json.dumps(ev, sort_keys=True)[:300], what), rp)


def drive(ctx, args, label, acc, validate_trace=True):
    how = {"args": args, "seed": ctx.seed}
    if "-in" in args:       # the behaviours live in a scratch directory: keep them with the artefact
        how["behaviours"] = json.load(open(args[args.index("-in") + 1]))
    res, events, out = run_driver(ctx, args, label)
    if res is None:
        return None
    bad = judge(ctx, res, events, label, how, acc)
    if validate_trace:
        validate(ctx, res, events, label, how, bad, acc)
    return res, events


def binding_demo(ctx):
    """The trace specification must have teeth: a recorded run is accepted; the same run with (a) the score of a block
    changed, (b) the state root of one validation changed, (c) one Pack event deleted, (d) a verdict flipped must be
    rejected, otherwise the trace spec constrains nothing -> Infra."""
    res, events, out = run_driver(ctx, ["-mode", "random", "-profile", "poa,pos", "-runs", "2", "-blocks", "20", "-seed", str(ctx.seed + 17)], "demo")
    if res is None or res["violations"]:
        return      # the real code misbehaves already; reported elsewhere
    packs = [i for i, e in enumerate(events) if e["e"] == "Pack"]
    vals = [i for i, e in enumerate(events) if e["e"] == "Validate"]
    variants = {"original": events}
    a = [dict(e) for e in events]
    a[packs[len(packs) // 2]]["score"] += 1
    if not ctx.quick:
        variants["corrupted-score"] = a
    b = [dict(e) for e in events]
    b[vals[len(vals) // 2]]["sroot"] = "deadbeef"
    variants["corrupted-state-root"] = b
    j = packs[len(packs) // 4]
    variants["deleted-pack"] = events[:j] + events[j + 1:]
    d = [dict(e) for e in events]
    d[vals[len(vals) // 3]]["ok"] = False
    variants["flipped-verdict"] = d
    where = {}
    for name, evs in variants.items():
        path = os.path.join(out, name + ".ndjson")
        write_ndjson(path, evs)
        accepted, hwm, ln, r = validate_trace(ctx, path, timeout=600)
        if name == "original" and not accepted:
            raise Infra("binding demonstration: the unmodified recorded run is rejected at event %d: %s" % (hwm, json.dumps(evs[min(hwm, len(evs) - 1)])[:500]))
        if name != "original" and not accepted:
            where[name] = hwm
        if name != "original" and accepted:
            raise Infra("binding demonstration failed: the %s variant was accepted by Trace_Production" % name)
    expect = {"corrupted-score": packs[len(packs) // 2], "corrupted-state-root": vals[len(vals) // 2], "flipped-verdict": vals[len(vals) // 3]}
    for name, at in expect.items():
        if name in variants and where.get(name) != at:
            raise Infra("binding demonstration: the %s variant was rejected at event %s, expected %d" % (name, where.get(name), at))
    ctx.cov["binding_demo"] = "recorded run accepted; variants rejected at the expected event: " + ", ".join(k for k in variants if k != "original")


# ------------------------------------------------------------------------------------------------ packer loop / solo
PL_TIMING = ("T_NoStalePack", "T_NotLate")       # judged with margins on a busy machine: confirmed by a second recording


def _record(ctx, mode, extra, label, binp=None):
    return run_driver(ctx, ["-mode", mode, "-seed", str(ctx.seed)] + extra, label, binp=binp)


PL_STALL_MS = 250       # if the harness's own 20 ms timer was ever this late, the machine was too busy to judge timing


def _pl_stall(events):
    return max([e.get("stall", 0) for e in events if e.get("e") == "End"] or [0])


def _pl_validate(ctx, events, out, name, timing=True):
    """Trace_PackerLoop on a recording.  timing=False: only the rules that do not depend on scheduling delays."""
    path = os.path.join(out, name + ".ndjson")
    write_ndjson(path, events)
    cfg = _cfg_text("Trace_PackerLoop.cfg")
    if not timing:
        cfg = "\n".join(l for l in cfg.splitlines() if not any(t in l for t in PL_TIMING)) + "\n"
    r = ctx.tlc("rules", "Trace_PackerLoop", cfg="tpl.cfg", workers=1, timeout=300, dfs=True, count=False,
                files={"trace.ndjson": path, "tpl.cfg": cfg}, label="trace:" + name)
    if r.timeout:
        raise Infra("packer loop trace validation timed out")
    n = len(events)
    if r.invariant:
        m = re.findall(r"(\d+) states generated", r.out)
        return False, int(m[-1]) - 2 if m else None, n, r
    m = re.findall(r'TRACE-HWM",? (-?\d+),? (\d+)', r.out)
    if not m:
        raise Infra("Trace_PackerLoop did not report a high-water mark:\n" + r.out[-2000:])
    hwm = int(m[-1][0])
    return hwm == n and r.error is None and r.rc == 0, (None if hwm == n else hwm), n, r


def packer_loop_and_solo(ctx, acc):
    """specs/rules/PackerLoop.tla + Solo.tla: exhaustive model, teeth, real-time binding of the real Node.Run packer loop and
    of the real solo engine (both drivers run while TLC works), trace validation, binding demonstration."""
    import threading
    q = ctx.quick
    box = {}

    binp = ctx.build("production")      # once, before the threads: a running binary must not be re-linked

    def bg(key, mode, extra):
        try:
            box[key] = _record(ctx, mode, extra, key, binp=binp)
        except Exception as e:                      # re-raised in the main thread
            box[key] = e
    ths = [threading.Thread(target=bg, args=("packerloop", "packerloop", ["-runs", "3" if q else "6", "-blocks", "16" if q else "40"])),
           threading.Thread(target=bg, args=("solo", "solo", ["-blocks", "7"]))]
    for t in ths:
        t.start()
    try:
        ctx.tlc_must_hold("rules", "MC_PackerLoop", cfg="MC_PackerLoop_quick.cfg" if q else "MC_PackerLoop_thorough.cfg", workers=4,
                          timeout=1500, label="packer loop, exhaustive")
        for cfg in ("MC_Solo_ondemand.cfg", "MC_Solo_interval.cfg"):
            ctx.tlc_must_hold("rules", "Solo", cfg=cfg, workers=1, timeout=120, label="solo, exhaustive")
        shown = []
        for rules, inv in (("NoRecheck", "NoStalePack"),) + ((("NoWindow", "SlotTolerance"),) if not q else ()):
            t = "\n".join(l for l in _cfg_text("MC_PackerLoop_quick.cfg").splitlines() if not l.startswith("INVARIANT"))
            t = t.replace("Rules <- AllRules", "Rules <- " + rules) + "\nINVARIANT %s\n" % inv
            r = ctx.tlc("rules", "MC_PackerLoop", cfg="teeth.cfg", workers=2, timeout=300, count=False, label="packer loop teeth " + rules,
                        files={"teeth.cfg": t})
            if r.invariant != inv:
                raise Infra("packer loop teeth: without %s the invariant %s still holds (%s)" % (rules, inv, r.invariant or r.error))
            shown.append("%s: %s violated after %d states" % (rules, inv, r.distinct))
        if not q:
            for cfg, mod, inv in (("MC_PackerLoop_thorough.cfg", "MC_PackerLoop", "X_OnePerSecond"), ("MC_Solo_ondemand.cfg", "Solo", "X_AlwaysAccepted")):
                t = "\n".join(l for l in _cfg_text(cfg).splitlines() if not l.startswith("INVARIANT")) + "\nINVARIANT %s\n" % inv
                r = ctx.tlc("rules", mod, cfg="x.cfg", workers=2, timeout=600, count=False, label="design fact " + inv, files={"x.cfg": t})
                if r.invariant != inv:
                    raise Infra("%s was expected to be refuted" % inv)
                shown.append("%s refuted (a fact of the design, see the module)" % inv)
        ctx.cov["packerloop_teeth"] = shown
    finally:
        for t in ths:
            t.join()
    for k in ("packerloop", "solo"):
        if isinstance(box.get(k), Exception):
            raise box[k]
    # ---- packer loop: what the driver decided alone, then the trace specification
    res, events, out = box["packerloop"]
    if res is not None:
        how = {"args": ["-mode", "packerloop", "-runs", "3", "-blocks", "16", "-seed", str(ctx.seed)], "seed": ctx.seed,
               "note": "real-time run: a replay records a new run with the same schedule seed"}
        judge(ctx, res, events, "packerloop", how, acc)
        stall = _pl_stall(events)
        ctx.cov["packerloop_worst_timer_delay_ms"] = stall
        timing = stall <= PL_STALL_MS
        if not timing:
            ctx.cov["packerloop_timing_rules_not_judged"] = "the harness's own timer was %d ms late: machine too busy" % stall
        accepted, pos, ln, r = _pl_validate(ctx, events, out, "packerloop", timing)
        if not accepted:
            inv = r.invariant
            if inv is None:
                raise Infra("packer loop trace: event %s is not a step of Trace_PackerLoop: %s" % (pos, json.dumps(events[min(pos or 0, len(events) - 1)])[:300]))
            confirmed = True
            if inv in PL_TIMING:
                # a wall-clock rule: it has to fail, the same rule, on two further recordings with other schedules, each made
                # on a machine that was not stalled; otherwise it is counted and not reported
                for k in (1, 2):
                    res2, events2, out2 = run_driver(ctx, ["-mode", "packerloop", "-seed", str(ctx.seed * 1000 + k), "-runs", "3", "-blocks", "16"],
                                                     "packerloop-again%d" % k)
                    if res2 is None or _pl_stall(events2) > PL_STALL_MS:
                        confirmed = False
                        break
                    acc2, pos2, ln2, r2 = _pl_validate(ctx, events2, out2, "packerloop-again%d" % k)
                    if acc2 or r2.invariant != inv:
                        confirmed = False
                        break
                if not confirmed:
                    ctx.cov["packerloop_unconfirmed_timing_alarm"] = inv
            if confirmed:
                rp = ctx.save_replay("packerloop-%s-seed%d.json" % (inv, ctx.seed), {"how": how, "signature": "packerloop:" + inv, "offending_index": pos,
                                                                                      "offending_event": events[min(pos or 0, len(events) - 1)], "trace": events})
                ctx.report("packerloop:" + inv, "the real packer loop (Node.Run) breaks %s of Trace_PackerLoop.tla at event #%s %s"
                           % (inv, pos, json.dumps(events[min(pos or 0, len(events) - 1)])[:300]), rp)
        else:
            acc["traces_accepted"] = acc.get("traces_accepted", 0) + len(res["runInfo"])
            acc["events_validated"] = acc.get("events_validated", 0) + ln
            # binding demonstration on this very recording
            packs = [i for i, e in enumerate(events) if e["e"] == "Pack"]
            if len(packs) >= 2:
                a = [dict(e) for e in events]
                a[packs[-1]]["at"] -= 3000
                b = [e for i, e in enumerate(events) if i != packs[0]]
                for name, evs, want in (("early-pack", a, "T_NotEarly"), ("deleted-pack", b, None)):
                    ok, p2, _, r2 = _pl_validate(ctx, evs, out, name)
                    if ok or (want and r2.invariant != want):
                        raise Infra("packer loop binding demonstration failed: variant %s gives %s" % (name, "accepted" if ok else r2.invariant))
                ctx.cov["packerloop_binding_demo"] = "recorded run accepted; early-pack (T_NotEarly) and deleted-pack variants rejected"
        ctx.cov["packerloop_own_blocks"] = res["blocks"]
    # ---- solo
    res, events, out = box["solo"]
    if res is not None:
        how = {"args": ["-mode", "solo", "-blocks", "7", "-seed", str(ctx.seed)], "seed": ctx.seed}
        judge(ctx, res, events, "solo", how, acc)
        path = os.path.join(out, "solo.ndjson")
        write_ndjson(path, events)
        accepted, pos, ln, r = validate_trace(ctx, path, timeout=300, module="Trace_Solo")
        if not accepted and not res["violations"]:
            ev = events[min(pos or 0, len(events) - 1)]
            rp = ctx.save_replay("solo-trace-seed%d.json" % ctx.seed, {"how": how, "signature": "solo:trace", "offending_index": pos, "offending_event": ev, "trace": events})
            ctx.report("solo:trace:" + str(ev.get("mode")), "the real solo engine made a block Solo.tla does not allow, or a cold validator answers "
                       "differently from the rule: event #%s %s" % (pos, json.dumps(ev)[:300]), rp)
        elif accepted:
            acc["traces_accepted"] = acc.get("traces_accepted", 0) + 2
            blks = [i for i, e in enumerate(events) if e["e"] == "SoloBlock"]
            c = [dict(e) for e in events]
            c[blks[-1]]["ok"] = not c[blks[-1]]["ok"]
            p2 = os.path.join(out, "solo-flipped.ndjson")
            write_ndjson(p2, c)
            ok, _, _, _ = validate_trace(ctx, p2, timeout=300, module="Trace_Solo")
            if ok:
                raise Infra("solo binding demonstration failed: a flipped verdict was accepted")
            ctx.cov["solo_binding_demo"] = "recorded run accepted; flipped-verdict variant rejected"
        ctx.cov["solo_blocks"] = res["blocks"]
