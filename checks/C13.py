"""C13 - a crash at any point of block import leaves a consistent, resumable node.  DESIGN section 5 (C13)."""
import json
import os

from verifkit import Infra, read_ndjson, write_ndjson

PROBLEMS = [("restart_error", "restart-failed"), ("incomplete", "best-incomplete"), ("state_diff", "state-differs"),
            ("logs_diff", "logdb-differs"), ("finality_contradiction", "finality-contradiction"),
            ("diverged", "resume-diverges"), ("import_errors", "import-error-after-crash"), ("tx_lookup", "tx-lookup-inconsistent"),
            ("broadcast", "broadcast-before-durable"), ("own_diff", "own-block-differs-after-restart")]


def run_stream(ctx, binp, seed, blocks, maxcuts, double, wedge=False, sideways=False):
    out = ctx.tmp("cuts-%d%s" % (seed, "w" if wedge else "s" if sideways else ""))
    argv = [binp, "-out", out, "-seed", str(seed), "-blocks", str(blocks), "-maxcuts", str(maxcuts)]
    if double:
        argv.append("-double")
    if wedge:
        argv.append("-wedge")
    if sideways:
        argv.append("-sideways")
    rc, o = ctx.run(argv, timeout=1800)
    if rc == 3:
        raise Infra("crashcuts harness error: " + o[-1500:])
    if rc != 0:
        if rc is not None and "panic:" in o:
            rp = ctx.save_replay("panic-seed%d.txt" % seed, o[-20000:])
            ctx.report("panic:crashcuts", "real code panicked outside a crash point (seed %d): %s" % (seed, o.strip().splitlines()[:2]), rp)
            return None
        raise Infra("crashcuts failed rc=%s: %s" % (rc, o[-2000:]))
    d = json.load(open(os.path.join(out, "cuts.json")))
    events = read_ndjson(os.path.join(out, "trace.ndjson"))
    how = dict(seed=seed, blocks=blocks, maxcuts=maxcuts, double=double, wedge=wedge, sideways=sideways)
    if d.get("engine_contract"):
        # thor's LevelEngine.Bulk no longer is one atomic batch: the writes the import relies on can be split by a crash
        rp = ctx.save_replay("seed%d-engine-contract.json" % seed, {"how": how, "engine_contract": d["engine_contract"]})
        ctx.report("bulk-not-atomic", "muxdb/engine bulk contract (nothing visible before Write unless auto-flush) violated: " + d["engine_contract"], rp)
    flagged = set()
    for c in d["cuts"]:
        for key, sig in PROBLEMS:
            if c.get(key):
                flagged.add(c["k"])
                phases = c.get("crash_phases") or [c["phase"]]
                phase = "q" if "q" in phases else phases[0]
                signature = "%s:%s" % (sig, phase)
                if key == "import_errors":
                    # what failed is part of the signature: F2's missing quality can make a later CommitBlock fail in
                    # findCheckpointByQuality; any other import error after a crash is a different defect
                    txt = " ".join(c[key])
                    signature += ":find-by-quality" if "by quality" in txt else ":other"
                rp = ctx.save_replay("seed%d-cut%d%s-%s.json" % (seed, c["k"], "-" + c["variant"] if c.get("variant") else "", sig), {"how": how, "cut": c})
                ctx.report(signature, "seed %d cut %d (crash before a '%s' write of block %d): %s: %s" %
                           (seed, c["k"], c["phase"], c["inflight"], sig, c[key]), rp)
    # ---- every recorded run must be a behaviour of ImportCrash.tla
    cfg, runs = events[0], []
    for e in events[1:]:
        if e["e"] == "Reset":
            runs.append([])
        runs[-1].append(e)
    # the sibling-first variants deliver a different order after the restart than the spec's Resume: they are judged by
    # the driver's oracles only (complete best, log db = chain, tx lookups, convergence), not by the trace spec
    runs = [r for r in runs if not r[0].get("novalidate")]
    pending = list(range(len(runs)))
    guard = 0
    while pending:
        guard += 1
        evs = [cfg] + [e for k in pending for e in runs[k]]
        path = os.path.join(out, "val-%d.ndjson" % guard)
        write_ndjson(path, evs)
        accepted, hwm, ln, r = ctx.validate_trace("store", "Trace_ImportCrash", path, timeout=1500, heap="6g",
                                                  files={"BFTOps.tla": os.path.join(os.path.dirname(os.path.dirname(os.path.abspath(__file__))), "specs/bft/BFTOps.tla")})
        ctx.cov["states"] += r.distinct
        ctx.cov["transitions"] += r.generated
        if accepted:
            ctx.cov["traces_validated_against_impl"] += len(pending)
            break
        pos, bad = 1, None
        for idx, k in enumerate(pending):
            n = len(runs[k])
            if hwm < pos + n:
                bad, off = k, hwm - pos
                break
            pos += n
        if bad is None:
            raise Infra("trace rejected but the offending run was not found (hwm=%d len=%d)\n%s" % (hwm, ln, r.out[-1500:]))
        cut = runs[bad][0]
        ev = runs[bad][off]
        ctx.cov["traces_validated_against_impl"] += pending.index(bad)
        if cut["k"] not in flagged:
            what = "invariant %s violated" % r.invariant if r.invariant else "event not allowed by ImportCrash.tla"
            brief = {k: v for k, v in ev.items() if k not in ("b", "best", "fin", "quals", "logs")}
            rp = ctx.save_replay("seed%d-cut%d-trace.json" % (seed, cut["k"]),
                                 {"how": how, "cut": cut, "offending_index": off, "offending_event": ev, "tlc": what, "trace": runs[bad]})
            ctx.report("trace-rejected:%s:%s" % (cut.get("phase"), r.invariant or ev.get("e")),
                       "seed %d cut %d (phase %s): event #%d %s -> %s" % (seed, cut["k"], cut.get("phase"), off, json.dumps(brief, sort_keys=True), what), rp)
        ctx.cov["rejected_runs"] = ctx.cov.get("rejected_runs", 0) + 1
        pending = pending[pending.index(bad) + 1:]
        if guard > 40:
            ctx.cov["validation_stopped_early"] = True
            break
    return d


def binding_demo(ctx, binp):
    out = ctx.tmp("demo")
    rc, o = ctx.run([binp, "-out", out, "-seed", str(ctx.seed + 99), "-blocks", "9", "-maxcuts", "6"], timeout=600)
    if rc != 0:
        raise Infra("crashcuts failed in binding demo: " + o[-1000:])
    events = read_ndjson(os.path.join(out, "trace.ndjson"))
    # keep the config and the last run (cut = no crash ... or any), corrupt / delete
    cfg, runs = events[0], []
    for e in events[1:]:
        if e["e"] == "Reset":
            runs.append([])
        runs[-1].append(e)
    run = runs[0]
    blk = [i for i, e in enumerate(run) if e["e"] == "W" and e["cls"] == "blk"]
    done = [i for i, e in enumerate(run) if e["e"] == "Done"]
    if not blk or not done:
        raise Infra("binding demo: run too short")
    variants = {}
    j = blk[len(blk) // 2]
    variants["deleted-block-write"] = run[:j] + run[j + 1:]
    sw = [dict(e) for e in run]
    i = blk[-1]
    if i > 0 and sw[i - 1]["e"] == "W" and sw[i - 1]["cls"] == "idx":
        sw[i - 1], sw[i] = sw[i], sw[i - 1]          # block bulk before its index trie
        variants["reordered-writes"] = sw
    c = [dict(e) for e in run]
    c[done[-1]]["best"] = c[done[0]]["best"]
    variants["corrupted-best"] = c
    for name, evs in variants.items():
        path = os.path.join(out, name + ".ndjson")
        write_ndjson(path, [cfg] + evs)
        accepted, hwm, ln, r = ctx.validate_trace("store", "Trace_ImportCrash", path, timeout=300,
                                                  files={"BFTOps.tla": os.path.join(os.path.dirname(os.path.dirname(os.path.abspath(__file__))), "specs/bft/BFTOps.tla")})
        if accepted:
            raise Infra("binding demonstration failed: %s trace was accepted by Trace_ImportCrash" % name)
    ctx.cov["binding_demo"] = "rejected as they must be: " + ", ".join(sorted(variants))


def startup_guard(ctx):
    """The restart of the crash-cut runs replays thor's start-up sequence (sim.OpenStack): repository, log-db
    resynchronisation by thor's own syncLogDB (taken from the tree under test), bft engine, node.  cmd/thor/main.go is
    package main and cannot be linked, so the order itself is bound here textually: the functions the harness calls
    must still be called by defaultAction, in that order, before the node is built.  A function that still exists but
    is no longer called at start-up is an observation on the code (the node would come up without it); anything else
    that does not match (renamed helpers, moved code) only means this harness must be updated: exit 2."""
    import re
    try:
        main = open(os.path.join(ctx.repo, "cmd/thor/main.go")).read()
        synclog = open(os.path.join(ctx.repo, "cmd/thor/sync_logdb.go")).read()
    except OSError as e:
        raise Infra("cannot read thor's start-up code: %s" % e)
    m = re.search(r"func defaultAction\(.*?\n}\n", main, re.S)
    if not m:
        raise Infra("cmd/thor/main.go: defaultAction not found - the start-up replay of the harness must be re-derived")
    body = m.group(0)
    pos = {name: body.find(name) for name in ("initChainRepository(", "syncLogDB(", "bft.NewEngine(", "node.New(")}
    if pos["syncLogDB("] < 0:
        if re.search(r"^func syncLogDB\(", synclog, re.M):
            rp = ctx.save_replay("startup-sequence.txt", body[:6000])
            ctx.report("startup-sequence:log-db-not-resynchronised", "cmd/thor/main.go defaultAction no longer calls syncLogDB although "
                       "the function exists: after a crash between the log-db commit and the block bulk the node comes up with "
                       "a log db that is not the canonical chain's", rp)
            return
        raise Infra("syncLogDB is gone from cmd/thor: the start-up replay of the harness must be re-derived")
    missing = [k for k, v in pos.items() if v < 0]
    if missing:
        raise Infra("defaultAction no longer contains %s: the start-up replay of the harness must be re-derived" % missing)
    if not (pos["initChainRepository("] < pos["syncLogDB("] < pos["node.New("] and pos["bft.NewEngine("] < pos["node.New("]):
        rp = ctx.save_replay("startup-sequence.txt", body[:6000])
        ctx.report("startup-sequence:order", "cmd/thor/main.go defaultAction: repository, log-db resynchronisation and bft engine are no "
                   "longer set up in that order before the node is built (positions %s)" % pos, rp)
    ctx.cov["startup_sequence_bound"] = "initChainRepository < syncLogDB < node.New and bft.NewEngine < node.New in defaultAction"


def run(ctx):
    q = ctx.quick
    startup_guard(ctx)
    bft_ops = {"BFTOps.tla": os.path.join(os.path.dirname(os.path.dirname(os.path.abspath(__file__))), "specs/bft/BFTOps.tla")}
    # 1. design level: every cut of every import of the model stream (one fork, late sibling of a store point,
    #    4 epochs), up to 2 crashes; every cut except the F2 class converges
    ctx.tlc_must_hold("store", "MC_ImportCrash", cfg="MC_ImportCrash.cfg", timeout=900, files=bft_ops,
                      label="all cuts, <= 2 crashes")
    r = ctx.tlc("store", "MC_ImportCrash", cfg="MC_ImportCrash_F2.cfg", timeout=900, files=bft_ops,
                label="regression: the spec reproduces F2", count=False)
    if r.invariant != "ResumeConvergesAlsoF2":
        raise Infra("the specification without the start-up repair no longer reproduces finding F2 (expected ResumeConvergesAlsoF2 to be violated): %s"
                    % (r.invariant or r.error or "no violation"))
    ctx.cov["f2_reproduced_in_spec"] = True
    # 2. real code: cut enumeration
    binp = ctx.build("crashcuts")
    binding_demo(ctx, binp)
    streams = 3 if q else 60
    cuts = phases = 0
    seen_phases = {}
    for s in range(streams):
        seed = ctx.seed * 1000 + s
        blocks = 12 + (s % 3) * 3 if q else 12 + (s % 5) * 4
        d = run_stream(ctx, binp, seed, blocks, 0 if q or s % 4 == 0 else 80, double=(s % 2 == 1))
        if d is None:
            continue
        cuts += len(d["cuts"])
        for c in d["cuts"]:
            seen_phases[c["phase"]] = seen_phases.get(c["phase"], 0) + 1
        ctx.sample({"seed": seed, "writes": d["writes"], "blocks": d["blocks"], "pos": d["pos"], "refFin": d["refFin"],
                    "cuts": [dict(k=c["k"], phase=c["phase"], inflight=c["inflight"]) for c in d["cuts"][:4]]}, limit=3)
    # the shape in which a missing quality does most harm (F2, repaired by 59e8b72): long justified-but-uncommitted prefix,
    # commits at the end, a crash at every quality write
    for s in range(1 if q else 6):
        d = run_stream(ctx, binp, ctx.seed * 1000 + 500 + s, 26 + 3 * s, 0, double=False, wedge=True)
        if d is not None:
            cuts += len(d["cuts"])
            ctx.cov["wedge_streams_q_cuts"] = ctx.cov.get("wedge_streams_q_cuts", 0) + len(d["cuts"])
    # a stale committed side head that conflicts with the finalized checkpoint (more than a third double COM votes): every
    # restart after the other branch took over must leave the finalized checkpoint where it is (0220b12)
    for s in range(1 if q else 4):
        d = run_stream(ctx, binp, ctx.seed * 1000 + 700 + s, 0, 12 if q else 0, double=False, sideways=True)
        if d is not None:
            cuts += len(d["cuts"])
            ctx.cov["sideways_streams_cuts"] = ctx.cov.get("sideways_streams_cuts", 0) + len(d["cuts"])
    ctx.cov["evaluations"] = cuts
    ctx.cov["distinct_nontrivial"] = cuts - seen_phases.get("none", 0)
    ctx.cov["cuts_by_phase"] = seen_phases
    ctx.cov["streams"] = streams
    ctx.cov["exhaustive"] = bool(q)
    ctx.cov["rule"] = ("one evaluation = one (stream, cut k) pair: a fresh real node imports the seeded stream and dies between durable "
                       "write k-1 and k, is restarted with thor's start-up sequence and resumed; all cuts of a stream are enumerated "
                       "(quick: every cut of %d streams; thorough: every cut or a seeded sample of 80 per stream, some with a second "
                       "crash while resuming); non-trivial = the crash happens inside an import" % streams)
    ctx.level = "fault_enumeration"
    ctx.assumptions += [
        "one kv batch (leveldb write batch) is atomic and batches become durable in issue order",
        "a committed sqlite transaction of the log db is durable and atomic",
        "a crash is modelled as the process stopping before a kv write; torn writes inside a batch are excluded",
    ]
