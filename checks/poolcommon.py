"""C18 machinery: TLC jobs on specs/net/TxPool.tla, behaviour export + replay on the real pool (model -> implementation),
recorded traces of the real pool validated with Trace_TxPool.tla (implementation -> model).  Driver: harness/cmd/poolsim."""
import json
import os
import re

from verifkit import Infra, read_ndjson, write_ndjson

F6_SIGNATURE = "cost-drift:promote-of-removed-object"
# wash leaves a priced object with a priority that is not the one for the head it works on (refresh rule of the pinned code)
STALE_PRIO_SIGNATURE = "order:stale-priority-after-head-change"
# the one residual shape (known finding): an Add priced under head b0 and inserted after the head moved to b1 and after b1's
# wash took its snapshot keeps b0's priority until the next head change
RACED_ADD_SIGNATURE = "order:stale-priority:add-raced-head-change"


def report_once(ctx, sig, what, save):
    """One report (and one artefact) per signature; further occurrences are only counted. save() -> replay path."""
    seen = ctx.cov.setdefault("_reported", {})
    if sig in seen:
        seen[sig] += 1
        return
    seen[sig] = 1
    ctx.report(sig, what, save())


# ------------------------------------------------------------------------------------------------- TLC output

def grab(out, tag):
    """Values TLC printed with PrintT(<<tag, ToJson(v)>>)."""
    res = []
    for m in re.finditer(r'<<"%s", "((?:[^"\\]|\\.)*)">>' % tag, out):
        res.append(json.loads(json.loads('"' + m.group(1) + '"')))
    return res


def beh_file(path, universe, behs):
    json.dump({"limit": universe["limit"], "lpa": universe["lpa"], "lifetime": universe["lifetime"],
               "variant": universe.get("variant", "base"),
               "txs": universe["txs"], "heads": universe["heads"], "behs": behs}, open(path, "w"))


def run_poolsim(ctx, args, timeout, what):
    """poolsim exit codes: 0 ok; 3 harness trouble (its own panics, hangs, slow machine ...) -> Infra; 4 a fault of the real
    code attributed by the driver itself (panic raised inside thor, goroutine stuck on a thor lock; stacks in the output)
    -> violation.  Anything else (OOM kill, Go runtime fatal error, timeout) is infrastructure trouble, never a verdict -
    except the one runtime fatal error that is thor's doing: concurrent map access inside the txpool package."""
    binp = ctx.build("poolsim")
    rc, o = ctx.run([binp] + args, timeout=timeout)
    if rc == 0:
        return o
    if rc == 4:
        m = re.search(r"THOR-FAULT kind=(\w+) where=(.*)", o)
        kind = m.group(1) if m else "fault"
        rp = ctx.save_replay("%s-%s-seed%d.txt" % (kind, what, ctx.seed), o[-60000:])
        report_once(ctx, "%s:%s" % (kind, what),
                    "real code %s in poolsim (%s): %s" % ("panicked" if kind == "panic" else "is stuck", what,
                                                         m.group(0)[:300] if m else o[-300:]), lambda: rp)
        return None
    if rc is not None and "fatal error: concurrent map" in o and "thor/v2/txpool." in o.split("fatal error: concurrent map")[1][:4000]:
        rp = ctx.save_replay("mapaccess-%s-seed%d.txt" % (what, ctx.seed), o[-60000:])
        report_once(ctx, "fatal:concurrent-map:" + what, "Go runtime: concurrent map access inside thor/v2/txpool (%s)" % what, lambda: rp)
        return None
    if rc == 3:
        raise Infra("poolsim harness error (%s): %s" % (what, o[-1500:]))
    raise Infra("poolsim failed rc=%s (%s): %s" % (rc, what, o[-2000:]))


# ------------------------------------------------------------------------------- regression: the code as it is (F6)

def asis_counterexamples(ctx):
    """The config that models promote as the code has it (presence by hash) MUST violate CostExact; its absence means the
    specification no longer describes the mechanism -> exit 2.  Returns the universe and the counterexample histories."""
    r = ctx.tlc("net", "MCPool", cfg="MCPool_asis.cfg", workers=1, timeout=300, count=False,
                label="regression: promote checks presence by hash (expected violation)")
    if r.timeout or r.invariant != "CostExactOrExport":
        raise Infra("MCPool_asis.cfg (promote by hash) is expected to violate CostExact but TLC said: %s\n%s"
                    % (r.invariant or r.error or "no error", r.out[-1500:]))
    uni, behs = grab(r.out, "UNIVERSE"), grab(r.out, "F6")
    if not uni or not behs:
        raise Infra("MCPool_asis.cfg: counterexample history not found in TLC output")
    ctx.cov["expected_violation_config"] = "MCPool_asis.cfg: CostExact violated after %d steps (%s)" % (
        len(behs[0]), " ".join(s["a"] for s in behs[0]))
    return uni[0], behs


def teeth_dupcheck(ctx):
    """Add at the grain of the map (lock-free prefix, then the critical section): with the duplicate test moved out of the
    critical section two submissions of one tx both insert - the model must show the bookkeeping break (else exit 2)."""
    r = ctx.tlc("net", "MCPool", cfg="MCPool_dupcheck.cfg", workers=1, timeout=300, count=False,
                label="teeth: duplicate test outside the critical section (expected violation)")
    if r.timeout or r.invariant != "QuotaExactOrExport":
        raise Infra("MCPool_dupcheck.cfg is expected to violate QuotaExact but TLC said: %s\n%s"
                    % (r.invariant or r.error or "no error", r.out[-1500:]))
    beh = grab(r.out, "DUPCHECK")
    ctx.cov["teeth_dupcheck_outside_lock"] = "QuotaExact violated after %d steps (%s)" % (
        len(beh[0]) if beh else -1, " ".join(s["a"] for s in beh[0]) if beh else "?")


def replay_f6(ctx, uni, behs):
    """The TLC counterexample replayed on the REAL pool through the gate; oracle = the accounting invariants evaluated on
    VerifSnapshot after every step and after the pool has been emptied again."""
    d = ctx.tmp("f6")
    path = os.path.join(d, "f6.json")
    beh_file(path, uni, behs[:1])
    o = run_poolsim(ctx, ["-mode", "replay", "-beh", path, "-out", d, "-expect", "invariants"], 300, "f6-replay")
    if o is None:
        return
    res = json.load(open(os.path.join(d, "replay.json")))
    ctx.cov["evaluations"] += len(res["runs"])
    for run in res["runs"]:
        if run.get("discarded"):
            raise Infra("the F6 regression replay was too slow for its wall-clock facts: " + run["discarded"])
        ctx.cov["traces_validated_against_impl"] += 1
        if run.get("violations"):
            v = run["violations"][0]
            sig = F6_SIGNATURE if run.get("stalePromotes", 0) > 0 else "f6-replay:" + v["kind"]
            last = run["violations"][-1]
            report_once(ctx, sig, "promote re-accounted an object that is no longer pooled (tx removed and re-added during wash): "
                        "step %d of the replayed TLC counterexample: %s; after emptying the pool: %s"
                        % (v["index"], v["detail"], last["detail"]),
                        lambda: ctx.save_replay("f6-counterexample.json", {
                            "how": "bin/check C18 (TLC counterexample of MCPool_asis.cfg replayed on the real pool)",
                            "universe": uni, "behaviour": behs[0], "result": run, "offending_index": v["index"]}))
        ctx.sample({"f6_counterexample_actions": run["actions"], "violations_on_real_pool": len(run.get("violations") or [])})
    tpath = path + ".trace.ndjson"
    if os.path.exists(tpath) and not ctx.violations:
        # on a tree where promote compares identity the replayed counterexample is an ordinary behaviour: its trace must be accepted
        validate_events(ctx, read_ndjson(tpath), None, "f6-replay-trace", dict(source="trace of the replayed F6 counterexample"), count=False)


# ------------------------------------------------------------------------------------------- model -> implementation

def export_and_replay(ctx, num, depth=31, label="export", cfg="MCPool_export.cfg"):
    r = ctx.tlc("net", "MCPool", cfg=cfg, workers=1, timeout=900, simulate="num=%d" % num, depth=depth,
                count=False, label="behaviour export (simulation)")
    if r.timeout or r.invariant or (r.error and "BEH" not in r.out):
        raise Infra("behaviour export failed: %s\n%s" % (r.invariant or r.error, r.out[-1500:]))
    uni, behs = grab(r.out, "UNIVERSE"), grab(r.out, "BEH")
    if not uni or not behs:
        raise Infra("no behaviours exported")
    # distinct behaviours only (TLC prints every candidate successor at the bound)
    seen, uniq = set(), []
    for b in behs:
        k = json.dumps(b, sort_keys=True)
        if k not in seen:
            seen.add(k)
            uniq.append(b)
    d = ctx.tmp("replay-" + label)
    path = os.path.join(d, "behs.json")
    beh_file(path, uni[0], uniq)
    o = run_poolsim(ctx, ["-mode", "replay", "-beh", path, "-out", d, "-expect", "state"], 1800, "replay")
    if o is None:
        return []
    res = json.load(open(os.path.join(d, "replay.json")))
    nontrivial = set()
    for run in res["runs"]:
        if run.get("discarded"):
            ctx.cov["runs_discarded_slow"] = ctx.cov.get("runs_discarded_slow", 0) + 1
            continue
        ctx.cov["evaluations"] += 1
        mm = run.get("mismatch")
        if mm is None and not run.get("violations"):
            ctx.cov["traces_validated_against_impl"] += 1
            if run.get("midWashOps", 0) > 0 and "WashPromote" in run["actions"]:
                nontrivial.add(run["key"])
            continue
        beh = uniq[run["index"]]
        if mm is not None:
            stale = mm.get("stalePromote") or (mm["action"] == "WashPromote" and "real ok, model miss" in mm["detail"])
            sig = F6_SIGNATURE if stale else "replay-mismatch:%s:%s" % (mm["action"], mm["kind"])
            if not stale and run.get("stalePrios", 0) > 0 and mm["action"] in ("WashLimit", "WashPublish", "WashKeep", "WashPromote"):
                sig = STALE_PRIO_SIGNATURE      # the lists differ because the real pool sorted by an outdated priority
            what = "behaviour of TxPool.tla replayed on the real pool diverges at step %d (%s): %s" % (mm["step"], mm["action"], mm["detail"])
            idx = mm["step"]
        else:
            v = run["violations"][0]
            sig = F6_SIGNATURE if run.get("stalePromotes", 0) > 0 else "replay-invariant:" + v["kind"]
            what = "accounting drift on the real pool at step %d of a replayed behaviour: %s" % (v["index"], v["detail"])
            idx = v["index"]
        # an observable must differ: state mismatches are about quota / cost / flags / pool contents (the accounting snapshot),
        # verdict mismatches about Add errors and wash drops; 'flow' (which lock site wash reaches next) is internal -> spec drift
        if mm is not None and mm["kind"] == "flow":
            # not an observable by itself; if nothing observable differs anywhere in this check it is spec drift (exit 2)
            ctx.cov.setdefault("flow_mismatches", []).append(what)
            continue
        report_once(ctx, sig, what, lambda: ctx.save_replay(
            "replay-%s-beh%d-seed%d.json" % (label, run["index"], ctx.seed),
            {"how": "poolsim -mode replay -expect state", "universe": uni[0], "behaviour": beh, "result": run, "offending_index": idx}))
    ctx.cov["behaviours_replayed"] = ctx.cov.get("behaviours_replayed", 0) + len(res["runs"])
    ctx.cov["replayed_steps"] = ctx.cov.get("replayed_steps", 0) + res["steps"]
    # the traces of the replays themselves are valid traces of the pool: validate them too (three-way consistency)
    tpath = path + ".trace.ndjson"
    if os.path.exists(tpath) and not ctx.violations:
        events = read_ndjson(tpath)
        validate_events(ctx, events, None, "replay-trace-" + label, dict(source="traces of the replayed behaviours"), count=False)
    if uniq:
        ctx.sample({"replayed_behaviour": [s["a"] for s in uniq[0]]})
    return nontrivial


# ------------------------------------------------------------------------------------------- implementation -> model

def split_runs(events):
    runs, cur = [], None
    for i, e in enumerate(events):
        if e["e"] == "Reset":
            cur = {"start": i, "events": []}
            runs.append(cur)
        cur["events"].append(e)
    return runs


def signature(ev, invariant, run_events, off):
    if ev.get("stale") or any(e.get("stale") for e in run_events[:off + 1]):
        return F6_SIGNATURE
    marks = [e.get("staleprio") for e in run_events[:off + 1] if e.get("staleprio")]
    if True in marks:
        return STALE_PRIO_SIGNATURE
    if marks:
        return RACED_ADD_SIGNATURE
    if invariant:
        return "invariant:" + invariant
    return "rejected:" + str(ev.get("e"))


def validate_events(ctx, events, stats, label, how, count=True):
    """Validate a concatenated trace; isolate a rejected run, confirm the rejection on that run alone, report it, continue."""
    runs = split_runs(events)
    pending = list(range(len(runs)))
    accepted_runs = []
    guard = 0
    while pending:
        guard += 1
        if guard > 6:
            ctx.cov["validation_stopped_early"] = "more than 6 rejected runs in batch %s; remaining runs not validated" % label
            break
        evs = [e for k in pending for e in runs[k]["events"]]
        path = os.path.join(ctx.tmp("val-" + label), "trace-%d.ndjson" % guard)
        write_ndjson(path, evs)
        accepted, hwm, ln, r = ctx.validate_trace("net", "Trace_TxPool", path, timeout=1800)
        if accepted:
            accepted_runs += pending
            ctx.cov["states"] += r.distinct
            ctx.cov["transitions"] += r.generated
            break
        pos, bad, off = 0, None, 0
        for k in pending:
            n = len(runs[k]["events"])
            if hwm < pos + n:
                bad, off = k, hwm - pos
                break
            pos += n
        if bad is None:
            raise Infra("trace rejected but offending run not found (hwm=%d len=%d)\n%s" % (hwm, ln, r.out[-2000:]))
        # confirm on the run alone (guards against artefacts of the concatenation)
        solo = os.path.join(ctx.tmp("val-" + label), "solo-%d.ndjson" % guard)
        write_ndjson(solo, runs[bad]["events"])
        acc2, hwm2, ln2, r2 = ctx.validate_trace("net", "Trace_TxPool", solo, timeout=600)
        if acc2 or hwm2 != off:
            raise Infra("trace run rejected in the batch at %d but alone: accepted=%s at %d (check bug)" % (off, acc2, hwm2))
        ev = runs[bad]["events"][off]
        hdr = runs[bad]["events"][0]
        what = "invariant %s violated" % r.invariant if r.invariant else "event not allowed by the specification"
        sig = signature(ev, r.invariant, runs[bad]["events"], off)
        report_once(ctx, sig, "%s: scenario=%s mode=%s seed=%s event #%d %s -> %s" %
                    (label, hdr.get("scen"), hdr.get("mode"), hdr.get("seed"), off, json.dumps(ev, sort_keys=True)[:600], what),
                    lambda: ctx.save_replay("%s-run%d-seed%s.json" % (label, bad, hdr.get("seed")),
                                            {"how": how, "run_header": hdr, "offending_index": off, "offending_event": ev,
                                             "tlc_verdict": what, "stats": stats[bad] if stats and bad < len(stats) else None,
                                             "trace": runs[bad]["events"]}))
        ctx.cov["rejected_runs"] = ctx.cov.get("rejected_runs", 0) + 1
        idx = pending.index(bad)
        accepted_runs += pending[:idx]
        pending = pending[idx + 1:]
    if count:
        ctx.cov["traces_validated_against_impl"] += len(accepted_runs)
    return [runs[k] for k in accepted_runs]


def record_and_validate(ctx, runs, scen, sched, label, seed_offset=0):
    d = ctx.tmp("rec-" + label)
    seed = ctx.seed * 31 + seed_offset
    o = run_poolsim(ctx, ["-mode", "record", "-out", d, "-runs", str(runs), "-seed", str(seed), "-scen", scen, "-sched", sched],
                    3000, "record-" + label)
    if o is None:
        return [], []
    stats = json.load(open(os.path.join(d, "runs.json")))
    # a run whose logged wall-clock facts (sync status of its heads) no longer hold at its end is no evidence and no verdict
    ctx.cov["runs_discarded_slow"] = ctx.cov.get("runs_discarded_slow", 0) + sum(1 for s in stats if s.get("discarded"))
    stats = [s for s in stats if not s.get("discarded")]
    events = read_ndjson(os.path.join(d, "trace.ndjson"))
    ctx.cov["evaluations"] += len(stats)
    # direct oracles of the driver (accounting recomputed from the snapshot, Adopt on a real packer flow, order)
    all_runs = split_runs(events)
    for i, s in enumerate(stats):
        for v in (s.get("violations") or [])[:1]:
            drift = v["kind"] in ("cost-drift", "entries-left", "quota-drift")
            sig = F6_SIGNATURE if (drift and s.get("stalePromotes", 0) > 0) else "oracle:" + v["kind"]
            if v["kind"].startswith("order") and s.get("stalePrios", 0) > 0:
                sig = STALE_PRIO_SIGNATURE
            elif v["kind"].startswith("order") and s.get("stalePriosRaced", 0) > 0:
                sig = RACED_ADD_SIGNATURE
            report_once(ctx, sig, "%s: scenario=%s mode=%s seed=%s: %s" % (label, s["scen"], s["mode"], s["seed"], v["detail"]),
                        lambda i=i, s=s, v=v: ctx.save_replay(
                            "%s-oracle-run%d-seed%s.json" % (label, i, s["seed"]),
                            {"how": dict(scen=s["scen"], seed=s["seed"], mode=s["mode"]), "violations": s["violations"],
                             "offending_index": v["index"], "stats": s,
                             "trace": all_runs[i]["events"] if i < len(all_runs) else None}))
    # the known residual is an observation by itself: a published object carries the priority of a head that is gone
    for i, s in enumerate(stats):
        if s.get("stalePriosRaced", 0) > 0:
            ctx.cov["raced_add_stale_priorities"] = ctx.cov.get("raced_add_stale_priorities", 0) + s["stalePriosRaced"]
            evs = all_runs[i]["events"] if i < len(all_runs) else []
            off = next((k for k, e in enumerate(evs) if e.get("staleprio") == "raced"), 0)
            report_once(ctx, RACED_ADD_SIGNATURE,
                        "%s: scenario=%s mode=%s seed=%s event #%d: after a wash on an unchanged head a pooled tx still has the priority "
                        "of the head its Add evaluated against (the head moved before the Add took the map lock): %s"
                        % (label, s["scen"], s["mode"], s["seed"], off, json.dumps(evs[off], sort_keys=True)[:400] if evs else ""),
                        lambda i=i, s=s, evs=evs, off=off: ctx.save_replay(
                            "%s-raced-add-run%d-seed%s.json" % (label, i, s["seed"]),
                            {"how": dict(scen=s["scen"], seed=s["seed"], mode=s["mode"]), "offending_index": off, "stats": s, "trace": evs}))
    accepted = validate_events(ctx, events, stats, label, dict(scen=scen, seed=seed, sched=sched, runs=runs))
    if accepted:
        ctx.sample({"scenario": accepted[0]["events"][0].get("scen"), "mode": accepted[0]["events"][0].get("mode"),
                    "events": len(accepted[0]["events"]),
                    "some_lock_events": [e for e in accepted[0]["events"] if e["e"] in ("add", "remove", "promote", "add_payer")][:4]}, limit=8)
    return stats, accepted


def real_loop(ctx, runs):
    """The pool's own housekeeping goroutine (txpool.New, 1 s ticker) next to a manually driven pool: direct oracles on the
    real loop's publications; disagreement between the two with the oracles satisfied is drift of the hook's transcription."""
    d = ctx.tmp("realloop")
    o = run_poolsim(ctx, ["-mode", "realloop", "-runs", str(runs), "-seed", str(ctx.seed * 17 + 3), "-out", d], 600, "realloop")
    if o is None:
        return
    res = json.load(open(os.path.join(d, "realloop.json")))
    ok = 0
    for r in res:
        if r.get("discarded"):
            ctx.cov["runs_discarded_slow"] = ctx.cov.get("runs_discarded_slow", 0) + 1
            continue
        ctx.cov["evaluations"] += 1
        for v in (r.get("violations") or [])[:1]:
            report_once(ctx, "oracle:realloop:" + v["kind"], v["detail"],
                        lambda r=r: ctx.save_replay("realloop-seed%s.json" % r["seed"], dict(r, offending_index=r["violations"][0]["index"])))
        if r.get("drift") and not r.get("violations"):
            ctx.cov.setdefault("hook_drift", []).extend(r["drift"][:2])
        if not r.get("violations") and not r.get("drift"):
            ok += 1
            if r["washesSeen"] < 2 or r["published"] == 0:
                raise Infra("real housekeeping loop run is vacuous: %s" % r)
    ctx.cov["real_housekeeping_loop_runs"] = ok
    ctx.cov["traces_validated_against_impl"] += ok


# ---------------------------------------------------------------------------------------------------- tx stash

def stash_check(ctx, runs):
    """The node's tx stash (cmd/thor/node/tx_stash.go + txStashLoop) next to the pool: TxStash.tla exhaustively, then the real
    txStash on a scratch leveldb directory driven by the tx events of a real pool (loop body played by the driver, and the
    node's own loop with process restarts), validated by Trace_TxStash.tla.  Signatures are prefixed txstash:."""
    ctx.tlc_must_hold("net", "MCStash", cfg="MCStash.cfg", workers=4, timeout=300, label="tx stash: 3 txs, capacity 2, restarts")
    d = ctx.tmp("stash")
    o = run_poolsim(ctx, ["-mode", "stash", "-runs", str(runs), "-seed", str(ctx.seed * 13 + 1), "-out", d], 900, "stash")
    if o is None:
        return
    stats = json.load(open(os.path.join(d, "stash-runs.json")))
    ctx.cov["runs_discarded_slow"] = ctx.cov.get("runs_discarded_slow", 0) + sum(1 for s in stats if s.get("discarded"))
    stats = [s for s in stats if not s.get("discarded")]
    left = [f for f in os.listdir(d) if f.startswith("stash-") and os.path.isdir(os.path.join(d, f))]
    if left:
        raise Infra("stash scratch directories were not removed: %s" % left)
    events = read_ndjson(os.path.join(d, "stash-trace.ndjson"))
    runs_ = split_runs(events)
    ctx.cov["evaluations"] += len(stats)
    counts = {}
    for s in stats:
        for k, v in s["counts"].items():
            counts[k] = max(counts.get(k, 0), v) if k == "max_on_disk" else counts.get(k, 0) + v
    ctx.cov["txstash_counters"] = counts
    ctx.cov["txstash_events"] = len(events)

    def validate(evs, name):
        p = os.path.join(d, name + ".ndjson")
        write_ndjson(p, evs)
        return ctx.validate_trace("net", "Trace_TxStash", p, cfg="Trace_TxStash.cfg", timeout=600)

    pending = list(range(len(runs_)))
    ok = []
    for attempt in range(4):
        if not pending:
            break
        accepted, hwm, ln, r = validate([e for k in pending for e in runs_[k]["events"]], "stash-val-%d" % attempt)
        if accepted:
            ok += pending
            ctx.cov["states"] += r.distinct
            ctx.cov["transitions"] += r.generated
            break
        pos, bad, off = 0, None, 0
        for k in pending:
            n = len(runs_[k]["events"])
            if hwm < pos + n:
                bad, off = k, hwm - pos
                break
            pos += n
        if bad is None:
            raise Infra("stash trace rejected but the run was not found (hwm %d of %d)" % (hwm, ln))
        ev = runs_[bad]["events"][off]
        what = "invariant %s violated" % r.invariant if r.invariant else "event not allowed by the specification"
        sig = "txstash:invariant:" + r.invariant if r.invariant else "txstash:rejected:" + str(ev.get("e"))
        report_once(ctx, sig, "tx stash: seed=%s event #%d %s -> %s" % (runs_[bad]["events"][0].get("seed"), off,
                                                                        json.dumps(ev, sort_keys=True)[:400], what),
                    lambda: ctx.save_replay("txstash-run%d-seed%s.json" % (bad, runs_[bad]["events"][0].get("seed")),
                                            {"how": "poolsim -mode stash", "offending_index": off, "offending_event": ev,
                                             "tlc_verdict": what, "stats": stats[bad] if bad < len(stats) else None,
                                             "stash_trace": runs_[bad]["events"]}))
        i = pending.index(bad)
        ok += pending[:i]
        pending = pending[i + 1:]
    ctx.cov["traces_validated_against_impl"] += len(ok)
    ctx.cov["txstash_runs_accepted"] = len(ok)
    if ok and not ctx.violations:
        # binding demonstration: a Snap with two FIFO entries swapped, and a trace without one of the saving tx events
        evs = runs_[ok[0]]["events"]
        snaps = [i for i, e in enumerate(evs) if e["e"] == "Snap" and len(e["fifo"]) >= 2 and e["fifo"][0] != e["fifo"][1]]
        saves = [i for i, e in enumerate(evs) if e["e"] == "TxEvent" and e["exec"] != "t"]
        if not snaps or not saves:
            raise Infra("tx stash binding demonstration: the run has no suitable events")
        i = snaps[len(snaps) // 2]
        bad1 = [dict(e) for e in evs]
        f = list(bad1[i]["fifo"])
        f[0], f[1] = f[1], f[0]
        bad1[i]["fifo"] = f
        j = saves[0]
        bad2 = evs[:j] + evs[j + 1:]
        for name, b, at in (("stash-corrupted", bad1, i), ("stash-deleted", bad2, j)):
            accepted, hwm, ln, r = validate(b, name)
            if accepted or hwm > at + 40:
                raise Infra("tx stash binding demonstration failed: %s accepted=%s rejected at %d (tampered at %d)" % (name, accepted, hwm, at))
        ctx.cov["txstash_binding_demo"] = "a Snap with two FIFO entries swapped and a trace without one saving tx event were rejected"
        ctx.sample({"txstash": [e for e in evs if e["e"] in ("TxEvent", "Snap", "Start", "Stop")][:6]}, limit=9)
    return counts


def binding_demo(ctx, accepted):
    """The trace spec must have teeth: an accepted recorded run with one field corrupted and one with an event deleted must
    both be rejected (DESIGN 3.2); otherwise the check itself is broken -> Infra."""
    run = None
    for r in accepted:
        evs = r["events"]
        adds = [i for i, e in enumerate(evs) if e["e"] == "add" and e.get("x")]
        rems = [i for i, e in enumerate(evs) if e["e"] == "remove"]
        if len(adds) >= 3 and len(rems) >= 2 and evs[0].get("mode") == "sched":
            run = evs
            break
    if run is None:
        raise Infra("binding demonstration: no accepted run with enough events")
    d = ctx.tmp("demo")
    adds = [i for i, e in enumerate(run) if e["e"] == "add" and e.get("x")]
    rems = [i for i, e in enumerate(run) if e["e"] == "remove"]
    bad = [dict(e) for e in run]
    i = adds[len(adds) * 2 // 3]
    bad[i]["cp"] = bad[i]["cp"] + 1                      # the pending cost reported after an Add is off by one unit
    j = rems[len(rems) // 2]
    dele = run[:j] + run[j + 1:]                         # one RemoveByHash is missing from the trace
    for name, evs, at in (("corrupted-field", bad, i), ("deleted-event", dele, j)):
        path = os.path.join(d, name + ".ndjson")
        write_ndjson(path, evs)
        accepted_, hwm, ln, r = ctx.validate_trace("net", "Trace_TxPool", path, timeout=300)
        if accepted_:
            raise Infra("binding demonstration failed: %s trace was accepted by Trace_TxPool" % name)
        if hwm > at + 40:
            raise Infra("binding demonstration: %s trace rejected only at %d (tampered at %d)" % (name, hwm, at))
    ctx.cov["binding_demo"] = ("a recorded run with the post-state cost of one add event changed by one unit, and the same run with "
                               "one remove event deleted, were both rejected by Trace_TxPool at the tampered position")


def replay_artifact(ctx, path):
    """--replay: re-validate the trace stored in an artefact, or re-run a stored behaviour."""
    art = json.load(open(path))
    if art.get("trace"):
        p = os.path.join(ctx.tmp("replay"), "trace.ndjson")
        write_ndjson(p, art["trace"])
        accepted, hwm, ln, r = ctx.validate_trace("net", "Trace_TxPool", p, timeout=600)
        if not accepted:
            ev = art["trace"][hwm] if hwm < len(art["trace"]) else {}
            ctx.report(signature(ev, r.invariant, art["trace"], hwm), "stored trace rejected at event #%d %s" % (hwm, json.dumps(ev)[:400]), path)
        elif art.get("violations"):
            ctx.report("oracle:" + art["violations"][0]["kind"], "stored oracle violation: " + art["violations"][0]["detail"], path)
        return
    if art.get("behaviour"):
        d = ctx.tmp("replay")
        bp = os.path.join(d, "beh.json")
        beh_file(bp, art["universe"], [art["behaviour"]])
        expect = "invariants" if "f6" in os.path.basename(path) else "state"
        o = run_poolsim(ctx, ["-mode", "replay", "-beh", bp, "-out", d, "-expect", expect], 300, "replay-artifact")
        res = json.load(open(os.path.join(d, "replay.json")))
        run = res["runs"][0]
        if run.get("mismatch") or run.get("violations"):
            sig = F6_SIGNATURE if run.get("stalePromotes", 0) > 0 else "replay-mismatch"
            ctx.report(sig, "stored behaviour diverges again: %s %s" % (run.get("mismatch"), (run.get("violations") or [])[:1]), path)
        return
    raise Infra("artefact %s has neither a trace nor a behaviour" % path)
