"""Authority step of C05 (growth, DESIGN section 8): specs/builtin/Authority.tla bound to the real PoA authority
contract, scheduler.Candidates / poaCacher and the packer's proposer-list derivation.  All signatures start with
'authority:'."""
import json
import os
import shutil

from verifkit import Infra, read_ndjson, write_ndjson

SUB = "builtin"


def design_level(ctx):
    q = ctx.quick
    ctx.tlc_must_hold(SUB, "MCAuthority", cfg="MCAuthority_quick.cfg" if q else "MCAuthority_thorough.cfg", workers=4,
                      timeout=600 if q else 3000, label="authority contract + validator cache")
    guards = ["X_ParamIsLimit"] if q else ["X_ParamIsLimit", "X_RevokeAlwaysPossible", "X_CacheNeverDropped", "X_TransferNeverMatters"]
    base = open(os.path.join(ctx.specdir(SUB), "MCAuthority_quick.cfg")).read()
    for g in guards:
        r = ctx.tlc(SUB, "MCAuthority", cfg="guard.cfg", files={"guard.cfg": base.replace("INVARIANT CacheIsRecomputation", "INVARIANT " + g)},
                    workers=4, timeout=600, count=False, label="vacuity guard " + g)
        if r.invariant != g:
            raise Infra("authority vacuity guard: the false statement %s was not refuted (%s)" % (g, r.invariant or r.error))
    ctx.cov.setdefault("vacuity_guards_refuted", [])
    ctx.cov["vacuity_guards_refuted"] += guards


def run_driver(ctx, label, args, timeout=900):
    binp = ctx.build("authority")
    out = ctx.tmp("auth-" + label)
    rc, o = ctx.run([binp, "-out", out] + [str(a) for a in args], timeout=timeout)
    if rc == 3:
        raise Infra("authority harness error: " + o[-1500:])
    if rc is None:
        raise Infra("authority driver timed out (%s)" % label)
    if rc != 0:
        if "panic:" in o or "goroutine " in o:
            rp = ctx.save_replay("authority-panic-%s-seed%d.txt" % (label, ctx.seed), o[-20000:])
            ctx.report("authority:panic:" + label, "real code panicked in the authority driver (%s): %s" % (label, o.strip().splitlines()[:2]), rp)
            return None, out
        raise Infra("authority driver failed rc=%s: %s" % (rc, o[-2000:]))
    return json.load(open(os.path.join(out, "summary.json"))), out


def replay_behaviours(ctx, num):
    """model -> implementation: TLC-sampled behaviours of Authority.tla executed on the real contract / Candidates."""
    # two exports: the usual genesis (two nodes) and a genesis with ONE node, where the only listed node can be neither
    # revoked nor (de)activated (IsLinked quirk of the contract)
    r = None
    for cfg, n, tag in (("MCAuthoritySim.cfg", num, "g2_"), ("MCAuthoritySim_sole.cfg", max(num // 3, 5), "g1_")):
        rr = ctx.tlc(SUB, "MCAuthoritySim", cfg=cfg, workers=1, simulate="num=%d" % n, depth=41, timeout=1200,
                     label="behaviour export for replay (%s)" % cfg, count=False, workdir=r.workdir if r else None)
        if rr.invariant or rr.error or rr.timeout:
            raise Infra("authority behaviour export failed (%s): %s\n%s" % (cfg, rr.invariant or rr.error or "timeout", rr.out[-1500:]))
        for f in os.listdir(rr.workdir):
            if f.startswith("beh_") and not f.startswith(("beh_g1_", "beh_g2_")):
                os.rename(os.path.join(rr.workdir, f), os.path.join(rr.workdir, "beh_" + tag + f[4:]))
        r = rr
    files = sorted(f for f in os.listdir(r.workdir) if f.startswith("beh_"))
    if not files:
        raise Infra("TLC exported no authority behaviour")
    # binding demonstration (a): one expected field of one behaviour corrupted => the replayer must object
    demo = ctx.tmp("auth-demo-in")
    beh = json.load(open(os.path.join(r.workdir, files[0])))
    k = len(beh["steps"]) // 2
    node = sorted(beh["steps"][k]["proj"]["get"])[0]
    beh["steps"][k]["proj"]["get"][node]["act"] = not beh["steps"][k]["proj"]["get"][node]["act"]
    json.dump(beh, open(os.path.join(demo, "beh_corrupt.json"), "w"))
    summ, _ = run_driver(ctx, "replay-demo", ["-mode", "replay", "-in", demo])
    if summ is not None and not summ["mismatches"]:
        raise Infra("authority binding demonstration failed: a behaviour with a corrupted expected projection was replayed without objection")
    ctx.cov["authority_replay_binding_demo"] = "corrupted expected field -> %s" % (
        "mismatch at step %d field %s" % (summ["mismatches"][0]["step"], summ["mismatches"][0]["field"]) if summ else "panic")
    # the real thing
    summ, _ = run_driver(ctx, "replay", ["-mode", "replay", "-in", r.workdir])
    if summ is None:
        return None
    seen = set()
    for m in summ["mismatches"]:
        sig = "authority:replay:%s:%s" % (m["action"], m["field"].split(".")[0] + ("." + m["field"].split(".")[1] if m["field"].startswith("proj.") else ""))
        if sig in seen or len(seen) >= 3:
            continue
        seen.add(sig)
        rp = ctx.save_replay("authority-replay-%s-step%d-seed%d.json" % (m["where"].replace(".json", ""), m["step"], ctx.seed),
                             {"how": {"mode": "authority-replay", "tlc_seed": ctx.seed, "num": num}, "mismatch": m,
                              "all_mismatches": summ["mismatches"][:10],
                              "behaviour": json.load(open(os.path.join(r.workdir, m["where"])))})
        ctx.report(sig, "authority replay: behaviour %s step %d (%s): real %s = %s, Authority.tla says %s"
                   % (m["where"], m["step"], m["action"], m["field"], json.dumps(m["got"])[:200], json.dumps(m["want"])[:200]), rp)
    ctx.cov["traces_validated_against_impl"] += summ["behaviours"] - len({m["where"] for m in summ["mismatches"]})
    return summ


def split_runs(events):
    runs = []
    for e in events:
        if e["e"] == "Reset":
            runs.append([])
        runs[-1].append(e)
    return runs


def validate(ctx, path, timeout=600):
    ok, hwm, ln, r = ctx.validate_trace(SUB, "Trace_Authority", path, cfg="Trace_Authority.cfg", timeout=timeout)
    ctx.cov["states"] += r.distinct
    ctx.cov["transitions"] += r.generated
    return ok, hwm, ln, r


def chains(ctx, runs, blocks):
    """implementation -> model: real chains; WARM vs COLD validator; Trace_Authority.tla on every block."""
    return bind_chain(ctx, "chain", ["-mode", "chain", "-seed", ctx.seed, "-runs", runs, "-blocks", blocks], demo=True)


def bignet(ctx, blocks):
    """The cap of 101 proposers on both sides: 105 endorsed authorities, max-block-proposers 200 and moving, v1 and v2."""
    return bind_chain(ctx, "bignet", ["-mode", "bignet", "-seed", ctx.seed, "-blocks", blocks], demo=False)


def bind_chain(ctx, label, args, demo):
    summ, out = run_driver(ctx, label, args)
    if summ is None:
        return None
    how = {"mode": "authority-" + label, "driver_args": [str(a) for a in args]}
    events = read_ndjson(os.path.join(out, "trace.ndjson"))
    for d in summ["divergences"][:1]:
        rp = ctx.save_replay("authority-%s-divergence-seed%d.json" % (label, ctx.seed), {"how": how, "divergences": summ["divergences"]})
        if "cold=ok" in d and "warm=rejected" in d:
            ctx.report("authority:warm-cold-divergence", "authority %s: the validator with a warm poaCacher refuses a block of the real "
                       "packer that a fresh validator accepts: %s" % (label, d), rp)
        else:
            ctx.report("authority:packer-validator-disagreement", "authority %s: the real packer and the real validator do not derive "
                       "the same proposer list / score: %s" % (label, d), rp)
    rs = split_runs(events)
    # binding demonstration (b): one logged field corrupted / one event deleted => rejected
    demo_ok = True
    if demo and rs and not summ["divergences"]:
        es = rs[0]
        ends = [i for i, e in enumerate(es) if e["e"] == "End"]
        begins = [i for i, e in enumerate(es) if e["e"] == "Begin"]
        i = ends[len(ends) // 2]
        bad = json.loads(json.dumps(es))
        n = bad[i]["proj"]["links"][0]
        bad[i]["proj"]["get"][n]["act"] = not bad[i]["proj"]["get"][n]["act"]
        j = begins[len(begins) // 2]
        dele = es[:j] + es[j + 1:]
        verdicts = {}
        for name, evs in (("untouched", es), ("projection-field-flipped", bad), ("begin-deleted", dele)):
            p = os.path.join(ctx.tmp("auth-demo"), name + ".ndjson")
            write_ndjson(p, evs)
            ok, hwm, ln, r = validate(ctx, p, 300)
            verdicts[name] = "accepted" if ok else "rejected at line %d" % hwm
            if name == "untouched" and not ok:
                demo_ok = False
                break
            if name != "untouched" and ok:
                raise Infra("authority binding demonstration failed: the %s chain trace was accepted" % name)
        ctx.cov["authority_chain_binding_demo"] = verdicts if demo_ok else "not performed: the untouched chain trace was rejected"
    # the real thing
    accepted, rejected = 0, 0
    pending = rs
    while pending:
        p = os.path.join(ctx.tmp("auth-val-" + label), "trace-%d.ndjson" % rejected)
        write_ndjson(p, [e for r_ in pending for e in r_])
        ok, hwm, ln, r = validate(ctx, p)
        if ok:
            accepted += len(pending)
            break
        idx = max(hwm - 1, 0) if r.invariant else hwm
        pos, badk = 0, None
        for k, es in enumerate(pending):
            if idx < pos + len(es):
                badk, off = k, idx - pos
                break
            pos += len(es)
        if badk is None:
            raise Infra("authority trace rejected but offending run not found (hwm=%d len=%d)\n%s" % (hwm, ln, r.out[-1500:]))
        es = pending[badk]
        ev = es[off]
        if r.invariant:
            sig = "authority:invariant:" + r.invariant
            what = "invariant %s of Authority.tla is violated by the observed chain" % r.invariant
        else:
            sig = "authority:rejected:" + ev["e"]
            what = "the real chain does what Authority.tla does not allow"
            if ev["e"] == "End" and (ev.get("warm") != "ok" or ev.get("cold") != "ok"):
                what = "a valid block was not accepted: warm=%s cold=%s" % (ev.get("warm"), ev.get("cold"))
        short = {k: (v if not isinstance(v, list) or len(v) <= 8 else "%d entries" % len(v)) for k, v in ev.items() if k != "proj"}
        rp = ctx.save_replay("authority-%s-run%s-seed%d.json" % (label, es[0].get("run"), ctx.seed),
                             {"how": how, "verdict": what, "offending_index_in_run": off, "offending_event": ev, "run_events": es})
        ctx.report(sig, "authority %s run %s event #%d %s -> %s" % (label, es[0].get("run"), off, json.dumps(short, sort_keys=True)[:400], what), rp)
        rejected += 1
        accepted += badk
        pending = pending[badk + 1:]
        if rejected >= 2:
            break
    ctx.cov["traces_validated_against_impl"] += accepted
    if not demo_ok and not ctx.violations:
        raise Infra("authority binding demonstration could not be performed although the chain traces conform")
    return summ


def step(ctx):
    q = ctx.quick
    design_level(ctx)
    rep = replay_behaviours(ctx, 20 if q else 400)
    ch = chains(ctx, 3 if q else 30, 40 if q else 80)
    big = bignet(ctx, 10 if q else 40)
    cov = {}
    if rep:
        cov["replay"] = {k: v for k, v in rep.items() if k != "mismatches"}
        cov["replay"]["mismatches"] = len(rep["mismatches"])
    if ch:
        cov["chain"] = {k: v for k, v in ch.items()}
    if big:
        cov["bignet_cap_101"] = {k: v for k, v in big.items()}
    ctx.cov["authority"] = cov
    ev = (rep["projections_compared"] if rep else 0) + (ch["blocks"] if ch else 0) + (big["blocks"] if big else 0)
    dn = (rep["distinct_nontrivial"] if rep else 0) + (ch["distinct_nontrivial"] if ch else 0)
    ctx.log("authority: %d replayed steps compared, %d real blocks (warm/cold/spec), %d distinct non-trivial" %
            (rep["projections_compared"] if rep else 0, (ch["blocks"] if ch else 0) + (big["blocks"] if big else 0), dn))
    return ev, dn
