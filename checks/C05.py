"""C05 - for every slot exactly one active proposer is entitled, and all nodes agree who.  DESIGN section 5 (C05)."""
import json
import os

import authoritycommon as ac
import governancecommon as gc
import schedcommon as sc
from verifkit import Infra

SUB = "sched"


def design_level(ctx):
    q = ctx.quick
    # exhaustive exploration of Scheduler.tla: every list, active pattern, order fact, me, interval, time in the window
    ctx.tlc_must_hold(SUB, "MCScheduler", cfg="MCSched_quick.cfg" if q else "MCSched_thorough.cfg", workers=4,
                      timeout=600 if q else 3000, label="PoA v2 + PoS, n <= %d" % (4 if q else 5))
    ctx.tlc_must_hold(SUB, "MCScheduler", cfg="MCSched_v1_quick.cfg" if q else "MCSched_v1_thorough.cfg", workers=4,
                      timeout=600 if q else 3000, label="PoA v1, n <= %d" % (3 if q else 4))
    if not q:
        ctx.tlc_must_hold(SUB, "MCScheduler", cfg="MCSched_n6.cfg", workers=4, timeout=3000, label="PoS (same slot rule as PoA v2, plus weights), n <= 6, T = 1")
    # the seeder: every block tree up to 6 (thorough 7) blocks, every best block, every Generate/cache history
    ctx.tlc_must_hold(SUB, "MCSeeder", cfg="MCSeeder_quick.cfg" if q else "MCSeeder_thorough.cfg", workers=4,
                      timeout=600 if q else 3000, label="Seeder: seed = beta of the parent's own ancestor, cache sound")
    sg = open(ctx.specdir(SUB) + "/MCSeeder_quick.cfg").read().replace("INVARIANT P_Stable", "INVARIANT X_SeedOnBestChain")
    r = ctx.tlc(SUB, "MCSeeder", cfg="guard.cfg", files={"guard.cfg": sg}, workers=4, timeout=600, count=False,
                label="vacuity guard X_SeedOnBestChain")
    if r.invariant != "X_SeedOnBestChain":
        raise Infra("vacuity guard: 'the seed block is on the best chain' was not refuted (%s)" % (r.invariant or r.error))
    # vacuity guard: statements that are false of the schedulers must be refuted by the same configuration
    guards = ["X_UniqueAmongListed"] if q else ["X_UniqueAmongListed", "X_NoWait", "X_NoOff"]
    base = open(ctx.specdir(SUB) + "/MCSched_guard.cfg").read()
    for g in guards:
        cfg = base.replace("INVARIANT P_UniqueOwner", "INVARIANT " + g)
        r = ctx.tlc(SUB, "MCScheduler", cfg="guard.cfg", files={"guard.cfg": cfg}, workers=4, timeout=600, count=False,
                    label="vacuity guard " + g)
        if r.invariant != g:
            raise Infra("vacuity guard: the false statement %s was not refuted (%s)" % (g, r.invariant or r.error or "no error"))
    ctx.cov["vacuity_guards_refuted"] = guards + ["X_SeedOnBestChain"]


def bind(ctx, label, args, timeout):
    events, summ = sc.run_driver(ctx, label, args)
    if summ is None:
        return None
    how = {"driver_args": [str(a) for a in args], "label": label}
    n = sc.validate(ctx, events, label, how, timeout=timeout, summ=summ)
    sc.report_native(ctx, label, events, summ)
    ctx.log("%s: %d instances, %d events, %d accepted" % (label, summ["instances"], summ["events"], n))
    return events, summ


def bind_seed(ctx, label, args, timeout, demo=True):
    """scheduler/seed.go: real Seeder over real repositories with competing branches."""
    events, summ = sc.run_seed_driver(ctx, label, args)
    if summ is None:
        return None, True
    how = {"driver_args": [str(a) for a in args], "label": label, "mode": "seed"}
    demo_ok = sc.seed_binding_demo(ctx, events) if demo else True
    n = sc.validate_seed(ctx, events, label, how, timeout=timeout)
    ctx.log("%s: %d repositories, %d blocks, %d Generate calls (%d with the seed block off the best chain), %d accepted"
            % (label, summ["runs"], summ["blocks"], summ["gen_queries"], summ["queries_with_seed_block_off_best_chain"], n))
    return (events, summ), demo_ok


def run(ctx):
    q = ctx.quick
    if ctx.replay:
        art = json.load(open(ctx.replay))
        how = art.get("how") or {}
        if str(how.get("mode", "")).startswith("governance"):
            if how["mode"] == "governance-chain":
                gc.chain(ctx)
            else:
                gc.replay(ctx, int(how.get("num", 40)))
            ctx.cov["rule"] = "replay of " + ctx.replay
            return
        if str(how.get("mode", "")).startswith("authority"):
            a = how.get("driver_args")
            if how["mode"] in ("authority-chain", "authority-bignet") and a:
                ac.bind_chain(ctx, how["mode"][10:], a, demo=False)
            else:
                ac.replay_behaviours(ctx, int(how.get("num", 20)))
            ctx.cov["rule"] = "replay of " + ctx.replay
            return
        if "driver_args" not in how:
            raise Infra("replay artefact has no driver arguments")
        if how.get("mode") == "seed":
            bind_seed(ctx, "replay-" + how.get("label", "x"), how["driver_args"], 3000, demo=False)
        else:
            bind(ctx, "replay-" + how.get("label", "x"), how["driver_args"], 3000)
        ctx.cov["rule"] = "replay of " + ctx.replay
        return

    if os.environ.get("C05_ONLY") == "governance":
        ev, dn = gc.step(ctx)
        ctx.cov["evaluations"], ctx.cov["distinct_nontrivial"] = ev, dn
        ctx.cov["rule"] = "C05_ONLY=governance: partial run"
        return
    if os.environ.get("C05_ONLY") == "authority":
        # development shortcut: only the authority step (the evidence file is then partial)
        ev, dn = ac.step(ctx)
        ctx.cov["evaluations"], ctx.cov["distinct_nontrivial"] = ev, dn
        ctx.cov["rule"] = "C05_ONLY=authority: partial run"
        return

    design_level(ctx)
    demo_ok = sc.binding_demo(ctx)

    # the seed of the shuffle: real Seeder.Generate over real repositories, branches forking below / at / above seed
    # blocks, best switching, cached and fresh Seeder instances
    sd, sdemo_ok = bind_seed(ctx, "seeder", ["-mode", "seed", "-seed", ctx.seed, "-runs", 6 if q else 60,
                                             "-si", 4 + ctx.seed % 3], 600 if q else 3000)
    demo_ok = demo_ok and sdemo_ok
    summs = []
    # the same finite instance space on the REAL code: every list size, active pattern, order, me, integer time
    exh = bind(ctx, "exhaustive", ["-mode", "exh", "-seed", ctx.seed, "-maxn", 4 if q else 5, "-T", 2 if q else 3,
                                   "-v1pn", 12 if q else 30, "-wvs", "1,1,1,1,1,1;3,0,5,0,7,2"], 600 if q else 3000)
    # large inputs: 1..150 proposers, extreme weights, far future, inactive / unlisted me, all-inactive lists
    big = bind(ctx, "large", ["-mode", "large", "-seed", ctx.seed, "-cases", 72 if q else 900], 600 if q else 3000)
    for x in (exh, big):
        if x:
            summs.append(x[1])
    if exh:
        ctx.sample(sc.sample_of(exh[0], 4 if q else 5))
        ctx.cov["exhaustive_instance_space_on_real_code"] = exh[1]["exh"]
    if big:
        ctx.sample(sc.sample_of(big[0], 150) or sc.sample_of(big[0]))
        ctx.sample(sc.sample_of(big[0], 101) or sc.sample_of(big[0]))

    # growth (DESIGN section 8): the authority contract and the validator's candidate cache that feed the scheduler
    auth_ev, auth_dn = ac.step(ctx)
    # growth: the governance that adds / revokes authorities and sets the parameters consensus reads
    gov_ev, gov_dn = gc.step(ctx)
    auth_ev, auth_dn = auth_ev + gov_ev, auth_dn + gov_dn

    if not demo_ok and not ctx.violations and not ctx.known_hit:
        raise Infra("binding demonstration could not be performed (untouched demo trace rejected) although the full traces conform")

    ctx.cov["evaluations"] = sum(s["me_events"] + s["slot_events"] for s in summs)
    ctx.cov["distinct_nontrivial"] = sum(s["distinct_nontrivial"] for s in summs)
    ctx.cov["evaluations"] += auth_ev
    ctx.cov["distinct_nontrivial"] += auth_dn
    if sd:
        ss = sd[1]
        ctx.cov["evaluations"] += ss["gen_queries"]
        ctx.cov["distinct_nontrivial"] += ss["distinct_parents_with_seed_block_off_best_chain"]
        ctx.cov["seeder"] = ss
        run0 = sc.split_runs(sd[0])[0]
        ctx.sample({"seeder_run_prefix": run0[:4] + ["..."] + [e for e in run0 if e["e"] == "Gen" and e["got"] != "none"][:3]}, limit=8)
    ctx.cov["real_scheduler_calls"] = sum(s["queries"] for s in summs)
    ctx.cov["instances"] = sum(s["instances"] for s in summs)
    ctx.cov["list_sizes_large"] = big[1]["list_sizes"] if big else []
    ctx.cov["max_list_size"] = max([s["max_n"] for s in summs] or [0])
    ctx.cov["unlisted_me_refused"] = sum(s["refused_unlisted"] for s in summs)
    ctx.cov["inactive_me_schedulers"] = sum(s["inactive_me"] for s in summs)
    ctx.cov["all_inactive_lists"] = sum(s["all_inactive_lists"] for s in summs)
    ctx.cov["secondary_oracle_checks"] = sum(s["native_checks"] for s in summs)
    ctx.cov["secondary_oracle_checks_beyond_32bit"] = sum(s["native_checks_beyond_tlc"] for s in summs)
    ctx.cov["secondary_oracle_mismatches"] = sum(len(s["native_mismatches"]) for s in summs)
    ctx.cov["rule"] = ("one evaluation = one real scheduler constructed for (kind, proposer list, seed/parent, me) and queried "
                       "(Schedule over a set of times, IsTheTime over a set of times, Updates, order via IsScheduled), or one "
                       "all-proposers acceptance probe of an instance, or one real Seeder.Generate call; non-trivial (seeder) = distinct (repository, parent) "
                       "whose seed block was NOT on the best chain when asked; authority step: one evaluation = one replayed Authority.tla step "
                       "compared in full or one real block validated warm/cold/spec, non-trivial = distinct replayed behaviour with an "
                       "effective add, an effective revoke and a cache hit after an invalidation, or distinct proposer list after a "
                       "block that changed it; governance step: one evaluation = one transaction of a replayed Governance.tla behaviour executed on "
                       "the real contracts and compared in full, non-trivial = distinct behaviour in which a proposal was executed; "
                       "non-trivial (scheduler) = at least two eligible proposers AND some "
                       "Schedule answer had to skip a slot AND some Updates answer switched somebody off; distinct = distinct "
                       "(kind, interval, parent time, list size, order among eligible, me[, parent number for v1]) key, counted by the driver")
    # every permutation must have been realised on the real code for v2 and for the equal-weight pos vector
    full = bool(exh) and all(st["orders_found"] == st["of_permutations"] for st in exh[1]["exh"]
                             if st["kind"] == "v2" or (st["kind"] == "pos" and set(st["weights"].strip("[]").split()) == {"1"}))
    ctx.cov["exhaustive"] = full and not ctx.violations
    ctx.cov["exhaustive_scope"] = ("TLC: all instances of MCSched_*.cfg; real code: all lists n <= %d x active patterns x orders "
                                   "(every permutation for v2 and equal-weight pos; the reachable ones for the weight vector with zeros; "
                                   "v1: sampled parent numbers) x me x integer times of the window; large inputs are seeded samples" % (4 if q else 5))
    ctx.assumptions += [
        "blake2b and ChaCha8 are trusted primitives; the order of proposers (v2: hash order, pos: -ln(r)/w stable order) and the "
        "v1 dprp values are FACTS computed by the driver independently of the scheduler package and explained by the real outputs",
        "proposer addresses in a list are distinct (contract invariant)",
        "VRF (beta of a header) is a trusted primitive: betas are facts taken from vrf.Prove when the block is built",
        "weights <= 2^40 per proposer (150 proposers): activeWeight*MaxPosScore stays below 2^64; real weights are bounded by the VET supply",
        "Updates is called with an aligned time > parent time only (both use sites call it after Schedule / IsTheTime)",
        "times >= 2^31 and weight sums > 214748 are checked against the native reference only (TLC integers are 32-bit)",
    ]
