------------------------------ MODULE Staker ------------------------------
(* Design-level model of thor's staking contract: builtin/staker/{staker,housekeep,protocol,transition}.go,
   validation/{validation,service,repository,linked_list,renewal_list}.go, aggregation/*, delegation/*,
   globalstats/* and the VET-moving Solidity wrapper builtin/gen/staker.sol (effectiveVET = slot 0, balance).

   The contract storage is one record S (CUR); every Go function that touches storage is a pure operator S -> S
   transcribed statement by statement (including the odd corners: listStats.Remove does not persist an unlinked
   entry that is not the sole element; SetExitBlock probes forward; renew() derives the previous multiplier from
   Weight = LockedVET).  Public operations return [S, ok, msg, amt]; the actions wrap them the way staker.sol
   does: credit balance and effectiveVET before a payable call, roll everything back on a revert, debit what a
   withdraw call returned.  NextBlock(b) is Staker.SyncPOS at the first thing done in block b (packer.Schedule /
   consensus.validate): PoA -> PoS transition or epoch housekeeping.

   Amounts are in units chosen by the harness.  Weight(vet, m) is floor(vet*m/100) of the real code when
   WScale = 100 (unit = 1 VET) and vet*m when WScale = 1 (unit = k*100 VET, weights in hundredths of a unit).

   Non-revert errors of the Go code (underflow of a counter, "leader group is full", "size is already 0", a failed
   ContractBalanceCheck) are not modelled as behaviour: the model lets the number go negative / the check fail and
   the invariants below say it never happens.                                                                     *)
EXTENDS Integers, Sequences, FiniteSets, TLC

CONSTANTS NoVal,                    \* the zero address
          E,                        \* thor.EpochLength
          LowP, MedP, HighP,        \* staking periods
          Cooldown,                 \* thor.CooldownPeriod
          EvictThreshold,           \* thor.ValidatorEvictionThreshold
          EvictInterval,            \* thor.EvictionCheckInterval
          TP, Hayabusa,             \* thor.HayabusaTP, forkConfig.HAYABUSA
          MinStake, MaxStake,       \* staker.MinStakeVET / MaxStakeVET in units
          WScale,
          ExitMaxTry,               \* staker.exitMaxTry (20)
          EvictMaxTry,              \* thor.InitialMaxBlockProposers used as maxTry for evictions (101)
          DefaultMBP                \* thor.InitialMaxBlockProposers (101) used when the param is 0

VARIABLES block,    \* number of the block being executed
          mbpParam, \* params[KeyMaxBlockProposers]
          mbpMax,   \* history: largest effective max-proposer value seen so far
          val,      \* validator -> Validation record
          agg,      \* validator -> Aggregation
          del,      \* sequence of Delegation records, index = delegation id
          g,        \* global counters [lv, lw, qu, wd, cd]
          aL, qL,   \* active / queued list stats [head, tail, size]
          ren,      \* renewal list (sequence, head first)
          exits,    \* exit-block map: block -> validator
          eff,      \* effectiveVET (slot 0 of staker.sol)
          bal,      \* VET balance of the contract
          led,      \* observation only: [vdep, vwd : validator -> Nat, ddep, dwd : Seq(Nat), don] deposited / withdrawn / donated
          res       \* result of the last operation
core == <<block, mbpParam, mbpMax, val, agg, del, g, aL, qL, ren, exits, eff, bal, led>>
vars == <<block, mbpParam, mbpMax, val, agg, del, g, aL, qL, ren, exits, eff, bal, led, res>>

None == -1
VS == DOMAIN val
Periods == {LowP, MedP, HighP}
Min(a, b) == IF a < b THEN a ELSE b
Max(a, b) == IF a > b THEN a ELSE b
MBPOf(p) == IF p = 0 THEN DefaultMBP ELSE p
MBP == MBPOf(mbpParam)

Weight(vet, m) == (vet \div WScale) * m + ((vet % WScale) * m) \div WScale

EmptyVal == [st |-> "none", end |-> NoVal, ben |-> NoVal, per |-> 0, comp |-> 0, start |-> 0, exitB |-> None,
             offB |-> None, lk |-> 0, pu |-> 0, qu |-> 0, cd |-> 0, wd |-> 0, wt |-> 0, prev |-> NoVal, next |-> NoVal]
EmptyAgg == [lv |-> 0, lw |-> 0, pv |-> 0, pw |-> 0, ev |-> 0, ew |-> 0]
EmptyList == [head |-> NoVal, tail |-> NoVal, size |-> 0]
ZeroG == [lv |-> 0, lw |-> 0, qu |-> 0, wd |-> 0, cd |-> 0]

CUR == [val |-> val, agg |-> agg, del |-> del, g |-> g, aL |-> aL, qL |-> qL, ren |-> ren, exits |-> exits]
Commit(S) == /\ val' = S.val /\ agg' = S.agg /\ del' = S.del /\ g' = S.g /\ aL' = S.aL /\ qL' = S.qL
             /\ ren' = S.ren /\ exits' = S.exits

RECURSIVE SumOver(_,_)
SumOver(f, D) == IF D = {} THEN 0 ELSE LET x == CHOOSE x \in D : TRUE IN f[x] + SumOver(f, D \ {x})
SeqSet(s) == {s[i] : i \in 1..Len(s)}

-----------------------------------------------------------------------------
(* validation.go *)
CurIter(v, cur) == IF v.st \in {"none", "queued"} THEN 0
                   ELSE IF v.st = "exit" THEN v.comp
                   ELSE IF v.comp > 0 THEN v.comp
                   ELSE (cur - v.start) \div v.per + 1
IsPeriodEnd(v, cur) == (cur - v.start) % v.per = 0
ValNextTVL(v) == v.lk + v.qu - v.pu
ValMult(v) == IF v.wt = Weight(v.lk, 100) THEN 100 ELSE 200      \* Validation.multiplier(): Weight == LockedVET
CooldownEnded(v, cur) == v.exitB # None /\ v.exitB + Cooldown <= cur
CalcWithdrawable(v, cur) == v.wd + (IF CooldownEnded(v, cur) THEN v.cd ELSE 0) + v.qu

(* aggregation.go *)
AggNextTVL(a) == a.lv + a.pv - a.ev
AggRenew(a) == [new |-> [lv |-> a.lv + a.pv - a.ev, lw |-> a.lw + a.pw - a.ew, pv |-> 0, pw |-> 0, ev |-> 0, ew |-> 0],
                d   |-> [iv |-> a.pv, iw |-> a.pw, dv |-> a.ev, dw |-> a.ew, qd |-> a.pv]]

(* Validation.renew(delegationWeight) *)
ValRenew(v, dW) ==
  LET prevW  == Weight(v.lk, ValMult(v))
      lk1    == v.lk + v.qu - v.pu
      afterW == Weight(lk1, IF dW > 0 THEN 200 ELSE 100)
  IN [new |-> [v EXCEPT !.lk = lk1, !.wd = v.wd + v.pu, !.wt = afterW + dW, !.qu = 0, !.pu = 0],
      d   |-> [iv |-> v.qu, iw |-> IF prevW < afterW THEN afterW - prevW ELSE 0,
               dv |-> v.pu, dw |-> IF prevW < afterW THEN 0 ELSE prevW - afterW, qd |-> v.qu]]

(* delegation.go *)
DelW(d) == Weight(d.stake, d.mult)
Started(d, v, cur) == IF v.st \in {"queued", "none"} THEN FALSE ELSE CurIter(v, cur) >= d.first
Ended(d, v, cur) == IF v.st = "queued" THEN FALSE
                    ELSE IF v.st = "exit" /\ Started(d, v, cur) THEN TRUE
                    ELSE IF d.last = None THEN FALSE
                    ELSE d.last < CurIter(v, cur)
IsLocked(d, v, cur) == d.stake # 0 /\ Started(d, v, cur) /\ ~Ended(d, v, cur)

(* globalstats.ApplyRenewal *)
GRenew(gg, d) == [gg EXCEPT !.lv = @ + d.iv - d.dv, !.lw = @ + d.iw - d.dw, !.qu = @ - d.qd, !.wd = @ + d.dv]
DAdd(a, b) == [iv |-> a.iv + b.iv, iw |-> a.iw + b.iw, dv |-> a.dv + b.dv, dw |-> a.dw + b.dw, qd |-> a.qd + b.qd]

-----------------------------------------------------------------------------
(* linked_list.go: listStats.Add / Remove over the validations mapping.  L is "aL" or "qL". *)
ListAdd(S, L, a, entry) ==
  LET lst  == S[L]
      tail == lst.tail
      v1   == IF tail = NoVal THEN S.val ELSE [S.val EXCEPT ![tail].next = a]
  IN [S EXCEPT !.val = [v1 EXCEPT ![a] = [entry EXCEPT !.prev = tail]],
               ![L]  = [head |-> IF tail = NoVal THEN a ELSE lst.head, tail |-> a, size |-> lst.size + 1]]

ListRemove(S, L, a, entry) ==
  LET lst == S[L] IN
  IF entry.prev = NoVal /\ entry.next = NoVal /\ (lst.head # a \/ lst.tail # a)
  THEN S                                         \* "not the last element": nothing written, entry NOT persisted
  ELSE LET v1 == IF entry.prev = NoVal THEN S.val ELSE [S.val EXCEPT ![entry.prev].next = entry.next]
           v2 == IF entry.next = NoVal THEN v1 ELSE [v1 EXCEPT ![entry.next].prev = entry.prev]
       IN [S EXCEPT !.val = [v2 EXCEPT ![a] = [entry EXCEPT !.prev = NoVal, !.next = NoVal]],
                    ![L]  = [head |-> IF entry.prev = NoVal THEN entry.next ELSE lst.head,
                             tail |-> IF entry.next = NoVal THEN entry.prev ELSE lst.tail,
                             size |-> lst.size - 1]]

RECURSIVE WalkFrom(_,_,_)
WalkFrom(vv, a, fuel) == IF a = NoVal \/ fuel = 0 \/ a \notin DOMAIN vv THEN <<>>
                         ELSE <<a>> \o WalkFrom(vv, vv[a].next, fuel - 1)
Walk(S, L) == WalkFrom(S.val, S[L].head, Cardinality(DOMAIN S.val) + 1)

(* renewal_list.go: idempotent Add at the tail, Remove anywhere, Iterate from the head *)
RenAdd(S, a) == IF a = NoVal \/ a \in SeqSet(S.ren) THEN S ELSE [S EXCEPT !.ren = Append(@, a)]
RenRemove(S, a) == [S EXCEPT !.ren = SelectSeq(@, LAMBDA x : x # a)]

(* validation.Service.SetExitBlock + SignalExit *)
ExitAt(S, b) == IF b \in DOMAIN S.exits THEN S.exits[b] ELSE NoVal
FreeExit(S, minB, maxTry) ==
  LET c == {k \in 0..(maxTry - 1) : ExitAt(S, minB + k * E) = NoVal}
  IN IF c = {} THEN None ELSE minB + (CHOOSE k \in c : \A j \in c : k <= j) * E
SvcSignalExit(S, a, cur, b) ==       \* b = FreeExit(...) # None
  [S EXCEPT !.exits = (b :> a) @@ @, !.val[a].exitB = b, !.val[a].comp = CurIter(S.val[a], cur)]

-----------------------------------------------------------------------------
(* housekeep.go *)
ActivationCount(S, hasExit, mbp) ==
  LET l == S.aL.size - (IF hasExit THEN 1 ELSE 0) IN
  IF l >= mbp \/ S.qL.size <= 0 THEN 0 ELSE Min(mbp - l, S.qL.size)

Evictable(v, b) == v.offB # None /\ b > v.offB + EvictThreshold /\ v.exitB = None

ComputeTransition(S, b, mbp) ==
  LET ex == ExitAt(S, b) IN
  [ev  |-> IF b # 0 /\ b % EvictInterval = 0 THEN SelectSeq(Walk(S, "aL"), LAMBDA a : Evictable(S.val[a], b)) ELSE <<>>,
   rn  |-> SelectSeq(S.ren, LAMBDA a : IsPeriodEnd(S.val[a], b) /\ S.val[a].exitB = None),
   ex  |-> ex,
   cnt |-> ActivationCount(S, ex # NoVal, mbp)]
HasUpdates(t) == Len(t.rn) > 0 \/ t.ex # NoVal \/ Len(t.ev) > 0 \/ t.cnt > 0

RenewOne(S, a) ==
  LET ar == AggRenew(S.agg[a])
      vr == ValRenew(S.val[a], ar.new.lw)
  IN RenRemove([S EXCEPT !.agg[a] = ar.new, !.val[a] = vr.new, !.g = GRenew(@, DAdd(ar.d, vr.d))], a)

ExitOne(S, a) ==
  LET v  == S.val[a]
      ag == S.agg[a]
      tv == v.lk
      tw == Weight(v.lk, ValMult(v))
      nv == [v EXCEPT !.st = "exit", !.cd = v.lk, !.lk = 0, !.pu = 0, !.wt = 0, !.wd = v.wd + v.qu, !.qu = 0]
      S1 == RenRemove(ListRemove(S, "aL", a, nv), a)
      qd == v.qu + ag.pv
      g1 == IF tv + ag.lv > 0 THEN [S1.g EXCEPT !.lv = @ - (tv + ag.lv), !.lw = @ - (tw + ag.lw)] ELSE S1.g
  IN [S1 EXCEPT !.agg[a] = EmptyAgg,
                !.g = [g1 EXCEPT !.qu = @ - qd, !.cd = @ + tv, !.wd = @ + qd + ag.lv]]

EvictOne(S, a, b) == SvcSignalExit(S, a, b, FreeExit(S, b + E, EvictMaxTry))

ActivateOne(S, b) ==
  LET a   == S.qL.head
      S1  == ListRemove(S, "qL", a, S.val[a])
      en  == S1.val[a]
      ar  == AggRenew(S1.agg[a])
      mul == IF ar.d.iv > ar.d.dv THEN 200 ELSE 100
      vw  == Weight(en.qu, mul)
      ne  == [en EXCEPT !.lk = en.qu, !.qu = 0, !.wt = vw + ar.d.iw - ar.d.dw, !.st = "active", !.start = b]
      S2  == ListAdd([S1 EXCEPT !.agg[a] = ar.new], "aL", a, ne)
  IN [S2 EXCEPT !.g = GRenew(@, DAdd([iv |-> en.qu, iw |-> vw, dv |-> 0, dw |-> 0, qd |-> en.qu], ar.d))]

RECURSIVE Activate(_,_,_)
Activate(S, b, n) == IF n = 0 THEN S ELSE Activate(ActivateOne(S, b), b, n - 1)
RECURSIVE EvictAll(_,_,_,_)
EvictAll(S, s, k, b) == IF k > Len(s) THEN S ELSE EvictAll(EvictOne(S, s[k], b), s, k + 1, b)
RECURSIVE RenewAll(_,_,_)
RenewAll(S, s, k) == IF k > Len(s) THEN S ELSE RenewAll(RenewOne(S, s[k]), s, k + 1)

ApplyTransition(S, t, b) ==
  LET S1 == RenewAll(S, t.rn, 1)
      S2 == IF t.ex # NoVal THEN ExitOne(S1, t.ex) ELSE S1
      S3 == EvictAll(S2, t.ev, 1, b)
  IN Activate(S3, b, t.cnt)

(* Housekeep / transition / SyncPOS: result [S, act, upd] *)
SyncPOS(S, b, mbp) ==
  IF Hayabusa + TP > b THEN [S |-> S, act |-> FALSE, upd |-> FALSE]
  ELSE LET active == S.aL.size > 0 IN
    IF ~active
    THEN IF (TP = 0 \/ (b - Hayabusa) % TP = 0) /\ b % E = 0 /\ S.qL.size * 3 >= mbp * 2
         THEN [S |-> ApplyTransition(S, ComputeTransition(S, b, mbp), b), act |-> TRUE, upd |-> TRUE]
         ELSE [S |-> S, act |-> FALSE, upd |-> FALSE]
    ELSE IF b % E # 0 THEN [S |-> S, act |-> TRUE, upd |-> FALSE]
         ELSE LET t == ComputeTransition(S, b, mbp) IN
              IF HasUpdates(t) THEN [S |-> ApplyTransition(S, t, b), act |-> TRUE, upd |-> TRUE]
              ELSE [S |-> S, act |-> TRUE, upd |-> FALSE]

-----------------------------------------------------------------------------
(* staker.go public operations: [S, ok, msg, amt] *)
Ok(S, amt) == [S |-> S, ok |-> TRUE, msg |-> "", amt |-> amt]
Rev(S, m) == [S |-> S, ok |-> FALSE, msg |-> m, amt |-> 0]

StakeIncreaseMsg(S, a, amt) ==       \* validateStakeIncrease: "" when fine
  IF amt > MaxStake THEN "increase amount is too large"
  ELSE IF ValNextTVL(S.val[a]) + AggNextTVL(S.agg[a]) + amt > MaxStake THEN "total stake would exceed maximum"
  ELSE ""

OpAddValidation(S, a, e, p, s) ==
  IF s < MinStake THEN Rev(S, "stake is below minimum")
  ELSE IF s > MaxStake THEN Rev(S, "stake is above maximum")
  ELSE IF a = NoVal THEN Rev(S, "validator cannot be zero")
  ELSE IF S.val[a].st # "none" THEN Rev(S, "validator already exists")
  ELSE IF p \notin Periods THEN Rev(S, "period is out of boundaries")
  ELSE LET S1 == ListAdd(S, "qL", a, [EmptyVal EXCEPT !.st = "queued", !.end = e, !.per = p, !.qu = s])
       IN Ok([S1 EXCEPT !.g.qu = @ + s], 0)

OpSignalExit(S, a, e, cur) ==
  IF a \notin DOMAIN S.val \/ S.val[a].st = "none" THEN Rev(S, "validation does not exist")
  ELSE LET v == S.val[a] IN
  IF v.end # e THEN Rev(S, "endorser required")
  ELSE IF v.st # "active" THEN Rev(S, "can't signal exit while not active")
  ELSE IF v.exitB # None THEN Rev(S, "exit block already set")
  ELSE LET b == FreeExit(S, v.start + v.per * CurIter(v, cur), ExitMaxTry) IN
       IF b = None THEN Rev(S, "max try reached") ELSE Ok(SvcSignalExit(S, a, cur, b), 0)

OpIncreaseStake(S, a, e, amt) ==
  IF a \notin DOMAIN S.val \/ S.val[a].st = "none" THEN Rev(S, "validation does not exist")
  ELSE LET v == S.val[a] IN
  IF v.end # e THEN Rev(S, "endorser required")
  ELSE IF v.st = "exit" THEN Rev(S, "validator exited")
  ELSE IF v.st # "active" THEN Rev(S, "can't increase stake while validator not active")
  ELSE IF v.exitB # None THEN Rev(S, "validator has signaled exit, cannot increase stake")
  ELSE IF StakeIncreaseMsg(S, a, amt) # "" THEN Rev(S, StakeIncreaseMsg(S, a, amt))
  ELSE Ok(RenAdd([S EXCEPT !.val[a].qu = @ + amt, !.g.qu = @ + amt], a), 0)

OpDecreaseStake(S, a, e, amt) ==
  IF amt > MaxStake - MinStake THEN Rev(S, "decrease amount is too large")
  ELSE IF a \notin DOMAIN S.val \/ S.val[a].st = "none" THEN Rev(S, "validation does not exist")
  ELSE LET v == S.val[a] IN
  IF v.end # e THEN Rev(S, "endorser required")
  ELSE IF v.st = "exit" THEN Rev(S, "validator exited")
  ELSE IF v.st # "active" THEN Rev(S, "can't decrease stake while validator not active")
  ELSE IF v.exitB # None THEN Rev(S, "validator has signaled exit, cannot decrease stake")
  ELSE IF amt > v.lk - v.pu THEN Rev(S, "not enough locked stake")
  ELSE IF v.lk - v.pu - amt < MinStake THEN Rev(S, "next period stake is lower than minimum stake")
  ELSE Ok(RenAdd([S EXCEPT !.val[a].pu = @ + amt], a), 0)

OpWithdrawStake(S, a, e, cur) ==
  IF a \notin DOMAIN S.val \/ S.val[a].st = "none" THEN Rev(S, "validation does not exist")
  ELSE LET v == S.val[a] IN
  IF v.end # e THEN Rev(S, "endorser required")
  ELSE IF v.st = "queued"
  THEN LET S1 == ListRemove(S, "qL", a, [v EXCEPT !.qu = 0, !.wd = 0, !.st = "exit"])
           pv == S1.agg[a].pv           \* aggregation.Exit: pending delegations become withdrawable
           g1 == [S1.g EXCEPT !.qu = @ - pv - v.qu, !.wd = @ + pv - v.wd]
       IN Ok([S1 EXCEPT !.agg[a] = EmptyAgg, !.g = g1], v.wd + v.qu)
  ELSE LET c  == IF CooldownEnded(v, cur) THEN v.cd ELSE 0
           nv == [v EXCEPT !.qu = 0, !.wd = 0, !.cd = @ - c]
       IN Ok([S EXCEPT !.val[a] = nv, !.g = [@ EXCEPT !.wd = @ - v.wd, !.qu = @ - v.qu, !.cd = @ - c]], v.wd + v.qu + c)

OpSetBeneficiary(S, a, e, b) ==
  IF a \notin DOMAIN S.val \/ S.val[a].st = "none" THEN Rev(S, "validation does not exist")
  ELSE LET v == S.val[a] IN
  IF v.end # e THEN Rev(S, "endorser required")
  ELSE IF v.st = "exit" \/ v.exitB # None THEN Rev(S, "validator has exited or signaled exit, cannot set beneficiary")
  ELSE Ok([S EXCEPT !.val[a].ben = b], 0)

OpAddDelegation(S, a, s, m, cur) ==       \* amt = new delegation id
  IF s <= 0 THEN Rev(S, "stake must be greater than 0")
  ELSE IF m = 0 THEN Rev(S, "multiplier cannot be 0")
  ELSE IF a \notin DOMAIN S.val \/ S.val[a].st = "none" THEN Rev(S, "validation does not exist")
  ELSE LET v == S.val[a] IN
  IF v.st \notin {"queued", "active"} THEN Rev(S, "validation is not queued or active")
  ELSE IF v.exitB # None THEN Rev(S, "cannot add delegation to exiting validator")
  ELSE IF StakeIncreaseMsg(S, a, s) # "" THEN Rev(S, StakeIncreaseMsg(S, a, s))
  ELSE LET d  == [v |-> a, stake |-> s, mult |-> m, first |-> CurIter(v, cur) + 1, last |-> None]
           S1 == [S EXCEPT !.del = Append(@, d), !.agg[a].pv = @ + s, !.agg[a].pw = @ + Weight(s, m), !.g.qu = @ + s]
       IN Ok(IF v.st = "active" THEN RenAdd(S1, a) ELSE S1, Len(S.del) + 1)

OpSignalDelegationExit(S, id, cur) ==
  IF id \notin 1..Len(S.del) THEN Rev(S, "delegation is empty")
  ELSE LET d == S.del[id]
           v == S.val[d.v] IN
  IF d.last # None THEN Rev(S, "delegation is already signaled exit")
  ELSE IF d.stake = 0 THEN Rev(S, "delegation has already been withdrawn")
  ELSE IF ~Started(d, v, cur) THEN Rev(S, "delegation has not started yet, funds can be withdrawn")
  ELSE IF Ended(d, v, cur) THEN Rev(S, "delegation has ended, funds can be withdrawn")
  ELSE LET S1 == [S EXCEPT !.del[id].last = CurIter(v, cur), !.agg[d.v].ev = @ + d.stake, !.agg[d.v].ew = @ + DelW(d)]
       IN Ok(IF v.st = "active" THEN RenAdd(S1, d.v) ELSE S1, 0)

OpWithdrawDelegation(S, id, cur) ==
  IF id \notin 1..Len(S.del) THEN Rev(S, "delegation is empty")
  ELSE LET d == S.del[id]
           v == S.val[d.v]
           started == Started(d, v, cur) IN
  IF started /\ ~Ended(d, v, cur) THEN Rev(S, "delegation is not eligible for withdraw")
  ELSE LET S1 == [S EXCEPT !.del[id].stake = 0] IN
       IF ~started /\ v.st # "exit"
       THEN Ok([S1 EXCEPT !.agg[d.v].pv = @ - d.stake, !.agg[d.v].pw = @ - DelW(d), !.g.qu = @ - d.stake], d.stake)
       ELSE Ok([S1 EXCEPT !.g.wd = @ - d.stake], d.stake)

OpSetOnline(S, a, b, online) == Ok([S EXCEPT !.val[a].offB = IF online THEN None ELSE b], 0)

-----------------------------------------------------------------------------
(* actions: the wrapper staker.sol around the native calls *)
Res(op, r, a, d) == [op |-> op, ok |-> r.ok, msg |-> r.msg, amt |-> r.amt, a |-> a, d |-> d, act |-> FALSE, upd |-> FALSE]

\* payable call: credit first; a revert undoes everything
Payable(op, r, a, d, amount) ==
  /\ res' = Res(op, r, a, d)
  /\ IF r.ok THEN /\ Commit(r.S) /\ eff' = eff + amount /\ bal' = bal + amount
             ELSE UNCHANGED <<val, agg, del, g, aL, qL, ren, exits, eff, bal>>
  /\ UNCHANGED <<block, mbpParam, mbpMax>>

\* withdrawing call: pay out what the native call returned
Paying(op, r, a, d) ==
  /\ res' = Res(op, r, a, d)
  /\ IF r.ok THEN /\ Commit(r.S) /\ eff' = eff - r.amt /\ bal' = bal - r.amt
             ELSE UNCHANGED <<val, agg, del, g, aL, qL, ren, exits, eff, bal>>
  /\ UNCHANGED <<block, mbpParam, mbpMax>>

Plain(op, r, a, d) ==
  /\ res' = Res(op, r, a, d)
  /\ IF r.ok THEN Commit(r.S) ELSE UNCHANGED <<val, agg, del, g, aL, qL, ren, exits>>
  /\ UNCHANGED <<block, mbpParam, mbpMax, eff, bal, led>>

AddValidation(a, e, p, s) ==
  LET r == OpAddValidation(CUR, a, e, p, s) IN
  /\ Payable("AddValidation", r, a, 0, s)
  /\ led' = IF r.ok THEN [led EXCEPT !.vdep[a] = @ + s] ELSE led

IncreaseStake(a, e, amt) ==
  LET r == OpIncreaseStake(CUR, a, e, amt) IN
  /\ Payable("IncreaseStake", r, a, 0, amt)
  /\ led' = IF r.ok THEN [led EXCEPT !.vdep[a] = @ + amt] ELSE led

DecreaseStake(a, e, amt) == Plain("DecreaseStake", OpDecreaseStake(CUR, a, e, amt), a, 0)
SignalExit(a, e) == Plain("SignalExit", OpSignalExit(CUR, a, e, block), a, 0)
SetBeneficiary(a, e, b) == Plain("SetBeneficiary", OpSetBeneficiary(CUR, a, e, b), a, 0)

WithdrawStake(a, e) ==
  LET r == OpWithdrawStake(CUR, a, e, block) IN
  /\ Paying("WithdrawStake", r, a, 0)
  /\ led' = IF r.ok THEN [led EXCEPT !.vwd[a] = @ + r.amt] ELSE led

AddDelegation(a, s, m) ==
  LET r == OpAddDelegation(CUR, a, s, m, block) IN
  /\ Payable("AddDelegation", r, a, IF r.ok THEN r.amt ELSE 0, s)
  /\ led' = IF r.ok THEN [led EXCEPT !.ddep = Append(@, s), !.dwd = Append(@, 0)] ELSE led

SignalDelegationExit(id) == Plain("SignalDelegationExit", OpSignalDelegationExit(CUR, id, block), NoVal, id)

WithdrawDelegation(id) ==
  LET r == OpWithdrawDelegation(CUR, id, block) IN
  /\ Paying("WithdrawDelegation", r, NoVal, id)
  /\ led' = IF r.ok THEN [led EXCEPT !.dwd[id] = @ + r.amt] ELSE led

\* protocol call (packer / consensus after scheduling): only for members of the leader group
SetOnline(a, online) ==
  /\ a \in VS /\ val[a].st = "active"
  /\ Plain("SetOnline", OpSetOnline(CUR, a, block, online), a, 0)

\* governance changes params[max-block-proposers]
SetMBP(m) ==
  /\ mbpParam' = m /\ mbpMax' = Max(mbpMax, MBPOf(m))
  /\ res' = [op |-> "SetMBP", ok |-> TRUE, msg |-> "", amt |-> m, a |-> NoVal, d |-> 0, act |-> FALSE, upd |-> FALSE]
  /\ UNCHANGED <<block, val, agg, del, g, aL, qL, ren, exits, eff, bal, led>>

\* VET forced into the contract (the contract cannot refuse e.g. a self-destruct beneficiary transfer)
Donate(x) ==
  /\ bal' = bal + x
  /\ led' = [led EXCEPT !.don = @ + x]
  /\ res' = [op |-> "Donate", ok |-> TRUE, msg |-> "", amt |-> x, a |-> NoVal, d |-> 0, act |-> FALSE, upd |-> FALSE]
  /\ UNCHANGED <<block, mbpParam, mbpMax, val, agg, del, g, aL, qL, ren, exits, eff>>

\* the next block starts: Staker.SyncPOS(forkConfig, block + 1)
NextBlock ==
  LET r == SyncPOS(CUR, block + 1, MBP) IN
  /\ block' = block + 1
  /\ Commit(r.S)
  /\ res' = [op |-> "Block", ok |-> TRUE, msg |-> "", amt |-> block + 1, a |-> NoVal, d |-> 0, act |-> r.act, upd |-> r.upd]
  /\ UNCHANGED <<mbpParam, mbpMax, eff, bal, led>>

\* Staker.Housekeep(b) called directly (the genesis builder does so at block 0 for a chain that starts in PoS)
HousekeepAt(b) ==
  LET t == ComputeTransition(CUR, b, MBP)
      upd == b % E = 0 /\ HasUpdates(t) IN
  /\ Commit(IF upd THEN ApplyTransition(CUR, t, b) ELSE CUR)
  /\ res' = [op |-> "Housekeep", ok |-> TRUE, msg |-> "", amt |-> b, a |-> NoVal, d |-> 0, act |-> upd, upd |-> upd]
  /\ UNCHANGED <<block, mbpParam, mbpMax, eff, bal, led>>

InitWith(vs, b0, m0) ==
  /\ block = b0 /\ mbpParam = m0 /\ mbpMax = MBPOf(m0)
  /\ val = [v \in vs |-> EmptyVal] /\ agg = [v \in vs |-> EmptyAgg] /\ del = <<>>
  /\ g = ZeroG /\ aL = EmptyList /\ qL = EmptyList /\ ren = <<>> /\ exits = <<>>
  /\ eff = 0 /\ bal = 0
  /\ led = [vdep |-> [v \in vs |-> 0], vwd |-> [v \in vs |-> 0], ddep |-> <<>>, dwd |-> <<>>, don |-> 0]
  /\ res = [op |-> "Init", ok |-> TRUE, msg |-> "", amt |-> 0, a |-> NoVal, d |-> 0, act |-> FALSE, upd |-> FALSE]

-----------------------------------------------------------------------------
(* ------------------------------- C16: staked VET is fully accounted -------------------------------------- *)
Dels == 1..Len(del)
DelsOn(a) == {i \in Dels : del[i].v = a}
DelStakeOn(a) == SumOver([i \in DelsOn(a) |-> del[i].stake], DelsOn(a))

\* the tracked total is the sum of the four counters
EffectiveIsCounters == eff = g.lv + g.qu + g.cd + g.wd
\* each counter is the sum over validators / aggregations / delegations
LockedIsSum       == g.lv = SumOver([a \in VS |-> val[a].lk + agg[a].lv], VS)
QueuedIsSum       == g.qu = SumOver([a \in VS |-> val[a].qu + agg[a].pv], VS)
CooldownIsSum     == g.cd = SumOver([a \in VS |-> val[a].cd], VS)
WithdrawableIsSum == g.wd = SumOver([a \in VS |-> val[a].wd + (DelStakeOn(a) - agg[a].pv - agg[a].lv)], VS)
\* the contract can pay
BalanceCovers == bal >= eff
\* custody: what a staker still has in the contract is exactly deposits minus withdrawals, never negative
ValClaim == \A a \in VS : /\ led.vwd[a] <= led.vdep[a]
                          /\ led.vdep[a] - led.vwd[a] = val[a].lk + val[a].qu + val[a].cd + val[a].wd
DelClaim == \A i \in Dels : /\ led.dwd[i] <= led.ddep[i]
                            /\ led.ddep[i] - led.dwd[i] = del[i].stake
EffectiveIsClaims == eff = SumOver([a \in VS |-> led.vdep[a] - led.vwd[a]], VS)
                           + SumOver([i \in Dels |-> led.ddep[i] - led.dwd[i]], Dels)
\* everybody has left and withdrawn: nothing is left behind in any bucket, the contract holds only what was forced into it
\* and everybody got back, in total, exactly what they deposited
Drained ==
  /\ eff = 0 /\ g = ZeroG /\ bal = led.don
  /\ \A a \in VS : /\ val[a].lk = 0 /\ val[a].qu = 0 /\ val[a].cd = 0 /\ val[a].wd = 0 /\ val[a].pu = 0
                   /\ agg[a] = EmptyAgg /\ led.vwd[a] = led.vdep[a]
  /\ \A i \in Dels : del[i].stake = 0 /\ led.dwd[i] = led.ddep[i]
  /\ aL = EmptyList /\ qL = EmptyList
\* no bucket ever underflows; what is scheduled to leave is inside what is there
NonNegative ==
  /\ g.lv >= 0 /\ g.lw >= 0 /\ g.qu >= 0 /\ g.wd >= 0 /\ g.cd >= 0 /\ eff >= 0 /\ bal >= 0
  /\ \A a \in VS : /\ val[a].lk >= 0 /\ val[a].pu >= 0 /\ val[a].qu >= 0 /\ val[a].cd >= 0 /\ val[a].wd >= 0
                   /\ val[a].wt >= 0 /\ val[a].pu <= val[a].lk
                   /\ agg[a].lv >= 0 /\ agg[a].lw >= 0 /\ agg[a].pv >= 0 /\ agg[a].pw >= 0
                   /\ agg[a].ev >= 0 /\ agg[a].ew >= 0 /\ agg[a].ev <= agg[a].lv /\ agg[a].ew <= agg[a].lw
  /\ \A i \in Dels : del[i].stake >= 0
\* buckets sit where the status says: locked only while active, cooldown only after exit, aggregation of a
\* validator outside {queued, active} is empty, a queued validator's delegations are all pending
BucketsMatchStatus ==
  \A a \in VS : /\ (val[a].st # "active" => val[a].lk = 0 /\ val[a].pu = 0 /\ val[a].wt = 0 /\ agg[a].lv = 0 /\ agg[a].ev = 0)
                /\ (val[a].st # "exit" => val[a].cd = 0)
                /\ (val[a].st \in {"none", "exit"} => agg[a] = EmptyAgg /\ val[a].qu = 0)
                /\ (val[a].st = "active" => val[a].lk >= MinStake)
                /\ ValNextTVL(val[a]) + AggNextTVL(agg[a]) <= MaxStake
\* the aggregation is the sum of the delegations it stands for (locked = started and not ended, ...)
AggIsSumOfDelegations ==
  \A a \in VS : val[a].st \in {"queued", "active"} =>
    LET ds == DelsOn(a)
        lockedD  == {i \in ds : IsLocked(del[i], val[a], block)}
        pendingD == {i \in ds : del[i].stake # 0 /\ ~Started(del[i], val[a], block)}
        exitingD == {i \in lockedD : del[i].last # None}
    IN /\ agg[a].lv = SumOver([i \in lockedD |-> del[i].stake], lockedD)
       /\ agg[a].lw = SumOver([i \in lockedD |-> DelW(del[i])], lockedD)
       /\ agg[a].pv = SumOver([i \in pendingD |-> del[i].stake], pendingD)
       /\ agg[a].pw = SumOver([i \in pendingD |-> DelW(del[i])], pendingD)
       /\ agg[a].ev = SumOver([i \in exitingD |-> del[i].stake], exitingD)
       /\ agg[a].ew = SumOver([i \in exitingD |-> DelW(del[i])], exitingD)

\* --- action properties (C16) ---
\* locked validator stake is released only at the end of a staking period of that validator or at its exit block
A_LockedReleasedOnlyOnTime ==
  \A a \in VS : val'[a].lk < val[a].lk =>
        /\ block' = block + 1 /\ block' % E = 0
        /\ ((block' - val[a].start) % val[a].per = 0 \/ val[a].exitB = block')
LockedReleasedOnlyOnTime == [][A_LockedReleasedOnlyOnTime]_vars
\* cooldown is paid out only after the cooldown period
A_CooldownRespected ==
  \A a \in VS : val'[a].cd < val[a].cd => val[a].st = "exit" /\ block >= val[a].exitB + Cooldown
CooldownRespected == [][A_CooldownRespected]_vars
\* locked delegated stake is released only at a period end of its validator or when the validator exits
A_DelegationReleasedOnlyOnTime ==
  \A a \in VS : agg'[a].lv < agg[a].lv =>
        /\ block' = block + 1 /\ block' % E = 0
        /\ ((block' - val[a].start) % val[a].per = 0 \/ val[a].exitB = block')
DelegationReleasedOnlyOnTime == [][A_DelegationReleasedOnlyOnTime]_vars
\* a withdraw pays exactly what the getter promised and leaves nothing to withdraw again (second withdraw = 0)
A_WithdrawPaysGetterOnce ==
  /\ (res'.op = "WithdrawStake" /\ res'.ok =>
            /\ res'.amt = CalcWithdrawable(val[res'.a], block)
            /\ CalcWithdrawable(val'[res'.a], block') = 0)
  /\ (res'.op = "WithdrawDelegation" /\ res'.ok => res'.amt = del[res'.d].stake /\ del'[res'.d].stake = 0)
WithdrawPaysGetterOnce == [][A_WithdrawPaysGetterOnce]_vars
\* nobody's money moves to somebody else: an operation on one validator / delegation leaves every other claim alone
A_ClaimsIndependent ==
  res'.op \in {"AddValidation", "IncreaseStake", "DecreaseStake", "WithdrawStake", "SignalExit", "SetBeneficiary"} =>
       /\ \A a \in VS \ {res'.a} : val'[a].lk + val'[a].qu + val'[a].cd + val'[a].wd = val[a].lk + val[a].qu + val[a].cd + val[a].wd
       /\ \A i \in Dels : del'[i].stake = del[i].stake
ClaimsIndependent == [][A_ClaimsIndependent]_vars

(* ------------------------- C17: the validator set evolves only at epoch boundaries ----------------------- *)
ActiveSeq == Walk(CUR, "aL")
QueuedSeq == Walk(CUR, "qL")
StatusSet(s) == {a \in VS : val[a].st = s}
LeaderView == [members |-> ActiveSeq, weights |-> [a \in StatusSet("active") |-> val[a].wt], total |-> g.lw]

WellFormed(seq, lst, members) ==
  /\ Len(seq) = lst.size
  /\ SeqSet(seq) = members /\ Cardinality(members) = Len(seq)          \* each member reached exactly once
  /\ lst.head = (IF seq = <<>> THEN NoVal ELSE seq[1])
  /\ lst.tail = (IF seq = <<>> THEN NoVal ELSE seq[Len(seq)])
  /\ \A i \in 1..Len(seq) : /\ val[seq[i]].prev = (IF i = 1 THEN NoVal ELSE seq[i - 1])
                            /\ val[seq[i]].next = (IF i = Len(seq) THEN NoVal ELSE seq[i + 1])
ActiveListWellFormed == WellFormed(ActiveSeq, aL, StatusSet("active"))
QueuedListWellFormed == WellFormed(QueuedSeq, qL, StatusSet("queued"))
ActiveQueuedDisjoint == SeqSet(ActiveSeq) \cap SeqSet(QueuedSeq) = {}
UnlistedUnlinked == \A a \in VS : val[a].st \in {"none", "exit"} => val[a].prev = NoVal /\ val[a].next = NoVal
RenewalWithinActive == /\ SeqSet(ren) \subseteq StatusSet("active")
                       /\ Cardinality(SeqSet(ren)) = Len(ren)
\* the weight used for scheduling scores and finality thresholds
WeightIsSum == /\ g.lw = SumOver([a \in StatusSet("active") |-> val[a].wt], StatusSet("active"))
               /\ \A a \in VS : val[a].st = "active" =>
                     val[a].wt = Weight(val[a].lk, ValMult(val[a])) + agg[a].lw
SizeWithinMax == aL.size <= mbpMax
\* the exit-block map is what SetExitBlock promises: one validator per epoch, the map knows every scheduled exit
ExitBlocksUnique ==
  /\ \A a \in VS : val[a].st = "active" /\ val[a].exitB # None => ExitAt(CUR, val[a].exitB) = a /\ val[a].exitB > block
  /\ \A a \in VS : val[a].st = "active" /\ val[a].exitB # None => val[a].exitB % E = 0
  /\ \A b \in DOMAIN exits : exits[b] # NoVal => val[exits[b]].exitB = b
StatusSane ==
  \A a \in VS : /\ (val[a].st = "queued" => val[a].exitB = None /\ val[a].comp = 0 /\ val[a].offB = None)
                /\ (val[a].st = "active" => val[a].start % E = 0 /\ val[a].start <= block /\ val[a].per \in Periods
                                             /\ (val[a].exitB = None <=> val[a].comp = 0))

\* --- action properties (C17) ---
IsBoundaryStep == block' = block + 1 /\ block' % E = 0
\* membership, order and weights of the leader group change only when an epoch starts
A_ChangesOnlyAtEpoch ==
  LeaderView' # LeaderView => IsBoundaryStep
ChangesOnlyAtEpoch == [][A_ChangesOnlyAtEpoch]_vars
\* proof of stake starts only with the 2/3 queue, on a transition block
A_PosNeedsQueue ==
  aL.size = 0 /\ aL'.size > 0 =>
       /\ IsBoundaryStep /\ qL.size * 3 >= MBP * 2 /\ block' >= Hayabusa + TP
       /\ (TP = 0 \/ (block' - Hayabusa) % TP = 0)
PosNeedsQueue == [][A_PosNeedsQueue]_vars
A_AtMostOneExitPerEpoch ==
  LET x == {a \in VS : val[a].st = "active" /\ val'[a].st = "exit"} IN
     /\ Cardinality(x) <= 1
     /\ \A a \in x : IsBoundaryStep /\ val[a].exitB = block'
AtMostOneExitPerEpoch == [][A_AtMostOneExitPerEpoch]_vars
\* the protocol forces an exit only on a validator that has been offline for more than the threshold
A_EvictionOnlyPastThreshold ==
  \A a \in VS : (val[a].st = "active" /\ val[a].exitB = None /\ val'[a].exitB # None /\ res'.op # "SignalExit") =>
        /\ IsBoundaryStep /\ block' % EvictInterval = 0
        /\ val[a].offB # None /\ block' > val[a].offB + EvictThreshold
        /\ val'[a].exitB > block' /\ val'[a].st = "active"
EvictionOnlyPastThreshold == [][A_EvictionOnlyPastThreshold]_vars
\* a voluntary exit takes effect at the end of a staking period at the earliest
A_VoluntaryExitAtPeriodEnd ==
  res'.op = "SignalExit" /\ res'.ok =>
        LET a == res'.a IN /\ val'[a].exitB > block /\ val'[a].exitB >= val[a].start + val[a].per
                           /\ (val'[a].exitB - val[a].start) % E = 0
VoluntaryExitAtPeriodEnd == [][A_VoluntaryExitAtPeriodEnd]_vars
A_ActivationsWithinMax ==
  LET x == {a \in VS : val[a].st = "queued" /\ val'[a].st = "active"} IN
  x # {} => IsBoundaryStep /\ aL'.size <= MBP /\ Cardinality(x) <= qL.size
ActivationsWithinMax == [][A_ActivationsWithinMax]_vars
\* queue order is activation order
A_ActivationIsFifo ==
  \A a \in VS : val[a].st = "queued" /\ val'[a].st = "active" =>
        \A c \in VS : (val[c].st = "queued" /\ val'[c].st = "queued") =>
            \E i, j \in 1..Len(QueuedSeq) : QueuedSeq[i] = a /\ QueuedSeq[j] = c /\ i < j
ActivationIsFifo == [][A_ActivationIsFifo]_vars
\* F4 (DESIGN section 6): nothing prevents the only active validator from exiting
EmptiedByExitOfOnlyActive ==
  /\ aL.size = 1 /\ aL'.size = 0 /\ qL.size = 0
  /\ val[aL.head].exitB = block' /\ val'[aL.head].st = "exit"
A_LeaderGroupNeverEmptied ==
  aL.size > 0 => aL'.size > 0
LeaderGroupNeverEmptied == [][A_LeaderGroupNeverEmptied]_vars
A_LeaderGroupEmptiedOnlyByF4 ==
  (aL.size > 0 /\ aL'.size = 0) => EmptiedByExitOfOnlyActive
LeaderGroupEmptiedOnlyByF4 == [][A_LeaderGroupEmptiedOnlyByF4]_vars
=============================================================================
