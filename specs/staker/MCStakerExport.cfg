SPECIFICATION ExSpec
CONSTANTS
  NoVal = NoVal
  v1 = v1
  v2 = v2
  v3 = v3
  Vals = {v1, v2, v3}
  E = 2
  LowP = 2
  MedP = 4
  HighP = 4
  Cooldown = 2
  EvictThreshold = 1
  EvictInterval = 4
  TP = 0
  Hayabusa = 0
  MinStake = 1
  MaxStake = 24
  WScale = 1
  ExitMaxTry = 20
  EvictMaxTry = 101
  DefaultMBP = 101
  Stakes = {1, 2}
  Mults = {100, 200}
  MBPs = {1, 2}
  InitMBP = 2
  MaxBlock = 10
  MaxOps = 7
  MaxDel = 2
  OnlineOps = TRUE
INVARIANT Export
CHECK_DEADLOCK FALSE
