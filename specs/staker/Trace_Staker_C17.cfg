\* Example of the configuration checks/stakercommon.py generates for Trace_Staker.tla (property C17, driver preset e2).
\* The constants are taken from the driver's config.json; Prop selects which getters / invariants this run reports.
SPECIFICATION Spec
CONSTANTS
  NoVal = "0x0"
  E = 2
  LowP = 2
  MedP = 4
  HighP = 8
  Cooldown = 2
  EvictThreshold = 3
  EvictInterval = 4
  TP = 0
  Hayabusa = 0
  MinStake = 25
  MaxStake = 600
  WScale = 1
  ExitMaxTry = 20
  EvictMaxTry = 101
  DefaultMBP = 101
  Prop = "C17"
  StrictMsg = TRUE
  CheckProj = TRUE
CONSTRAINT Progress
CONSTRAINT Conforms
INVARIANT ActiveListWellFormed
INVARIANT QueuedListWellFormed
INVARIANT ActiveQueuedDisjoint
INVARIANT UnlistedUnlinked
INVARIANT RenewalWithinActive
INVARIANT WeightIsSum
INVARIANT SizeWithinMax
INVARIANT ExitBlocksUnique
INVARIANT StatusSane
PROPERTY T_ChangesOnlyAtEpoch
PROPERTY T_PosNeedsQueue
PROPERTY T_AtMostOneExitPerEpoch
PROPERTY T_EvictionOnlyPastThreshold
PROPERTY T_VoluntaryExitAtPeriodEnd
PROPERTY T_ActivationsWithinMax
PROPERTY T_ActivationIsFifo
PROPERTY T_LeaderGroupEmptiedOnlyByF4
PROPERTY F4Watch
POSTCONDITION TraceAccepted
CHECK_DEADLOCK FALSE
