---- MODULE Trace_Staker ----
(* Trace specification for C16 / C17: validates event traces recorded by harness/cmd/stakersim from the REAL
   builtin/staker code (staker.Staker over a real state.State, reached through builtin.Staker.Native and
   Staker.SyncPOS) against Staker.tla.

   Every event carries the arguments of one public operation (or "Block": the next block starts with SyncPOS), the
   result the real code gave (ok / revert message / amount / status) and the post-state read through all getters.
   The step itself is the corresponding action of Staker.tla applied to the logged ARGUMENTS only: the specification
   computes the result and the whole next state by itself.  The comparison is done on the state reached, by the state
   constraint Conforms (a state that does not conform is reported with PrintT and not explored further, so the run
   ends at the first deviation without TLC printing a behaviour of thousands of states):

     MISMATCH-OWN    the result or a logged getter that belongs to property Prop differs from what the specification
                     computed (Prop = C16: stake buckets, counters, effectiveVET, balance, delegations, amounts paid;
                     Prop = C17: status, periods, exit / offline blocks, weights, both linked lists, leader group,
                     exit-block map, PoS status);
     MISMATCH-OTHER  the same for the getters of the other property: reported by the other check; this check notes it
                     and goes on comparing its own getters only (later consequences in its own observables count);
     MISMATCH-PROJ   an internal projection (the renewal list) differs while all observables agree: drift (exit 2);

   and all design invariants / action properties of Staker.tla listed in the cfg are evaluated at every step of the
   observed execution.  Several histories are concatenated; a Reset event starts the next one.                   *)
EXTENDS Staker, Json, TraceLib

CONSTANTS Prop,        \* "C16" or "C17": which property this run reports
          StrictMsg,   \* TRUE: revert messages must be equal, FALSE: only ok / revert
          CheckProj    \* TRUE: also compare internal projections (the renewal list read from its storage slots)

Trace == LoadTrace("trace.ndjson")
VARIABLES l,
          sw           \* chain mode: params[staker-switches] (bit 0 delegator paused, bit 1 staker paused)
tvars == <<vars, l, sw>>

Ev == Trace[l]
Last == Trace[l - 1]         \* the event that led to the current state (l > 1)

ResetTo(vs, b0, m0) ==
  /\ block' = b0 /\ mbpParam' = m0 /\ mbpMax' = MBPOf(m0)
  /\ val' = [v \in vs |-> EmptyVal] /\ agg' = [v \in vs |-> EmptyAgg] /\ del' = <<>>
  /\ g' = ZeroG /\ aL' = EmptyList /\ qL' = EmptyList /\ ren' = <<>> /\ exits' = <<>>
  /\ eff' = 0 /\ bal' = 0
  /\ led' = [vdep |-> [v \in vs |-> 0], vwd |-> [v \in vs |-> 0], ddep |-> <<>>, dwd |-> <<>>, don |-> 0]
  /\ res' = [op |-> "Init", ok |-> TRUE, msg |-> "", amt |-> 0, a |-> NoVal, d |-> 0, act |-> FALSE, upd |-> FALSE]

SeqToSet(s) == {s[i] : i \in 1..Len(s)}

Init == /\ HWMInit /\ TLCSet(2, 0) /\ Len(Trace) >= 1 /\ Trace[1].e = "Reset"
        /\ InitWith(SeqToSet(Trace[1].vals), Trace[1].block, Trace[1].mbp)
        /\ l = 2 /\ sw = 0

Step ==
  \/ Ev.e = "Reset" /\ ResetTo(SeqToSet(Ev.vals), Ev.block, Ev.mbp)
  \/ Ev.e = "Block" /\ Ev.n = block + 1 /\ NextBlock
  \/ Ev.e = "AddValidation" /\ AddValidation(Ev.a, Ev.end, Ev.p, Ev.s)
  \/ Ev.e = "IncreaseStake" /\ IncreaseStake(Ev.a, Ev.end, Ev.s)
  \/ Ev.e = "DecreaseStake" /\ DecreaseStake(Ev.a, Ev.end, Ev.s)
  \/ Ev.e = "SignalExit" /\ SignalExit(Ev.a, Ev.end)
  \/ Ev.e = "WithdrawStake" /\ WithdrawStake(Ev.a, Ev.end)
  \/ Ev.e = "SetBeneficiary" /\ SetBeneficiary(Ev.a, Ev.end, Ev.ben)
  \/ Ev.e = "AddDelegation" /\ AddDelegation(Ev.a, Ev.s, Ev.m)
  \/ Ev.e = "SignalDelegationExit" /\ SignalDelegationExit(Ev.d)
  \/ Ev.e = "WithdrawDelegation" /\ WithdrawDelegation(Ev.d)
  \/ Ev.e = "SetOnline" /\ Ev.a \in VS /\ Plain("SetOnline", OpSetOnline(CUR, Ev.a, block, Ev.on), Ev.a, 0)
  \/ Ev.e = "SetMBP" /\ SetMBP(Ev.m)
  \/ Ev.e = "Donate" /\ Donate(Ev.x)
  \/ Ev.e = "GenesisHousekeep" /\ block = 0 /\ HousekeepAt(0)
  \* end of a drain scenario: the driver made everybody leave and withdraw; nothing changes, Drained is checked
  \/ Ev.e = "DrainCheck" /\ UNCHANGED core
                         /\ res' = [op |-> "DrainCheck", ok |-> TRUE, msg |-> "", amt |-> 0, a |-> NoVal, d |-> 0, act |-> FALSE, upd |-> FALSE]

-----------------------------------------------------------------------------
(* chain mode: one transaction to the real Staker contract = a sequence of clauses executed atomically.  On top of the
   native operation the wrapper staker.sol / staker_native.go reverts a clause when
     - a delegation call does not come from the delegator contract (onlyDelegatorContract),
     - the stake is empty or not a whole number of VET (checkStake),
     - the staker / delegator is paused (params staker-switches),
     - PoS is not active and the validator is not an authority endorsed by the sender (native_addValidation),
     - the sender is a contract that reverts when it is paid ("Transfer failed");
   a contract sender that re-enters withdrawStake from inside the payment executes a second, nested withdraw. *)
StakerPaused == (sw \div 2) % 2 = 1
DelegatorPaused == sw % 2 = 1
DelegatorOps == {"AddDelegation", "SignalDelegationExit", "WithdrawDelegation"}

WrapperRev(S, c, from) ==
  \/ (c.e \in DelegatorOps /\ from # "delegator")
  \/ (c.e \in {"AddValidation", "IncreaseStake", "DecreaseStake", "AddDelegation"} /\ (c.frac \/ c.s = 0))
  \/ StakerPaused
  \/ (c.e \in DelegatorOps /\ DelegatorPaused)
  \/ (c.e = "AddValidation" /\ S.aL.size = 0 /\ (c.auth = NoVal \/ c.auth # from))

Native(S, c, from) ==
  CASE c.e = "AddValidation" -> OpAddValidation(S, c.a, from, c.p, c.s)
    [] c.e = "IncreaseStake" -> OpIncreaseStake(S, c.a, from, c.s)
    [] c.e = "DecreaseStake" -> OpDecreaseStake(S, c.a, from, c.s)
    [] c.e = "SignalExit" -> OpSignalExit(S, c.a, from, block)
    [] c.e = "WithdrawStake" -> OpWithdrawStake(S, c.a, from, block)
    [] c.e = "SetBeneficiary" -> OpSetBeneficiary(S, c.a, from, c.ben)
    [] c.e = "AddDelegation" -> OpAddDelegation(S, c.a, c.s, c.m, block)
    [] c.e = "SignalDelegationExit" -> OpSignalDelegationExit(S, c.d, block)
    [] c.e = "WithdrawDelegation" -> OpWithdrawDelegation(S, c.d, block)

\* W = [S, eff, bal, led, ok, out]; out = what each clause paid / the delegation id it created
ApplyClause(W, c, from) ==
  LET r == IF WrapperRev(W.S, c, from) THEN Rev(W.S, "wrapper") ELSE Native(W.S, c, from)
      pays == c.e \in {"WithdrawStake", "WithdrawDelegation"}
      rcv == IF pays /\ Has(c, "rcv") THEN c.rcv ELSE "accept"
      \* the nested withdraw of a re-entering contract sender
      r2 == IF r.ok /\ rcv = "reenter" THEN OpWithdrawStake(r.S, c.rv, from, block) ELSE Ok(r.S, 0)
  IN IF ~r.ok \/ rcv = "revert" \/ ~r2.ok THEN [W EXCEPT !.ok = FALSE]
     ELSE LET dep  == IF c.e \in {"AddValidation", "IncreaseStake", "AddDelegation"} THEN c.s ELSE 0
              paid == IF pays THEN r.amt + r2.amt ELSE 0
              led1 == CASE c.e \in {"AddValidation", "IncreaseStake"} -> [W.led EXCEPT !.vdep[c.a] = @ + c.s]
                        [] c.e = "AddDelegation" -> [W.led EXCEPT !.ddep = Append(@, c.s), !.dwd = Append(@, 0)]
                        [] c.e = "WithdrawStake" -> [W.led EXCEPT !.vwd[c.a] = @ + r.amt]
                        [] c.e = "WithdrawDelegation" -> [W.led EXCEPT !.dwd[c.d] = @ + r.amt]
                        [] OTHER -> W.led
              led2 == IF rcv = "reenter" THEN [led1 EXCEPT !.vwd[c.rv] = @ + r2.amt] ELSE led1
          IN [S |-> r2.S, eff |-> W.eff + dep - paid, bal |-> W.bal + dep - paid, led |-> led2, ok |-> TRUE,
              out |-> Append(W.out, IF c.e = "AddDelegation" THEN r.amt ELSE paid)]

RECURSIVE FoldTx(_,_,_,_)
FoldTx(W, cs, k, from) == IF k > Len(cs) \/ ~W.ok THEN W ELSE FoldTx(ApplyClause(W, cs[k], from), cs, k + 1, from)

ChainTx ==
  LET W == FoldTx([S |-> CUR, eff |-> eff, bal |-> bal, led |-> led, ok |-> TRUE, out |-> <<>>], Ev.cs, 1, Ev.from) IN
  /\ IF W.ok THEN Commit(W.S) /\ eff' = W.eff /\ bal' = W.bal /\ led' = W.led
             ELSE UNCHANGED <<val, agg, del, g, aL, qL, ren, exits, eff, bal, led>>
  /\ res' = [op |-> "ChainTx", ok |-> W.ok, msg |-> "", amt |-> 0, a |-> NoVal, d |-> 0, act |-> FALSE, upd |-> FALSE,
             out |-> IF W.ok THEN W.out ELSE <<>>]
  /\ UNCHANGED <<block, mbpParam, mbpMax>>

WouldBeF4 == /\ aL.size = 1 /\ qL.size = 0 /\ val[aL.head].exitB = block + 1
             /\ SyncPOS(CUR, block + 1, MBP).S.aL.size = 0

Next == /\ l <= Len(Trace) /\ l' = l + 1
        /\ \/ Step
           \/ Ev.e = "ChainTx" /\ ChainTx
           \/ Ev.e = "SetSwitches" /\ UNCHANGED core
                                  /\ res' = [op |-> "SetSwitches", ok |-> TRUE, msg |-> "", amt |-> Ev.v, a |-> NoVal, d |-> 0, act |-> FALSE, upd |-> FALSE]
           \* chain mode: nobody is entitled to produce block Ev.n.  State unchanged; WouldBeF4 tells whether it is the
           \* known shape (the next SyncPOS runs the exit of the only leader, the queue is empty)
           \/ Ev.e = "ChainHalt" /\ Ev.n = block + 1 /\ UNCHANGED core
                                /\ (WouldBeF4 => PrintT(<<"F4-OBSERVED", l - 1>>))
                                /\ res' = [op |-> "ChainHalt", ok |-> WouldBeF4, msg |-> "", amt |-> 0, a |-> NoVal, d |-> 0, act |-> FALSE, upd |-> FALSE]
        /\ sw' = IF Ev.e = "SetSwitches" THEN Ev.v ELSE IF Ev.e = "Reset" THEN 0 ELSE sw
Spec == Init /\ [][Next]_tvars

-----------------------------------------------------------------------------
(* GetValidationTotals *)
Totals(v, a) ==
  LET exiting == v.st = "active" /\ v.exitB # None IN
  <<v.lk + a.lv, v.wt, v.qu + a.pv,
    IF exiting THEN v.lk + a.lv ELSE v.pu + a.ev,
    IF exiting THEN 0 ELSE Weight(ValNextTVL(v), IF AggNextTVL(a) > 0 THEN 200 ELSE 100) + a.lw + a.pw - a.ew>>

MoneyOps == {"AddValidation", "IncreaseStake", "DecreaseStake", "WithdrawStake", "AddDelegation",
             "SignalDelegationExit", "WithdrawDelegation", "Donate", "DrainCheck"}
SetOps == {"SignalExit", "SetBeneficiary", "SetOnline", "SetMBP", "Block", "GenesisHousekeep", "SetSwitches", "ChainHalt"}

ResultMismatch(R) ==
  IF R.e = "Reset" THEN {}
  ELSE (IF res.ok # R.ok THEN {<<"result.ok", res.ok, R.ok, res.msg, R.msg>>} ELSE {})
       \cup (IF StrictMsg /\ res.ok = R.ok /\ res.msg # R.msg THEN {<<"result.msg", res.msg, R.msg>>} ELSE {})
       \cup (IF R.e \in {"WithdrawStake", "WithdrawDelegation", "AddDelegation"} /\ res.ok /\ R.ok /\ res.amt # R.amt
             THEN {<<"result.amt", res.amt, R.amt>>} ELSE {})
       \cup (IF R.e = "Block" /\ R.ok /\ Has(R, "act") /\ (res.act # R.act \/ res.upd # R.upd)
             THEN {<<"result.status", res.act, res.upd, R.act, R.upd>>} ELSE {})
       \cup (IF Has(R, "bad") THEN {<<"real-code-error", R.msg>>} ELSE {})
       \cup (IF R.e = "ChainTx" /\ res.ok /\ R.ok /\
                 (\E k \in 1..Len(R.cs) : res.out[k] # (IF R.cs[k].e = "AddDelegation" THEN R.cs[k].id ELSE R.cs[k].paid))
             THEN {<<"result.out", res.out, [k \in 1..Len(R.cs) |-> <<R.cs[k].e, R.cs[k].paid, R.cs[k].id>>]>>} ELSE {})
       \cup (IF R.e = "ChainHalt" /\ ~res.ok THEN {<<"chain-halted-not-F4", R.why>>} ELSE {})
       \* the long-lived consensus instance (leader-group cache, total weight) must accept the packer's block
       \cup (IF R.e = "Block" /\ Has(R, "cons") /\ R.cons # "ok" THEN {<<"consensus-rejected-packer-block", R.cons>>} ELSE {})
       \cup (IF R.e = "DrainCheck" /\ ~Drained
             THEN {<<"not-drained", eff, g, bal, led.don, {a \in VS : val[a].lk + val[a].qu + val[a].cd + val[a].wd > 0},
                     {i \in Dels : del[i].stake > 0}>>} ELSE {})

ValMoney == {"lk", "pu", "qu", "cd", "wd"}
ValSet == {"st", "end", "ben", "per", "comp", "start", "exitB", "offB", "wt", "prev", "next"}
AggMoney == {"lv", "pv", "ev"}
AggSet == {"lw", "pw", "ew"}

\* mismatches between the state the specification computed and the getters the implementation answered
MoneyMismatch(R) ==
  LET p == R.post IN
  {<<"val", a, f, val[a][f], p.val[a][f]>> : <<a, f>> \in {x \in VS \X ValMoney : val[x[1]][x[2]] # p.val[x[1]][x[2]]}}
  \cup {<<"agg", a, f, agg[a][f], p.agg[a][f]>> : <<a, f>> \in {x \in VS \X AggMoney : agg[x[1]][x[2]] # p.agg[x[1]][x[2]]}}
  \cup {<<"g", f, g[f], p.g[f]>> : f \in {x \in {"lv", "qu", "wd", "cd"} : g[x] # p.g[x]}}
  \cup (IF eff # p.eff THEN {<<"effectiveVET", eff, p.eff>>} ELSE {})
  \cup (IF bal # p.bal THEN {<<"balance", bal, p.bal>>} ELSE {})
  \cup (IF Len(del) # Len(p.del) \/ p.delExtra THEN {<<"delegations", Len(del), Len(p.del), p.delExtra>>}
        ELSE {<<"del", i, del[i], p.del[i]>> : i \in {j \in 1..Len(del) :
                 LET d == del[j]
                     q == p.del[j]
                     v == val[d.v]
                 IN \/ d.v # q.v \/ d.stake # q.stake \/ d.mult # q.mult \/ d.first # q.first \/ d.last # q.last
                    \/ Started(d, v, block) # q.started \/ Ended(d, v, block) # q.ended \/ IsLocked(d, v, block) # q.locked}})
  \cup {<<"getWithdrawable", a, CalcWithdrawable(val[a], block), p.val[a].wdr>> :
            a \in {x \in VS : CalcWithdrawable(val[x], block) # p.val[x].wdr}}
  \cup {<<"totals", a, Totals(val[a], agg[a]), p.val[a].tot>> :
            a \in {x \in VS : \E i \in {1, 3} : Totals(val[x], agg[x])[i] # p.val[x].tot[i]}}

LeaderGroup == [i \in 1..Len(ActiveSeq) |->
                  LET a == ActiveSeq[i] IN [a |-> a, end |-> val[a].end, ben |-> val[a].ben, on |-> val[a].offB = None, wt |-> val[a].wt]]

SetMismatch(R) ==
  LET p == R.post IN
  {<<"val", a, f, val[a][f], p.val[a][f]>> : <<a, f>> \in {x \in VS \X ValSet : val[x[1]][x[2]] # p.val[x[1]][x[2]]}}
  \cup {<<"agg", a, f, agg[a][f], p.agg[a][f]>> : <<a, f>> \in {x \in VS \X AggSet : agg[x[1]][x[2]] # p.agg[x[1]][x[2]]}}
  \cup (IF g.lw # p.g.lw THEN {<<"g", "lw", g.lw, p.g.lw>>} ELSE {})
  \cup (IF block # p.block THEN {<<"block", block, p.block>>} ELSE {})
  \cup (IF mbpParam # p.mbp THEN {<<"mbp", mbpParam, p.mbp>>} ELSE {})
  \cup (IF (aL.size > 0) # p.active THEN {<<"IsPoSActive", aL.size > 0, p.active>>} ELSE {})
  \cup (IF aL.head # p.aL.head \/ aL.size # p.aL.size \/ ActiveSeq # p.aL.seq \/ ~p.aL.acyclic
        THEN {<<"activeList", aL, ActiveSeq, p.aL>>} ELSE {})
  \cup (IF qL.head # p.qL.head \/ qL.size # p.qL.size \/ QueuedSeq # p.qL.seq \/ ~p.qL.acyclic
        THEN {<<"queuedList", qL, QueuedSeq, p.qL>>} ELSE {})
  \cup (IF LeaderGroup # p.lg THEN {<<"leaderGroup", LeaderGroup, p.lg>>} ELSE {})
  \cup {<<"hasDelegations", a, agg[a].lv > 0, p.val[a].hasDel>> : a \in {x \in VS : (agg[x].lv > 0) # p.val[x].hasDel}}
  \cup {<<"totals", a, Totals(val[a], agg[a]), p.val[a].tot>> :
            a \in {x \in VS : \E i \in {2, 4, 5} : Totals(val[x], agg[x])[i] # p.val[x].tot[i]}}
  \cup {<<"exits", b, ExitAt(CUR, b), "logged">> :
            b \in {x \in p.exitsFrom..p.exitsTo : x % E = 0 /\
                     ExitAt(CUR, x) # (IF \E i \in 1..Len(p.exits) : p.exits[i][1] = x
                                       THEN (CHOOSE q \in SeqToSet(p.exits) : q[1] = x)[2] ELSE NoVal)}}

\* a getter of the real code that fails (error or panic) while the state is read is a deviation for both properties
\* (events recorded on a real chain carry the post-state only on the last event of each block)
GetterFailed(R) == Has(R, "post") /\ "getterError" \in DOMAIN R.post
ResultIsOwn(R) == R.e = "ChainTx" \/ ((R.e \in MoneyOps) = (Prop = "C16"))     \* a transaction's outcome: both properties
Own(R) == IF GetterFailed(R) THEN {<<"getterError", R.post.getterError>>}
          ELSE (IF ~Has(R, "post") THEN {} ELSE IF Prop = "C16" THEN MoneyMismatch(R) ELSE SetMismatch(R))
               \cup (IF ResultIsOwn(R) THEN ResultMismatch(R) ELSE {})
Other(R) == IF GetterFailed(R) THEN {}
            ELSE (IF ~Has(R, "post") THEN {} ELSE IF Prop = "C16" THEN SetMismatch(R) ELSE MoneyMismatch(R))
                 \cup (IF ResultIsOwn(R) THEN {} ELSE ResultMismatch(R))

\* internal projections: compared because that shows the specification describes THIS code, but a difference with all
\* observables agreeing is specification drift (exit 2), never a violation (DESIGN section 2)
Proj(R) == IF CheckProj /\ Has(R, "post") /\ ~GetterFailed(R) /\ Has(R.post, "ren") /\ ren # R.post.ren
           THEN {<<"renewalList", ren, R.post.ren>>} ELSE {}

Report(tag, s) == IF s = {} THEN TRUE ELSE PrintT(<<tag, l - 2, Last.e, s>>) /\ FALSE

\* used as a CONSTRAINT (after Progress): a state that does not conform in this property's getters is reported and not
\* explored further, so the run ends at the first deviation without TLC printing a behaviour of thousands of states.
\* A deviation that shows only in the OTHER property's getters is printed once per history (TLC register 2) and the
\* history goes on with this property's getters only: the other check reports the first symptom, this one still sees
\* every later consequence in its own observables (e.g. a wrongly recorded exit block that shortens a cooldown).
Conforms == l > 1 =>
  /\ (Last.e = "Reset" => TLCSet(2, 0))
  /\ Report("MISMATCH-OWN", Own(Last))
  /\ \/ TLCGet(2) = 1
     \/ /\ Other(Last) = {}
        /\ Report("MISMATCH-PROJ", Proj(Last))
     \/ /\ Other(Last) # {}
        /\ PrintT(<<"MISMATCH-OTHER", l - 2, Last.e, Other(Last)>>)
        /\ TLCSet(2, 1)

\* the action properties of Staker.tla on the observed execution (a Reset step starts another history)
T_LockedReleasedOnlyOnTime == [][Ev.e \in {"Reset", "GenesisHousekeep"} \/ A_LockedReleasedOnlyOnTime]_vars
T_CooldownRespected == [][Ev.e \in {"Reset", "GenesisHousekeep"} \/ A_CooldownRespected]_vars
T_DelegationReleasedOnlyOnTime == [][Ev.e \in {"Reset", "GenesisHousekeep"} \/ A_DelegationReleasedOnlyOnTime]_vars
T_WithdrawPaysGetterOnce == [][Ev.e \in {"Reset", "GenesisHousekeep"} \/ A_WithdrawPaysGetterOnce]_vars
T_ClaimsIndependent == [][Ev.e \in {"Reset", "GenesisHousekeep"} \/ A_ClaimsIndependent]_vars
T_ChangesOnlyAtEpoch == [][Ev.e \in {"Reset", "GenesisHousekeep"} \/ A_ChangesOnlyAtEpoch]_vars
T_PosNeedsQueue == [][Ev.e \in {"Reset", "GenesisHousekeep"} \/ A_PosNeedsQueue]_vars
T_AtMostOneExitPerEpoch == [][Ev.e \in {"Reset", "GenesisHousekeep"} \/ A_AtMostOneExitPerEpoch]_vars
T_EvictionOnlyPastThreshold == [][Ev.e \in {"Reset", "GenesisHousekeep", "ChainTx"} \/ A_EvictionOnlyPastThreshold]_vars
T_VoluntaryExitAtPeriodEnd == [][Ev.e \in {"Reset", "GenesisHousekeep"} \/ A_VoluntaryExitAtPeriodEnd]_vars
T_ActivationsWithinMax == [][Ev.e \in {"Reset", "GenesisHousekeep"} \/ A_ActivationsWithinMax]_vars
T_ActivationIsFifo == [][Ev.e \in {"Reset", "GenesisHousekeep"} \/ A_ActivationIsFifo]_vars
T_LeaderGroupNeverEmptied == [][Ev.e \in {"Reset", "GenesisHousekeep"} \/ A_LeaderGroupNeverEmptied]_vars     \* violated by F4; not in any cfg
T_LeaderGroupEmptiedOnlyByF4 == [][Ev.e \in {"Reset", "GenesisHousekeep"} \/ A_LeaderGroupEmptiedOnlyByF4]_vars

\* F4 is watched, not enforced: the observation is printed and validation continues
F4Watch == [][Ev.e \notin {"Reset", "GenesisHousekeep"} /\ EmptiedByExitOfOnlyActive => PrintT(<<"F4-OBSERVED", l - 1>>)]_vars

Progress == HWM(l)
TraceAccepted == Accepted(Len(Trace))
====
