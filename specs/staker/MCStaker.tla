---- MODULE MCStaker ----
(* Exhaustive exploration of Staker.tla inside small bounds: every interleaving of the public operations of a few
   validators / delegations with block production (SyncPOS: transition, housekeeping), bounded by the number of
   blocks and the number of successful operations.  Reverted operations leave the contract state unchanged and are
   stuttering steps of the VIEW.                                                                                 *)
EXTENDS Staker
CONSTANTS Vals, Stakes, Mults, MBPs, InitMBP, MaxBlock, MaxOps, MaxDel, OnlineOps
VARIABLE ops
mcvars == <<vars, ops>>

End(v) == v                               \* every validator endorses itself; NoVal plays the stranger

MCInit == InitWith(Vals, 0, InitMBP) /\ ops = 0

Op == \/ \E a \in Vals, p \in Periods, s \in Stakes : AddValidation(a, End(a), p, s)
      \/ \E a \in Vals, s \in Stakes : IncreaseStake(a, End(a), s) \/ DecreaseStake(a, End(a), s)
      \/ \E a \in Vals : SignalExit(a, End(a)) \/ WithdrawStake(a, End(a)) \/ WithdrawStake(a, NoVal)
      \/ \E a \in Vals, s \in Stakes, m \in Mults : Len(del) < MaxDel /\ AddDelegation(a, s, m)
      \/ \E i \in 1..MaxDel : SignalDelegationExit(i) \/ WithdrawDelegation(i)
      \/ OnlineOps /\ \E a \in Vals, o \in BOOLEAN : (o = (val[a].offB = None) => FALSE) /\ SetOnline(a, o)
      \/ \E m \in MBPs : m # mbpParam /\ SetMBP(m)

MCNext == \/ block < MaxBlock /\ NextBlock /\ UNCHANGED ops
          \/ ops < MaxOps /\ Op /\ ops' = IF res'.ok THEN ops + 1 ELSE ops
MCSpec == MCInit /\ [][MCNext]_mcvars
MCView == <<core, ops>>
Sym == Permutations(Vals)

\* vacuity probes: each must be VIOLATED (reachability of the interesting situations)
NeverEvicted == \A a \in VS : ~(/\ val[a].st = "active" /\ val[a].offB # None /\ block % E = 0 /\ block % EvictInterval = 0
                                 /\ block > val[a].offB + EvictThreshold /\ val[a].exitB = block + E)
NeverRenewedWithDelegation == \A a \in VS : ~(val[a].st = "active" /\ agg[a].lv > 0 /\ block > val[a].start)
NeverCooldownPaid == ~(res.op = "WithdrawStake" /\ res.ok /\ res.a \in VS /\ val[res.a].st = "exit" /\ res.amt > 0 /\ val[res.a].cd = 0 /\ val[res.a].exitB # None)
NeverDelegationWithdrawnAfterLock == ~(res.op = "WithdrawDelegation" /\ res.ok /\ res.amt > 0 /\ val[del[res.d].v].st = "active" /\ del[res.d].last # None)
\* an eviction check at a height below the threshold finds a validator offline (it must NOT be evicted there)
NeverOfflineAtEarlyCheck == ~(block > 0 /\ block % EvictInterval = 0 /\ block % E = 0 /\ block < EvictThreshold
                              /\ \E a \in VS : val[a].st = "active" /\ val[a].offB # None /\ val[a].exitB = None /\ val[a].offB < block)
NeverEmptied == ~(res.op = "Block" /\ aL.size = 0 /\ \E a \in VS : val[a].st = "exit" /\ val[a].exitB # None)
====
