SPECIFICATION MCSpec
CONSTANTS
  NoVal = NoVal
  v1 = v1
  v2 = v2
  v3 = v3
  Vals = {v1, v2, v3}
  E = 2
  LowP = 2
  MedP = 4
  HighP = 4
  Cooldown = 2
  EvictThreshold = 1
  EvictInterval = 4
  TP = 0
  Hayabusa = 0
  MinStake = 1
  MaxStake = 4
  WScale = 1
  ExitMaxTry = 2
  EvictMaxTry = 3
  DefaultMBP = 3
  Stakes = {1, 2}
  Mults = {100, 200}
  MBPs = {2}
  InitMBP = 2
  MaxBlock = 7
  MaxOps = 4
  MaxDel = 2
  OnlineOps = TRUE
VIEW MCView
SYMMETRY Sym
INVARIANT EffectiveIsCounters
INVARIANT LockedIsSum
INVARIANT QueuedIsSum
INVARIANT CooldownIsSum
INVARIANT WithdrawableIsSum
INVARIANT BalanceCovers
INVARIANT ValClaim
INVARIANT DelClaim
INVARIANT EffectiveIsClaims
INVARIANT NonNegative
INVARIANT BucketsMatchStatus
INVARIANT AggIsSumOfDelegations
INVARIANT ActiveListWellFormed
INVARIANT QueuedListWellFormed
INVARIANT ActiveQueuedDisjoint
INVARIANT UnlistedUnlinked
INVARIANT RenewalWithinActive
INVARIANT WeightIsSum
INVARIANT SizeWithinMax
INVARIANT ExitBlocksUnique
INVARIANT StatusSane
PROPERTY LockedReleasedOnlyOnTime
PROPERTY CooldownRespected
PROPERTY DelegationReleasedOnlyOnTime
PROPERTY WithdrawPaysGetterOnce
PROPERTY ClaimsIndependent
PROPERTY ChangesOnlyAtEpoch
PROPERTY PosNeedsQueue
PROPERTY AtMostOneExitPerEpoch
PROPERTY EvictionOnlyPastThreshold
PROPERTY VoluntaryExitAtPeriodEnd
PROPERTY ActivationsWithinMax
PROPERTY ActivationIsFifo
PROPERTY LeaderGroupEmptiedOnlyByF4
CHECK_DEADLOCK FALSE
