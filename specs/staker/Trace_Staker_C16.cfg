\* Example of the configuration checks/stakercommon.py generates for Trace_Staker.tla (property C16, driver preset e2).
\* The constants are taken from the driver's config.json; Prop selects which getters / invariants this run reports.
SPECIFICATION Spec
CONSTANTS
  NoVal = "0x0"
  E = 2
  LowP = 2
  MedP = 4
  HighP = 8
  Cooldown = 2
  EvictThreshold = 3
  EvictInterval = 4
  TP = 0
  Hayabusa = 0
  MinStake = 25
  MaxStake = 600
  WScale = 1
  ExitMaxTry = 20
  EvictMaxTry = 101
  DefaultMBP = 101
  Prop = "C16"
  StrictMsg = TRUE
  CheckProj = TRUE
CONSTRAINT Progress
CONSTRAINT Conforms
INVARIANT EffectiveIsCounters
INVARIANT LockedIsSum
INVARIANT QueuedIsSum
INVARIANT CooldownIsSum
INVARIANT WithdrawableIsSum
INVARIANT BalanceCovers
INVARIANT ValClaim
INVARIANT DelClaim
INVARIANT EffectiveIsClaims
INVARIANT NonNegative
INVARIANT BucketsMatchStatus
INVARIANT AggIsSumOfDelegations
PROPERTY T_LockedReleasedOnlyOnTime
PROPERTY T_CooldownRespected
PROPERTY T_DelegationReleasedOnlyOnTime
PROPERTY T_WithdrawPaysGetterOnce
PROPERTY T_ClaimsIndependent
POSTCONDITION TraceAccepted
CHECK_DEADLOCK FALSE
