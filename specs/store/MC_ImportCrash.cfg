SPECIFICATION Spec
CONSTANTS
  a = a
  b = b
  c = c
  d = d
  E = 3
  W <- W1
  ThrW = 2
  Rank <- RankDef
  Stream <- StreamDef
  MaxCrashes = 2
  Repair = TRUE
  Score <- ScoreDef
  IdLess <- IdLessDef
INVARIANT BestComplete
INVARIANT StoredComplete
INVARIANT LogsMatchBest
INVARIANT FinalityNotContradicting
INVARIANT ResumeConverges
INVARIANT ResumeConvergesAlsoF2
PROPERTY FinMonotone
CHECK_DEADLOCK FALSE
