SPECIFICATION MCSpec
CONSTANTS
  g = g
  a1 = a1
  a2 = a2
  b2 = b2
  b3 = b3
  a3 = a3
  b4 = b4
  r1 = r1
  r2 = r2
  r3 = r3
  NoBlock = NoBlock
  E = 2
  Par <- ParDef
  Num <- NumDef
  Readers <- R2
  StreamC <- Stream3
  Order <- OrderAsIs
  CheckAccepts = TRUE
  SimCommits = FALSE
  WithNext = TRUE
  NextTwoLoads = FALSE
SYMMETRY Sym
INVARIANT VisibleImpliesComplete
INVARIANT PublishedComplete
INVARIANT FinalizedMonotonePerReader
INVARIANT NextIsOneSnapshot
INVARIANT NoQueryWrites
INVARIANT DurableBehindMemory
PROPERTY QueriesAreReadOnly
CHECK_DEADLOCK FALSE
