---- MODULE Trace_LogIndex ----
(* Trace specification for C15: validates what the REAL log db (logdb.LogDB written by node.writeLogs / syncLogDB, read
   through FilterEvents / FilterTransfers and through the HTTP handlers of api/events and api/transfers) returned
   against LogIndex.tla.

   Line 1 of the trace (Config) holds the facts the rules leave open: for every block its parent, height, timestamp,
   byte rank of its id and its receipts in NESTED form (tx -> clause -> events / transfers: no positions), and the
   dictionary of every row ever read back from a log db (all columns).  Then one stream per (run, node), each starting
   with Reset.  After every delivery the harness logged the complete tables as read back, and seeded queries with
   their real results.  The specification
     - replays the node's log db with the design actions ImportBest / ImportSide / CrashMid / Resync (which one: the
       import's own report "became best"; the rows themselves are computed from the receipts by the specification),
     - requires tables read back = specification rows (every column) and evaluates RowsEqualCanonical
       (tables = flattened receipts of the node's canonical chain) as an invariant on every state,
     - requires every query result = Filter(specification rows, ...) = ListFilter(canonical list, ...),
     - requires status code and rows of every API call = ApiCall(...) below (transcribed from the handlers),
     - follows a period with --skip-logs (ImportNoLog), a cancelled syncLogDB (the height it stopped at is inferred from
       the tables) and the completing restart on an on-disk log db, and the refusals at the bounds of the sequence packing.
   An Error event (a call into thor returned an unexpected error or panicked: failed import, failed restart, failed read)
   matches no action: the stream is rejected there.                                                                  *)
EXTENDS LogIndex, Json, TraceLib

Trace == LoadTrace("trace.ndjson")
Cfg == Trace[1]
Blk == Cfg.blocks
VARIABLE l
tvars == <<vars, l>>

TrGenesis == Cfg.genesis
TrPar(b) == Blk[b].p
TrNum(b) == Blk[b].n
TrTime(b) == Blk[b].t
\* receipts: dense (a sequence, index = tx index + 1) or sparse (only the transactions that have outputs, "at" = their
\* 1-based positions) for synthetic blocks with tens of thousands of empty receipts
TrTxs(b) == LET f == Blk[b] IN
            IF "at" \in DOMAIN f
            THEN [i \in {f.at[k] : k \in DOMAIN f.at} |-> f.txs[CHOOSE k \in DOMAIN f.at : f.at[k] = i]]
            ELSE f.txs
TrIdLess(x, y) == Blk[x].ord < Blk[y].ord
TrMaxBlockNumber == Cfg.maxBlockNumber

Ev == Trace[l]
IsEv(name) == l <= Len(Trace) /\ Ev.e = name
Known(b) == b \in DOMAIN Blk

\* rows the implementation returned, by dictionary id
Rows(ids) == [i \in 1..Len(ids) |-> Cfg.rows[ids[i]]]
SeqSet(s) == {s[i] : i \in 1..Len(s)}
RowsOfKind(k) == IF k = "E" THEN evRows ELSE trRows

\* the tables read back after the event (primed state)
Observed ==
  /\ Rows(Ev.E) = Table(evRows', "E")
  /\ Rows(Ev.T) = Table(trRows', "T")
  \* the nil filter has no ORDER BY: same rows in any order
  /\ (Has(Ev, "nilE") => Len(Ev.nilE) = Len(Ev.E) /\ SeqSet(Ev.nilE) = SeqSet(Ev.E))
  /\ (Has(Ev, "nilT") => Len(Ev.nilT) = Len(Ev.T) /\ SeqSet(Ev.nilT) = SeqSet(Ev.T))
  /\ Ev.best = best'

TInit == /\ HWMInit /\ Cfg.e = "Config" /\ Init /\ l = 2

\* a fresh node: repository = {genesis}, genesis logs written
TReset == /\ IsEv("Reset")
          /\ stored' = {Genesis} /\ best' = Genesis /\ up' = TRUE /\ logging' = TRUE
          /\ evRows' = RowsOf(Genesis, "E") /\ trRows' = RowsOf(Genesis, "T")
          /\ Observed
TImport == /\ IsEv("Import") /\ Known(Ev.b)
           /\ IF Ev.trunk THEN ImportBest(Ev.b) ELSE ImportSide(Ev.b)
           /\ Observed
\* the node packed a block of its own (real doPack) on the parent of its packing flow - which is the best block only if
\* nothing better arrived between scheduling and packing; trunk: the repository's best block is the new block afterwards
TPack == /\ IsEv("Pack") /\ Known(Ev.b) /\ Par(Ev.b) = Ev.flowParent
         /\ Pack(Ev.b, Ev.trunk)
         /\ Observed
\* a delivery that stores nothing
TIgnore == /\ IsEv("Ignore") /\ Known(Ev.b) /\ up
           /\ (Ev.class = "known" <=> Ev.b \in stored)
           /\ (Ev.class = "parent-missing" => Par(Ev.b) \notin stored)
           /\ UNCHANGED vars
           /\ Observed
\* the process died during the import of Ev.b, after the point where the log transaction is committed
TCrash == /\ IsEv("Crash") /\ Known(Ev.b)
          /\ IF Ev.trunk THEN CrashMid(Ev.b) ELSE (Importable(Ev.b) /\ Crash)
          /\ Observed
TRestart == /\ IsEv("Restart") /\ ~up /\ Resync
            /\ Observed
\* Writer.Write refused the block (a position does not fit the sequence packing); the caller rolled back
TWriteErr == /\ IsEv("WriteErr") /\ Known(Ev.b) /\ Importable(Ev.b) /\ WriteErr(Ev.b)
             /\ UNCHANGED vars
             /\ Observed
\* the process is stopped between two imports (its log db file is closed: nothing to read)
TStop == IsEv("Stop") /\ Crash
\* ... and started with --skip-logs: the repository moves on, the log db under test is not even opened
TStartSkipLogs == IsEv("StartSkipLogs") /\ StartSkipLogs
TImportNoLog == /\ IsEv("ImportNoLog") /\ Known(Ev.b)
                /\ ImportSkipLogs(Ev.b, Ev.trunk)
                /\ Ev.best = best'
\* start-up with logs, syncLogDB cancelled on its way (after the block of SOME height j - the tables tell which)
TSyncCancel == /\ IsEv("SyncCancel")
               /\ \E j \in 1..Num(best) : ResyncCancelled(j)
               /\ Observed
\* bounds of the sequence packing probed on a throw-away log db: a block whose only transaction (index Ev.ti) carries
\* Ev.count events; the write fails iff the last log index does not fit; otherwise the newest row reads back as logged
TSeqBound == /\ IsEv("SeqBound")
         /\ UNCHANGED vars
         /\ Ev.err = ~SeqOK(<<Ev.n, Ev.ti, Ev.count - 1>>)
         /\ (~Ev.err => Ev.last = <<Ev.n, Ev.ti, Ev.count - 1>> /\ Ev.rows = Ev.count)

\* ---- logdb queries
TQ == /\ IsEv("Q") /\ up /\ logging
      /\ UNCHANGED vars
      /\ LET R == RowsOfKind(Ev.k) IN
         IF RangeErr(Ev.range) THEN Ev.err
         ELSE /\ ~Ev.err
              /\ Rows(Ev.res) = FilterRows(R, Ev.k, Ev.crit, Ev.range, Ev.order, Ev.opt)
              /\ Rows(Ev.res) = ListFilter(CanonicalList(best, Ev.k), Ev.k, Ev.crit, Ev.range, Ev.order, Ev.opt)

\* ---- api/events, api/transfers: handleFilter + ConvertRange + ConvertEventFilter ---------------------------------
Opt1(s, default) == IF s = <<>> THEN default ELSE s[1]
ChainTimes == LET c == ChainTo(best) IN [i \in 1..Len(c) |-> Time(c[i])]       \* index i = height i - 1
\* chain.FindBlockHeaderByTimestamp(ts, 1): the first block with time >= ts;  (ts, -1): the last block with time <= ts
FirstAtOrAfter(ts) == LET t == ChainTimes IN (CHOOSE i \in 1..Len(t) : t[i] >= ts /\ \A j \in 1..(i - 1) : t[j] < ts) - 1
LastAtOrBefore(ts) == LET t == ChainTimes IN (CHOOSE i \in 1..Len(t) : t[i] <= ts /\ \A j \in (i + 1)..Len(t) : t[j] > ts) - 1
EmptyRange == <<MaxBlockNumber, MaxBlockNumber>>
ConvertRange(has, r) ==
  IF ~has THEN <<>>
  ELSE IF r.unit = "time"
  THEN LET t == ChainTimes IN
       IF r.to # <<>> /\ r.to[1] < t[1] THEN EmptyRange
       ELSE IF r.from # <<>> /\ r.from[1] > t[Len(t)] THEN EmptyRange
       ELSE LET f == IF r.from = <<>> THEN 0 ELSE FirstAtOrAfter(r.from[1])
                u == IF r.to = <<>> THEN Len(t) - 1 ELSE LastAtOrBefore(r.to[1])
            IN IF f > u THEN EmptyRange ELSE <<f, u>>
  ELSE IF r.from # <<>> /\ r.from[1] > MaxBlockNumber THEN EmptyRange
  ELSE <<Opt1(r.from, 0), IF r.to # <<>> /\ r.to[1] < MaxBlockNumber THEN r.to[1] ELSE MaxBlockNumber>>
\* [status, rows]
ApiCall(R, kind, ev) ==
  LET limTooBig == ev.hasOpt /\ ev.opt.lim # <<>> /\ ev.opt.lim[1] > Cfg.maxLimit
      offTooBig == ev.hasOpt /\ ev.opt.off > Cfg.maxOffset
      badRange == ev.hasRange /\ ev.range.from # <<>> /\ ev.range.to # <<>> /\ ev.range.from[1] > ev.range.to[1]
  IN IF limTooBig \/ offTooBig THEN [status |-> 403, rows |-> <<>>]
     ELSE IF badRange \/ Len(ev.crit) > Cfg.maxCriteria THEN [status |-> 400, rows |-> <<>>]
     ELSE LET off == IF ev.hasOpt THEN ev.opt.off ELSE 0
              lim == IF ev.hasOpt /\ ev.opt.lim # <<>> THEN ev.opt.lim[1] ELSE Cfg.maxLimit + 1
              res == FilterRows(R, kind, ev.crit, ConvertRange(ev.hasRange, ev.range), ev.order, <<off, lim>>)
          IN IF Len(res) > Cfg.maxLimit THEN [status |-> 403, rows |-> <<>>] ELSE [status |-> 200, rows |-> res]
TApi == /\ IsEv("Api") /\ up /\ logging
        /\ UNCHANGED vars
        /\ LET a == ApiCall(RowsOfKind(Ev.k), Ev.k, Ev) IN
           /\ Ev.status = a.status
           /\ Ev.cnt = Len(a.rows)
           /\ (Ev.hasOpt => Rows(Ev.res) = a.rows)        \* without options the response carries no positions

TNext == /\ l' = l + 1
         /\ (TReset \/ TImport \/ TIgnore \/ TCrash \/ TRestart \/ TQ \/ TApi
             \/ TWriteErr \/ TStop \/ TStartSkipLogs \/ TImportNoLog \/ TSyncCancel \/ TSeqBound \/ TPack)
         \* an Error event (a call into thor code returned an unexpected error or panicked) matches no action
TSpec == TInit /\ [][TNext]_tvars

Progress == HWM(l)
TraceAccepted == Accepted(Len(Trace))
====
