SPECIFICATION MCSpec
CONSTANTS
  Genesis <- MCGenesis
  Par <- MCPar
  Num <- MCNum
  Time <- MCTime
  Txs <- MCTxs
  IdLess <- LessPath
  TopicLen = 2
  MaxBlockNumber = 268435455
  Variant = "ok"
  Sigs = {0, 2, 3}
  MaxHeight = 4
  MaxBlocks = 6
  MaxReorg = 3
  MaxCrashes = 1
  MaxDowns = 0
  MaxSkips = 0
  FreeChoice = FALSE
PROPERTY NoDeepReorg
PROPERTY NoResyncRepair
CHECK_DEADLOCK FALSE
