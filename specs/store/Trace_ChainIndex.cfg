SPECIFICATION Spec
CONSTANTS
  RECENT = 100
  NoBlock = "none"
  NoTx = "none"
  VarBase = 128
  PoolRefAhead = 30
  BeyondHeadStops = FALSE
  CheckHeads <- TraceCheckHeads
INVARIANT T_ByNumberIsAncestor
INVARIANT T_ExcludeIsDifference
INVARIANT T_TxBelongsToHeadChain
INVARIANT T_HeadsAreLeaves
INVARIANT T_VersionsUnique
INVARIANT ReaderTracks
INVARIANT ReaderConverges
INVARIANT T_NoDupOnChain
INVARIANT T_WindowOk
INVARIANT T_DepsOk
INVARIANT T_LookupAgrees
CONSTRAINT Progress
POSTCONDITION TraceAccepted
CHECK_DEADLOCK FALSE
