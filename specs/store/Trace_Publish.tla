---- MODULE Trace_Publish ----
(* Trace specification for C20: validates what ONE importing/producing goroutine and MANY reader goroutines of a real
   node did concurrently against Publish.tla.

   One file = a Config line (block tree facts: id -> parent, number; epoch length; reader ids) followed by runs, each
   starting with a Reset event.  All events of a run carry a stamp from ONE global atomic counter and are sorted by it:

     importer   Begin / Skip / Done              logged by the importing goroutine around node.processBlock / doPack
                W (cls = state|idx|blk|q|fin)    every durable write, logged under the kv engine's lock (kvrec.OnWrite)
                QW                               a durable write issued by any OTHER goroutine: never allowed
     readers    OS / OE                          start and end stamp of one atomic load of bestSummary, OE carries the
                                                 value; RD: a read for the observed block that ended at this stamp, with
                                                 its outcome; FS / FE: the same for Engine.Finalized()

   There is no hook at r.bestSummary.Store / engine.finalized.Store: FillCache, Publish, PubFin (and the sqlite log
   transaction) are SILENT steps of the specification, so TLC has to find a linearization: an observation with stamps
   [s, e] may return exactly the values the published variable holds at some instant between its OS and OE lines.
   Every read that ended after the observation must have the outcome the specification computes for the state at that
   point (success, and the ancestor on the observed block's branch); the observed block must be complete at OE.        *)
EXTENDS Publish, Json, TraceLib

Trace == LoadTrace("trace.ndjson")
Cfg == Trace[1]
TrPar(b) == Cfg.blocks[b].p
TrNum(b) == Cfg.blocks[b].n
TrE == Cfg.E
TrReaders == {Cfg.readers[k] : k \in 1..Len(Cfg.readers)}
TrOrder == <<"blk", "cache", "pub">>

VARIABLES l,
          pend,     \* reader -> values bestSummary held since the reader's open OS ({} = no open interval)
          pendF     \* reader -> values engine.finalized held since the reader's open FS
tvars == <<vars, l, pend, pendF>>

Ev == Trace[l]
IsEv(name) == l <= Len(Trace) /\ Ev.e = name
NoPend == [r \in Readers |-> {}]
Open(p, v) == [r \in Readers |-> IF p[r] = {} THEN {} ELSE p[r] \cup {v}]
\* heights checked for the ancestor index at an observation: both ends, the epoch neighbourhood and a spread
Sample(b) == {n \in 0..Num(b) : n < 2 \/ n + E + 1 >= Num(b) \/ n % 7 = 0}

TInit == /\ HWMInit /\ Cfg.e = "Config" /\ Len(Trace) >= 2 /\ Trace[2].e = "Reset"
         /\ InitWith(Trace[2].g) /\ l = 3 /\ pend = NoPend /\ pendF = NoPend

TReset == /\ IsEv("Reset")
          /\ dState' = {Ev.g} /\ idx' = (Ev.g :> [base |-> Ev.g, at |-> 0, id |-> Ev.g]) /\ dBlk' = {Ev.g}
          /\ dBest' = Ev.g /\ dQ' = {} /\ dFin' = Ev.g /\ dLogs' = Ev.g /\ dJunk' = {}
          /\ cSum' = {Ev.g} /\ mBest' = Ev.g /\ mFin' = Ev.g
          /\ cur' = NoBlock /\ pc' = "idle" /\ asBest' = FALSE /\ finTo' = NoBlock
          /\ obs' = [r \in Readers |-> NoBlock] /\ lastFin' = [r \in Readers |-> Ev.g]
          /\ fail' = [r \in Readers |-> FALSE] /\ finBack' = [r \in Readers |-> FALSE]
          /\ nxt' = [r \in Readers |-> NoBlock] /\ torn' = [r \in Readers |-> FALSE]
          /\ pend' = NoPend /\ pendF' = NoPend

\* ---- importer: logged steps
TBegin == IsEv("Begin") /\ Begin(Ev.b) /\ UNCHANGED <<pend, pendF>>
TSkip == /\ IsEv("Skip") /\ pc = "idle" /\ ~Acceptable(Ev.b)
         /\ \/ Ev.why = "known" /\ Ev.b \in dBlk
            \/ Ev.why \in {"parent-missing", "unprocessable"} /\ Ev.b \notin dBlk /\ Par(Ev.b) \notin dBlk
            \/ Ev.why = "bft-rejected" /\ Ev.b \notin dBlk /\ Par(Ev.b) \in dBlk /\ ~IsAnc(mFin, Par(Ev.b))
         /\ UNCHANGED <<vars, pend, pendF>>
IsW(c) == IsEv("W") /\ Ev.cls = c /\ cur = Ev.b
TStatePart == IsW("state") /\ ~Ev.last /\ pc = "state" /\ UNCHANGED <<vars, pend, pendF>>
TState == IsW("state") /\ Ev.last /\ WState(Ev.best) /\ UNCHANGED <<pend, pendF>>
TIdx == IsW("idx") /\ WIdx /\ UNCHANGED <<pend, pendF>>
TBlk == IsW("blk") /\ Ev.best = asBest /\ WBlk /\ UNCHANGED <<pend, pendF>>
TQ == IsW("q") /\ WQ(Ev.f) /\ UNCHANGED <<pend, pendF>>
TFin == IsW("fin") /\ Ev.f = finTo /\ WFin /\ UNCHANGED <<pend, pendF>>
\* the import returned: nothing pending, and the importer's own view of best / finalized is the published one
TDone == /\ IsEv("Done") /\ pc = "idle" /\ cur = NoBlock /\ Ev.b \in dBlk
         /\ mBest = Ev.best /\ mFin = Ev.fin /\ dBest = Ev.best /\ dFin = Ev.fin
         /\ (IsSP(Ev.b) => Ev.b \in dQ)
         /\ UNCHANGED <<vars, pend, pendF>>
\* ---- importer: silent steps (not kv writes / no hook)
SLogs == WLogs /\ UNCHANGED <<l, pend, pendF>>
SCache == FillCache /\ UNCHANGED <<l, pend, pendF>>
SPublish == Publish /\ pend' = Open(pend, cur) /\ UNCHANGED <<l, pendF>>
SPubFin == PubFin /\ pendF' = Open(pendF, finTo) /\ UNCHANGED <<l, pend>>

\* ---- readers
TOS == /\ IsEv("OS") /\ pend' = [pend EXCEPT ![Ev.r] = {mBest}] /\ UNCHANGED <<vars, pendF>>
\* the value was the published best at some instant of the interval; the observed block is complete from here on
TOE == /\ IsEv("OE") /\ Ev.b \in pend[Ev.r]
       /\ obs' = [obs EXCEPT ![Ev.r] = Ev.b]
       /\ fail' = [fail EXCEPT ![Ev.r] = @ \/ ~CompleteOn(Ev.b, Sample(Ev.b))]
       /\ pend' = [pend EXCEPT ![Ev.r] = {}]
       /\ UNCHANGED <<durable, memory, importer, lastFin, finBack, nxt, torn, pendF>>
TRD == /\ IsEv("RD") /\ obs[Ev.r] = Ev.b
       /\ Ev.ok = ReadOK(Ev.k, Ev.b, Ev.n)
       /\ (Ev.k = "anc" /\ Ev.ok => Ev.got = AncAt(Ev.b, Ev.n))
       /\ CASE Ev.k = "sim" -> Simulate(Ev.r)
            \* revision "next": OE carried the parent of the mocked header (first and only load of best); the logged
            \* outcome says whether the state handed out hashes to that header's state root. The specification's
            \* NextHeader/NextState pair derives both from the one capture, so the outcome must be TRUE.
            [] Ev.k = "next" -> /\ nxt[Ev.r] = NoBlock /\ ~NextTwoLoads
                                /\ fail' = [fail EXCEPT ![Ev.r] = @ \/ ~StateAvail(Ev.b)]
                                /\ UNCHANGED <<durable, memory, importer, obs, lastFin, finBack, nxt, torn>>
            [] OTHER -> Read(Ev.r, Ev.k, Ev.n)
       /\ UNCHANGED <<pend, pendF>>
TFS == /\ IsEv("FS") /\ pendF' = [pendF EXCEPT ![Ev.r] = {mFin}] /\ UNCHANGED <<vars, pend>>
TFE == /\ IsEv("FE") /\ Ev.f \in pendF[Ev.r]
       /\ lastFin' = [lastFin EXCEPT ![Ev.r] = Ev.f]
       /\ finBack' = [finBack EXCEPT ![Ev.r] = @ \/ ~IsAnc(lastFin[Ev.r], Ev.f)]
       /\ Ev.ok = (SummaryAvail(Ev.f) /\ StateAvail(Ev.f))
       /\ fail' = [fail EXCEPT ![Ev.r] = @ \/ ~Ev.ok]
       /\ pendF' = [pendF EXCEPT ![Ev.r] = {}]
       /\ UNCHANGED <<durable, memory, importer, obs, nxt, torn, pend>>

Consume == l' = l + 1
TNext == \/ /\ Consume
            /\ \/ TReset \/ TBegin \/ TSkip \/ TStatePart \/ TState \/ TIdx \/ TBlk \/ TQ \/ TFin \/ TDone
               \/ TOS \/ TOE \/ TRD \/ TFS \/ TFE
         \/ SLogs \/ SCache \/ SPublish \/ SPubFin
TSpec == TInit /\ [][TNext]_tvars

\* invariants evaluated on every state of the observed execution (Complete(obs) is evaluated at OE into fail)
TraceVisible == \A r \in Readers : ~fail[r]
TraceFinMonotone == FinalizedMonotonePerReader
TracePublished == SummaryAvail(mBest) /\ mBest \in dBlk /\ mBest \in dState /\ mBest \in DOMAIN idx
                  /\ SummaryAvail(mFin) /\ StateAvail(mFin)
Progress == HWM(l)
TraceAccepted == Accepted(Len(Trace))
====
