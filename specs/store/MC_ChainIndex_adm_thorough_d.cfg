SPECIFICATION MCSpec
CONSTANTS
  RECENT = 3
  NoBlock = NoBlock
  NoTx = NoTx
  VarBase = 2
  PoolRefAhead = 2
  BeyondHeadStops = FALSE
  MaxNew = 5
  MaxSib = 3
  MaxHeight = 5
  Readers = {}
  TxSet = {1, 2, 3, 4, 5}
  MaxTxPerBlock = 1
  MayRevert = {1, 3}
  CheckAdmission = TRUE
  BestChoices = {TRUE}
  ChildOfBestIsBest = FALSE
  UseConflicts = TRUE
  TxTable <- TxTable5
INVARIANT AncIsParentWalk
INVARIANT ByNumberIsAncestor
INVARIANT TxBelongsToHeadChain
INVARIANT VersionsUnique
INVARIANT NoDupOnChain
INVARIANT WindowOk
INVARIANT DepsOk
INVARIANT LookupAgrees
CHECK_DEADLOCK FALSE
