------------------------------ MODULE LogIndex ------------------------------
(* The log index (events / transfers tables of logdb) of one node, and the filter queries over it (C15).

   Transcribed from
     cmd/thor/node/block_exec.go : commitBlock / writeLogs  (only when the block becomes best: oldBranch = old best chain minus
                                   the new parent's chain; Truncate(lowest height of oldBranch) if non-empty; every block of
                                   the new parent's chain minus the old best chain re-written from the repository; then the
                                   new block; ONE sqlite transaction, committed BEFORE the block itself is stored)
     logdb/logdb.go              : Writer.Write (row key seq = (blockNum, txIndex, logIndex); the log index is block-wide, events
                                   and transfers count separately; INSERT OR IGNORE: a write to an occupied key is DROPPED),
                                   Writer.Truncate (delete every row with blockNum >= n), FilterEvents / FilterTransfers,
                                   removeLeadingZeros / topicValue, NewestBlockID, HasBlockID
     logdb/types.go              : toWhereCondition (criteria)
     cmd/thor/sync_logdb.go      : syncLogDB / seekLogDBSyncPosition (start-up resynchronisation: seek the first height whose
                                   logs are missing or stale, truncate from there, re-write up to best; commits on the way
                                   and when cancelled - ResyncCancelled)
     logdb/sequence.go           : bounds of the packed key (SeqOK / WriteErr)
   and the operating modes of the node: logs written (ImportBest, ImportSide), --skip-logs (StartSkipLogs / ImportSkipLogs: the repository
   moves on and reorganises, the log db stays behind until the next start with logs), stopped (Crash / CrashMid).

   A block is an opaque value; the facts the rules leave open are parameters (parent, height, timestamp, receipts,
   byte order of ids).  In the model-checking configurations a block IS its path from genesis and its logs are a
   function of its last element and its height (MC_LogIndex.tla); in the trace specification they are logged facts.

   Receipts of a block: Txs(b) = sequence of [id, origin, outs], outs = one entry per clause = [ev, tr],
   ev = sequence of [a, tp, d] (address, sequence of <= 5 topics, data), tr = sequence of [s, r, v].
   Txs(b) may be any function with a finite domain of positive integers (tx index = position - 1); a transaction that
   is not in the domain has an empty receipt.  A topic is a sequence of TopicLen bytes.

   Variant # "ok" switches ONE rule to a plausible wrong design, to show that the invariants and the trace binding
   have teeth (every one of them must be refuted by TLC, see checks/C15.py):
     no-truncate        writeLogs does not truncate the old branch      (INSERT OR IGNORE then keeps the stale rows for good)
     trunc-highest      truncates from the highest instead of the lowest height of the old branch
     no-rewrite         the blocks of the new branch are not re-written from the repository
     li-per-tx          the log index restarts in every transaction
     strip-naive        the all-zero topic is stored as an empty value (reads back as "no topic")
     resync-f7          syncLogDB as it was before thor commit bcdcdac (finding F7)
     range-exclusive    upper range bound exclusive          page-before-order   offset/limit applied before the order  *)
EXTENDS Integers, Sequences, FiniteSets, SequencesExt, TLC

CONSTANTS Genesis,          \* the genesis block
          Par(_),           \* parent of a non-genesis block
          Num(_),           \* height (Num(Genesis) = 0)
          Time(_),          \* timestamp
          Txs(_),           \* receipts
          IdLess(_, _),     \* byte order of block ids (only used between two blocks of the same height)
          TopicLen,         \* bytes per topic (32 in the code)
          MaxBlockNumber,   \* logdb.MaxBlockNumber (2^28 - 1 in the code)
          Variant           \* "ok" = the code as it is; anything else = a deliberately broken design (teeth, see below)

VARIABLES stored,   \* blocks in the repository
          best,     \* the repository's best block (head of the canonical chain)
          evRows,   \* event table   : <<blockNum, txIndex, logIndex>> -> stored row
          trRows,   \* transfer table: <<blockNum, txIndex, logIndex>> -> stored row
          up,       \* process running (FALSE between a crash and the restart)
          logging   \* the running process writes logs (FALSE: started with --skip-logs, or the log db is behind after an
                    \* interrupted resynchronisation); a start-up with logs enabled resynchronises first
vars == <<stored, best, evRows, trRows, up, logging>>

Nil == "nil"        \* wildcard address in criteria
NoTopic == <<>>     \* absent topic (NULL column) / wildcard topic in criteria
Least(a, b) == IF a < b THEN a ELSE b
\* logdb/sequence.go: seq = blockNum << 35 | txIndex << 20 | logIndex, with 28 / 15 / 20 bits; newSequence refuses more
MaxTxIndex == 32767
MaxLogIndex == 1048575
SeqOK(k) == k[1] <= MaxBlockNumber /\ k[2] <= MaxTxIndex /\ k[3] <= MaxLogIndex

\* ------------------------------------------------------------------------------------------------ chains
RECURSIVE ChainTo(_)
ChainTo(b) == IF b = Genesis THEN <<Genesis>> ELSE Append(ChainTo(Par(b)), b)    \* ChainTo(b)[n + 1] has height n
ChainSet(b) == {ChainTo(b)[i] : i \in DOMAIN ChainTo(b)}
\* chain.Exclude: blocks of a's chain that are not on o's chain, ascending
Exclude(a, o) == LET os == ChainSet(o) IN SelectSeq(ChainTo(a), LAMBDA x : x \notin os)

\* ------------------------------------------------------------------------------------------------ topics
\* logdb.removeLeadingZeros: strip leading zero bytes, but keep one byte of the all-zero topic
RECURSIVE Strip(_)
Strip(t) == IF Len(t) = 0 THEN (IF Variant = "strip-naive" THEN <<>> ELSE <<0>>)
            ELSE IF t[1] = 0 THEN Strip(Tail(t)) ELSE t
\* thor.BytesToBytes32: left-pad
Pad(s) == [i \in 1..TopicLen |-> IF i <= TopicLen - Len(s) THEN 0 ELSE s[i - (TopicLen - Len(s))]]
\* five topic columns; a missing topic is NULL
StoreTopics(tp) == [k \in 1..5 |-> IF k <= Len(tp) THEN Strip(tp[k]) ELSE NoTopic]
\* queryEvents: a column of length 0 reads back as "no topic"
ReadTopics(st) == [k \in 1..5 |-> IF Len(st[k]) = 0 THEN NoTopic ELSE Pad(st[k])]
FullTopics(tp) == [k \in 1..5 |-> IF k <= Len(tp) THEN tp[k] ELSE NoTopic]

\* ------------------------------------------------------------------------------------------------ Writer.Write
\* positions <<tx, clause, item>> (1-based) of the events / transfers of a block
Items(b, kind, i, c) == IF kind = "E" THEN Txs(b)[i].outs[c].ev ELSE Txs(b)[i].outs[c].tr
Pos(b, kind) == UNION {UNION {{<<i, c, j>> : j \in 1..Len(Items(b, kind, i, c))} : c \in 1..Len(Txs(b)[i].outs)}
                       : i \in DOMAIN Txs(b)}
Before(p, q) == \/ p[1] < q[1]
                \/ p[1] = q[1] /\ (p[2] < q[2] \/ (p[2] = q[2] /\ p[3] < q[3]))
\* the log index of an item is the number of items of the same kind that precede it IN THE BLOCK, i.e. its rank in
\* the (tx, clause, item) order of the block
Ranked(b, kind) == SortSeq(SetToSeq(Pos(b, kind)), Before)
LogIndexOf(b, kind, p) ==
  Cardinality({q \in Pos(b, kind) : Before(q, p) /\ (Variant = "li-per-tx" => q[1] = p[1])})
KeyOf(b, kind, p) == <<Num(b), p[1] - 1, LogIndexOf(b, kind, p)>>
StoredRow(b, kind, p) ==
  LET t == Txs(b)[p[1]]
      x == Items(b, kind, p[1], p[2])[p[3]]
  IN IF kind = "E"
     THEN [b |-> b, bt |-> Time(b), tx |-> t.id, o |-> t.origin, c |-> p[2] - 1, a |-> x.a, tp |-> StoreTopics(x.tp), d |-> x.d]
     ELSE [b |-> b, bt |-> Time(b), tx |-> t.id, o |-> t.origin, c |-> p[2] - 1, s |-> x.s, r |-> x.r, v |-> x.v]
\* the rows one call of Writer.Write(b, receipts) tries to insert
RowsOf(b, kind) ==
  IF Variant = "li-per-tx"
  THEN LET P == Pos(b, kind)
       IN [k \in {KeyOf(b, kind, p) : p \in P} |-> StoredRow(b, kind, CHOOSE p \in P : KeyOf(b, kind, p) = k)]
  ELSE LET s == Ranked(b, kind)           \* s[i] has log index i - 1 (same as KeyOf, linear instead of cubic)
       IN [k \in {<<Num(b), s[i][1] - 1, i - 1>> : i \in 1..Len(s)} |-> StoredRow(b, kind, s[k[3] + 1])]
\* Writer.Write returns an error (and the caller rolls the transaction back) when a key does not fit the packing
WriteErr(b) == \E kind \in {"E", "T"} : \E k \in DOMAIN RowsOf(b, kind) : ~SeqOK(k)
\* INSERT OR IGNORE: an occupied key keeps its row
InsertIgnore(R, new) == [k \in DOMAIN R \cup DOMAIN new |-> IF k \in DOMAIN R THEN R[k] ELSE new[k]]
WriteBlock(R, b, kind) == InsertIgnore(R, RowsOf(b, kind))
RECURSIVE WriteBlocks(_, _, _)
WriteBlocks(R, bs, kind) == IF bs = <<>> THEN R ELSE WriteBlocks(WriteBlock(R, Head(bs), kind), Tail(bs), kind)
\* Writer.Truncate(n): DELETE ... WHERE seq >= (n, 0, 0)
Truncate(R, n) == [k \in {q \in DOMAIN R : q[1] < n} |-> R[k]]

\* ------------------------------------------------------------------------------------------------ node.writeLogs
WriteLogs(R, kind, oldBest, b) ==
  LET oldBranch == Exclude(oldBest, Par(b))
      newBranch == Exclude(Par(b), oldBest)
      cut == CASE Variant = "trunc-highest" -> Num(oldBranch[Len(oldBranch)])
               [] OTHER -> Num(oldBranch[1])
      R1 == IF oldBranch # <<>> /\ Variant # "no-truncate" THEN Truncate(R, cut) ELSE R
      R2 == IF Variant = "no-rewrite" THEN R1 ELSE WriteBlocks(R1, newBranch, kind)
  IN WriteBlock(R2, b, kind)

\* ------------------------------------------------------------------------------------------------ syncLogDB
MaxKey(R) == CHOOSE k \in DOMAIN R : \A q \in DOMAIN R : q = k \/ Before(q, k)
\* LogDB.NewestBlockID: block id of the last row of either table, the byte-wise greater one (ids start with the height)
NewestIDs(E, T) == (IF DOMAIN E = {} THEN {} ELSE {E[MaxKey(E)].b}) \cup (IF DOMAIN T = {} THEN {} ELSE {T[MaxKey(T)].b})
IdGreater(x, y) == Num(x) > Num(y) \/ (Num(x) = Num(y) /\ IdLess(y, x))
Newest(E, T) == CHOOSE x \in NewestIDs(E, T) : \A y \in NewestIDs(E, T) : y = x \/ IdGreater(x, y)
\* LogDB.HasBlockID: a row with key (num, 0, 0) carrying this block id
HasBlockID(E, T, id) == LET k == <<Num(id), 0, 0>>
                        IN (k \in DOMAIN E /\ E[k].b = id) \/ (k \in DOMAIN T /\ T[k].b = id)
RECURSIVE SeekDown(_, _, _)
SeekDown(E, T, h) == IF Num(h) > 0 /\ ~HasBlockID(E, T, h) THEN SeekDown(E, T, Par(h)) ELSE h
\* seekLogDBSyncPosition: the first height whose logs are missing or stale; best + 1 = in sync
SeekPos(E, T, bst) ==
  IF Num(bst) = 0 THEN 0
  ELSE IF NewestIDs(E, T) = {} \/ Num(Newest(E, T)) = 0 THEN 0
  ELSE LET nw == Newest(E, T) IN
       IF nw = bst THEN (IF Variant = "resync-f7" THEN Num(bst) ELSE Num(bst) + 1)
       ELSE LET start == IF Num(nw) >= Num(bst) THEN Num(bst) - 1 ELSE Num(nw)
            IN Num(SeekDown(E, T, ChainTo(bst)[start + 1])) + 1
InSync(pos, bst) == IF Variant = "resync-f7" THEN pos = Num(bst) ELSE pos > Num(bst)
ResyncTable(R, kind, pos, bst) ==
  LET p == IF pos = 0 THEN 1 ELSE pos        \* "rebuilding": block 0 is skipped
  IN WriteBlocks(Truncate(R, p), SubSeq(ChainTo(bst), p + 1, Num(bst) + 1), kind)

\* ------------------------------------------------------------------------------------------------ actions
Init == /\ stored = {Genesis} /\ best = Genesis /\ up = TRUE /\ logging = TRUE
        /\ evRows = RowsOf(Genesis, "E") /\ trRows = RowsOf(Genesis, "T")      \* genesis logs are written at first start

Storable(b) == up /\ b \notin stored /\ Par(b) \in stored
Importable(b) == Storable(b) /\ logging
\* the block becomes best: log transaction, then the block is stored
ImportBest(b) == /\ Importable(b) /\ ~WriteErr(b)
                 /\ evRows' = WriteLogs(evRows, "E", best, b)
                 /\ trRows' = WriteLogs(trRows, "T", best, b)
                 /\ stored' = stored \cup {b} /\ best' = b
                 /\ UNCHANGED <<up, logging>>
\* the block is stored as a side block: the log db is not touched
ImportSide(b) == /\ Importable(b)
                 /\ stored' = stored \cup {b}
                 /\ UNCHANGED <<best, evRows, trRows, up, logging>>
\* packer_loop.go proposeAndCommit -> commitBlock: a block the node packs itself goes through the same commit. Its parent is
\* the parent of the packing FLOW, scheduled some time before - not necessarily the best block any more (a sibling, or a
\* whole other branch, may have become best meanwhile). The old branch is what the REPOSITORY calls best at commit time:
\* whatever the flow's parent was, the log db afterwards holds the rows of the new canonical chain.
Pack(b, becomesBest) == IF becomesBest THEN ImportBest(b) ELSE ImportSide(b)
\* the process dies after the log transaction of a would-be best block was committed and before the block is stored
CrashMid(b) == /\ Importable(b) /\ ~WriteErr(b)
               /\ evRows' = WriteLogs(evRows, "E", best, b)
               /\ trRows' = WriteLogs(trRows, "T", best, b)
               /\ up' = FALSE
               /\ UNCHANGED <<stored, best, logging>>
\* any other crash point / a shutdown leaves repository and log db as they are between two imports
Crash == up /\ up' = FALSE /\ UNCHANGED <<stored, best, evRows, trRows, logging>>
\* a start with --skip-logs: the node runs, imports and reorganises, the log db stays as it was
StartSkipLogs == ~up /\ up' = TRUE /\ logging' = FALSE /\ UNCHANGED <<stored, best, evRows, trRows>>
ImportSkipLogs(b, becomesBest) == /\ Storable(b) /\ ~logging
                                  /\ stored' = stored \cup {b}
                                  /\ best' = IF becomesBest THEN b ELSE best
                                  /\ UNCHANGED <<evRows, trRows, up, logging>>
\* start-up: genesis logs (INSERT OR IGNORE), then thor's syncLogDB against the repository's best block
GenesisE == WriteBlock(evRows, Genesis, "E")
GenesisT == WriteBlock(trRows, Genesis, "T")
Resync == LET pos == SeekPos(GenesisE, GenesisT, best)
          IN /\ up' = TRUE /\ logging' = TRUE
             /\ IF InSync(pos, best) THEN evRows' = GenesisE /\ trRows' = GenesisT
                ELSE /\ evRows' = ResyncTable(GenesisE, "E", pos, best)
                     /\ trRows' = ResyncTable(GenesisT, "T", pos, best)
             /\ UNCHANGED <<stored, best>>
\* syncLogDB cancelled (ctx.Done) after the block of height j was written: everything up to there is committed (there
\* are intermediate commits every 2048 statements anyway), the process exits; the next start resynchronises again
ResyncTableUpTo(R, kind, pos, bst, j) ==
  LET p == IF pos = 0 THEN 1 ELSE pos
  IN WriteBlocks(Truncate(R, p), SubSeq(ChainTo(bst), p + 1, j + 1), kind)
ResyncCancelled(j) ==
  LET pos == SeekPos(GenesisE, GenesisT, best)
      p == IF pos = 0 THEN 1 ELSE pos
  IN /\ ~up /\ ~InSync(pos, best) /\ p <= j /\ j <= Num(best)
     /\ evRows' = ResyncTableUpTo(GenesisE, "E", pos, best, j)
     /\ trRows' = ResyncTableUpTo(GenesisT, "T", pos, best, j)
     /\ logging' = FALSE
     /\ UNCHANGED <<stored, best, up>>

\* ------------------------------------------------------------------------------------------------ what a reader sees
ReadRow(kind, k, row) ==
  IF kind = "E"
  THEN [n |-> k[1], ti |-> k[2], li |-> k[3], b |-> row.b, bt |-> row.bt, tx |-> row.tx, o |-> row.o, c |-> row.c,
        a |-> row.a, tp |-> ReadTopics(row.tp), d |-> row.d]
  ELSE [n |-> k[1], ti |-> k[2], li |-> k[3], b |-> row.b, bt |-> row.bt, tx |-> row.tx, o |-> row.o, c |-> row.c,
        s |-> row.s, r |-> row.r, v |-> row.v]
SortedKeys(S) == SortSeq(SetToSeq(S), Before)
\* the whole table in key order (FilterEvents(&EventFilter{}))
Table(R, kind) == LET ks == SortedKeys(DOMAIN R) IN [i \in 1..Len(ks) |-> ReadRow(kind, ks[i], R[ks[i]])]

\* ------------------------------------------------------------------------------------------------ the canonical list
\* Independent (procedural) definition of "the logs of the canonical chain": walk the receipts of every block of the
\* chain in order, counting events and transfers block-wide, exactly as a reader of the receipts would.
ExpectRow(b, kind, i, c, x, li) ==
  LET t == Txs(b)[i] IN
  IF kind = "E"
  THEN [n |-> Num(b), ti |-> i - 1, li |-> li, b |-> b, bt |-> Time(b), tx |-> t.id, o |-> t.origin, c |-> c - 1,
        a |-> x.a, tp |-> FullTopics(x.tp), d |-> x.d]
  ELSE [n |-> Num(b), ti |-> i - 1, li |-> li, b |-> b, bt |-> Time(b), tx |-> t.id, o |-> t.origin, c |-> c - 1,
        s |-> x.s, r |-> x.r, v |-> x.v]
RECURSIVE FlatOuts(_, _, _, _, _)
FlatOuts(b, kind, i, c, cnt) ==
  IF c > Len(Txs(b)[i].outs) THEN <<>>
  ELSE LET xs == Items(b, kind, i, c)
           here == [j \in 1..Len(xs) |-> ExpectRow(b, kind, i, c, xs[j], cnt + j - 1)]
       IN here \o FlatOuts(b, kind, i, c + 1, cnt + Len(xs))
TxOrder(b) == SortSeq(SetToSeq(DOMAIN Txs(b)), <)
RECURSIVE FlatTxs(_, _, _, _)
FlatTxs(b, kind, n, cnt) ==
  IF n > Len(TxOrder(b)) THEN <<>>
  ELSE LET part == FlatOuts(b, kind, TxOrder(b)[n], 1, cnt) IN part \o FlatTxs(b, kind, n + 1, cnt + Len(part))
BlockList(b, kind) == FlatTxs(b, kind, 1, 0)
RECURSIVE ConcatLists(_, _)
ConcatLists(bs, kind) == IF bs = <<>> THEN <<>> ELSE BlockList(Head(bs), kind) \o ConcatLists(Tail(bs), kind)
CanonicalList(h, kind) == ConcatLists(ChainTo(h), kind)

\* C15, first sentence: the stored events and transfers are exactly those of the receipts of the canonical chain, in
\* chain order, with block id/time, tx id/origin, clause index and block-wide log index - and nothing else
RowsEqualCanonical == (up /\ logging) => /\ Table(evRows, "E") = CanonicalList(best, "E")
                                         /\ Table(trRows, "T") = CanonicalList(best, "T")

\* ------------------------------------------------------------------------------------------------ filters
\* EventCriteria / TransferCriteria.toWhereCondition: AND of the given fields, nil = wildcard; topics are compared in
\* their stored (stripped) form; a NULL column never equals anything
EvMatch(c, row) == /\ (c.a = Nil \/ row.a = c.a)
                   /\ \A k \in 1..5 : (c.tp[k] = NoTopic \/ row.tp[k] = Strip(c.tp[k]))
TrMatch(c, row) == /\ (c.o = Nil \/ row.o = c.o)
                   /\ (c.s = Nil \/ row.s = c.s)
                   /\ (c.r = Nil \/ row.r = c.r)
Match(kind, c, row) == IF kind = "E" THEN EvMatch(c, row) ELSE TrMatch(c, row)
\* newSequence fails for block numbers beyond 28 bits
RangeErr(range) == range # <<>> /\ (range[1] > MaxBlockNumber \/ range[2] > MaxBlockNumber)
\* both bounds inclusive and always bound: an inverted range is empty
InRange(k, range) == range = <<>> \/ (range[1] <= k[1] /\ (IF Variant = "range-exclusive" THEN k[1] < range[2] ELSE k[1] <= range[2]))
\* LIMIT offset, limit
Page(s, off, lim) == IF off >= Len(s) THEN <<>> ELSE SubSeq(s, off + 1, off + Least(lim, Len(s) - off))
\* FilterEvents / FilterTransfers with a non-nil filter: crits = sequence of criteria (empty = everything),
\* range = <<>> or <<from, to>>, order = "desc" or anything else (= asc), opt = <<>> or <<offset, limit>>.
\* The result is the sequence of KEYS of the selected rows.
Filter(R, kind, crits, range, order, opt) ==
  LET hit == {k \in DOMAIN R : /\ InRange(k, range)
                               /\ (crits = <<>> \/ \E i \in DOMAIN crits : Match(kind, crits[i], R[k]))}
      asc == SortedKeys(hit)
      ord == IF order = "desc" THEN Reverse(asc) ELSE asc
  IN IF opt = <<>> THEN ord
     ELSE IF Variant = "page-before-order"
          THEN (LET pg == Page(asc, opt[1], opt[2]) IN IF order = "desc" THEN Reverse(pg) ELSE pg)
          ELSE Page(ord, opt[1], opt[2])            \* ORDER BY inside the sub-query, then LIMIT offset, limit
FilterRows(R, kind, crits, range, order, opt) ==
  LET ks == Filter(R, kind, crits, range, order, opt) IN [i \in 1..Len(ks) |-> ReadRow(kind, ks[i], R[ks[i]])]

\* C15, second sentence, stated on the LIST (no keys, no tables): the matching subsequence of the canonical list,
\* reversed for desc, then offset/limit
ExpMatch(kind, c, x) ==
  IF kind = "E" THEN (c.a = Nil \/ x.a = c.a) /\ \A k \in 1..5 : (c.tp[k] = NoTopic \/ x.tp[k] = c.tp[k])
  ELSE (c.o = Nil \/ x.o = c.o) /\ (c.s = Nil \/ x.s = c.s) /\ (c.r = Nil \/ x.r = c.r)
ListFilter(list, kind, crits, range, order, opt) ==
  LET sel == SelectSeq(list, LAMBDA x : /\ (range = <<>> \/ (range[1] <= x.n /\ x.n <= range[2]))
                                        /\ (crits = <<>> \/ \E i \in DOMAIN crits : ExpMatch(kind, crits[i], x)))
      ord == IF order = "desc" THEN Reverse(sel) ELSE sel
  IN IF opt = <<>> THEN ord ELSE Page(ord, opt[1], opt[2])
=============================================================================
