SPECIFICATION TSpec
CONSTANTS
  Genesis <- TrGenesis
  Par <- TrPar
  Num <- TrNum
  Time <- TrTime
  Txs <- TrTxs
  IdLess <- TrIdLess
  TopicLen = 32
  MaxBlockNumber <- TrMaxBlockNumber
  Variant = "ok"
INVARIANT RowsEqualCanonical
CONSTRAINT Progress
POSTCONDITION TraceAccepted
CHECK_DEADLOCK FALSE
