---------------------------- MODULE ChainIndexPipe ----------------------------
(* The delivery loop of a subscription (api/subscriptions/subscriptions.go pipe) against best-block changes (C14:
   "a subscriber ... always ends up holding precisely the node's current canonical chain").

   The loop is   forever { Read; write what was read; if nothing more was read: wait for the best-block signal }.
   Read and Wait are SEPARATE steps, and blocks are imported concurrently.  The signal is co.Signal: a waiter only sees
   broadcasts made after it was created.  The code creates the waiter ONCE, BEFORE the first Read; an import that lands
   between a Read that found nothing and the Wait is therefore remembered by the waiter.  If the waiter is created when
   the loop goes to sleep (RegisterBeforeRead = FALSE) that import is lost and the subscriber sleeps on a stale chain.

   The chain is abstracted to its length (what Read does on a real tree is ChainIndex.tla's ReadStep / DrainOut).   *)
EXTENDS Integers

CONSTANTS MaxBest,              \* imports are bounded; afterwards the chain is quiescent
          RegisterBeforeRead    \* TRUE = the code

VARIABLES best,      \* the repository's best block (height)
          pos,       \* what the subscriber has been sent
          pc,        \* "read" | "enter" (nothing more was read, about to wait) | "waiting"
          waiter,    \* does a waiter exist?
          pending    \* has a broadcast happened since the waiter was created / last woke?
vars == <<best, pos, pc, waiter, pending>>

Init == best = 0 /\ pos = 0 /\ pc = "read" /\ waiter = RegisterBeforeRead /\ pending = FALSE

\* Repository.saveBlock(asBest): bestSummary.Store, then tick.Broadcast() - reaches existing waiters only
Import == /\ best < MaxBest
          /\ best' = best + 1
          /\ pending' = (pending \/ waiter)
          /\ UNCHANGED <<pos, pc, waiter>>

\* reader.Read(): one step along the chain, or "nothing more"
Read == /\ pc = "read"
        /\ IF pos < best THEN pos' = pos + 1 /\ pc' = "read" ELSE pos' = pos /\ pc' = "enter"
        /\ UNCHANGED <<best, waiter, pending>>

\* entering the idle select; the wrong variant creates its waiter only now
EnterWait == /\ pc = "enter"
             /\ pc' = "waiting"
             /\ IF RegisterBeforeRead THEN UNCHANGED <<waiter, pending>> ELSE waiter' = TRUE /\ pending' = FALSE
             /\ UNCHANGED <<best, pos>>

Wake == /\ pc = "waiting" /\ pending
        /\ pending' = FALSE /\ pc' = "read"
        /\ UNCHANGED <<best, pos, waiter>>

Next == Import \/ Read \/ EnterWait \/ Wake
Spec == Init /\ [][Next]_vars /\ WF_vars(Read) /\ WF_vars(EnterWait) /\ WF_vars(Wake)

\* a sleeping subscription with nothing pending has delivered everything: quiescent => delivered
QuiescentDelivered == (pc = "waiting" /\ ~pending) => pos = best
\* the same as liveness: once imports stop, the subscriber ends up on the best block for good
EventuallyOnBest == <>[](pos = best)
=============================================================================
