SPECIFICATION MCSpec
CONSTANTS
  RECENT = 3
  NoBlock = NoBlock
  NoTx = NoTx
  VarBase = 2
  PoolRefAhead = 2
  BeyondHeadStops = FALSE
  MaxNew = 4
  MaxSib = 3
  MaxHeight = 6
  Readers = {r1, r2}
  TxSet = {}
  MaxTxPerBlock = 0
  MayRevert = {}
  CheckAdmission = FALSE
  BestChoices = {TRUE, FALSE}
  ChildOfBestIsBest = FALSE
  UseConflicts = TRUE
  TxTable <- TxTable0
SYMMETRY ReaderSym
INVARIANT NeverReaderOnDescendantOfBest
CHECK_DEADLOCK FALSE
