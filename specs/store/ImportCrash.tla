------------------------------ MODULE ImportCrash ------------------------------
(* The import of a block as the ordered sequence of its durable writes, with a crash possible between any two of
   them, restart, and resumption of the same block stream (C13).

   Transcribed from cmd/thor/node/block_exec.go (guardBlockProcessing / executeAndCommitBlock / commitBlock),
   chain/repository.go (AddBlock = indexBlock then ONE bulk holding header, body, receipts, tx index, head index and
   the best pointer), bft/engine.go (Select, CommitBlock: saveQuality, then the finalized key), bft/persist.go and
   cmd/thor/sync_logdb.go.  Order of one import:

        state tries .. (account trie last)        pc = "state"
        [ logs of the new best chain -> log db ]  pc = "logs"     (only if the block becomes best; sqlite, not the kv store)
        index trie                                pc = "idx"
        block bulk (incl. best pointer)           pc = "blk"
        [ quality of a store point ]              pc = "q"
        [ finalized checkpoint ]                  pc = "fin"

   The engine reads qualities of earlier store points from the durable store and treats "not found" as 0
   (bft.getQuality).  That is modelled as it is: a crash between the block bulk and the quality write of a store
   point leaves a hole that re-delivery cannot fill (the block is already known) - finding F2, flag f2.
   Repair = TRUE is the code after the fix of F2 (bft.NewEngine -> recoverInterruptedCommit): at start-up every branch
   head that is a store point is committed again (quality saved, finality advanced) as CommitBlock would have done
   - that also completes a commit interrupted between the quality and the finalized checkpoint; Repair = FALSE is the code before it and must still violate ResumeConvergesAlsoF2.

   A block IS its path from genesis (BFTOps).  Score and the id order are parameters: block height / LessPath in
   the model-checking configs, logged facts in the trace specification.                                          *)
EXTENDS BFTOps

CONSTANTS Stream,        \* sequence of blocks, parents before children; re-delivered from the start after a restart
          MaxCrashes,
          Repair,        \* TRUE: start-up completes an interrupted bft commit (fix of F2)
          Score(_),      \* total score of a block
          IdLess(_, _)   \* byte order of block ids

VARIABLES dState,   \* blocks whose state tries are completely durable
          dIdx,     \* blocks whose index trie is durable
          dBlk,     \* blocks whose block bulk is durable
          dBest,    \* durable best pointer
          dQ,       \* durable qualities: store-point block -> quality as computed by the engine at that time
          dFin,     \* durable finalized checkpoint
          dLogs,    \* head of the chain whose logs the log db holds
          up,       \* process running?
          i,        \* index into Stream of the block being delivered
          pc,       \* step of the import in flight
          isBest,   \* decision of bft.Select for the block in flight
          mFin,     \* finalized checkpoint in memory
          crashes, f2, lastCrashAt      \* history
vars == <<dState, dIdx, dBlk, dBest, dQ, dFin, dLogs, up, i, pc, isBest, mFin, crashes, f2, lastCrashAt>>

G == <<>>
IsSP(b) == Len(b) > 0 /\ Len(b) = SP(Len(b))

\* ---- the tally as the engine computes it: own epoch from the chain, earlier epochs from persisted qualities -------
GetQ(x) == IF x \in DOMAIN dQ THEN dQ[x] ELSE 0                       \* not found => 0 (bft.getQuality)
ImplQ(b) == IF Len(b) = 0 THEN 0
            ELSE LET cp == CP(Len(b))
                     pq == IF cp = 0 THEN 0 ELSE GetQ(AncAt(b, cp - 1))
                 IN pq + (IF Justified(b) THEN 1 ELSE 0)
\* bft.findCheckpointByQuality as it is: sort.Search (BINARY search) over the store points from the finalized block's
\* height on, each read through getQuality.  With a hole left by F2 the qualities are no longer monotone and the binary
\* search does not find "the first epoch >= target" - modelled as the code does it.
\* (Q is the persisted-quality map to read: CommitBlock saves the block's own quality BEFORE it searches.)
GetQIn(Q, x) == IF x \in DOMAIN Q THEN Q[x] ELSE 0
RECURSIVE BSearch(_, _, _, _, _, _)
BSearch(Q, lo, hi, h, start, target) ==
  IF lo >= hi THEN lo
  ELSE LET m == (lo + hi) \div 2 IN
       IF GetQIn(Q, AncAt(h, SP(start + m * E))) >= target THEN BSearch(Q, lo, m, h, start, target)
       ELSE BSearch(Q, m + 1, hi, h, start, target)
ImplFindCPIn(Q, target, f, h) ==
  LET start == Len(f)                                    \* finalized is a checkpoint (or genesis)
      n == ((Len(h) - start) \div E) + 1
  IN IF Len(h) < start \/ SP(start + (n - 1) * E) > Len(h) THEN NoBlock        \* head's epoch not concluded: error
     ELSE LET num == BSearch(Q, 0, n, h, start, target) IN
          IF num = n THEN NoBlock
          ELSE IF GetQIn(Q, AncAt(h, SP(start + num * E))) # target THEN NoBlock
          ELSE AncAt(h, start + num * E)
ImplFindCP(target, f, h) == ImplFindCPIn(dQ, target, f, h)
BetterBy(qa, a, qb, b) == \/ qa > qb
                          \/ qa = qb /\ (Score(a) > Score(b) \/ (Score(a) = Score(b) /\ IdLess(a, b)))
ImplBetter(b, cur) == BetterBy(ImplQ(b), b, ImplQ(cur), cur)

\* ---- the uninterrupted reference run, from the definitions ------------------------------------------------------
RefNewFin(f, b) == IF IsSP(b) /\ Committed(b) /\ Quality(b) > 1
                   THEN LET c == FindCP(Quality(b) - 1, f, b) IN IF c = NoBlock \/ ~IsAnc(f, c) THEN f ELSE c
                   ELSE f
RECURSIVE RefRun(_, _)
RefRun(st, k) ==
  IF k > Len(Stream) THEN st
  ELSE LET b == Stream[k] IN
       IF b \notin st.seen /\ Par(b) \in st.seen /\ IsAnc(st.fin, Par(b))
       THEN RefRun([seen |-> st.seen \cup {b},
                    best |-> IF BetterBy(Quality(b), b, Quality(st.best), st.best) THEN b ELSE st.best,
                    fin  |-> RefNewFin(st.fin, b)], k + 1)
       ELSE RefRun(st, k + 1)
Ref == RefRun([seen |-> {G}, best |-> G, fin |-> G], 1)

------------------------------------------------------------------------------------------------------------------
Init == /\ dState = {G} /\ dIdx = {G} /\ dBlk = {G} /\ dBest = G /\ dQ = <<>> /\ dFin = G /\ dLogs = G
        /\ up = TRUE /\ i = 1 /\ pc = "idle" /\ isBest = FALSE /\ mFin = G
        /\ crashes = 0 /\ f2 = FALSE /\ lastCrashAt = 0

Cur == Stream[i]
durable == <<dState, dIdx, dBlk, dBest, dQ, dFin, dLogs>>
hist == <<crashes, f2, lastCrashAt>>

\* guardBlockProcessing / executeAndCommitBlock up to consensus: known block, missing parent, refused by finality
Skip == /\ up /\ pc = "idle" /\ i <= Len(Stream)
        /\ (Cur \in dBlk \/ Par(Cur) \notin dBlk \/ ~IsAnc(mFin, Par(Cur)))
        /\ i' = i + 1
        /\ UNCHANGED <<durable, up, pc, isBest, mFin, hist>>
Begin == /\ up /\ pc = "idle" /\ i <= Len(Stream)
         /\ Cur \notin dBlk /\ Par(Cur) \in dBlk /\ IsAnc(mFin, Par(Cur))
         /\ pc' = "state"
         /\ UNCHANGED <<durable, up, i, isBest, mFin, hist>>
\* the node packs the block itself (packer_loop.go proposeAndCommit): built on a stored parent, no finality test - the
\* packer trusts that it packs on the best block.  (With more than a third of the validators voting COM on two
\* branches the finalized checkpoint can move to a branch the best block is not on; the node then still packs on
\* its best block.  Streams may contain such trees: crash consistency is owed for every tree the node accepts.)
BeginOwn == /\ up /\ pc = "idle" /\ i <= Len(Stream)
            /\ Cur \notin dBlk /\ Par(Cur) \in dBlk
            /\ pc' = "state"
            /\ UNCHANGED <<durable, up, i, isBest, mFin, hist>>
\* stage.Commit(): the last state write makes the state of the block complete; then bft.Select decides
WState == /\ up /\ pc = "state"
          /\ dState' = dState \cup {Cur}
          /\ isBest' = ImplBetter(Cur, dBest)
          /\ pc' = IF isBest' THEN "logs" ELSE "idx"
          /\ UNCHANGED <<dIdx, dBlk, dBest, dQ, dFin, dLogs, up, i, mFin, hist>>
\* writeLogs + logWorker.Sync: one sqlite transaction truncating the old branch and writing the new one
WLogs == /\ up /\ pc = "logs"
         /\ dLogs' = Cur
         /\ pc' = "idx"
         /\ UNCHANGED <<dState, dIdx, dBlk, dBest, dQ, dFin, up, i, isBest, mFin, hist>>
WIdx == /\ up /\ pc = "idx"
        /\ dIdx' = dIdx \cup {Cur}
        /\ pc' = "blk"
        /\ UNCHANGED <<dState, dBlk, dBest, dQ, dFin, dLogs, up, i, isBest, mFin, hist>>
AfterBlk(b) == IF IsSP(b) THEN "q" ELSE "idle"
WBlk == /\ up /\ pc = "blk"
        /\ dBlk' = dBlk \cup {Cur}
        /\ dBest' = IF isBest THEN Cur ELSE dBest
        /\ pc' = AfterBlk(Cur)
        /\ i' = IF pc' = "idle" THEN i + 1 ELSE i
        /\ UNCHANGED <<dState, dIdx, dQ, dFin, dLogs, up, isBest, mFin, hist>>
\* bft.CommitBlock at a store point: saveQuality ...
WillFinalize(b, q) == Committed(b) /\ q > 1 /\ CP(Len(b)) > Len(mFin)
WQ == /\ up /\ pc = "q"
      /\ LET q == ImplQ(Cur) IN
         /\ dQ' = (Cur :> q) @@ dQ
         /\ pc' = IF WillFinalize(Cur, q) /\ ImplFindCPIn((Cur :> q) @@ dQ, q - 1, mFin, Cur) # NoBlock THEN "fin" ELSE "idle"
      /\ i' = IF pc' = "idle" THEN i + 1 ELSE i
      /\ UNCHANGED <<dState, dIdx, dBlk, dBest, dFin, dLogs, up, isBest, mFin, hist>>
\* ... then the finalized key
WFin == /\ up /\ pc = "fin"
        /\ LET c == ImplFindCP(ImplQ(Cur) - 1, mFin, Cur) IN dFin' = c /\ mFin' = c
        /\ pc' = "idle" /\ i' = i + 1
        /\ UNCHANGED <<dState, dIdx, dBlk, dBest, dQ, dLogs, up, isBest, crashes, f2, lastCrashAt>>

Crash == /\ up /\ crashes < MaxCrashes
         /\ up' = FALSE /\ pc' = "idle" /\ isBest' = FALSE
         /\ crashes' = crashes + 1
         /\ f2' = (f2 \/ pc = "q")            \* block bulk durable, quality of the store point not: finding F2
         /\ lastCrashAt' = IF i > lastCrashAt THEN i ELSE lastCrashAt
         /\ UNCHANGED <<durable, i, mFin>>
\* restart: best from the pointer, finalized from its key, log db re-synchronised with the best chain, stream resumed
\* bft.recoverInterruptedCommit: the branch heads (at or above finalized) that are store points without a quality
HeadsOf(S) == {h \in S : ~\E x \in S : x # h /\ IsAnc(h, x)}
\* (every store-point head is committed again: CommitBlock writes the quality first and the finalized checkpoint second,
\* either may be the write the crash prevented; committing a fully committed head again changes nothing)
Uncommitted == {h \in HeadsOf(dBlk) : IsSP(h) /\ Len(h) >= Len(dFin) /\ IsAnc(dFin, h)}   \* only branches the node still accepts
\* CommitBlock(h) on the durable state (f = the finalized checkpoint read at start-up)
RECURSIVE Recover(_, _, _)
Recover(Q, f, todo) ==
  IF todo = {} THEN <<Q, f>>
  ELSE LET h == CHOOSE x \in todo : \A y \in todo : ~IdLess(x, y)            \* ScanHeads: descending id order
           pq == IF CP(Len(h)) = 0 THEN 0 ELSE GetQIn(Q, AncAt(h, CP(Len(h)) - 1))
           q == pq + (IF Justified(h) THEN 1 ELSE 0)
           Q2 == (h :> q) @@ Q
           c == IF Committed(h) /\ q > 1 /\ CP(Len(h)) > Len(f) THEN ImplFindCPIn(Q2, q - 1, f, h) ELSE NoBlock
       IN Recover(Q2, IF c = NoBlock THEN f ELSE c, todo \ {h})
Restart == /\ ~up
           /\ up' = TRUE /\ i' = 1 /\ dLogs' = dBest
           /\ IF Repair /\ Uncommitted # {}
              THEN LET r == Recover(dQ, dFin, Uncommitted) IN dQ' = r[1] /\ dFin' = r[2] /\ mFin' = r[2]
              ELSE mFin' = dFin /\ UNCHANGED <<dQ, dFin>>
           /\ UNCHANGED <<dState, dIdx, dBlk, dBest, pc, isBest, hist>>

Next == Skip \/ Begin \/ BeginOwn \/ WState \/ WLogs \/ WIdx \/ WBlk \/ WQ \/ WFin \/ Crash \/ Restart
Spec == Init /\ [][Next]_vars

------------------------------------------------------------------------------------------------------------------
Chain(b) == {AncAt(b, n) : n \in 0..Len(b)}
\* the block the best pointer names is completely durable together with all its ancestors
BestComplete == \A a \in Chain(dBest) : a \in dBlk /\ a \in dIdx /\ a \in dState
\* every stored block has its index and state (orphans - state or index without block - are harmless and allowed)
StoredComplete == \A b \in dBlk : b \in dIdx /\ b \in dState /\ Par(b) \in dBlk
\* a running node between imports: the log db holds exactly the canonical chain
LogsMatchBest == (up /\ pc = "idle") => dLogs = dBest
\* durable finality never contradicts the uninterrupted node
FinalityNotContradicting == IsAnc(dFin, Ref.fin) /\ IsAnc(dFin, dBest) /\ (up => mFin = dFin)
FinMonotone == [][IsAnc(dFin, dFin')]_vars
Finished == up /\ pc = "idle" /\ i > Len(Stream)
QualitiesRight == \A b \in Chain(dBest) : IsSP(b) => (b \in DOMAIN dQ /\ dQ[b] = Quality(b))
\* one further committed epoch was imported after the last crash point
LaterCommit == \E k \in (lastCrashAt + 1)..Len(Stream) :
                  LET b == Stream[k] IN IsSP(b) /\ Committed(b) /\ Quality(b) > 1 /\ IsAnc(b, Ref.best)
Converged == /\ dBest = Ref.best
             /\ QualitiesRight
             /\ IsAnc(dFin, Ref.fin)
             /\ (Repair \/ LaterCommit \/ crashes = 0 => dFin = Ref.fin)
\* resuming the stream leads to the same best block, tallies and (after one further epoch) finality - before the
\* repair of F2 except after a crash at a quality write
ResumeConverges == (Finished /\ (Repair \/ ~f2)) => Converged
\* the same without the exception: expected to be VIOLATED (documents F2 in the specification)
ResumeConvergesAlsoF2 == Finished => Converged
\* vacuity probes (expected to be violated)
NeverFinalizes == dFin = G
NeverCrashesMidImport == ~(~up /\ lastCrashAt > 0)
=============================================================================
