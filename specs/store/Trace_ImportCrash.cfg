SPECIFICATION TSpec
CONSTANTS
  E <- TrE
  W <- TrW
  ThrW <- TrThrW
  Rank <- TrRank
  Stream <- TrStream
  MaxCrashes = 5
  Repair <- TrRepair
  Score <- TrScore
  IdLess <- TrIdLess
  Ref <- TrRef
INVARIANT StoredComplete
INVARIANT LogsMatchBest
INVARIANT ResumeConverges
CONSTRAINT Progress
POSTCONDITION TraceAccepted
CHECK_DEADLOCK FALSE
