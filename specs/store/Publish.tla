------------------------------- MODULE Publish -------------------------------
(* Publication of the best block to concurrent readers (C20).

   One importer (cmd/thor/node/block_exec.go: commitBlock; chain/repository.go: AddBlock = indexBlock + saveBlock;
   bft/engine.go: CommitBlock) and any number of reader goroutines (API handlers, the packer's own queries).  The
   importer part continues store/ImportCrash.tla: the same ordered durable writes, plus the IN-MEMORY steps that
   ImportCrash does not need and on which visibility depends:

        state tries (account trie last)                        pc = "state"     stage.Commit()
        [ logs of the new best chain -> log db ]               pc = "logs"      only if the block becomes best
        index trie                                             pc = "idx"       repo.indexBlock
        block bulk (header, body, receipts, tx index, best)    pc = "blk"       saveBlock: bulk.Write()
        summary cache filled                                   pc = "cache"     r.caches.summaries.Add
        [ bestSummary published ]                              pc = "pub"       r.bestSummary.Store   (atomic.Value)
        [ quality of a store point ]                           pc = "q"         bft.saveQuality
        [ finalized checkpoint durable ]                       pc = "fin"       engine.data.Put(finalizedKey)
        [ finalized published in memory ]                      pc = "pubfin"    engine.finalized.Store (atomic.Value)

   The order of the steps after the index trie is the constant Order, so that the module can show its teeth: with
   bestSummary published BEFORE the block bulk, VisibleImpliesComplete is violated (MC_Publish_teeth_pubfirst.cfg).

   Readers: ObserveBest is ONE atomic load of bestSummary; everything a reader then does for the observed block is a
   separate step, interleaved arbitrarily with the importer - which may meanwhile finish this import, run the next
   one, or switch to another branch.  Reads go through the caches exactly as the repository does: summary = cache or
   store (GetOrLoad fills the cache, an LRU that may evict any entry at any time), body = store, ancestor by number =
   the index trie OF THE OBSERVED BLOCK, state = the account trie at the observed block's root.

   What the rules leave open is a parameter of the actions (bound from constants by MC_Publish, from logged facts by
   Trace_Publish): which block is delivered next, whether bft.Select makes it best, which checkpoint (if any) its
   commit finalizes.  Hashes are opaque: a block is an id with a parent and a number.                                *)
EXTENDS Integers, Sequences, FiniteSets, TLC

CONSTANTS Par(_),        \* parent id of a block
          Num(_),        \* height of a block
          E,             \* epoch length: store points are the heights n with n % E = E - 1
          Readers,       \* set of reader ids
          NoBlock,
          Order,         \* sequence of the steps between "idx" and the bft part, e.g. <<"blk", "cache", "pub">>
          CheckAccepts,  \* TRUE: the importer refuses blocks whose parent is not on the finalized chain (bft.Accepts)
          SimCommits,    \* FALSE: a call simulation discards its private state (TRUE = seeded fault, teeth)
          WithNext,      \* TRUE: readers also issue revision-"next" requests (kept out of the big configs: it multiplies states)
          NextTwoLoads   \* FALSE: revision "next" derives header AND state from ONE load of best (TRUE = seeded fault, teeth)

VARIABLES dState,   \* blocks whose state tries are completely durable
          idx,      \* durable index tries: block -> [base, at, id] = the trie of block `base` plus (at |-> id); nodes are
                    \* shared with the parent's version exactly as muxdb shares trie nodes between versions
          dBlk,     \* blocks whose block bulk is durable
          dBest,    \* durable best pointer (part of the block bulk)
          dQ,       \* store points whose quality is durable
          dFin,     \* durable finalized checkpoint
          dLogs,    \* head of the chain the log db holds
          dJunk,    \* anything a QUERY made durable (must stay empty)
          cSum,     \* in-memory summary cache (LRU): set of block ids
          mBest,    \* bestSummary (atomic)
          mFin,     \* engine.finalized (atomic)
          cur, pc, asBest, finTo,      \* importer: block in flight, step, decision of bft.Select, checkpoint to finalize
          obs,      \* reader -> block observed as best (NoBlock before the first observation)
          lastFin,  \* reader -> last observed finalized checkpoint
          fail,     \* reader -> a read for its observed block failed or returned another block's data
          finBack,  \* reader -> an observation of finalized went backwards
          nxt,      \* reader -> revision "next" in flight: the block its mocked header is the child of (NoBlock = none)
          torn      \* reader -> a revision-"next" request got the state of another block than its header's parent
durable == <<dState, idx, dBlk, dBest, dQ, dFin, dLogs, dJunk>>
memory  == <<cSum, mBest, mFin>>
importer == <<cur, pc, asBest, finTo>>
readers == <<obs, lastFin, fail, finBack, nxt, torn>>
vars == <<durable, memory, importer, readers>>

RECURSIVE AncAt(_, _)
AncAt(b, n) == IF Num(b) <= n THEN b ELSE AncAt(Par(b), n)
IsAnc(a, b) == Num(a) <= Num(b) /\ AncAt(b, Num(a)) = a
IsSP(b) == Num(b) % E = E - 1

InitWith(g) ==
  /\ dState = {g} /\ idx = (g :> [base |-> g, at |-> 0, id |-> g]) /\ dBlk = {g} /\ dBest = g /\ dQ = {} /\ dFin = g /\ dLogs = g /\ dJunk = {}
  /\ cSum = {g} /\ mBest = g /\ mFin = g
  /\ cur = NoBlock /\ pc = "idle" /\ asBest = FALSE /\ finTo = NoBlock
  /\ obs = [r \in Readers |-> NoBlock] /\ lastFin = [r \in Readers |-> g]
  /\ fail = [r \in Readers |-> FALSE] /\ finBack = [r \in Readers |-> FALSE]
  /\ nxt = [r \in Readers |-> NoBlock] /\ torn = [r \in Readers |-> FALSE]

------------------------------------------------------------------------------------------------------------------
(* importer *)
Steps == <<"state", "logs", "idx">> \o Order
Applies(s) == (s \in {"logs", "pub"}) => asBest
\* the step after position k of Steps that applies to this import; after the last one the bft part starts
RECURSIVE StepFrom(_)
StepFrom(k) == IF k > Len(Steps) THEN (IF IsSP(cur) THEN "q" ELSE "idle")
               ELSE IF Applies(Steps[k]) THEN Steps[k] ELSE StepFrom(k + 1)
PosOf(s) == CHOOSE k \in 1..Len(Steps) : Steps[k] = s
\* evaluated with the primed decision where it is taken (WState), unprimed afterwards
After(s) == StepFrom(PosOf(s) + 1)
Finish(p) == IF p = "idle" THEN cur' = NoBlock /\ asBest' = FALSE /\ finTo' = NoBlock
                           ELSE UNCHANGED <<cur, asBest, finTo>>

\* executeAndCommitBlock up to consensus: unknown block, known parent, parent on the finalized chain
Acceptable(b) == b \notin dBlk /\ Par(b) \in dBlk /\ (CheckAccepts => IsAnc(mFin, Par(b)))
Begin(b) == /\ pc = "idle" /\ Acceptable(b)
            /\ cur' = b /\ pc' = "state"
            /\ UNCHANGED <<durable, memory, asBest, finTo, readers>>
\* stage.Commit() completes the state; bft.Select decides (parameter best)
WState(best) == /\ pc = "state"
                /\ dState' = dState \cup {cur}
                /\ asBest' = best
                /\ pc' = IF best THEN "logs" ELSE "idx"
                /\ UNCHANGED <<idx, dBlk, dBest, dQ, dFin, dLogs, dJunk, memory, cur, finTo, readers>>
WLogs == /\ pc = "logs"
         /\ dLogs' = cur /\ pc' = "idx"
         /\ UNCHANGED <<dState, idx, dBlk, dBest, dQ, dFin, dJunk, memory, cur, asBest, finTo, readers>>
\* indexBlock: the parent's index trie plus (number -> id), committed under the block's own version
WIdx == /\ pc = "idx"
        /\ idx' = (cur :> [base |-> Par(cur), at |-> Num(cur), id |-> cur]) @@ idx
        /\ pc' = After("idx") /\ Finish(pc')
        /\ UNCHANGED <<dState, dBlk, dBest, dQ, dFin, dLogs, dJunk, memory, readers>>
WBlk == /\ pc = "blk"
        /\ dBlk' = dBlk \cup {cur}
        /\ dBest' = IF asBest THEN cur ELSE dBest
        /\ pc' = After("blk") /\ Finish(pc')
        /\ UNCHANGED <<dState, idx, dQ, dFin, dLogs, dJunk, memory, readers>>
FillCache == /\ pc = "cache"
             /\ cSum' = cSum \cup {cur}
             /\ pc' = After("cache") /\ Finish(pc')
             /\ UNCHANGED <<durable, mBest, mFin, readers>>
Publish == /\ pc = "pub"
           /\ mBest' = cur
           /\ pc' = After("pub") /\ Finish(pc')
           /\ UNCHANGED <<durable, cSum, mFin, readers>>
\* bft.CommitBlock at a store point: saveQuality, then (parameter f: the checkpoint it finalizes, or NoBlock)
WQ(f) == /\ pc = "q"
         /\ dQ' = dQ \cup {cur}
         /\ finTo' = f
         /\ pc' = IF f = NoBlock THEN "idle" ELSE "fin"
         /\ IF f = NoBlock THEN cur' = NoBlock /\ asBest' = FALSE ELSE UNCHANGED <<cur, asBest>>
         /\ UNCHANGED <<dState, idx, dBlk, dBest, dFin, dLogs, dJunk, memory, readers>>
WFin == /\ pc = "fin"
        /\ dFin' = finTo /\ pc' = "pubfin"
        /\ UNCHANGED <<dState, idx, dBlk, dBest, dQ, dLogs, dJunk, memory, cur, asBest, finTo, readers>>
PubFin == /\ pc = "pubfin"
          /\ mFin' = finTo
          /\ pc' = "idle" /\ cur' = NoBlock /\ asBest' = FALSE /\ finTo' = NoBlock
          /\ UNCHANGED <<durable, cSum, mBest, readers>>
\* the LRU may drop any entry at any time
CacheEvict(b) == /\ b \in cSum
                 /\ cSum' = cSum \ {b}
                 /\ UNCHANGED <<durable, mBest, mFin, importer, readers>>

------------------------------------------------------------------------------------------------------------------
(* readers *)
SummaryAvail(b) == b \in cSum \/ b \in dBlk                \* Repository.GetBlockSummary: cache, else store
BodyAvail(b) == SummaryAvail(b) /\ b \in dBlk              \* GetBlockTransactions / GetBlockReceipts
\* Chain.GetBlockID(n) on the index trie of head b: the entry of the newest version at or below b that wrote height n
RECURSIVE Lookup(_, _)
Lookup(b, n) == IF b \notin DOMAIN idx THEN NoBlock                \* a node of the trie is not durable: read error
                ELSE IF idx[b].at = n THEN idx[b].id
                ELSE IF idx[b].at < n \/ idx[b].base = b THEN NoBlock
                ELSE Lookup(idx[b].base, n)
AncestorOK(b, n) == /\ SummaryAvail(b)                     \* Chain.lazyInit needs the head's summary for its index root
                    /\ Lookup(b, n) = AncAt(b, n)          \* ... and returns the ancestor ON b's BRANCH
                    /\ SummaryAvail(AncAt(b, n))
StateAvail(b) == b \in dState
ReadOK(kind, b, n) == CASE kind = "hdr"   -> SummaryAvail(b)
                        [] kind = "body"  -> BodyAvail(b)
                        [] kind = "anc"   -> AncestorOK(b, n)
                        [] kind = "state" -> StateAvail(b)
                        [] kind = "sim"   -> StateAvail(b)
                        [] kind = "next"  -> StateAvail(b)
                        [] OTHER          -> FALSE

ObserveBest(r) == /\ obs' = [obs EXCEPT ![r] = mBest]
                  /\ UNCHANGED <<durable, memory, importer, lastFin, fail, finBack, nxt, torn>>
\* a read for the block the reader holds; GetOrLoad fills the summary cache
Read(r, kind, n) ==
  /\ obs[r] # NoBlock /\ n \in 0..Num(obs[r])
  /\ (kind # "anc" => n = 0)
  /\ fail' = [fail EXCEPT ![r] = @ \/ ~ReadOK(kind, obs[r], n)]
  /\ cSum' = IF kind \in {"hdr", "body", "anc"} /\ obs[r] \in dBlk THEN cSum \cup {obs[r]} ELSE cSum
  /\ UNCHANGED <<durable, mBest, mFin, importer, obs, lastFin, finBack, nxt, torn>>
\* call simulation (POST /accounts): executes on a private state over the observed root, writes stay in that overlay
Simulate(r) ==
  /\ obs[r] # NoBlock
  /\ fail' = [fail EXCEPT ![r] = @ \/ ~ReadOK("sim", obs[r], 0)]
  /\ dJunk' = IF SimCommits THEN dJunk \cup {obs[r]} ELSE dJunk
  /\ UNCHANGED <<dState, idx, dBlk, dBest, dQ, dFin, dLogs, memory, importer, obs, lastFin, finBack, nxt, torn>>
\* Engine.Finalized(): one atomic load; the revision "finalized" then reads that block and its state
ObserveFinalized(r) ==
  /\ lastFin' = [lastFin EXCEPT ![r] = mFin]
  /\ finBack' = [finBack EXCEPT ![r] = @ \/ ~IsAnc(lastFin[r], mFin)]
  /\ fail' = [fail EXCEPT ![r] = @ \/ ~(SummaryAvail(mFin) /\ StateAvail(mFin))]
  /\ UNCHANGED <<durable, memory, importer, obs, nxt, torn>>
\* restutil.GetSummaryAndState for the revision "next" (call simulation on the block to come): best is loaded ONCE; the
\* mocked header (parent id, number, state root) is built from that capture (NextHeader) and, as a separate step - the
\* importer may publish in between -, the state is created at the root of THE SAME capture (NextState).
NextHeader(r) == /\ WithNext
                 /\ nxt' = [nxt EXCEPT ![r] = mBest]
                 /\ UNCHANGED <<durable, memory, importer, obs, lastFin, fail, finBack, torn>>
NextState(r) == /\ nxt[r] # NoBlock
                /\ LET b == IF NextTwoLoads THEN mBest ELSE nxt[r] IN
                   /\ torn' = [torn EXCEPT ![r] = @ \/ b # nxt[r]]
                   /\ fail' = [fail EXCEPT ![r] = @ \/ ~StateAvail(b)]
                /\ nxt' = [nxt EXCEPT ![r] = NoBlock]
                /\ UNCHANGED <<durable, memory, importer, obs, lastFin, finBack>>

Kinds == {"hdr", "body", "anc", "state"}
ReaderStep == \E r \in Readers : \/ ObserveBest(r) \/ ObserveFinalized(r) \/ Simulate(r) \/ NextHeader(r) \/ NextState(r)
                                 \/ \E k \in Kinds : \E n \in 0..Num(obs[r]) : Read(r, k, n)

------------------------------------------------------------------------------------------------------------------
(* properties *)
CompleteOn(b, S) == /\ SummaryAvail(b) /\ b \in dBlk /\ b \in dState /\ b \in DOMAIN idx
                    /\ \A n \in S : Lookup(b, n) = AncAt(b, n) /\ AncAt(b, n) \in dBlk
Complete(b) == CompleteOn(b, 0..Num(b))
\* whenever a reader holds an observed best block, every read for it succeeds and returns that block's data -
\* now and (because this is an invariant) whatever the importer does afterwards
VisibleImpliesComplete == \A r \in Readers : ~fail[r] /\ (obs[r] # NoBlock => Complete(obs[r]))
\* the published values themselves are complete even if nobody looks
PublishedComplete == Complete(mBest) /\ SummaryAvail(mFin) /\ StateAvail(mFin)
\* the durable pointer never runs ahead of the data either (ImportCrash.BestComplete) and memory never ahead of disk
DurableBehindMemory == Complete(dBest) /\ IsAnc(mFin, dFin) /\ (mBest # dBest => cur = dBest)
FinalizedMonotonePerReader == \A r \in Readers : ~finBack[r]
\* the (header, state) pair handed to a call simulation at revision "next" is ONE snapshot: the state is the state of
\* the block the mocked header is the child of
NextIsOneSnapshot == \A r \in Readers : ~torn[r]
\* no reader step changes anything durable (caches may be filled)
QueriesAreReadOnly == [][ReaderStep => UNCHANGED durable]_vars
NoQueryWrites == dJunk = {}
=============================================================================
