---- MODULE MC_Publish ----
(* Exhaustive configurations of Publish.tla: one importer, 2-3 readers, a short stream with an epoch boundary, a
   reorganisation (b2 replaces its sibling a2 as best), a finalization (b3 is a store point whose commit finalizes the
   checkpoint b2) and a late block of the abandoned branch (a3, refused by bft.Accepts).  E = 2: store points are the
   heights 1 and 3, checkpoints 0 and 2.

        g - a1 - a2 - a3
               \ b2 - b3 - b4

   Facts the rules leave open (fork choice, finality) are fixed here; C03/C04 (specs/bft) decide them.            *)
EXTENDS Publish
CONSTANTS g, a1, a2, b2, b3, a3, b4, r1, r2, r3, StreamC
VARIABLE i

ParDef(b) == CASE b = a1 -> g [] b = a2 -> a1 [] b = b2 -> a1 [] b = b3 -> b2 [] b = a3 -> a2 [] b = b4 -> b3 [] OTHER -> g
NumDef(b) == CASE b = a1 -> 1 [] b \in {a2, b2} -> 2 [] b \in {b3, a3} -> 3 [] b = b4 -> 4 [] OTHER -> 0
BestDef(b) == b \in {a1, a2, b3, b4}           \* b2 is stored as a side block; b3 then replaces a2 (2-block reorg)
FinDef(b) == CASE b = b3 -> b2 [] b = a3 -> a2 [] OTHER -> NoBlock

Stream5 == <<a1, a2, b2, b3, a3>>
Stream4 == <<a1, a2, b2, b3>>
Stream3 == <<a1, a2, b2>>
Stream6 == <<a1, a2, b2, b3, a3, b4>>
OrderAsIs == <<"blk", "cache", "pub">>
OrderPubFirst == <<"pub", "blk", "cache">>      \* seeded fault: bestSummary.Store before bulk.Write()
OrderCacheLate == <<"blk", "pub", "cache">>     \* harmless variant: GetBlockSummary falls back to the store
R2 == {r1, r2}
R3 == {r1, r2, r3}
Sym == Permutations(Readers)

MCInit == InitWith(g) /\ i = 1
Deliver == /\ pc = "idle" /\ i <= Len(StreamC) /\ i' = i + 1
           /\ IF Acceptable(StreamC[i]) THEN Begin(StreamC[i]) ELSE UNCHANGED vars
ImporterStep == \/ Deliver
                \/ /\ UNCHANGED i
                   /\ \/ WState(BestDef(cur)) \/ WLogs \/ WIdx \/ WBlk \/ FillCache \/ Publish
                      \/ WQ(FinDef(cur)) \/ WFin \/ PubFin
MCNext == \/ ImporterStep
          \/ ReaderStep /\ UNCHANGED i
          \/ \E b \in cSum : CacheEvict(b) /\ UNCHANGED i
MCSpec == MCInit /\ [][MCNext]_<<vars, i>>

\* vacuity probes (each expected to be VIOLATED)
NeverReorgObserved == ~\E r \in Readers : obs[r] = b3 /\ lastFin[r] = b2
NeverObservedMidImport == ~\E r \in Readers : obs[r] # NoBlock /\ pc \in {"blk", "cache", "pub"} /\ obs[r] # mBest
====
