SPECIFICATION MCSpec
CONSTANTS
  RECENT = 3
  NoBlock = NoBlock
  NoTx = NoTx
  VarBase = 2
  PoolRefAhead = 2
  BeyondHeadStops = FALSE
  MaxNew = 6
  MaxSib = 2
  MaxHeight = 5
  Readers = {}
  TxSet = {1, 2, 3}
  MaxTxPerBlock = 2
  MayRevert = {1}
  CheckAdmission = TRUE
  BestChoices = {TRUE}
  ChildOfBestIsBest = FALSE
  UseConflicts = TRUE
  TxTable <- TxTable3
INVARIANT AncIsParentWalk
INVARIANT ByNumberIsAncestor
INVARIANT TxBelongsToHeadChain
INVARIANT VersionsUnique
INVARIANT NoDupOnChain
INVARIANT WindowOk
INVARIANT DepsOk
INVARIANT LookupAgrees
CHECK_DEADLOCK FALSE
