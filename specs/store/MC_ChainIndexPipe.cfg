SPECIFICATION Spec
CONSTANTS
  MaxBest = 4
  RegisterBeforeRead = TRUE
INVARIANT QuiescentDelivered
PROPERTY EventuallyOnBest
CHECK_DEADLOCK FALSE
