---------------------------- MODULE MC_ChainIndex ----------------------------
(* Bounded instances of ChainIndex for exhaustive checking.  A block id is <<height, ordinal among the blocks stored
   at that height>> (genesis = <<0, 0>>), so block trees built in different orders that agree on these ordinals are
   the same state.  Transaction ids are small integers whose facts come from a table chosen in the .cfg.         *)
EXTENDS ChainIndex

CONSTANTS MaxNew,          \* blocks stored after genesis
          MaxSib,          \* blocks per height
          MaxHeight,
          Readers,         \* set of model values
          TxSet,           \* transaction ids that may be packed
          MaxTxPerBlock,
          MayRevert,       \* transactions whose execution may revert
          CheckAdmission,  \* TRUE: blocks enter only through AcceptBlock; FALSE: any block may be stored (repository level)
          BestChoices,     \* values of the asBest flag of AddBlock
          ChildOfBestIsBest,
          UseConflicts,    \* FALSE = deliberately broken design: every block stored with conflicts = 0
          TxTable          \* tx id -> facts

\* three transactions: 1 and 2 collide in the 8-byte filter key, 2 depends on 1, windows of different length
TxTable3 == (1 :> [tagok |-> TRUE, ref |-> 0, exp |-> 2, dep |-> NoTx, pfx |-> "A"]) @@
            (2 :> [tagok |-> TRUE, ref |-> 1, exp |-> 3, dep |-> 1, pfx |-> "A"]) @@
            (3 :> [tagok |-> TRUE, ref |-> 0, exp |-> 6, dep |-> NoTx, pfx |-> "B"])
\* plus a transaction of another chain and one whose reference block is far ahead
TxTable5 == TxTable3 @@
            (4 :> [tagok |-> FALSE, ref |-> 0, exp |-> 6, dep |-> NoTx, pfx |-> "C"]) @@
            (5 :> [tagok |-> TRUE, ref |-> 3, exp |-> 0, dep |-> 3, pfx |-> "B"])
TxTable0 == <<>>

TxSeqs == UNION {[1..k -> TxSet] : k \in 0..MaxTxPerBlock}
RevSeqs(txs) == {rv \in [DOMAIN txs -> BOOLEAN] : \A i \in DOMAIN txs : rv[i] => txs[i] \in MayRevert}

G0 == <<0, 0>>
MCInit == InitWith(G0, 0, TxTable)

AddBlock ==
  \E p \in Known : \E txs \in TxSeqs : \E revs \in RevSeqs(txs) : \E ab \in BestChoices :
    LET n == Num(p) + 1
        conf == IF UseConflicts THEN ScanConflicts(n) ELSE 0
    IN /\ Cardinality(Known) <= MaxNew
       /\ n <= MaxHeight
       /\ ScanConflicts(n) < MaxSib
       /\ (ChildOfBestIsBest /\ p = best => ab)      \* TRUE = the node's fork choice; FALSE = anything AddBlock permits
       /\ IF CheckAdmission
          THEN AcceptBlock(<<n, ScanConflicts(n)>>, p, conf, txs, revs, [i \in DOMAIN txs |-> 0], n, ab)
          ELSE Store(<<n, ScanConflicts(n)>>, p, conf, txs, revs, [i \in DOMAIN txs |-> 0], n, ab)

MCNext == \/ AddBlock
          \/ \E r \in Readers : \E p \in Known : StartReader(r, p)
          \/ \E r \in Readers : r \in DOMAIN rd /\ rd[r].pos # best /\ Read(r)

MCSpec == MCInit /\ [][MCNext]_vars
ReaderSym == Permutations(Readers)

\* vacuity guards: these are expected to be VIOLATED (used once while developing, and by the teeth demonstration)
NeverIndexedPath == \A h \in Known : \A t \in DOMAIN txinfo : ~(OnChain(h, t) /\ ~UsesRecentPath(h, t) /\ txinfo[t].ref <= Num(h))
NeverReaderAboveBest == \A r \in DOMAIN rd : Num(rd[r].pos) <= Num(best)
NeverReaderOnSiblingBelowBest == \A r \in DOMAIN rd : ~(Num(rd[r].pos) + 1 = Num(best) /\ blocks[best].parent # rd[r].pos)
NeverReaderOnDescendantOfBest == \A r \in DOMAIN rd : rd[r].pos = best \/ best \notin ChainSet(rd[r].pos)
NeverSideBranchTwoDeep == \A b \in Known : Num(b) > 0 => ~(blocks[b].conflicts >= 1 /\ blocks[blocks[b].parent].conflicts >= 1)
NeverObsolete == \A r \in DOMAIN rd : \A i \in DOMAIN ReadStep(rd[r].pos, best)[1] : ~ReadStep(rd[r].pos, best)[1][i].obs
=============================================================================
