---- MODULE Trace_ImportCrash ----
(* Trace specification for C13.  One trace file = one block stream: a Config line with the facts the rules leave open
   (stream order, per-block total score and id rank, weights) followed by one run per crash cut, each starting with a
   Reset event.  Every durable write of the REAL node (recorded under the kv engine, classified by key space) must be
   a step of ImportCrash.tla in the order the specification fixes; after the crash the restart observations and, after
   resuming the stream, the final best block, finalized checkpoint, persisted qualities and log-db head must be exactly
   what the specification computes for that cut.  ResumeConverges (with the F2 exception) is evaluated on every state. *)
EXTENDS ImportCrash, Json, TraceLib

Trace == LoadTrace("trace.ndjson")
Cfg == Trace[1]
VARIABLE l
tvars == <<vars, l>>

TrE == Cfg.E
TrThrW == Cfg.thrW
TrW == Cfg.w
TrStream == Cfg.stream
TrRepair == IF "repair" \in DOMAIN Cfg THEN Cfg.repair ELSE TRUE   \* the tree under test: decided by its own behaviour, see TRestart
Fact(x) == CHOOSE r \in {Cfg.facts[k] : k \in 1..Len(Cfg.facts)} : r.b = x
TrScore(x) == Fact(x).score
TrIdLess(x, y) == Fact(x).ord < Fact(y).ord
TrRank == [v \in DOMAIN Cfg.w |-> 0]                 \* unused: the id order is a logged fact
TrRef == [best |-> Cfg.refBest, fin |-> Cfg.refFin, seen |-> {}]   \* the REAL uninterrupted node's result

Ev == Trace[l]
InStream == i <= Len(Stream)      \* an import is in flight only while the stream has a current block
IsEv(name) == l <= Len(Trace) /\ Ev.e = name

TInit == /\ HWMInit /\ Cfg.e = "Config" /\ Init /\ l = 2

TReset == /\ IsEv("Reset")
          /\ dState' = {G} /\ dIdx' = {G} /\ dBlk' = {G} /\ dBest' = G /\ dQ' = <<>> /\ dFin' = G /\ dLogs' = G
          /\ up' = TRUE /\ i' = 1 /\ pc' = "idle" /\ isBest' = FALSE /\ mFin' = G
          /\ crashes' = 0 /\ f2' = FALSE /\ lastCrashAt' = 0
TSkip == /\ IsEv("Skip") /\ i <= Len(Stream) /\ Cur = Ev.b /\ Skip
         /\ \/ Ev.why = "known" /\ Cur \in dBlk
            \/ Ev.why \in {"parent-missing", "unprocessable"} /\ Cur \notin dBlk /\ Par(Cur) \notin dBlk
            \/ Ev.why = "bft-rejected" /\ Cur \notin dBlk /\ Par(Cur) \in dBlk /\ ~IsAnc(mFin, Par(Cur))
TBegin == /\ IsEv("Begin") /\ i <= Len(Stream) /\ Cur = Ev.b
          /\ IF "own" \in DOMAIN Ev /\ Ev.own THEN BeginOwn ELSE Begin
\* a state write that is not the last one of the block: orphan trie nodes, no abstract change
TStatePart == /\ IsEv("W") /\ Ev.cls = "state" /\ ~Ev.last /\ up /\ pc = "state" /\ InStream /\ Cur = Ev.b
              /\ UNCHANGED vars
TState == IsEv("W") /\ Ev.cls = "state" /\ Ev.last /\ InStream /\ Cur = Ev.b /\ WState
TIdx == IsEv("W") /\ Ev.cls = "idx" /\ InStream /\ Cur = Ev.b /\ WIdx
TBlk == IsEv("W") /\ Ev.cls = "blk" /\ InStream /\ Cur = Ev.b /\ WBlk
TQ == IsEv("W") /\ Ev.cls = "q" /\ InStream /\ Cur = Ev.b /\ WQ
TFin == IsEv("W") /\ Ev.cls = "fin" /\ InStream /\ Cur = Ev.b /\ WFin
\* the import returned: nothing may be pending, and best / finalized are what the specification computed
TDone == /\ IsEv("Done") /\ up /\ pc = "idle" /\ i > 1 /\ Stream[i - 1] = Ev.b
         /\ dBest = Ev.best /\ mFin = Ev.fin /\ dFin = Ev.fin
         /\ UNCHANGED vars
\* the process died here (the newest block id in the log db is not logged: blocks without logs leave no row)
TCrash == IsEv("Crash") /\ Crash
\* restart: observations with real reads
TRestart == /\ IsEv("Restart") /\ Restart
            /\ Ev.best = dBest /\ Ev.fin = dFin'                    \* after the start-up repair, if any
            /\ Ev.complete = TRUE /\ Ev.logsok = TRUE
            /\ BestComplete /\ IsAnc(dFin', Ref.fin)
CastQ(seq) == {<<seq[k][1], seq[k][2]>> : k \in 1..Len(seq)}
TEnd == /\ IsEv("End") /\ Finished
        /\ Ev.best = dBest /\ Ev.fin = dFin /\ Ev.logsok = TRUE
        /\ CastQ(Ev.quals) = {<<x, dQ[x]>> : x \in DOMAIN dQ}
        /\ UNCHANGED vars

Consume == l' = l + 1
TNext == \/ /\ Consume
            /\ (TReset \/ TSkip \/ TBegin \/ TStatePart \/ TState \/ TIdx \/ TBlk \/ TQ \/ TFin \/ TDone \/ TCrash \/ TRestart \/ TEnd)
         \/ /\ WLogs /\ UNCHANGED l          \* the log-db transaction is not a kv write: silent step
TSpec == TInit /\ [][TNext]_tvars

Progress == HWM(l)
TraceAccepted == Accepted(Len(Trace))
====
