SPECIFICATION MCSpec
CONSTANTS
  RECENT = 3
  NoBlock = NoBlock
  NoTx = NoTx
  VarBase = 2
  PoolRefAhead = 2
  BeyondHeadStops = FALSE
  MaxNew = 4
  MaxSib = 3
  MaxHeight = 5
  Readers = {r1}
  TxSet = {1, 2}
  MaxTxPerBlock = 1
  MayRevert = {1}
  CheckAdmission = FALSE
  BestChoices = {TRUE}
  ChildOfBestIsBest = FALSE
  UseConflicts = TRUE
  TxTable <- TxTable3
PROPERTY LookupStable
CHECK_DEADLOCK FALSE
