---- MODULE MC_ImportCrash ----
EXTENDS ImportCrash
CONSTANTS a, b, c, d
W1 == [v \in {a, b, c, d} |-> 1]
RankDef == (a :> 1) @@ (b :> 2) @@ (c :> 3) @@ (d :> 4)
ScoreDef(x) == Len(x)
IdLessDef(x, y) == LessPath(x, y, 1)
\* trunk: 14 blocks, E = 3, signers cycle a,b,c; COM from height 6 on (parent quality >= 1)
Sg(n) == IF n % 3 = 1 THEN a ELSE IF n % 3 = 2 THEN b ELSE c
Trunk == [n \in 1..14 |-> <<Sg(n), n >= 6>>]
T(n) == SubSeq(Trunk, 1, n)
S7 == Append(T(6), <<d, TRUE>>)          \* sibling of block 7, delivered right after it
S8 == Append(T(7), <<d, TRUE>>)          \* sibling of store point 8, delivered an epoch late
StreamDef == <<T(1), T(2), T(3), T(4), T(5), T(6), T(7), S7, T(8), T(9), T(10), T(11), S8, T(12), T(13), T(14)>>
StreamShort == <<T(1), T(2), T(3), T(4), T(5), T(6), T(7), S7, T(8), T(9), T(10), T(11), S8>>
====
