---------------------------- MODULE ChainIndex ----------------------------
(* Design-level model of thor's block store as seen by its readers (C14) and of transaction admission / lookup (C09).

   Transcribed from
     chain/repository.go   AddBlock, saveBlock (tx index entries id||num||conflicts, 8-byte filter key, heads store,
                           best pointer), ScanHeads, GetConflicts
     chain/chain.go        indexBlock (number index = versioned trie, version (num, conflicts), derived from the
                           PARENT's index root), GetBlockID, HasBlock, Exclude, HasTransaction (two code paths),
                           GetTransactionMeta, GetTransaction / GetTransactionReceipt, FindBlockHeaderByTimestamp
     chain/block_reader.go NewBlockReader
     consensus/validator.go validateBlockBody + verifyBlock (tx admission), packer/flow.go Adopt (same rules)

   A block is stored with `conflicts` = number of blocks already stored at its height.  Every query that a reader
   makes "from a head" goes through the index version (num(head), conflicts(head)); the ground truth it is compared
   with is the parent-pointer walk (ChainSeq).  The model of the code and the ground truth are kept strictly apart:
   operators in the section "model of the code" never follow parent pointers except where the code does
   (recent-ancestor scan of HasTransaction, BlockReader's walk back).                                            *)
EXTENDS Integers, Sequences, FiniteSets, TLC

CONSTANTS RECENT,     \* length of the recent-ancestor shortcut of HasTransaction (100 in the code)
          NoBlock,    \* "not found" for block queries
          NoTx,       \* "depends on nothing"
          VarBase,    \* radix of the variable-length integers in the tx index keys (128 in the code: binary.AppendUvarint)
          PoolRefAhead,    \* the pool refuses block refs more than this many blocks ahead of the next block (5 min / interval)
          BeyondHeadStops  \* FALSE = the code: an index entry above the head's height is skipped (continue);
                           \* TRUE = a tempting "optimisation" (break) that is WRONG because keys are not in numeric order

VARIABLES blocks,  \* id -> [parent, num, conflicts, txs, revs, sers, ts, clean]
          idx,     \* <<num, conflicts>> -> sequence of ids, position n+1 = id at height n   (index trie versions)
          txi,     \* set of [t, num, conflicts, index, rev]                                 (chain.txi entries)
          filter,  \* set of 8-byte id prefixes written to chain.txi                         (filter keys)
          heads,   \* chain.heads
          best,    \* best-block-id
          txinfo,  \* tx id -> [tagok, ref, exp, dep, pfx]   (facts about transactions; constant in MC, logged in traces)
          rd,      \* reader -> [pos, held]   BlockReader position and the chain the subscriber holds
          anc      \* id -> sequence of ids from genesis to id (ground truth, by parent walk; see AncIsParentWalk)
vars == <<blocks, idx, txi, filter, heads, best, txinfo, rd, anc>>

Known == DOMAIN blocks
Num(b) == blocks[b].num
Ver(b) == <<blocks[b].num, blocks[b].conflicts>>
Range(s) == {s[i] : i \in DOMAIN s}

-----------------------------------------------------------------------------
(* ---- ground truth ------------------------------------------------------- *)
RECURSIVE ParentWalk(_)
ParentWalk(b) == IF blocks[b].num = 0 THEN <<b>> ELSE Append(ParentWalk(blocks[b].parent), b)
ChainSeq(b) == anc[b]
ChainSet(b) == Range(anc[b])
AncAt(h, n) == IF n + 1 \in DOMAIN anc[h] THEN anc[h][n + 1] ELSE NoBlock
\* inclusions of t on the chain of h : set of <<block, position>>
PosOn(h) == UNION {{<<x, j>> : j \in DOMAIN blocks[x].txs} : x \in ChainSet(h)}
Incl(h, t) == {x \in PosOn(h) : blocks[x[1]].txs[x[2]] = t}
OnChain(h, t) == \E b \in ChainSet(h) : t \in Range(blocks[b].txs)

-----------------------------------------------------------------------------
(* ---- model of the code: block queries ----------------------------------- *)
GetBlockID(h, n) == LET s == idx[Ver(h)] IN IF n + 1 \in DOMAIN s THEN s[n + 1] ELSE NoBlock
\* block.Number(id) is part of the id, so HasBlock needs no lookup of b itself
HasBlock(h, b) == GetBlockID(h, Num(b)) = b

\* Chain.Exclude: walk down this chain (by its own index) until the other chain has the block; the result is the
\* part of this chain above the height where the walk stopped, ascending
RECURSIVE ExclStop(_, _, _)
ExclStop(a, o, n) ==
  IF n = 0 THEN 0
  ELSE LET id == GetBlockID(a, n) IN
       IF n > Num(o) THEN ExclStop(a, o, n - 1)
       ELSE IF n = Num(o) THEN (IF id = o THEN n ELSE ExclStop(a, o, n - 1))
       ELSE IF HasBlock(o, id) THEN n ELSE ExclStop(a, o, n - 1)
Exclude(a, o) == SubSeq(idx[Ver(a)], ExclStop(a, o, Num(a)) + 2, Num(a) + 1)

ScanHeads(from) == {h \in heads : Num(h) >= from}
GetConflicts(n) == {b \in Known : Num(b) = n}
ScanConflicts(n) == Cardinality(GetConflicts(n))

\* FindBlockHeaderByTimestamp(ts, flag): sort.Search over heights 0..num(h)-1, falls back to the head
MinSat(S, dflt) == IF S = {} THEN dflt ELSE CHOOSE x \in S : \A y \in S : x <= y
FindByTs(h, ts, flag) ==
  LET hn == Num(h)
      T(i) == blocks[GetBlockID(h, i)].ts
  IN IF flag >= 0
     THEN LET n == MinSat({i \in 0..(hn - 1) : T(i) >= ts}, hn) IN
          IF flag = 0 /\ T(n) # ts THEN NoBlock ELSE GetBlockID(h, n)
     ELSE LET k == MinSat({i \in 0..(hn - 1) : T(hn - i) <= ts}, hn) IN GetBlockID(h, hn - k)

(* ---- model of the code: transaction lookups ------------------------------ *)
\* path 1: iterate block summaries from the head down to the ref block, following parent ids
RECURSIVE ScanRecent(_, _, _)
ScanRecent(id, t, ref) ==
  IF Num(id) < ref THEN FALSE
  ELSE IF t \in Range(blocks[id].txs) THEN TRUE
  ELSE IF Num(id) = 0 THEN FALSE
  ELSE ScanRecent(blocks[id].parent, t, ref)

\* index entries of t that lie on the chain of h: entry (num, conflicts) is on the chain iff the head chain's
\* summary at num has the same conflicts
TxMetaSet(h, t) == {e \in txi : /\ e.t = t /\ e.num <= Num(h)
                                /\ blocks[GetBlockID(h, e.num)].conflicts = e.conflicts}

\* The store iterates the entries of t in KEY order.  The key is id || uvarint(num) || uvarint(conflicts), compared
\* bytewise.  uvarint is little-endian base VarBase with a continuation flag on every group but the last, so byte order
\* is NOT numeric order once a number needs two groups (with 128: 256 = 80 02 sorts before 129 = 81 01).
RECURSIVE Enc(_)
Enc(n) == IF n < VarBase THEN <<n>> ELSE <<(n % VarBase) + VarBase>> \o Enc(n \div VarBase)
RECURSIVE LexLess(_, _)
LexLess(a, b) == IF a = <<>> THEN b # <<>>
                 ELSE IF b = <<>> THEN FALSE
                 ELSE IF Head(a) # Head(b) THEN Head(a) < Head(b)
                 ELSE LexLess(Tail(a), Tail(b))
Key(e) == Enc(e.num) \o Enc(e.conflicts)
RECURSIVE SortByKey(_)
SortByKey(S) == IF S = {} THEN <<>>
                ELSE LET m == CHOOSE x \in S : \A y \in S \ {x} : LexLess(Key(x), Key(y)) IN <<m>> \o SortByKey(S \ {m})
EntriesOf(t) == SortByKey({e \in txi : e.t = t})
\* the loop shared by GetTransactionMeta and the indexed path of HasTransaction: first entry, in key order, that lies on
\* the chain of h.  NoEntry = not found.
NoEntry == [t |-> NoTx, num |-> 0, conflicts |-> 0, index |-> 0, rev |-> FALSE]
RECURSIVE IterMeta(_, _)
IterMeta(h, es) ==
  IF es = <<>> THEN NoEntry
  ELSE LET e == Head(es) IN
       IF e.num > Num(h) THEN (IF BeyondHeadStops THEN NoEntry ELSE IterMeta(h, Tail(es)))
       ELSE IF blocks[GetBlockID(h, e.num)].conflicts = e.conflicts THEN e
       ELSE IterMeta(h, Tail(es))
TxMeta(h, t) == IterMeta(h, EntriesOf(t))

\* Chain.HasTransaction(id, blockRef(id))
HasTx(h, t) ==
  LET ref == txinfo[t].ref
      hn == Num(h)
  IN IF ref > hn THEN FALSE
     ELSE IF hn - ref < RECENT THEN ScanRecent(h, t, ref)
     ELSE txinfo[t].pfx \in filter /\ TxMeta(h, t) # NoEntry
UsesRecentPath(h, t) == txinfo[t].ref <= Num(h) /\ Num(h) - txinfo[t].ref < RECENT

\* the block whose body store holds (num, conflicts, *)
ByVer(v) == CHOOSE b \in Known : Ver(b) = v

(* ---- model of the code: admission (validateBlockBody + verifyBlock; flow.Adopt) --------- *)
DepOk(p, d, txs, revs, i) ==
  IF \E j \in 1..(i - 1) : txs[j] = d
  THEN LET j == CHOOSE j \in 1..(i - 1) : txs[j] = d /\ \A k \in 1..(i - 1) : txs[k] = d => k <= j   \* processedTxs keeps the last
       IN ~revs[j]
  ELSE LET e == TxMeta(p, d) IN e # NoEntry /\ ~e.rev

\* The validity window.  block ref and expiration are uint32 in the code, and ref + exp may exceed 2^32 - 1 (the code
\* widens to uint64 before adding).  Written as  n - ref <= exp  the comparison never leaves the range of its operands;
\* traces log ref and exp saturated at 2^31 - 1, which changes no verdict while heights stay below that.
InWindow(f, n) == f.ref <= n /\ n - f.ref <= f.exp

\* The first rule tx i breaks, in the order the packer's Adopt tests them (the validator tests the same rules; for it
\* only "ok" matters).  "bad" = badTxError (the pool drops the tx), "later" = errTxNotAdoptableNow (the pool keeps it),
\* "known" = errKnownTx, "never" = errTxNotAdoptableForever.
DepFoundInBlock(d, txs, i) == \E j \in 1..(i - 1) : txs[j] = d
AdmitClass(p, txs, revs, i) ==
  LET t == txs[i]
      n == Num(p) + 1
      f == txinfo[t]
  IN IF ~f.tagok THEN "bad"
     ELSE IF f.ref > n THEN "later"
     ELSE IF n - f.ref > f.exp THEN "bad"
     ELSE IF (\E j \in 1..(i - 1) : txs[j] = t) \/ HasTx(p, t) THEN "known"
     ELSE IF f.dep = NoTx THEN "ok"
     ELSE IF ~DepFoundInBlock(f.dep, txs, i) /\ TxMeta(p, f.dep) = NoEntry THEN "later"
     ELSE IF ~DepOk(p, f.dep, txs, revs, i) THEN "never"
     ELSE "ok"
TxAdmissible(p, txs, revs, i) == AdmitClass(p, txs, revs, i) = "ok"

\* txpool: TxObject.Evaluate against head h (the pool's admission rule for the next block).  "rejected" = an error
\* (the pool drops / refuses the tx), "waiting" = not executable yet, "executable".
PoolClass(h, t) ==
  LET n == Num(h) + 1
      f == txinfo[t]
      m == IF f.dep = NoTx THEN NoEntry ELSE TxMeta(h, f.dep)
  IN IF n - f.ref > f.exp /\ f.ref <= n THEN "rejected"                       \* expired
     ELSE IF f.ref > n + PoolRefAhead THEN "rejected"                          \* block ref out of schedule
     ELSE IF HasTx(h, t) THEN "rejected"                                        \* known tx
     ELSE IF f.dep # NoTx /\ m = NoEntry THEN "waiting"
     ELSE IF f.dep # NoTx /\ m.rev THEN "rejected"                             \* dep reverted
     ELSE IF f.ref > n THEN "waiting"
     ELSE "executable"

Admissible(p, txs, revs) == \A i \in DOMAIN txs : TxAdmissible(p, txs, revs, i)

(* ---- BlockReader.Read ------------------------------------------------------ *)
\* returns << sequence of [b, obs], new position >>.  Walk back flagging obsolete until on the best chain, then one
\* block forward.  If the walk back ends ON the best block (the position descended from it) there is nothing to step
\* forward to: the obsolete blocks are the whole answer.  (chain/block_reader.go asks for block best+1 there and
\* fails; that case needs a child of best that is not best, which the node's fork choice never produces but
\* Repository.AddBlock permits.)
RECURSIVE ReadWalk(_, _)
ReadWalk(pos, bst) ==
  IF Num(pos) > Num(bst) \/ ~HasBlock(bst, pos)
  THEN LET r == ReadWalk(blocks[pos].parent, bst)
       IN << <<[b |-> pos, obs |-> TRUE]>> \o r[1], r[2] >>
  ELSE IF pos = bst THEN << <<>>, pos >>
  ELSE LET nx == GetBlockID(bst, Num(pos) + 1)
       IN << <<[b |-> nx, obs |-> FALSE]>>, nx >>
ReadStep(pos, bst) == IF pos = bst THEN << <<>>, pos >> ELSE ReadWalk(pos, bst)

\* everything a connected subscription streams until it is quiescent (api/subscriptions pipe: Read until nothing more)
RECURSIVE DrainOut(_, _)
DrainOut(pos, bst) == IF pos = bst THEN <<>>
                      ELSE LET r == ReadStep(pos, bst) IN r[1] \o DrainOut(r[2], bst)

\* the subscriber: drops blocks flagged obsolete, appends the others
RECURSIVE Apply(_, _)
Apply(held, out) ==
  IF out = <<>> THEN held
  ELSE LET x == Head(out) IN
       Apply(IF x.obs THEN SelectSeq(held, LAMBDA y : y # x.b) ELSE Append(held, x.b), Tail(out))

-----------------------------------------------------------------------------
(* ---- actions -------------------------------------------------------------- *)
GenesisRec(ts) == [parent |-> NoBlock, num |-> 0, conflicts |-> 0, txs |-> <<>>, revs |-> <<>>, sers |-> <<>>,
                   ts |-> ts, clean |-> TRUE]

InitWith(g, ts, info) ==
  /\ blocks = (g :> GenesisRec(ts))
  /\ idx = (<<0, 0>> :> <<g>>)
  /\ txi = {}
  /\ filter = {}
  /\ heads = {g}
  /\ best = g
  /\ txinfo = info
  /\ rd = <<>>
  /\ anc = (g :> <<g>>)

\* Repository.AddBlock(b, receipts, conflicts, asBest): indexBlock from the parent's index root, then saveBlock
Store(b, p, conf, txs, revs, sers, ts, asBest) ==
  LET n == Num(p) + 1
      ver == <<n, conf>>
  IN /\ b \notin Known /\ p \in Known
     /\ blocks' = blocks @@ (b :> [parent |-> p, num |-> n, conflicts |-> conf, txs |-> txs, revs |-> revs,
                                   sers |-> sers, ts |-> ts,
                                   clean |-> blocks[p].clean /\ Admissible(p, txs, revs)])
     /\ idx' = [v \in DOMAIN idx \cup {ver} |-> IF v = ver THEN Append(idx[Ver(p)], b) ELSE idx[v]]
     \* one entry per key id||num||conflicts: a tx packed twice in the block leaves the entry of its last position
     /\ txi' = txi \cup {[t |-> txs[i], num |-> n, conflicts |-> conf, index |-> i - 1, rev |-> revs[i]] :
                           i \in {k \in DOMAIN txs : \A j \in DOMAIN txs : j > k => txs[j] # txs[k]}}
     /\ filter' = filter \cup {txinfo[txs[i]].pfx : i \in DOMAIN txs}
     /\ heads' = (heads \ {p}) \cup {b}
     /\ best' = IF asBest THEN b ELSE best
     /\ anc' = anc @@ (b :> Append(anc[p], b))
     /\ UNCHANGED <<txinfo, rd>>

\* consensus admission: a block is accepted only if every tx passes the admission rules against the parent chain
AcceptBlock(b, p, conf, txs, revs, sers, ts, asBest) ==
  /\ p \in Known /\ Admissible(p, txs, revs)
  /\ Store(b, p, conf, txs, revs, sers, ts, asBest)

\* a subscriber that holds the chain of a known block p opens a reader at p
StartReader(r, p) ==
  /\ r \notin DOMAIN rd /\ p \in Known
  /\ rd' = rd @@ (r :> [pos |-> p, held |-> ChainSeq(p)])
  /\ UNCHANGED <<blocks, idx, txi, filter, heads, best, txinfo, anc>>

\* a connected subscription reads until quiescent; the subscriber applies everything
Drain(r) ==
  /\ r \in DOMAIN rd
  /\ rd' = [rd EXCEPT ![r] = [pos |-> best, held |-> Apply(rd[r].held, DrainOut(rd[r].pos, best))]]
  /\ UNCHANGED <<blocks, idx, txi, filter, heads, best, txinfo, anc>>

\* one Read() and the subscriber applying its result
Read(r) ==
  /\ r \in DOMAIN rd
  /\ LET res == ReadStep(rd[r].pos, best)
     IN rd' = [rd EXCEPT ![r] = [pos |-> res[2], held |-> Apply(rd[r].held, res[1])]]
  /\ UNCHANGED <<blocks, idx, txi, filter, heads, best, txinfo, anc>>

-----------------------------------------------------------------------------
(* ---- properties ----------------------------------------------------------- *)
\* which heads the invariants quantify over (all known blocks; trace configurations may narrow it)
CheckHeads == Known

AncIsParentWalk == \A b \in Known : anc[b] = ParentWalk(b)

(* C14 *)
ByNumberIsAncestor ==
  \A h \in CheckHeads : /\ \A n \in 0..(Num(h) + 1) : GetBlockID(h, n) = AncAt(h, n)
                        /\ \A b \in Known : HasBlock(h, b) <=> b \in ChainSet(h)
ExcludeIsDifference ==
  \A a \in CheckHeads : \A o \in CheckHeads :
     LET co == ChainSet(o) IN Exclude(a, o) = SelectSeq(ChainSeq(a), LAMBDA x : x \notin co)
TxBelongsToHeadChain ==
  \A h \in CheckHeads : \A t \in DOMAIN txinfo : \A e \in TxMetaSet(h, t) :
     LET b == AncAt(h, e.num) IN
     /\ b # NoBlock /\ blocks[b].conflicts = e.conflicts /\ ByVer(<<e.num, e.conflicts>>) = b
     /\ e.index + 1 \in DOMAIN blocks[b].txs
     /\ blocks[b].txs[e.index + 1] = t /\ blocks[b].revs[e.index + 1] = e.rev
HeadsAreLeaves == heads = Known \ {blocks[c].parent : c \in Known}
VersionsUnique == Cardinality({Ver(b) : b \in Known}) = Cardinality(Known)
\* the subscriber always holds the chain of the reader's position; hence at quiescence (position = best) it holds
\* exactly the canonical chain
ReaderTracks == \A r \in DOMAIN rd : rd[r].held = ChainSeq(rd[r].pos)
ReaderConverges == \A r \in DOMAIN rd : ReadStep(rd[r].pos, best)[1] = <<>> => rd[r].held = ChainSeq(best)
\* every non-empty Read brings the reader onto the canonical chain: all blocks above the fork point are flagged
\* obsolete (highest first), then exactly one block past the fork point follows - unless the fork point is best itself
ReadLands ==
  \A r \in DOMAIN rd :
     LET p == rd[r].pos
         res == ReadStep(p, best)
         fork == CHOOSE n \in 0..Num(p) :
                    /\ AncAt(p, n) = AncAt(best, n)
                    /\ \A m \in (n + 1)..Num(p) : AncAt(p, m) # AncAt(best, m)
         nobs == Num(p) - fork
     IN p # best =>
          /\ res[2] \in Known
          /\ res[2] = (IF fork = Num(best) THEN best ELSE AncAt(best, fork + 1))
          /\ Len(res[1]) = nobs + (IF fork = Num(best) THEN 0 ELSE 1)
          /\ \A i \in 1..nobs : res[1][i] = [b |-> AncAt(p, Num(p) - i + 1), obs |-> TRUE]
          /\ (fork # Num(best) => res[1][nobs + 1] = [b |-> res[2], obs |-> FALSE])
\* a drained subscription holds the canonical chain
DrainConverges == \A r \in DOMAIN rd : Apply(rd[r].held, DrainOut(rd[r].pos, best)) = ChainSeq(best)

\* Lookups are a function of the stored chain only: a step that stores nothing (a read, a new reader - and, in the
\* implementation, a lookup itself) never changes the answer of any later lookup.  A cache of answers, negative ones
\* included, must therefore be invalidated by every store; the design has none.
LookupStable ==
  [][UNCHANGED <<blocks, idx, txi, filter, txinfo>> =>
       \A h \in Known : \A t \in DOMAIN txinfo : HasTx(h, t)' = HasTx(h, t) /\ TxMeta(h, t)' = TxMeta(h, t)]_vars

(* C09: on chains all of whose blocks passed admission *)
CleanHeads == {h \in CheckHeads : blocks[h].clean}
NoDupOnChain == \A h \in CleanHeads : LET pos == PosOn(h) IN
                  \A t \in DOMAIN txinfo : Cardinality({x \in pos : blocks[x[1]].txs[x[2]] = t}) <= 1
WindowOk == \A h \in CleanHeads : \A b \in ChainSet(h) : \A i \in DOMAIN blocks[b].txs :
              LET f == txinfo[blocks[b].txs[i]] IN f.tagok /\ InWindow(f, Num(b))
DepsOk == \A h \in CleanHeads : \A b \in ChainSet(h) : \A i \in DOMAIN blocks[b].txs :
            LET d == txinfo[blocks[b].txs[i]].dep IN
            d # NoTx => \E x \in Incl(h, d) :
                          /\ (Num(x[1]) < Num(b) \/ (x[1] = b /\ x[2] < i))
                          /\ ~blocks[x[1]].revs[x[2]]
LookupAgrees == \A h \in CleanHeads : LET on == UNION {Range(blocks[b].txs) : b \in ChainSet(h)} IN
                  \A t \in DOMAIN txinfo : /\ HasTx(h, t) = (t \in on)
                                            /\ (TxMeta(h, t) # NoEntry) = (t \in on)
                                            /\ (TxMeta(h, t) # NoEntry => TxMeta(h, t) \in TxMetaSet(h, t))
=============================================================================
