SPECIFICATION Spec
CONSTANTS
  MaxBest = 4
  RegisterBeforeRead = FALSE
INVARIANT QuiescentDelivered
PROPERTY EventuallyOnBest
CHECK_DEADLOCK FALSE
