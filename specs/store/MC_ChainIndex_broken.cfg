SPECIFICATION MCSpec
CONSTANTS
  RECENT = 3
  NoBlock = NoBlock
  NoTx = NoTx
  VarBase = 2
  PoolRefAhead = 2
  BeyondHeadStops = FALSE
  MaxNew = 4
  MaxSib = 3
  MaxHeight = 4
  Readers = {r1, r2}
  TxSet = {}
  MaxTxPerBlock = 0
  MayRevert = {}
  CheckAdmission = FALSE
  BestChoices = {TRUE, FALSE}
  ChildOfBestIsBest = FALSE
  UseConflicts = FALSE
  TxTable <- TxTable0
SYMMETRY ReaderSym
INVARIANT AncIsParentWalk
INVARIANT ByNumberIsAncestor
INVARIANT ExcludeIsDifference
INVARIANT HeadsAreLeaves
INVARIANT ReaderTracks
INVARIANT ReaderConverges
INVARIANT ReadLands
INVARIANT DrainConverges
CHECK_DEADLOCK FALSE
