SPECIFICATION MCSpec
CONSTANTS
  RECENT = 3
  NoBlock = NoBlock
  NoTx = NoTx
  VarBase = 2
  PoolRefAhead = 2
  BeyondHeadStops = FALSE
  MaxNew = 6
  MaxSib = 3
  MaxHeight = 6
  Readers = {}
  TxSet = {1, 2}
  MaxTxPerBlock = 1
  MayRevert = {1}
  CheckAdmission = FALSE
  BestChoices = {TRUE}
  ChildOfBestIsBest = FALSE
  UseConflicts = TRUE
  TxTable <- TxTable3
INVARIANT AncIsParentWalk
INVARIANT ByNumberIsAncestor
INVARIANT TxBelongsToHeadChain
INVARIANT VersionsUnique
INVARIANT NoDupOnChain
INVARIANT WindowOk
INVARIANT DepsOk
INVARIANT LookupAgrees
CHECK_DEADLOCK FALSE
