---------------------------- MODULE Trace_ChainIndex ----------------------------
(* Trace specification for C14 / C09: validates event traces recorded from the REAL chain.Repository / Chain /
   BlockReader (harness/cmd/chainindex) and from the real consensus + packer + node import path
   (harness/cmd/txwindow) against ChainIndex.tla.

   The trace supplies only facts the design leaves open: identity of blocks (name, parent, timestamp, the txs packed,
   which of them reverted, the serial number the driver put into each receipt) and of transactions (tag ok?, block
   ref, expiration, dependency, 8-byte id prefix).  Everything the design determines is recomputed from the block
   tree and must equal what the implementation answered:
     Add      ScanConflicts (the ordinal passed to AddBlock), best pointer, ScanHeads(0), GetConflicts(height)
     ByNum    NewChain(h).GetBlockID(n) for every n in 0..num(h)+1
     HasBlk   NewChain(h).HasBlock(b) for every known b
     Excl     NewChain(a).Exclude(NewChain(o)) for every known o (ordered)
     Ts       NewChain(h).FindBlockHeaderByTimestamp
     Heads    ScanHeads(from)
     Lookup   HasTransaction / GetTransactionMeta / GetTransaction / GetTransactionReceipt from head h
     RStart, Read   NewBlockReader(pos).Read() results and the chain a naive subscriber holds afterwards
     SubStart, SubDrain   the messages (block id, obsolete flag, tx) real websocket subscriptions of api/subscriptions
              (block, beat, beat2, transfer, event; one Subscriptions handler, shared message caches) delivered until
              quiet, and what a subscriber dropping obsolete messages holds afterwards
     Process  verdict of consensus (Node.Deliver / Consensus.Process) on a block that is valid except possibly for
              the tx admission rules;   Adopt   verdict of packer flow.Adopt
   All invariants of ChainIndex are evaluated after every event.  Several runs are concatenated; Reset starts one. *)
EXTENDS ChainIndex, TraceLib

Trace == LoadTrace("trace.ndjson")

VARIABLE l
tvars == <<blocks, idx, txi, filter, heads, best, txinfo, rd, anc, l>>
Ev == Trace[l]
SeqSet(s) == {s[i] : i \in DOMAIN s}

ResetEv ==
  /\ Ev.e = "Reset"
  /\ blocks' = (Ev.g :> GenesisRec(Ev.ts))
  /\ idx' = (<<0, 0>> :> <<Ev.g>>)
  /\ txi' = {} /\ filter' = {} /\ heads' = {Ev.g} /\ best' = Ev.g
  /\ txinfo' = <<>> /\ rd' = <<>>
  /\ anc' = (Ev.g :> <<Ev.g>>)

Init == /\ HWMInit /\ Len(Trace) >= 1 /\ Trace[1].e = "Reset"
        /\ InitWith(Trace[1].g, Trace[1].ts, <<>>)
        /\ l = 2

TxEv ==
  /\ Ev.e = "Tx"
  /\ Ev.t \notin DOMAIN txinfo
  /\ Ev.ref >= 0 /\ Ev.exp >= 0
  /\ txinfo' = txinfo @@ (Ev.t :> [tagok |-> Ev.tagok, ref |-> Ev.ref, exp |-> Ev.exp, dep |-> Ev.dep, pfx |-> Ev.pfx])
  /\ UNCHANGED <<blocks, idx, txi, filter, heads, best, rd, anc>>

\* Repository.AddBlock(b, receipts, conflicts, asBest)
AddEv ==
  /\ Ev.e = "Add"
  /\ Ev.p \in Known /\ Ev.num = Num(Ev.p) + 1
  /\ Ev.ts > blocks[Ev.p].ts
  /\ \A i \in DOMAIN Ev.txs : Ev.txs[i] \in DOMAIN txinfo
  /\ Len(Ev.revs) = Len(Ev.txs) /\ Len(Ev.sers) = Len(Ev.txs)
  /\ Ev.conflicts = ScanConflicts(Ev.num)                       \* what Repository.ScanConflicts answered
  /\ Store(Ev.b, Ev.p, Ev.conflicts, Ev.txs, Ev.revs, Ev.sers, Ev.ts, Ev.asbest)
  /\ Ev.best = best'                                             \* BestBlockSummary afterwards
  /\ SeqSet(Ev.heads) = heads' /\ Len(Ev.heads) = Cardinality(heads')
  /\ \A i \in 1..(Len(Ev.heads) - 1) : blocks'[Ev.heads[i]].num >= blocks'[Ev.heads[i + 1]].num   \* descending
  /\ SeqSet(Ev.confl) = GetConflicts(Ev.num) \cup {Ev.b} /\ Len(Ev.confl) = ScanConflicts(Ev.num) + 1

Query(name) == /\ Ev.e = name /\ UNCHANGED <<blocks, idx, txi, filter, heads, best, txinfo, rd, anc>>

ByNumEv ==
  /\ Query("ByNum") /\ Ev.h \in Known
  /\ Len(Ev.ids) = Num(Ev.h) + 2
  /\ \A n \in 0..(Num(Ev.h) + 1) : Ev.ids[n + 1] = GetBlockID(Ev.h, n)

HasBlkEv ==
  /\ Query("HasBlk") /\ Ev.h \in Known
  /\ SeqSet(Ev.yes) = {b \in Known : HasBlock(Ev.h, b)}

ExclEv ==
  /\ Query("Excl") /\ Ev.a \in Known
  /\ \A i \in DOMAIN Ev.out : Ev.out[i].o \in Known /\ Ev.out[i].ids = Exclude(Ev.a, Ev.out[i].o)

TsEv ==
  /\ Query("Ts") /\ Ev.h \in Known
  /\ \A i \in DOMAIN Ev.q : Ev.q[i].r = FindByTs(Ev.h, Ev.q[i].ts, Ev.q[i].flag)

HeadsEv ==
  /\ Query("Heads")
  /\ SeqSet(Ev.ids) = ScanHeads(Ev.from) /\ Len(Ev.ids) = Cardinality(ScanHeads(Ev.from))
  /\ \A i \in 1..(Len(Ev.ids) - 1) : Num(Ev.ids[i]) >= Num(Ev.ids[i + 1])

\* one transaction looked up from head h through every by-id entry point
LookupOk(h, q) ==
  /\ q.t \in DOMAIN txinfo
  /\ q.has = HasTx(h, q.t)
  /\ q.found = (TxMeta(h, q.t) # NoEntry)
  /\ q.found => LET e == TxMeta(h, q.t) IN     \* the first entry in key order that is on the head's chain
        /\ e.num = q.num /\ e.conflicts = q.conflicts /\ e.index = q.idx /\ e.rev = q.rev
        /\ LET b == ByVer(<<e.num, e.conflicts>>) IN
           /\ q.gt = blocks[b].txs[e.index + 1]          \* GetTransaction returned this tx
           /\ q.gt = q.t
           /\ q.rrev = blocks[b].revs[e.index + 1]       \* GetTransactionReceipt returned this receipt
           /\ q.ser = blocks[b].sers[e.index + 1]
LookupEv ==
  /\ Query("Lookup") /\ Ev.h \in Known
  /\ \A i \in DOMAIN Ev.q : LookupOk(Ev.h, Ev.q[i])

RStartEv ==
  /\ Ev.e = "RStart"
  /\ StartReader(Ev.r, Ev.pos)
  /\ Ev.held = rd'[Ev.r].held

ReadEv ==
  /\ Ev.e = "Read" /\ Ev.r \in DOMAIN rd
  /\ Ev.out = ReadStep(rd[Ev.r].pos, best)[1]
  /\ Read(Ev.r)
  /\ Ev.held = rd'[Ev.r].held

\* ---- api/subscriptions over the same repository (real HTTP/websocket handlers, shared message caches) --------
\* a websocket subscription of kind block | beat | beat2 | transfer | event was opened at ?pos=
SubStartEv ==
  /\ Ev.e = "SubStart"
  /\ Num(Ev.pos) <= Num(best)                  \* (the handler refuses positions above best: uint32 distance check)
  /\ StartReader(Ev.r, Ev.pos)
  /\ Ev.held = rd'[Ev.r].held

\* the logs (one transfer and one event per tx) of a sequence of blocks, and of a stream of block messages
RECURSIVE LogsOf(_)
LogsOf(seq) == IF seq = <<>> THEN <<>>
               ELSE [i \in DOMAIN blocks[Head(seq)].txs |-> [b |-> Head(seq), t |-> blocks[Head(seq)].txs[i]]] \o LogsOf(Tail(seq))
RECURSIVE ExpandTx(_)
ExpandTx(out) == IF out = <<>> THEN <<>>
                 ELSE [i \in DOMAIN blocks[Head(out).b].txs |->
                          [b |-> Head(out).b, obs |-> Head(out).obs, t |-> blocks[Head(out).b].txs[i]]] \o ExpandTx(Tail(out))

\* everything the subscription delivered until it went quiet (no AddBlock in between), applied by the subscriber
SubDrainEv ==
  /\ Ev.e = "SubDrain" /\ Ev.r \in DOMAIN rd
  /\ LET out == DrainOut(rd[Ev.r].pos, best) IN
     IF Ev.kind \in {"block", "beat", "beat2"}
     THEN /\ Ev.out = out                                       \* ids and obsolete flags of the messages, in order
          /\ Ev.held = Apply(rd[Ev.r].held, out)
     ELSE /\ Ev.out = ExpandTx(out)                             \* one message per tx of each streamed block
          /\ Ev.held = LogsOf(Apply(rd[Ev.r].held, out))        \* the logs the subscriber holds
  /\ Drain(Ev.r)

\* a block that is valid except possibly for the admission of its transactions was given to consensus
ProcessEv ==
  /\ Query("Process") /\ Ev.p \in Known
  /\ \A i \in DOMAIN Ev.txs : Ev.txs[i] \in DOMAIN txinfo
  /\ Ev.ok = Admissible(Ev.p, Ev.txs, Ev.revs)
  /\ (~Ev.ok => Ev.same)                          \* a refused block leaves the store untouched

\* flow.Adopt(t) on a flow over parent p that has already adopted `prior`
AdoptEv ==
  /\ Query("Adopt") /\ Ev.p \in Known /\ Ev.t \in DOMAIN txinfo
  /\ LET c == AdmitClass(Ev.p, Append(Ev.prior, Ev.t), Append(Ev.priorrevs, FALSE), Len(Ev.prior) + 1) IN
     /\ Ev.ok = (c = "ok")
     /\ Ev.cls = c             \* the error class decides whether the pool keeps or drops the tx

\* TxObject.Evaluate (the pool's admission rule) for tx t against head h
PoolEv ==
  /\ Query("Pool") /\ Ev.h \in Known /\ Ev.t \in DOMAIN txinfo
  /\ Ev.cls = PoolClass(Ev.h, Ev.t)

\* the store was closed and opened again (fresh MuxDB, fresh Repository over the same key-value engine)
ReopenEv ==
  /\ Query("Reopen")
  /\ Ev.best = best /\ Ev.g \in Known /\ Num(Ev.g) = 0
  /\ SeqSet(Ev.heads) = heads /\ Len(Ev.heads) = Cardinality(heads)
  /\ \A i \in 1..(Len(Ev.heads) - 1) : Num(Ev.heads[i]) >= Num(Ev.heads[i + 1])
  /\ \A b \in Known : Num(b) <= Ev.maxnum
  /\ \E b \in Known : Num(b) = Ev.maxnum              \* GetMaxBlockNum

ConflEv ==
  /\ Query("Confl")
  /\ \A i \in DOMAIN Ev.q : /\ SeqSet(Ev.q[i].ids) = GetConflicts(Ev.q[i].n)
                             /\ Len(Ev.q[i].ids) = ScanConflicts(Ev.q[i].n)
                             /\ Ev.q[i].count = ScanConflicts(Ev.q[i].n)

\* keys written straight into chain.txi through the key-value store: an 8-byte filter key, and an index entry of a
\* FOREIGN id (never a transaction of any block) that shares those 8 bytes
PlantEv ==
  /\ Ev.e = "Plant"
  /\ Ev.x \notin DOMAIN txinfo
  /\ filter' = filter \cup {Ev.pfx}
  /\ txi' = txi \cup {[t |-> Ev.x, num |-> Ev.num, conflicts |-> Ev.conflicts, index |-> 0, rev |-> FALSE]}
  /\ UNCHANGED <<blocks, idx, heads, best, txinfo, rd, anc>>

Next == /\ l <= Len(Trace) /\ l' = l + 1
        /\ (ResetEv \/ TxEv \/ AddEv \/ ByNumEv \/ HasBlkEv \/ ExclEv \/ TsEv \/ HeadsEv \/ LookupEv
            \/ RStartEv \/ ReadEv \/ SubStartEv \/ SubDrainEv \/ ProcessEv \/ AdoptEv \/ PoolEv
            \/ ReopenEv \/ ConflEv \/ PlantEv)
Spec == Init /\ [][Next]_tvars

\* invariants quantify over every known block while the tree is small; afterwards over best, the block just stored and
\* the blocks stored earlier at its height (the ones whose index versions and tx entries it could collide with)
TraceCheckHeads ==
  IF Cardinality(Known) <= 20 THEN Known
  ELSE {best} \cup (IF l > 1 /\ Trace[l - 1].e = "Add" THEN GetConflicts(Trace[l - 1].num) ELSE {})

\* the store changes only in Add (and Reset); its invariants need no re-evaluation after a query or a read
StoreChanged == l > 1 /\ Trace[l - 1].e \in {"Add", "Reset", "Plant"}
T_ByNumberIsAncestor == StoreChanged => ByNumberIsAncestor
T_ExcludeIsDifference == StoreChanged => ExcludeIsDifference
T_TxBelongsToHeadChain == StoreChanged => TxBelongsToHeadChain
T_HeadsAreLeaves == StoreChanged => HeadsAreLeaves
T_VersionsUnique == StoreChanged => VersionsUnique
T_NoDupOnChain == StoreChanged => NoDupOnChain
T_WindowOk == StoreChanged => WindowOk
T_DepsOk == StoreChanged => DepsOk
T_LookupAgrees == StoreChanged => LookupAgrees

\* used only by the binding demonstration (Trace_ChainIndex_demo.cfg): false as soon as the recorded tree forks, so that
\* the path "invariant violated on a recorded trace -> located -> signature invariant:<name>" is exercised on every run
DemoNoFork == \A b \in Known : blocks[b].conflicts = 0

Progress == HWM(l)
TraceAccepted == Accepted(Len(Trace))
=============================================================================
