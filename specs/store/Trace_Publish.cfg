SPECIFICATION TSpec
CONSTANTS
  Par <- TrPar
  Num <- TrNum
  E <- TrE
  Readers <- TrReaders
  Order <- TrOrder
  NoBlock = "none"
  CheckAccepts = TRUE
  SimCommits = FALSE
  WithNext = TRUE
  NextTwoLoads = FALSE
INVARIANT TraceVisible
INVARIANT TraceFinMonotone
INVARIANT NextIsOneSnapshot
INVARIANT TracePublished
INVARIANT NoQueryWrites
CONSTRAINT Progress
POSTCONDITION TraceAccepted
CHECK_DEADLOCK FALSE
