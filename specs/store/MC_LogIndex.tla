---------------------------- MODULE MC_LogIndex ----------------------------
(* Model-checking instance of LogIndex.tla (C15).

   A block IS its path from genesis: a sequence of "log signatures" (small ids), one per height.  The receipts of a
   block are a function of its last signature and its height:
        0  no transaction at all (a block without logs)
        1  one tx, one clause: one event (topic with leading zeros) and one transfer
        2  one tx, TWO clauses: clause 0 = one event, clause 1 = one event (all-zero topic) + one transfer
           (clause index > 0, block-wide log index 1 inside tx 0)
        3  three txs: tx 0 has an empty receipt (reverted), tx 1 = one event + one transfer, tx 2 = two events (no topic /
           five topics) + one transfer (first log of the block at txIndex 1: HasBlockID does not see the block; the log
           index continues block-wide across transactions)
   Two siblings with different signatures therefore carry DIFFERENT rows at EQUAL keys (n, 0, 0), and signatures 1/2
   use the SAME tx id at the same height (the same transaction included by both branches: rows differ only in block id,
   clause and content).  Fork choice: the longer chain wins, a tie is won by the smaller id (LessPath, a fixed total
   order - thor: total score, then smaller id); with FreeChoice = TRUE every imported block may or may not become
   best (covers every fork-choice rule, e.g. the quality rule of the finality engine).                           *)
EXTENDS LogIndex

CONSTANTS Sigs,         \* signatures, e.g. 0..3
          MaxHeight,    \* longest path
          MaxBlocks,    \* stored blocks besides genesis
          MaxReorg,     \* longest old branch a best-switch may abandon
          MaxCrashes,   \* crashes between the log transaction and the block store
          MaxDowns,     \* other stops of the process (shutdown, kill between imports)
          MaxSkips,     \* blocks imported while the node runs with --skip-logs
          FreeChoice    \* BOOLEAN

VARIABLES crashes, downs, skips
mcvars == <<vars, crashes, downs, skips>>

MCGenesis == <<>>
MCPar(b) == SubSeq(b, 1, Len(b) - 1)
MCNum(b) == Len(b)
Sig(b) == b[Len(b)]
MCTime(b) == 10 * Len(b) + (IF Len(b) = 0 THEN 0 ELSE Sig(b))      \* strictly increasing along a chain (Sigs < 10)

\* two-byte topics: all-zero, leading zero, no leading zero
TZ == <<0, 0>>
TL(h) == <<0, h>>
TF(h) == <<7, h>>
Event(a, tp, d) == [a |-> a, tp |-> tp, d |-> d]
Xfer(s, r, v) == [s |-> s, r |-> r, v |-> v]
Out(ev, tr) == [ev |-> ev, tr |-> tr]
Tx(id, o, outs) == [id |-> id, origin |-> o, outs |-> outs]
MCTxs(b) ==
  IF Len(b) = 0 THEN <<Tx(<<"z", 0>>, "zero", <<Out(<<Event("c0", <<TF(0)>>, <<0, 0>>)>>, <<Xfer("zero", "u1", <<0, 0>>)>>)>>)>>
  ELSE LET h == Len(b) IN
    CASE Sig(b) = 0 -> <<>>
      [] Sig(b) = 1 -> <<Tx(<<"t", h>>, "u1", <<Out(<<Event("c1", <<TF(h), TL(h)>>, <<1, h>>)>>, <<Xfer("u1", "c1", <<1, h>>)>>)>>)>>
      [] Sig(b) = 2 -> <<Tx(<<"t", h>>, "u1", <<Out(<<Event("c2", <<TF(h)>>, <<2, h>>)>>, <<>>),
                                                 Out(<<Event("c1", <<TZ, TL(h)>>, <<2, h>>)>>, <<Xfer("u1", "u2", <<2, h>>)>>)>>)>>
      [] OTHER      -> <<Tx(<<"r", h>>, "u2", <<>>),
                         Tx(<<"s", h>>, "u2", <<Out(<<Event("c2", <<TF(h)>>, <<3, h>>)>>, <<Xfer("u2", "c1", <<3, h>>)>>)>>),
                         Tx(<<"q", h>>, "u1", <<Out(<<Event("c1", <<>>, <<3, h>>), Event("c2", <<TL(h), TZ, TF(h), TL(h), TZ>>, <<3, h>>)>>,
                                                     <<Xfer("u2", "c2", <<3, h>>)>>)>>)>>

RECURSIVE LessPath(_, _)
LessPath(a, b) == IF a = <<>> THEN b # <<>>
                  ELSE IF b = <<>> THEN FALSE
                  ELSE a[1] < b[1] \/ (a[1] = b[1] /\ LessPath(Tail(a), Tail(b)))
Better(b, cur) == Len(b) > Len(cur) \/ (Len(b) = Len(cur) /\ LessPath(b, cur))

Candidates == {Append(p, s) : p \in {x \in stored : Len(x) < MaxHeight}, s \in Sigs} \ stored
Room == Cardinality(stored) <= MaxBlocks          \* genesis + MaxBlocks
ReorgOK(b) == Len(Exclude(best, MCPar(b))) <= MaxReorg
Becomes(b) == IF FreeChoice THEN TRUE ELSE Better(b, best)
Stays(b) == IF FreeChoice THEN TRUE ELSE ~Better(b, best)

MCInit == Init /\ crashes = 0 /\ downs = 0 /\ skips = 0
MCNext == \/ \E b \in Candidates : /\ Room
                                   /\ \/ (Becomes(b) /\ ReorgOK(b) /\ ImportBest(b))
                                      \/ (Stays(b) /\ ImportSide(b))
                                   /\ UNCHANGED <<crashes, downs, skips>>
          \/ \E b \in Candidates : /\ Room /\ crashes < MaxCrashes /\ Becomes(b) /\ ReorgOK(b) /\ CrashMid(b)
                                   /\ crashes' = crashes + 1 /\ UNCHANGED <<downs, skips>>
          \/ (downs < MaxDowns /\ Crash /\ downs' = downs + 1 /\ UNCHANGED <<crashes, skips>>)
          \* the operator runs the node with --skip-logs for a while: blocks (and reorganisations) the log db never sees
          \/ (skips < MaxSkips /\ StartSkipLogs /\ UNCHANGED <<crashes, downs, skips>>)
          \/ \E b \in Candidates : /\ Room /\ skips < MaxSkips
                                   /\ \/ (Becomes(b) /\ ReorgOK(b) /\ ImportSkipLogs(b, TRUE))
                                      \/ (Stays(b) /\ ImportSkipLogs(b, FALSE))
                                   /\ skips' = skips + 1 /\ UNCHANGED <<crashes, downs>>
          \* start-up with logs: resynchronisation - complete, or cancelled after any block and repeated at the next start
          \/ (Resync /\ UNCHANGED <<crashes, downs, skips>>)    \* also on a running consistent node (idempotence)
          \/ \E j \in 1..MaxHeight : (ResyncCancelled(j) /\ UNCHANGED <<crashes, downs, skips>>)
MCSpec == MCInit /\ [][MCNext]_mcvars

\* ---- invariants
TypeOK == /\ best \in stored /\ <<>> \in stored
          /\ \A b \in stored : Len(b) > 0 => MCPar(b) \in stored
\* the filter over the tables returns the matching subsequence of the canonical list, for a family of queries
Addrs == {Nil, "c1", "c2", "c9"}
QTopics == {NoTopic, TZ, TL(1), TF(1), TF(2)}
EvCrits == {[a |-> a, tp |-> <<t1, t2, NoTopic, NoTopic, t5>>] : a \in Addrs, t1 \in QTopics, t2 \in {NoTopic, TZ, TL(1)}, t5 \in {NoTopic, TZ}}
TrCrits == {[o |-> o, s |-> s, r |-> r] : o \in {Nil, "u1"}, s \in {Nil, "u2"}, r \in {Nil, "c1", "c2"}}
Ranges == {<<>>, <<0, 0>>, <<1, 2>>, <<2, 1>>, <<2, MaxBlockNumber>>, <<9, 9>>}
Opts == {<<>>, <<0, 0>>, <<0, 1>>, <<1, 2>>, <<1, 2000000000>>, <<2000000000, 1>>}
Orders == {"asc", "desc"}
\* one criterion and pairs of criteria (OR), all ranges, orders and pages
QueriesOK(kind, R, crits) ==
  LET list == CanonicalList(best, kind) IN
  \A rg \in Ranges, od \in Orders, op \in Opts :
     /\ \A c \in crits : FilterRows(R, kind, <<c>>, rg, od, op) = ListFilter(list, kind, <<c>>, rg, od, op)
     /\ FilterRows(R, kind, <<>>, rg, od, op) = ListFilter(list, kind, <<>>, rg, od, op)
PairsOK(kind, R, crits) ==
  LET list == CanonicalList(best, kind) IN
  \A c1 \in crits, c2 \in crits :
     FilterRows(R, kind, <<c1, c2>>, <<>>, "desc", <<1, 3>>) = ListFilter(list, kind, <<c1, c2>>, <<>>, "desc", <<1, 3>>)
FilterEqualsListFilter == (up /\ logging) => /\ QueriesOK("E", evRows, EvCrits) /\ QueriesOK("T", trRows, TrCrits)
                                /\ PairsOK("T", trRows, TrCrits)
\* cheaper variant for the large configurations
FilterEqualsListFilterSmall ==
  (up /\ logging) => /\ QueriesOK("E", evRows, {c \in EvCrits : c.tp[2] = NoTopic /\ c.tp[5] = NoTopic})
        /\ QueriesOK("T", trRows, {c \in TrCrits : c.o = Nil})

\* vacuity probes (each must be VIOLATED)
NoDeepReorg == [][\A b \in Candidates : ~(ImportBest(b) /\ Len(Exclude(best, MCPar(b))) >= 3 /\ Len(Exclude(MCPar(b), best)) >= 2)]_mcvars
NoResyncRepair == [][~(Resync /\ ~up /\ (evRows' # evRows \/ trRows' # trRows))]_mcvars
\* a resynchronisation that has to walk below a stale branch of the log db (the log db's newest block is not canonical)
NoCatchUpOverStaleBranch == [][~(Resync /\ ~up /\ ~logging /\ NewestIDs(evRows, trRows) # {}
                                 /\ Newest(evRows, trRows) \notin ChainSet(best) /\ Len(best) >= 2)]_mcvars
NoCancelledResync == [][~(\E j \in 1..MaxHeight : ResyncCancelled(j) /\ j < Len(best))]_mcvars
=============================================================================
