---- MODULE Trace_Ledger ----
(* Trace specification for C08.  One Block event per block of a real chain (cmd/ledger): totals of EVERY account-trie
   leaf before and after the block (VET; VTHO evaluated at the new block's time, so growth cancels), the receipts with the
   fee fields of their transactions, the header and the parent header.  Everything the rules determine is recomputed:
     postVET + burnVET = preVET
     postVTHO + sum(paid) + burnVTHO = preVTHO + sum(reward) + issued
     per receipt: paid = gasUsed * EffPrice, EffPrice >= base fee, reward by the pre/post GALACTICA rule
     issued = StakingReward(curve, locked stake) when proof of stake is active, else 0
     header: gas used = sum of receipts <= gas limit; base fee absent before GALACTICA, = floor at the fork block,
             = NextBaseFee(parent gas limit, parent gas used, parent base fee) after it, |delta| <= parent/8, >= floor;
             the parent fields must be the ones recorded when the parent itself was observed (H), so the base fee is a
             function of the parent header alone (siblings on one parent get the same value).
   burnVET / burnVTHO are the amounts of self-destructs whose beneficiary is the destructed contract itself, read from
   the receipts (a Transfer whose sender = recipient = an account that no longer exists): known deviation F3, reported by
   the check under its own signature; any other drift of the totals fails the equations here.                      *)
EXTENDS LedgerRules, TraceLib, FiniteSets

Trace == LoadTrace("trace.ndjson")
VARIABLES l, H, G           \* H: block id -> header fields; G: GALACTICA height of the current run (-1 never)
Ev == Trace[l]

HdrOf(h) == [gasLimit |-> h.gasLimit, gasUsed |-> h.gasUsed, hasBase |-> h.hasBase, baseFee |-> h.baseFee]

ReceiptOK(r) ==
  LET f == r.fee
  IN /\ PriceOK(f)
     /\ r.paid = Paid(f, r.gasUsed)
     /\ r.reward = Reward(f, r.gasUsed)

DefaultCurve == FromInt(76800)

BlockOK(ev) ==
  LET rs == ev.rcpts
      par == ev.par
      hdr == ev.hdr
      gal == G >= 0 /\ ev.num >= G
      curve == IF Len(ev.curve) = 0 THEN DefaultCurve ELSE ev.curve
      issue == IF ev.pos THEN StakingReward(curve, ev.staked) ELSE Zero
  IN /\ ev.parent \in DOMAIN H /\ HdrOf(par) = H[ev.parent]
     \* conservation
     /\ Add(ev.postVET, ev.burnVET) = Norm(ev.preVET)
     /\ ev.issued = issue
     /\ VTHOEquation(ev.preVTHO, Add(ev.postVTHO, ev.burnVTHO), rs, ev.issued)
     \* receipts
     /\ \A i \in 1..Len(rs) : ReceiptOK(rs[i]) /\ rs[i].fee.gal = gal
                              /\ rs[i].fee.baseFee = hdr.baseFee
     /\ hdr.gasUsed = SumGas(rs, 1) /\ hdr.gasUsed <= hdr.gasLimit
     \* base fee
     /\ hdr.hasBase = gal
     /\ IF ~gal THEN Len(hdr.baseFee) = 0
        ELSE IF ev.num = G THEN hdr.baseFee = BaseFeeFloor
        ELSE /\ par.hasBase
             /\ hdr.baseFee = NextBaseFee(par.gasLimit, par.gasUsed, par.baseFee)
             /\ BaseFeeStepOK(par.baseFee, hdr.baseFee)

Init == /\ HWMInit /\ Len(Trace) >= 1 /\ Trace[1].e = "Reset" /\ Trace[1].seq = 0
        /\ l = 2 /\ G = Trace[1].galactica /\ H = (Trace[1].gen.id :> HdrOf(Trace[1].gen))

Next == /\ l <= Len(Trace) /\ Ev.seq = l - 1
        /\ CASE Ev.e = "Reset" -> /\ G' = Ev.galactica /\ H' = (Ev.gen.id :> HdrOf(Ev.gen))
             [] Ev.e = "Block" -> /\ BlockOK(Ev) /\ G' = G
                                  /\ H' = (Ev.id :> HdrOf(Ev.hdr)) @@ H
             [] Ev.e = "End" -> Ev.count = l - 1 /\ l = Len(Trace) /\ UNCHANGED <<G, H>>
             [] OTHER -> FALSE
        /\ l' = l + 1
Spec == Init /\ [][Next]_<<l, H, G>>

Progress == HWM(l)
TraceAccepted == Accepted(Len(Trace))
====
