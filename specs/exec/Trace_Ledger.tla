---- MODULE Trace_Ledger ----
(* Trace specification for C08.  One Block event per block of a real chain (cmd/ledger): totals of EVERY account-trie
   leaf before and after the block (VET; VTHO evaluated at the new block's time, so growth cancels), the receipts with the
   fee fields of their transactions, the header and the parent header.  Everything the rules determine is recomputed:
     postVET + burnVET = preVET
     postVTHO + sum(paid) + burnVTHO = preVTHO + sum(reward) + issued
     per receipt: paid = gasUsed * EffPrice, EffPrice >= base fee, reward by the pre/post GALACTICA rule
     issued = StakingReward(curve, locked stake) when proof of stake is active, else 0
     per account (every gas payer, the beneficiary, the delegator contract): energy delta = received - sent - fees paid
             + rewards and validator share (beneficiary) + delegators' share (delegator contract)
     header: gas used = sum of receipts <= gas limit; base fee absent before GALACTICA, = floor at the fork block,
             = NextBaseFee(parent gas limit, parent gas used, parent base fee) after it, |delta| <= parent/8, >= floor;
             the parent fields must be the ones recorded when the parent itself was observed (H), so the base fee is a
             function of the parent header alone (siblings on one parent get the same value).
     energy bookkeeping: TotalSupply(t) - TotalBurned of the energy contract = sum of all leaves (+ F3 burn) + rounding,
             0 <= rounding <= rounding at the parent + number of leaves   (Energy.tla SupplyLaw, across HAYABUSA)
   burnVET / burnVTHO are the amounts of self-destructs whose beneficiary is the destructed contract itself, read from
   the receipts (a Transfer whose sender = recipient = an account that no longer exists): known deviation F3, reported by
   the check under its own signature; any other drift of the totals fails the equations here.                      *)
EXTENDS LedgerRules, TraceLib, FiniteSets

Trace == LoadTrace("trace.ndjson")
VARIABLES l, H, G, E           \* H: block id -> header fields (+ energy-law bookkeeping); G: GALACTICA height of the run (-1 never)
Ev == Trace[l]

HdrOf(h) == [gasLimit |-> h.gasLimit, gasUsed |-> h.gasUsed, hasBase |-> h.hasBase, baseFee |-> h.baseFee]

\* ---- the energy contract's own bookkeeping against the per-leaf sum (Energy.tla SupplyLaw) -----------------------
\* TotalSupply(t) - TotalBurned = sum of all leaves at t + energy burnt by self-destruct-to-self so far (F3) + rounding;
\* rounding >= 0 and grows by less than one wei per account per block (every floor loses < 1).
\* E: block id -> [slack, burnt]  (rounding observed at that block, cumulative F3 energy burn on its chain)
NetSupply(ev) == IF ev.burnedNeg THEN Add(ev.supply, ev.burned) ELSE Sub(ev.supply, ev.burned)
SupplyLawOK(ev, parentE) ==
  LET burnt == Add(parentE.burnt, ev.burnVTHO)
      held == Add(ev.postVTHO, burnt)
  IN /\ (ev.burnedNeg \/ GE(ev.supply, ev.burned))
     /\ GE(NetSupply(ev), held)
     /\ LE(Sub(NetSupply(ev), held), Add(parentE.slack, FromInt(ev.leaves)))
EnergyOf(ev, parentE) == [slack |-> Sub(NetSupply(ev), Add(ev.postVTHO, Add(parentE.burnt, ev.burnVTHO))),
                          burnt |-> Add(parentE.burnt, ev.burnVTHO)]

ReceiptOK(r) ==
  LET f == r.fee
  IN /\ PriceOK(f)
     /\ r.paid = Paid(f, r.gasUsed)
     /\ r.reward = Reward(f, r.gasUsed)

DefaultCurve == FromInt(76800)

\* who is charged, who is credited.  For every gas payer, the beneficiary and the delegator contract of a block:
\*   energy after - energy before (both at the block time)
\*      = energy received - energy sent (Transfer events of the receipts)  - fees paid as gas payer
\*        + (beneficiary) all rewards + the validator's share of the block reward  + (delegator contract) the delegators' share
FlowOK(fl, rewards, valShare, delShare) ==
  LET credit == Add(fl.evIn, Add(IF fl.benef THEN Add(rewards, valShare) ELSE Zero, IF fl.deleg THEN delShare ELSE Zero))
      debit == Add(fl.evOut, fl.paid)
  IN IF fl.deltaNeg THEN Add(credit, fl.delta) = debit ELSE credit = Add(debit, fl.delta)

BlockOK(ev) ==
  LET rs == ev.rcpts
      par == ev.par
      hdr == ev.hdr
      gal == G >= 0 /\ ev.num >= G
      curve == IF Len(ev.curve) = 0 THEN DefaultCurve ELSE ev.curve
      issue == IF ev.pos THEN StakingReward(curve, ev.staked) ELSE Zero
      splitNow == ev.pos /\ ev.split /\ ev.pct < 100
      valShare == IF splitNow THEN DivSmall(MulSmall(issue, ev.pct), 100) ELSE issue
      delShare == Sub(issue, valShare)
  IN /\ ev.parent \in DOMAIN H /\ HdrOf(par) = H[ev.parent]
     /\ \A i \in 1..Len(ev.flows) : FlowOK(ev.flows[i], SumField(rs, 1, "reward"), valShare, delShare)
     \* conservation
     /\ Add(ev.postVET, ev.burnVET) = Norm(ev.preVET)
     /\ ev.issued = issue
     /\ VTHOEquation(ev.preVTHO, Add(ev.postVTHO, ev.burnVTHO), rs, ev.issued)
     /\ ev.parent \in DOMAIN E /\ SupplyLawOK(ev, E[ev.parent])
     \* receipts
     /\ \A i \in 1..Len(rs) : ReceiptOK(rs[i]) /\ rs[i].fee.gal = gal
                              /\ rs[i].fee.baseFee = hdr.baseFee
     /\ hdr.gasUsed = SumGas(rs, 1) /\ hdr.gasUsed <= hdr.gasLimit
     \* base fee
     /\ hdr.hasBase = gal
     /\ IF ~gal THEN Len(hdr.baseFee) = 0
        ELSE IF ev.num = G THEN hdr.baseFee = BaseFeeFloor
        ELSE /\ par.hasBase
             /\ hdr.baseFee = NextBaseFee(par.gasLimit, par.gasUsed, par.baseFee)
             /\ BaseFeeStepOK(par.baseFee, hdr.baseFee)

Init == /\ HWMInit /\ Len(Trace) >= 1 /\ Trace[1].e = "Reset" /\ Trace[1].seq = 0
        /\ l = 2 /\ G = Trace[1].galactica /\ H = (Trace[1].gen.id :> HdrOf(Trace[1].gen))
        /\ E = (Trace[1].gen.id :> [slack |-> Zero, burnt |-> Zero])

Next == /\ l <= Len(Trace) /\ Ev.seq = l - 1
        /\ CASE Ev.e = "Reset" -> /\ G' = Ev.galactica /\ H' = (Ev.gen.id :> HdrOf(Ev.gen))
                                  /\ E' = (Ev.gen.id :> [slack |-> Zero, burnt |-> Zero])
             [] Ev.e = "Block" -> /\ BlockOK(Ev) /\ G' = G
                                  /\ H' = (Ev.id :> HdrOf(Ev.hdr)) @@ H
                                  /\ E' = (Ev.id :> EnergyOf(Ev, E[Ev.parent])) @@ E
             [] Ev.e = "End" -> Ev.count = l - 1 /\ l = Len(Trace) /\ UNCHANGED <<G, H, E>>
             [] OTHER -> FALSE
        /\ l' = l + 1
Spec == Init /\ [][Next]_<<l, H, G, E>>

Progress == HWM(l)
TraceAccepted == Accepted(Len(Trace))
====
