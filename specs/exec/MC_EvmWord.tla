---- MODULE MC_EvmWord ----
(* Self-check of the limb library and the instruction operators of EvmWord.tla.
   Every state is one operand pair; the invariants compare
     * SmallOk : each operator with TLC's own integer arithmetic on values < 2^31 (where the integer result fits),
     * BigOk   : algebraic identities on boundary words (2^255, 2^255 - 1, 2^256 - 1, powers of two +- 1, ..):
                 a = q*d + r with r < d, a + (-a) = 0, (a - b) + b = a, commutativity, shifts = mul/div by 2^s,
                 signed corner cases, EXP by repeated MUL, SIGNEXTEND / BYTE against shifts.
   A failure here is a defect of the specification (exit 2), never a violation.                                  *)
EXTENDS EvmWord, FiniteSets, TLC

Max31 == 2147483647
SmallVals == {0, 1, 2, 3, 5, 7, 127, 128, 255, 256, 32767, 32768, 32769, 46340, 65535, 65536, 1000003, 16777215,
              16777216, 123456789, 1073741823, 1073741824, 2147483646, 2147483647}
Shifts == {0, 1, 7, 8, 14, 15, 16, 29, 30}

FromInt(x) == [i \in 1..N |-> IF i = 1 THEN x % B ELSE IF i = 2 THEN (x \div B) % B ELSE IF i = 3 THEN x \div (B * B) ELSE 0]
ToInt(w) == w[1] + w[2] * B + w[3] * B * B          \* only for w < 2^31
Fits(w) == (\A i \in 4..N : w[i] = 0) /\ w[3] <= 1

RECURSIVE IntPow2(_)
IntPow2(k) == IF k = 0 THEN 1 ELSE 2 * IntPow2(k - 1)
IntBit(x, k) == (x \div IntPow2(k)) % 2
RECURSIVE SumBits(_, _, _, _)
SumBits(op, x, y, k) == IF k > 30 THEN 0
                        ELSE (IF op = "and" THEN IntBit(x, k) * IntBit(y, k)
                              ELSE IF op = "or" THEN (IF IntBit(x, k) + IntBit(y, k) > 0 THEN 1 ELSE 0)
                              ELSE (IF IntBit(x, k) # IntBit(y, k) THEN 1 ELSE 0)) * IntPow2(k)
                             + SumBits(op, x, y, k + 1)

P(k) == ShlBits(OneW, k)                      \* 2^k as a word, k < 256
\* boundary words, the most important first; the first NBig of them are used (cfg: quick 6, thorough all 25)
CONSTANTS NBig, BigShifts
BigSeq == <<ZeroW, OneW, AllOnesW, P(255), SubW(P(255), OneW), AddW(P(128), OneW), NegW(FromInt(7)),
            <<12345, 2, 32767, 0, 1, 77, 32767, 32767, 5, 0, 0, 9, 31000, 4, 4, 4, 32767, 1>>,
            SubW(P(64), OneW), P(15), FromInt(2147483647),
            Small(2), AddW(P(255), OneW), SubW(AllOnesW, OneW), P(128), SubW(P(128), OneW), P(30), P(64), P(254),
            P(200), FromInt(1000003), MulLow(FromInt(123456789), P(100)), NegW(FromInt(32768)), NegW(P(128)),
            <<1, 0, 0, 0, 0, 0, 0, 0, 30000, 0, 0, 0, 0, 0, 0, 0, 0, 0>>>>
BigVals == {BigSeq[i] : i \in 1..NBig}

VARIABLES kind, u, v
vars == <<kind, u, v>>

\* one dummy initial state; the first operand is chosen in one step and the second in the next one, so that the TLC
\* workers share the evaluation of the invariants (successors of one state are checked by one worker)
Init == kind = "start" /\ u = 0 /\ v = 0
Next == \/ /\ kind = "start"
           /\ \/ (kind' = "small1" /\ u' \in SmallVals)
              \/ (kind' = "big1" /\ u' \in BigVals)
           /\ v' = v
        \/ (kind = "small1" /\ kind' = "small" /\ v' \in SmallVals /\ u' = u)
        \/ (kind = "big1" /\ kind' = "big" /\ v' \in BigVals /\ u' = u)

SmallOk ==
  kind = "small" =>
    LET x == u   y == v   X == FromInt(u)   Y == FromInt(v) IN
    /\ IsWord(X) /\ Fits(X) /\ ToInt(X) = x
    /\ Cmp(X, Y) = (IF x < y THEN -1 ELSE IF x > y THEN 1 ELSE 0)
    /\ (x <= Max31 - y => ADD(X, Y) = FromInt(x + y))
    /\ (x >= y => SUB(X, Y) = FromInt(x - y))
    /\ (x < y => SUB(X, Y) = NegW(FromInt(y - x)))
    /\ ((x = 0 \/ y <= Max31 \div x) => MUL(X, Y) = FromInt(x * y) /\ Ext(MulFull(X, Y), N) = FromInt(x * y))
    /\ (y > 0 => DIV(X, Y) = FromInt(x \div y) /\ MOD(X, Y) = FromInt(x % y))
    /\ (y = 0 => DIV(X, Y) = ZeroW /\ MOD(X, Y) = ZeroW /\ SDIV(X, Y) = ZeroW /\ SMOD(X, Y) = ZeroW)
    /\ (y > 0 => SDIV(X, Y) = FromInt(x \div y) /\ SMOD(X, Y) = FromInt(x % y))
    /\ (y > 0 => SDIV(NegW(X), Y) = NegW(FromInt(x \div y)) /\ SMOD(NegW(X), Y) = NegW(FromInt(x % y))
                 /\ SDIV(X, NegW(Y)) = NegW(FromInt(x \div y)) /\ SMOD(X, NegW(Y)) = FromInt(x % y)
                 /\ SDIV(NegW(X), NegW(Y)) = FromInt(x \div y))
    /\ (y > 0 => ADDMOD(X, Y, Y) = FromInt(x % y))
    /\ (y > 0 /\ y <= 1073741823 => ADDMOD(X, X, Y) = FromInt(((x % y) + (x % y)) % y))
    /\ (y > 0 /\ (x = 0 \/ x <= Max31 \div x) => MULMOD(X, X, Y) = FromInt((x * x) % y))
    /\ LT(X, Y) = Bool(x < y) /\ GT(X, Y) = Bool(x > y) /\ EQ(X, Y) = Bool(x = y) /\ ISZERO(X) = Bool(x = 0)
    /\ SLT(X, Y) = Bool(x < y) /\ SGT(X, Y) = Bool(x > y)
    /\ SLT(NegW(X), Y) = Bool(x > 0 \/ y > 0) /\ SGT(NegW(X), Y) = ZeroW
    /\ AND(X, Y) = FromInt(SumBits("and", x, y, 0))
    /\ OR(X, Y) = FromInt(SumBits("or", x, y, 0))
    /\ XOR(X, Y) = FromInt(SumBits("xor", x, y, 0))
    /\ \A s \in Shifts : /\ SHR(FromInt(s), X) = FromInt(x \div IntPow2(s))
                         /\ SAR(FromInt(s), X) = FromInt(x \div IntPow2(s))
                         /\ (x <= Max31 \div IntPow2(s) => SHL(FromInt(s), X) = FromInt(x * IntPow2(s)))
                         /\ SHL(FromInt(s), X) = MUL(X, FromInt(IntPow2(s)))
    /\ \A i \in 28..31 : BYTE(FromInt(i), X) = FromInt((x \div IntPow2(8 * (31 - i))) % 256)
    /\ \A k \in 0..2 : LET m == IntPow2(8 * k + 8)   low == x % m IN
                       SIGNEXTEND(FromInt(k), X) = IF low >= m \div 2 THEN NegW(FromInt(m - low)) ELSE FromInt(low)
    /\ (y <= 4 => EXP(X, Y) = (IF y = 0 THEN OneW ELSE IF y = 1 THEN X ELSE IF y = 2 THEN MUL(X, X)
                               ELSE IF y = 3 THEN MUL(X, MUL(X, X)) ELSE MUL(MUL(X, X), MUL(X, X))))

BigOk ==
  kind = "big" =>
    LET a == u   b == v IN
    /\ IsWord(a) /\ IsWord(ADD(a, b)) /\ IsWord(MUL(a, b)) /\ IsWord(SUB(a, b)) /\ IsWord(NegW(a))
    /\ ADD(a, b) = ADD(b, a) /\ MUL(a, b) = MUL(b, a) /\ MulFull(a, b) = MulFull(b, a)
    /\ ADD(SUB(a, b), b) = a /\ SUB(ADD(a, b), b) = a /\ ADD(a, NegW(a)) = ZeroW /\ NegW(NegW(a)) = a
    /\ NOT(NOT(a)) = a /\ ADD(a, NOT(a)) = AllOnesW
    /\ (~IsZero(b) =>
          LET dm == DivMod(a, b) IN
          /\ IsWord(dm.q) /\ IsWord(dm.r) /\ Cmp(dm.r, b) < 0
          /\ Ext(AddN(MulFull(dm.q, b), Ext(dm.r, 2 * N)), 2 * N) = Ext(a, 2 * N)         \* a = q*b + r exactly
          /\ DIV(a, b) = dm.q /\ MOD(a, b) = dm.r
          \* 512-bit dividend: (a*b + r') mod b = r' mod b  and  a*b mod b = 0
          /\ MULMOD(a, b, b) = ZeroW /\ MULMOD(a, OneW, b) = dm.r
          /\ ADDMOD(a, ZeroW, b) = dm.r /\ ADDMOD(a, b, b) = dm.r
          /\ LET full == DivMod(MulFull(a, b), b) IN full.q = Ext(a, 2 * N) /\ full.r = ZeroW)
    /\ (IsZero(b) => DIV(a, b) = ZeroW /\ MOD(a, b) = ZeroW /\ SDIV(a, b) = ZeroW /\ SMOD(a, b) = ZeroW
                     /\ ADDMOD(a, a, b) = ZeroW /\ MULMOD(a, a, b) = ZeroW)
    \* ADDMOD keeps the 257th bit: (a + a) mod b for b # 0 equals (2 * (a mod b)) mod b
    /\ (~IsZero(b) => LET r == MOD(a, b) IN ADDMOD(a, a, b) = DivMod(AddN(r, r), b).r)
    \* signed: a = SDIV(a,b) * b + SMOD(a,b)  (mod 2^256), and |SMOD| < |b|, sign of SMOD = sign of a (or zero)
    /\ (~IsZero(b) => /\ ADD(MUL(SDIV(a, b), b), SMOD(a, b)) = a
                      /\ Cmp(AbsW(SMOD(a, b)), AbsW(b)) < 0
                      /\ (IsZero(SMOD(a, b)) \/ IsNeg(SMOD(a, b)) = IsNeg(a)))
    /\ SLT(a, b) = LT(ADD(a, P(255)), ADD(b, P(255)))                 \* signed order = unsigned order after flipping bit 255
    /\ SGT(a, b) = SLT(b, a) /\ GT(a, b) = LT(b, a) /\ (EQ(a, b) = OneW) = (a = b)
    /\ (LT(a, b) = OneW) = (Cmp(a, b) < 0)
    /\ AND(a, b) = AND(b, a) /\ XOR(a, a) = ZeroW /\ OR(a, ZeroW) = a /\ AND(a, AllOnesW) = a
    /\ XOR(a, b) = SUB(OR(a, b), AND(a, b)) /\ ADD(AND(a, b), OR(a, b)) = ADD(a, b)
    /\ XOR(a, AllOnesW) = NOT(a)
    /\ \A s \in BigShifts :
          /\ SHL(Small(s), a) = MUL(a, P(s))
          /\ SHR(Small(s), a) = DIV(a, P(s))
          /\ SAR(Small(s), a) = (IF IsNeg(a) THEN NOT(DIV(NOT(a), P(s))) ELSE DIV(a, P(s)))
          \* a = SAR(s,a) * 2^s + (a mod 2^s)  (mod 2^256), and the sign is kept
          /\ ADD(MUL(SAR(Small(s), a), P(s)), AND(a, SUB(P(s), OneW))) = a
          /\ IsNeg(SAR(Small(s), a)) = IsNeg(a)
    /\ SHL(Small(256), a) = ZeroW /\ SHR(Small(256), a) = ZeroW
    /\ SAR(Small(256), a) = (IF IsNeg(a) THEN AllOnesW ELSE ZeroW) /\ SAR(Small(255), a) = (IF IsNeg(a) THEN AllOnesW ELSE ZeroW)
    /\ SAR(P(200), a) = (IF IsNeg(a) THEN AllOnesW ELSE ZeroW)
    /\ \A i \in {0, 15, 31} : BYTE(Small(i), a) = MOD(DIV(a, P(8 * (31 - i))), Small(256))
    /\ BYTE(Small(32), a) = ZeroW /\ BYTE(P(128), a) = ZeroW
    /\ \A k \in {0, 15, 30} :
          LET m == P(8 * k + 8)   low == MOD(a, m)   half == P(8 * k + 7) IN
          SIGNEXTEND(Small(k), a) = IF Cmp(low, half) >= 0 THEN SUB(low, m) ELSE low
    /\ SIGNEXTEND(Small(31), a) = a /\ SIGNEXTEND(Small(32), a) = a /\ SIGNEXTEND(AllOnesW, a) = a
    /\ EXP(a, ZeroW) = OneW /\ EXP(a, OneW) = a /\ EXP(a, Small(2)) = MUL(a, a)
    /\ EXP(a, Small(5)) = MUL(a, MUL(MUL(a, a), MUL(a, a)))
    /\ EXP(Small(2), Small(255)) = P(255) /\ EXP(Small(2), Small(256)) = ZeroW
    /\ (SmallOf(b) < 300 => EXP(Small(2), b) = SHL(b, OneW))
    /\ SDIV(P(255), AllOnesW) = P(255)                                  \* -2^255 / -1 wraps
    /\ SMOD(P(255), AllOnesW) = ZeroW
====
