SPECIFICATION Spec
CONSTANTS
  Accts = {"a", "b", "c"}
  InitVET <- MCInitVET
  Amounts = {1, 3}
  Dts = {1, 3}
  RateN = 1
  RateD = 4
  MaxSteps = 5
  Broken = TRUE
INVARIANT SupplyLaw
CHECK_DEADLOCK FALSE
