---- MODULE EvmWord ----
(* C10, part 1: 256-bit EVM words and the arithmetic / comparison / bitwise / shift instruction set, defined from
   modular integer arithmetic.

   TLC integers are 32-bit, so a natural number is a little-endian sequence of 15-bit limbs (limb[1] is the least
   significant; 32767^2 + 2*32767 < 2^31, so one limb product plus two limbs never overflows).  An EVM word is exactly
   N = 18 limbs: 17 full limbs (255 bits) and a top limb that holds bit 255 only (0 or 1).

   The instruction operators at the bottom (ADD .. SAR, Eval) are the specification the real interpreter is held
   against by Trace_EvmWord.tla.  Everything is computed from +, -, *, \div, % on limbs:
     * Add / Sub / Cmp      carry / borrow chains
     * MulFull / MulLow     schoolbook multiplication
     * DivMod               bit-wise long division (shift, compare, subtract) - no quotient-digit guessing
     * signed instructions  two's complement: value(x) = x - 2^256 if bit 255 is set
   The limb library is self-checked by MC_EvmWord.tla against TLC's own integer arithmetic on small values and by
   algebraic identities on boundary words.                                                                          *)
EXTENDS Integers, Sequences

B == 32768                \* limb base 2^15
N == 18                   \* limbs of a word
P2 == <<1, 2, 4, 8, 16, 32, 64, 128, 256, 512, 1024, 2048, 4096, 8192, 16384, 32768>>
Pow2(k) == P2[k + 1]      \* 0 <= k <= 15

Zeros(n) == [i \in 1..n |-> 0]
ZeroW == Zeros(N)
OneW == [i \in 1..N |-> IF i = 1 THEN 1 ELSE 0]
AllOnesW == [i \in 1..N |-> IF i < N THEN B - 1 ELSE 1]
Small(x) == [i \in 1..N |-> IF i = 1 THEN x ELSE 0]                      \* 0 <= x < B
IsWord(w) == /\ Len(w) = N
             /\ \A i \in 1..N : w[i] \in 0..(B - 1)
             /\ w[N] \in 0..1
\* reduce an at-least-N-limb natural modulo 2^256
Norm(x) == [i \in 1..N |-> IF i < N THEN x[i] ELSE x[N] % 2]
Ext(a, n) == [i \in 1..n |-> IF i <= Len(a) THEN a[i] ELSE 0]

IsZero(a) == \A i \in 1..Len(a) : a[i] = 0

\* ---- comparison: -1, 0, 1 (equal lengths) ------------------------------------------------------------------------
RECURSIVE CmpFrom(_, _, _)
CmpFrom(a, b, i) == IF i = 0 THEN 0
                    ELSE IF a[i] < b[i] THEN -1
                    ELSE IF a[i] > b[i] THEN 1
                    ELSE CmpFrom(a, b, i - 1)
Cmp(a, b) == CmpFrom(a, b, Len(a))

\* ---- addition: Len(a) = Len(b) = n, result has n + 1 limbs (the last one is the carry) --------------------------------
RECURSIVE AddRec(_, _, _, _, _)
AddRec(a, b, i, c, acc) == IF i > Len(a) THEN Append(acc, c)
                           ELSE LET s == a[i] + b[i] + c
                                IN AddRec(a, b, i + 1, s \div B, Append(acc, s % B))
AddN(a, b) == AddRec(a, b, 1, 0, <<>>)

\* ---- subtraction a - b for a >= b (equal lengths); for a < b the result is a - b + B^n (wraps) ---------------------
RECURSIVE SubRec(_, _, _, _, _)
SubRec(a, b, i, br, acc) == IF i > Len(a) THEN acc
                            ELSE LET s == a[i] - b[i] - br
                                 IN IF s < 0 THEN SubRec(a, b, i + 1, 1, Append(acc, s + B))
                                    ELSE SubRec(a, b, i + 1, 0, Append(acc, s))
SubN(a, b) == SubRec(a, b, 1, 0, <<>>)

\* ---- multiplication --------------------------------------------------------------------------------------------
\* row step: acc[off + i] += a[i] * y + carry, for i = 1..Len(a); positions above lim are dropped (truncated product)
RECURSIVE MulRow(_, _, _, _, _, _, _)
MulRow(a, y, off, acc, i, c, lim) ==
  IF off + i > lim THEN acc
  ELSE IF i > Len(a) THEN [acc EXCEPT ![off + i] = c]              \* this position is still untouched (rows ascend)
  ELSE LET t == acc[off + i] + a[i] * y + c
       IN MulRow(a, y, off, [acc EXCEPT ![off + i] = t % B], i + 1, t \div B, lim)
RECURSIVE MulRows(_, _, _, _, _)
MulRows(a, b, j, acc, lim) ==
  IF j > Len(b) \/ j > lim THEN acc
  ELSE MulRows(a, b, j + 1, IF b[j] = 0 THEN acc ELSE MulRow(a, b[j], j - 1, acc, 1, 0, lim), lim)
MulFull(a, b) == MulRows(a, b, 1, Zeros(Len(a) + Len(b)), Len(a) + Len(b))     \* exact product
MulLow(a, b) == Norm(MulRows(a, b, 1, ZeroW, N))                                 \* product modulo 2^256 (words)

\* ---- shifts of words by a bit count 0 <= s (any size); results are words ----------------------------------------
Limb(x, i) == IF i >= 1 /\ i <= Len(x) THEN x[i] ELSE 0
\* floor(x / 2^s)
ShrBits(x, s) ==
  LET ls == s \div 15
      bs == s % 15
  IN [i \in 1..N |-> (Limb(x, i + ls) \div Pow2(bs)) + (Limb(x, i + ls + 1) % Pow2(bs)) * Pow2(15 - bs)]
\* (x * 2^s) mod 2^256
ShlBits(x, s) ==
  LET ls == s \div 15
      bs == s % 15
  IN Norm([i \in 1..N |-> (Limb(x, i - ls) % Pow2(15 - bs)) * Pow2(bs) + (Limb(x, i - ls - 1) \div Pow2(15 - bs))])

\* ---- division: bit-wise long division ----------------------------------------------------------------------------
\* 2r + bit  (r < d <= 2^256 - 1, so 2r + 1 < 2^257 fits N limbs = 270 bits)
RECURSIVE Dbl(_, _, _, _)
Dbl(r, i, c, acc) == IF i > Len(r) THEN acc
                     ELSE LET s == 2 * r[i] + c IN Dbl(r, i + 1, s \div B, Append(acc, s % B))
\* process the bits k, k-1, .., 0 of limb value x; ql accumulates the quotient limb
RECURSIVE DivBits(_, _, _, _, _)
DivBits(x, k, r, d, ql) ==
  IF k < 0 THEN [r |-> r, q |-> ql]
  ELSE LET r2 == Dbl(r, 1, (x \div Pow2(k)) % 2, <<>>)
       IN IF Cmp(r2, d) >= 0 THEN DivBits(x, k - 1, SubN(r2, d), d, 2 * ql + 1)
          ELSE DivBits(x, k - 1, r2, d, 2 * ql)
RECURSIVE DivLimbs(_, _, _, _, _)
DivLimbs(a, i, r, d, q) ==
  IF i = 0 THEN [q |-> q, r |-> r]
  ELSE IF a[i] = 0 /\ IsZero(r) THEN DivLimbs(a, i - 1, r, d, q)                   \* leading zeros
  ELSE LET s == DivBits(a[i], 14, r, d, 0) IN DivLimbs(a, i - 1, s.r, d, [q EXCEPT ![i] = s.q])
\* a: natural of any length, d: non-zero word (N limbs).  q has Len(a) limbs, r is a word.   a = q * d + r, r < d
DivMod(a, d) == DivLimbs(a, Len(a), ZeroW, d, Zeros(Len(a)))

\* ---- limb-wise boolean operations, from the binary expansion ----------------------------------------------------
RECURSIVE BitL(_, _, _)
BitL(op, x, y) ==
  IF x = 0 /\ y = 0 THEN 0
  ELSE LET a == x % 2
           b == y % 2
           bit == CASE op = "and" -> a * b
                    [] op = "or" -> a + b - a * b
                    [] op = "xor" -> (a + b) % 2
       IN bit + 2 * BitL(op, x \div 2, y \div 2)
BitW(op, x, y) == [i \in 1..N |-> BitL(op, x[i], y[i])]

\* ---- two's complement --------------------------------------------------------------------------------------------
NotW(x) == [i \in 1..N |-> IF i < N THEN B - 1 - x[i] ELSE 1 - x[N]]              \* 2^256 - 1 - x
AddW(a, b) == Norm(AddN(a, b))                                                   \* (a + b) mod 2^256
SubW(a, b) == Norm(SubN(a, b))                                                   \* (a - b) mod 2^256
NegW(x) == AddW(NotW(x), OneW)                                                   \* (2^256 - x) mod 2^256
IsNeg(x) == x[N] = 1                                                             \* bit 255
AbsW(x) == IF IsNeg(x) THEN NegW(x) ELSE x                                       \* |value(x)| (2^255 for -2^255)
Bool(p) == IF p THEN OneW ELSE ZeroW

\* a word used as a small count: its value if < B, else B (= "huge")
SmallOf(x) == IF \A i \in 2..N : x[i] = 0 THEN x[1] ELSE B

\* number of significant bits of a word
RECURSIVE TopLimb(_, _)
TopLimb(x, i) == IF i = 0 THEN 0 ELSE IF x[i] # 0 THEN i ELSE TopLimb(x, i - 1)
RECURSIVE BitsOf(_)
BitsOf(v) == IF v = 0 THEN 0 ELSE 1 + BitsOf(v \div 2)
BitLen(x) == LET t == TopLimb(x, N) IN IF t = 0 THEN 0 ELSE 15 * (t - 1) + BitsOf(x[t])
BitAt(x, k) == (x[(k \div 15) + 1] \div Pow2(k % 15)) % 2

\* ---- exponentiation modulo 2^256: square and multiply over the bits of e, least significant first ------------------
RECURSIVE ExpLoop(_, _, _, _, _)
ExpLoop(base, e, k, nb, acc) ==
  IF k >= nb THEN acc
  ELSE LET acc2 == IF BitAt(e, k) = 1 THEN MulLow(acc, base) ELSE acc
       IN IF k + 1 >= nb THEN acc2 ELSE ExpLoop(MulLow(base, base), e, k + 1, nb, acc2)

\* ==== the instructions (operands in stack order: a = top of stack) ==================================================
ADD(a, b) == AddW(a, b)
MUL(a, b) == MulLow(a, b)
SUB(a, b) == SubW(a, b)
DIV(a, b) == IF IsZero(b) THEN ZeroW ELSE DivMod(a, b).q
MOD(a, b) == IF IsZero(b) THEN ZeroW ELSE DivMod(a, b).r
\* signed: truncated division on the two's-complement values; -2^255 / -1 wraps to -2^255
SDIV(a, b) == IF IsZero(b) THEN ZeroW
              ELSE LET q == DivMod(AbsW(a), AbsW(b)).q
                   IN IF IsNeg(a) # IsNeg(b) THEN NegW(q) ELSE q
\* result takes the sign of the dividend
SMOD(a, b) == IF IsZero(b) THEN ZeroW
              ELSE LET r == DivMod(AbsW(a), AbsW(b)).r
                   IN IF IsNeg(a) THEN NegW(r) ELSE r
\* not reduced modulo 2^256 before the modulus is applied
ADDMOD(a, b, m) == IF IsZero(m) THEN ZeroW ELSE DivMod(AddN(a, b), m).r
MULMOD(a, b, m) == IF IsZero(m) THEN ZeroW ELSE DivMod(MulFull(a, b), m).r
EXP(a, e) == ExpLoop(a, e, 0, BitLen(e), OneW)
\* SIGNEXTEND(k, x): x is a (k+1)-byte two's-complement number; t = 8k + 7 is its sign bit
SIGNEXTEND(k, x) ==
  LET kk == SmallOf(k) IN
  IF kk >= 31 THEN x
  ELSE LET t == 8 * kk + 7
           low == SubW(x, ShlBits(ShrBits(x, t + 1), t + 1))          \* x mod 2^(t+1)
       IN IF BitAt(x, t) = 1 THEN AddW(low, NegW(ShlBits(OneW, t + 1)))     \* low - 2^(t+1)  (mod 2^256)
          ELSE low
LT(a, b) == Bool(Cmp(a, b) < 0)
GT(a, b) == Bool(Cmp(a, b) > 0)
SLess(a, b) == IF IsNeg(a) # IsNeg(b) THEN IsNeg(a) ELSE Cmp(a, b) < 0        \* same sign: order of the residues
SLT(a, b) == Bool(SLess(a, b))
SGT(a, b) == Bool(SLess(b, a))
EQ(a, b) == Bool(a = b)
ISZERO(a) == Bool(IsZero(a))
AND(a, b) == BitW("and", a, b)
OR(a, b) == BitW("or", a, b)
XOR(a, b) == BitW("xor", a, b)
NOT(a) == NotW(a)
\* BYTE(i, x): i-th byte counted from the most significant one
BYTE(i, x) == LET ii == SmallOf(i) IN
              IF ii >= 32 THEN ZeroW ELSE Small(ShrBits(x, 8 * (31 - ii))[1] % 256)
SHL(s, x) == LET ss == SmallOf(s) IN IF ss >= 256 THEN ZeroW ELSE ShlBits(x, ss)
SHR(s, x) == LET ss == SmallOf(s) IN IF ss >= 256 THEN ZeroW ELSE ShrBits(x, ss)
\* SAR: floor(value(x) / 2^s).  For value(x) < 0:  floor(v / 2^s) = -floor((-v - 1) / 2^s) - 1  and  -v - 1 = NOT x
SAR(s, x) == LET ss == SmallOf(s) IN
             IF ss >= 256 THEN (IF IsNeg(x) THEN AllOnesW ELSE ZeroW)
             ELSE IF IsNeg(x) THEN NotW(ShrBits(NotW(x), ss))
             ELSE ShrBits(x, ss)

Ops2 == {"ADD", "MUL", "SUB", "DIV", "SDIV", "MOD", "SMOD", "EXP", "SIGNEXTEND", "LT", "GT", "SLT", "SGT", "EQ",
         "AND", "OR", "XOR", "BYTE", "SHL", "SHR", "SAR"}
Ops1 == {"ISZERO", "NOT"}
Ops3 == {"ADDMOD", "MULMOD"}
Arity(op) == IF op \in Ops1 THEN 1 ELSE IF op \in Ops3 THEN 3 ELSE 2

Eval(op, a, b, c) ==
  CASE op = "ADD" -> ADD(a, b)
    [] op = "MUL" -> MUL(a, b)
    [] op = "SUB" -> SUB(a, b)
    [] op = "DIV" -> DIV(a, b)
    [] op = "SDIV" -> SDIV(a, b)
    [] op = "MOD" -> MOD(a, b)
    [] op = "SMOD" -> SMOD(a, b)
    [] op = "ADDMOD" -> ADDMOD(a, b, c)
    [] op = "MULMOD" -> MULMOD(a, b, c)
    [] op = "EXP" -> EXP(a, b)
    [] op = "SIGNEXTEND" -> SIGNEXTEND(a, b)
    [] op = "LT" -> LT(a, b)
    [] op = "GT" -> GT(a, b)
    [] op = "SLT" -> SLT(a, b)
    [] op = "SGT" -> SGT(a, b)
    [] op = "EQ" -> EQ(a, b)
    [] op = "ISZERO" -> ISZERO(a)
    [] op = "AND" -> AND(a, b)
    [] op = "OR" -> OR(a, b)
    [] op = "XOR" -> XOR(a, b)
    [] op = "NOT" -> NOT(a)
    [] op = "BYTE" -> BYTE(a, b)
    [] op = "SHL" -> SHL(a, b)
    [] op = "SHR" -> SHR(a, b)
    [] op = "SAR" -> SAR(a, b)
====
