INIT Init
NEXT Next
CONSTANT NCells = 3
CONSTANT Bug = "none"
CONSTANT Profiles = {"fixed", "alias", "create", "window"}
CONSTANT Deep = TRUE
INVARIANT InvBufferLaw
INVARIANT Export
CHECK_DEADLOCK FALSE
