INIT Init
NEXT Next
CONSTANT NCells = 3
CONSTANT Bug = "none"
CONSTANT Profiles = {"alias", "create", "window"}
CONSTANT Deep = TRUE
INVARIANT InvBufferLaw
INVARIANT Export
CHECK_DEADLOCK FALSE
