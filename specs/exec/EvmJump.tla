---- MODULE EvmJump ----
(* C10, step 4: the interpreter loop on raw byte strings - jump destination analysis, JUMP / JUMPI, stack bounds.

   code is a sequence of bytes (0..255); positions are 0-based as in the EVM (code[p + 1] in TLA+).

   REFERENCE (yellow paper 9.4.3, D_J): scan the code from position 0; an instruction at p occupies 1 byte, PUSHn
   (0x60 + n - 1) occupies 1 + n bytes (its immediate data, cut off by the end of the code).  The VALID JUMP
   DESTINATIONS are exactly the instruction positions that hold JUMPDEST (0x5b); a 0x5b inside the immediate data of
   a PUSH is data, wherever it lies.  JUMP to anything else (including a position beyond the code or a value that
   does not fit) is an exceptional halt.  The stack holds at most 1024 items; an instruction needing more items than
   there are, or growing the stack beyond 1024, is an exceptional halt.  Running off the end of the code is STOP.

   Exec interprets the instructions the generated programs use: STOP, JUMPDEST, PUSH1..PUSH32, JUMP, JUMPI, SSTORE (the
   marker: slot := value, visible in the final storage unless the run fails), POP, DUP1..16, SWAP1..16; any other byte
   is an undefined instruction.  Pushed values matter only as jump targets, conditions and marker operands: a value
   that does not fit 16 bits is Huge.                                                                             *)
EXTENDS Integers, Sequences, FiniteSets

STOP == 0
SSTORE == 85
POP == 80
JUMP == 86
JUMPI == 87
JUMPDEST == 91
Push(n) == 95 + n                    \* PUSH1 = 0x60 .. PUSH32 = 0x7f
IsPush(b) == b >= 96 /\ b <= 127
IsDup(b) == b >= 128 /\ b <= 143     \* DUP1 = 0x80
IsSwap(b) == b >= 144 /\ b <= 159    \* SWAP1 = 0x90
Huge == 1000000
StackLimit == 1024

At(code, p) == IF p < Len(code) THEN code[p + 1] ELSE 0

\* ---- the set of valid jump destinations, from the definition ----------------------------------------------------------
RECURSIVE Dests(_, _, _)
Dests(code, p, acc) ==
  IF p >= Len(code) THEN acc
  ELSE LET b == code[p + 1] IN
       IF IsPush(b) THEN Dests(code, p + 1 + (b - 95), acc)
       ELSE Dests(code, p + 1, IF b = JUMPDEST THEN acc \cup {p} ELSE acc)
ValidDests(code) == Dests(code, 0, {})

\* value of the n-byte immediate at p (zero padded beyond the end of the code)
RECURSIVE ImmVal(_, _, _, _)
ImmVal(code, p, n, acc) ==
  IF n = 0 THEN acc
  ELSE LET v == IF acc >= 65536 THEN Huge ELSE acc * 256 + At(code, p) IN
       ImmVal(code, p + 1, n - 1, IF v >= 65536 THEN Huge ELSE v)

Top(s, k) == s[Len(s) - k + 1]                       \* k-th item from the top, k >= 1
Drop(s, k) == SubSeq(s, 1, Len(s) - k)

Halt(class, stor, path) == [class |-> class, stor |-> IF class = "ok" THEN stor ELSE <<>>, path |-> path]

\* stor: sequence of <<slot, value>> writes in order; path: positions of the instructions executed
RECURSIVE Exec(_, _, _, _, _, _)
Exec(code, D, pc, st, stor, path) ==
  IF pc >= Len(code) THEN Halt("ok", stor, Append(path, pc))       \* the implicit STOP beyond the code is an executed instruction
  ELSE LET b == code[pc + 1]
           need == CASE b = JUMP -> 1 [] b = JUMPI -> 2 [] b = SSTORE -> 2 [] b = POP -> 1
                     [] IsDup(b) -> b - 127 [] IsSwap(b) -> b - 142 [] OTHER -> 0
           grows == IsPush(b) \/ IsDup(b)
           known == b \in {STOP, JUMPDEST, JUMP, JUMPI, SSTORE, POP} \/ IsPush(b) \/ IsDup(b) \/ IsSwap(b)
           p2 == Append(path, pc)
       IN IF ~known THEN Halt("invalid", stor, path)
          ELSE IF Len(st) < need THEN Halt("underflow", stor, path)
          ELSE IF grows /\ Len(st) + 1 > StackLimit THEN Halt("overflow", stor, path)
          ELSE CASE b = STOP -> Halt("ok", stor, p2)
                 [] b = JUMPDEST -> Exec(code, D, pc + 1, st, stor, p2)
                 [] IsPush(b) -> Exec(code, D, pc + 1 + (b - 95), Append(st, ImmVal(code, pc + 1, b - 95, 0)), stor, p2)
                 [] b = JUMP -> IF Top(st, 1) \in D THEN Exec(code, D, Top(st, 1), Drop(st, 1), stor, p2)
                                ELSE Halt("badjump", stor, p2)
                 [] b = JUMPI -> IF Top(st, 2) = 0 THEN Exec(code, D, pc + 1, Drop(st, 2), stor, p2)
                                 ELSE IF Top(st, 1) \in D THEN Exec(code, D, Top(st, 1), Drop(st, 2), stor, p2)
                                 ELSE Halt("badjump", stor, p2)
                 [] b = SSTORE -> Exec(code, D, pc + 1, Drop(st, 2), Append(stor, <<Top(st, 1), Top(st, 2)>>), p2)
                 [] b = POP -> Exec(code, D, pc + 1, Drop(st, 1), stor, p2)
                 [] IsDup(b) -> Exec(code, D, pc + 1, Append(st, Top(st, b - 127)), stor, p2)
                 [] IsSwap(b) -> LET k == b - 142 IN      \* exchange the top with the k-th item from the top
                                 Exec(code, D, pc + 1,
                                      [i \in 1..Len(st) |-> IF i = Len(st) THEN Top(st, k) ELSE IF i = Len(st) - k + 1 THEN Top(st, 1) ELSE st[i]],
                                      stor, p2)

Run(code) == Exec(code, ValidDests(code), 0, <<>>, <<>>, <<>>)

\* final value of the marker slots 1..3 (0 if never written or the run failed)
RECURSIVE SlotVal(_, _, _)
SlotVal(stor, i, k) == IF i = 0 THEN 0 ELSE IF stor[i][1] = k THEN stor[i][2] ELSE SlotVal(stor, i - 1, k)
Obs(r) == [class |-> r.class, stor |-> [k \in 1..3 |-> SlotVal(r.stor, Len(r.stor), k)],
           path |-> IF Len(r.path) <= 80 THEN r.path ELSE <<Len(r.path), r.path[Len(r.path)]>>]

\* ---- invariants ------------------------------------------------------------------------------------------------------
\* a destination is never inside an immediate: every valid destination is reached by the instruction scan, and the
\* scan and a byte-by-byte "inside data" marking agree
RECURSIVE DataPos(_, _, _)
DataPos(code, p, acc) ==
  IF p >= Len(code) THEN acc
  ELSE LET b == code[p + 1] IN
       IF IsPush(b) THEN DataPos(code, p + 1 + (b - 95), acc \cup {q \in (p + 1)..(p + (b - 95)) : q < Len(code)})
       ELSE DataPos(code, p + 1, acc)
DestsLaw(code) == ValidDests(code) = {p \in 0..(Len(code) - 1) : code[p + 1] = JUMPDEST /\ p \notin DataPos(code, 0, {})}
\* a run only ever jumps to valid destinations, and a failed run leaves no marker
RunLaw(code, r) == /\ (r.class # "ok" => r.stor = <<>>)
                   /\ \A i \in 2..Len(r.path) : (code[r.path[i - 1] + 1] \in {JUMP, JUMPI} /\ r.path[i] # r.path[i - 1] + 1)
                                                   => r.path[i] \in ValidDests(code)
====
