---- MODULE Trace_TxExec ----
(* Trace specification for C07.  One line per executed transaction (cmd/txexec).  The trace supplies the FACTS the
   rules leave open - the tx's gas limit and intrinsic gas, the payer facts of the pre-state, the fee fields, and the raw
   per-clause outcome reported by the EVM (gas left, refund counter, VM error) - and everything the rules determine is
   recomputed here with the operators of TxExecRules / LedgerRules and must equal what runtime.ExecuteTransaction did:
     started or not (CanStart), the payer (PayerOf), the gas handed to every clause, reverted flag, number of outputs,
     receipt gas used (refund capped at used/2 per clause), which clause effects are present in the full post-state
     ("all" / "none", decided by the driver's complete state dump, bookkeeping keys exempt), effective price, paid,
     reward, and the four bookkeeping numbers: payer debit = paid, beneficiary credit = reward, total-sub - total-add
     += prepaid - returned - reward, user credit used += paid (sponsored / contract-credit payers).
   The GasBounds inequalities are evaluated on the recorded numbers.  A transaction that cannot start must leave the
   state unchanged.  Adopt / Block events come from packer.Flow.                                                    *)
EXTENDS TxExecRules, LedgerRules, TraceLib, FiniteSets

Trace == LoadTrace("trace.ndjson")
VARIABLE l
Ev == Trace[l]

\* gas handed to clause i according to the rules
RECURSIVE InOf(_, _, _, _)
InOf(s, raws, i, k) == IF i = k THEN s.left ELSE InOf(ClauseStep(s, raws[i]), raws, i + 1, k)

Unsigned(ev, fld, negfld) == ev[negfld] = FALSE

StartedOK(ev) ==
  LET f == ev.fee
      raws == ev.raws
      s0 == Start(ev.gas, ev.intr)
      fin == Run(s0, raws, 1)
      gasUsed == GasUsedOf(ev.gas, fin)
      price == EffPrice(f)
      paid == MulInt(price, gasUsed)
      prepaid == MulInt(price, ev.gas)
      reward == Reward(f, gasUsed)
  IN /\ ev.rawok /\ ev.classok           \* the copy run worked; every compiled clause kind behaved as its class says
     /\ RawsComplete(raws, ev.n)
     \* raws[i].in and outs[i] are OBSERVED inside the real loop (tracer): gas handed to clause i, gas left after it
     /\ \A i \in 1..Len(raws) : raws[i].in = InOf(s0, raws, 1, i) /\ RawOK(raws[i].in, raws[i])
     /\ Len(ev.outs) = Len(raws)
     /\ \A i \in 1..Len(raws) : ev.outs[i] = raws[i].left + RefundOf(raws[i].in, raws[i])
     /\ ev.payer = PayerOf(ev.facts)
     \* Atomic
     /\ ev.reverted = fin.reverted
     /\ ev.nout = (IF fin.reverted THEN 0 ELSE ev.n)
     /\ ev.applied = (IF fin.reverted THEN "none" ELSE "all")
     /\ ev.outsok
     \* GasBounds
     /\ ev.gasUsed = gasUsed
     /\ ev.intr <= ev.gasUsed /\ ev.gasUsed <= ev.gas /\ ev.gas <= ev.limit
     /\ fin.refunds <= fin.consumed \div 2
     \* fee and bookkeeping
     /\ ev.price = price /\ ev.paid = paid /\ ev.prepaid = prepaid /\ ev.reward = reward
     \* payer debit = paid, beneficiary credit = reward; when one account is both (role coincidence) it carries paid - reward
     /\ IF ev.pb THEN ~ev.debitNeg /\ GE(paid, reward) /\ ev.debit = Sub(paid, reward)
        ELSE /\ ~ev.debitNeg /\ ev.debit = paid
             /\ ~ev.creditNeg /\ ev.credit = reward
     \* energy contract totals: sub grows by prepaid, add by returned + reward (clause-level energy transfers add the
     \* same amount to both):  subd + returned + reward = addd + prepaid
     /\ ~ev.subdNeg /\ ~ev.adddNeg
     /\ Add(ev.subd, Add(MulInt(price, ev.gas - gasUsed), reward)) = Add(ev.addd, prepaid)
     /\ IF ev.payer \in {"sponsor", "contract"} THEN GE(ev.used1, ev.used0) /\ Sub(ev.used1, ev.used0) = paid
        ELSE ev.used1 = ev.used0

TxOK(ev) ==
  LET can == CanStart(ev.sigok, ev.intr, ev.gas, ev.limit, PriceOK(ev.fee), ev.facts)
  IN /\ ev.started = can
     /\ IF ev.started THEN StartedOK(ev) ELSE ev.unchanged

RECURSIVE SumInts(_, _)
SumInts(q, i) == IF i > Len(q) THEN 0 ELSE q[i] + SumInts(q, i + 1)

BlockOK(ev) ==
  /\ ev.gasUsed = SumInts(ev.rcpts, 1) /\ ev.gasUsed <= ev.limit
  /\ \A i \in 1..Len(ev.adopt) : ev.adopt[i].ok = Admissible(ev.adopt[i].before, ev.adopt[i].gas, ev.limit)

AdoptOK(ev) == ev.refused /\ ev.sameState /\ ev.sameReceipts

EventOK(ev) == CASE ev.e = "Tx" -> TxOK(ev)
                 [] ev.e = "Block" -> BlockOK(ev)
                 [] ev.e = "Adopt" -> AdoptOK(ev)
                 [] ev.e = "Reset" -> TRUE
                 [] ev.e = "End" -> ev.count = l - 1 /\ l = Len(Trace)
                 [] OTHER -> FALSE

\* events are numbered: a deleted or duplicated line breaks the sequence; the End event carries the count
Init == HWMInit /\ Len(Trace) >= 1 /\ Trace[1].e = "Reset" /\ Trace[1].seq = 0 /\ l = 2
Next == l <= Len(Trace) /\ Ev.seq = l - 1 /\ EventOK(Ev) /\ l' = l + 1
Spec == Init /\ [][Next]_l

Progress == HWM(l)
TraceAccepted == Accepted(Len(Trace))
====
