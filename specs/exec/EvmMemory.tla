---- MODULE EvmMemory ----
(* C10, stage 2: per-frame MEMORY, the RETURN DATA buffer (EIP-211) and the precompiles reachable as call targets.

   Memory is word addressed: cells 0..NCells-1 of one 32-byte word each (the programs only use word-aligned offsets and
   whole-word lengths, so the byte-addressed machine and this model coincide).  A word is a *value*
        <<"n", k>>            the number k (PUSH1 k, a size, a flag)
        <<"sha256", in>>      SHA-256 of the input words in          (precompile 0x02)   } opaque functions of their
        <<"ripemd", in>>      RIPEMD-160 of in, left padded          (precompile 0x03)   } input: the checker evaluates
   and the primitives themselves are oracles.  A buffer (call input, return data, log data) is a sequence of values.

   A program is [a |-> script of the entry contract A, b |-> script of contract B]; the transaction is "origin calls
   A"; no account owns any wei, so a creation with endowment val > 0 fails before its constructor runs.  Steps:
     [op |-> "MSTORE", c, v]                              mem[c] := v
     [op |-> "CALL", kind, to, io, il, oo, ol]            kind in CALL | STATICCALL | DELEGATECALL | CALLCODE, to in
                                                          "B" | "P1" (ecrecover) | "P2" (sha256) | "P3" (ripemd160) |
                                                          "P4" (identity); input = mem[io .. io+il), out window [oo .. oo+ol)
     [op |-> "CREATE", init, val] [op |-> "CREATE2", init, val, salt]   constructor script init, endowment val wei
     [op |-> "RDSIZE", c]                                 mem[c] := RETURNDATASIZE (in bytes)
     [op |-> "RDCOPY", d, o, l]                           RETURNDATACOPY: mem[d .. d+l) := buffer[o .. o+l)
     [op |-> "CDCOPY", d, l]                              CALLDATACOPY: mem[d .. d+l) := input[0 .. l) zero padded
     [op |-> "LOGD", t, o, l]                             LOG1 topic t, data mem[o .. o+l)
     [op |-> "SSTORE", k, v] [op |-> "SLOAD", k, c]       storage[ctx][k] := v;  mem[c] := storage[ctx][k]
     [op |-> "RETURN", o, l] [op |-> "REVERT", o, l] [op |-> "STOP"] [op |-> "INVALID"]         (end of script = STOP)

   Reference rules (EIP-211, EIP-140, EIP-214, yellow paper):
     * every frame starts with zeroed memory and an EMPTY return data buffer;
     * the input of a call, the data of RETURN / REVERT / LOG and the contents of the buffer are COPIES: nothing that
       happens to any memory afterwards changes them (values are immutable here - that is the whole point);
     * after CALL / CALLCODE / DELEGATECALL / STATICCALL the caller's buffer is what the callee handed to RETURN or
       REVERT (empty for STOP and for every exceptional halt), min(ol, size) words of it are copied to the out window
       if the callee succeeded or reverted, and the rest of the window is left alone;
     * after CREATE / CREATE2 the buffer is EMPTY if the creation succeeded (the returned bytes became code), the
       REVERT payload if the constructor reverted, and EMPTY for every other failure - including those that happen
       before the constructor runs (endowment larger than the balance);
     * RETURNDATACOPY beyond the end of the buffer (o + l > size, even for l = 0) is an exceptional halt;
     * precompiles: identity returns a copy of its input; sha256 / ripemd160 return one word, an opaque function of the
       whole input; ecrecover returns NOTHING (and succeeds) when the input is not a valid signature - the generated
       inputs never are; a precompile frame cannot fail here (gas is plentiful);
     * a failing frame's logs vanish; LOG under a static frame is an exceptional halt.                              *)
EXTENDS Integers, Sequences, TLC

CONSTANTS NCells,         \* memory cells 0..NCells-1 are modelled (and dumped); programs stay inside them
          Bug             \* "none"; "stalecreate" plants a defect (a successful creation keeps the old buffer) that the
                          \* self-test config must see violating BufferLaw

N(k) == <<"n", k>>
Zero == N(0)
Mem0 == [c \in 0..(NCells - 1) |-> Zero]
Slice(mem, o, l) == [j \in 1..l |-> mem[o + j - 1]]
Min(a, b) == IF a < b THEN a ELSE b
\* mem[d .. d+l) := first l words of buf
Blit(mem, d, buf, l) == [c \in 0..(NCells - 1) |-> IF c >= d /\ c < d + l THEN buf[c - d + 1] ELSE mem[c]]
Pad(buf, l) == [j \in 1..l |-> IF j <= Len(buf) THEN buf[j] ELSE Zero]

Precompiles == {"P1", "P2", "P3", "P4"}
PrecompileOut(p, in) == CASE p = "P4" -> in
                          [] p = "P2" -> <<<<"sha256", in>>>>
                          [] p = "P3" -> <<<<"ripemd", in>>>>
                          [] p = "P1" -> <<>>

NewName(n) == "N" \o ToString(n)

\* ghost G: frames entered (entry order) with class and the memory they ended with, flags pushed by calls/creates
\* rdhist: <<what completed, class, words handed back, words in the caller's buffer afterwards>>
InitGhost == [frames |-> <<>>, flags |-> <<>>, nc |-> 0, reuse |-> "", c2 |-> <<>>, rdhist |-> <<>>]
\* storage: a set of <<account, slot, value>> with at most one entry per (account, slot); absent = zero
Get(stor, a, k) == IF \E e \in stor : e[1] = a /\ e[2] = k THEN (CHOOSE e \in stor : e[1] = a /\ e[2] = k)[3] ELSE Zero
Put(stor, a, k, v) == {e \in stor : ~(e[1] = a /\ e[2] = k)} \cup {<<a, k, v>>}
Hist(G, what, class, retlen, rdlen) == [G EXCEPT !.rdhist = Append(@, <<what, class, retlen, rdlen>>)]
AddFlag(G, fr, kind, to, ok) == [G EXCEPT !.flags = Append(@, <<fr.depth, kind, to, ok>>)]

Done(class, ret, mem, W, G) == [class |-> class, ret |-> ret, mem |-> mem, W |-> W, G |-> G]

RECURSIVE Run(_, _, _, _, _, _), Enter(_, _, _), DoCall(_, _, _, _, _, _), DoCreate(_, _, _, _, _, _, _)

\* execute the steps i.. of frame fr with memory mem, return data buffer rd, surviving world W (logs, storage, created accounts) so far, ghost G
Run(fr, i, mem, rd, W, G) ==
  IF i > Len(fr.script) THEN Done("ok", <<>>, mem, W, G)
  ELSE LET st == fr.script[i] IN
    CASE st.op = "STOP" -> Done("ok", <<>>, mem, W, G)
      [] st.op = "RETURN" -> Done("ok", Slice(mem, st.o, st.l), mem, W, G)
      [] st.op = "REVERT" -> Done("revert", Slice(mem, st.o, st.l), mem, W, G)
      [] st.op = "INVALID" -> Done("invalid", <<>>, mem, W, G)
      [] st.op = "MSTORE" -> Run(fr, i + 1, [mem EXCEPT ![st.c] = N(st.v)], rd, W, G)
      [] st.op = "RDSIZE" -> Run(fr, i + 1, [mem EXCEPT ![st.c] = N(32 * Len(rd))], rd, W, G)
      [] st.op = "RDCOPY" ->
           IF st.o + st.l > Len(rd) THEN Done("rdoob", <<>>, mem, W, G)
           ELSE Run(fr, i + 1, Blit(mem, st.d, Slice(rd, st.o + 1, st.l), st.l), rd, W, G)
      [] st.op = "CDCOPY" -> Run(fr, i + 1, Blit(mem, st.d, Pad(fr.input, st.l), st.l), rd, W, G)
      [] st.op = "LOGD" ->
           IF fr.static THEN Done("static", <<>>, mem, W, G)
           ELSE Run(fr, i + 1, mem, rd, [W EXCEPT !.logs = Append(@, <<fr.ctx, st.t, Slice(mem, st.o, st.l)>>)], G)
      [] st.op = "SSTORE" ->
           IF fr.static THEN Done("static", <<>>, mem, W, G)
           ELSE Run(fr, i + 1, mem, rd, [W EXCEPT !.stor = Put(@, fr.ctx, st.k, N(st.v))], G)
      [] st.op = "SLOAD" -> Run(fr, i + 1, [mem EXCEPT ![st.c] = Get(W.stor, fr.ctx, st.k)], rd, W, G)
      [] st.op = "CALL" -> LET r == DoCall(fr, st, mem, rd, W, G) IN Run(fr, i + 1, r.mem, r.rd, r.W, r.G)
      [] st.op \in {"CREATE", "CREATE2"} ->
           IF fr.static THEN Done("static", <<>>, mem, W, G)
           ELSE LET r == DoCreate(fr, st, i, mem, rd, W, G) IN Run(fr, i + 1, r.mem, r.rd, r.W, r.G)

\* run a new frame; W0 = the world surviving so far (restored if the frame fails)
Enter(ch, W0, G) ==
  LET id == Len(G.frames) + 1
      G1 == [G EXCEPT !.frames = Append(@, [kind |-> ch.kind, from |-> ch.from, to |-> ch.to, class |-> "open", mem |-> <<>>])]
      res == IF ch.to \in Precompiles
             THEN Done("ok", PrecompileOut(ch.to, ch.input), <<>>, W0, G1)
             ELSE Run(ch, 1, Mem0, <<>>, W0, G1)
      \* the memory a frame ends with is observed for frames that end by an instruction of their own
      endmem == IF ch.to \in Precompiles \/ res.class \notin {"ok", "revert"} THEN <<>>
                ELSE [j \in 1..NCells |-> res.mem[j - 1]]
  IN [class |-> res.class, ret |-> res.ret, W |-> IF res.class = "ok" THEN res.W ELSE W0,
      G |-> [res.G EXCEPT !.frames[id].class = res.class, !.frames[id].mem = endmem]]

DoCall(fr, st, mem, rd, W, G) ==
  LET ch == [kind |-> st.kind, from |-> fr.ctx, to |-> st.to, depth |-> fr.depth + 1,
             ctx |-> IF st.kind \in {"CALL", "STATICCALL"} THEN st.to ELSE fr.ctx,
             static |-> fr.static \/ st.kind = "STATICCALL",
             script |-> IF st.to = "B" THEN fr.codeB ELSE <<>>, codeB |-> fr.codeB,
             input |-> Slice(mem, st.io, st.il)]
      r == Enter(ch, W, G)
      n == Min(st.ol, Len(r.ret))
      mem2 == IF r.class \in {"ok", "revert"} THEN Blit(mem, st.oo, r.ret, n) ELSE mem
  IN [mem |-> mem2, rd |-> r.ret, W |-> r.W,
      G |-> Hist(AddFlag(r.G, fr, st.kind, st.to, IF r.class = "ok" THEN 1 ELSE 0), st.to, r.class, Len(r.ret), Len(r.ret))]

\* Names of created contracts: N1, N2, .. in the order their addresses first appear.  A CREATE that fails before its
\* constructor runs does not consume its address (the creation counter / nonce is not bumped): the next CREATE of the
\* transaction gets the same address (G.reuse) unless a creation of either kind got past that point in between (which
\* bumps the counter).  A CREATE2 address is a function of (creator, salt, init code): G.c2 remembers the name given to
\* each such key, so the same key means the same address.  salt 0 stands for "the position of the step" (distinct).
\*
\* ADDRESS COLLISION (EIP-684, with EIP-161's nonce 1 of a created account): a creation whose address already holds
\* code or has a non-zero nonce fails before its constructor runs - it pushes 0, empties the buffer and enters no
\* frame.  thor has no account nonces, so the reference rule reads: collision iff the address holds non-empty code OR
\* was created before (W.created - revertible, like the nonce).  mode = "thor" is the deviation of the real code
\* (known finding create2-collision-empty-code): only non-empty code collides, so an address whose first creation
\* deployed EMPTY code is created again, and the second constructor runs over the first one's storage.  It exists
\* solely so that the check can tell this deviation from any other one.
C2Key(fr, st, i) == <<fr.ctx, IF st.salt = 0 THEN i ELSE st.salt, st.init>>
C2Known(G, key) == \E j \in 1..Len(G.c2) : G.c2[j][1] = key
C2Name(G, key) == G.c2[CHOOSE j \in 1..Len(G.c2) : G.c2[j][1] = key][2]
Collides(W, a) == a \in W.coded \/ (W.mode = "reference" /\ a \in W.created)

DoCreate(fr, st, i, mem, rd, W, G) ==
  LET key == C2Key(fr, st, i)
      known == st.op = "CREATE2" /\ C2Known(G, key)
      fresh == IF st.op = "CREATE2" THEN ~known ELSE G.reuse = ""
      new == IF fresh THEN NewName(G.nc + 1) ELSE IF st.op = "CREATE2" THEN C2Name(G, key) ELSE G.reuse
      Ga == IF fresh THEN [G EXCEPT !.nc = @ + 1] ELSE G
      G0 == IF st.op = "CREATE2" /\ ~known THEN [Ga EXCEPT !.c2 = Append(@, <<key, new>>)] ELSE Ga
  IN IF st.val > 0
     THEN \* fails before the constructor runs (nobody owns wei): pushes 0, the buffer is emptied
          [mem |-> mem, rd |-> <<>>, W |-> W,
           G |-> Hist(AddFlag(IF st.op = "CREATE" THEN [G0 EXCEPT !.reuse = new] ELSE G0, fr, st.op, new, 0), "create", "nobalance", 0, 0)]
     ELSE IF Collides(W, new)
     THEN \* address collision: pushes 0, the buffer is emptied, no frame (the creation counter is bumped all the same)
          [mem |-> mem, rd |-> <<>>, W |-> W,
           G |-> Hist(AddFlag([G0 EXCEPT !.reuse = ""], fr, st.op, new, 0), "create", "collision", 0, 0)]
     ELSE LET ch == [kind |-> st.op, from |-> fr.ctx, to |-> new, depth |-> fr.depth + 1, ctx |-> new, static |-> FALSE,
                     script |-> st.init, codeB |-> fr.codeB, input |-> <<>>]
              r == Enter(ch, W, [G0 EXCEPT !.reuse = ""])       \* the creator's nonce / creation counter is bumped
              rd2 == IF r.class = "revert" THEN r.ret ELSE IF Bug = "stalecreate" /\ r.class = "ok" THEN rd ELSE <<>>
              \* a successful creation leaves an account with nonce 1 and the returned bytes as code
              W2 == IF r.class = "ok"
                    THEN [r.W EXCEPT !.created = @ \cup {new}, !.coded = IF Len(r.ret) > 0 THEN @ \cup {new} ELSE @]
                    ELSE r.W
          IN [mem |-> mem, rd |-> rd2, W |-> W2,
              G |-> Hist(AddFlag(r.G, fr, st.op, new, IF r.class = "ok" THEN 1 ELSE 0), "create", r.class, Len(r.ret), Len(rd2))]

World0(mode) == [mode |-> mode, logs |-> <<>>, stor |-> {}, created |-> {}, coded |-> {}]

Outcome(mode, prog) ==
  LET root == [kind |-> "ROOT", from |-> "O", to |-> "A", depth |-> 1, ctx |-> "A", static |-> FALSE, script |-> prog.a,
               codeB |-> prog.b, input |-> <<>>]
      r == Enter(root, World0(mode), InitGhost)
  IN [class |-> r.class, output |-> r.ret, logs |-> r.W.logs, frames |-> r.G.frames, flags |-> r.G.flags, ncreate |-> r.G.nc,
      rdhist |-> r.G.rdhist]

\* the buffer after every completed call / creation, stated independently of the rules above
BufferLaw(o) ==
  \A i \in 1..Len(o.rdhist) :
    LET h == o.rdhist[i] IN
    /\ (h[1] = "create" => h[4] = (IF h[2] = "revert" THEN h[3] ELSE 0))          \* empty unless the constructor reverted
    /\ (h[1] # "create" => h[4] = h[3])                                           \* exactly what the callee handed back
    /\ (h[1] = "P1" => h[4] = 0) /\ (h[1] \in {"P2", "P3"} => h[4] = 1)
    /\ (h[2] \in {"invalid", "static", "rdoob", "nobalance", "collision"} => h[3] = 0)          \* exceptional halts hand back nothing

\* ---- what the harness reads off the real EVM ------------------------------------------------------------------------
Obs(o) == [class |-> o.class, output |-> o.output, logs |-> o.logs, flags |-> o.flags,
           frames |-> [i \in 1..Len(o.frames) |-> <<o.frames[i].kind, o.frames[i].from, o.frames[i].to, o.frames[i].class,
                                                     o.frames[i].mem>>]]
====
