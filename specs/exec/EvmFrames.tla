---- MODULE EvmFrames ----
(* C10, part 2: call-frame semantics of the EVM - what a nest of CALL / CALLCODE / DELEGATECALL / STATICCALL / CREATE
   frames does to storage, balances, logs and to the success flag each call pushes.

   A *program* is  [code |-> [contract -> script], bal |-> [contract -> wei]]; the transaction is "origin O calls
   contract A with value 0".  A script is a sequence of steps

     [op |-> "SSTORE", k, v]                       storage[ctx][k] := v
     [op |-> "LOG", t]                             LOG3 with topics (t, CALLER, CALLVALUE) at address ctx
     [op |-> "CALL", kind, to, val, gas]           kind in CALL | CALLCODE | DELEGATECALL | STATICCALL, val in 0..1,
                                                   gas in "all" (everything EIP-150 allows) | "none" (0 gas)
     [op |-> "CREATE", kind, init, val]            kind in CREATE | CREATE2, endowment val in 0..1, constructor script init
     [op |-> "SELFDESTRUCT", to]                   to in contract | "SELF" | "X" (an address that does not exist)
     [op |-> "RETURN"] [op |-> "REVERT"] [op |-> "INVALID"] [op |-> "STOP"]        (end of script = STOP)

   Reference rules (yellow paper / EIPs 7, 140, 150, 211, 214; SELFDESTRUCT as before EIP-6780, the active set is
   Shanghai): a frame takes a snapshot at entry; any failure restores it and makes the caller see 0; REVERT hands the
   remaining gas back, every other failure burns all gas of the frame (gas is not computed here - the classes
   ok / revert / invalid / static / oog are); the static flag is inherited by every descendant and turns SSTORE, LOG,
   CREATE, SELFDESTRUCT and a CALL carrying value into an exceptional halt; DELEGATECALL and CALLCODE run the target's
   code on the caller's storage/address, DELEGATECALL also keeps msg.sender and msg.value; CALL moves the value
   inside the callee's snapshot; a call needing more value than the caller owns pushes 0 without entering a frame;
   SELFDESTRUCT moves the balance at once and removes the account at the END of the transaction.

   mode = "reference" is the specification.  mode = "thor" differs in one rule only - SELFDESTRUCT removes the
   account immediately (runtime/statedb.Suicide -> state.Delete) and storage of an account that is empty at the end
   is dropped (state.Stage) - and exists solely so that the check can tell this known deviation from any other one.

   Ghost data: every frame gets an id (entry order); every storage cell, log, transfer and creation remembers the
   frame that made it.  The invariants are stated on the ghost data, not on the revert rule itself.              *)
EXTENDS Integers, Sequences, FiniteSets, TLC

CONSTANTS Contracts,      \* e.g. {"A", "B", "C"};  "A" is the entry point
          NSlots,         \* storage slots 1..NSlots
          MaxNew,         \* bound on contracts created in one transaction (names N1, N2, ..)
          Bug             \* "none".  "norevert" / "nostatic" plant a defect in the rules below; used only by the
                          \* self-test configs to show that the invariants reject a wrong semantics

NewName(n) == "N" \o ToString(n)
News == {NewName(n) : n \in 1..MaxNew}
AllAddr == Contracts \cup News \cup {"X", "O"}
Cell0 == [v |-> 0, by |-> 0]
EmptyStor == [k \in 1..NSlots |-> Cell0]

\* ---- revertible state S and monotone ghost G --------------------------------------------------------------------
InitState(mode, prog) ==
  [mode |-> mode,
   stor |-> [a \in AllAddr |-> EmptyStor],
   bal |-> [a \in AllAddr |-> IF a \in Contracts THEN prog.bal[a] ELSE IF a = "O" THEN 1000 ELSE 0],
   hascode |-> [a \in AllAddr |-> a \in Contracts],
   master |-> [a \in AllAddr |-> FALSE],
   code |-> [a \in AllAddr |-> IF a \in Contracts THEN prog.code[a] ELSE <<>>],
   dead |-> {},
   logs |-> <<>>, masters |-> <<>>, xfers |-> <<>>]
InitGhost == [frames |-> <<>>, flags |-> <<>>, nc |-> 0, reuse |-> ""]

Alive(S, a) == S.hascode[a] \/ S.master[a]
Exists(S, a) == Alive(S, a) \/ S.bal[a] > 0
CodeOf(S, a) == IF S.hascode[a] THEN S.code[a] ELSE <<>>

Ok(S, G, ret) == [class |-> "ok", S |-> S, G |-> G, ret |-> ret]
Fail(c, S, G) == [class |-> c, S |-> S, G |-> G, ret |-> "none"]      \* S is dropped by the caller

AddFlag(G, fr, kind, to, ok) == [G EXCEPT !.flags = Append(@, <<fr.depth, kind, to, ok>>)]

\* a frame that got no gas fails at its first instruction that costs gas (every step but STOP starts with one;
\* INVALID is an undefined instruction and is refused before gas is charged)
NeedsGas(script) == script # <<>> /\ script[1].op # "STOP"
StarvedClass(script) == IF script[1].op = "INVALID" THEN "invalid" ELSE "oog"

Destruct(fr, st, S) ==
  LET to == IF st.to = "SELF" THEN fr.ctx ELSE st.to
      b == S.bal[fr.ctx]
      S1 == IF b > 0
            THEN [S EXCEPT !.bal[to] = @ + b,
                           !.xfers = Append(@, [from |-> fr.ctx, to |-> to, amt |-> b, by |-> fr.id])]
            ELSE S
  IN IF S.mode = "reference"
     THEN [S1 EXCEPT !.bal[fr.ctx] = 0, !.dead = @ \cup {fr.ctx}]
     ELSE \* thor: the account (code, master, storage, balance) is deleted on the spot - if it exists
          IF Exists(S1, fr.ctx)
          THEN [S1 EXCEPT !.bal[fr.ctx] = 0, !.hascode[fr.ctx] = FALSE, !.master[fr.ctx] = FALSE,
                          !.stor[fr.ctx] = EmptyStor, !.dead = @ \cup {fr.ctx}]
          ELSE S1

RECURSIVE Run(_, _, _, _), Enter(_, _, _, _), DoCall(_, _, _, _), DoCreate(_, _, _, _)

\* execute the steps i.. of frame fr
Run(fr, i, S, G) ==
  IF i > Len(fr.script) THEN Ok(S, G, "none")
  ELSE LET st == fr.script[i] IN
    CASE st.op = "STOP" -> Ok(S, G, "none")
      [] st.op = "RETURN" -> Ok(S, G, "data")
      [] st.op = "REVERT" -> Fail("revert", S, G)
      [] st.op = "INVALID" -> Fail("invalid", S, G)
      [] st.op = "SSTORE" ->
           IF fr.static /\ Bug # "nostatic" THEN Fail("static", S, G)
           ELSE Run(fr, i + 1, [S EXCEPT !.stor[fr.ctx][st.k] = [v |-> st.v, by |-> fr.id]], G)
      [] st.op = "LOG" ->
           IF fr.static THEN Fail("static", S, G)
           ELSE Run(fr, i + 1, [S EXCEPT !.logs = Append(@, [addr |-> fr.ctx, t |-> st.t, sender |-> fr.sender,
                                                             value |-> fr.value, by |-> fr.id])], G)
      [] st.op = "SELFDESTRUCT" ->
           IF fr.static THEN Fail("static", S, G) ELSE Ok(Destruct(fr, st, S), G, "none")
      [] st.op = "CALL" ->
           IF st.kind = "CALL" /\ st.val > 0 /\ fr.static THEN Fail("static", S, G)
           ELSE LET r == DoCall(fr, st, S, G) IN Run(fr, i + 1, r.S, r.G)
      [] st.op = "CREATE" ->
           IF fr.static THEN Fail("static", S, G)
           ELSE LET r == DoCreate(fr, st, S, G) IN Run(fr, i + 1, r.S, r.G)

\* enter frame ch: S0 is the snapshot, S1 the state the callee starts with (value moved, account created)
Enter(ch, S0, S1, G) ==
  LET id == Len(G.frames) + 1
      G1 == [G EXCEPT !.frames = Append(@, [kind |-> ch.kind, from |-> ch.from, to |-> ch.codeaddr, static |-> ch.static,
                                            class |-> "open", parent |-> ch.parent, same |-> FALSE])]
      fr == [ch EXCEPT !.id = id]
      res == IF fr.starved /\ NeedsGas(fr.script) THEN Fail(StarvedClass(fr.script), S1, G1)
             ELSE Run(fr, 1, S1, G1)
      Sok == IF fr.kind \in {"CREATE", "CREATE2"} /\ res.ret = "data" THEN [res.S EXCEPT !.hascode[fr.ctx] = TRUE] ELSE res.S
      Sout == IF res.class = "ok" THEN Sok ELSE IF Bug = "norevert" /\ res.class = "revert" THEN res.S ELSE S0
      G2 == [res.G EXCEPT !.frames[id].class = res.class, !.frames[id].same = (Sout = S0)]
  IN [class |-> res.class, S |-> Sout, G |-> G2]

DoCall(fr, st, S, G) ==
  LET kind == st.kind
      v == IF kind \in {"CALL", "CALLCODE"} THEN st.val ELSE 0
  IN IF v > S.bal[fr.ctx] THEN [S |-> S, G |-> AddFlag(G, fr, kind, st.to, 0)]         \* no frame is entered
     ELSE LET cid == Len(G.frames) + 1
              ch == [kind |-> kind, id |-> 0, parent |-> fr.id, depth |-> fr.depth + 1, from |-> fr.ctx,
                     codeaddr |-> st.to,
                     ctx |-> IF kind \in {"CALL", "STATICCALL"} THEN st.to ELSE fr.ctx,
                     sender |-> IF kind = "DELEGATECALL" THEN fr.sender ELSE fr.ctx,
                     value |-> IF kind = "DELEGATECALL" THEN fr.value ELSE v,
                     static |-> fr.static \/ kind = "STATICCALL",
                     script |-> CodeOf(S, st.to),
                     starved |-> st.gas = "none"]
              S1 == IF kind = "CALL" /\ v > 0
                    THEN [S EXCEPT !.bal[fr.ctx] = @ - v, !.bal[st.to] = @ + v,
                                   !.xfers = Append(@, [from |-> fr.ctx, to |-> st.to, amt |-> v, by |-> cid])]
                    ELSE S
              r == Enter(ch, S, S1, G)
          IN [S |-> r.S, G |-> AddFlag(r.G, fr, kind, st.to, IF r.class = "ok" THEN 1 ELSE 0)]

\* CREATE / CREATE2 with an endowment of st.val wei.  A creation needing more value than the creator owns pushes 0 without
\* entering a frame.  Otherwise the endowment moves INSIDE the creation's snapshot: a failing constructor gives it back.
\* Names N1, N2, .. follow the addresses: a CREATE that fails for lack of balance does not consume its address (the
\* creation counter / nonce is not bumped) and the next CREATE gets it again (G.reuse) unless a creation of either
\* kind got past that point in between; CREATE2 addresses are salted per step and always new here.
DoCreate(fr, st, S, G) ==
  LET fresh == st.kind = "CREATE2" \/ G.reuse = ""
      new == IF fresh THEN NewName(G.nc + 1) ELSE G.reuse
      G0 == IF fresh THEN [G EXCEPT !.nc = @ + 1] ELSE G
      v == st.val
      cid == Len(G.frames) + 1
      ch == [kind |-> st.kind, id |-> 0, parent |-> fr.id, depth |-> fr.depth + 1, from |-> fr.ctx, codeaddr |-> new,
             ctx |-> new, sender |-> fr.ctx, value |-> v, static |-> FALSE, script |-> st.init, starved |-> FALSE]
      \* thor extension (runtime.OnCreateContract): master := creator and a $Master event, inside the snapshot
      Sm == [S EXCEPT !.master[new] = TRUE, !.masters = Append(@, [addr |-> new, creator |-> fr.ctx, by |-> cid])]
      S1 == IF v > 0
            THEN [Sm EXCEPT !.bal[fr.ctx] = @ - v, !.bal[new] = @ + v,
                            !.xfers = Append(@, [from |-> fr.ctx, to |-> new, amt |-> v, by |-> cid])]
            ELSE Sm
      r == Enter(ch, S, S1, [G0 EXCEPT !.reuse = ""])
  IN IF fresh /\ G.nc + 1 > MaxNew THEN Assert(FALSE, "program creates more contracts than MaxNew")
     ELSE IF v > S.bal[fr.ctx]
     THEN [S |-> S, G |-> AddFlag(IF st.kind = "CREATE" THEN [G0 EXCEPT !.reuse = new] ELSE G0, fr, st.kind, new, 0)]
     ELSE [S |-> r.S, G |-> AddFlag(r.G, fr, st.kind, new, IF r.class = "ok" THEN 1 ELSE 0)]

\* end of the transaction
Finalize(S) ==
  IF S.mode = "reference"
  THEN [S EXCEPT !.stor = [a \in AllAddr |-> IF a \in S.dead THEN EmptyStor ELSE @[a]],
                 !.bal = [a \in AllAddr |-> IF a \in S.dead THEN 0 ELSE @[a]],
                 !.hascode = [a \in AllAddr |-> IF a \in S.dead THEN FALSE ELSE @[a]],
                 !.master = [a \in AllAddr |-> IF a \in S.dead THEN FALSE ELSE @[a]]]
  ELSE [S EXCEPT !.stor = [a \in AllAddr |-> IF Exists(S, a) THEN @[a] ELSE EmptyStor]]

Outcome(mode, prog) ==
  LET S0 == InitState(mode, prog)
      root == [kind |-> "ROOT", id |-> 0, parent |-> 0, depth |-> 1, from |-> "O", codeaddr |-> "A", ctx |-> "A",
               sender |-> "O", value |-> 0, static |-> FALSE, script |-> CodeOf(S0, "A"), starved |-> FALSE]
      r == Enter(root, S0, S0, InitGhost)
  IN [S |-> Finalize(r.S), G |-> r.G, S0 |-> S0]

\* ---- the observable projection (what the harness reads off the real EVM) ----------------------------------------
ObsAddrs(o) == Contracts \cup {"X"} \cup {NewName(n) : n \in 1..o.G.nc}
Obs(o) ==
  [stor |-> [a \in ObsAddrs(o) |-> [k \in 1..NSlots |-> o.S.stor[a][k].v]],
   bal |-> [a \in ObsAddrs(o) |-> o.S.bal[a]],
   alive |-> [a \in ObsAddrs(o) |-> Alive(o.S, a)],
   logs |-> [i \in 1..Len(o.S.logs) |-> <<o.S.logs[i].addr, o.S.logs[i].t, o.S.logs[i].sender, o.S.logs[i].value>>],
   masters |-> [i \in 1..Len(o.S.masters) |-> <<o.S.masters[i].addr, o.S.masters[i].creator>>],
   xfers |-> [i \in 1..Len(o.S.xfers) |-> <<o.S.xfers[i].from, o.S.xfers[i].to, o.S.xfers[i].amt>>],
   flags |-> o.G.flags,
   frames |-> [i \in 1..Len(o.G.frames) |-> <<o.G.frames[i].kind, o.G.frames[i].from, o.G.frames[i].to, o.G.frames[i].class>>],
   ncreate |-> o.G.nc]

\* ---- invariants, on the ghost data --------------------------------------------------------------------------------
RECURSIVE Anc(_, _)
Anc(frames, id) == IF id = 0 THEN {} ELSE {id} \cup Anc(frames, frames[id].parent)
\* frames that left something in the final state
Tags(S) == {S.stor[a][k].by : a \in AllAddr, k \in 1..NSlots} \cup {S.logs[i].by : i \in 1..Len(S.logs)}
           \cup {S.masters[i].by : i \in 1..Len(S.masters)} \cup {S.xfers[i].by : i \in 1..Len(S.xfers)}

\* whatever survives in the final state was made by a frame all of whose ancestors (and itself) succeeded; and the
\* state a caller continues with after a failed frame is the state it had before the call
FailedFrameLeavesNoTrace(o) ==
  /\ \A t \in Tags(o.S) \ {0} : \A f \in Anc(o.G.frames, t) : o.G.frames[f].class = "ok"
  /\ \A f \in 1..Len(o.G.frames) : o.G.frames[f].class # "ok" => o.G.frames[f].same
  /\ (o.G.frames[1].class # "ok" => o.S = Finalize(o.S0))
\* nothing that survives was made under a static frame, and a static frame - successful or not - hands back the state
\* it was given
StaticNeverWrites(o) ==
  /\ \A t \in Tags(o.S) \ {0} : \A f \in Anc(o.G.frames, t) : ~o.G.frames[f].static
  /\ \A f \in 1..Len(o.G.frames) : o.G.frames[f].static => o.G.frames[f].same
\* wei is neither minted nor lost except by SELFDESTRUCT (to itself, or value reaching an account already destroyed)
RECURSIVE SumBal(_, _)
SumBal(bal, As) == IF As = {} THEN 0 ELSE LET a == CHOOSE x \in As : TRUE IN bal[a] + SumBal(bal, As \ {a})
ValueConserved(o) ==
  /\ SumBal(o.S.bal, AllAddr) <= SumBal(o.S0.bal, AllAddr)
  /\ (o.S.dead = {} => SumBal(o.S.bal, AllAddr) = SumBal(o.S0.bal, AllAddr))
====
