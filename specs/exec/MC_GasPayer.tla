---- MODULE MC_GasPayer ----
EXTENDS GasPayer, Json
\* export: in -simulate mode every behaviour that reaches the step bound is printed once
Export == (steps = MaxSteps) => PrintT(<<"BEH", ToJson([init |-> [energy |-> hist[1].e0, warm |-> hist[1].warm, cur |-> hist[1].cur], steps |-> SubSeq(hist, 2, Len(hist))])>>)
\* deliberately wrong claim (non-vacuity): the origin never pays
Bogus == last.kind = "tx" => last.payer \notin Users
====
