---- MODULE GasPayer ----
(* Who pays for gas: VIP-191 fee delegation and the prototype builtin's credit plans / sponsorship
   (builtin/prototype, runtime/resolved_tx.go BuyGas, runtime/runtime.go Finalize).  Growth of the specification beyond
   the listed properties (DESIGN section 8), attached to C07.

   One contract C ("self") with a credit plan {credit, rate}; users of C with a used-credit record {used, time} that
   recovers linearly with block time; sponsors that volunteered (Sponsor/Unsponsor) and the one currently selected.
   A transaction of a user to C is paid, in this order, by
        the delegator            if the tx is delegated (and only by it: no fallback)
        the selected sponsor     if the user's credit covers the prepaid amount, the selection is still a sponsor and it
                                 holds the prepaid amount
        the contract C itself    if the credit covers it and C holds the prepaid amount
        the origin               otherwise
   The payer prepays gas * price, the unused part goes back TO THE SAME PAYER, and (sponsor / contract payers) the
   user's credit is charged with the ACTUAL cost (used gas * price), not the prepaid amount.
   Amounts are integers in units of one gas at the base gas price (replay multiplies by 10^15 wei); accounts hold no
   VET, so energy does not grow.  The beneficiary receives 30 % of the fee (pre-GALACTICA reward ratio).            *)
EXTENDS Integers, Sequences, FiniteSets, TLC

CONSTANTS Users, Sponsors,          \* model values / strings
          Credits, Rates,           \* candidate plan parameters
          Dts,                      \* candidate time steps (seconds)
          Clauses,                  \* candidate clause counts of a tx (used gas = 5000 + 16000 * n)
          Extra,                    \* gas limit = used gas + Extra
          MaxSteps,
          Record                    \* TRUE: keep the history (export configs)

VARIABLES plan, users, sponsors, cur, energy, now, steps, last, hist
vars == <<plan, users, sponsors, cur, energy, now, steps, last, hist>>

None == "none"
Accts == Users \cup Sponsors \cup {"contract", "delegator", "benef"}
Absent == [used |-> 0, time |-> 0]                      \* the empty user object
IsUser(u) == users[u] # Absent

Min2(a, b) == IF a <= b THEN a ELSE b
UsedGas(n) == 5000 + 16000 * n
RewardOf(paid) == (paid * 3) \div 10

\* credit available to user u at time t (prototype/types.go userObject.Credit)
CreditAt(u, t) ==
  IF ~IsUser(u) THEN 0
  ELSE LET o == users[u]
           stillUsed == IF o.used = 0 THEN 0
                        ELSE IF t <= o.time THEN o.used ELSE o.used - plan.rate * (t - o.time)
       IN IF stillUsed <= 0 THEN plan.credit
          ELSE IF stillUsed >= plan.credit THEN 0 ELSE plan.credit - stillUsed

PayerFor(u, delegated, prepaid) ==
  IF delegated THEN (IF energy["delegator"] >= prepaid THEN "delegator" ELSE None)
  ELSE IF CreditAt(u, now) >= prepaid /\ cur # None /\ cur \in sponsors /\ energy[cur] >= prepaid THEN cur
  ELSE IF CreditAt(u, now) >= prepaid /\ energy["contract"] >= prepaid THEN "contract"
  ELSE IF energy[u] >= prepaid THEN u
  ELSE None

Log(rec) == IF Record THEN Append(hist, rec) ELSE hist
Step == steps < MaxSteps /\ steps' = steps + 1

\* two starting points: nothing configured, or a plan with every user enrolled and a selected sponsor
Init == /\ \/ /\ plan = [credit |-> 0, rate |-> 0]
              /\ users = [u \in Users |-> Absent]
              /\ sponsors = {} /\ cur = None
           \/ /\ plan = [credit |-> 100000, rate |-> 1000]
              /\ users = [u \in Users |-> [used |-> 0, time |-> 1]]
              /\ sponsors = Sponsors /\ cur = CHOOSE s \in Sponsors : TRUE
        /\ energy \in {[a \in Accts |-> CASE a \in Users -> 1000000 [] a = "contract" -> 40000 [] a = "delegator" -> 60000
                                            [] a = "benef" -> 0 [] OTHER -> IF a = CHOOSE s \in Sponsors : TRUE THEN 50000 ELSE 1000000],
                      [a \in Accts |-> CASE a \in Users -> 0 [] a = "contract" -> 1000000 [] a = "delegator" -> 20000
                                            [] a = "benef" -> 7 [] OTHER -> 35000]}
        /\ now = 1 /\ steps = 0 /\ last = [kind |-> "init"]
        /\ hist = IF Record THEN <<[a |-> "Init", e0 |-> energy, plan |-> plan, warm |-> (cur # None), cur |-> cur]>> ELSE <<>>

SetCreditPlan == /\ Step /\ \E c \in Credits, r \in Rates :
                      /\ plan' = [credit |-> c, rate |-> r]
                      /\ last' = [kind |-> "plan"]
                      /\ hist' = Log([a |-> "SetCreditPlan", credit |-> c, rate |-> r])
                 /\ UNCHANGED <<users, sponsors, cur, energy, now>>
AddUser == /\ Step /\ \E u \in Users : /\ ~IsUser(u)
                                       /\ users' = [users EXCEPT ![u] = [used |-> 0, time |-> now]]
                                       /\ hist' = Log([a |-> "AddUser", user |-> u])
           /\ last' = [kind |-> "user"] /\ UNCHANGED <<plan, sponsors, cur, energy, now>>
RemoveUser == /\ Step /\ \E u \in Users : /\ IsUser(u)
                                          /\ users' = [users EXCEPT ![u] = Absent]
                                          /\ hist' = Log([a |-> "RemoveUser", user |-> u])
              /\ last' = [kind |-> "user"] /\ UNCHANGED <<plan, sponsors, cur, energy, now>>
Sponsor == /\ Step /\ \E s \in Sponsors \ sponsors : /\ sponsors' = sponsors \cup {s}
                                                     /\ hist' = Log([a |-> "Sponsor", sponsor |-> s])
           /\ last' = [kind |-> "sponsor"] /\ UNCHANGED <<plan, users, cur, energy, now>>
Unsponsor == /\ Step /\ \E s \in sponsors : /\ sponsors' = sponsors \ {s}          \* the selection is NOT cleared
                                            /\ hist' = Log([a |-> "Unsponsor", sponsor |-> s])
             /\ last' = [kind |-> "sponsor"] /\ UNCHANGED <<plan, users, cur, energy, now>>
SelectSponsor == /\ Step /\ \E s \in sponsors : /\ cur' = s
                                                /\ hist' = Log([a |-> "SelectSponsor", sponsor |-> s])
                 /\ last' = [kind |-> "sponsor"] /\ UNCHANGED <<plan, users, sponsors, energy, now>>
AdvanceTime == /\ Step /\ \E d \in Dts : now' = now + d /\ hist' = Log([a |-> "AdvanceTime", dt |-> d])
               /\ last' = [kind |-> "time"] /\ UNCHANGED <<plan, users, sponsors, cur, energy>>

ExecTx ==
  /\ Step
  /\ \E u \in Users, delegated \in BOOLEAN, n \in Clauses :
       LET used == UsedGas(n)
           gas == used + Extra
           p == PayerFor(u, delegated, gas)
           paid == used
           rew == RewardOf(paid)
           creditNow == CreditAt(u, now)
           charge == p \notin {None, "delegator", u}         \* sponsor or contract paid: the user's credit is charged
           us1 == IF charge /\ IsUser(u)
                  THEN [users EXCEPT ![u] = [used |-> IF plan.credit - (creditNow - paid) < 0 THEN 0
                                                      ELSE plan.credit - (creditNow - paid), time |-> now]]
                  ELSE users
           e1 == IF p = None THEN energy
                 ELSE [a \in Accts |-> energy[a] - (IF a = p THEN paid ELSE 0) + (IF a = "benef" THEN rew ELSE 0)]
       IN /\ energy' = e1 /\ users' = us1
          /\ last' = [kind |-> "tx", user |-> u, payer |-> p, paid |-> (IF p = None THEN 0 ELSE paid),
                      reward |-> (IF p = None THEN 0 ELSE rew), prepaid |-> gas, before |-> energy, creditBefore |-> creditNow]
          /\ hist' = Log([a |-> "ExecTx", user |-> u, delegated |-> delegated, n |-> n, gas |-> gas,
                          payer |-> p, gasUsed |-> (IF p = None THEN 0 ELSE used), paid |-> (IF p = None THEN 0 ELSE paid),
                          reward |-> (IF p = None THEN 0 ELSE rew),
                          post |-> [energy |-> e1, used |-> [x \in Users |-> us1[x].used], utime |-> [x \in Users |-> us1[x].time]]])
  /\ UNCHANGED <<plan, sponsors, cur, now>>

Next == SetCreditPlan \/ AddUser \/ RemoveUser \/ Sponsor \/ Unsponsor \/ SelectSponsor \/ AdvanceTime \/ ExecTx
Spec == Init /\ [][Next]_vars

\* ---- invariants ----------------------------------------------------------------------------------------------
RECURSIVE SumE(_, _)
SumE(e, S) == IF S = {} THEN 0 ELSE LET a == CHOOSE a \in S : TRUE IN e[a] + SumE(e, S \ {a})

NeverNegative == \A a \in Accts : energy[a] >= 0
CreditInRange == \A u \in Users : CreditAt(u, now) >= 0 /\ CreditAt(u, now) <= plan.credit
\* after a tx: exactly one account paid, exactly the actual cost; the refund went to the account that prepaid;
\* the beneficiary got the reward share; total VTHO change = -paid + reward
OnePayerPays ==
  last.kind = "tx" =>
    IF last.payer = None THEN energy = last.before
    ELSE /\ last.before[last.payer] >= last.prepaid                     \* it could afford the prepayment
         /\ \A a \in Accts \ {"benef"} : energy[a] = last.before[a] - (IF a = last.payer THEN last.paid ELSE 0)
         /\ energy["benef"] = last.before["benef"] + last.reward - (IF last.payer = "benef" THEN last.paid ELSE 0)
         /\ SumE(energy, Accts) = SumE(last.before, Accts) - last.paid + last.reward
\* credit is charged with the actual cost, and only when a sponsor or the contract paid
CreditCharged ==
  last.kind = "tx" =>
    LET u == last.user IN
    IF last.payer \in Sponsors \cup {"contract"}
    THEN IsUser(u) /\ CreditAt(u, now) = last.creditBefore - last.paid /\ last.creditBefore >= last.prepaid
    ELSE CreditAt(u, now) = last.creditBefore
====
