INIT Init
NEXT Next
CONSTANT NCells = 3
CONSTANT Bug = "none"
CONSTANT Profiles = {"mix"}
CONSTANT Deep = TRUE
INVARIANT InvBufferLaw
INVARIANT Export
CHECK_DEADLOCK FALSE
