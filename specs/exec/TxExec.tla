---- MODULE TxExec ----
(* Design-level model of the execution of transactions inside one block (C07).

   Phases of one transaction:
     Resolve     signature, intrinsic gas <= gas, gas <= block gas limit, room in the block, price covers base fee
     BuyGas      choose the payer (delegator > sponsor > contract credit > origin) and prepay gas * price
     Checkpoint  remember the state AFTER the purchase
     ExecClause  one clause: abstract outcome ok / errkeep (REVERT, insufficient balance: unused gas is kept) /
                 errall (INVALID, out of gas: all gas is consumed); a failing clause reverts to the checkpoint,
                 clears the outputs and ends execution
     Finalize    refund counter already applied per clause (capped at used/2); return left-over gas to the payer,
                 reward the beneficiary, update the user's used credit, append the receipt
   The state is abstract: eff = set of <<tx, clause>> effects present, energy per role in gas units (price 1),
   burn = total-sub - total-add of the energy contract, credit = used credit of the origin.
   Properties: Atomic, CannotStartChangesNothing, GasBounds (see below).                                         *)
EXTENDS TxExecRules, FiniteSets, TLC

CONSTANTS Scenarios,      \* set of records [kinds (seq of "ok"|"errkeep"|"errall"), facts, sigok, priceok, gas, intr]
          MaxTx,          \* transactions per block
          Limit,          \* block gas limit
          Uses,           \* candidate raw gas consumption of a clause
          Ctrs            \* candidate refund counters

VARIABLES phase, n, cur, s, outs, eff, energy, burn, credit, payer, ck, s0, blockUsed, rcpts, obs
vars == <<phase, n, cur, s, outs, eff, energy, burn, credit, payer, ck, s0, blockUsed, rcpts, obs>>

Roles == {"origin", "delegator", "sponsor", "contract", "benef"}
RewardOf(g) == g \div 3                      \* abstract: some function of the gas used

Snapshot == [eff |-> eff, energy |-> energy, burn |-> burn, credit |-> credit, blockUsed |-> blockUsed, rcpts |-> rcpts]

Init == /\ phase = "idle" /\ n = 0 /\ cur = [kinds |-> <<>>] /\ s = Start(0, 0) /\ outs = <<>> /\ eff = {}
        /\ energy = [r \in Roles |-> 0] /\ burn = 0 /\ credit = 0 /\ payer = "none"
        /\ ck = [eff |-> {}, energy |-> [r \in Roles |-> 0], burn |-> 0, credit |-> 0]
        /\ blockUsed = 0 /\ rcpts = <<>> /\ obs = [started |-> FALSE]
        /\ s0 = [eff |-> {}, energy |-> [r \in Roles |-> 0], burn |-> 0, credit |-> 0, blockUsed |-> 0, rcpts |-> <<>>]

\* a new transaction arrives
Arrive == /\ phase \in {"idle", "done", "rejected"} /\ n < MaxTx
          /\ \E sc \in Scenarios : cur' = sc
          /\ n' = n + 1 /\ phase' = "new" /\ s0' = Snapshot /\ outs' = <<>> /\ payer' = "none"
          /\ s' = Start(0, 0) /\ obs' = [started |-> FALSE]
          /\ UNCHANGED <<eff, energy, burn, credit, ck, blockUsed, rcpts>>

Resolve == /\ phase = "new"
           /\ IF cur.sigok /\ cur.intr <= cur.gas /\ cur.gas <= Limit /\ cur.priceok /\ Admissible(blockUsed, cur.gas, Limit)
              THEN phase' = "resolved" ELSE phase' = "rejected"
           /\ UNCHANGED <<n, cur, s, outs, eff, energy, burn, credit, payer, ck, s0, blockUsed, rcpts, obs>>

BuyGas == /\ phase = "resolved"
          /\ LET p == PayerOf(cur.facts) IN
             IF p = "none" THEN /\ phase' = "rejected" /\ UNCHANGED <<energy, burn, payer>>
             ELSE /\ phase' = "bought" /\ payer' = p
                  /\ energy' = [energy EXCEPT ![p] = @ - cur.gas]
                  /\ burn' = burn + cur.gas
          /\ UNCHANGED <<n, cur, s, outs, eff, credit, ck, s0, blockUsed, rcpts, obs>>

Checkpoint == /\ phase = "bought"
              /\ ck' = [eff |-> eff, energy |-> energy, burn |-> burn, credit |-> credit]
              /\ s' = Start(cur.gas, cur.intr)
              /\ phase' = "exec"
              /\ UNCHANGED <<n, cur, outs, eff, energy, burn, credit, payer, s0, blockUsed, rcpts, obs>>

RawChoices(kind, in) ==
  IF kind = "errall" THEN {[left |-> 0, ctr |-> c, err |-> TRUE] : c \in Ctrs}
  ELSE {[left |-> in - u, ctr |-> c, err |-> kind # "ok"] : u \in {x \in Uses : x <= in}, c \in Ctrs}

ExecClause == /\ phase = "exec" /\ ~s.reverted /\ s.done < Len(cur.kinds)
              /\ \E raw \in RawChoices(cur.kinds[s.done + 1], s.left) :
                   /\ s' = ClauseStep(s, raw)
                   /\ IF raw.err
                      THEN /\ eff' = ck.eff /\ energy' = ck.energy /\ burn' = ck.burn /\ credit' = ck.credit   \* RevertAll
                           /\ outs' = <<>>
                      ELSE /\ eff' = eff \cup {<<n, s.done + 1>>}
                           /\ outs' = Append(outs, s.done + 1)
                           /\ UNCHANGED <<energy, burn, credit>>
              /\ UNCHANGED <<phase, n, cur, payer, ck, s0, blockUsed, rcpts, obs>>

Finalize == /\ phase = "exec" /\ (s.reverted \/ s.done = Len(cur.kinds))
            /\ LET used == GasUsedOf(cur.gas, s)
                   rew == RewardOf(used)
               IN /\ energy' = [energy EXCEPT ![payer] = @ + s.left, !["benef"] = @ + rew]
                  /\ burn' = burn - s.left - rew
                  /\ credit' = IF payer \in {"sponsor", "contract"} THEN credit + used ELSE credit
                  /\ blockUsed' = blockUsed + used
                  /\ rcpts' = Append(rcpts, used)
                  /\ obs' = [started |-> TRUE, gasUsed |-> used, reward |-> rew, reverted |-> s.reverted, nout |-> Len(outs)]
            /\ phase' = "done"
            /\ UNCHANGED <<n, cur, s, outs, eff, payer, ck, s0>>

Next == Arrive \/ Resolve \/ BuyGas \/ Checkpoint \/ ExecClause \/ Finalize
Spec == Init /\ [][Next]_vars

\* ---- properties -----------------------------------------------------------------------------------------------
ThisTx == {<<n, i>> : i \in 1..Len(cur.kinds)}

\* all clauses or none; on failure the state is the one after the gas purchase plus returned gas, reward and their
\* bookkeeping; outputs empty, flag set
Atomic ==
  phase = "done" =>
    /\ (obs.reverted => eff = s0.eff /\ outs = <<>>)
    /\ (~obs.reverted => eff = s0.eff \cup ThisTx /\ Len(outs) = Len(cur.kinds))
    /\ obs.reverted = (\E i \in 1..Len(cur.kinds) : cur.kinds[i] # "ok")
    /\ \A r \in Roles :
         energy[r] = s0.energy[r] - (IF r = payer THEN obs.gasUsed ELSE 0) + (IF r = "benef" THEN obs.reward ELSE 0)
    /\ burn = s0.burn + obs.gasUsed - obs.reward
    /\ credit = s0.credit + (IF payer \in {"sponsor", "contract"} THEN obs.gasUsed ELSE 0)

CannotStartChangesNothing == phase = "rejected" => Snapshot = s0

RECURSIVE SumSeq(_, _)
SumSeq(q, i) == IF i > Len(q) THEN 0 ELSE q[i] + SumSeq(q, i + 1)

GasBounds ==
  /\ phase = "done" => /\ cur.intr <= obs.gasUsed /\ obs.gasUsed <= cur.gas
                       /\ s.refunds <= s.consumed \div 2
  /\ blockUsed = SumSeq(rcpts, 1) /\ blockUsed <= Limit

StartedIffCanStart ==
  /\ phase = "done" => CanStart(cur.sigok, cur.intr, cur.gas, Limit, cur.priceok, cur.facts)
  /\ phase = "rejected" => ~(CanStart(cur.sigok, cur.intr, cur.gas, Limit, cur.priceok, cur.facts)
                             /\ Admissible(s0.blockUsed, cur.gas, Limit))
====
