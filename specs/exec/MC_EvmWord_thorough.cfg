INIT Init
NEXT Next
CONSTANT NBig = 25
CONSTANT BigShifts = {0, 1, 14, 15, 16, 100, 255}
INVARIANT SmallOk
INVARIANT BigOk
CHECK_DEADLOCK FALSE
