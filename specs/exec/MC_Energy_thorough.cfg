SPECIFICATION Spec
CONSTANTS
  Accts = {"a", "b", "c"}
  InitVET <- MCInitVET
  Amounts = {1, 3}
  Dts = {1, 3}
  RateN = 1
  RateD = 4
  MaxSteps = 7
  Broken = FALSE
INVARIANT VETConserved
INVARIANT SupplyLaw
INVARIANT NoGrowthAfterStop
PROPERTY SettleDiscipline
CHECK_DEADLOCK FALSE
