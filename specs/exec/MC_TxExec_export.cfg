SPECIFICATION Spec
CONSTANTS
  Mode = "export"
  MaxTx = 1
  Limit = 16
  Scenarios <- MCScenarios
  Uses <- MCUses
  Ctrs <- MCCtrs
INVARIANT Atomic
INVARIANT CannotStartChangesNothing
INVARIANT GasBounds
INVARIANT Export
CHECK_DEADLOCK FALSE
