SPECIFICATION Spec
CONSTANTS
  Users = {"u1", "u2"}
  Sponsors = {"s1", "s2"}
  Credits = {0, 40000, 100000}
  Rates = {0, 1000}
  Dts = {5, 30}
  Clauses = {1, 2}
  Extra = 9000
  MaxSteps = 5
  Record = FALSE
INVARIANT NeverNegative
INVARIANT CreditInRange
INVARIANT OnePayerPays
INVARIANT CreditCharged
CHECK_DEADLOCK FALSE
