INIT Init
NEXT Next
CONSTANT Contracts = {"A", "B", "C"}
CONSTANT NSlots = 2
CONSTANT MaxNew = 4
CONSTANT Profile = "depth3"
CONSTANT Deep = FALSE
CONSTANT Bug = "nostatic"
INVARIANT InvFailedFrameLeavesNoTrace
INVARIANT InvStaticNeverWrites
INVARIANT InvValueConserved
CHECK_DEADLOCK FALSE
