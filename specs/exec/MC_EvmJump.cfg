INIT Init
NEXT Next
INVARIANT InvDestsLaw
INVARIANT InvRunLawAndExport
CHECK_DEADLOCK FALSE
