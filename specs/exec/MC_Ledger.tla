---- MODULE MC_Ledger ----
EXTENDS Ledger
CONSTANT Size          \* "quick" | "thorough"
MCAmounts == IF Size = "quick" THEN {Add(E18, FromInt(7))} ELSE {FromInt(1), Add(E18, FromInt(7))}
MCTips == {Zero, FromInt(700000000)}
MCGases == IF Size = "quick" THEN {21000, 9000000} ELSE {21000, 4000000, 9000000}
MCOpsIn(h) == IF h = 1 THEN 2 ELSE 1
MCCurve == FromInt(76800)
\* stand-alone exhaustive check of the recurrence over a grid of parents (ASSUME: evaluated once)
Bases == {BaseFeeFloor, Add(BaseFeeFloor, One), MulSmall(BaseFeeFloor, 3), Add(Pow10(15), FromInt(12345)), Pow10(18),
          Add(BaseFeeFloor, FromInt(7))}
Limits == {1000000, 10000000, 40000000, 39999999}
Fractions == {0, 1, 50, 74, 75, 76, 99, 100}        \* parent gas used as percent of the limit (plus/minus one unit below)
ASSUME \A b \in Bases, lim \in Limits, p \in Fractions, d \in {-1, 0, 1} :
         LET u0 == (lim \div 100) * p + d
             u == IF u0 < 0 THEN 0 ELSE IF u0 > lim THEN lim ELSE u0
             nb == NextBaseFee(lim, u, b)
         IN /\ BaseFeeStepOK(b, nb)
            /\ (u > GasTarget(lim) => GT(nb, b))
            /\ (u = GasTarget(lim) => nb = b)
            /\ (u < GasTarget(lim) => LE(nb, b))
ASSUME GasTarget(40000000) = 30000000 /\ GasTarget(10000000) = 7500000 /\ GasTarget(39999999) = 29999999
ASSUME ISqrt(75000000) = 8660 /\ ISqrt(0) = 0 /\ ISqrt(2147395600) = 46340 /\ ISqrt(2147395599) = 46339
====
