INIT Init
NEXT Next
CONSTANT Contracts = {"A", "B", "C"}
CONSTANT NSlots = 2
CONSTANT MaxNew = 6
CONSTANT Profile = "createv"
CONSTANT Deep = FALSE
CONSTANT Bug = "none"
INVARIANT InvFailedFrameLeavesNoTrace
INVARIANT InvStaticNeverWrites
INVARIANT InvValueConserved
INVARIANT Export
CHECK_DEADLOCK FALSE
