---- MODULE MC_EvmMemory ----
(* Enumeration of program sets for EvmMemory.tla, built like MC_EvmFrames: a state is a program; an initial state fixes
   the script of the helper contract B (one of a few fixed shapes) and the profile; a step appends one instruction
   to the script of A (nothing after an instruction that ends the frame).  BFS = every program of the profile,
   -simulate = random ones.  For every program TLC checks BufferLaw and prints  <<"MEM", json>>  with the program and
   the outcome the specification prescribes; harness/cmd/evmframes (-mem) runs it on the real EVM.              *)
EXTENDS EvmMemory, Json

CONSTANTS Profiles,       \* set of profile names enumerated in this run
          Deep            \* FALSE: quick-tier length bounds, TRUE: thorough-tier bounds

VARIABLE prog             \* [prof, a, b]

Ms(c, v) == [op |-> "MSTORE", c |-> c, v |-> v]
Cl(kind, to, io, il, oo, ol) == [op |-> "CALL", kind |-> kind, to |-> to, io |-> io, il |-> il, oo |-> oo, ol |-> ol]
C1(init, val) == [op |-> "CREATE", init |-> init, val |-> val]
C2(init, val) == [op |-> "CREATE2", init |-> init, val |-> val, salt |-> 0]          \* salt 0: distinct per step
C2s(init, val, salt) == [op |-> "CREATE2", init |-> init, val |-> val, salt |-> salt]
Ss(k, v) == [op |-> "SSTORE", k |-> k, v |-> v]
Sl(k, c) == [op |-> "SLOAD", k |-> k, c |-> c]
Rs(c) == [op |-> "RDSIZE", c |-> c]
Rc(d, o, l) == [op |-> "RDCOPY", d |-> d, o |-> o, l |-> l]
Cd(d, l) == [op |-> "CDCOPY", d |-> d, l |-> l]
Lg(t, o, l) == [op |-> "LOGD", t |-> t, o |-> o, l |-> l]
Ret(o, l) == [op |-> "RETURN", o |-> o, l |-> l]
Rev(o, l) == [op |-> "REVERT", o |-> o, l |-> l]
T(op) == [op |-> op]
Ends == {"STOP", "RETURN", "REVERT", "INVALID"}

\* helper contract shapes
BRet2 == <<Ms(0, 17), Ms(1, 18), Ret(0, 2)>>                      \* returns two words
BRev1 == <<Ms(0, 19), Rev(0, 1)>>                                 \* reverts with one word
BEcho == <<Cd(0, 2), Lg(7, 0, 2), Ret(0, 2)>>                     \* an identity contract that also logs its input
BStop == <<Ms(0, 21)>>                                            \* returns nothing
BNest == <<Cl("CALL", "P4", 0, 0, 0, 0), Cd(0, 1), Cl("STATICCALL", "P2", 0, 1, 1, 1), Rs(2), Ret(0, 3)>>
BOob == <<Cl("CALL", "P4", 0, 1, 0, 0), Rc(0, 1, 1), Ret(0, 1)>>  \* reads beyond the buffer: exceptional halt
BSize == <<Rs(0), Ms(1, 22), Ret(0, 2)>>                          \* reports the size of the buffer it starts with (must be 0)

\* constructor shapes
ICall == <<Cl("CALL", "B", 0, 0, 0, 0)>>                          \* calls B (which may return data), deploys nothing
IRev == <<Ms(0, 23), Rev(0, 1)>>                                  \* reverts with a payload
IInv == <<Ms(0, 24), T("INVALID")>>
IRet == <<Ms(0, 25), Ret(0, 1)>>                                  \* deploys one word of code (00..19: starts with STOP)
IId == <<Ms(0, 26), Cl("CALL", "P4", 0, 1, 1, 1), Rev(1, 1)>>     \* reverts with data that went through identity

\* profile -> [bs (shapes of B), steps (alphabet of A), len]
Prof ==
  [ \* the buffer is a copy: precompiles and an echo contract, writes to memory after the call, reads of the buffer
    alias |-> [bs |-> {BEcho},
               steps |-> {Ms(0, 5), Ms(0, 9), Cl("CALL", "P4", 0, 1, 0, 0), Cl("STATICCALL", "P4", 0, 2, 1, 1),
                          Cl("CALL", "P2", 0, 1, 1, 1), Cl("CALL", "B", 0, 1, 0, 0), Rs(2), Rc(2, 0, 1), Rc(1, 0, 2)}
                         \cup (IF Deep THEN {Ms(1, 6), Cl("DELEGATECALL", "P4", 0, 2, 1, 2)} ELSE {}),
               len |-> IF Deep THEN 5 ELSE 4],
    \* the buffer after creations
    create |-> [bs |-> {BRet2, BRev1},
                steps |-> {Cl("CALL", "B", 0, 0, 0, 0), C2(ICall, 0), C2(ICall, 1), C2(IRev, 0), C2(IInv, 0), C2(IRet, 0),
                           C1(ICall, 0), C1(IRev, 0), C1(IRet, 1), C2(IId, 0), Rs(2), Rc(0, 0, 1), Ms(0, 5)},
                len |-> IF Deep THEN 4 ELSE 3],
    \* out windows, partial copies, reverting / halting / nesting callees, every call kind, logs of buffers
    window |-> [bs |-> {BRet2, BRev1, BOob, BSize} \cup (IF Deep THEN {BStop, BNest} ELSE {}),
                steps |-> {Ms(0, 5), Ms(2, 9)} \cup {Cl("CALL", "B", 0, 1, oo, ol) : oo \in {0, 1}, ol \in {1, 2}}
                          \cup {Cl("STATICCALL", "B", 0, 1, 1, 1), Cl("DELEGATECALL", "B", 0, 1, 1, 1), Cl("CALLCODE", "B", 0, 1, 1, 2),
                                Cl("CALL", "P3", 0, 2, 2, 1), Cl("CALL", "P1", 0, 2, 1, 1), Cl("DELEGATECALL", "P4", 0, 2, 1, 2),
                                Rs(0), Rc(1, 1, 1), Rc(0, 2, 0), Lg(3, 0, 3), Ret(0, 3), Rev(1, 2)}
                          \cup (IF Deep THEN {Cl(k, "B", 0, 1, oo, 0) : k \in {"CALL", "STATICCALL"}, oo \in {0, 1}} ELSE {}),
                len |-> 3],
    \* everything, for simulation
    mix |-> [bs |-> {BRet2, BRev1, BEcho, BStop, BNest, BOob, BSize},
             steps |-> {Ms(c, v) : c \in 0..2, v \in {5, 9}}
                       \cup {Cl(k, to, 0, il, oo, ol) : k \in {"CALL", "STATICCALL", "DELEGATECALL", "CALLCODE"},
                                                        to \in {"B", "P1", "P2", "P3", "P4"}, il \in {0, 2}, oo \in {0, 1}, ol \in {0, 2}}
                       \cup {Cl("CALL", "P4", 1, 2, 0, 2), Cl("CALL", "P4", 1, 1, 0, 3)}
                       \cup {C2(i, v) : i \in {ICall, IRev, IInv, IRet, IId}, v \in {0, 1}} \cup {C1(i, 0) : i \in {ICall, IRev, IRet}}
                       \cup {Rs(c) : c \in 0..2} \cup {Rc(d, o, l) : d \in 0..1, o \in 0..2, l \in 0..2}
                       \cup {Lg(3, 0, 3), Ret(0, 3), Rev(0, 2), T("INVALID")},
             len |-> 6] ]

\* hand-picked programs (profile "fixed"): enumerated as initial states, never extended
IKeep == <<Sl(1, 0), Ss(1, 5)>>          \* constructor: reads slot 1 into memory, writes 5, deploys EMPTY code
Fixed ==
  { \* known finding create2-collision-empty-code: the same CREATE2 address twice, the first creation deployed empty code
    [prof |-> "fixed", a |-> <<C2s(<<>>, 0, 7), C2s(<<>>, 0, 7)>>, b |-> <<>>],
    \* .. and the second constructor run sees the storage the first one left
    [prof |-> "fixed", a |-> <<C2s(IKeep, 0, 7), C2s(IKeep, 0, 7), Rs(2)>>, b |-> <<>>],
    \* control: the first creation deployed code - the second one collides for the reference and for thor alike
    [prof |-> "fixed", a |-> <<C2s(IRet, 0, 7), C2s(IRet, 0, 7), Rs(2)>>, b |-> <<>>],
    \* control: the first creation reverted - no collision, the address is free again
    [prof |-> "fixed", a |-> <<C2s(IRev, 0, 7), C2s(IRev, 0, 7), Rs(2)>>, b |-> <<>>],
    \* storage written by a reverting callee is gone, storage of a succeeding one is read back
    [prof |-> "fixed", a |-> <<Cl("CALL", "B", 0, 0, 0, 0), Ss(1, 9), Sl(1, 1), Cl("CALL", "B", 0, 0, 0, 1)>>,
                       b |-> <<Sl(1, 0), Ss(1, 6), Ret(0, 1)>>] }

Init == \/ ("fixed" \in Profiles /\ prog \in Fixed)
        \/ \E p \in Profiles \ {"fixed"} : \E b \in Prof[p].bs : prog = [prof |-> p, a |-> <<>>, b |-> b]
Next == LET P == Prof[prog.prof] IN
        /\ prog.prof # "fixed"
        /\ Len(prog.a) < P.len
        /\ (prog.a # <<>> => prog.a[Len(prog.a)].op \notin Ends)
        /\ \E st \in P.steps : prog' = [prog EXCEPT !.a = Append(@, st)]

InvBufferLaw == BufferLaw(Outcome("reference", prog))
\* the "thor" outcome can differ only where a CREATE2 address repeats, i.e. in hand-picked programs
Beh == LET e == Obs(Outcome("reference", prog))
           t == IF prog.prof = "fixed" THEN Obs(Outcome("thor", prog)) ELSE e
       IN IF t = e THEN [prog |-> prog, exp |-> e] ELSE [prog |-> prog, exp |-> e, thor |-> t]
Export == PrintT(<<"MEM", ToJson(Beh)>>)
====
