---- MODULE TxExecRules ----
(* The rules of transaction execution that C07 is about, as constant-level operators shared by the design model
   (TxExec.tla) and the trace specification (Trace_TxExec.tla).

   Gas is counted in native integers (gas < 2^31).  A RAW clause outcome is what the EVM reports for one clause:
       [left |-> gas left after the clause, ctr |-> refund counter, err |-> VM error (REVERT, INVALID, out of gas,
        insufficient balance ... all of them make the clause fail)]
   The transaction loop turns raw outcomes into the receipt:
       used_i   = in_i - left_i
       refund_i = min(used_i div 2, ctr_i)            -- refunds never exceed half of the gas consumed
       in_(i+1) = left_i + refund_i
       a failing clause stops execution, reverts to the checkpoint taken after the gas purchase, clears the outputs
       gasUsed  = gas - in_(last+1)                                                                          *)
EXTENDS Integers, Sequences

Min2(a, b) == IF a <= b THEN a ELSE b

\* ---- who pays (runtime/resolved_tx.go BuyGas; VIP-191 delegation, prototype credit/sponsorship) ---------------
\* facts: [delegated, delegFunds, commonTo, creditGE, sponsorSel, sponsorFunds, contractFunds, originFunds]
\*   delegated     the tx carries a delegator signature
\*   commonTo      every clause has the same non-nil recipient (the contract whose credit plan applies)
\*   creditGE      the origin is a user of that contract with credit >= prepaid
\*   sponsorSel    the contract's current sponsor is (still) a registered sponsor
\*   xFunds        x holds at least the prepaid amount of energy
PayerOf(f) ==
  IF f.delegated THEN (IF f.delegFunds THEN "delegator" ELSE "none")         \* a delegated tx never falls back
  ELSE IF f.commonTo /\ f.creditGE /\ f.sponsorSel /\ f.sponsorFunds THEN "sponsor"
  ELSE IF f.commonTo /\ f.creditGE /\ f.contractFunds THEN "contract"
  ELSE IF f.originFunds THEN "origin"
  ELSE "none"

\* a transaction can start iff ...
CanStart(sigok, intr, gas, limit, priceok, f) ==
  /\ sigok /\ intr <= gas /\ gas <= limit /\ priceok /\ PayerOf(f) # "none"

\* ---- the clause loop ---------------------------------------------------------------------------------------
\* s: [left, reverted, nout, done (clauses executed), refunds (sum), consumed (sum of raw used)]
Start(gas, intr) == [left |-> gas - intr, reverted |-> FALSE, nout |-> 0, done |-> 0, refunds |-> 0, consumed |-> 0]

RefundOf(in, raw) == Min2((in - raw.left) \div 2, raw.ctr)

ClauseStep(s, raw) ==
  LET used == s.left - raw.left
      refund == RefundOf(s.left, raw)
  IN [left |-> raw.left + refund,
      reverted |-> raw.err,
      nout |-> IF raw.err THEN 0 ELSE s.nout + 1,
      done |-> s.done + 1,
      refunds |-> s.refunds + refund,
      consumed |-> s.consumed + used]

\* a raw outcome is well-formed for an input gas
RawOK(in, raw) == raw.left >= 0 /\ raw.left <= in /\ raw.ctr >= 0

RECURSIVE Run(_, _, _)
Run(s, raws, i) == IF i > Len(raws) \/ s.reverted THEN s ELSE Run(ClauseStep(s, raws[i]), raws, i + 1)

\* the raw list of an executed tx with n clauses is complete: every clause ran unless an earlier one failed
RawsComplete(raws, n) ==
  /\ Len(raws) <= n
  /\ \A i \in 1..(Len(raws) - 1) : ~raws[i].err
  /\ (Len(raws) < n => (Len(raws) > 0 /\ raws[Len(raws)].err))

GasUsedOf(gas, s) == gas - s.left

\* ---- block-level admission (packer/flow.go Adopt; consensus checks the same sum) -----------------------------
Admissible(blockUsed, gas, limit) == blockUsed + gas <= limit
====
