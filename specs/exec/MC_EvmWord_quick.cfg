INIT Init
NEXT Next
CONSTANT NBig = 6
CONSTANT BigShifts = {0, 1, 15, 16, 255}
INVARIANT SmallOk
INVARIANT BigOk
CHECK_DEADLOCK FALSE
