---- MODULE Trace_EvmWord ----
(* C10, part 1, binding implementation -> model.
   trace.ndjson is written by harness/cmd/evmwords: one line per vector
       {"e":"Op","i":k,"op":"SDIV","a":[18 limbs],"b":[..],"c":[..],"r":[..]}
   where r is what the REAL interpreter (vm.Interpreter via runtime.PrepareClause) left on the stack for
   [PUSH32 c] PUSH32 b PUSH32 a OP.  Every result is recomputed here with the operators of EvmWord.tla (modular
   integer arithmetic on limbs) and must be equal; the line is rejected otherwise.  A line {"e":"Fail"} (the real
   interpreter failed on a valid program) is never accepted.  "i" is the consecutive vector number (a trace may be
   a slice of a recording, so it starts anywhere), so a deleted line is detected as well.                        *)
EXTENDS EvmWord, TLC, Json, TraceLib

Trace == LoadTrace("trace.ndjson")
VARIABLE l
Ev == Trace[l]

Init == HWMInit /\ l = 1
Op == /\ l <= Len(Trace)
      /\ Ev.e = "Op"
      /\ Ev.i = Trace[1].i + l - 1
      /\ Ev.op \in Ops1 \cup Ops2 \cup Ops3
      /\ IsWord(Ev.a) /\ IsWord(Ev.b) /\ IsWord(Ev.c) /\ IsWord(Ev.r)
      /\ Eval(Ev.op, Ev.a, Ev.b, Ev.c) = Ev.r
      /\ l' = l + 1
Next == Op
Spec == Init /\ [][Next]_l

Progress == HWM(l)
TraceAccepted == Accepted(Len(Trace))
====
