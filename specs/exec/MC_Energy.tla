---- MODULE MC_Energy ----
EXTENDS Energy
MCInitVET == [a \in {"a", "b", "c"} |-> CASE a = "a" -> 5 [] a = "b" -> 2 [] OTHER -> 0]
====
