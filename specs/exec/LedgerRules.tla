---- MODULE LedgerRules ----
(* Fee, reward, issuance and base-fee rules of the ledger (C08; the fee part is shared with Trace_TxExec for C07).
   Constant-level module over BigNat.  Everything here is transcribed from the property statements
   (properties.jsonl C08), VIP-191/VIP-251 (EIP-1559 style fee market) and the comments of
   consensus/upgrade/galactica/galactica.go - NOT from the Go arithmetic.  It is reconciled with the implementation
   by the trace specifications on the unchanged tree.

   A fee record (as logged by the drivers):
     [type |-> "legacy" | "dyn", coef |-> 0..255, maxFee, maxPrio (BigNat; dyn only), baseFee (BigNat; Zero before
      GALACTICA), gal |-> BOOLEAN (block is at or after GALACTICA), legacyBase (param legacy-tx-base-gas-price),
      ratio (param reward-ratio, 1e18 = 100 %)]
   work / gas: proved work of a legacy tx (Zero when none) and the tx's gas limit.  The proof-of-work bonus raises the
   OVERALL price of a legacy tx by  min(work div 1000, gas) * legacyBase div gas  (VIP: 1000 work units per gas; the
   monthly decay of the conversion is 1 for block numbers below one month and is not modelled).  The payer is still
   charged the plain price; the bonus only counts for the proposer's reward.                                          *)
EXTENDS BigNat

E18 == Pow10(18)
\* floor(x / 10^18) by single-limb divisions (floor division composes)
DivE18(x) == DivSmall(DivSmall(DivSmall(DivSmall(DivSmall(x, 10000), 10000), 10000), 10000), 100)

\* ---- price a transaction offers ----------------------------------------------------------------------------
LegacyPrice(base, coef) == Add(base, DivSmall(MulSmall(base, coef), 255))        \* base * (1 + coef/255), rounded down

WorkGas(f) == Min(DivSmall(f.work, 1000), FromInt(f.gas))
\* what the tx is worth to the proposer per unit of gas
OverallPrice(f) == IF f.type # "legacy" THEN f.maxFee
                   ELSE IF Len(Norm(f.work)) = 0 THEN LegacyPrice(f.legacyBase, f.coef)
                   ELSE Add(LegacyPrice(f.legacyBase, f.coef), Div(Mul(WorkGas(f), f.legacyBase), FromInt(f.gas)))

\* what the payer is charged per unit of gas
EffPrice(f) == IF f.type = "legacy" THEN LegacyPrice(f.legacyBase, f.coef)
               ELSE Min(f.maxFee, Add(f.maxPrio, f.baseFee))

\* a transaction may only start if its price covers the block base fee (after GALACTICA)
PriceOK(f) == (~f.gal) \/ GE(EffPrice(f), f.baseFee)

Paid(f, gasUsed) == MulInt(EffPrice(f), gasUsed)
Prepaid(f, gas) == MulInt(EffPrice(f), gas)

\* ---- proposer reward ---------------------------------------------------------------------------------------
\* before GALACTICA: ratio (30 %) of the overall fee;  after: the priority part  min(cap - baseFee, maxPriority)
PriorityPerGas(f) ==
  LET cap == OverallPrice(f)
      tip == IF f.type = "legacy" THEN OverallPrice(f) ELSE f.maxPrio
  IN Min(Sub(cap, f.baseFee), tip)                       \* defined when PriceOK(f)
Reward(f, gasUsed) ==
  IF f.gal THEN MulInt(PriorityPerGas(f), gasUsed)
  ELSE DivE18(Mul(MulInt(OverallPrice(f), gasUsed), f.ratio))

\* ---- base fee recurrence -----------------------------------------------------------------------------------
BaseFeeFloor == Pow10(13)                \* 10^13 wei, also the first GALACTICA block's base fee
ChangeDenominator == 8
TargetPercent == 75
\* floor(limit * 75 / 100) without exceeding 32 bits:  limit = 100 q + r
GasTarget(limit) == (limit \div 100) * TargetPercent + ((limit % 100) * TargetPercent) \div 100

\* next base fee from the PARENT header alone: (gas limit, gas used, base fee)
NextBaseFee(pLimit, pUsed, pBase) ==
  LET target == GasTarget(pLimit)
  IN IF pUsed = target THEN Norm(pBase)
     ELSE IF pUsed > target
       THEN LET d == DivSmall(Div(MulInt(pBase, pUsed - target), FromInt(target)), ChangeDenominator)
            IN Add(pBase, Max(d, One))
       ELSE LET d == DivSmall(Div(MulInt(pBase, target - pUsed), FromInt(target)), ChangeDenominator)
            IN Max(Sub(pBase, d), BaseFeeFloor)

\* what the property promises about any step parent -> child
BaseFeeStepOK(pBase, base) ==
  /\ GE(base, BaseFeeFloor)
  /\ LE(MulSmall(AbsDiff(base, pBase), ChangeDenominator), pBase)       \* |delta| <= parent / 8

\* ---- staking issuance (proof of stake) ---------------------------------------------------------------------
\* reward per block = curveFactor * sqrt(total locked stake in VET) * 10^18 / blocksPerYear
RECURSIVE ISqrtR(_, _, _)
ISqrtR(n, lo, hi) == IF lo = hi THEN lo            \* invariant lo^2 <= n < (hi+1)^2, hi <= 46340
                     ELSE LET mid == (lo + hi + 1) \div 2
                          IN IF mid * mid <= n THEN ISqrtR(n, mid, hi) ELSE ISqrtR(n, lo, mid - 1)
ISqrt(n) == ISqrtR(n, 0, 46340)
BlocksPerYearA == 1600                   \* 8640 * 365 = 3 153 600 = 1600 * 1971
BlocksPerYearB == 1971
StakingReward(curve, stakedVET) ==
  DivSmall(DivSmall(Mul(MulInt(curve, ISqrt(stakedVET)), E18), BlocksPerYearA), BlocksPerYearB)

\* ---- block-level equations ---------------------------------------------------------------------------------
\* rs: sequence of receipts [gasUsed, paid, reward]
RECURSIVE SumField(_, _, _)
SumField(rs, i, which) == IF i > Len(rs) THEN Zero
                          ELSE Add(IF which = "paid" THEN rs[i].paid ELSE rs[i].reward, SumField(rs, i + 1, which))
RECURSIVE SumGas(_, _)
SumGas(rs, i) == IF i > Len(rs) THEN 0 ELSE rs[i].gasUsed + SumGas(rs, i + 1)

\* total VTHO after = total before (both at the new block time) + rewards - paid + issued
VTHOEquation(pre, post, rs, issued) ==
  Eq(Add(post, SumField(rs, 1, "paid")), Add(Add(pre, SumField(rs, 1, "reward")), issued))
====
