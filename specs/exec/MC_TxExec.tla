---- MODULE MC_TxExec ----
(* Model-checking harness for TxExec.tla.
   MC_TxExec.cfg        exhaustive: every clause-class sequence of length 1..3 x payer setups x start conditions x gas
                        choices x raw outcomes (consumption, refund counter); one tx per block.
   MC_TxExec_block.cfg  three transactions per block, few shapes: block gas used = sum of receipts <= limit.
   MC_TxExec_facts.cfg  every combination of the eight payer facts.
   MC_TxExec_export*.cfg  enumerates CONCRETE scenarios (clause kinds that cmd/txexec compiles to real contracts) and
                        prints the design model's verdict for each as  <<"SCN", json>>  (model -> implementation).     *)
EXTENDS TxExec, Json

CONSTANTS Mode            \* "classes" | "block" | "facts" | "export" | "exportfull"

Classes == {"ok", "errkeep", "errall"}
SeqsUpTo(S, k) == UNION {[1..m -> S] : m \in 1..k}

F(del, df, ct, cg, ss, sf, cf, of) ==
  [delegated |-> del, delegFunds |-> df, commonTo |-> ct, creditGE |-> cg, sponsorSel |-> ss, sponsorFunds |-> sf,
   contractFunds |-> cf, originFunds |-> of]
Setup(name, ct) ==
  CASE name = "plain"     -> F(FALSE, FALSE, ct, FALSE, FALSE, FALSE, FALSE, TRUE)
    [] name = "delegated" -> F(TRUE, TRUE, ct, FALSE, FALSE, FALSE, FALSE, TRUE)
    [] name = "sponsored" -> F(FALSE, FALSE, ct, TRUE, TRUE, TRUE, TRUE, TRUE)
    [] name = "credit"    -> F(FALSE, FALSE, ct, TRUE, FALSE, FALSE, TRUE, TRUE)
    [] name = "broke"     -> F(FALSE, FALSE, ct, FALSE, FALSE, FALSE, FALSE, FALSE)
SetupNames == {"plain", "delegated", "sponsored", "credit", "broke"}
AllFacts == {F(a, b, c, d, e, f, g, h) : a, b, c, d, e, f, g, h \in BOOLEAN}

Sc(kinds, facts, sigok, priceok, gas, intr) ==
  [kinds |-> kinds, facts |-> facts, sigok |-> sigok, priceok |-> priceok, gas |-> gas, intr |-> intr]

\* ---- concrete clause kinds (the table of cmd/txexec) ----------------------------------------------------------
OkU == {"store", "storeval", "nest", "nestok", "nestinv", "clear", "send", "ecall", "nest3sd", "nestcreate", "nestcreate2"}
OkOther == {"xfer", "energy", "sd", "sdself", "sdben"}
OkNil == {"create"}
KeepU == {"revert", "nestdie"}
KeepOther == {"xferfail", "diesd"}
KeepNil == {"createfail"}
AllU == {"invalid", "oog"}
Kinds == OkU \cup OkOther \cup OkNil \cup KeepU \cup KeepOther \cup KeepNil \cup AllU
ClassOf(k) == IF k \in OkU \cup OkOther \cup OkNil THEN "ok" ELSE IF k \in AllU THEN "errall" ELSE "errkeep"
ToU(k) == k \in OkU \cup KeepU \cup AllU
CommonTo(names) == \A i \in 1..Len(names) : ToU(names[i])
Core == {"store", "sdself", "sdben", "clear", "revert", "invalid", "oog"}

Concrete(names, setup, txtype, start) ==
  [kinds |-> [i \in 1..Len(names) |-> ClassOf(names[i])], names |-> names, setup |-> setup, txtype |-> txtype, start |-> start,
   facts |-> Setup(setup, CommonTo(names)), sigok |-> start # "badsig", priceok |-> start # "lowprice",
   gas |-> CASE start = "lowgas" -> 3 [] start = "overlimit" -> Limit + 1 [] OTHER -> 12, intr |-> 4]

ExportSeqs(full) == IF full THEN SeqsUpTo(Kinds, 3) ELSE SeqsUpTo(Kinds, 2) \cup [1..3 -> Core]
ExportScenarios(full) ==
  {Concrete(ns, su, tt, "ok") : ns \in ExportSeqs(full), su \in SetupNames \ {"broke"}, tt \in {"legacy", "dyn"}}
  \cup {Concrete(ns, su, tt, st) : ns \in {<<"store">>, <<"xfer", "store">>}, su \in SetupNames, tt \in {"legacy", "dyn"},
                                   st \in {"badsig", "lowgas", "overlimit"}}
  \cup {Concrete(ns, su, "dyn", "lowprice") : ns \in {<<"store">>, <<"store", "revert">>}, su \in SetupNames}
  \cup {Concrete(<<"store">>, "broke", tt, "ok") : tt \in {"legacy", "dyn"}}
  \cup {[Concrete(ns, "plain", "legacy", "ok") EXCEPT !.setup = "matrix", !.facts = [f EXCEPT !.commonTo = CommonTo(ns)]] :
          ns \in {<<"store">>, <<"xfer">>}, f \in AllFacts}

MCScenarios ==
  CASE Mode = "classes" ->
         {Sc(k, Setup(su, ct), so, po, g, 4) : k \in SeqsUpTo(Classes, 3), su \in SetupNames, ct \in BOOLEAN,
                                               so \in BOOLEAN, po \in BOOLEAN, g \in {3, 4, 9, 14, 17}}
    [] Mode = "block" ->
         {Sc(k, Setup("plain", FALSE), TRUE, TRUE, g, 4) : k \in {<<"ok">>, <<"errall">>, <<"ok", "errkeep">>}, g \in {4, 7, 9}}
    [] Mode = "facts" -> {Sc(<<"ok">>, f, TRUE, TRUE, 9, 4) : f \in AllFacts}
    [] Mode = "export" -> ExportScenarios(FALSE)
    [] Mode = "exportfull" -> ExportScenarios(TRUE)

MCUses == IF Mode \in {"export", "exportfull"} THEN {1} ELSE {0, 1, 2, 5}
MCCtrs == IF Mode \in {"export", "exportfull"} THEN {0} ELSE {0, 1, 4}

\* ---- export ---------------------------------------------------------------------------------------------------
Verdict ==
  IF phase = "done"
  THEN [started |-> TRUE, payer |-> payer, reverted |-> obs.reverted, nout |-> obs.nout,
        applied |-> IF obs.reverted THEN "none" ELSE "all"]
  ELSE [started |-> FALSE, payer |-> "none", reverted |-> FALSE, nout |-> 0, applied |-> "none"]
Export ==
  (phase \in {"done", "rejected"}) =>
     PrintT(<<"SCN", ToJson([kinds |-> cur.names, setup |-> cur.setup, txtype |-> cur.txtype, start |-> cur.start,
                              facts |-> cur.facts, exp |-> Verdict])>>)

\* sanity: a deliberately wrong claim that TLC must refute (used by the check to show the config is not vacuous)
Bogus == phase = "done" => ~obs.reverted
====
