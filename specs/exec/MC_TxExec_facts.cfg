SPECIFICATION Spec
CONSTANTS
  Mode = "facts"
  MaxTx = 1
  Limit = 16
  Scenarios <- MCScenarios
  Uses <- MCUses
  Ctrs <- MCCtrs
INVARIANT Atomic
INVARIANT CannotStartChangesNothing
INVARIANT GasBounds
INVARIANT StartedIffCanStart
CHECK_DEADLOCK FALSE
