---- MODULE MC_EvmFrames ----
(* Exhaustive enumeration of program sets for EvmFrames.tla.
   A state is a program; the initial states are the empty programs (one per balance assignment); a step appends one
   instruction to the script of a contract (A is completed first, then B, then C, nothing is appended after an
   instruction that ends the frame), so that every program over the profile's alphabets and length bounds is
   reached exactly once.  BFS = all programs; -simulate = random programs.
   For every program TLC
     * evaluates the invariants of EvmFrames on the reference outcome, and
     * prints one line  <<"BEH", json>>  with the program, the reference outcome (exp) and - only where it differs -
       the outcome under thor's immediate-SELFDESTRUCT rule (thor); checks/evmcommon.py feeds these lines to
       harness/cmd/evmframes, which runs the programs on the real EVM.                                            *)
EXTENDS EvmFrames, Json

CONSTANTS Profile,        \* name of the alphabet/length profile, see Prof below
          Deep            \* FALSE: quick-tier length bounds, TRUE: thorough-tier bounds

VARIABLE prog

Sst(k, v) == [op |-> "SSTORE", k |-> k, v |-> v]
Lg(t) == [op |-> "LOG", t |-> t]
Cl(kind, to, val, gas) == [op |-> "CALL", kind |-> kind, to |-> to, val |-> val, gas |-> gas]
Cr(init) == [op |-> "CREATE", kind |-> "CREATE", init |-> init, val |-> 0]
Crv(kind, init, val) == [op |-> "CREATE", kind |-> kind, init |-> init, val |-> val]
Sd(to) == [op |-> "SELFDESTRUCT", to |-> to]
T(op) == [op |-> op]
Kinds == {"CALL", "CALLCODE", "DELEGATECALL", "STATICCALL"}
\* every way to call a target: 4 kinds with all gas, 4 kinds starved, the two value-carrying kinds with 1 wei
CallsTo(Ts) == {Cl(k, t, 0, "all") : k \in Kinds, t \in Ts} \cup {Cl(k, t, 0, "none") : k \in Kinds, t \in Ts}
               \cup {Cl(k, t, 1, "all") : k \in {"CALL", "CALLCODE"}, t \in Ts}
FullGas(Ts) == {Cl(k, t, 0, "all") : k \in Kinds, t \in Ts} \cup {Cl("CALL", t, 1, "all") : t \in Ts}
Ends == {"STOP", "RETURN", "REVERT", "INVALID", "SELFDESTRUCT"}

Inits == {<<Sst(1, 7), Lg(3)>>, <<Sst(1, 7), T("RETURN")>>, <<Lg(3), T("REVERT")>>, <<Sst(1, 7), T("INVALID")>>,
          <<Cl("CALL", "B", 0, "all"), Sst(2, 7)>>, <<Lg(3), Sd("X")>>}

NoSteps == [steps |-> {}, len |-> 0]
\* profile -> contract -> [steps, len]
Prof ==
  [ \* two levels, every call kind / gas / value, every way the callee can end
    calls2 |-> [A |-> [steps |-> {Sst(1, 1), Lg(1), T("REVERT"), T("INVALID")} \cup CallsTo({"B"}), len |-> IF Deep THEN 3 ELSE 2],
                B |-> [steps |-> {Sst(1, 2), Lg(2), Sd("X"), T("REVERT"), T("INVALID")}, len |-> 2],
                C |-> NoSteps],
    \* three levels: inheritance of the static flag, delegate chains, value through the levels
    depth3 |-> [A |-> [steps |-> {Lg(1)} \cup FullGas({"B"}), len |-> 2],
                B |-> [steps |-> {Sst(1, 2), Lg(2), T("REVERT")} \cup FullGas({"C"}), len |-> 2],
                C |-> [steps |-> {Sst(2, 3), Lg(3), Sd("A"), T("REVERT"), T("INVALID")}, len |-> IF Deep THEN 2 ELSE 1]],
    \* contract creation inside and outside failing / static / delegated frames
    create |-> [A |-> [steps |-> {Sst(1, 1), T("REVERT")} \cup {Cr(i) : i \in Inits}
                                 \cup {Cl(k, "B", 0, "all") : k \in {"CALL", "DELEGATECALL", "STATICCALL"}}, len |-> 3],
                B |-> [steps |-> {Cr(<<Lg(3), T("RETURN")>>), Sst(1, 2), T("REVERT")}, len |-> 2],
                C |-> NoSteps],
    \* creations carrying value: the endowment moves inside the creation's snapshot (a failing constructor gives it back),
    \* creations the creator cannot afford, CREATE and CREATE2, creators running on a delegated context
    createv |-> [A |-> [steps |-> {Sst(1, 1), T("REVERT"), Cl("CALL", "B", 1, "all"), Cl("DELEGATECALL", "B", 0, "all"),
                                   Cr(<<Sst(1, 7), Lg(3)>>)}
                                  \cup {Crv("CREATE", i, 1) : i \in {<<Sst(1, 7), Lg(3)>>, <<Lg(3), T("REVERT")>>,
                                                                     <<Sst(1, 7), T("INVALID")>>, <<Lg(3), Sd("X")>>}}
                                  \cup {Crv("CREATE2", i, 1) : i \in {<<Lg(3), T("REVERT")>>, <<Sst(1, 7), T("RETURN")>>}},
                        len |-> IF Deep THEN 3 ELSE 2],
                 B |-> [steps |-> {Crv("CREATE", <<Lg(3), T("REVERT")>>, 1), Crv("CREATE", <<Sst(1, 7)>>, 1), Sst(1, 2), T("REVERT")},
                        len |-> 2],
                 C |-> NoSteps],
    \* SELFDESTRUCT: beneficiaries, use after destruction, destruction in reverted / delegated frames
    destruct |-> [A |-> [steps |-> {Sst(1, 1), Lg(1), T("REVERT"), Sd("B"), Sd("SELF")}
                                   \cup {Cl(k, "B", v, "all") : k \in {"CALL", "DELEGATECALL", "CALLCODE"}, v \in {0}}
                                   \cup {Cl("CALL", "B", 1, "all")}, len |-> 3],
                  B |-> [steps |-> {Sst(1, 2), Lg(2), Sd("X"), Sd("A"), Sd("SELF"), T("REVERT")}, len |-> IF Deep THEN 3 ELSE 2],
                  C |-> NoSteps],
    \* everything at once, for simulation
    mix |-> [A |-> [steps |-> {Sst(1, 1), Lg(1), T("REVERT"), T("INVALID"), Sd("B"), Sd("SELF")} \cup CallsTo({"B", "C"})
                              \cup {Cr(i) : i \in Inits}, len |-> 3],
             B |-> [steps |-> {Sst(1, 2), Sst(2, 2), Lg(2), T("REVERT"), T("INVALID"), T("RETURN"), Sd("X"), Sd("A"), Sd("SELF")}
                              \cup CallsTo({"C"}) \cup {Cr(<<Lg(3), T("RETURN")>>)}, len |-> 3],
             C |-> [steps |-> {Sst(1, 3), Sst(2, 3), Lg(3), T("REVERT"), T("INVALID"), Sd("A"), Sd("X"), Sd("SELF")}, len |-> 3]]
  ]
\* hand-picked regression programs (profile "fixed"): enumerated as initial states, never extended
NoC == [c \in Contracts |-> <<>>]
Fixed ==
  { \* known finding selfdestruct-immediate-delete: the account is used again after its SELFDESTRUCT
    [code |-> [NoC EXCEPT !["A"] = <<Cl("CALL", "B", 0, "all"), Cl("CALL", "B", 0, "all")>>,
                          !["B"] = <<Lg(2), Sst(1, 2), Sd("X")>>], bal |-> [A |-> 1, B |-> 1, C |-> 0]],
    \* value sent to an account destroyed earlier in the transaction
    [code |-> [NoC EXCEPT !["A"] = <<Cl("CALL", "B", 0, "all"), Cl("CALL", "B", 1, "all"), Sst(1, 1)>>,
                          !["B"] = <<Sst(1, 2), Sd("SELF")>>], bal |-> [A |-> 1, B |-> 1, C |-> 0]],
    \* destruction inside a frame that reverts afterwards is undone
    [code |-> [NoC EXCEPT !["A"] = <<Cl("CALL", "B", 0, "all"), Cl("CALL", "C", 0, "all")>>,
                          !["B"] = <<Cl("DELEGATECALL", "C", 0, "all"), Lg(2), T("REVERT")>>,
                          !["C"] = <<Lg(3), Sd("X")>>], bal |-> [A |-> 1, B |-> 1, C |-> 1]],
    \* static flag through three levels, delegated writer
    [code |-> [NoC EXCEPT !["A"] = <<Cl("STATICCALL", "B", 0, "all"), Cl("CALL", "B", 1, "all"), Lg(1)>>,
                          !["B"] = <<Cl("DELEGATECALL", "C", 0, "all"), Cl("CALL", "C", 1, "all"), Sst(2, 2)>>,
                          !["C"] = <<Lg(3), Sst(1, 3)>>], bal |-> [A |-> 1, B |-> 0, C |-> 0]],
    \* creation undone by a failing creator; creation under a static frame
    [code |-> [NoC EXCEPT !["A"] = <<Cl("CALL", "B", 0, "all"), Cl("STATICCALL", "B", 0, "all"), Cr(<<Sst(1, 7), Lg(3), T("RETURN")>>)>>,
                          !["B"] = <<Cr(<<Sst(2, 7), T("RETURN")>>), Sst(1, 2), T("INVALID")>>],
     bal |-> [A |-> 0, B |-> 0, C |-> 0]] }

P == IF Profile = "fixed" THEN [c \in Contracts |-> NoSteps] ELSE Prof[Profile]
Bals == IF Profile = "createv" THEN {[A |-> 1, B |-> 0, C |-> 0], [A |-> 1, B |-> 1, C |-> 0]}
        ELSE IF Profile \in {"calls2", "depth3", "destruct", "mix"}
        THEN {[A |-> 1, B |-> 0, C |-> 0], [A |-> 0, B |-> 1, C |-> 0]} ELSE {[A |-> 1, B |-> 0, C |-> 0]}

Rank(c) == CASE c = "A" -> 1 [] c = "B" -> 2 [] c = "C" -> 3
CanAppend(c) ==
  LET s == prog.code[c] IN
  /\ Len(s) < P[c].len
  /\ (s # <<>> => s[Len(s)].op \notin Ends)
  /\ \A d \in Contracts : Rank(d) > Rank(c) => prog.code[d] = <<>>

Init == IF Profile = "fixed" THEN prog \in Fixed
        ELSE prog \in {[code |-> [c \in Contracts |-> <<>>], bal |-> b] : b \in Bals}
Next == \E c \in Contracts : /\ CanAppend(c)
                             /\ \E st \in P[c].steps : prog' = [prog EXCEPT !.code[c] = Append(@, st)]

Ref == Outcome("reference", prog)
InvFailedFrameLeavesNoTrace == FailedFrameLeavesNoTrace(Ref)
InvStaticNeverWrites == StaticNeverWrites(Ref)
InvValueConserved == ValueConserved(Ref)

HasDestruct(script) == \E i \in 1..Len(script) : script[i].op = "SELFDESTRUCT" \/ (script[i].op = "CREATE" /\
                          \E j \in 1..Len(script[i].init) : script[i].init[j].op = "SELFDESTRUCT")
Beh == LET e == Obs(Outcome("reference", prog))
           t == IF \E c \in Contracts : HasDestruct(prog.code[c]) THEN Obs(Outcome("thor", prog)) ELSE e
       IN IF t = e THEN [prog |-> prog, exp |-> e] ELSE [prog |-> prog, exp |-> e, thor |-> t]
Export == PrintT(<<"BEH", ToJson(Beh)>>)
====
