SPECIFICATION Spec
CONSTANTS
  Accts = {"a", "b"}
  Amounts <- MCAmounts
  Tips <- MCTips
  GasLimit = 10000000
  Gases <- MCGases
  OpsIn <- MCOpsIn
  Size = "thorough"
  MaxBlocks = 2
  AllowF3 = FALSE
  PoS = TRUE
  Curve <- MCCurve
  StakedVET = 75000000
INVARIANT VETConserved
INVARIANT VTHOLaw
INVARIANT BaseFeeLaw
INVARIANT GasLaw
PROPERTY IssueLaw
CHECK_DEADLOCK FALSE
