INIT Init
NEXT Next
CONSTANT NCells = 3
CONSTANT Bug = "stalecreate"
CONSTANT Profiles = {"create"}
CONSTANT Deep = FALSE
INVARIANT InvBufferLaw
CHECK_DEADLOCK FALSE
