---- MODULE MC_EvmJump ----
(* Byte programs for EvmJump.tla, exported as  <<"JMP", json>>  with the outcome the reference prescribes.

   straddle family: a PUSHn (every n in 1..32) placed at every alignment 0..7 so that its immediate data straddles
   (or just misses) the code offsets 8, 16, 24, 32, 64, with one 0x5b inside the immediate - at its first byte, its
   last byte, the byte just before and the byte at the boundary.  The program head jumps (JUMP, or JUMPI taken / not
   taken) to that 0x5b (reference: invalid jump) or to the real JUMPDEST behind the PUSH (reference: the marker
   SSTORE runs).  Variant: the code ends inside the immediate (truncated PUSH).
   stack family: 1023 / 1024 / 1025 pushes, DUP16 / SWAP16 with one item too few, DUP on a full stack, JUMP on an empty
   stack, an undefined instruction.
   One initial state per n, the programs of that n are its successors (so the TLC workers share the evaluation).  *)
EXTENDS EvmJump, Json, TLC

VARIABLE prog

Rep(b, k) == [i \in 1..k |-> b]
Bounds == {8, 16, 24, 32, 64}
Forms == {"jump", "jumpi1", "jumpi0"}
HeadLen(form) == IF form = "jump" THEN 3 ELSE 5
HeadCode(form, q) == CASE form = "jump" -> <<Push(1), q, JUMP>>
                   [] form = "jumpi1" -> <<Push(1), 1, Push(1), q, JUMPI>>
                   [] form = "jumpi0" -> <<Push(1), 0, Push(1), q, JUMPI>>
TailCode == <<JUMPDEST, Push(1), 7, Push(1), 1, SSTORE, STOP>>          \* marker: slot 1 := 7
\* PUSHn at position p, 0x5b at immediate offset j; target "imm" = that byte, "tail" = the JUMPDEST behind the PUSH
Code(form, n, p, j, target, trunc) ==
  LET q == IF target = "imm" THEN p + 1 + j ELSE p + 1 + n
      imm == [i \in 1..n |-> IF i = j + 1 THEN JUMPDEST ELSE 0]
      full == HeadCode(form, q) \o Rep(JUMPDEST, p - HeadLen(form)) \o <<Push(n)>> \o imm \o TailCode
  IN IF trunc THEN SubSeq(full, 1, p + 1 + j + 1) ELSE full        \* truncated: the code ends right after the 0x5b

\* the PUSH opcode sits at alignment a below boundary b:  p = b - 8 + a;  the boundary byte is immediate offset 7 - a
\* 0x5b positions: always the last byte of the immediate and the byte at the boundary; at boundary 16 also the first byte,
\* the byte before the boundary and the byte at the next boundary.  Truncated code and the valid-target control at two
\* boundaries each.  JUMPI heads for five sizes only.
JumpiNs == {1, 5, 12, 20, 31}
Js(n, b, a) == ({n - 1, 7 - a} \cup (IF b = 16 THEN {0, 6 - a, 15 - a} ELSE {})) \cap (0..(n - 1))
Straddle(n) ==
  UNION {
    LET p == b - 8 + a IN
    IF p < HeadLen(f) \/ (f # "jump" /\ n \notin JumpiNs) THEN {}
    ELSE {[fam |-> "straddle", form |-> f, n |-> n, p |-> p, j |-> j, target |-> "imm", trunc |-> FALSE] : j \in Js(n, b, a)}
         \cup (IF b \in {16, 64}
               THEN {[fam |-> "straddle", form |-> f, n |-> n, p |-> p, j |-> j, target |-> "imm", trunc |-> TRUE] :
                        j \in {x \in {0, 7 - a} : x >= 0 /\ x < n - 1}}
               ELSE {})
         \cup (IF b \in {8, 64}
               THEN {[fam |-> "straddle", form |-> f, n |-> n, p |-> p, j |-> 0, target |-> "tail", trunc |-> FALSE]}
               ELSE {})
    : f \in Forms, b \in Bounds, a \in 0..7 }

Pushes(k) == [i \in 1..(2 * k) |-> IF i % 2 = 1 THEN Push(1) ELSE 1]
StackProgs ==
  { [fam |-> "stack", name |-> "push1023", code |-> Pushes(1023) \o <<SSTORE, STOP>>],
    [fam |-> "stack", name |-> "push1024", code |-> Pushes(1024) \o <<SSTORE, STOP>>],
    [fam |-> "stack", name |-> "push1025", code |-> Pushes(1025) \o <<SSTORE, STOP>>],
    [fam |-> "stack", name |-> "dupfull", code |-> Pushes(1024) \o <<128, SSTORE, STOP>>],
    [fam |-> "stack", name |-> "dup16-15", code |-> Pushes(15) \o <<143, Push(1), 2, SSTORE>>],
    [fam |-> "stack", name |-> "dup16-16", code |-> Pushes(16) \o <<143, Push(1), 2, SSTORE>>],
    [fam |-> "stack", name |-> "swap16-16", code |-> Pushes(16) \o <<159, Push(1), 2, SSTORE>>],
    [fam |-> "stack", name |-> "swap16-17", code |-> <<Push(1), 9>> \o Pushes(16) \o <<159, Push(1), 3, SSTORE>>],
    [fam |-> "stack", name |-> "jump-empty", code |-> <<JUMP>>],
    [fam |-> "stack", name |-> "jumpi-one", code |-> <<Push(1), 4, JUMPI, STOP, JUMPDEST>>],
    [fam |-> "stack", name |-> "sstore-one", code |-> <<Push(1), 1, SSTORE>>],
    [fam |-> "stack", name |-> "pop-empty", code |-> <<POP>>],
    [fam |-> "stack", name |-> "undefined", code |-> <<Push(1), 7, Push(1), 1, SSTORE, 12, STOP>>],
    [fam |-> "stack", name |-> "jump-huge", code |-> <<Push(32)>> \o Rep(1, 31) \o <<4, JUMP, JUMPDEST>>],
    [fam |-> "stack", name |-> "jump-beyond", code |-> <<Push(1), 9, JUMP, JUMPDEST>>],
    [fam |-> "stack", name |-> "push32-trunc", code |-> <<Push(1), 3, JUMP, JUMPDEST, Push(32), JUMPDEST, JUMPDEST>>] }

CodeOf(x) == IF x.fam = "stack" THEN x.code ELSE Code(x.form, x.n, x.p, x.j, x.target, x.trunc)

Init == prog \in {[fam |-> "start", n |-> n] : n \in 0..32}
Next == /\ prog.fam = "start"
        /\ \/ (prog.n = 0 /\ prog' \in StackProgs)
           \/ (prog.n > 0 /\ prog' \in Straddle(prog.n))

IsProg == prog.fam # "start"
InvDestsLaw == IsProg => DestsLaw(CodeOf(prog))
Meta == IF prog.fam = "stack" THEN [fam |-> "stack", name |-> prog.name]
        ELSE [fam |-> "straddle", form |-> prog.form, n |-> prog.n, p |-> prog.p, j |-> prog.j, target |-> prog.target, trunc |-> prog.trunc]
\* RunLaw and the export share one evaluation of the run
InvRunLawAndExport == IsProg => LET c == CodeOf(prog)
                                    r == Run(c)
                                IN RunLaw(c, r) /\ PrintT(<<"JMP", ToJson([meta |-> Meta, code |-> c, exp |-> Obs(r)])>>)
====
