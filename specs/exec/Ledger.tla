---- MODULE Ledger ----
(* Design-level model of the ledger (C08): VET is conserved; VTHO changes only by fees burned and rewards issued; the
   base fee follows the recurrence.  Amounts are BigNat values (wei-sized), gas is a native integer.

   One block = a sequence of operations, then Seal:
     TransferVET / TransferVTHO     move value between accounts (clauses, energy contract transfer/transferFrom)
     Stake / Unstake                VET moves into / out of the staker contract's balance
     BuyGas                         the payer prepays gas * price (price >= base fee, enough energy, room in the block)
     Finalize                       unused gas is returned at the same price, the beneficiary gets the priority part,
                                    the receipt records paid = used * price and reward
     SelfDestructSelf               (only when AllowF3) a contract destructs naming itself beneficiary: its VET and VTHO
                                    vanish - finding F3; with AllowF3 = TRUE TLC refutes VETConserved / VTHOLaw
     Seal                           proof of stake: issue the block reward (validator / delegator split); the next
                                    header's base fee = NextBaseFee(this header)
   Invariants hold in EVERY state (also between BuyGas and Finalize: the prepaid amount is accounted as pending).    *)
EXTENDS LedgerRules, FiniteSets, TLC

CONSTANTS Accts, Amounts, Tips, GasLimit, Gases, OpsIn(_), MaxBlocks, AllowF3, PoS, Curve, StakedVET
\* OpsIn(h): number of operations allowed in block h (bounds the exploration)

All == Accts \cup {"benef", "staker", "deleg"}

VARIABLES vet, vtho, pre, paid, reward, issued, pend, ops, height, hdr, par, used
vars == <<vet, vtho, pre, paid, reward, issued, pend, ops, height, hdr, par, used>>

RECURSIVE SumOver(_, _)
SumOver(f, S) == IF S = {} THEN Zero ELSE LET x == CHOOSE x \in S : TRUE IN Add(f[x], SumOver(f, S \ {x}))
TotalVET == SumOver(vet, All)
TotalVTHO == SumOver(vtho, All)

Rich == Mul(FromInt(1000000), E18)
None == [payer |-> "none", gas |-> 0, price |-> Zero]

Init == /\ vet = [a \in All |-> IF a \in Accts THEN Rich ELSE Zero]
        /\ vtho = [a \in All |-> IF a \in Accts THEN Rich ELSE Zero]
        /\ pre = [vet |-> MulInt(Rich, Cardinality(Accts)), vtho |-> MulInt(Rich, Cardinality(Accts))]
        /\ paid = Zero /\ reward = Zero /\ issued = Zero /\ pend = None /\ ops = 0 /\ height = 1 /\ used = 0
        /\ hdr = [gasLimit |-> GasLimit, baseFee |-> BaseFeeFloor]
        /\ par = [gasLimit |-> GasLimit, gasUsed |-> 0, baseFee |-> BaseFeeFloor]

Op == ops < OpsIn(height) /\ ops' = ops + 1

TransferVET == /\ Op /\ \E a \in Accts, b \in All \ {"staker"}, x \in Amounts :
                    /\ a # b /\ GE(vet[a], x)
                    /\ vet' = [vet EXCEPT ![a] = Sub(@, x), ![b] = Add(@, x)]
               /\ UNCHANGED <<vtho, pre, paid, reward, issued, pend, height, hdr, par, used>>
TransferVTHO == /\ Op /\ \E a \in Accts, b \in All, x \in Amounts :
                    /\ a # b /\ GE(vtho[a], x)
                    /\ vtho' = [vtho EXCEPT ![a] = Sub(@, x), ![b] = Add(@, x)]
                /\ UNCHANGED <<vet, pre, paid, reward, issued, pend, height, hdr, par, used>>
Stake == /\ Op /\ \E a \in Accts, x \in Amounts :
              \/ /\ GE(vet[a], x) /\ vet' = [vet EXCEPT ![a] = Sub(@, x), !["staker"] = Add(@, x)]
              \/ /\ GE(vet["staker"], x) /\ vet' = [vet EXCEPT !["staker"] = Sub(@, x), ![a] = Add(@, x)]
         /\ UNCHANGED <<vtho, pre, paid, reward, issued, pend, height, hdr, par, used>>

BuyGas == /\ Op /\ pend = None
          /\ \E p \in Accts, g \in Gases, tip \in Tips :
               LET price == Add(hdr.baseFee, tip)
                   cost == MulInt(price, g)
               IN /\ used + g <= hdr.gasLimit /\ GE(vtho[p], cost)
                  /\ vtho' = [vtho EXCEPT ![p] = Sub(@, cost)]
                  /\ pend' = [payer |-> p, gas |-> g, price |-> price]
          /\ UNCHANGED <<vet, pre, paid, reward, issued, height, hdr, par, used>>

Finalize == /\ pend # None
            /\ \E u \in {21000, pend.gas \div 2, pend.gas} :
                 /\ u >= 21000 /\ u <= pend.gas
                 /\ LET back == MulInt(pend.price, pend.gas - u)
                        rew == MulInt(Sub(pend.price, hdr.baseFee), u)
                    IN /\ vtho' = [vtho EXCEPT ![pend.payer] = Add(@, back), !["benef"] = Add(@, rew)]
                       /\ paid' = Add(paid, MulInt(pend.price, u))
                       /\ reward' = Add(reward, rew)
                 /\ used' = used + u
            /\ pend' = None
            /\ UNCHANGED <<vet, pre, issued, ops, height, hdr, par>>

SelfDestructSelf == /\ AllowF3 /\ Op /\ \E a \in Accts : /\ vet' = [vet EXCEPT ![a] = Zero]
                                                          /\ vtho' = [vtho EXCEPT ![a] = Zero]
                    /\ UNCHANGED <<pre, paid, reward, issued, pend, height, hdr, par, used>>

\* block reward (proof of stake), then the next block opens
Seal == /\ pend = None /\ height < MaxBlocks /\ issued = Zero
        /\ LET r == IF PoS THEN StakingReward(Curve, StakedVET) ELSE Zero
               rv == DivSmall(MulSmall(r, 30), 100)
               v1 == [vtho EXCEPT !["benef"] = Add(@, rv), !["deleg"] = Add(@, Sub(r, rv))]
           IN /\ vtho' = v1
              /\ pre' = [vet |-> TotalVET, vtho |-> SumOver(v1, All)]
        /\ par' = [gasLimit |-> hdr.gasLimit, gasUsed |-> used, baseFee |-> hdr.baseFee]
        /\ hdr' = [gasLimit |-> hdr.gasLimit, baseFee |-> NextBaseFee(hdr.gasLimit, used, hdr.baseFee)]
        /\ paid' = Zero /\ reward' = Zero /\ issued' = Zero /\ ops' = 0 /\ used' = 0 /\ height' = height + 1
        /\ UNCHANGED <<vet, pend>>

Next == TransferVET \/ TransferVTHO \/ Stake \/ BuyGas \/ Finalize \/ SelfDestructSelf \/ Seal
Spec == Init /\ [][Next]_vars

\* ---- invariants --------------------------------------------------------------------------------------------
VETConserved == TotalVET = pre.vet
Pending == IF pend = None THEN Zero ELSE MulInt(pend.price, pend.gas)
VTHOLaw == Add(Add(TotalVTHO, Pending), paid) = Add(Add(pre.vtho, reward), issued)
\* the staking issue is checked at the Seal step itself: total after = total before + r  (action property)
IssueLaw == [][(height' = height + 1) =>
                 pre'.vtho = Add(SumOver(vtho, All), IF PoS THEN StakingReward(Curve, StakedVET) ELSE Zero)]_vars
BaseFeeLaw == /\ GE(hdr.baseFee, BaseFeeFloor)
              /\ (height > 1 => /\ BaseFeeStepOK(par.baseFee, hdr.baseFee)
                                /\ hdr.baseFee = NextBaseFee(par.gasLimit, par.gasUsed, par.baseFee)
                                /\ (par.gasUsed > GasTarget(par.gasLimit) => GT(hdr.baseFee, par.baseFee))
                                /\ (par.gasUsed < GasTarget(par.gasLimit) => LE(hdr.baseFee, par.baseFee)))
GasLaw == used <= hdr.gasLimit
====
