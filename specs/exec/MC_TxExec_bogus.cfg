SPECIFICATION Spec
CONSTANTS
  Mode = "block"
  MaxTx = 1
  Limit = 16
  Scenarios <- MCScenarios
  Uses <- MCUses
  Ctrs <- MCCtrs
INVARIANT Bogus
CHECK_DEADLOCK FALSE
