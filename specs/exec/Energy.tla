---- MODULE Energy ----
(* VTHO generation and its bookkeeping (builtin/energy/energy.go, state/account.go CalcEnergy, the Transfer hook of
   runtime/runtime.go).  Growth of the specification beyond the listed properties (DESIGN section 8), attached to C08.

   Every account carries (vet, energy, last): energy is the balance SETTLED at block time `last`; until HAYABUSA the
   balance at a later time t is   energy + floor((min(t, stop) - last) * vet * Rate)   (nothing when never touched,
   last = 0).  The discipline under test is SETTLE-THEN-MODIFY: whoever changes an account's VET or energy first
   settles the growth at the current block time.  The energy contract keeps totals: the initial supply (token, energy,
   time), total-add / total-sub (every Add / Sub of energy: fees, refunds, rewards, transfers) and `issued` (block
   rewards after growth stopped).  Law:
        TotalSupply(t) - TotalBurned  =  sum over accounts of EnergyAt(a, t)  +  rounding,
        TotalSupply(t) = initEnergy + floor((min(t, stop) - t0) * initVET * Rate) + issued,  TotalBurned = sub - add,
        0 <= rounding <= number of settlements so far + number of accounts   (each floor loses less than one unit).
   Rate = RateN / RateD per VET per second (small numbers here so that rounding happens all the time).            *)
EXTENDS Integers, FiniteSets, TLC

CONSTANTS Accts, InitVET, Amounts, Dts, RateN, RateD, MaxSteps,
          Broken            \* TRUE: TransferVET forgets to settle the sender (must be refuted)

VARIABLES vet, en, last, t, stop, add, sub, issued, settles, steps
vars == <<vet, en, last, t, stop, add, sub, issued, settles, steps>>

Never == 1000000
T0 == 1
Min2(a, b) == IF a <= b THEN a ELSE b
RECURSIVE SumF(_, _)
SumF(f, S) == IF S = {} THEN 0 ELSE LET a == CHOOSE a \in S : TRUE IN f[a] + SumF(f, S \ {a})

Growth(v, from, to) == IF from = 0 \/ v = 0 \/ to <= from \/ from >= stop THEN 0
                       ELSE ((Min2(to, stop) - from) * v * RateN) \div RateD
EnergyAt(a, tt) == en[a] + Growth(vet[a], last[a], tt)

InitEnergy == 10
Init == /\ vet = InitVET /\ en = [a \in Accts |-> IF InitVET[a] > 0 THEN InitEnergy ELSE 0]
        /\ last = [a \in Accts |-> IF InitVET[a] > 0 THEN T0 ELSE 0]
        /\ t = T0 /\ stop = Never /\ add = 0 /\ sub = 0 /\ issued = 0 /\ settles = 0 /\ steps = 0

Step == steps < MaxSteps /\ steps' = steps + 1

\* settle a set of accounts at the current time
Settled(S) == [a \in Accts |-> IF a \in S THEN EnergyAt(a, t) ELSE en[a]]
Touched(S) == [a \in Accts |-> IF a \in S THEN t ELSE last[a]]
Losses(S) == Cardinality({a \in S : Growth(vet[a], last[a], t) # 0 \/ (last[a] # 0 /\ vet[a] # 0 /\ t > last[a] /\ last[a] < stop)})

Tick == /\ Step /\ \E d \in Dts : t' = t + d
        /\ UNCHANGED <<vet, en, last, stop, add, sub, issued, settles>>

TransferVET == /\ Step /\ \E a, b \in Accts, x \in Amounts :
                    /\ a # b /\ vet[a] >= x
                    /\ LET S == IF Broken THEN {b} ELSE {a, b} IN
                       /\ en' = Settled(S) /\ last' = Touched(S) /\ settles' = settles + Losses(S)
                    /\ vet' = [vet EXCEPT ![a] = @ - x, ![b] = @ + x]
               /\ UNCHANGED <<t, stop, add, sub, issued>>

\* Energy.Sub (fee prepayment, transfer out) and Energy.Add (refund, reward, transfer in)
EnergySub == /\ Step /\ \E a \in Accts, x \in Amounts :
                  /\ EnergyAt(a, t) >= x
                  /\ en' = [Settled({a}) EXCEPT ![a] = @ - x] /\ last' = Touched({a}) /\ settles' = settles + Losses({a})
                  /\ sub' = sub + x
             /\ UNCHANGED <<vet, t, stop, add, issued>>
EnergyAdd == /\ Step /\ \E a \in Accts, x \in Amounts :
                  /\ sub - add >= x                                  \* only what was taken before is given back
                  /\ en' = [Settled({a}) EXCEPT ![a] = @ + x] /\ last' = Touched({a}) /\ settles' = settles + Losses({a})
                  /\ add' = add + x
             /\ UNCHANGED <<vet, t, stop, sub, issued>>

StopGrowth == /\ Step /\ stop = Never /\ stop' = t                   \* the HAYABUSA block
              /\ UNCHANGED <<vet, en, last, t, add, sub, issued, settles>>
\* block reward after the stop: bypasses add/sub, counted in issued
Issue == /\ Step /\ stop # Never /\ \E a \in Accts, r \in Amounts :
              /\ en' = [Settled({a}) EXCEPT ![a] = @ + r] /\ last' = Touched({a}) /\ settles' = settles + Losses({a})
              /\ issued' = issued + r
         /\ UNCHANGED <<vet, t, stop, add, sub>>

Next == Tick \/ TransferVET \/ EnergySub \/ EnergyAdd \/ StopGrowth \/ Issue
Spec == Init /\ [][Next]_vars

\* ---- laws ----------------------------------------------------------------------------------------------------
InitVETSum == SumF(InitVET, Accts)
InitENSum == InitEnergy * Cardinality({a \in Accts : InitVET[a] > 0})
TotalSupply == InitENSum + ((Min2(t, stop) - T0) * InitVETSum * RateN) \div RateD + issued
TotalBurned == sub - add
Leaves == SumF([a \in Accts |-> EnergyAt(a, t)], Accts)

VETConserved == SumF(vet, Accts) = InitVETSum
SupplyLaw == LET d == TotalSupply - TotalBurned - Leaves IN d >= 0 /\ d <= settles + Cardinality(Accts)
NoGrowthAfterStop == stop # Never => \A a \in Accts : last[a] >= stop => EnergyAt(a, t) = en[a]
\* settle-then-modify: an account whose VET changes is settled at the current time in the same step
SettleDiscipline == [][\A a \in Accts : vet'[a] # vet[a] => last'[a] = t]_vars
====
