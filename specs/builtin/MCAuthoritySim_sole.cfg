SPECIFICATION SSpec
CONSTANTS
  Nodes = {"a", "b"}
  Endorsors = {"e1", "e2"}
  Endorsement = 1
  Cap = 101
  None = "none"
  MaxBlocks = 1000
  MaxTx = 3
  Genesis <- Gen1
  MBPs = {0, 1, 200}
  Bals = {0, 1, 2}
INVARIANT Export
INVARIANT ListIsInsertionOrder
INVARIANT HeadTailConsistent
INVARIANT CandidatesAreFirstEndorsed
INVARIANT RevokedNeverProposes
INVARIANT CacheIsRecomputation
CHECK_DEADLOCK FALSE
