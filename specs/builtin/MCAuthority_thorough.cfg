SPECIFICATION MCSpec
CONSTANTS
  Nodes = {"a", "b", "c"}
  Endorsors = {"e1", "e2"}
  Endorsement = 1
  Cap = 2
  None = "none"
  MaxBlocks = 5
  MaxTx = 2
  Genesis <- Gen2
  MBPs = {0, 1, 2, 3}
  Bals = {0, 1}
INVARIANT ListIsInsertionOrder
INVARIANT HeadTailConsistent
INVARIANT CandidatesAreFirstEndorsed
INVARIANT RevokedNeverProposes
INVARIANT CacheIsRecomputation
CHECK_DEADLOCK FALSE
