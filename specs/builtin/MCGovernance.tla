---- MODULE MCGovernance ----
(* Exhaustive exploration of Governance.tla at small constants: three genesis approvers, one outsider that may become an
   approver or the executor address, one voting contract; a handful of proposal operations; time 0..MaxTime with a
   voting window of Week units. Reverted transactions are not explored here (they change nothing); the behaviour export
   (MCGovernanceSim) contains them.                                                                                     *)
EXTENDS Governance, TLC
CONSTANTS MaxTime, MaxProps, Genesis3, Voters, Ops, ParamVals

GenApprovers == Genesis3
MCInit ==
  /\ now = 1
  /\ appr = [a \in Accts |-> [known |-> a \in GenApprovers, inPower |-> a \in GenApprovers]]
  /\ apprCount = Cardinality(GenApprovers)
  /\ voting = {}
  /\ props = <<>> /\ nExec = <<>>
  /\ params = [k \in Keys |-> 1]
  /\ execAddr = EXECUTOR
  /\ auth = <<"n0", "n1">> /\ authKnown = {"n0", "n1"}

MCNext ==
  /\ \/ \E s \in Accts, op \in Ops : Cardinality(DOMAIN props) < MaxProps /\ Propose(s, op)
     \/ \E s \in Accts, p \in DOMAIN props : Approve(s, p)
     \/ \E p \in DOMAIN props : Execute(p)
     \/ \E s \in Accts, k \in Keys, v \in ParamVals : DirectParam(s, k, v)
     \/ \E s \in Accts, n \in AuthNodes : DirectAuthAdd(s, n)
     \/ now < MaxTime /\ AdvanceTime(1)
  /\ gvars' # gvars
MCSpec == MCInit /\ [][MCNext]_gvars

P_OnlyExecutedProposalChanges == [][OnlyExecutedProposalChanges]_gvars
P_QuorumFixedAtProposal == [][QuorumFixedAtProposal /\ NewProposalQuorum]_gvars

\* ---- facts of the contract that may surprise: each is REACHABLE (the negation is refuted) ---------------------------------
\* the approval of a revoked approver still counts
X_ApprovalsAreInPower == \A p \in DOMAIN props : \A a \in props[p].approvals : appr[a].inPower
\* governance can lose its last approver
X_AlwaysAnApprover == apprCount > 0
\* the executor role can leave the Executor contract
X_ExecutorStaysContract == execAddr = EXECUTOR
\* a proposal executes although fewer than 2/3 of the CURRENT approvers approved (quorum is fixed at proposal time)
X_QuorumOfCurrentApprovers == \A p \in DOMAIN props : props[p].executed => props[p].count >= Quorum(apprCount)

OpsSmall == { [t |-> "param", x |-> "mbp", v |-> 2], [t |-> "setExecutor", x |-> "d", v |-> 0],
              [t |-> "authAdd", x |-> "n2", v |-> 0], [t |-> "authRevoke", x |-> "n1", v |-> 0],
              [t |-> "addApprover", x |-> "d", v |-> 0], [t |-> "revokeApprover", x |-> "a", v |-> 0],
              [t |-> "attach", x |-> "v", v |-> 0], [t |-> "detach", x |-> "v", v |-> 0] }
OpsAll == OpsSmall \cup { [t |-> "param", x |-> "endorsement", v |-> 0], [t |-> "param", x |-> "mbp", v |-> 3],
                          [t |-> "revokeApprover", x |-> "b", v |-> 0], [t |-> "authAdd", x |-> "n3", v |-> 0],
                          [t |-> "authRevoke", x |-> "n0", v |-> 0], [t |-> "revokeApprover", x |-> "c", v |-> 0],
                          [t |-> "addApprover", x |-> "a", v |-> 0] }
OpsQuick == { [t |-> "param", x |-> "mbp", v |-> 2], [t |-> "setExecutor", x |-> "d", v |-> 0],
              [t |-> "addApprover", x |-> "d", v |-> 0], [t |-> "revokeApprover", x |-> "a", v |-> 0] }
G3 == {"a", "b", "c"}
====
