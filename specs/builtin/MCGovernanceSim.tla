---- MODULE MCGovernanceSim ----
(* Behaviour export for model -> implementation replay: Governance.tla with a history variable. Every entry carries the
   transaction (who calls what), the expected outcome (ok or the contract's revert message), the expected events and the
   full expected projection afterwards. Reverted transactions ARE part of the behaviours. Run with -simulate num=N -depth D;
   cmd/authority -mode gov-replay executes beh_*.json on the real Executor / Params / Authority bytecode.                *)
EXTENDS MCGovernance, Json
VARIABLE hist
svars == <<gvars, hist>>
D == 36

\* TLC's simulator picks uniformly among ALL successor states; to keep approve / execute from drowning among the many
\* variants of propose and of the always-reverting direct calls, the sender and the operation of those are rotated with
\* the step number instead of being chosen freely
AcctSeq == <<"a", "v", "b", "d", "c">>
OpSeq == <<[t |-> "param", x |-> "mbp", v |-> 3], [t |-> "addApprover", x |-> "d", v |-> 0], [t |-> "authAdd", x |-> "n2", v |-> 0],
           [t |-> "revokeApprover", x |-> "a", v |-> 0], [t |-> "attach", x |-> "v", v |-> 0], [t |-> "setExecutor", x |-> "d", v |-> 0],
           [t |-> "authRevoke", x |-> "n1", v |-> 0], [t |-> "param", x |-> "endorsement", v |-> 0], [t |-> "detach", x |-> "v", v |-> 0],
           [t |-> "revokeApprover", x |-> "b", v |-> 0], [t |-> "authAdd", x |-> "n3", v |-> 0], [t |-> "addApprover", x |-> "a", v |-> 0],
           [t |-> "authRevoke", x |-> "n0", v |-> 0], [t |-> "revokeApprover", x |-> "c", v |-> 0], [t |-> "param", x |-> "mbp", v |-> 2]>>
Nth(q, k) == q[(k % Len(q)) + 1]
K == Len(hist)
Bogus == <<0, "a">>                      \* an id no proposal ever has (time starts at 1)
PidRec(p) == [time |-> p[1], proposer |-> p[2]]
\* events of the inner call of an executed proposal
InnerEv(op) ==
  CASE op.t = "param"          -> <<[c |-> "params", ev |-> "Set", x |-> op.x, v |-> op.v]>>
    [] op.t = "setExecutor"    -> <<[c |-> "params", ev |-> "Set", x |-> "executor", v |-> 0]>>
    [] op.t = "authAdd"        -> <<[c |-> "authority", ev |-> "Candidate", x |-> op.x, v |-> 1]>>
    [] op.t = "authRevoke"     -> <<[c |-> "authority", ev |-> "Candidate", x |-> op.x, v |-> 0]>>
    [] op.t = "addApprover"    -> <<[c |-> "executor", ev |-> "Approver", x |-> op.x, v |-> 1]>>
    [] op.t = "revokeApprover" -> <<[c |-> "executor", ev |-> "Approver", x |-> op.x, v |-> 0]>>
    [] op.t = "attach"         -> <<[c |-> "executor", ev |-> "VotingContract", x |-> op.x, v |-> 1]>>
    [] op.t = "detach"         -> <<[c |-> "executor", ev |-> "VotingContract", x |-> op.x, v |-> 0]>>
PropEv(what) == <<[c |-> "executor", ev |-> "Proposal", x |-> what, v |-> 0]>>

SInit == MCInit /\ hist = <<[a |-> "genesis", res |-> OK, events |-> <<>>, proj |-> GProj]>>
Step(rec) == hist' = Append(hist, rec)

SNext ==
  \/ \E s \in {Nth(AcctSeq, K), Nth(AcctSeq, K * 3 + now)}, op \in {Nth(OpSeq, K * 7 + now)} :
       /\ Propose(s, op)
       /\ Step([a |-> "propose", s |-> s, op |-> op, res |-> ProposeRes(s),
                events |-> IF ProposeRes(s) = OK THEN PropEv("proposed") ELSE <<>>, proj |-> GProj'])
  \/ \E s \in Accts, p \in DOMAIN props \cup (IF K % 5 = 1 THEN {Bogus} ELSE {}) :
       /\ Approve(s, p)
       /\ Step([a |-> "approve", s |-> s, p |-> PidRec(p), res |-> ApproveRes(s, p),
                events |-> IF ApproveRes(s, p) = OK THEN PropEv("approved") ELSE <<>>, proj |-> GProj'])
  \/ \E s \in {Nth(AcctSeq, K + 2)}, p \in DOMAIN props \cup (IF K % 5 = 0 THEN {Bogus} ELSE {}) :
       /\ Execute(p)
       /\ Step([a |-> "execute", s |-> s, p |-> PidRec(p), res |-> ExecuteRes(p),
                events |-> IF ExecuteRes(p) = OK THEN InnerEv(props[p].op) \o PropEv("executed") ELSE <<>>, proj |-> GProj'])
  \/ \E s \in {Nth(AcctSeq, K + 1)}, k \in {Nth(<<"mbp", "endorsement">>, K)}, v \in {2 + (K % 2)} :
       /\ K % 3 = 0 /\ DirectParam(s, k, v)
       /\ Step([a |-> "directParam", s |-> s, k |-> k, v |-> v, res |-> DirectParamRes(s),
                events |-> IF DirectParamRes(s) = OK THEN <<[c |-> "params", ev |-> "Set", x |-> k, v |-> v]>> ELSE <<>>, proj |-> GProj'])
  \/ \E s \in {Nth(AcctSeq, K + 3)}, n \in {Nth(<<"n2", "n3">>, K)} :
       /\ K % 4 = 0 /\ DirectAuthAdd(s, n)
       /\ Step([a |-> "directAuthAdd", s |-> s, n |-> n, res |-> DirectAuthAddRes(s, n),
                events |-> IF DirectAuthAddRes(s, n) = OK THEN <<[c |-> "authority", ev |-> "Candidate", x |-> n, v |-> 1]>> ELSE <<>>, proj |-> GProj'])
  \/ \E s \in {Nth(AcctSeq, K + 4)}, op \in {o \in {Nth(OpSeq, K)} : o.t \in {"addApprover", "revokeApprover", "attach", "detach"}} :
       /\ UNCHANGED gvars
       /\ Step([a |-> "directGov", s |-> s, op |-> op, res |-> DirectGovRes, events |-> <<>>, proj |-> GProj])
  \/ \E d \in {1 + ((K \div 9) % 2)} : K % 9 = 4 /\ AdvanceTime(d) /\ Step([a |-> "time", d |-> d, res |-> OK, events |-> <<>>, proj |-> GProj'])
SSpec == SInit /\ [][SNext]_svars

Export == Len(hist) = D =>
            JsonSerialize("gbeh_" \o ToString(TLCGet("stats").traces) \o ".json",
                          [accts |-> Accts, keys |-> Keys, week |-> Week, steps |-> hist])
====
