---- MODULE Trace_Authority ----
(* Trace specification for the authority step of C05 (implementation -> model).  cmd/authority -mode chain runs REAL
   chains (internal/sim: real packer, consensus, state, EVM, builtin contracts) in which the executor adds and revokes
   authority nodes, others try to, endorsor accounts are drained and refilled by VET transfers and MaxBlockProposers is
   changed.  Every block is packed through packer/poa_scheduler.go and validated by a WARM consensus instance (its
   poaCacher lives across blocks), by a COLD one (fresh per block) and by the node's own import path.  Logged:

     Reset    a new chain: universe, genesis authority list, MaxBlockProposers
     Begin    block by `who`; props = the proposer list the real packer derived from the parent state; offs = what the
              real scheduler's Updates switched off (a fact here; Scheduler.tla is about it)
     Add / Revoke / Bal / Touch / Mbp   the transactions of the block in order with their real outcome (ok = not reverted)
     End      verdicts of the WARM and the COLD validator and the full projection of the real contract state after
              the block (links, Get of every node, AllCandidates, Candidates(limit), a fresh validator's proposer list)
     Refused  the real packer refused to schedule `who` on the current head

   The spec replays the same actions on Authority.tla, requires every outcome, proposer list and projection to be
   equal, both validators to accept, and evaluates the invariants of Authority.tla after every event.              *)
EXTENDS Authority, TLC, Json, TraceLib

Trace == LoadTrace("trace.ndjson")
TraceNodes == {Trace[1].nodes[i] : i \in DOMAIN Trace[1].nodes}
TraceEndorsors == {Trace[1].endorsors[i] : i \in DOMAIN Trace[1].endorsors}

VARIABLE l
tvars == <<vars, l>>
Ev == Trace[l]
ToSet(s) == {s[i] : i \in DOMAIN s}

\* entries after adding g[1..i] = <<node, endorsor>> one after the other (what the genesis builder does)
RECURSIVE GenEnt(_, _)
GenEnt(g, i) == IF i = 0 THEN [n \in Nodes |-> EmptyEnt]
                ELSE LET pe == GenEnt(g, i - 1)
                         n == g[i][1]
                         p == IF i = 1 THEN None ELSE g[i - 1][1]
                         e1 == IF p = None THEN pe ELSE [pe EXCEPT ![p].next = n]
                     IN [e1 EXCEPT ![n] = [e |-> g[i][2], act |-> TRUE, prev |-> p, next |-> None]]

Load(e) ==
  /\ ent' = GenEnt(e.genesis, Len(e.genesis))
  /\ head' = (IF e.genesis = <<>> THEN None ELSE e.genesis[1][1])
  /\ tail' = (IF e.genesis = <<>> THEN None ELSE e.genesis[Len(e.genesis)][1])
  /\ bal' = [x \in Endorsors |-> e.proj.bal[x]]
  /\ mbp' = e.mbp
  /\ alist' = [i \in DOMAIN e.genesis |-> e.genesis[i][1]] /\ revoked' = {}
  /\ phase' = "between" /\ signer' = None /\ cur' = [list |-> <<>>, sat |-> <<>>] /\ cache' = <<>>
  /\ evA' = FALSE /\ evE' = FALSE

Init == /\ HWMInit /\ Len(Trace) >= 1 /\ Trace[1].e = "Reset" /\ l = 1
        /\ head = None /\ tail = None /\ ent = [n \in Nodes |-> EmptyEnt] /\ bal = [x \in Endorsors |-> 0] /\ mbp = 0
        /\ alist = <<>> /\ revoked = {} /\ phase = "between" /\ signer = None /\ cur = [list |-> <<>>, sat |-> <<>>]
        /\ cache = <<>> /\ evA = FALSE /\ evE = FALSE

Reset == Ev.e = "Reset" /\ Load(Ev) /\ Proj' = Ev.proj

Begin == /\ Ev.e = "Begin"
         \* the packer's list (from the parent state) is what the contract gives, and what the validator's possibly cached
         \* object gives - except for the active flag of an ONLY listed node, which storage cannot change (IsLinked quirk)
         /\ Ev.props = PackerProposers
         /\ LET ps == Pick(IF cache # <<>> THEN cache[1] ELSE FreshCands) IN
            /\ [i \in DOMAIN ps |-> ps[i].n] = [i \in DOMAIN Ev.props |-> Ev.props[i].n]
            /\ (Len(alist) >= 2 => ps = Ev.props)
         \* the score the real packer put into the header: the proposers left active (PoA)
         /\ LET c0 == IF cache # <<>> THEN cache[1] ELSE FreshCands IN
            Has(Ev, "score") => Ev.score = Cardinality((ActiveOf(Pick(c0)) \cup {Ev.who}) \ ToSet(Ev.offs))
         /\ BeginBlock(Ev.who, ToSet(Ev.offs))

Add == /\ Ev.e = "Add"
       /\ Ev.ok = (Ev.exec /\ NativeAdd(Ev.n, Ev.end).ok)
       /\ TxAdd(Ev.n, Ev.end, Ev.exec)
Revoke == /\ Ev.e = "Revoke"
          /\ Ev.ok = ((Ev.exec \/ ~IsEndorsed(Ev.n)) /\ NativeRevoke(Ev.n).ok)
          /\ TxRevoke(Ev.n, Ev.exec)
Bal == Ev.e = "Bal" /\ TxBalance(Ev.acct, Ev.b)
Touch == Ev.e = "Touch" /\ TxTouch(Ev.acct)
Mbp == /\ Ev.e = "Mbp" /\ Ev.ok = Ev.exec
       /\ IF Ev.exec THEN TxSetMBP(Ev.m) ELSE phase = "in" /\ UNCHANGED vars
End == /\ Ev.e = "End"
       /\ Ev.warm = "ok" /\ Ev.cold = "ok"            \* every block here is a valid block: both validators must accept
       /\ EndBlock
       /\ Proj = Ev.proj
Refused == /\ Ev.e = "Refused" /\ phase = "between"
           /\ Ev.who \notin NodesOf(Proposers(IF cache # <<>> THEN cache[1] ELSE FreshCands))
           /\ Ev.who \notin NodesOf(PackerProposers)
           /\ UNCHANGED vars

Next == /\ l <= Len(Trace) /\ l' = l + 1
        /\ (Reset \/ Begin \/ Add \/ Revoke \/ Bal \/ Touch \/ Mbp \/ End \/ Refused)
Spec == Init /\ [][Next]_tvars

Started == l > 1
T_ListIsInsertionOrder == Started => ListIsInsertionOrder
T_HeadTailConsistent == Started => HeadTailConsistent
T_CandidatesAreFirstEndorsed == Started => CandidatesAreFirstEndorsed
T_RevokedNeverProposes == Started => RevokedNeverProposes
T_CacheIsRecomputation == Started => CacheIsRecomputation

Progress == HWM(l)
TraceAccepted == Accepted(Len(Trace))
====
