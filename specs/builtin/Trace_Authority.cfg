SPECIFICATION Spec
CONSTANTS
  Nodes <- TraceNodes
  Endorsors <- TraceEndorsors
  Endorsement = 1
  Cap = 101
  None = "none"
INVARIANT T_ListIsInsertionOrder
INVARIANT T_HeadTailConsistent
INVARIANT T_CandidatesAreFirstEndorsed
INVARIANT T_RevokedNeverProposes
INVARIANT T_CacheIsRecomputation
CONSTRAINT Progress
POSTCONDITION TraceAccepted
CHECK_DEADLOCK FALSE
