---- MODULE Authority ----
(* The PoA authority contract that FEEDS the scheduler (growth of C05, DESIGN section 8): the set of proposers a
   scheduler instance is built from is this contract's output.

   Transcribed from
     builtin/authority/authority.go   linked list in contract storage: head, tail, entry{endorsor, identity, active,
                                      prev, next}; Add / Revoke / Update / Get / First / Next / Candidates / AllCandidates
     builtin/gen/authority.sol        add: executor only; revoke: executor, or anybody once the node is not endorsed
     scheduler/candidates.go          Candidates object cached by the validator (list snapshot + `satisfied` indices)
     consensus/poa_validator.go       proposer list = cache(parent).Copy() or NewCandidates(AllCandidates), Pick (first
                                      MaxBlockProposers endorsed, in list order), scheduler Updates applied to state AND
                                      to the cached object; poaCacher.Handle: Authority event -> drop, Params event or a
                                      transfer from/to an endorsor -> InvalidateCache, else keep
     packer/poa_scheduler.go          proposer list = authority.Candidates(balanceCheck, MaxBlockProposers) from state

   The concrete representation (head/tail/prev/next) is modelled next to an abstract ghost list so that "walking the
   links gives the insertion order of the listed nodes" is a checked invariant, not a definition.
   Two quirks of the code are transcribed as they are (see IsLinked): the ONLY listed node has no links, so it can be
   neither revoked nor (de)activated; and a revoked node keeps its entry, so it can never be added again.          *)
EXTENDS Integers, Sequences, FiniteSets
LOCAL INSTANCE SequencesExt          \* FoldLeft (CommunityModules)

CONSTANTS Nodes,        \* node masters (strings)
          Endorsors,    \* endorsor accounts (strings)
          Endorsement,  \* params: proposer endorsement (balance threshold)
          Cap,          \* thor.InitialMaxBlockProposers (101): PoA never schedules over more than Cap proposers
          None

Rng(s) == {s[i] : i \in DOMAIN s}

VARIABLES head, tail,    \* storage: headKey / tailKey
          ent,           \* storage: node -> [e (endorsor | None), act, prev, next]   (identity is a constant of the node)
          bal,           \* VET balance of the endorsor accounts
          mbp,           \* params: max-block-proposers as stored (0 = unset)
          alist,         \* GHOST: listed nodes in insertion order
          revoked,       \* GHOST: nodes successfully revoked so far
          phase,         \* "between" blocks | "in" a block
          signer,        \* signer of the current / last block
          cur,           \* validator: the Candidates object used for the current block  [list, sat]; sat = <<>>: not cached
          cache,         \* validator: the object cached for the last block: <<>> = no entry, <<c>> = entry c
          evA, evE       \* events seen in the current block: Authority event / Params event or endorsor transfer

cvars == <<head, tail, ent, bal, mbp, alist, revoked>>
vvars == <<phase, signer, cur, cache, evA, evE>>
vars == <<cvars, vvars>>

EmptyEnt == [e |-> None, act |-> FALSE, prev |-> None, next |-> None]
IsEmpty(x) == x.e = None /\ ~x.act /\ x.prev = None /\ x.next = None
IsLinked(x) == x.prev # None \/ x.next # None

\* ---- contract: reads --------------------------------------------------------------------------------------------
\* Get: listed = linked, or (not linked and) it is the head
Listed(n) == IsLinked(ent[n]) \/ head = n
GetOf(n) == [listed |-> Listed(n), e |-> ent[n].e, act |-> ent[n].act]
First == head
NextOf(n) == ent[n].next

\* walking the links from the head, at most |Nodes| + 1 steps (the invariants say the bound is never exhausted).
\* FoldLeft (eager accumulator) instead of recursion: TLC re-evaluates lazy operator arguments at every level of a
\* recursion, which made lists of ~100 nodes take hours.
Steps == [i \in 1..(Cardinality(Nodes) + 1) |-> i]
Links == FoldLeft(LAMBDA acc, i : IF acc.p = None THEN acc ELSE [s |-> Append(acc.s, acc.p), p |-> ent[acc.p].next],
                  [s |-> <<>>, p |-> head], Steps).s

Endorsed(e) == e # None /\ bal[e] >= Endorsement           \* balance check before HAYABUSA

\* thor.GetMaxBlockProposers(params, capToInitial = true), used by BOTH the packer (schedulePOA) and the validator
\* (Candidates.Pick): unset/0 means Cap, anything above Cap is cut to Cap
Limit == IF mbp = 0 \/ mbp > Cap THEN Cap ELSE mbp

\* Candidates(checker, limit): for ptr != nil && len < limit { if checker(endorsor) append; ptr = next }
CandRec(n) == [n |-> n, e |-> ent[n].e, act |-> ent[n].act]
Candidates(limit) == FoldLeft(LAMBDA acc, n : IF Len(acc) < limit /\ Endorsed(ent[n].e) THEN Append(acc, CandRec(n)) ELSE acc,
                              <<>>, Links)
AllCandidates == FoldLeft(LAMBDA acc, n : Append(acc, CandRec(n)), <<>>, Links)

\* ---- contract: writes (each is [ok, head, tail, ent]) ----------------------------------------------------------
Same == [ok |-> FALSE, head |-> head, tail |-> tail, ent |-> ent]

NativeAdd(n, e) ==
  IF ~IsEmpty(ent[n]) THEN Same
  ELSE LET new == [e |-> e, act |-> TRUE, prev |-> tail, next |-> None]
           ent1 == IF tail = None THEN ent ELSE [ent EXCEPT ![tail].next = n]
       IN [ok |-> TRUE, head |-> IF tail = None THEN n ELSE head, tail |-> n, ent |-> [ent1 EXCEPT ![n] = new]]

NativeRevoke(n) ==
  LET x == ent[n] IN
  IF ~IsLinked(x) THEN Same
  ELSE LET ent1 == IF x.prev = None THEN ent ELSE [ent EXCEPT ![x.prev].next = x.next]
           ent2 == IF x.next = None THEN ent1 ELSE [ent1 EXCEPT ![x.next].prev = x.prev]
       IN [ok |-> TRUE,
           head |-> IF x.prev = None THEN x.next ELSE head,
           tail |-> IF x.next = None THEN x.prev ELSE tail,
           ent |-> [ent2 EXCEPT ![n] = [e |-> x.e, act |-> FALSE, prev |-> None, next |-> None]]]

NativeUpdate(n, a) ==
  IF ~IsLinked(ent[n]) THEN Same
  ELSE [ok |-> TRUE, head |-> head, tail |-> tail, ent |-> [ent EXCEPT ![n].act = a]]

\* native_isEndorsed
IsEndorsed(n) == Listed(n) /\ Endorsed(ent[n].e)

\* ---- validator / packer: the proposer list -----------------------------------------------------------------------
\* scheduler.Candidates.Pick: satisfied (cached unless empty) = indices of the first mbp endorsed entries of the snapshot
SatOf(c) == IF c.sat # <<>> THEN c.sat                                  \* `if len(satisfied) == 0` recompute
            ELSE FoldLeft(LAMBDA acc, x : [i |-> acc.i + 1,
                                           s |-> IF Len(acc.s) < Limit /\ Endorsed(x.e) THEN Append(acc.s, acc.i) ELSE acc.s],
                          [i |-> 1, s |-> <<>>], c.list).s
Pick(c) == FoldLeft(LAMBDA acc, i : Append(acc, [n |-> c.list[i].n, act |-> c.list[i].act]), <<>>, SatOf(c))
FreshCands == [list |-> AllCandidates, sat |-> <<>>]
Proposers(c) == Pick(c)
PackerProposers == LET c == Candidates(Limit) IN [i \in DOMAIN c |-> [n |-> c[i].n, act |-> c[i].act]]
NodesOf(ps) == {ps[i].n : i \in DOMAIN ps}
ActiveOf(ps) == {ps[i].n : i \in {j \in DOMAIN ps : ps[j].act}}
\* candidates.Update(addr, active)
CandUpdate(c, n, a) == [c EXCEPT !.list = [i \in DOMAIN c.list |-> IF c.list[i].n = n THEN [c.list[i] EXCEPT !.act = a] ELSE c.list[i]]]
EndorsorsOf(c) == {c.list[i].e : i \in DOMAIN c.list}

\* the observable projection compared with the real contract / validator after every replayed step or block
Proj == [links |-> Links, head |-> head, tail |-> tail,
         get |-> [n \in Nodes |-> [listed |-> Listed(n), e |-> ent[n].e, act |-> ent[n].act, next |-> NextOf(n)]],
         all |-> AllCandidates, cands |-> Candidates(Limit), fresh |-> Proposers(FreshCands),
         bal |-> bal, mbp |-> mbp]

\* ---- actions -----------------------------------------------------------------------------------------------------
Apply(r) == head' = r.head /\ tail' = r.tail /\ ent' = r.ent

\* a block by `who` starts: validateAuthorityProposer. offs = what the scheduler's Updates switches off (its choice is
\* the scheduler's business, Scheduler.tla; here: any set of active proposers other than the signer)
\* authority.Update + candidates.Update for every node of S. (No recursion here: TLC re-evaluates lazy operator arguments
\* at every level, which is exponential when an argument mentions the previous one twice.)  authority.Update refuses a
\* node without links (the only listed one) while candidates.Update does not; the flags do not touch the links, so the
\* order of the updates is immaterial.
EntUpd(offs, on) == [x \in Nodes |-> IF x \in offs /\ IsLinked(ent[x]) THEN [ent[x] EXCEPT !.act = FALSE]
                                     ELSE IF x \in on /\ IsLinked(ent[x]) THEN [ent[x] EXCEPT !.act = TRUE] ELSE ent[x]]
CandUpd(c, offs, on) == [c EXCEPT !.list = [i \in DOMAIN c.list |->
                            IF c.list[i].n \in offs THEN [c.list[i] EXCEPT !.act = FALSE]
                            ELSE IF c.list[i].n \in on THEN [c.list[i] EXCEPT !.act = TRUE] ELSE c.list[i]]]

BeginBlock(who, offs) ==
  /\ phase = "between"
  /\ LET c0 == IF cache # <<>> THEN cache[1] ELSE FreshCands
         c1 == [c0 EXCEPT !.sat = SatOf(c0)]
         ps == Pick(c1)
         on == IF who \in ActiveOf(ps) THEN {} ELSE {who}
     IN /\ who \in NodesOf(ps)                             \* "unauthorized block proposer" otherwise
        /\ offs \subseteq ActiveOf(ps) \ {who}
        /\ ent' = EntUpd(offs, on) /\ cur' = CandUpd(c1, offs, on)
  /\ signer' = who /\ phase' = "in" /\ evA' = FALSE /\ evE' = FALSE
  /\ UNCHANGED <<head, tail, bal, mbp, alist, revoked, cache>>

\* authority.add(n, e, id) sent by `byExec`-utor or not
TxAdd(n, e, byExec) ==
  /\ phase = "in"
  /\ LET r == NativeAdd(n, e) IN
     IF byExec /\ r.ok
     THEN Apply(r) /\ alist' = Append(alist, n) /\ evA' = TRUE
     ELSE UNCHANGED <<head, tail, ent, alist, evA>>           \* reverted
  /\ UNCHANGED <<bal, mbp, revoked, phase, signer, cur, cache, evE>>

\* authority.revoke(n): executor, or anybody when the node is not endorsed
TxRevoke(n, byExec) ==
  /\ phase = "in"
  /\ LET r == NativeRevoke(n) IN
     IF (byExec \/ ~IsEndorsed(n)) /\ r.ok
     THEN Apply(r) /\ alist' = SelectSeq(alist, LAMBDA x : x # n) /\ revoked' = revoked \cup {n} /\ evA' = TRUE
     ELSE UNCHANGED <<head, tail, ent, alist, revoked, evA>>  \* reverted
  /\ UNCHANGED <<bal, mbp, phase, signer, cur, cache, evE>>

\* a VET transfer that changes the balance of account e to b (the other party is not an endorsor, or see TxMove)
TxBalance(e, b) ==
  /\ phase = "in" /\ bal[e] # b
  /\ bal' = [bal EXCEPT ![e] = b]
  /\ evE' = (evE \/ e \in EndorsorsOf(cur))
  /\ UNCHANGED <<head, tail, ent, mbp, alist, revoked, phase, signer, cur, cache, evA>>

\* a VET transfer from/to account e that leaves its balance where it was relative to the endorsement (or as it was)
TxTouch(e) ==
  /\ phase = "in"
  /\ evE' = (evE \/ e \in EndorsorsOf(cur))
  /\ UNCHANGED <<head, tail, ent, bal, mbp, alist, revoked, phase, signer, cur, cache, evA>>

TxSetMBP(m) ==
  /\ phase = "in"
  /\ mbp' = m /\ evE' = TRUE                                  \* Params event - also when the value stays the same
  /\ UNCHANGED <<head, tail, ent, bal, alist, revoked, phase, signer, cur, cache, evA>>

\* end of the block: poaCacher.Handle
EndBlock ==
  /\ phase = "in"
  /\ cache' = IF evA THEN <<>> ELSE IF evE THEN <<[cur EXCEPT !.sat = <<>>]>> ELSE <<cur>>
  /\ phase' = "between"
  /\ UNCHANGED <<cvars, signer, cur, evA, evE>>

\* ---- invariants --------------------------------------------------------------------------------------------------
NoDup(s) == Cardinality(Rng(s)) = Len(s)

\* the links spell the insertion order of the listed nodes, without duplicates; head/tail/prev/next agree
ListIsInsertionOrder ==
  /\ Links = alist /\ NoDup(alist)
  /\ \A n \in Nodes : Listed(n) <=> n \in Rng(alist)
HeadTailConsistent ==
  /\ (alist = <<>>) <=> (head = None)
  /\ (head = None) <=> (tail = None)
  /\ alist # <<>> => head = alist[1] /\ tail = alist[Len(alist)] /\ ent[head].prev = None /\ ent[tail].next = None
  /\ \A i \in 1..(Len(alist) - 1) : ent[alist[i]].next = alist[i + 1] /\ ent[alist[i + 1]].prev = alist[i]
  /\ \A n \in Nodes \ Rng(alist) : ent[n].prev = None /\ ent[n].next = None /\ ~ent[n].act
\* Candidates(limit) = the first `limit` endorsed listed nodes in order; the packer's and a cache-less validator's
\* derivations coincide
CandidatesAreFirstEndorsed ==
  LET endorsed == SelectSeq(alist, LAMBDA n : Endorsed(ent[n].e))
      want == SubSeq(endorsed, 1, IF Len(endorsed) < Limit THEN Len(endorsed) ELSE Limit)
      got == Candidates(Limit)
  IN /\ [i \in DOMAIN got |-> got[i].n] = want
     /\ \A i \in DOMAIN got : got[i].e = ent[got[i].n].e /\ got[i].act = ent[got[i].n].act
     /\ PackerProposers = Proposers(FreshCands)
     /\ Len(got) <= Cap /\ Limit >= 1 /\ Limit <= Cap         \* the cap: never more than Cap proposers, whatever the param
\* a revoked node is unlisted for good: it is never the signer of a later block (BeginBlock needs signer in the list)
RevokedNeverProposes ==
  /\ revoked \cap Rng(alist) = {}
  /\ phase = "between" => \A n \in revoked : n \notin NodesOf(Proposers(IF cache # <<>> THEN cache[1] ELSE FreshCands))
  /\ \A n \in revoked : ~IsEmpty(ent[n])                      \* ... and can never be added again
\* cache == recomputation: between blocks the cached object yields the proposer list a fresh validator computes.
\* (Exception transcribed from the code: the only listed node cannot be (de)activated in storage, while the cached
\*  copy is; with one listed node the active flag is immaterial to the scheduler.)
CacheIsRecomputation ==
  phase = "between" /\ cache # <<>> =>
    LET a == Proposers(cache[1])
        b == Proposers(FreshCands)
    IN /\ [i \in DOMAIN a |-> a[i].n] = [i \in DOMAIN b |-> b[i].n]
       /\ (Len(alist) >= 2 => a = b)
====
