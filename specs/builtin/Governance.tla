---- MODULE Governance ----
(* thor's on-chain governance (growth of C05, DESIGN section 8): the Executor contract decides who may change the
   parameters consensus reads (max-block-proposers, proposer endorsement, ...) and who is an authority node.

   Transcribed from
     builtin/gen/executor.sol   approvers (identity, inPower), approverCount, votingContracts, proposals; propose / approve /
                                execute; addApprover / revokeApprover / attachVotingContract / detachVotingContract (onlyThis)
     builtin/gen/params.sol     set(key, value): msg.sender == executor(), the address stored under params[executor] itself
     builtin/gen/authority.sol  add / revoke: msg.sender == executor()
     genesis/customnet.go       without Params.ExecutorAddress the executor IS the Executor contract, approvers from genesis

   What the CONTRACT does (and is therefore the specification here), where one might expect otherwise:
     * quorum = (approverCount + 1) * 2 / 3 at PROPOSAL time; voting contracts do not count, later approver changes do not
       change it (QuorumFixedAtProposal)
     * only approvers IN POWER approve; a voting contract may propose but not approve
     * the approval of an approver that is revoked afterwards still counts (RevokedApprovalStillCounts)
     * a revoked approver can never be added again (its identity stays)
     * the proposal id is keccak(now, proposer): the same account cannot propose twice at the same block time
     * `executed` is set only if the inner call succeeds; a failing inner call reverts the whole execute
     * params[executor] is itself a parameter: a proposal may hand the executor role to another address; from then on the
       Executor contract's own proposals on params/authority fail and that address sets parameters directly
   keccak and addresses are opaque: a proposal id is the pair <<time, proposer>>.                                       *)
EXTENDS Integers, Sequences, FiniteSets

CONSTANTS Accts,        \* accounts that send transactions (approvers, candidates, voting contracts, strangers)
          AuthNodes,    \* authority node masters
          Keys,         \* parameter keys (strings)
          Week,         \* voting window in time units
          EXECUTOR      \* the Executor contract's own address (a string not in Accts)

VARIABLES now,          \* block time
          appr,         \* account -> [known, inPower]        approvers mapping (known: identity # 0)
          apprCount,    \* approverCount
          voting,       \* attached voting contracts
          props,        \* proposal id -> [time, proposer, quorum, count, executed, op, approvals]
          params,       \* key -> value
          execAddr,     \* params[executor]
          auth,         \* authority list (insertion order of the listed nodes)
          authKnown,    \* nodes that have an entry (listed now or revoked earlier)
          nExec         \* GHOST: proposal id -> number of successful executions

gvars == <<now, appr, apprCount, voting, props, params, execAddr, auth, authKnown, nExec>>
\* what governance is there to protect
effects == <<appr, apprCount, voting, params, execAddr, auth, authKnown>>

OK == "ok"
Quorum(total) == ((total + 1) * 2) \div 3
Pid(t, s) == <<t, s>>
InWindow(p) == now - props[p].time < Week
RemoveFrom(s, x) == SelectSeq(s, LAMBDA y : y # x)
InSeq(s, x) == \E i \in DOMAIN s : s[i] = x

\* ---- the inner call of a proposal (msg.sender = the Executor contract): does it succeed? ---------------------------
\* op = [t, x, v]
InnerOK(op) ==
  CASE op.t = "param"          -> execAddr = EXECUTOR
    [] op.t = "setExecutor"    -> execAddr = EXECUTOR
    [] op.t = "authAdd"        -> execAddr = EXECUTOR /\ op.x \notin authKnown
    [] op.t = "authRevoke"     -> execAddr = EXECUTOR /\ InSeq(auth, op.x) /\ Len(auth) >= 2   \* the only listed node cannot be revoked
    [] op.t = "addApprover"    -> ~appr[op.x].known /\ apprCount < 255
    [] op.t = "revokeApprover" -> appr[op.x].inPower
    [] op.t = "attach"         -> op.x \notin voting
    [] op.t = "detach"         -> op.x \in voting

\* the state after the inner call, as EXCEPT-style updates of the effect variables
Apply(op) ==
  /\ appr' = CASE op.t = "addApprover" -> [appr EXCEPT ![op.x] = [known |-> TRUE, inPower |-> TRUE]]
               [] op.t = "revokeApprover" -> [appr EXCEPT ![op.x].inPower = FALSE]
               [] OTHER -> appr
  /\ apprCount' = CASE op.t = "addApprover" -> apprCount + 1 [] op.t = "revokeApprover" -> apprCount - 1 [] OTHER -> apprCount
  /\ voting' = CASE op.t = "attach" -> voting \cup {op.x} [] op.t = "detach" -> voting \ {op.x} [] OTHER -> voting
  /\ params' = IF op.t = "param" THEN [params EXCEPT ![op.x] = op.v] ELSE params
  /\ execAddr' = IF op.t = "setExecutor" THEN op.x ELSE execAddr
  /\ auth' = CASE op.t = "authAdd" -> Append(auth, op.x) [] op.t = "authRevoke" -> RemoveFrom(auth, op.x) [] OTHER -> auth
  /\ authKnown' = IF op.t = "authAdd" THEN authKnown \cup {op.x} ELSE authKnown

\* ---- outcomes: OK or the contract's revert message ------------------------------------------------------------------
ProposeRes(s) ==
  IF apprCount = 0 THEN "builtin: no approvers"
  ELSE IF ~(appr[s].inPower \/ s \in voting) THEN "builtin: approver or voting contract required"
  ELSE IF Pid(now, s) \in DOMAIN props THEN "builtin: duplicated proposal id"
  ELSE OK

ApproveRes(s, p) ==
  IF p \notin DOMAIN props THEN "builtin: proposal not found"
  ELSE IF ~appr[s].inPower THEN "builtin: approver required"
  ELSE IF ~InWindow(p) THEN "builtin: proposal expired"
  ELSE IF s \in props[p].approvals THEN "builtin: proposal approved"
  ELSE OK

ExecuteRes(p) ==
  IF p \notin DOMAIN props THEN "builtin: proposal not found"
  ELSE IF props[p].executed THEN "builtin: proposal executed"
  ELSE IF ~InWindow(p) THEN "builtin: proposal expired"
  ELSE IF props[p].count < props[p].quorum THEN "builtin: quorum unsatisfied"
  ELSE IF ~InnerOK(props[p].op) THEN "builtin: proposal execution reverted"
  ELSE OK

\* direct calls, not through a proposal
DirectParamRes(s) == IF s = execAddr THEN OK ELSE "builtin: executor required"
DirectAuthAddRes(s, n) == IF s # execAddr THEN "builtin: executor required" ELSE IF n \in authKnown THEN "builtin: already exists" ELSE OK
DirectGovRes == "builtin: executor required"          \* addApprover / revokeApprover / attach / detach: onlyThis

\* ---- actions (a reverted transaction changes nothing) -----------------------------------------------------------------
Propose(s, op) ==
  /\ IF ProposeRes(s) = OK
     THEN /\ props' = [p \in DOMAIN props \cup {Pid(now, s)} |->
                         IF p = Pid(now, s) THEN [time |-> now, proposer |-> s, quorum |-> Quorum(apprCount), count |-> 0,
                                                  executed |-> FALSE, op |-> op, approvals |-> {}]
                         ELSE props[p]]
          /\ nExec' = [p \in DOMAIN props \cup {Pid(now, s)} |-> IF p = Pid(now, s) THEN 0 ELSE nExec[p]]
     ELSE UNCHANGED <<props, nExec>>
  /\ UNCHANGED <<now, appr, apprCount, voting, params, execAddr, auth, authKnown>>

Approve(s, p) ==
  /\ IF ApproveRes(s, p) = OK
     THEN props' = [props EXCEPT ![p].approvals = @ \cup {s}, ![p].count = @ + 1]
     ELSE UNCHANGED props
  /\ UNCHANGED <<now, appr, apprCount, voting, params, execAddr, auth, authKnown, nExec>>

Execute(p) ==
  IF ExecuteRes(p) = OK
  THEN /\ props' = [props EXCEPT ![p].executed = TRUE]
       /\ nExec' = [nExec EXCEPT ![p] = @ + 1]
       /\ Apply(props[p].op)
       /\ UNCHANGED now
  ELSE UNCHANGED gvars

DirectParam(s, k, v) ==
  /\ params' = IF DirectParamRes(s) = OK THEN [params EXCEPT ![k] = v] ELSE params
  /\ UNCHANGED <<now, appr, apprCount, voting, props, execAddr, auth, authKnown, nExec>>

DirectAuthAdd(s, n) ==
  /\ IF DirectAuthAddRes(s, n) = OK THEN auth' = Append(auth, n) /\ authKnown' = authKnown \cup {n} ELSE UNCHANGED <<auth, authKnown>>
  /\ UNCHANGED <<now, appr, apprCount, voting, props, params, execAddr, nExec>>

AdvanceTime(d) == now' = now + d /\ UNCHANGED <<appr, apprCount, voting, props, params, execAddr, auth, authKnown, nExec>>

\* ---- invariants -------------------------------------------------------------------------------------------------------
CountIsInPower == apprCount = Cardinality({a \in Accts : appr[a].inPower}) /\ \A a \in Accts : appr[a].inPower => appr[a].known
ApprovalCountIsSet == \A p \in DOMAIN props : props[p].count = Cardinality(props[p].approvals)
ExecutesAtMostOnce == \A p \in DOMAIN props : nExec[p] <= 1 /\ (props[p].executed <=> nExec[p] = 1)
ExecutedHadQuorum == \A p \in DOMAIN props : props[p].executed => props[p].count >= props[p].quorum
QuorumSane == \A p \in DOMAIN props : props[p].quorum >= 1 /\ props[p].time = p[1] /\ props[p].proposer = p[2]

\* ---- action properties (checked as PROPERTY [][...]_gvars) --------------------------------------------------------------
\* what governance protects changes only by the successful execution of a proposal that is unexecuted, inside its window and
\* has reached its quorum - or by a direct params/authority call of the address stored in params[executor]
OnlyExecutedProposalChanges ==
  effects' # effects =>
    \/ \E p \in DOMAIN props : /\ ~props[p].executed /\ props'[p].executed
                               /\ props[p].count >= props[p].quorum /\ now - props[p].time < Week
    \/ /\ execAddr # EXECUTOR /\ execAddr' = execAddr /\ UNCHANGED <<appr, apprCount, voting, props>>
\* the quorum, the proposer, the time and the operation of a proposal never change; executed never goes back
QuorumFixedAtProposal ==
  \A p \in DOMAIN props : /\ p \in DOMAIN props'
                          /\ props'[p].quorum = props[p].quorum /\ props'[p].op = props[p].op
                          /\ props'[p].time = props[p].time /\ props'[p].proposer = props[p].proposer
                          /\ (props[p].executed => props'[p].executed)
                          /\ props[p].approvals \subseteq props'[p].approvals
\* a new proposal takes the quorum of the approver count of that moment
NewProposalQuorum == \A p \in DOMAIN props' \ DOMAIN props : props'[p].quorum = Quorum(apprCount) /\ props'[p].count = 0

\* the observable projection compared with the real contracts after every replayed step
GProj == [now |-> now,
          appr |-> appr, apprCount |-> apprCount, voting |-> voting,
          props |-> {[time |-> props[p].time, proposer |-> props[p].proposer, quorum |-> props[p].quorum,
                      count |-> props[p].count, executed |-> props[p].executed, op |-> props[p].op] : p \in DOMAIN props},
          params |-> params, execAddr |-> execAddr, auth |-> auth]
====
