SPECIFICATION SSpec
CONSTANTS
  Accts = {"a", "b", "c", "d", "v"}
  AuthNodes = {"n2", "n3"}
  Keys = {"mbp", "endorsement"}
  Week = 2
  EXECUTOR = "EXECUTOR"
  MaxTime = 1000
  MaxProps = 1000
  Genesis3 <- G3
  Voters = {"v"}
  Ops <- OpsAll
  ParamVals = {2, 3}
INVARIANT Export
INVARIANT CountIsInPower
INVARIANT ApprovalCountIsSet
INVARIANT ExecutesAtMostOnce
INVARIANT ExecutedHadQuorum
INVARIANT QuorumSane
CHECK_DEADLOCK FALSE
