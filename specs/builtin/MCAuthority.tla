---- MODULE MCAuthority ----
(* Exhaustive exploration of Authority.tla at small constants: genesis lists `Genesis` (each node endorsed by the
   endorsor GenEnd[node] holding exactly the endorsement), then up to MaxBlocks blocks with up to MaxTx effective
   transactions each: add / revoke (by the executor or by somebody else), endorsor balance changes, MaxBlockProposers
   changes; any listed endorsed node within the limit signs; any set of other active proposers is switched off.   *)
EXTENDS Authority, TLC
CONSTANTS MaxBlocks, MaxTx, Genesis, MBPs, Bals

Gen2 == <<"a", "b">>
Gen1 == <<"a">>
Gen3 == <<"a", "b", "c">>
VARIABLES height, ntx
FreshCandsInit == [list |-> <<>>, sat |-> <<>>]
mvars == <<vars, height, ntx>>

GenEnd(n) == CHOOSE e \in Endorsors : TRUE
RECURSIVE GenEnt(_, _)
\* entries after adding Genesis[1..i] one after the other
GenEnt(i, e) == IF i = 0 THEN [n \in Nodes |-> EmptyEnt]
                ELSE LET prevE == GenEnt(i - 1, e)
                         n == Genesis[i]
                         p == IF i = 1 THEN None ELSE Genesis[i - 1]
                         e1 == IF p = None THEN prevE ELSE [prevE EXCEPT ![p].next = n]
                     IN [e1 EXCEPT ![n] = [e |-> e[i], act |-> TRUE, prev |-> p, next |-> None]]

MCInit == \E es \in [1..Len(Genesis) -> Endorsors] :
  /\ ent = GenEnt(Len(Genesis), es)
  /\ head = (IF Genesis = <<>> THEN None ELSE Genesis[1])
  /\ tail = (IF Genesis = <<>> THEN None ELSE Genesis[Len(Genesis)])
  /\ bal = [e \in Endorsors |-> Endorsement]
  /\ mbp \in MBPs
  /\ alist = Genesis /\ revoked = {}
  /\ phase = "between" /\ signer = None /\ cur = FreshCandsInit /\ cache = <<>> /\ evA = FALSE /\ evE = FALSE
  /\ height = 0 /\ ntx = 0

Tx == /\ ntx < MaxTx /\ ntx' = ntx + 1 /\ UNCHANGED height
      /\ \/ \E n \in Nodes, e \in Endorsors, x \in BOOLEAN : TxAdd(n, e, x)
         \/ \E n \in Nodes, x \in BOOLEAN : TxRevoke(n, x)
         \/ \E e \in Endorsors, b \in Bals : TxBalance(e, b)
         \/ \E m \in MBPs : TxSetMBP(m)
         \/ \E e \in Endorsors : TxTouch(e)
      /\ vars' # vars                                        \* reverted / no-op transactions are not explored
MCNext == \/ /\ height < MaxBlocks
             /\ \E w \in Nodes, offs \in SUBSET Nodes : BeginBlock(w, offs)
             /\ height' = height + 1 /\ ntx' = 0
          \/ Tx
          \/ EndBlock /\ UNCHANGED <<height, ntx>>
MCSpec == MCInit /\ [][MCNext]_mvars

\* deliberately false (vacuity guards)
X_CacheNeverDropped == phase = "between" /\ height > 0 => cache # <<>>
X_RevokeAlwaysPossible == \A n \in Rng(alist) : IsLinked(ent[n])
X_ParamIsLimit == mbp # 0 => Limit = mbp
X_TransferNeverMatters == phase = "between" /\ cache # <<>> => cache[1].sat # <<>>
====
