---- MODULE MCAuthoritySim ----
(* Behaviour export for model -> implementation replay (DESIGN 3.3): Authority.tla with a history variable whose
   entries carry the action, its outcome and the FULL expected projection after the step.  Run with
   -simulate num=N -depth D: every behaviour reaching D steps is written to beh_<k>.json; cmd/authority -replay
   executes it on the real builtin.Authority.Native(state) / scheduler.Candidates and compares after every step.
   Unlike MCAuthority, reverted / refused transactions are part of the behaviours (their outcome is replayed too). *)
EXTENDS MCAuthority, Json
VARIABLE hist
svars == <<mvars, hist>>
D == 40

SInit == MCInit /\ hist = <<[a |-> "genesis", proj |-> Proj]>>

SBegin == \E w \in Nodes, offs \in SUBSET Nodes :
  /\ BeginBlock(w, offs)
  /\ LET c0 == IF cache # <<>> THEN cache[1] ELSE FreshCands IN
     hist' = Append(hist, [a |-> "begin", who |-> w, offs |-> offs, fromCache |-> cache # <<>>,
                           props |-> Pick(c0), onn |-> (w \notin ActiveOf(Pick(c0))), proj |-> Proj'])
  /\ height' = height + 1 /\ ntx' = 0

STx == /\ ntx < MaxTx /\ ntx' = ntx + 1 /\ UNCHANGED height
       /\ \/ \E n \in Nodes, e \in Endorsors, x \in BOOLEAN :
               TxAdd(n, e, x) /\ hist' = Append(hist, [a |-> "add", n |-> n, e |-> e, exec |-> x, nat |-> NativeAdd(n, e).ok, proj |-> Proj'])
          \/ \E n \in Nodes, x \in BOOLEAN :
               TxRevoke(n, x) /\ hist' = Append(hist, [a |-> "revoke", n |-> n, exec |-> x, endorsed |-> IsEndorsed(n),
                                                       nat |-> NativeRevoke(n).ok, proj |-> Proj'])
          \/ \E e \in Endorsors, b \in Bals :
               TxBalance(e, b) /\ hist' = Append(hist, [a |-> "bal", e |-> e, b |-> b, flagged |-> (e \in EndorsorsOf(cur)), proj |-> Proj'])
          \/ \E m \in MBPs :
               TxSetMBP(m) /\ hist' = Append(hist, [a |-> "mbp", m |-> m, proj |-> Proj'])
          \/ \E e \in Endorsors :
               TxTouch(e) /\ hist' = Append(hist, [a |-> "touch", e |-> e, flagged |-> (e \in EndorsorsOf(cur)), proj |-> Proj'])
SEnd == /\ EndBlock /\ UNCHANGED <<height, ntx>>
        /\ hist' = Append(hist, [a |-> "end", decision |-> (IF evA THEN "drop" ELSE IF evE THEN "invalidate" ELSE "keep"), proj |-> Proj'])
SNext == SBegin \/ STx \/ SEnd
SSpec == SInit /\ [][SNext]_svars

Export == Len(hist) = D =>
            JsonSerialize("beh_" \o ToString(TLCGet("stats").traces) \o ".json",
                          [genesis |-> Genesis, nodes |-> Nodes, endorsement |-> Endorsement, steps |-> hist])
====
