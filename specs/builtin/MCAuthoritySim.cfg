SPECIFICATION SSpec
CONSTANTS
  Nodes = {"a", "b", "c", "d"}
  Endorsors = {"e1", "e2", "e3"}
  Endorsement = 1
  Cap = 101
  None = "none"
  MaxBlocks = 1000
  MaxTx = 3
  Genesis <- Gen2
  MBPs = {0, 1, 2, 3, 200}
  Bals = {0, 1, 2}
INVARIANT Export
INVARIANT ListIsInsertionOrder
INVARIANT HeadTailConsistent
INVARIANT CandidatesAreFirstEndorsed
INVARIANT RevokedNeverProposes
INVARIANT CacheIsRecomputation
CHECK_DEADLOCK FALSE
