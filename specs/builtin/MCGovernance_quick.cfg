SPECIFICATION MCSpec
CONSTANTS
  Accts = {"a", "b", "c", "d"}
  AuthNodes = {}
  Keys = {"mbp"}
  Week = 2
  EXECUTOR = "EXECUTOR"
  MaxTime = 3
  MaxProps = 2
  Genesis3 <- G3
  Voters = {"v"}
  Ops <- OpsQuick
  ParamVals = {2}
INVARIANT CountIsInPower
INVARIANT ApprovalCountIsSet
INVARIANT ExecutesAtMostOnce
INVARIANT ExecutedHadQuorum
INVARIANT QuorumSane
PROPERTY P_OnlyExecutedProposalChanges
PROPERTY P_QuorumFixedAtProposal
CHECK_DEADLOCK FALSE
