SPECIFICATION MCSpec
CONSTANTS
  Accts = {"a", "b", "c", "d", "v"}
  AuthNodes = {"n2"}
  Keys = {"mbp"}
  Week = 2
  EXECUTOR = "EXECUTOR"
  MaxTime = 4
  MaxProps = 2
  Genesis3 <- G3
  Voters = {"v"}
  Ops <- OpsSmall
  ParamVals = {2}
INVARIANT CountIsInPower
INVARIANT ApprovalCountIsSet
INVARIANT ExecutesAtMostOnce
INVARIANT ExecutedHadQuorum
INVARIANT QuorumSane
PROPERTY P_OnlyExecutedProposalChanges
PROPERTY P_QuorumFixedAtProposal
CHECK_DEADLOCK FALSE
