---- MODULE Trace_Seeder ----
(* Trace specification for the Seeder part of C05.  cmd/sched -mode seed builds REAL chain.Repository trees (signed
   blocks with VRF proofs, several branches forking below / at / above seed blocks, the best block switching between
   branches) and calls the real scheduler.Seeder.Generate for every known block as parent, on long-lived (cached)
   and fresh Seeder instances, in shuffled order.  Logged:

     Reset      a new repository (genesis b0)
     Blk        a block was added: id, parent, number, beta (the header's VRF output, "none" without proof) - FACTS
     Best       the repository's best block is now b (information; the seed must NOT depend on it)
     NewSeeder  Seeder instance s was (re)created: empty cache
     Gen        Seeder s answered Generate(p) = got

   Every answer is recomputed from the parent's own ancestry (Seeder.tla) and must be equal; T_SameParentSameSeed
   states directly on the observations that a parent never got two different seeds, whatever was best or cached.   *)
EXTENDS Seeder, Sequences, Json, TraceLib

Trace == LoadTrace("trace.ndjson")
TraceSI == Trace[1].si          \* the SeederInterval the driver configured (thor.SetConfig), logged in the first Reset

VARIABLES B, best, caches, got, l
vars == <<B, best, caches, got, l>>
Ev == Trace[l]

G == "b0"
Genesis == [parent |-> G, num |-> 0, beta |-> NoSeed]

Fresh == /\ B = (G :> Genesis) /\ best = G /\ caches = <<>> /\ got = <<>>
Init == /\ HWMInit /\ Len(Trace) >= 1 /\ Trace[1].e = "Reset" /\ Fresh /\ l = 2

Reset == /\ Ev.e = "Reset"
         /\ B' = (G :> Genesis) /\ best' = G /\ caches' = <<>> /\ got' = <<>>

Blk == /\ Ev.e = "Blk"
       /\ Ev.b \notin DOMAIN B /\ Ev.p \in DOMAIN B /\ Ev.num = B[Ev.p].num + 1
       /\ B' = B @@ (Ev.b :> [parent |-> Ev.p, num |-> Ev.num, beta |-> Ev.beta])
       /\ UNCHANGED <<best, caches, got>>

Best == /\ Ev.e = "Best" /\ Ev.b \in DOMAIN B
        /\ best' = Ev.b /\ UNCHANGED <<B, caches, got>>

NewSeeder == /\ Ev.e = "NewSeeder"
             /\ caches' = [s \in DOMAIN caches \cup {Ev.s} |-> IF s = Ev.s THEN <<>> ELSE caches[s]]
             /\ UNCHANGED <<B, best, got>>

Gen == /\ Ev.e = "Gen"
       /\ Ev.p \in DOMAIN B /\ Ev.s \in DOMAIN caches
       /\ LET g == Generate(B, caches[Ev.s], Ev.p) IN
          /\ Ev.got = g.res
          /\ caches' = [caches EXCEPT ![Ev.s] = g.cache]
       /\ got' = IF Ev.p \in DOMAIN got THEN [got EXCEPT ![Ev.p] = @ \cup {Ev.got}] ELSE got @@ (Ev.p :> {Ev.got})
       /\ UNCHANGED <<B, best>>

Next == /\ l <= Len(Trace) /\ l' = l + 1
        /\ (Reset \/ Blk \/ Best \/ NewSeeder \/ Gen)
Spec == Init /\ [][Next]_vars

\* ---- properties on the observations ------------------------------------------------------------------------------
T_SameParentSameSeed == \A p \in DOMAIN got : Cardinality(got[p]) = 1
\* the answer just given is the beta of the parent's own ancestor at the seed height (stated on the definition, no cache)
T_SeedIsOwnAncestorsBeta == l > 1 /\ Trace[l - 1].e = "Gen" => Trace[l - 1].got = Seed(B, Trace[l - 1].p)
T_CacheSound == \A s \in DOMAIN caches : CacheSound(B, caches[s])

Progress == HWM(l)
TraceAccepted == Accepted(Len(Trace))
====
