---- MODULE Trace_Scheduler ----
(* Trace specification for C05 (implementation -> model).  cmd/sched drives the REAL scheduler package
   (NewPoASchedulerV1 / NewPoASchedulerV2 / NewPoSScheduler, Schedule, IsTheTime, IsScheduled, Updates) and logs

     Inst   one scheduling instance: kind, T, parent time, the proposer list in contract order, and the FACTS the
            specification leaves open - the order of all listed proposers (computed by the driver INDEPENDENTLY of the
            scheduler package: own blake2b sort for v2, own ChaCha8 / -ln(r)/w / stable insertion sort for pos) and,
            for v1, the dprp values (own blake2b) of the slots that are looked at
     Me     what the real scheduler constructed for proposer `me` answered: constructor verdict, Schedule(now) for a
            set of query times, IsTheTime(t) for a set of times, Updates(t) (switched off / on, score), the order it
            works on as observed through IsScheduled, and whether a second construction answered identically
     Slot   the validator's acceptance rule for ALL listed proposers: for a time t the set of proposers p whose own
            scheduler (constructed as consensus/*_validator.go does, signer = p) accepts t
     End    end of the trace

   Every logged output is recomputed from the operators of Scheduler.tla and must be equal; the observed outputs
   must satisfy the properties themselves (T_* invariants below, stated on the observations, not on the operators).
   Me/Slot events are counted against the number announced by Inst so that a dropped event is a rejection.        *)
EXTENDS Scheduler, TLC, Json, TraceLib

Trace == LoadTrace("trace.ndjson")

VARIABLES inst,   \* current instance
          cnt,    \* Me/Slot events consumed for it
          l
vars == <<inst, cnt, l>>

Ev == Trace[l]

Load(e) == [kind |-> e.kind, T |-> e.T, pt |-> e.pt, list |-> e.list, ord |-> e.ord, total |-> e.total,
            big |-> e.big, nev |-> e.nev, dp |-> e.dp]

Init == /\ HWMInit /\ Len(Trace) >= 1 /\ Trace[1].e = "Inst"
        /\ inst = Load(Trace[1]) /\ cnt = 0 /\ l = 2

NewInst == /\ Ev.e = "Inst"
           /\ cnt = inst.nev                       \* nothing of the previous instance is missing
           /\ inst' = Load(Ev) /\ cnt' = 0

ToSet(s) == {s[i] : i \in DOMAIN s}
NoDup(s) == Cardinality(ToSet(s)) = Len(s)

Me == /\ Ev.e = "Me"
      /\ cnt < inst.nev /\ Ev.seq = cnt + 1
      /\ Ev.ok = CtorOK(inst, Ev.me)
      /\ (Ev.ok =>
            LET I == inst
                me == Ev.me
                S == Order(I, me)
            IN /\ Ev.det
               /\ (Has(Ev, "obs") => Ev.obs = S)                                       \* the order it works on
               /\ \A i \in DOMAIN Ev.sched : ScheduleS(I, S, me, Ev.sched[i][1]) = Ev.sched[i][2]
               /\ \A i \in DOMAIN Ev.itt : IsTheTimeS(I, S, me, Ev.itt[i][1]) = Ev.itt[i][2]
               /\ \A i \in DOMAIN Ev.upd :
                    LET q == Ev.upd[i] IN
                    /\ NoDup(q[2]) /\ NoDup(q[3])
                    /\ ToSet(q[2]) = UpdOffS(I, S, me, q[1])
                    /\ ToSet(q[3]) = UpdOn(I, me)
                    /\ (~(I.big /\ I.kind = "pos") => q[4] = ScoreS(I, S, me, q[1])))
      /\ cnt' = cnt + 1 /\ UNCHANGED inst

Slot == /\ Ev.e = "Slot"
        /\ cnt < inst.nev /\ Ev.seq = cnt + 1
        /\ LET I == inst
               act == Actives(I)
               base == BaseOrder(I)
               SA == OrderOn(base, act)                                                 \* shared by all active p
               SOf(p) == IF p \in act THEN SA ELSE OrderOn(base, act \cup {p})
           IN /\ \A i \in DOMAIN Ev.q : NoDup(Ev.q[i][2]) /\ ToSet(Ev.q[i][2]) \subseteq Addrs(I)
              /\ \A p \in Addrs(I) :
                   LET S == SOf(p) IN
                   \A i \in DOMAIN Ev.q : (p \in ToSet(Ev.q[i][2])) = IsTheTimeS(I, S, p, Ev.q[i][1])
        /\ cnt' = cnt + 1 /\ UNCHANGED inst

End == /\ Ev.e = "End" /\ cnt = inst.nev /\ UNCHANGED <<inst, cnt>>

Next == /\ l <= Len(Trace) /\ l' = l + 1
        /\ (NewInst \/ Me \/ Slot \/ End)
Spec == Init /\ [][Next]_vars

\* ---- the properties, evaluated on what the real code answered (the event just consumed) -------------------------
Last == Trace[l - 1]
IsMe == l > 1 /\ Last.e = "Me" /\ Last.ok
T_WF == WellFormed(inst)

\* exactly one active proposer is accepted for an aligned slot, none for any other time
T_UniqueOwner ==
  l > 1 /\ Last.e = "Slot" =>
    \A i \in DOMAIN Last.q :
      LET t == Last.q[i][1]
          who == ToSet(Last.q[i][2]) \cap Actives(inst)
      IN IF Aligned(inst, t) /\ Actives(inst) # {} THEN Cardinality(who) = 1 ELSE who = {}

\* Schedule(now) >= now, > parent, aligned, accepted by IsTheTime, and no accepted time in [now, t) was skipped
T_ScheduleIsEarliest ==
  IsMe =>
    LET probed == {Last.itt[i][1] : i \in DOMAIN Last.itt}
        yes == {Last.itt[i][1] : i \in {j \in DOMAIN Last.itt : Last.itt[j][2]}}
    IN \A i \in DOMAIN Last.sched :
         LET now == Last.sched[i][1]
             t == Last.sched[i][2]
         IN t # None =>
              /\ t >= now /\ Aligned(inst, t)
              /\ (t \in probed => t \in yes)
              /\ \A u \in yes : ~(u >= now /\ u < t)

\* IsTheTime(t) <=> aligned and a packer asking at t is told t
T_ValidatorAgrees ==
  IsMe =>
    LET probed == {Last.itt[i][1] : i \in DOMAIN Last.itt}
        yes == {Last.itt[i][1] : i \in {j \in DOMAIN Last.itt : Last.itt[j][2]}}
    IN /\ \A u \in yes : Aligned(inst, u)
       /\ \A i \in DOMAIN Last.sched :
            LET now == Last.sched[i][1] IN
            (now \in probed /\ now > inst.pt /\ Last.sched[i][2] # None) => (now \in yes <=> Last.sched[i][2] = now)

\* Updates: only active others are switched off, me is switched on iff it was off, score = who stays on
T_UpdatesAgree ==
  IsMe =>
    LET me == Last.me
    IN \A i \in DOMAIN Last.upd :
         LET off == ToSet(Last.upd[i][2])
             on == ToSet(Last.upd[i][3])
             stay == Eligible(inst, me) \ off
         IN /\ off \subseteq Actives(inst) \ {me}
            /\ on = {me} \ Actives(inst)
            /\ (SlotOf(inst, Last.upd[i][1]) = 1 => off = {})
            /\ (inst.kind # "pos" => Last.upd[i][4] = Cardinality(stay))
            /\ (inst.kind = "pos" /\ ~inst.big =>
                  Last.upd[i][4] = IF inst.total > 0 THEN (WSum(inst, stay) * MaxPosScore) \div inst.total ELSE 0)

Progress == HWM(l)
TraceAccepted == Accepted(Len(Trace))
====
