SPECIFICATION Spec
CONSTANTS
  SI <- TraceSI
  NoSeed = "none"
INVARIANT T_SameParentSameSeed
INVARIANT T_SeedIsOwnAncestorsBeta
INVARIANT T_CacheSound
CONSTRAINT Progress
POSTCONDITION TraceAccepted
CHECK_DEADLOCK FALSE
