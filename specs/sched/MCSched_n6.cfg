SPECIFICATION Spec
CONSTANTS
  MaxPosScore = 10000
  V1Walk = 2
  N = 6
  Kinds = {"pos"}
  Ts = {1}
  Pt = 4
  Slots = 2
  SlotsB = 2
  DW = 1
  DV = 1
  WeightVecs <- WVOne
INVARIANT WF
INVARIANT Ctor
INVARIANT P_UniqueOwner
INVARIANT P_AllAgree
INVARIANT P_ScheduleIsEarliest
INVARIANT P_ValidatorAgrees
INVARIANT P_UpdatesAgree
CHECK_DEADLOCK FALSE
