---- MODULE MCSeeder ----
(* Exhaustive: every block tree of up to MaxBlocks blocks (ids in creation order, every parent choice, VRF or not),
   every choice of the best block, every history of Generate calls on one long-lived Seeder.                        *)
EXTENDS Seeder
CONSTANTS MaxBlocks
NoSeedInt == -1

VARIABLES B, best, cache, prevB
vars == <<B, best, cache, prevB>>

Genesis == [parent |-> 0, num |-> 0, beta |-> NoSeed]
Init == B = (0 :> Genesis) /\ best = 0 /\ cache = <<>> /\ prevB = B

Add == /\ Cardinality(DOMAIN B) < MaxBlocks
       /\ \E p \in DOMAIN B, vrf \in BOOLEAN, asBest \in BOOLEAN :
            LET id == Cardinality(DOMAIN B) IN
            /\ B' = B @@ (id :> [parent |-> p, num |-> B[p].num + 1, beta |-> IF vrf THEN id ELSE NoSeed])
            /\ best' = IF asBest THEN id ELSE best
       /\ prevB' = B /\ UNCHANGED cache
Gen == /\ \E p \in DOMAIN B : cache' = Generate(B, cache, p).cache
       /\ cache' # cache
       /\ prevB' = B /\ UNCHANGED <<B, best>>
Next == Add \/ Gen
Spec == Init /\ [][Next]_vars

P_GenerateIsSeed == GenerateIsSeed(B, cache)
P_CacheSound == CacheSound(B, cache)
P_Stable == Stable(prevB, B)
\* deliberately false (vacuity guard): the seed block of p is on the best chain
X_SeedOnBestChain == \A p \in DOMAIN B :
   LET h == SeedNum(B[p].num) IN h >= 0 /\ B[best].num >= h => AncAt(B, best, h) = AncAt(B, p, h)
====
