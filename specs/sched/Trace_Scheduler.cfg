SPECIFICATION Spec
CONSTANTS
  MaxPosScore = 10000
  V1Walk = 101
INVARIANT T_WF
INVARIANT T_UniqueOwner
INVARIANT T_ScheduleIsEarliest
INVARIANT T_ValidatorAgrees
INVARIANT T_UpdatesAgree
CONSTRAINT Progress
POSTCONDITION TraceAccepted
CHECK_DEADLOCK FALSE
