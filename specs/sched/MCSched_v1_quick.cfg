SPECIFICATION Spec
CONSTANTS
  MaxPosScore = 10000
  V1Walk = 2
  N = 3
  Kinds = {"v1"}
  Ts = {1, 2}
  Pt = 3
  Slots = 2
  SlotsB = 2
  DW = 4
  DV = 3
  WeightVecs <- WVNone
INVARIANT WF
INVARIANT Ctor
INVARIANT P_UniqueOwner
INVARIANT P_AllAgree
INVARIANT P_ScheduleIsEarliest
INVARIANT P_ValidatorAgrees
INVARIANT P_UpdatesAgree
CHECK_DEADLOCK FALSE
