---- MODULE Seeder ----
(* C05, scheduler/seed.go: the seed of the PoA-v2 / PoS shuffle for a block whose parent is p.

   Seed(p) = beta (VRF output) of the block at height (epoch - 1) * SI ON THE CHAIN OF p, where
   epoch = (num(p) + 1) \div SI, and no seed while epoch <= 1.  It is a function of p and its ancestors only -
   not of which branch the local node currently considers best, not of what a long-lived Seeder has cached, not of
   the order of queries: otherwise two nodes validating the same block would derive different proposer orders.

   B is the block tree: id -> [parent, num, beta]; beta = NoSeed for a block without a VRF proof (and the genesis). *)
EXTENDS Integers, FiniteSets, TLC

CONSTANTS SI,        \* thor.SeederInterval()
          NoSeed     \* "no seed" (nil slice in Go)

RECURSIVE AncAt(_, _, _)
AncAt(B, b, n) == IF B[b].num = n THEN b ELSE AncAt(B, B[b].parent, n)
IsAnc(B, a, b) == B[a].num <= B[b].num /\ AncAt(B, b, B[a].num) = a

\* blockNum = num(p) + 1; epoch = blockNum / SI; epoch <= 1 -> none; seedNum = (epoch - 1) * SI
SeedNum(pnum) == LET e == (pnum + 1) \div SI IN IF e <= 1 THEN -1 ELSE (e - 1) * SI

\* ---- the definition -------------------------------------------------------------------------------------------
Seed(B, p) == LET h == SeedNum(B[p].num) IN IF h < 0 THEN NoSeed ELSE B[AncAt(B, p, h)].beta

\* ---- transcription of Seeder.Generate with its cache (seed block id -> seed) ------------------------------------
\* seedID = repo.NewChain(parentID).GetBlockID(seedNum); cache hit -> cached value; else beta of the seed block, cached
Generate(B, cache, p) ==
  LET h == SeedNum(B[p].num) IN
  IF h < 0 THEN [res |-> NoSeed, cache |-> cache]
  ELSE LET id == AncAt(B, p, h) IN
       IF id \in DOMAIN cache THEN [res |-> cache[id], cache |-> cache]
       ELSE [res |-> B[id].beta, cache |-> cache @@ (id :> B[id].beta)]

\* ---- properties -----------------------------------------------------------------------------------------------
\* whatever was cached before, Generate answers the definition
GenerateIsSeed(B, cache) == \A p \in DOMAIN B : Generate(B, cache, p).res = Seed(B, p)
CacheSound(B, cache) == \A id \in DOMAIN cache : id \in DOMAIN B /\ cache[id] = B[id].beta
\* the seed of p never changes when the tree grows: B2 extends B1
Stable(B1, B2) == \A p \in DOMAIN B1 : Seed(B2, p) = Seed(B1, p)
====
