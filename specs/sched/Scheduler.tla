---- MODULE Scheduler ----
(* C05 - "for every slot exactly one active proposer is entitled, and all nodes agree who".

   Transcription of thor's three block-proposer schedulers
        scheduler/poa_v1.go   (PoA before VIP-214:  owner = actives[dprp(parentNum, t) mod n])
        scheduler/poa_v2.go   (PoA after  VIP-214:  owner = shuffled[((t - pt - T)/T) mod n])
        scheduler/pos.go      (PoS:                 owner = sequence[((t - pt - T)/T) mod n], weighted score)
   as pure operators over an *instance* I, followed by the declarative properties the transcription has to satisfy.

   An instance I is a record
        kind   "v1" | "v2" | "pos"
        T      block interval                       (thor.BlockInterval())
        pt     parent block time
        list   sequence of [a |-> address, act |-> BOOLEAN, w |-> weight]      the proposer list in CONTRACT ORDER
        ord    a permutation of ALL listed addresses - a FACT supplied from outside:
                 v2  : ascending blake2b(seed, parentNum, address)
                 pos : ascending (-ln(r_i)/w_i, i), r_i drawn for every listed proposer in list order
                 v1  : unused (the list order itself is used)
               The scheduler of proposer `me` works on the restriction of that order to Eligible(me) = actives + me;
               restricting a (stable) sort to a subset is the (stable) sort of the subset, so one fact serves every `me`.
        total  total weight of the staker contract (pos; an input of its own, not the sum over the list)
        dp     v1 only, FACT: dprp(parentNum, pt + k*T) for the slots k that are looked at, as a sequence of segments
               [k0 |-> first slot, v |-> values of slots k0, k0+1, ...], each value in little-endian limbs base 2^15
   Hashes and the random source are oracles; everything else is decided here.                                      *)
EXTENDS Integers, Sequences, FiniteSets

CONSTANTS MaxPosScore,   \* thor.MaxPosScore (10000)
          V1Walk         \* thor.InitialMaxBlockProposers (101): PoA v1 Updates walks back at most that many slots

None == -1               \* "no answer inside the supplied facts" (v1 Schedule beyond the dprp window)

Range(s) == {s[i] : i \in DOMAIN s}
MinOf(S) == CHOOSE x \in S : \A y \in S : x <= y
MaxOf(S) == CHOOSE x \in S : \A y \in S : x >= y

\* value mod n of a little-endian base-2^15 limb sequence, Horner from the most significant limb (all products < 2^31)
RECURSIVE ModFrom(_, _, _)
ModFrom(d, i, n) == IF i > Len(d) THEN 0 ELSE (d[i] + 32768 * ModFrom(d, i + 1, n)) % n
ModLimbs(d, n) == ModFrom(d, 1, n)

\* ------------------------------------------------------------------------------------------------ the instance
Addrs(I)       == {I.list[i].a : i \in DOMAIN I.list}
Actives(I)     == {I.list[i].a : i \in {j \in DOMAIN I.list : I.list[j].act}}
Eligible(I, me) == Actives(I) \cup {me}
CtorOK(I, me)  == me \in Addrs(I)                         \* New*Scheduler: "unauthorized block proposer" otherwise

BaseOrder(I)   == IF I.kind = "v1" THEN [i \in DOMAIN I.list |-> I.list[i].a] ELSE I.ord
\* the sequence the scheduler of `me` works on (actives / shuffled / sequence in the Go code)
OrderOn(base, E) == SelectSeq(base, LAMBDA x : x \in E)
Order(I, me)   == OrderOn(BaseOrder(I), Eligible(I, me))

WellFormed(I) ==
  /\ I.kind \in {"v1", "v2", "pos"} /\ I.T >= 1 /\ I.pt >= 0 /\ Len(I.list) >= 1
  /\ Cardinality(Addrs(I)) = Len(I.list)                                       \* addresses are distinct
  /\ (I.kind # "v1" => Len(I.ord) = Len(I.list) /\ Range(I.ord) = Addrs(I))    \* the fact is a permutation

\* dprp facts
DpHas(I, k) == \E i \in DOMAIN I.dp : k >= I.dp[i].k0 /\ k < I.dp[i].k0 + Len(I.dp[i].v)
DpAt(I, k)  == LET i == CHOOSE i \in DOMAIN I.dp : k >= I.dp[i].k0 /\ k < I.dp[i].k0 + Len(I.dp[i].v)
               IN I.dp[i].v[k - I.dp[i].k0 + 1]

\* ------------------------------------------------------------------------------------------------ time and slots
Aligned(I, t)  == t > I.pt /\ (t - I.pt) % I.T = 0
SlotOf(I, t)   == (t - I.pt) \div I.T                    \* k >= 1 for an aligned t
TimeOf(I, k)   == I.pt + k * I.T
\* Schedule: newBlockTime = pt + T; if now > newBlockTime { newBlockTime += (now - newBlockTime + T - 1) / T * T }
StartTime(I, now) == LET t0 == I.pt + I.T IN IF now > t0 THEN t0 + ((now - t0 + I.T - 1) \div I.T) * I.T ELSE t0

\* whoseTurn / shuffled[index] / sequence[index]:  S = Order(I, me)
OwnerAt(I, S, t) ==
  IF I.kind = "v1" THEN S[ModLimbs(DpAt(I, SlotOf(I, t)), Len(S)) + 1]
  ELSE S[(((t - I.pt - I.T) \div I.T) % Len(S)) + 1]

RECURSIVE FirstOwnV1(_, _, _, _)
FirstOwnV1(I, S, me, k) ==
  IF ~DpHas(I, k) THEN None
  ELSE IF S[ModLimbs(DpAt(I, k), Len(S)) + 1] = me THEN TimeOf(I, k) ELSE FirstOwnV1(I, S, me, k + 1)

IsTheTimeS(I, S, me, t) ==
  /\ I.pt < t                                  \* "invalid block time"
  /\ (t - I.pt) % I.T = 0                      \* "invalid block time"
  /\ OwnerAt(I, S, t) = me

ScheduleS(I, S, me, now) ==
  LET t0 == StartTime(I, now) IN
  IF I.kind = "v1"
  THEN \* for { if whoseTurn(t) == me return t; t += T }   - within the supplied dprp facts
       FirstOwnV1(I, S, me, SlotOf(I, t0))
  ELSE \* offset = (t0 - pt)/T - 1; first i < n with S[(i + offset) % n] == me  ->  t0 + i*T
       LET n == Len(S)
           off == (t0 - I.pt) \div I.T - 1
           hit == {i \in 0..(n - 1) : S[((i + off) % n) + 1] = me}
       IN t0 + MinOf(hit) * I.T

\* proposers switched off by a block of `me` at time t (aligned, t > pt)
UpdOffS(I, S, me, t) ==
  IF I.kind = "v1"
  THEN \* t' = t - T; for i < V1Walk && t' > pt { whoseTurn(t') # me -> deactivate; t' -= T }
       LET kt == SlotOf(I, t) IN
       {OwnerAt(I, S, TimeOf(I, k)) : k \in MaxOf({1, kt - V1Walk})..(kt - 1)} \ {me}
  ELSE \* for i < n { if pt + T + i*T >= t break; S[i] # me -> deactivate }
       {S[i + 1] : i \in {j \in 0..(Len(S) - 1) : I.pt + I.T + j * I.T < t}} \ {me}
UpdOn(I, me) == IF me \in Actives(I) THEN {} ELSE {me}

\* total weight of the listed proposers whose address is in X (one pass over the list)
RECURSIVE WSumFrom(_, _, _)
WSumFrom(I, X, i) == IF i > Len(I.list) THEN 0
                     ELSE (IF I.list[i].a \in X THEN I.list[i].w ELSE 0) + WSumFrom(I, X, i + 1)
WSum(I, X) == WSumFrom(I, X, 1)

ScoreS(I, S, me, t) ==
  LET off == UpdOffS(I, S, me, t) IN
  IF I.kind = "pos"
  THEN IF I.total > 0 THEN ((WSum(I, Range(S)) - WSum(I, off)) * MaxPosScore) \div I.total ELSE 0
  ELSE Len(S) - Cardinality(off)

\* convenience wrappers
IsTheTime(I, me, t)  == IsTheTimeS(I, Order(I, me), me, t)
Schedule(I, me, now) == ScheduleS(I, Order(I, me), me, now)
UpdOff(I, me, t)     == UpdOffS(I, Order(I, me), me, t)
Score(I, me, t)      == ScoreS(I, Order(I, me), me, t)
Owner(I, me, t)      == OwnerAt(I, Order(I, me), t)        \* owner of the aligned slot t in the view of me's scheduler

\* ================================================================================================ properties
\* facts available for slot t (always for v2/pos)
Known(I, t) == I.kind = "v1" => DpHas(I, SlotOf(I, t))

\* exactly one ACTIVE proposer is entitled to an aligned slot, nobody to any other time; with no active proposer at
\* all every listed proposer is entitled in its own view (it is alone in it) - that is how a stalled chain restarts
UniqueOwner(I, t) ==
  LET who == {p \in Actives(I) : IsTheTime(I, p, t)} IN
  IF Aligned(I, t) /\ Actives(I) # {}
  THEN Known(I, t) => Cardinality(who) = 1
  ELSE who = {} /\ (Aligned(I, t) /\ Known(I, t) => \A p \in Addrs(I) : IsTheTime(I, p, t))

\* all active proposers (hence all validators checking an active signer) work on the same sequence; the view of an
\* inactive proposer is that sequence with itself inserted, nothing else reordered
AllAgree(I) ==
  /\ \A p, q \in Actives(I) : Order(I, p) = Order(I, q)
  /\ \A p \in Addrs(I) \ Actives(I) : \A q \in Actives(I) :
        OrderOn(Order(I, p), Actives(I)) = Order(I, q)
  /\ \A p \in Addrs(I) : Range(Order(I, p)) = Eligible(I, p) /\ Len(Order(I, p)) = Cardinality(Eligible(I, p))

\* Schedule(now) is the earliest time >= now and > parent that the validator side accepts from me
ScheduleIsEarliest(I, me, now) ==
  LET t == Schedule(I, me, now)
      lo == IF now > I.pt THEN now ELSE I.pt + 1
  IN t # None =>
       /\ t >= now /\ t > I.pt
       /\ IsTheTime(I, me, t)
       /\ \A u \in lo..(t - 1) : ~(Known(I, u) /\ IsTheTime(I, me, u))
       /\ (I.kind # "v1" => t < StartTime(I, now) + Len(Order(I, me)) * I.T)       \* bounded wait: one round

\* the validator accepts time t from me  <=>  me owns slot t  <=>  a packer asking at t would be told t
ValidatorAgrees(I, me, t) ==
  Known(I, t) \/ ~Aligned(I, t) =>
    /\ IsTheTime(I, me, t) <=> (Aligned(I, t) /\ Owner(I, me, t) = me)
    /\ IsTheTime(I, me, t) <=> (t > I.pt /\ Schedule(I, me, t) = t)

\* Updates of a block of me at aligned t: exactly the owners (in me's view) of the missed slots are switched off
\* (for v2/pos ALL missed slots although the loop is cut at n: the sequence is periodic; v1: the last V1Walk ones),
\* me is switched on iff it was off, the score is the count / weight of those who stay on
UpdatesAgree(I, me, t) ==
  Aligned(I, t) /\ (I.kind = "v1" => \A k \in MaxOf({1, SlotOf(I, t) - V1Walk})..SlotOf(I, t) : DpHas(I, k)) =>
    LET S == Order(I, me)
        off == UpdOff(I, me, t)
        kt == SlotOf(I, t)
        missed == IF I.kind = "v1" THEN MaxOf({1, kt - V1Walk})..(kt - 1) ELSE 1..(kt - 1)
        stay == Eligible(I, me) \ off
    IN /\ off = {Owner(I, me, TimeOf(I, k)) : k \in missed} \ {me}
       /\ off \subseteq Actives(I) /\ me \notin off
       /\ UpdOn(I, me) = {me} \ Actives(I)
       /\ (kt = 1 => off = {})
       /\ Score(I, me, t) = IF I.kind = "pos"
                            THEN IF I.total > 0 THEN (WSum(I, stay) * MaxPosScore) \div I.total ELSE 0
                            ELSE Cardinality(stay)
       /\ (I.kind # "pos" => Score(I, me, t) >= 1)
====
