---- MODULE MCScheduler ----
(* Exhaustive exploration of Scheduler.tla: every list size 1..N, every active pattern, every order fact
   (v2/pos: every permutation; v1: every dprp function over the first DW slots with values 0..DV-1), every `me`
   (listed or a stranger), every block interval in Ts, every time 0..Horizon used both as the packer's `now` and as
   the validator's block time t.  The time cursor walks the window of each (instance, me).                         *)
EXTENDS Scheduler, TLC

CONSTANTS N,        \* maximal list size
          Kinds,    \* subset of {"v1", "v2", "pos"}
          Ts,       \* block intervals
          Pt,       \* parent time
          Slots,    \* the window covers Slots(n) = SlotsA * n + SlotsB slots after the parent
          SlotsB,
          DW, DV,   \* v1: dprp facts for slots 1..DW, values 0..DV-1
          WeightVecs \* pos: set of <<weight vector (length >= N), total weight>>

VARIABLES inst, me, now, phase
vars == <<inst, me, now, phase>>

Perms(n) == {s \in [1..n -> 1..n] : Range(s) = 1..n}
Id(n) == [i \in 1..n |-> i]

\* phase 0: the skeleton (kind, size, interval, active pattern, weights) with a placeholder order - one initial state
\* each, so that the expensive part of the enumeration (orders x me) is spread over the workers as successor states
Skeletons ==
  UNION {
    UNION {
      { [kind |-> k, T |-> T, pt |-> Pt,
         list |-> [i \in 1..n |-> [a |-> i, act |-> pat[i], w |-> wv[1][i]]],
         ord |-> Id(n), total |-> wv[2], dp |-> <<>>] :
           pat \in [1..n -> BOOLEAN],
           wv \in (IF k = "pos" THEN WeightVecs ELSE {<< [i \in 1..N |-> 0], 0 >>}),
           T \in Ts }
      : n \in 1..N }
    : k \in Kinds }

Orders(I) == IF I.kind = "v1" THEN {Id(Len(I.list))} ELSE Perms(Len(I.list))
Dps(I) == IF I.kind = "v1"
          THEN {<<[k0 |-> 1, v |-> [s \in 1..DW |-> <<f[s]>>]]>> : f \in [1..DW -> 0..(DV - 1)]}
          ELSE {<<>>}

Horizon(I) == I.pt + (IF I.kind = "v1" THEN DW + 1 ELSE Slots * Len(I.list) + SlotsB) * I.T + 1

Init == /\ inst \in Skeletons /\ me = 0 /\ now = 0 /\ phase = 0
Pick == /\ phase = 0
        /\ \E o \in Orders(inst), d \in Dps(inst) : inst' = [inst EXCEPT !.ord = o, !.dp = d]
        /\ me' \in 1..(Len(inst.list) + 1)          \* Len + 1 : not listed
        /\ phase' = 1 /\ now' = 0
Tick == /\ phase = 1
        /\ now < Horizon(inst)
        /\ now' = now + 1
        /\ UNCHANGED <<inst, me, phase>>
Next == Pick \/ Tick
Spec == Init /\ [][Next]_vars

\* weight vectors for the cfg files (nested tuples cannot be written in a cfg)
WVNone == {}
WVTwo == { << <<1, 1, 1, 1, 1, 1>>, 7 >>, << <<3, 0, 5, 0, 7, 2>>, 20 >> }
WVOne == { << <<3, 0, 5, 0, 7, 2>>, 20 >> }
WVThree == WVTwo \cup { << <<0, 0, 0, 0, 0, 0>>, 0 >> }

\* ---- invariants (of the fully chosen instances, phase 1) ---------------------------------------------------------
Chosen == phase = 1
WF == Chosen => WellFormed(inst)
Ctor == Chosen => (CtorOK(inst, me) <=> me <= Len(inst.list))
P_UniqueOwner == Chosen => UniqueOwner(inst, now)
P_AllAgree == Chosen /\ now = 0 => AllAgree(inst)
P_ScheduleIsEarliest == Chosen /\ CtorOK(inst, me) => ScheduleIsEarliest(inst, me, now)
P_ValidatorAgrees == Chosen /\ CtorOK(inst, me) => ValidatorAgrees(inst, me, now)
P_UpdatesAgree == Chosen /\ CtorOK(inst, me) => UpdatesAgree(inst, me, now)

\* ---- deliberately false statements: each must be refuted (run by the check as a vacuity guard) ----------------
\* uniqueness among ALL listed proposers is false: an inactive proposer owns slots in its own view
X_UniqueAmongListed == Chosen /\ Aligned(inst, now) /\ Known(inst, now) =>
                         Cardinality({p \in Addrs(inst) : IsTheTime(inst, p, now)}) = 1
\* Schedule never has to skip a slot
X_NoWait == Chosen /\ CtorOK(inst, me) /\ inst.kind # "v1" => Schedule(inst, me, now) = StartTime(inst, now)
\* nobody is ever switched off
X_NoOff == Chosen /\ CtorOK(inst, me) /\ Aligned(inst, now) /\ inst.kind # "v1" => UpdOff(inst, me, now) = {}
====
