SPECIFICATION Spec
CONSTANTS
  SI = 2
  NoSeed <- NoSeedInt
  MaxBlocks = 6
INVARIANT P_GenerateIsSeed
INVARIANT P_CacheSound
INVARIANT P_Stable
CHECK_DEADLOCK FALSE
