------------------------------ MODULE MC_Codec ------------------------------
(* Exhaustive check of RoundTrip over the case family, and export of (bytes, verdict) for the replay on the real
   decoders.  One state per case.                                                                                  *)
EXTENDS CodecCases, Json, SequencesExt

VARIABLE c

Singles == UNION {SingleCases(t) \cup TopCases(t) \cup LimitCases(t) : t \in Targets}
\* two-site cases: quick = three targets, thorough = every target
SomeTargets == {t \in Targets : <<t.obj, t.kind>> \in {<<"L1", "txbin">>, <<"D1", "txrlp">>, <<"H1", "header">>}}
PairsSome == UNION {PairCases(t) : t \in SomeTargets}
PairsAll == UNION {PairCases(t) : t \in Targets}

InitSingles == c \in Singles
InitPairsSome == c \in PairsSome
InitPairsAll == c \in PairsAll
Next == UNCHANGED c

\* the property of the specification
RoundTrip == RoundTrips(c.kind, c.x)
\* sanity (non-vacuity): every base object is accepted in its canonical encoding
CanonicalAccepted == (c.site = "top" /\ c.form = "canonical") => Verdict(c)
SizeIsLength == LET d == Decode(c.kind, c.x) IN (d.ok /\ c.kind \in {"txbin", "block"}) => SizeOf(c.kind, d.v) = Len(c.x)

\* a decoded header that carries a base fee (zero included) binds COM and alpha into the signing preimage; one without does not
ExtensionSignedIffFee ==
  LET d == Decode(c.kind, c.x) IN
  (c.kind = "header" /\ d.ok) =>
     LET v == d.v
         e == v[Len(v)]
         com2 == [v EXCEPT ![Len(v)] = [e EXCEPT !.com = ~e.com]]
         alpha2 == [v EXCEPT ![Len(v)] = [e EXCEPT !.alpha = <<1>> \o e.alpha]]
     IN /\ (HeaderPreimage(com2) # HeaderPreimage(v)) = e.hasfee
        /\ (HeaderPreimage(alpha2) # HeaderPreimage(v)) = e.hasfee

\* stream entry points: limit = Len(x) (= limit 0) and limit = Len(x) - 1
StreamRoundTrip == c.kind \in StreamKinds => StreamRoundTrips(c.kind, c.x, 0) /\ StreamRoundTrips(c.kind, c.x, Len(c.x) - 1)
\* DecodeBytes = stream decode that consumed everything (the documented difference, nothing else)
BytesIsStreamPlusNoTrailing ==
  c.kind \in StreamKinds => LET d == StreamDecode(c.kind, c.x, 0) IN Verdict(c) = (d.ok /\ d.n = Len(c.x))
StreamOut(kind, x, limit) == LET d == StreamDecode(kind, x, limit) IN [ok |-> d.ok, n |-> IF d.ok THEN d.n ELSE 0]
Out(cs) == IF cs.kind \in StreamKinds
           THEN [id |-> cs.id, kind |-> cs.kind, site |-> cs.site, form |-> cs.form, x |-> cs.x, ok |-> Verdict(cs),
                 s0 |-> StreamOut(cs.kind, cs.x, 0),
                 s1 |-> IF Len(cs.x) > 1 THEN StreamOut(cs.kind, cs.x, Len(cs.x) - 1) ELSE [ok |-> FALSE, n |-> 0]]
           ELSE [id |-> cs.id, kind |-> cs.kind, site |-> cs.site, form |-> cs.form, x |-> cs.x, ok |-> Verdict(cs)]
Tables == [legacySigned |-> LegacySigned, dynSigned |-> DynSigned, legacyHashed |-> LegacyHashed, dynHashed |-> DynHashed,
           headerSignedWithFee |-> HeaderSignedWithFee, headerSignedNoFee |-> HeaderSignedNoFee,
           maxClauses |-> MaxClauses, maxUnused |-> MaxUnused,
           receiptBound |-> ReceiptBound,
           receiptBases |-> LET q == SetToSeq(ReceiptBases) IN
                            [i \in 1..Len(q) |-> [type |-> q[i].type, reverted |-> q[i].reverted, amounts |-> q[i].amounts, outputs |-> q[i].outputs]],
           headerBases |-> LET q == SetToSeq(HeaderBases) IN
                           [i \in 1..Len(q) |-> [baseFee |-> q[i].baseFee, alpha |-> q[i].alpha, com |-> q[i].com, gas |-> q[i].gas,
                                                  signed |-> HeaderSignedFor(q[i])]],
           txBases |-> LET q == SetToSeq(TxBases) IN
                       [i \in 1..Len(q) |-> [type |-> q[i].type, fees |-> q[i].fees, expiration |-> q[i].expiration, nonce |-> q[i].nonce,
                                              clauses |-> q[i].clauses, dependsOn |-> q[i].dependsOn, delegated |-> q[i].delegated,
                                              signed |-> TxSignedFor(q[i]), hashed |-> TxHashedFor(q[i])]]]
Export(cases) == LET q == SetToSeq(cases) IN
             /\ TLCGet("stats").distinct >= 0
             /\ ndJsonSerialize("cases.ndjson", [i \in 1..Len(q) |-> Out(q[i])])
             /\ JsonSerialize("tables.json", Tables)
ExportSingles == Export(Singles)
ExportPairsSome == Export(PairsSome)
ExportPairsAll == Export(PairsAll)
=============================================================================
