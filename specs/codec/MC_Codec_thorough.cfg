CONSTANTS
  MaxClauses = 2500
  MaxUnused = 2
INIT InitPairs
NEXT Next
INVARIANT RoundTrip
INVARIANT SizeIsLength
POSTCONDITION ExportPairs
CHECK_DEADLOCK FALSE
