CONSTANTS
  MaxClauses = 2500
  MaxUnused = 2
INIT InitPairsAll
NEXT Next
INVARIANT RoundTrip
INVARIANT SizeIsLength
INVARIANT StreamRoundTrip
INVARIANT BytesIsStreamPlusNoTrailing
INVARIANT ExtensionSignedIffFee
POSTCONDITION ExportPairsAll
CHECK_DEADLOCK FALSE
