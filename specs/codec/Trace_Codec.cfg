SPECIFICATION Spec
CONSTANTS
  MaxClauses = 2500
  MaxUnused = 2
CONSTRAINT Progress
POSTCONDITION TraceAccepted
CHECK_DEADLOCK FALSE
