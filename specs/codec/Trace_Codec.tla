---------------------------- MODULE Trace_Codec ----------------------------
(* Trace specification of C11 (implementation -> model).  cmd/codec -mode mutate feeds seeded byte-level and
   structure-aware mutants of valid, really signed objects to the REAL decoders (tx.Transaction.UnmarshalBinary /
   DecodeRLP, block.Header, block.Block + block.DecodeRawBlock, tx.Receipt) and logs one event per input:
       [e |-> "Dec", i, kind, x (the bytes), ok (accepted?), same (re-encoded byte-identically?), size (Size() or -1),
        s0ok, s0n, s1ok, s1n (stream decodes with limit Len(x) and Len(x)-1: accepted? bytes consumed)]
   Here every logged verdict is recomputed from the bytes alone with Codec!Decode and must be the logged one; for an
   accepted input the specification's own Encode(Decode(x)) must give x back (RoundTrips on an input the model did
   not choose), the implementation must have re-encoded identically and reported Size() = the model's SizeOf.
   Events are numbered so that a dropped event is noticed; End carries the count.                                  *)
EXTENDS Codec, TraceLib

Trace == LoadTrace("trace.ndjson")

VARIABLES l,     \* next line
          n      \* Dec events seen since Reset
vars == <<l, n>>
Ev == Trace[l]

Init == HWMInit /\ l = 1 /\ n = 0

Reset == Ev.e = "Reset" /\ n' = 0

Dec_ == /\ Ev.e = "Dec"
        /\ Ev.i = n + 1
        /\ n' = n + 1
        /\ LET d == Decode(Ev.kind, Ev.x) IN
           /\ d.ok = Ev.ok
           /\ d.ok => /\ Encode(Ev.kind, d.v) = Ev.x
                      /\ Ev.same
                      /\ Ev.size = SizeOf(Ev.kind, d.v)
        \* the stream entry points (rlp.NewStream(reader, limit).Decode, rlp.Decode): verdict AND number of bytes consumed,
        \* for limit = Len(x) and limit = Len(x) - 1; what was consumed re-encodes identically
        /\ Ev.kind \in StreamKinds =>
             /\ LET s == StreamDecode(Ev.kind, Ev.x, 0) IN
                  /\ s.ok = Ev.s0ok
                  /\ s.ok => (s.n = Ev.s0n /\ Encode(Ev.kind, s.v) = SubSeq(Ev.x, 1, s.n))
             /\ Len(Ev.x) > 1 =>
                  LET s == StreamDecode(Ev.kind, Ev.x, Len(Ev.x) - 1) IN
                  /\ s.ok = Ev.s1ok
                  /\ s.ok => (s.n = Ev.s1n /\ Encode(Ev.kind, s.v) = SubSeq(Ev.x, 1, s.n))

End == Ev.e = "End" /\ Ev.n = n /\ n' = n

Next == l <= Len(Trace) /\ l' = l + 1 /\ (Reset \/ Dec_ \/ End)
Spec == Init /\ [][Next]_vars

Progress == HWM(l)
TraceAccepted == Accepted(Len(Trace))
=============================================================================
