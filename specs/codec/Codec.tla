------------------------------- MODULE Codec -------------------------------
(* C11 - blocks, transactions and receipts have ONE canonical encoding, bound to their id.

   Two layers.

   1. RLP over byte sequences, exactly as the vendored decoder (github.com/vechain/go-ethereum rlp: Stream.Kind /
      readKind / Bytes / uint / Bool / Raw / decodeByteArray / makeStructDecoder / decodeListSlice) enforces it on DECODE:
        - a length prefix must be the shortest one (no long form for payloads < 56 bytes, no leading zero in the
          length-of-length form),
        - a one-byte string < 0x80 is its own encoding (0x81 0x05 is rejected wherever the item is read as a
          string / integer / byte array; Stream.Raw alone does not look),
        - integers have no leading zero byte and fit their Go type,
        - an item must fit the enclosing list, a list must be consumed exactly, the input must be one item.
      Positions are 1-based indexes into the one input sequence b; [p, e) is the window the item has to fit in.

   2. Structure tables (schemas) of thor's consensus objects, transcribed from tx/tx_legacy.go, tx/tx_dynamic_fee.go,
      tx/clause.go, tx/reserved.go, tx/transaction.go (typed envelope 0x51 || rlp), tx/receipt.go, block/header.go,
      block/txs_root_features.go, block/extension.go, block/block.go, and one interpreter  Dec(schema, b, p, e)
      for them.  Node(schema, value) is the canonical item tree of a value (the trim rules of reserved / extension
      and the hash-or-pair rule of txsRootFeatures live there), Enc = its serialisation.

   Decode(kind, bytes) \in {Bad} \cup [ok |-> TRUE, v |-> value];  Encode(kind, value) \in bytes.
   The property (checked by TLC over the family of CodecCases.tla, and on every recorded input of Trace_Codec.tla):

        Decode(kind, x).ok  =>  Encode(kind, Decode(kind, x).v) = x            (RoundTrip)

   The specification is the CANONICAL codec: where the pinned implementation is laxer than its own encoder the
   specification rejects (and the conformance check reports the input):
        - txsRootFeatures in list form with features = 0                                    (finding F5)
        - the empty LIST 0xc0 for a nil optional pointer (clause.To, DependsOn); the encoder writes 0x80.        *)
EXTENDS Integers, Sequences, FiniteSets, TLC
LOCAL INSTANCE SequencesExt          \* FoldLeft (CommunityModules)

CONSTANTS MaxClauses,   \* tx.MaxClausesPerTx          (2500 in the code under test)
          MaxUnused     \* tx.MaxUnusedReservedFields  (2)

HashLen == 32
AddrLen == 20
TypeDyn == 81           \* 0x51, tx.TypeDynamicFee

Bad == [ok |-> FALSE]
Ok(v, nx) == [ok |-> TRUE, v |-> v, nx |-> nx]

(* ------------------------------------------------------------------------------------------------------------- *)
(* 1. byte level                                                                                                   *)
(* ------------------------------------------------------------------------------------------------------------- *)
\* big-endian value of the n <= 3 bytes at b[p..]
BE(b, p, n) == IF n = 1 THEN b[p] ELSE IF n = 2 THEN b[p] * 256 + b[p + 1] ELSE b[p] * 65536 + b[p + 1] * 256 + b[p + 2]

\* header record of a well-formed item: kind k ("s" string / "l" list), content window [cs, ce), one = single-byte form
Item(k, cs, n, e, one) == IF cs + n > e THEN Bad ELSE [ok |-> TRUE, k |-> k, cs |-> cs, ce |-> cs + n, one |-> one]

LongForm(b, k, p, ll, e) ==
  IF p + 1 + ll > e THEN Bad                      \* the size bytes themselves are missing
  ELSE IF ll > 3 THEN Bad                         \* leading zero => non-canonical; otherwise size >= 2^24 > any input here
  ELSE IF ll > 1 /\ b[p + 1] = 0 THEN Bad         \* leading zero byte in the size
  ELSE LET n == BE(b, p + 1, ll) IN
       IF n < 56 THEN Bad                         \* the short form was mandatory
       ELSE Item(k, p + 1 + ll, n, e, FALSE)

\* Stream.Kind: header of the item that starts at b[p] and has to end before e
Hdr(b, p, e) ==
  IF p >= e THEN Bad
  ELSE LET t == b[p] IN
       IF t < 128 THEN Item("s", p, 1, e, TRUE)
       ELSE IF t < 184 THEN Item("s", p + 1, t - 128, e, FALSE)
       ELSE IF t < 192 THEN LongForm(b, "s", p, t - 183, e)
       ELSE IF t < 248 THEN Item("l", p + 1, t - 192, e, FALSE)
       ELSE LongForm(b, "l", p, t - 247, e)

CLen(h) == h.ce - h.cs
Content(b, h) == SubSeq(b, h.cs, h.ce - 1)
\* Stream.Bytes / uint / decodeByteArray: a string, and not a wrapped single byte
IsStr(b, h) == h.k = "s" /\ (h.one \/ CLen(h) # 1 \/ b[h.cs] >= 128)
NoLeadingZero(b, h) == CLen(h) = 0 \/ b[h.cs] # 0
IsEmptyItem(h) == ~h.one /\ CLen(h) = 0          \* 0x80 or 0xc0  (isEmptyRLPRaw)
\* an integer VALUE is its minimal big-endian byte string (TLC integers are 32 bit); Num maps digits to the value
RECURSIVE Num(_)
Num(d) == IF d # <<>> /\ d[1] = 0 THEN Num(Tail(d)) ELSE d

\* canonical headers (encode side)
MinBE(n) == IF n < 256 THEN <<n>> ELSE IF n < 65536 THEN <<n \div 256, n % 256>>
            ELSE <<n \div 65536, (n \div 256) % 256, n % 256>>
EncHdr(base, n) == IF n < 56 THEN <<base + n>> ELSE <<base + 55 + Len(MinBE(n))>> \o MinBE(n)
EncStr(v) == IF Len(v) = 1 /\ v[1] < 128 THEN v ELSE EncHdr(128, Len(v)) \o v
EncList(c) == EncHdr(192, Len(c)) \o c

\* seqs[lo] \o ... \o seqs[hi]  (balanced; the caller passes the bounds so that TLC never re-enumerates seqs)
RECURSIVE Flat(_, _, _)
Flat(seqs, lo, hi) ==
  IF lo > hi THEN <<>>
  ELSE IF lo = hi THEN seqs[lo]
  ELSE LET mid == (lo + hi) \div 2 IN Flat(seqs, lo, mid) \o Flat(seqs, mid + 1, hi)

\* the items of a list window taken RAW (Stream.Raw: header rules only, contents not inspected)
RECURSIVE RawItems(_, _, _, _)
RawItems(b, p, e, acc) ==
  IF p = e THEN [ok |-> TRUE, v |-> acc]
  ELSE LET h == Hdr(b, p, e) IN
       IF ~h.ok THEN Bad ELSE RawItems(b, h.ce, e, Append(acc, [st |-> p, h |-> h]))
RawBytes(b, it) == SubSeq(b, it.st, it.h.ce - 1)

(* ------------------------------------------------------------------------------------------------------------- *)
(* 2. structure tables                                                                                             *)
(* ------------------------------------------------------------------------------------------------------------- *)
U(n)    == [t |-> "uint", n |-> n]            \* uint8/32/64: at most n bytes, no leading zero
Big     == [t |-> "big"]                      \* *big.Int
Bool    == [t |-> "bool"]
Bytes   == [t |-> "bytes"]                    \* []byte
Fix(n)  == [t |-> "fix", n |-> n]             \* [n]byte
Opt(n)  == [t |-> "opt", n |-> n]             \* *[n]byte `rlp:"nil"`
ListOf(s, max, en) == [t |-> "list", of |-> s, max |-> max, en |-> en]      \* max < 0: unbounded; en: name of an element
Struct(sn, fs) == [t |-> "struct", sn |-> sn, f |-> fs]      \* sn: name of the struct
Reserved == [t |-> "reserved"]                \* tx/reserved.go
Ext      == [t |-> "ext"]                     \* block/extension.go   (only as the LAST field of a struct; may be absent)
TRF      == [t |-> "trf"]                     \* block/txs_root_features.go
TxItem   == [t |-> "txitem"]                  \* tx.Transaction.DecodeRLP: a list (legacy) or a string 0x51 || rlp
RcItem   == [t |-> "rcitem"]                  \* tx.Receipt.DecodeRLP

\* sig: is the field covered by the signing hash?  "yes" | "no" | "fee" (only when the header carries a base fee)
F(name, s, sig) == [name |-> name, s |-> s, sig |-> sig]

Clause == Struct("clause", << F("to", Opt(AddrLen), "yes"), F("value", Big, "yes"), F("data", Bytes, "yes") >>)

LegacyTx == Struct("legacyTx", <<
  F("chainTag", U(1), "yes"), F("blockRef", U(8), "yes"), F("expiration", U(4), "yes"),
  F("clauses", ListOf(Clause, MaxClauses, "clause"), "yes"),
  F("gasPriceCoef", U(1), "yes"), F("gas", U(8), "yes"), F("dependsOn", Opt(HashLen), "yes"), F("nonce", U(8), "yes"),
  F("reserved", Reserved, "yes"), F("signature", Bytes, "no") >>)

DynTx == Struct("dynTx", <<
  F("chainTag", U(1), "yes"), F("blockRef", U(8), "yes"), F("expiration", U(4), "yes"),
  F("clauses", ListOf(Clause, MaxClauses, "clause"), "yes"),
  F("maxPriorityFeePerGas", Big, "yes"), F("maxFeePerGas", Big, "yes"), F("gas", U(8), "yes"),
  F("dependsOn", Opt(HashLen), "yes"), F("nonce", U(8), "yes"),
  F("reserved", Reserved, "yes"), F("signature", Bytes, "no") >>)

Header == Struct("header", <<
  F("parentID", Fix(HashLen), "yes"), F("timestamp", U(8), "yes"), F("gasLimit", U(8), "yes"),
  F("beneficiary", Fix(AddrLen), "yes"), F("gasUsed", U(8), "yes"), F("totalScore", U(8), "yes"),
  F("txsRootFeatures", TRF, "yes"), F("stateRoot", Fix(HashLen), "yes"), F("receiptsRoot", Fix(HashLen), "yes"),
  F("signature", Bytes, "no"), F("extension", Ext, "fee") >>)

Block == Struct("block", << F("header", Header, "-"), F("txs", ListOf(TxItem, -1, "tx"), "-") >>)

Event    == Struct("event", << F("address", Fix(AddrLen), "-"), F("topics", ListOf(Fix(HashLen), -1, "topic"), "-"), F("data", Bytes, "-") >>)
Transfer == Struct("transfer", << F("sender", Fix(AddrLen), "-"), F("recipient", Fix(AddrLen), "-"), F("amount", Big, "-") >>)
Output   == Struct("output", << F("events", ListOf(Event, -1, "event"), "-"), F("transfers", ListOf(Transfer, -1, "transfer"), "-") >>)
Receipt  == Struct("receipt", << F("gasUsed", U(8), "-"), F("gasPayer", Fix(AddrLen), "-"), F("paid", Big, "-"), F("reward", Big, "-"),
                      F("reverted", Bool, "-"), F("outputs", ListOf(Output, -1, "output"), "-") >>)

\* ---- tables of id-bound fields (exported to the conformance driver, which perturbs each on the real types) -----
FieldNames(s, sigs) == LET sel == SelectSeq(s.f, LAMBDA x : x.sig \in sigs) IN [i \in 1..Len(sel) |-> sel[i].name]
\* tx id = H(signingHash, origin): every field but the signature; tx hash = H(encoding): every field
LegacySigned == FieldNames(LegacyTx, {"yes"})
DynSigned    == FieldNames(DynTx, {"yes"})
LegacyHashed == FieldNames(LegacyTx, {"yes", "no"})
DynHashed    == FieldNames(DynTx, {"yes", "no"})
\* block id = number || H(signingHash, signer)[4:]; the extension (alpha, COM, baseFee) is in the signing hash only
\* when a base fee is present.  The signature enters through the recovered signer only.
HeaderSignedWithFee == FieldNames(Header, {"yes", "fee"})
HeaderSignedNoFee   == FieldNames(Header, {"yes"})

\* ---- receipts: no id, but the receipts root (a header field) commits to every field of every receipt ---------------
\* all field paths of a schema: a struct contributes its fields, a list its length ("name") and its elements ("name[]")
RECURSIVE FieldPaths(_, _)
FieldPaths(s, nm) ==
  CASE s.t = "struct" -> Flat([i \in 1..Len(s.f) |-> FieldPaths(s.f[i].s, nm \o "." \o s.f[i].name)], 1, Len(s.f))
    [] s.t = "list"   -> <<nm>> \o FieldPaths(s.of, nm \o "[]")
    [] OTHER          -> <<nm>>
ReceiptBound == <<"receipt.type">> \o FieldPaths(Receipt, "receipt")
ReceiptBases == [type : {"legacy", "dynfee"}, reverted : BOOLEAN, amounts : {"zero", "nonzero"}, outputs : {"empty", "two"}]

\* ---- boundary VALUES of the base objects on which every signed field is perturbed ---------------------------------
\* The fields below gate other behaviour (trimming of the extension, presence of the base fee, zero integers encode as
\* the empty string, the empty clause list), so id binding has to hold for EVERY combination of them.  A base fee of
\* zero is still a carried base fee: "absent" is the only value for which the extension is unsigned.
HeaderBases == [baseFee : {"absent", "zero", "one", "large"}, alpha : {"empty", "nonempty"}, com : BOOLEAN,
                gas : {"zero", "nonzero"}]                                   \* gas: gasLimit and gasUsed
HeaderSignedFor(base) == IF base.baseFee = "absent" THEN HeaderSignedNoFee ELSE HeaderSignedWithFee
TxBases == [type : {"legacy", "dynfee"}, fees : {"zero", "nonzero"},          \* maxFeePerGas, maxPriorityFeePerGas, gasPriceCoef
            expiration : {"zero", "nonzero"}, nonce : {"zero", "nonzero"}, clauses : {"empty", "two"},
            dependsOn : {"nil", "set"}, delegated : BOOLEAN]
TxSignedFor(base) == IF base.type = "legacy" THEN LegacySigned ELSE DynSigned
TxHashedFor(base) == IF base.type = "legacy" THEN LegacyHashed ELSE DynHashed

(* ------------------------------------------------------------------------------------------------------------- *)
(* Decode                                                                                                          *)
(* ------------------------------------------------------------------------------------------------------------- *)
ExtAbsent == [alpha |-> <<>>, com |-> FALSE, hasfee |-> FALSE, fee |-> <<>>]

\* tx/reserved.go DecodeRLP on the list window [cs, ce)
DecReserved(b, h) ==
  IF h.k # "l" THEN Bad
  ELSE LET r == RawItems(b, h.cs, h.ce, <<>>) IN
    IF ~r.ok THEN Bad
    ELSE LET n == Len(r.v) IN
      IF n > MaxUnused + 1 THEN Bad
      ELSE IF n = 0 THEN Ok([f |-> <<>>, u |-> <<>>], h.ce)
      ELSE IF IsEmptyItem(r.v[n].h) THEN Bad                                  \* "not trimmed"
      ELSE LET fh == r.v[1].h IN
        IF IsStr(b, fh) /\ CLen(fh) <= 4 /\ NoLeadingZero(b, fh)               \* Features is a uint32
        THEN Ok([f |-> Num(Content(b, fh)), u |-> [i \in 1..(n - 1) |-> RawBytes(b, r.v[i + 1])]], h.ce)
        ELSE Bad

\* block/extension.go DecodeRLP on a present item
DecExt(b, h) ==
  IF h.k # "l" THEN Bad
  ELSE LET r == RawItems(b, h.cs, h.ce, <<>>) IN
    IF ~r.ok THEN Bad
    ELSE LET n == Len(r.v) IN
      IF n = 0 \/ n > 3 THEN Bad
      ELSE LET ah == r.v[1].h
               alpha == Content(b, ah)
           IN
        IF ~IsStr(b, ah) THEN Bad
        ELSE IF n = 1 THEN (IF alpha = <<>> THEN Bad ELSE Ok([ExtAbsent EXCEPT !.alpha = alpha], h.ce))
        ELSE LET ch == r.v[2].h
                 comOK == IsStr(b, ch) /\ (CLen(ch) = 0 \/ (CLen(ch) = 1 /\ b[ch.cs] = 1))
                 com == CLen(ch) = 1
             IN
          IF ~comOK THEN Bad
          ELSE IF n = 2 THEN (IF ~com THEN Bad ELSE Ok([ExtAbsent EXCEPT !.alpha = alpha, !.com = TRUE], h.ce))
          ELSE LET fh == r.v[3].h IN
            IF IsStr(b, fh) /\ NoLeadingZero(b, fh)
            THEN Ok([alpha |-> alpha, com |-> com, hasfee |-> TRUE, fee |-> Num(Content(b, fh))], h.ce)
            ELSE Bad

\* block/txs_root_features.go DecodeRLP, canonical: the pair form is for features # 0 only
DecTRF(b, h) ==
  IF h.k = "l"
  THEN LET r == RawItems(b, h.cs, h.ce, <<>>) IN
       IF ~r.ok \/ Len(r.v) # 2 THEN Bad
       ELSE LET rh == r.v[1].h
                fh == r.v[2].h IN
         IF /\ IsStr(b, rh) /\ CLen(rh) = HashLen
            /\ IsStr(b, fh) /\ CLen(fh) <= 4 /\ NoLeadingZero(b, fh)
            /\ CLen(fh) > 0                                                   \* canonical rule (implementation: F5)
         THEN Ok([root |-> Content(b, rh), features |-> Num(Content(b, fh))], h.ce)
         ELSE Bad
  ELSE IF IsStr(b, h) /\ CLen(h) = HashLen THEN Ok([root |-> Content(b, h), features |-> <<>>], h.ce)
  ELSE Bad

RECURSIVE Dec(_, _, _, _), DecFields(_, _, _, _, _, _), DecElems(_, _, _, _)

\* typed envelope: a string  ty || rlp(body)  (Transaction.DecodeRLP / Receipt.DecodeRLP: default branch)
DecEnvelope(body, b, h) ==
  IF ~IsStr(b, h) \/ CLen(h) <= 1 THEN Bad                  \* Byte kind / empty / type byte only: "typed ... too short"
  ELSE IF b[h.cs] # TypeDyn THEN Bad                        \* ErrTxTypeNotSupported
  ELSE LET r == Dec(body, b, h.cs + 1, h.ce) IN
       IF r.ok /\ r.nx = h.ce THEN Ok([ty |-> TypeDyn, body |-> r.v], h.ce) ELSE Bad     \* rlp.DecodeBytes: exactly one value

\* one item of schema s starting at b[p], inside the window that ends before e
Dec(s, b, p, e) ==
  LET h == Hdr(b, p, e) IN
  IF ~h.ok THEN Bad
  ELSE CASE s.t = "uint"  -> IF IsStr(b, h) /\ CLen(h) <= s.n /\ NoLeadingZero(b, h) THEN Ok(Num(Content(b, h)), h.ce) ELSE Bad
         [] s.t = "big"   -> IF IsStr(b, h) /\ NoLeadingZero(b, h) THEN Ok(Num(Content(b, h)), h.ce) ELSE Bad
         [] s.t = "bool"  -> IF IsStr(b, h) /\ (CLen(h) = 0 \/ (CLen(h) = 1 /\ b[h.cs] = 1)) THEN Ok(CLen(h) = 1, h.ce) ELSE Bad
         [] s.t = "bytes" -> IF IsStr(b, h) THEN Ok(Content(b, h), h.ce) ELSE Bad
         [] s.t = "fix"   -> IF IsStr(b, h) /\ CLen(h) = s.n THEN Ok(Content(b, h), h.ce) ELSE Bad
         [] s.t = "opt"   -> IF h.k = "s" /\ IsEmptyItem(h) THEN Ok(<<>>, h.ce)           \* canonical nil = empty STRING
                             ELSE IF IsStr(b, h) /\ CLen(h) = s.n THEN Ok(<<Content(b, h)>>, h.ce) ELSE Bad
         [] s.t = "list"  -> IF h.k # "l" THEN Bad ELSE DecElems(s, b, h.cs, h.ce)
         [] s.t = "struct" -> IF h.k # "l" THEN Bad ELSE DecFields(s.f, 1, b, h.cs, h.ce, <<>>)
         [] s.t = "reserved" -> DecReserved(b, h)
         [] s.t = "ext"   -> DecExt(b, h)
         [] s.t = "trf"   -> DecTRF(b, h)
         [] s.t = "txitem" -> IF h.k = "l"
                              THEN LET r == DecFields(LegacyTx.f, 1, b, h.cs, h.ce, <<>>) IN
                                   IF r.ok THEN Ok([ty |-> 0, body |-> r.v], h.ce) ELSE Bad
                              ELSE DecEnvelope(DynTx, b, h)
         [] s.t = "rcitem" -> IF h.k = "l"
                              THEN LET r == DecFields(Receipt.f, 1, b, h.cs, h.ce, <<>>) IN
                                   IF r.ok THEN Ok([ty |-> 0, body |-> r.v], h.ce) ELSE Bad
                              ELSE DecEnvelope(Receipt, b, h)

\* elements of a list window; the bound is the DoS limit of Clauses.DecodeRLP.
\* (An eager left fold over at most e - p steps - every element takes at least one byte - instead of a recursion:
\*  TLC re-evaluates the lazy argument chain of a deep recursion, which is quadratic for 2500 clauses.)
DecElems(s, b, p, e) ==
  LET step(st, i) ==
        IF ~st.ok \/ st.p = e THEN st
        ELSE IF s.max >= 0 /\ Len(st.acc) >= s.max THEN [st EXCEPT !.ok = FALSE]          \* one element too many
        ELSE LET r == Dec(s.of, b, st.p, e) IN
             IF ~r.ok THEN [st EXCEPT !.ok = FALSE] ELSE [p |-> r.nx, acc |-> Append(st.acc, r.v), ok |-> TRUE]
      fin == FoldLeft(step, [p |-> p, acc |-> <<>>, ok |-> TRUE], [i \in 1..(e - p) |-> i])
  IN IF fin.ok /\ fin.p = e THEN Ok(fin.acc, e) ELSE Bad

\* fields of a struct window: every field present (the trailing extension may be absent), nothing left over
DecFields(fs, i, b, p, e, acc) ==
  IF i > Len(fs) THEN (IF p = e THEN Ok(acc, e) ELSE Bad)                    \* "input list has too many elements"
  ELSE IF p = e THEN (IF fs[i].s.t = "ext" /\ i = Len(fs) THEN Ok(Append(acc, ExtAbsent), e) ELSE Bad)   \* "too few elements"
  ELSE LET r == Dec(fs[i].s, b, p, e) IN
       IF ~r.ok THEN Bad ELSE DecFields(fs, i + 1, b, r.nx, e, Append(acc, r.v))

\* exactly one item that is the whole of b[p..]
Whole(s, b, p) == LET r == Dec(s, b, p, Len(b) + 1) IN IF r.ok /\ r.nx = Len(b) + 1 THEN r ELSE Bad

Kinds == {"txbin", "txrlp", "txlist", "header", "block", "rcbin", "rcrlp"}

\* UnmarshalBinary of tx / receipt: first byte > 0x7f => legacy RLP list, else typed envelope ty || rlp
DecBinary(legacy, typed, b) ==
  IF Len(b) > 0 /\ b[1] > 127
  THEN LET r == Whole(legacy, b, 1) IN IF r.ok THEN [ok |-> TRUE, v |-> [ty |-> 0, body |-> r.v]] ELSE Bad
  ELSE IF Len(b) <= 1 THEN Bad
  ELSE IF b[1] # TypeDyn THEN Bad
  ELSE LET r == Whole(typed, b, 2) IN IF r.ok THEN [ok |-> TRUE, v |-> [ty |-> TypeDyn, body |-> r.v]] ELSE Bad

\* ---- the two ways thor hands bytes to the rlp decoder -------------------------------------------------------------
\* STREAM:  rlp.NewStream(reader, limit).Decode(val)  - p2p msg.Decode (limit = msg.Size), rlp.Decode(reader) (limit 0:
\*          for a bytes.Reader the limit is then its length).  One value is read from the front of the input; it has to
\*          fit into the first `limit` bytes; WHATEVER FOLLOWS IT IS NOT LOOKED AT.
\* BYTES:   rlp.DecodeBytes(b, val) = the stream decode with limit Len(b), PLUS "no trailing data" (ErrMoreThanOneValue).
\* That is the whole (documented) difference between the two; the field-level rules are the same.
TxList == ListOf(TxItem, -1, "tx")                                  \* tx.Transactions
StreamKinds == {"txrlp", "txlist", "header", "block"}
TopSchema(kind) == CASE kind = "txrlp" -> TxItem [] kind = "txlist" -> TxList [] kind = "header" -> Header
                     [] kind = "block" -> Block [] kind = "rcrlp" -> RcItem
\* result: [ok, v, n] with n = number of bytes consumed
StreamDecode(kind, b, limit) ==
  LET lim == IF limit = 0 \/ limit > Len(b) THEN Len(b) ELSE limit
      r == Dec(TopSchema(kind), b, 1, lim + 1)
  IN IF r.ok THEN [ok |-> TRUE, v |-> r.v, n |-> r.nx - 1] ELSE Bad
BytesDecode(kind, b) == LET r == StreamDecode(kind, b, 0) IN IF r.ok /\ r.n = Len(b) THEN [ok |-> TRUE, v |-> r.v] ELSE Bad

Decode(kind, b) ==
  CASE kind = "txbin"  -> DecBinary(LegacyTx, DynTx, b)            \* tx.Transaction.UnmarshalBinary
    [] kind = "rcbin"  -> DecBinary(Receipt, Receipt, b)           \* tx.Receipt.UnmarshalBinary
    [] OTHER           -> BytesDecode(kind, b)                     \* rlp.DecodeBytes into *tx.Transaction, tx.Transactions,
                                                                   \* *block.Header, *block.Block (+ DecodeRawBlock), *tx.Receipt

(* ------------------------------------------------------------------------------------------------------------- *)
(* Item trees and Encode                                                                                           *)
(* ------------------------------------------------------------------------------------------------------------- *)
\* An item tree node:  [k |-> "s", v, f]  string with payload v   |  [k |-> "l", items, f]  list
\*                     [k |-> "env", ty, inner, f]  string whose payload is  ty || Ser(inner)
\*                     [k |-> "raw", v]  literal bytes
\* f is the FORM of the length prefix: "c" canonical, "long" 1 size byte although the payload is short,
\* "longlz" 2 size bytes the first of which is zero, "wrap" 0x81 in front of a single byte.
S(v)  == [k |-> "s", v |-> v, f |-> "c"]
L(xs) == [k |-> "l", items |-> xs, f |-> "c"]
Raw(v) == [k |-> "raw", v |-> v]
Env(ty, inner) == [k |-> "env", ty |-> ty, inner |-> inner, f |-> "c"]

SerHdr(base, n, f) ==
  CASE f = "long"   -> <<base + 56, n>>
    [] f = "longlz" -> <<base + 57, 0, n>>
    [] OTHER        -> EncHdr(base, n)
SerStr(v, f) ==
  IF f = "c" THEN EncStr(v)
  ELSE IF f = "wrap" THEN <<129>> \o v
  ELSE SerHdr(128, Len(v), f) \o v

RECURSIVE Ser(_), SerRange(_, _, _)
Ser(t) ==
  CASE t.k = "raw" -> t.v
    [] t.k = "s"   -> SerStr(t.v, t.f)
    [] t.k = "l"   -> LET c == SerRange(t.items, 1, Len(t.items)) IN SerHdr(192, Len(c), t.f) \o c
    [] t.k = "env" -> SerStr(<<t.ty>> \o Ser(t.inner), t.f)
\* concatenation of Ser(ts[lo..hi]), balanced so that long lists (MaxClauses) stay cheap for TLC
SerRange(ts, lo, hi) ==
  IF lo > hi THEN <<>>
  ELSE IF lo = hi THEN Ser(ts[lo])
  ELSE LET mid == (lo + hi) \div 2 IN SerRange(ts, lo, mid) \o SerRange(ts, mid + 1, hi)
SerAll(ts, i) == SerRange(ts, i, Len(ts))

\* reserved.EncodeRLP: features followed by the unused raw items, trailing empty items popped
IsEmptyRaw(r) == r = <<>> \/ r = <<128>> \/ r = <<192>>
RECURSIVE TrimTail(_)
TrimTail(rs) == IF rs # <<>> /\ IsEmptyRaw(rs[Len(rs)]) THEN TrimTail(SubSeq(rs, 1, Len(rs) - 1)) ELSE rs

\* extension.EncodeRLP: number of fields written
ExtN(v) == IF v.hasfee THEN 3 ELSE IF v.com THEN 2 ELSE IF v.alpha # <<>> THEN 1 ELSE 0

\* canonical tree of a value: a sequence of 0 (absent extension) or 1 nodes
RECURSIVE Node(_, _)
Node(s, v) ==
  CASE s.t \in {"uint", "big", "bytes", "fix"} -> <<S(v)>>
    [] s.t = "bool"   -> <<S(IF v THEN <<1>> ELSE <<>>)>>
    [] s.t = "opt"    -> <<S(IF v = <<>> THEN <<>> ELSE v[1])>>
    [] s.t = "list"   -> <<L(Flat([i \in 1..Len(v) |-> Node(s.of, v[i])], 1, Len(v)))>>
    [] s.t = "struct" -> <<L(Flat([i \in 1..Len(v) |-> Node(s.f[i].s, v[i])], 1, Len(v)))>>
    [] s.t = "reserved" -> LET rs == TrimTail(<<EncStr(v.f)>> \o v.u) IN <<L([i \in 1..Len(rs) |-> Raw(rs[i])])>>
    [] s.t = "ext"    -> IF ExtN(v) = 0 THEN <<>>
                         ELSE <<L(SubSeq(<<S(v.alpha), S(IF v.com THEN <<1>> ELSE <<>>), S(v.fee)>>, 1, ExtN(v)))>>
    [] s.t = "trf"    -> IF v.features = <<>> THEN <<S(v.root)>> ELSE <<L(<<S(v.root), S(v.features)>>)>>
    [] s.t = "txitem" -> IF v.ty = 0 THEN Node(LegacyTx, v.body) ELSE <<Env(v.ty, Node(DynTx, v.body)[1])>>
    [] s.t = "rcitem" -> IF v.ty = 0 THEN Node(Receipt, v.body) ELSE <<Env(v.ty, Node(Receipt, v.body)[1])>>

Enc(s, v) == SerAll(Node(s, v), 1)

EncBinary(legacy, typed, v) == IF v.ty = 0 THEN Enc(legacy, v.body) ELSE <<v.ty>> \o Enc(typed, v.body)

Encode(kind, v) ==
  CASE kind = "txbin"  -> EncBinary(LegacyTx, DynTx, v)            \* MarshalBinary
    [] kind = "txrlp"  -> Enc(TxItem, v)                           \* EncodeRLP
    [] kind = "txlist" -> Enc(TxList, v)
    [] kind = "header" -> Enc(Header, v)
    [] kind = "block"  -> Enc(Block, v)
    [] kind = "rcbin"  -> EncBinary(Receipt, Receipt, v)
    [] kind = "rcrlp"  -> Enc(RcItem, v)

\* preimage of a header's signing hash: the encodings of the signed fields in order (header.go signingFields); the
\* extension belongs to it exactly when the header carries a base fee - whatever its value
HeaderPreimage(v) ==
  Flat([i \in 1..Len(Header.f) |->
          IF Header.f[i].sig = "yes" \/ (Header.f[i].sig = "fee" /\ v[i].hasfee) THEN Enc(Header.f[i].s, v[i]) ELSE <<>>],
       1, Len(Header.f))

\* the property
RoundTrips(kind, x) == LET d == Decode(kind, x) IN d.ok => Encode(kind, d.v) = x
\* ... and for a stream: what was consumed is the canonical encoding of what was decoded
StreamRoundTrips(kind, x, limit) == LET d == StreamDecode(kind, x, limit) IN d.ok => Encode(kind, d.v) = SubSeq(x, 1, d.n)
\* Size() of a decoded object = length of its canonical encoding: Transaction.Size() counts MarshalBinary (whatever
\* the entry point), Block.Size() the RLP of the block; -1: the type has no Size().
SizeOf(kind, v) ==
  CASE kind \in {"txbin", "txrlp"} -> Len(EncBinary(LegacyTx, DynTx, v))
    [] kind = "block" -> Len(Enc(Block, v))
    [] OTHER -> -1
=============================================================================
