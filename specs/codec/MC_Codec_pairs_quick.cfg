CONSTANTS
  MaxClauses = 2500
  MaxUnused = 2
INIT InitPairsSome
NEXT Next
INVARIANT RoundTrip
INVARIANT SizeIsLength
INVARIANT StreamRoundTrip
INVARIANT BytesIsStreamPlusNoTrailing
INVARIANT ExtensionSignedIffFee
POSTCONDITION ExportPairsSome
CHECK_DEADLOCK FALSE
