CONSTANTS
  MaxClauses = 2500
  MaxUnused = 2
INIT InitPairsSome
NEXT Next
INVARIANT RoundTrip
INVARIANT SizeIsLength
POSTCONDITION ExportPairsSome
CHECK_DEADLOCK FALSE
