CONSTANTS
  MaxClauses = 2500
  MaxUnused = 2
INIT InitPairsSome
NEXT Next
INVARIANT RoundTrip
INVARIANT SizeIsLength
INVARIANT ExtensionSignedIffFee
POSTCONDITION ExportPairsSome
CHECK_DEADLOCK FALSE
