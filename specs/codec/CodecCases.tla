----------------------------- MODULE CodecCases -----------------------------
(* The bounded family of ABSTRACT ENCODINGS over which TLC checks Codec!RoundTrips and whose verdicts are replayed on
   the real decoders (model -> implementation binding of C11).

   A case = one valid base object (legacy tx, dynamic-fee tx, header with / without base fee, block, legacy / typed
   receipt), written as its canonical item tree, with ONE node (Single) or TWO independent nodes (Pair) replaced by an
   alternative from the MENU of that node's schema: other canonical values, and every non-canonical form the decoder
   has a rule against (leading-zero integer, long-form length for a short payload, leading zero in the length, single
   byte wrapped as a string, over-long integer for the Go type, wrong fixed length, empty list vs empty string, list vs
   string, dropped / duplicated / truncated item, length prefix off by one), the shapes of reserved / extension /
   txsRootFeatures (absent, trimmed, untrimmed trailing zero or empty, too many), clause-count and reserved-count
   limits +-1, typed-envelope variants; plus whole-input cases (truncated, trailing bytes, type byte variants).
   The bytes are Ser(tree); the verdict is Codec!Decode on those bytes - nothing about the verdict is attached to the
   menu entries themselves.                                                                                         *)
EXTENDS Codec

Rep(n, x) == [i \in 1..n |-> x]
Alt(form, node) == [form |-> form, node |-> node]

\* ==== base objects ====
AddrA == Rep(AddrLen, 170)
AddrB == [i \in 1..AddrLen |-> 16 + i]
H32(x) == Rep(HashLen, x)
SigBytes(n) == [i \in 1..n |-> IF i % 65 = 0 THEN 1 ELSE ((i * 7) % 250) + 1]

ClauseCreate == << <<>>, <<>>, <<96, 0, 128>> >>                 \* To = nil, value 0, 3 bytes of data
ClauseCall   == << <<AddrA>>, <<13, 224>>, <<>> >>               \* To set, value 0x0de0, no data
NoReserved   == [f |-> <<>>, u |-> <<>>]

L1 == << <<74>>, <<1, 2, 3, 4, 5, 6, 7, 8>>, <<32>>, <<ClauseCreate, ClauseCall>>, <<>>, <<82, 8>>, <<>>, <<1, 0>>,
         NoReserved, SigBytes(65) >>
D1 == << <<74>>, <<255, 0, 0, 0, 0, 0, 0, 1>>, <<>>, <<ClauseCall>>, <<1>>, <<1, 0, 0>>, <<82, 8>>, <<H32(187)>>, <<>>,
         [f |-> <<1>>, u |-> <<>>], SigBytes(130) >>

ParentID == <<0, 0, 0, 5>> \o Rep(HashLen - 4, 204)
ExtFee == [alpha |-> H32(7), com |-> TRUE, hasfee |-> TRUE, fee |-> <<9, 24, 78, 114, 160, 0>>]
H1 == << ParentID, <<101, 0, 0, 0>>, <<152, 150, 128>>, AddrB, <<>>, <<9>>, [root |-> H32(1), features |-> <<1>>],
         H32(2), H32(3), SigBytes(146), ExtFee >>
H0 == << ParentID, <<101, 0, 0, 0>>, <<152, 150, 128>>, AddrB, <<82, 8>>, <<9>>, [root |-> H32(1), features |-> <<>>],
         H32(2), H32(3), SigBytes(65), ExtAbsent >>
B1 == << H1, << [ty |-> 0, body |-> L1], [ty |-> TypeDyn, body |-> D1] >> >>

Ev1  == << AddrA, <<H32(4), H32(5)>>, <<1, 2, 3>> >>
Tr1  == << AddrA, AddrB, <<100>> >>
R0 == << <<82, 8>>, AddrB, <<1, 0>>, <<3>>, FALSE, << << <<Ev1>>, <<Tr1>> >> >> >>
R1 == << <<>>, AddrA, <<>>, <<>>, TRUE, <<>> >>

\* a target = a base object offered to one decoding entry point.  pre: bytes in front of the tree (the type byte).
T(obj, kind, pre, s, v, nm) == [obj |-> obj, kind |-> kind, pre |-> pre, s |-> s, v |-> v, nm |-> nm]
Targets == {
  T("L1", "txbin", <<>>, LegacyTx, L1, "tx"),
  T("D1", "txbin", <<TypeDyn>>, DynTx, D1, "tx"),
  T("L1", "txrlp", <<>>, TxItem, [ty |-> 0, body |-> L1], "tx"),
  T("D1", "txrlp", <<>>, TxItem, [ty |-> TypeDyn, body |-> D1], "tx"),
  T("TL", "txlist", <<>>, TxList, << [ty |-> 0, body |-> L1], [ty |-> TypeDyn, body |-> D1] >>, "txs"),
  T("H1", "header", <<>>, Header, H1, "header"),
  T("H0", "header", <<>>, Header, H0, "header"),
  T("B1", "block", <<>>, Block, B1, "block"),
  T("R0", "rcbin", <<>>, Receipt, R0, "receipt"),
  T("R1", "rcbin", <<TypeDyn>>, Receipt, R1, "receipt"),
  T("R0", "rcrlp", <<>>, RcItem, [ty |-> 0, body |-> R0], "receipt"),
  T("R1", "rcrlp", <<>>, RcItem, [ty |-> TypeDyn, body |-> R1], "receipt") }

\* ==== sites ====
\* every node of the canonical tree of (s, v), with the path of child indexes leading to it and a stable name
Full(pre, nm) == IF pre = "" THEN nm ELSE pre \o "." \o nm
RECURSIVE Sites(_, _, _, _, _)
\* (a SEQUENCE: site records hold values of different shapes, which TLC cannot order in a set)
Sites(s, v, path, pre, nm) ==
  LET me == <<[path |-> path, s |-> s, v |-> v, name |-> Full(pre, nm)]>>
      kid(cs, cv, cpath, cpre, cnm) ==
        IF cs.t = "struct" /\ cs.sn = "header" THEN Sites(cs, cv, cpath, "", "header")
        ELSE IF cs.t = "txitem" THEN Sites(cs, cv, cpath, "", "tx")
        ELSE IF cs.t = "rcitem" THEN Sites(cs, cv, cpath, "", "receipt")
        ELSE Sites(cs, cv, cpath, cpre, cnm)
  IN
  IF Node(s, v) = <<>> THEN <<>>                                      \* absent extension: no node
  ELSE me \o
    CASE s.t = "list"   -> Flat([i \in 1..Len(v) |-> kid(s.of, v[i], Append(path, i), pre, s.en)], 1, Len(v))
      [] s.t = "struct" -> Flat([i \in 1..Len(v) |-> kid(s.f[i].s, v[i], Append(path, i), Full(pre, nm), s.f[i].name)], 1, Len(v))
      [] s.t = "txitem" -> IF v.ty = 0 THEN Sites(LegacyTx, v.body, path, pre, nm) ELSE Sites(DynTx, v.body, Append(path, 1), pre, nm)
      [] s.t = "rcitem" -> IF v.ty = 0 THEN Sites(Receipt, v.body, path, pre, nm) ELSE Sites(Receipt, v.body, Append(path, 1), pre, nm)
      [] OTHER -> <<>>

RECURSIVE Subst(_, _, _)
Subst(t, path, new) ==
  IF path = <<>> THEN new
  ELSE IF t.k = "env" THEN [t EXCEPT !.inner = Subst(t.inner, Tail(path), new)]
  ELSE LET i == Head(path) IN [t EXCEPT !.items = [t.items EXCEPT ![i] = Subst(t.items[i], Tail(path), new)]]

\* ==== menus ====
PayloadLen(o) == CASE o.k = "s" -> Len(o.v) [] o.k = "l" -> Len(SerAll(o.items, 1)) [] o.k = "env" -> 1 + Len(Ser(o.inner))

\* alternatives that make sense for any node
Common(o) ==
  LET so == Ser(o)
      n == PayloadLen(o)
  IN { Alt("dropped", Raw(<<>>)), Alt("dup", Raw(so \o so)), Alt("emptystr", S(<<>>)), Alt("emptylist", L(<<>>)),
       Alt("cut-last-byte", Raw(SubSeq(so, 1, Len(so) - 1))), Alt("then-0x00", Raw(so \o <<0>>)),
       \* adversarial length prefixes: declared sizes far beyond the input (must be refused before anything is allocated)
       Alt("str-claims-4GB", Raw(<<187, 255, 255, 255, 255>> \o so)), Alt("list-claims-4GB", Raw(<<251, 255, 255, 255, 255>> \o so)),
       Alt("str-claims-2^64", Raw(<<191, 255, 255, 255, 255, 255, 255, 255, 255>> \o so)),
       Alt("list-claims-2^64", Raw(<<255, 255, 255, 255, 255, 255, 255, 255, 255>> \o so)),
       Alt("list-claims-16MB", Raw(<<250, 255, 255, 255>> \o so)), Alt("str-claims-64KB", Raw(<<185, 255, 255>> \o so)) }
     \cup (IF n < 56 THEN {Alt("hdr-long", [o EXCEPT !.f = "long"])} ELSE {})
     \cup (IF n < 256 THEN {Alt("hdr-longlz", [o EXCEPT !.f = "longlz"])} ELSE {})
     \cup (IF so[1] \in (129..182) \cup (193..246)
           THEN {Alt("hdr-len+1", Raw(<<so[1] + 1>> \o Tail(so))), Alt("hdr-len-1", Raw(<<so[1] - 1>> \o Tail(so)))}
           ELSE IF so[1] \in {184, 248} /\ so[2] \in 57..254
           THEN {Alt("hdr-len+1", Raw(<<so[1], so[2] + 1>> \o SubSeq(so, 3, Len(so)))),
                 Alt("hdr-len-1", Raw(<<so[1], so[2] - 1>> \o SubSeq(so, 3, Len(so))))}
           ELSE {})

Wrapped(x) == [k |-> "s", v |-> <<x>>, f |-> "wrap"]
MinClause == L(<<S(<<>>), S(<<>>), S(<<>>)>>)

ReservedShapes ==
  { Alt("[]", L(<<>>)), Alt("[1]", L(<<S(<<1>>)>>)), Alt("[0]", L(<<S(<<>>)>>)), Alt("[0x00]", L(<<S(<<0>>)>>)),
    Alt("[1,0]", L(<<S(<<1>>), S(<<>>)>>)), Alt("[0,1]", L(<<S(<<>>), S(<<1>>)>>)),
    Alt("[1,0,5]", L(<<S(<<1>>), S(<<>>), S(<<5>>)>>)),
    Alt("[1,[]]", L(<<S(<<1>>), L(<<>>)>>)), Alt("[1,[],1]", L(<<S(<<1>>), L(<<>>), S(<<1>>)>>)),
    Alt("[1,wrapped]", L(<<S(<<1>>), Wrapped(5)>>)), Alt("[[],1]", L(<<L(<<>>), S(<<1>>)>>)),
    Alt("[wrapped,1]", L(<<Wrapped(1), S(<<1>>)>>)),
    Alt("[5bytes,1]", L(<<S(<<1, 0, 0, 0, 0>>), S(<<1>>)>>)), Alt("[max32]", L(<<S(Rep(4, 255))>>)),
    Alt("[1,[junk]]", L(<<S(<<1>>), Raw(<<193, 129>>)>>)),
    Alt("[1,longform]", L(<<S(<<1>>), [k |-> "s", v |-> <<5, 5>>, f |-> "long"]>>)),
    Alt("[f,max-unused]", L(<<S(<<1>>)>> \o Rep(MaxUnused, S(<<2>>)))),
    Alt("[f,max-unused+1]", L(<<S(<<1>>)>> \o Rep(MaxUnused + 1, S(<<2>>)))),
    Alt("[f,max-unused,0]", L(<<S(<<1>>)>> \o Rep(MaxUnused, S(<<2>>)) \o <<S(<<>>)>>)),
    Alt("[0,max-unused]", L(<<S(<<>>)>> \o Rep(MaxUnused, S(<<2>>)))),
    Alt("as-string", S(<<1>>)) }

ExtShapes(a, fee) ==
  { Alt("absent", Raw(<<>>)), Alt("[a]", L(<<S(a)>>)), Alt("[empty]", L(<<S(<<>>)>>)), Alt("[a,1]", L(<<S(a), S(<<1>>)>>)),
    Alt("[a,0]", L(<<S(a), S(<<>>)>>)), Alt("[empty,1]", L(<<S(<<>>), S(<<1>>)>>)),
    Alt("[empty,0]", L(<<S(<<>>), S(<<>>)>>)),
    Alt("[a,0,fee]", L(<<S(a), S(<<>>), S(fee)>>)), Alt("[a,1,0]", L(<<S(a), S(<<1>>), S(<<>>)>>)),
    Alt("[empty,0,0]", L(<<S(<<>>), S(<<>>), S(<<>>)>>)),
    Alt("[a,1,fee,0]", L(<<S(a), S(<<1>>), S(fee), S(<<>>)>>)), Alt("[a,1,fee,1]", L(<<S(a), S(<<1>>), S(fee), S(<<1>>)>>)),
    Alt("[a,2]", L(<<S(a), S(<<2>>)>>)), Alt("[a,0x00]", L(<<S(a), S(<<0>>)>>)), Alt("[a,wrapped1]", L(<<S(a), Wrapped(1)>>)),
    Alt("[a,1,0x00]", L(<<S(a), S(<<1>>), S(<<0>>)>>)), Alt("[a,1,leadzero]", L(<<S(a), S(<<1>>), S(<<0, 9>>)>>)),
    Alt("[a,1,wrapped]", L(<<S(a), S(<<1>>), Wrapped(9)>>)),
    Alt("[0x05]", L(<<S(<<5>>)>>)), Alt("[wrapped]", L(<<Wrapped(5)>>)), Alt("[[a]]", L(<<L(<<S(a)>>)>>)),
    Alt("[a,[]]", L(<<S(a), L(<<>>)>>)), Alt("[a,1,[]]", L(<<S(a), S(<<1>>), L(<<>>)>>)),
    Alt("[a,1,fee]+junk-elem", Raw(<<195, 5, 1, 185>>)),             \* 3rd element's header is cut short by the list end
    Alt("as-string", S(a)) }

TRFShapes(root) ==
  { Alt("hash", S(root)), Alt("[root,1]", L(<<S(root), S(<<1>>)>>)), Alt("[root,0]", L(<<S(root), S(<<>>)>>)),
    Alt("[root]", L(<<S(root)>>)), Alt("[root,1,1]", L(<<S(root), S(<<1>>), S(<<1>>)>>)),
    Alt("[root,0x00]", L(<<S(root), S(<<0>>)>>)), Alt("[root,5bytes]", L(<<S(root), S(<<1, 0, 0, 0, 0>>)>>)),
    Alt("[root,max32]", L(<<S(root), S(Rep(4, 255))>>)), Alt("[root,leadzero]", L(<<S(root), S(<<0, 1>>)>>)),
    Alt("[root,wrapped1]", L(<<S(root), Wrapped(1)>>)), Alt("[root,[]]", L(<<S(root), L(<<>>)>>)),
    Alt("[hash31,1]", L(<<S(Rep(HashLen - 1, 1)), S(<<1>>)>>)), Alt("hash31", S(Rep(HashLen - 1, 1))),
    Alt("hash33", S(Rep(HashLen + 1, 1))), Alt("[1,root]", L(<<S(<<1>>), S(root)>>)) }

EnvelopeAlts(o) ==
  IF o.k = "env"
  THEN {Alt("type=" \o ToString(t), [o EXCEPT !.ty = t]) : t \in {0, 1, 2, 80, 82, 127, 128, 192, 248}}
       \cup { Alt("env-in-env", Env(TypeDyn, o)), Alt("no-envelope", o.inner), Alt("type-only", S(<<TypeDyn>>)),
              Alt("type-only-wrapped", Wrapped(TypeDyn)), Alt("env-wrapped-single", Wrapped(5)),
              Alt("env-trailing-byte", S(<<TypeDyn>> \o Ser(o.inner) \o <<0>>)),
              Alt("env-cut", S(<<TypeDyn>> \o SubSeq(Ser(o.inner), 1, Len(Ser(o.inner)) - 1))),
              Alt("env-of-string", S(<<TypeDyn>> \o EncStr(Ser(o.inner)))) }
  ELSE { Alt("list-in-string", S(Ser(o))), Alt("enveloped-0x51", Env(TypeDyn, o)) }

\* the menu of a site; o is the canonical node there
Menu(site, o) ==
  LET s == site.s
      specific ==
        CASE s.t = "uint" ->
               { Alt("u=0", S(<<>>)), Alt("u=0x00", S(<<0>>)), Alt("u=1", S(<<1>>)), Alt("u=0x7f", S(<<127>>)),
                 Alt("u=0x80", S(<<128>>)), Alt("u=max", S(Rep(s.n, 255))), Alt("u=overlong", S(<<1>> \o Rep(s.n, 0))),
                 Alt("u=leadzero", S(<<0, 200>>)), Alt("u=wrapped", Wrapped(5)), Alt("u=aslist", L(<<S(<<5>>)>>)) }
          [] s.t = "big" ->
               { Alt("i=0", S(<<>>)), Alt("i=0x00", S(<<0>>)), Alt("i=1", S(<<1>>)), Alt("i=0x80", S(<<128>>)),
                 Alt("i=leadzero", S(<<0, 200>>)), Alt("i=wrapped", Wrapped(5)), Alt("i=2^256", S(<<1>> \o Rep(32, 0))),
                 Alt("i=aslist", L(<<S(<<5>>)>>)) }
          [] s.t = "bool" ->
               { Alt("false", S(<<>>)), Alt("true", S(<<1>>)), Alt("b=0x00", S(<<0>>)), Alt("b=2", S(<<2>>)),
                 Alt("b=wrapped-true", Wrapped(1)), Alt("b=2bytes", S(<<1, 1>>)), Alt("b=0x80", S(<<128>>)) }
          [] s.t = "bytes" ->
               { Alt("len0", S(<<>>)), Alt("b=0x00", S(<<0>>)), Alt("b=0x7f", S(<<127>>)), Alt("b=0x80", S(<<128>>)),
                 Alt("b=wrapped", Wrapped(5)), Alt("len55", S(Rep(55, 9))), Alt("len56", S(Rep(56, 9))),
                 Alt("len65", S(SigBytes(65))), Alt("len130", S(SigBytes(130))), Alt("b=aslist", L(<<S(<<5>>)>>)) }
          [] s.t = "fix" ->
               { Alt("short", S(Rep(s.n - 1, 9))), Alt("long", S(Rep(s.n + 1, 9))), Alt("one-byte", S(<<9>>)),
                 Alt("zeros", S(Rep(s.n, 0))), Alt("f=aslist", L(<<S(Rep(s.n, 9))>>)) }
          [] s.t = "opt" ->
               { Alt("nil", S(<<>>)), Alt("some", S(Rep(s.n, 9))), Alt("short", S(Rep(s.n - 1, 9))),
                 Alt("long", S(Rep(s.n + 1, 9))), Alt("one-byte", S(<<9>>)), Alt("[some]", L(<<S(Rep(s.n, 9))>>)) }
          [] s.t = "list" ->
               { Alt("elem+0x80", [o EXCEPT !.items = Append(@, S(<<>>))]), Alt("as-string", S(SerAll(o.items, 1))) }
               \cup (IF o.items # <<>>
                     THEN { Alt("elem-dup", [o EXCEPT !.items = Append(@, @[Len(@)])]),
                            Alt("elem-drop", [o EXCEPT !.items = SubSeq(@, 1, Len(@) - 1)]) } ELSE {})
          [] s.t = "struct" ->
               { Alt("field+0x80", [o EXCEPT !.items = Append(@, S(<<>>))]), Alt("field-drop", [o EXCEPT !.items = SubSeq(@, 1, Len(@) - 1)]),
                 Alt("as-string", S(SerAll(o.items, 1))) }
          [] s.t = "reserved" -> ReservedShapes
          [] s.t = "ext" -> ExtShapes(site.v.alpha, site.v.fee)
          [] s.t = "trf" -> TRFShapes(site.v.root)
          [] s.t \in {"txitem", "rcitem"} -> EnvelopeAlts(o)
  IN Common(o) \cup specific

\* ==== cases ====
RootTree(t) == Node(t.s, t.v)[1]
Bytes_(t, tree) == t.pre \o Ser(tree)
CaseRec(t, site, form, x) ==
  [id |-> t.obj \o "/" \o t.kind \o "/" \o site \o "=" \o form, obj |-> t.obj, kind |-> t.kind, site |-> site, form |-> form, x |-> x]

SitesOf(t) == Sites(t.s, t.v, <<>>, "", t.nm)
NodeAt(site) == Node(site.s, site.v)[1]

\* one node replaced
SingleCases(t) ==
  LET root == RootTree(t)
      ss == SitesOf(t) IN
  UNION { { CaseRec(t, ss[i].name, a.form, Bytes_(t, Subst(root, ss[i].path, a.node))) : a \in Menu(ss[i], NodeAt(ss[i])) } : i \in 1..Len(ss) }

\* the whole input
TopCases(t) ==
  LET x == Bytes_(t, RootTree(t))
      body == Ser(RootTree(t))
      n == Len(x)
  IN { CaseRec(t, "top", "canonical", x), CaseRec(t, "top", "empty-input", <<>>), CaseRec(t, "top", "first-byte-only", SubSeq(x, 1, 1)),
       CaseRec(t, "top", "cut-1", SubSeq(x, 1, n - 1)), CaseRec(t, "top", "cut-half", SubSeq(x, 1, n \div 2)),
       CaseRec(t, "top", "trailing-0x00", x \o <<0>>), CaseRec(t, "top", "trailing-0x80", x \o <<128>>),
       CaseRec(t, "top", "twice", x \o x) }
     \cup (IF t.kind \in {"txbin", "rcbin"}
           THEN { CaseRec(t, "top", "type=" \o ToString(ty), <<ty>> \o body) : ty \in {0, 1, 2, 80, 81, 82, 127} }
                \cup { CaseRec(t, "top", "type-twice", <<TypeDyn, TypeDyn>> \o body), CaseRec(t, "top", "type-only", <<TypeDyn>>),
                       CaseRec(t, "top", "as-string", EncStr(x)), CaseRec(t, "top", "body-as-string", <<TypeDyn>> \o EncStr(body)) }
           ELSE {})

\* the DoS bound of Clauses.DecodeRLP: exactly MaxClauses clauses, one fewer, one more (binary entry point only)
LimitCases(t) ==
  IF t.kind # "txbin" THEN {}
  ELSE LET root == RootTree(t)
           ss == SitesOf(t)
           at == CHOOSE i \in 1..Len(ss) : ss[i].s.t = "list" /\ ss[i].s.max >= 0
       IN { CaseRec(t, ss[at].name, "n=max" \o d[1], Bytes_(t, Subst(root, ss[at].path, L(Rep(MaxClauses + d[2], MinClause)))))
            : d \in {<<"-1", -1>>, <<"", 0>>, <<"+1", 1>>} }

\* two nodes replaced, neither inside the other
Prefix(p, q) == Len(p) <= Len(q) /\ SubSeq(q, 1, Len(p)) = p
Independent(p, q) == ~Prefix(p, q) /\ ~Prefix(q, p)
RECURSIVE PathLess(_, _)
PathLess(p, q) == IF p = <<>> THEN q # <<>> ELSE IF q = <<>> THEN FALSE
                  ELSE IF Head(p) # Head(q) THEN Head(p) < Head(q) ELSE PathLess(Tail(p), Tail(q))
PairForms == {"emptylist", "hdr-long", "u=0x00", "u=overlong", "u=max", "u=wrapped", "i=leadzero", "i=2^256", "b=wrapped", "len56",
              "short", "some", "nil", "[0]", "[0,1]", "[1,0]", "[1,wrapped]", "[f,max-unused]", "[f,max-unused+1]", "absent", "[a]",
              "[a,0]", "[a,1]", "[empty,0,0]", "hash", "[root,1]", "[root,0]", "elem-drop", "elem-dup", "field-drop", "true", "false",
              "b=2", "zeros", "len0"}
PairCases(t) ==
  LET root == RootTree(t)
      ss == SitesOf(t)
      alts(st) == {a \in Menu(st, NodeAt(st)) : a.form \in PairForms}
  IN UNION { UNION { { CaseRec(t, ss[i].name \o "=" \o pr[1].form \o "&" \o ss[j].name, pr[2].form,
                               Bytes_(t, Subst(Subst(root, ss[i].path, pr[1].node), ss[j].path, pr[2].node)))
                       : pr \in alts(ss[i]) \X alts(ss[j]) }
                     : j \in {k \in 1..Len(ss) : Independent(ss[i].path, ss[k].path) /\ PathLess(ss[i].path, ss[k].path)} }
             : i \in 1..Len(ss) }

Verdict(c) == Decode(c.kind, c.x).ok
=============================================================================
