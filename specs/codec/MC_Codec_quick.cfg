CONSTANTS
  MaxClauses = 2500
  MaxUnused = 2
INIT InitSingles
NEXT Next
INVARIANT RoundTrip
INVARIANT CanonicalAccepted
INVARIANT SizeIsLength
INVARIANT ExtensionSignedIffFee
POSTCONDITION ExportSingles
CHECK_DEADLOCK FALSE
