CONSTANTS
  MaxClauses = 2500
  MaxUnused = 2
INIT InitSingles
NEXT Next
INVARIANT RoundTrip
INVARIANT CanonicalAccepted
INVARIANT SizeIsLength
POSTCONDITION ExportSingles
CHECK_DEADLOCK FALSE
