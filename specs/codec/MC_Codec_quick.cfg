CONSTANTS
  MaxClauses = 2500
  MaxUnused = 2
INIT InitSingles
NEXT Next
INVARIANT RoundTrip
INVARIANT CanonicalAccepted
INVARIANT SizeIsLength
INVARIANT StreamRoundTrip
INVARIANT BytesIsStreamPlusNoTrailing
INVARIANT ExtensionSignedIffFee
POSTCONDITION ExportSingles
CHECK_DEADLOCK FALSE
