------------------------------ MODULE MC_Trie ------------------------------
(* Model-checking wrapper of Trie.tla: key sets, and the export of  content -> canonical shape  for the harness
   (harness/cmd/triecheck hashes the exported shape with its reference hasher and compares with the real trie).   *)
EXTENDS Trie, Json

CONSTANT Export

\* 9 keys of 4 nibbles (= 2 real key bytes) over {0,1,2}: at most one non-zero nibble.  Common prefixes of every
\* length 0..3 and a three-way branch at every depth.  With CountOps = FALSE the reachable states are ALL 3^9 contents
\* and every Put/Del transition between them is checked - operation sequences of unbounded length.
Keys9 == {k \in [1..4 -> {0, 1, 2}] : Cardinality({i \in 1..4 : k[i] # 0}) <= 1}
\* the prototype's universe: all 27 keys of 3 nibbles, bounded number of operations
Keys27 == [1..3 -> {0, 1, 2}]

RECURSIVE Pairs(_)
Pairs(S) == IF S = {} THEN <<>> ELSE LET x == CHOOSE x \in S : TRUE IN <<x>> \o Pairs(S \ {x})

\* one line per distinct content:  c = <<<<key, value>>, ...>>,  s = the operational trie (= Shape(content) by Canonical)
ExportShapes == Export => PrintT("SHP" \o ToJson([c |-> Pairs({<<k, content[k]>> : k \in {x \in Keys : content[x] # 0}}), s |-> root]))
=============================================================================
