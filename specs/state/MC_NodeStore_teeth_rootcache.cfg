SPECIFICATION Spec
CONSTANTS
  Nib = {0, 1}
  KeyLen = 2
  Names = {"a"}
  Main = {"a"}
  Opts <- OptsTeeth
  MaxMaj = 3
  MaxMin = 1
  MaxForks = 1
  MaxTouch = 2
  AlignedOnly = TRUE
  RootCacheRecent <- MutRootCacheRecent
INVARIANT RetainedReadable
INVARIANT PrunedNeverDifferent
INVARIANT NoWrongNode
INVARIANT RootCanonical
INVARIANT DedupKeyUnique
CHECK_DEADLOCK FALSE
