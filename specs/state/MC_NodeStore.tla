---- MODULE MC_NodeStore ----
(* Exhaustive configurations of NodeStore.tla.  Option matrix explored from Init:
   hist partition factor {1, 2, Big} x deduped partition factor {1, 2, Big} x {hashed, hash-skipped}.            *)
EXTENDS NodeStore
Big == BigFactor
OptsOne  == {[hf |-> 1, df |-> Big, skip |-> {}]}
OptsQuick == {[hf |-> h, df |-> d, skip |-> s] : h \in {1, 2}, d \in {1, Big}, s \in {{}, {"a"}}}
OptsFull == {[hf |-> h, df |-> d, skip |-> s] : h \in {1, 2, Big}, d \in {1, 2, Big}, s \in {{}, {"a"}}}
OptsTeeth == {[hf |-> h, df |-> Big, skip |-> {}] : h \in {1, 2}}
OptsAS   == {[hf |-> h, df |-> d, skip |-> {}] : h \in {1, 2}, d \in {1, Big}}

\* ---- deliberately broken variants (MC_NodeStore_teeth_*.cfg): each must violate an invariant
MutRootFromDedup(n) == TRUE                       \* root of a main trie may be served from the deduped space
MutCkptSkips(v, bmaj) == v.maj <= bmaj            \* checkpoint version filter >= turned into >
MutNoDeepFork(t, target) == TRUE                  \* a fork branching below the target survives above it
MutRootCacheRecent(target) == TRUE                \* a root that is being pruned is still in the root cache
====
