---- MODULE MC_NodeStore ----
(* Exhaustive configurations of NodeStore.tla (TLC, BFS).  One step = one whole block (Open; Update*; Touch*; Commit)
   or one store action (Checkpoint, DeleteHist, Reopen).  Universe: 2-nibble keys over {0,1}; the genesis block holds
   {00,01,10} (extension/full root over a full node and a leaf); every block changes <= MaxTouch keys (fresh value,
   delete, or touch); every admissible prune round [base, target) at every point, targets aligned to the hist
   partition factor or not; a re-open may ask for any partition factors (the persisted layout must win); a crash
   inside a round (CrashInCheckpoint: some tries checkpointed, one up to a point of the pre-order walk; CrashInDelete:
   the partitions below some x deleted, base not advanced) followed by the same round again (ResumeCheckpoint).

   Measured (4 workers, this sandbox under load):
     MC_NodeStore_quick.cfg     2 option sets (hf 1 / df max / hashed, hf 2 / df 2 / hash-skipped), 3 blocks, no fork
                                499 088 states generated / 127 348 distinct, depth 11, 35-45 s
     MC_NodeStore_thorough.cfg  hf 1, df max, 3 blocks + one fork block (minor versions)
                                2 255 135 generated / 726 641 distinct, 2.5-10 min
     MC_NodeStore_matrix.cfg    18 option sets (hf 1/2/max x df 1/2/max x hashed/skipped), 3 blocks
                                807 713 generated / 340 538 distinct, ~5 min (not run by the check)
     MC_NodeStore_as.cfg        account-like trie "a" + storage-like trie "s" (root may come from the deduped space, only
                                reached through "a", checkpointed only if its root version >= base)
                                2 455 985 generated / 314 039 distinct, 2-4 min
   RetainedReadable, PrunedNeverDifferent, NoWrongNode, RootCanonical, PrunedUnreadable, LayoutPersistent hold in all
   of them (thorough / matrix numbers were measured before re-open options were added: more generated, same kind).

   The invariants have teeth - each deliberately broken variant below is caught (MC_NodeStore_teeth_*.cfg; check C12
   runs them as must-be-violated steps: quick tier all but deepfork / rootcache / unaligned, thorough tier all; the
   state counts are those of the first measurement and vary with the exploration order):
     rootdedup  root of a main trie may be served from the deduped space  -> PrunedUnreadable / PrunedNeverDifferent
                violated after 3 206 states (a pruned root silently reads the checkpointed root's content)
     filter     checkpoint version filter  >= base  turned into  > base   -> RetainedReadable violated after 3 314 states
     storage    storage-like trie written exactly at the base not checkpointed -> RetainedReadable, 15 716 states
     deepfork   a fork that branches below the target survives above it   -> PrunedNeverDifferent, 180 869 states
     rootcache  a root below the target is still in the root cache        -> NoWrongNode, 182 403 states
     roundup    DeleteHist rounds the limit partition up (deletes the partition holding an unaligned target)
                                                                          -> RetainedReadable, 2 035 states
     reopenlayout  a re-open composes keys with the requested factors instead of the persisted ones
                                                                          -> RetainedReadable, 60 states
     unaligned  InFlightReads = TRUE with unaligned targets: a root of the half-deleted partition survives below the
                target and reads through overwritten deduped nodes        -> PrunedNeverDifferent, 1 224 431 states
     resume     Resumable: "a round that crashed can always be run again" is NOT an invariant of the design: after a
                crash in (or right after) the range delete the main roots of block target-1 are gone from hist, the
                checkpoint walk of the re-run fails, the persisted base never advances -> Resumable, 306 states
                (observed on the real pruner by the crash cuts of cmd/prunee2e: "checkpoint tries: missing trie node")
     inflight   the guarantees are also demanded DURING a prune round (InFlightReads = TRUE)
                                                                          -> PrunedNeverDifferent, 544 638 states
   deepfork / rootcache show that the preconditions of CanPrune are needed (thor provides them through
   awaitUntilPrunable + MaxStateHistory); inflight / unaligned are the same genuine window in the design (a root below
   the target that is still in hist while the deduped space is overwritten; with thor's 256/8192/65536 alignment of
   partition factor and prune period only the running round is affected): see InFlight in NodeStore.tla and the in-flight probe of check C12.   *)
EXTENDS NodeStore
Big == BigFactor

\* one block = a change function over (trie, key): keep / set a fresh value / delete / touch
Pos == Names \X Keys
Changes == UNION {{[x \in Pos |-> IF x \in S THEN g[x] ELSE "keep"] : g \in [S -> {"set", "del", "touch"}]}
                  : S \in {T \in SUBSET Pos : Cardinality(T) <= MaxTouch}}
BlockStep(p, f) ==
  \E b \in {V(p.maj + 1, NextMinor(p.maj + 1))} : \E pc \in {Logical(p)} :
  \E cur \in {[n \in Names |-> [k \in Keys |-> IF f[<<n, k>>] = "set" THEN ValOf(b)
                                                  ELSE IF f[<<n, k>>] = "del" THEN 0 ELSE pc[n][k]]]} :
  \E touched \in {[n \in Names |-> {k \in Keys : f[<<n, k>>] # "keep"}]} :
     /\ \A n \in Names, k \in Keys : f[<<n, k>>] \in {"del", "touch"} => pc[n][k] # 0
     /\ Block(p, cur, touched)
\* a re-open may ask for any partition factors (thor toggles 256 <-> 524288 with --disable-pruner)
MCReqOpts == {[hf |-> 2, df |-> 1], [hf |-> Big, df |-> Big]}
MCNext ==
  \/ \E p \in vers : MayBuildOn(p) /\ \E f \in Changes : BlockStep(p, f)
  \/ NextStore
  \/ \E r \in MCReqOpts : (\E n \in Names : rcache[n] # NoVer) /\ ReopenWith(r)
MCSpec == Init /\ [][MCNext]_vars

OptsOne  == {[hf |-> 1, df |-> Big, skip |-> {}]}
OptsQuick == {[hf |-> 1, df |-> Big, skip |-> {}], [hf |-> 2, df |-> 2, skip |-> {"a"}]}
OptsFour == {[hf |-> 1, df |-> Big, skip |-> {}], [hf |-> 2, df |-> Big, skip |-> {}],
             [hf |-> 1, df |-> 1, skip |-> {"a"}], [hf |-> 2, df |-> 2, skip |-> {"a"}]}
OptsTeeth == {[hf |-> h, df |-> Big, skip |-> {}] : h \in {1, 2}}
OptsHf2  == {[hf |-> 2, df |-> Big, skip |-> {}]}
OptsAS   == {[hf |-> 1, df |-> d, skip |-> {}] : d \in {1, Big}}

K(a, b) == <<a, b>>
C(S) == [k \in Keys |-> IF k \in S THEN 1 ELSE 0]
\* genesis contents: full node below an extension / below a full root, with a sibling leaf, all four keys
InitA == {[n \in Names |-> C(S)] : S \in {{K(0,0), K(0,1), K(1,0)}, {K(0,0), K(0,1)}, {K(0,0), K(0,1), K(1,0), K(1,1)}}}
InitA1 == {[n \in Names |-> C({K(0,0), K(0,1), K(1,0)})]}
InitAll == {[n \in Names |-> C(S)] : S \in SUBSET Keys}
InitAS == {[n \in Names |-> IF n = "a" THEN C({K(0,0), K(1,0)}) ELSE C(S)] : S \in {{K(0,0), K(0,1), K(1,0)}, {}}}

\* ---- deliberately broken variants (MC_NodeStore_teeth_*.cfg): each must violate an invariant
MutRootFromDedup(n) == TRUE                       \* root of a main trie may be served from the deduped space
MutCkptSkips(v, bmaj) == v.maj <= bmaj            \* checkpoint version filter >= turned into >
MutNoDeepFork(t, target) == TRUE                  \* a fork branching below the target survives above it
MutStorageUnchanged(rv, bmaj) == rv.maj <= bmaj    \* storage trie written exactly at the base is not checkpointed
MutRootCacheRecent(target) == TRUE
MutDelLimit(target) == (target + use.hf - 1) \div use.hf   \* DeleteHistoryNodes rounds the limit partition up
MutLayoutAfterReopen(persisted, requested) == requested  \* Open() uses the caller's factors, not the persisted ones                \* a root that is being pruned is still in the root cache
====
