---- MODULE MC_NodeStore ----
(* Exhaustive configurations of NodeStore.tla.  Option matrix explored from Init:
   hist partition factor {1, 2, Big} x deduped partition factor {1, 2, Big} x {hashed, hash-skipped}.            *)
EXTENDS NodeStore
Big == BigFactor
OptsOne  == {[hf |-> 1, df |-> Big, skip |-> {}]}
OptsQuick == {[hf |-> 1, df |-> Big, skip |-> {}], [hf |-> 2, df |-> Big, skip |-> {}],
              [hf |-> 1, df |-> 1, skip |-> {"a"}], [hf |-> 2, df |-> 2, skip |-> {"a"}]}
OptsFull == {[hf |-> h, df |-> d, skip |-> s] : h \in {1, 2, Big}, d \in {1, 2, Big}, s \in {{}, {"a"}}}
OptsTeeth == {[hf |-> h, df |-> Big, skip |-> {}] : h \in {1, 2}}
OptsAS   == {[hf |-> 1, df |-> d, skip |-> {}] : d \in {1, Big}}

K(a, b) == <<a, b>>
C(S) == [k \in Keys |-> IF k \in S THEN 1 ELSE 0]
\* genesis contents: full node below an extension / below a full root, with a sibling leaf, all four keys
InitA == {[n \in Names |-> C(S)] : S \in {{K(0,0), K(0,1), K(1,0)}, {K(0,0), K(0,1)}, {K(0,0), K(0,1), K(1,0), K(1,1)}}}
InitA1 == {[n \in Names |-> C({K(0,0), K(0,1), K(1,0)})]}
InitAll == {[n \in Names |-> C(S)] : S \in SUBSET Keys}
InitAS == {[n \in Names |-> IF n = "a" THEN C({K(0,0), K(1,0)}) ELSE C(S)] : S \in {{K(0,0), K(0,1), K(1,0)}, {}}}

\* ---- deliberately broken variants (MC_NodeStore_teeth_*.cfg): each must violate an invariant
MutRootFromDedup(n) == TRUE                       \* root of a main trie may be served from the deduped space
MutCkptSkips(v, bmaj) == v.maj <= bmaj            \* checkpoint version filter >= turned into >
MutNoDeepFork(t, target) == TRUE                  \* a fork branching below the target survives above it
MutStorageUnchanged(rv, bmaj) == rv.maj <= bmaj    \* storage trie written exactly at the base is not checkpointed
MutRootCacheRecent(target) == TRUE                \* a root that is being pruned is still in the root cache
====
