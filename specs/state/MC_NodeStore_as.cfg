SPECIFICATION MCSpec
CONSTANTS
  Nib = {0, 1}
  KeyLen = 2
  Names = {"a", "s"}
  Main = {"a"}
  Opts <- OptsAS
  MaxMaj = 3
  MaxMin = 1
  MaxForks = 0
  MaxTouch = 1
  InitConts <- InitAS
  InFlightReads = FALSE
  AlignedOnly = FALSE
INVARIANT RetainedReadable
INVARIANT PrunedNeverDifferent
INVARIANT NoWrongNode
INVARIANT RootCanonical
INVARIANT PrunedUnreadable
INVARIANT LayoutPersistent
CHECK_DEADLOCK FALSE
