SPECIFICATION MCSpec
CONSTANTS
  Nib = {0, 1}
  KeyLen = 2
  Names = {"a"}
  Main = {"a"}
  Opts <- OptsHf2
  MaxMaj = 4
  MaxMin = 1
  MaxForks = 0
  MaxTouch = 1
  InitConts <- InitA1
  InFlightReads = TRUE
  AlignedOnly = FALSE

INVARIANT RetainedReadable
INVARIANT PrunedNeverDifferent
INVARIANT NoWrongNode
INVARIANT RootCanonical
INVARIANT PrunedUnreadable
INVARIANT LayoutPersistent
CHECK_DEADLOCK FALSE
