SPECIFICATION MCSpec
CONSTANTS
  NA = 2
  NK = 2
  Addr = {1, 2}
  Key = {1, 2}
  BalV = {0, 1}
  EnV <- MCEnV
  MsV = {0, 1}
  CdV = {0, 1}
  StV = {0, 1, 2}
  LogV = {}
  RefV = {}
  SuiV = {}
  StageFolds = FALSE
  MaxOps = 5
  MaxDepth = 3
  MaxCommits = 2
  Export = "none"
VIEW View
INVARIANT ReadsArePlainMap
INVARIANT StageIsCanonical
INVARIANT SideIsPlainJournal
INVARIANT ContentsWellFormed
INVARIANT ReopenReadsBack
CHECK_DEADLOCK FALSE
