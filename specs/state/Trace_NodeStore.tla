---- MODULE Trace_NodeStore ----
(* Trace specification for C12: validates event traces recorded by harness/cmd/nodestore from the REAL muxdb.Trie
   (over the recording engine) against NodeStore.tla.  The trace supplies the facts the design leaves open (which
   keys are updated, on which parent, which prune targets, when the database is re-opened); every event is replayed
   with the SAME actions as the design-level module (Open, Update, Touch, Commit/CommitFork, Checkpoint, DeleteHist,
   Reopen) and everything the design determines is recomputed and compared with what the implementation returned:

     observables (a mismatch is a property violation)
       Read    every trie of every block version: a retained block reads exactly its logical content (through Get
               and through the NodeIterator, through fresh tries of the live MuxDB, of a cache-less MuxDB, and through
               trie objects a reader has kept since an earlier step); any other block fails or reads its content,
               never something else (a kept trie object of a block pruned meanwhile is not constrained)
       Commit  the root hash is the canonical commitment of the content (hashok, computed by the driver against a
               trie built from scratch), the version is the one the design assigns
       CheckpointError never happens on an admissible prune round
     projections (CheckProjection = TRUE; a mismatch with all observables agreeing is spec drift, not a violation)
       Obs     the key sets of the hist and deduped spaces read back from the engine equal the spec's
       Read    through a fresh cache-less MuxDB ("cold") equals the spec's store-only read, error or not

   All invariants of NodeStore are evaluated after every event.  Runs are concatenated; Reset starts the next.   *)
EXTENDS NodeStore, Json, TraceLib

CONSTANTS CheckProjection

Trace == LoadTrace("trace.ndjson")
VARIABLE l
tvars == <<vars, l>>

TraceNib == 0..(Trace[1].cfg.nib - 1)
TraceKeyLen == Trace[1].cfg.keylen
Rng(s) == {s[i] : i \in 1..Len(s)}
TraceNames == Rng(Trace[1].cfg.names)
TraceMain == Rng(Trace[1].cfg.main)
EmptyConts == {[n \in TraceNames |-> [k \in [1..TraceKeyLen -> TraceNib] |-> 0]]}
NoOpts == {}

Ev == Trace[l]
VerOf(a) == V(a[1], a[2])
OptOf(c) == [hf |-> c.hf, df |-> c.df, skip |-> Rng(c.skip)]
ToContent(pairs) == [k \in Keys |-> IF \E i \in 1..Len(pairs) : pairs[i][1] = k
                                    THEN pairs[CHOOSE i \in 1..Len(pairs) : pairs[i][1] = k][2] ELSE 0]
Observed(e) == [n \in Names |-> IF e.ok[n] THEN ToContent(e.kv[n]) ELSE Err]

TInit == /\ HWMInit /\ Len(Trace) >= 1 /\ Trace[1].e = "Reset"
         /\ InitWith(OptOf(Trace[1].cfg), CHOOSE c \in EmptyConts : TRUE)
         /\ l = 2

TReset ==
  /\ Ev.e = "Reset"
  /\ opt' = OptOf(Ev.cfg)
  /\ vers' = {Genesis}
  /\ anc' = [b \in {Genesis} |-> {Genesis}]
  /\ rootv' = [n \in Names |-> [b \in {Genesis} |-> NoVer]]
  /\ cont' = [n \in Names |-> <<>>]
  /\ tver' = [n \in Names |-> <<>>]
  /\ ever' = <<>> /\ wl' = <<>> /\ delp' = 0 /\ dedup' = <<>>
  /\ use' = [hf |-> Ev.cfg.hf, df |-> Ev.cfg.df]
  /\ base' = 0 /\ ckroot' = NoVer /\ pend' = 0 /\ crashed' = FALSE
  /\ rcache' = [n \in Names |-> NoVer]
  /\ w' = Closed

TOpen == Ev.e = "Open" /\ Open(VerOf(Ev.par))
TUpdate == Ev.e = "Update" /\ Ev.n \in Names /\ Ev.k \in Keys /\ Update(Ev.n, Ev.k, Ev.v)
TTouch == Ev.e = "Touch" /\ Ev.n \in Names /\ Ev.k \in Keys /\ Touch(Ev.n, Ev.k)
TCommit == /\ Ev.e = "Commit"
           /\ Commit \/ CommitFork
           /\ VerOf(Ev.ver) \in vers' /\ VerOf(Ev.ver) \notin vers
           /\ Ev.hashok = TRUE
TCheckpoint == Ev.e = "Checkpoint" /\ Checkpoint(VerOf(Ev.t), Ev.target)
TDeleteHist == Ev.e = "DeleteHist" /\ DeleteHist
\* the Options the database is re-opened with are logged; the layout must stay the persisted one
TReopen == Ev.e = "Reopen" /\ (IF Has(Ev, "req") THEN ReopenWith([hf |-> Ev.req.hf, df |-> Ev.req.df]) ELSE ReopenAny)

ReadOK(r) ==
  \E b \in {VerOf(r.b)} : \E obs \in {Observed(r)} :
       /\ b \in vers
       /\ r.itersame = TRUE
       /\ Retained(b) => obs = Logical(b)
       \* a reader that kept its trie object from before the prune (how = "held") is in the position of the root cache:
       \* it is owed the content only while its block is retained (RootCacheRecent is the matching assumption)
       /\ (~Retained(b) /\ Owed(b) /\ Get(r, "how", "live") # "held") => (StateErr(obs) \/ obs = Logical(b))
       /\ (CheckProjection /\ r.cold) => obs = ReadState(b, FALSE)
KeysOK(e) ==
  CheckProjection =>
       /\ e.keysknown = TRUE
       /\ {<<k[1], k[2], VerOf(k[3])>> : k \in Rng(e.hist)} = HistKeys
       /\ {<<k[1], k[2], k[3]>> : k \in Rng(e.dedup)} = DOMAIN dedup
\* one observation = the key spaces read back from the engine + the reads of every block version
\* (the checks are written as  <boolean expression> = TRUE  so that TLC evaluates them as one state predicate instead
\*  of enumerating the true disjuncts of every read as separate - identical - successor states)
TObs == /\ Ev.e = "Obs"
        /\ KeysOK(Ev) = TRUE
        /\ (\A i \in 1..Len(Ev.reads) : ReadOK(Ev.reads[i])) = TRUE
        /\ UNCHANGED vars
\* the same, one read / the key spaces per event (used to pinpoint the offending read of a rejected observation)
TRead == Ev.e = "Read" /\ ReadOK(Ev) = TRUE /\ UNCHANGED vars
TKeys == Ev.e = "Keys" /\ KeysOK(Ev) = TRUE /\ UNCHANGED vars

TNext == /\ l <= Len(Trace)
         /\ l' = l + 1
         /\ (TReset \/ TOpen \/ TUpdate \/ TTouch \/ TCommit \/ TCheckpoint \/ TDeleteHist \/ TReopen \/ TObs
             \/ TRead \/ TKeys)
TSpec == TInit /\ [][TNext]_tvars

Progress == HWM(l)
TraceAccepted == Accepted(Len(Trace))
====
