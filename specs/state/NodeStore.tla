---------------------------- MODULE NodeStore ----------------------------
(* C12 - committed tries stay readable across versions, restarts and pruning.

   Design-level model of the versioned trie node store of vechain/thor (muxdb/trie.go, muxdb/backend.go,
   trie/hasher.go:store, trie/iterator.go, cmd/thor/pruner/pruner.go):

     logical   cont[n][rv]   content of trie n at root version rv            (ghost)
               rootv[n][b]   root version of trie n as of block version b    (for main tries = b; for a storage-like
                             trie the version of its last change: in thor that reference lives in the account leaf)
     physical  hist  : (name, path, ver) |-> node        written by Commit, range-deleted by whole partitions
               dedup : (partition, name, path) |-> node  written by Checkpoint; NO version in the key: a lookup
                                                         returns whatever blob is there
     node      = [leaves: embedded key |-> value, refs: standalone descendant path |-> version]
                 (a blob does not carry its own version; it is decoded under the version of the ref that led to it)

   The trie shape is the canonical Merkle-Patricia shape of the content over nibble paths (full node at every branch
   point, extension/leaf short nodes in between).  Stored standalone: the root, every full node that has a hash
   (here: all of them, values are >= 32 bytes; see Hashed), every node when the trie is hash-skipped.  Everything
   else is embedded in its nearest standalone ancestor.

   Versions are (major, minor) = (block number, number of blocks already stored at that height).

   The key layout (hist / deduped partition factors, hash-skipping per trie) is fixed when the database is created and
   is part of the PERSISTENT state (opt; muxdb.props "config"): re-opening with other Options must keep using it
   (use = layout the open MuxDB composes keys with; LayoutAfterReopen).  A node written under one hist factor is not
   found under another (partition id and width of the version suffix differ).

   hist is kept as  ever (all nodes ever written, ghost)  minus the deleted partitions [0, delp): DeleteHistoryNodes
   removes the partition range [base/hf, target/hf) and base is always the previous target, so the union of all
   ranges deleted so far is [0, base/hf); a commit never writes below it (its parent is retained).                *)
EXTENDS Integers, Sequences, FiniteSets, TLC

CONSTANTS Nib,        \* nibble alphabet, e.g. {0,1}
          KeyLen,     \* key length in nibbles
          Names,      \* trie names
          Main,       \* subset of Names: committed at every block, root fetched from hist only ("a", "i")
          Opts,       \* set of option records [hf, df, skip] the model may start with
          InitConts,  \* set of genesis contents [Names -> content] (the genesis block is a commit at version (0,0))
          MaxMaj,     \* largest block number
          MaxMin,     \* largest minor version (number of forks at one height)
          MaxForks,   \* total number of fork commits
          MaxTouch,   \* max updates per block (over all tries)
          AlignedOnly,\* TRUE: prune targets are multiples of the hist partition factor (as in production)
          InFlightReads \* TRUE: the guarantees also cover reads of blocks below the target whose hist partition has
                        \* not been range-deleted yet (round still running, or target not aligned to the partition)

VARIABLES opt,      \* [hf |-> hist partition factor, df |-> deduped partition factor, skip |-> SUBSET Names]
          vers,     \* committed block versions
          anc,      \* ghost: block version -> set of its ancestors (incl. itself)
          rootv,    \* [Names -> [vers -> root version or NoVer (empty trie)]]
          cont,     \* ghost: [Names -> [root versions -> content]]
          tver,     \* bookkeeping: [Names -> [root versions -> [standalone path -> version of the node there]]]
          ever,     \* every node ever written: <<name, path, ver>> |-> node
          wl,       \* ghost: <<name, path, ver>> |-> hist partition factor its key was composed with
          use,      \* [hf, df] the open MuxDB composes keys with (must always equal the persisted opt)
          delp,     \* hist partitions below delp have been range-deleted
          dedup,    \* <<ptn, name, path>> |-> node
          base,     \* prune base: majors below are pruned
          ckroot,   \* block version whose tries were checkpointed last (canonical block base-1), or NoVer
          pend,     \* pending prune target between Checkpoint and DeleteHist (0 = none)
          crashed,  \* the process died inside the pending round: the round has to be run again from its checkpoint
          rcache,   \* root cache of the open MuxDB: [Names -> root version or NoVer]
          w         \* working copy: [par |-> block version or NoVer (closed), cur, touched]
vars == <<opt, vers, anc, rootv, cont, tver, ever, wl, use, delp, dedup, base, ckroot, pend, crashed, rcache, w>>

V(a, b) == [maj |-> a, min |-> b]
NoVer == V(0 - 1, 0)
Genesis == V(0, 0)
BigFactor == 1000000          \* stands for math.MaxUint32: one partition, nothing is ever range-deleted

Keys  == [1..KeyLen -> Nib]
Paths == UNION {[1..n -> Nib] : n \in 0..KeyLen}
Empty == [k \in Keys |-> 0]
Err   == [k \in Keys |-> 0 - 1]
NoNode == [none |-> TRUE]

IsPrefix(p, k) == Len(p) <= Len(k) /\ \A i \in 1..Len(p) : p[i] = k[i]
StrictPrefix(p, q) == Len(p) < Len(q) /\ IsPrefix(p, q)
Ext(p, x) == [i \in 1..(Len(p) + 1) |-> IF i <= Len(p) THEN p[i] ELSE x]

\* ---------------------------------------------------------------- canonical shape of a content
Under(c, p) == {k \in Keys : c[k] # 0 /\ IsPrefix(p, k)}
Fulls(c) == {q \in Paths : Len(q) < KeyLen /\ Cardinality({x \in Nib : Under(c, Ext(q, x)) # {}}) >= 2}
\* paths at which a node (full or short) starts
Starts(c) == IF Under(c, <<>>) = {} THEN {}
             ELSE {<<>>} \cup Fulls(c)
                  \cup UNION {{Ext(q, x) : x \in {y \in Nib : Under(c, Ext(q, y)) # {}}} : q \in Fulls(c)}
\* a full node is stored standalone when it has a hash, i.e. its consensus encoding is >= 32 bytes; with values of
\* >= 32 bytes every full node qualifies (the drivers bound to this module use such values)
Hashed(c, q) == TRUE
Standalone(c, skip) == IF Under(c, <<>>) = {} THEN {}
                       ELSE IF skip THEN Starts(c)
                       ELSE {<<>>} \cup {q \in Fulls(c) : Hashed(c, q)}
Kids(sa, p) == {q \in sa : StrictPrefix(p, q) /\ ~\E r \in sa : StrictPrefix(p, r) /\ StrictPrefix(r, q)}
MkNode(c, sa, tv, p) ==
  [leaves |-> [k \in {k \in Under(c, p) : ~\E q \in sa : StrictPrefix(p, q) /\ IsPrefix(q, k)} |-> c[k]],
   refs   |-> [q \in Kids(sa, p) |-> tv[q]]]

\* ---------------------------------------------------------------- the reader (muxdb/trie.go:newDatabaseReader)
HPtn(v) == v.maj \div use.hf
DPtn(v) == v.maj \div use.df
Skip(n) == n \in opt.skip
EverGet(n, p, v) == IF <<n, p, v>> \in DOMAIN ever THEN ever[<<n, p, v>>] ELSE NoNode
HistHas(n, p, v) == <<n, p, v>> \in DOMAIN ever /\ HPtn(v) >= delp /\ wl[<<n, p, v>>] = use.hf
HistKeys == {k \in DOMAIN ever : HPtn(k[3]) >= delp}
HistGet(n, p, v) == IF HistHas(n, p, v) THEN ever[<<n, p, v>>] ELSE NoNode
DedGet(n, p, v) == IF <<DPtn(v), n, p>> \in DOMAIN dedup THEN dedup[<<DPtn(v), n, p>>] ELSE NoNode
\* hist first; the root of a main trie is never taken from the deduped space; everything else falls back to it
RootFromDedup(n) == n \notin Main
StoreGet(n, p, v) == IF HistHas(n, p, v) THEN ever[<<n, p, v>>]
                     ELSE IF p = <<>> /\ ~RootFromDedup(n) THEN NoNode
                     ELSE DedGet(n, p, v)
\* cached = TRUE: every node blob that was ever written/read may be served from the blob cache (keyed by version,
\* hence always the right blob); the root is never in the blob cache, only the root cache (rcache) can serve it
Lookup(n, p, v, cached) ==
  IF p = <<>> THEN (IF cached /\ rcache[n] = v THEN EverGet(n, p, v) ELSE StoreGet(n, p, v))
  ELSE IF cached /\ <<n, p, v>> \in DOMAIN ever THEN ever[<<n, p, v>>]
  ELSE StoreGet(n, p, v)

\* assemble the content below a node from its embedded leaves and the contents read through its refs
Assemble(nd, sub) ==
  IF \E q \in DOMAIN sub : sub[q] = Err THEN Err
  ELSE [k \in Keys |-> IF k \in DOMAIN nd.leaves THEN nd.leaves[k]
                       ELSE IF \E q \in DOMAIN sub : IsPrefix(q, k)
                            THEN sub[CHOOSE q \in DOMAIN sub : IsPrefix(q, k)][k]
                            ELSE 0]
RECURSIVE ReadNode(_, _, _, _)
ReadFrom(n, nd, cached) ==
  IF nd = NoNode THEN Err ELSE Assemble(nd, [q \in DOMAIN nd.refs |-> ReadNode(n, q, nd.refs[q], cached)])
ReadNode(n, p, v, cached) == ReadFrom(n, Lookup(n, p, v, cached), cached)
ReadTrie(n, rv, cached) == IF rv = NoVer THEN Empty ELSE ReadNode(n, <<>>, rv, cached)

\* state read at block version b: main tries first; a non-main trie is reached only through the main tries
\* (its root reference is stored in an account leaf), so it is unreadable when a main trie is
MainErr(b, cached) == \E n \in Main : ReadTrie(n, rootv[n][b], cached) = Err
ReadState(b, cached) == IF MainErr(b, cached) THEN [n \in Names |-> Err]
                        ELSE [n \in Names |-> ReadTrie(n, rootv[n][b], cached)]
Logical(b) == [n \in Names |-> IF rootv[n][b] = NoVer THEN Empty ELSE cont[n][rootv[n][b]]]
StateErr(s) == \E n \in Names : s[n] = Err

\* ---------------------------------------------------------------- retained / pruned
\* A prune round [base, target) = Checkpoint (pend := target) ; DeleteHist (base := target).  From the moment the
\* round starts the guarantee "reads exactly its content" is owed to the blocks at or after the target only.
\* Blocks below the target whose hist partition has not been range-deleted (yet) are IN FLIGHT: [base, target) until
\* DeleteHist is done, and afterwards the blocks of the partition that contains an unaligned target.  Their roots are
\* still in hist while the deduped space below them is already being overwritten.
OnCanon(b) == ckroot = NoVer \/ ckroot \in anc[b]
Lim == IF pend # 0 THEN pend ELSE base
Retained(b) == b.maj >= Lim /\ OnCanon(b)
InFlight(b) == b.maj < Lim /\ HPtn(b) >= delp
Owed(b) == InFlightReads \/ ~InFlight(b)

\* ---------------------------------------------------------------- commit
\* nodes written when trie n (old standalone map otv of the parent root) is committed at version b with content nc
\* and touched keys T.  A standalone node is rewritten iff it is the root, a touched key passes through it, or no
\* node started at that path before; all other standalone nodes keep their version (clean children keep old refs).
NewVers(otv, sa, T, b) ==
  [q \in sa |-> IF q = <<>> \/ (\E k \in T : IsPrefix(q, k)) \/ q \notin DOMAIN otv THEN b ELSE otv[q]]
NewNodes(n, nc, b, sa, ntv) ==
  [k \in {<<n, q, b>> : q \in {r \in sa : ntv[r] = b}} |-> MkNode(nc, sa, ntv, k[2])]
CommitTrieS(n, otv, nc, T, b, skip) ==
  LET sa == Standalone(nc, skip)
      ntv == NewVers(otv, sa, T, b)
  IN [tv |-> ntv, nodes |-> NewNodes(n, nc, b, sa, ntv)]
CommitTrie(n, prv, nc, T, b) == CommitTrieS(n, IF prv = NoVer THEN <<>> ELSE tver[n][prv], nc, T, b, Skip(n))
\* union of functions with disjoint domains
Merge(f, g) == [k \in DOMAIN f \cup DOMAIN g |-> IF k \in DOMAIN g THEN g[k] ELSE f[k]]
RECURSIVE MergeAll(_, _)
MergeAll(fs, S) == IF S = {} THEN <<>> ELSE LET x == CHOOSE x \in S : TRUE IN Merge(MergeAll(fs, S \ {x}), fs[x])

Closed == [par |-> NoVer, cur |-> [n \in Names |-> Empty], touched |-> [n \in Names |-> {}]]
InitWith(o, c0) ==
  LET res == [n \in Names |-> CommitTrieS(n, <<>>, c0[n], {}, Genesis, n \in o.skip)]
      ne == {n \in Names : c0[n] # Empty}
  IN
  /\ opt = o
  /\ vers = {Genesis}
  /\ anc = [b \in {Genesis} |-> {Genesis}]
  /\ rootv = [n \in Names |-> [b \in {Genesis} |-> IF n \in ne THEN Genesis ELSE NoVer]]
  /\ cont = [n \in Names |-> IF n \in ne THEN [b \in {Genesis} |-> c0[n]] ELSE <<>>]
  /\ tver = [n \in Names |-> IF n \in ne THEN [b \in {Genesis} |-> res[n].tv] ELSE <<>>]
  /\ ever = MergeAll([n \in ne |-> res[n].nodes], ne)
  /\ wl = [k \in DOMAIN MergeAll([n \in ne |-> res[n].nodes], ne) |-> o.hf]
  /\ use = [hf |-> o.hf, df |-> o.df]
  /\ delp = 0 /\ dedup = <<>>
  /\ base = 0 /\ ckroot = NoVer /\ pend = 0 /\ crashed = FALSE
  /\ rcache = [n \in Names |-> IF n \in ne THEN Genesis ELSE NoVer]
  /\ w = Closed
Init == \E o \in Opts, c0 \in InitConts : InitWith(o, c0)

\* open a working copy of the state at a retained block
CanOpen(p) == w.par = NoVer /\ p \in vers /\ Retained(p) /\ p.maj < MaxMaj
Open(p) ==
  /\ CanOpen(p)
  /\ w' = [par |-> p, cur |-> Logical(p), touched |-> [n \in Names |-> {}]]
  /\ UNCHANGED <<opt, vers, anc, rootv, cont, tver, ever, wl, use, delp, dedup, base, ckroot, pend, rcache, crashed>>

\* trie.Update: an insert of the value already there and a delete of an absent key leave the path clean
Update(n, k, v) ==
  /\ w.par # NoVer /\ v # w.cur[n][k]
  /\ w' = [w EXCEPT !.cur[n][k] = v, !.touched[n] = @ \cup {k}]
  /\ UNCHANGED <<opt, vers, anc, rootv, cont, tver, ever, wl, use, delp, dedup, base, ckroot, pend, rcache, crashed>>
\* delete + re-insert of the same value inside one block: content unchanged, path dirty
Touch(n, k) ==
  /\ w.par # NoVer /\ w.cur[n][k] # 0
  /\ w' = [w EXCEPT !.touched[n] = @ \cup {k}]
  /\ UNCHANGED <<opt, vers, anc, rootv, cont, tver, ever, wl, use, delp, dedup, base, ckroot, pend, rcache, crashed>>

NextMinor(m) == Cardinality({b \in vers : b.maj = m})
\* commit of the working copy (p, cur, touched) as block version b: state.Stage.Commit commits every storage-like
\* trie that was written, and the main tries always
DoCommit2(p, cur, b, res, nrv, cs) ==
     /\ vers' = vers \cup {b}
     /\ anc' = [x \in vers \cup {b} |-> IF x = b THEN anc[p] \cup {b} ELSE anc[x]]
     /\ rootv' = [n \in Names |-> [x \in vers \cup {b} |-> IF x = b THEN nrv[n] ELSE rootv[n][x]]]
     /\ cont' = [n \in Names |-> IF nrv[n] = b
                                  THEN [x \in DOMAIN cont[n] \cup {b} |-> IF x = b THEN cur[n] ELSE cont[n][x]]
                                  ELSE cont[n]]
     /\ tver' = [n \in Names |-> IF nrv[n] = b
                                  THEN [x \in DOMAIN tver[n] \cup {b} |-> IF x = b THEN res[n].tv ELSE tver[n][x]]
                                  ELSE tver[n]]
     /\ ever' = Merge(ever, MergeAll([n \in cs |-> res[n].nodes], cs))
     /\ wl' = Merge(wl, [k \in DOMAIN MergeAll([n \in cs |-> res[n].nodes], cs) |-> use.hf])
     /\ rcache' = [n \in Names |-> IF nrv[n] = b THEN b ELSE rcache[n]]
     /\ w' = Closed
     /\ UNCHANGED <<opt, use, delp, dedup, base, ckroot, pend, crashed>>
\* a storage-like trie exists only below an account: its root reference lives in a leaf of a main trie, so a state
\* with a non-empty storage-like trie has a non-empty main trie (whose root must be fetched first)
Linked(cur) == (\E n \in Names \ Main : cur[n] # Empty) => (\E m \in Main : cur[m] # Empty)
DoCommit(p, cur, touched, b) ==
  /\ Linked(cur)
  /\ \E res \in {[n \in Names |-> CommitTrie(n, rootv[n][p], cur[n], touched[n], b)]} :
       \E nrv \in {[n \in Names |-> IF n \in Main \/ touched[n] # {} THEN (IF cur[n] # Empty THEN b ELSE NoVer)
                                     ELSE rootv[n][p]]} :
          DoCommit2(p, cur, b, res, nrv, {n \in Names : nrv[n] = b})

\* first block at its height
Commit == /\ w.par # NoVer /\ NextMinor(w.par.maj + 1) = 0
          /\ DoCommit(w.par, w.cur, w.touched, V(w.par.maj + 1, 0))
\* a further block at a height that already has one: same major, next minor
CommitFork == /\ w.par # NoVer /\ NextMinor(w.par.maj + 1) > 0
              /\ DoCommit(w.par, w.cur, w.touched, V(w.par.maj + 1, NextMinor(w.par.maj + 1)))
\* Open ; Update* ; Touch* ; Commit|CommitFork in one step (used by the exhaustive configurations MC_NodeStore: the
\* intermediate states of a working copy do not interact with the store)
Block(p, cur, touched) ==
  /\ CanOpen(p)
  /\ DoCommit(p, cur, touched, V(p.maj + 1, NextMinor(p.maj + 1)))

\* ---------------------------------------------------------------- prune = Checkpoint ; DeleteHist
\* muxdb.Trie.Checkpoint: walk from the root with minVer = (bmaj, 0); a node whose version is lower is skipped
\* together with its subtree (sound because a parent's version >= its descendants'); the blob read through the
\* normal reader is put under the deduped key of ITS version's partition.  Result: set of <<key, node>>.
CkptSkips(v, bmaj) == v.maj < bmaj          \* trie/iterator.go: ref.ver.Compare(minVer) < 0 with minVer = (bmaj, 0)
RECURSIVE CkptSet(_, _, _, _)
CkptFrom(n, p, v, bmaj, nd) ==
  IF nd = NoNode THEN {<<<<0 - 1, n, p>>, NoNode>>}          \* the walk fails
  ELSE {<<<<DPtn(v), n, p>>, nd>>} \cup UNION {CkptSet(n, q, nd.refs[q], bmaj) : q \in DOMAIN nd.refs}
CkptSet(n, p, v, bmaj) == IF CkptSkips(v, bmaj) THEN {} ELSE CkptFrom(n, p, v, bmaj, StoreGet(n, p, v))
\* pruner.checkpointTries: main tries always; a storage-like trie only if its root version is >= base
StorageUnchanged(rv, bmaj) == rv.maj < bmaj      \* pruner.newStorageTrieIfUpdated: meta.StorageMajorVer >= base
CkptAll(t, bmaj) ==
  UNION {IF rootv[n][t] = NoVer \/ (n \notin Main /\ StorageUnchanged(rootv[n][t], bmaj)) THEN {}
         ELSE CkptSet(n, <<>>, rootv[n][t], bmaj) : n \in Names}
AsFun(S) == [k \in {e[1] : e \in S} |-> (CHOOSE e \in S : e[1] = k)[2]]

Aligned(target) == target % use.hf = 0 \/ use.hf = BigFactor
\* what thor guarantees before a prune round (awaitUntilPrunable: target+65535 is final):
\*  - t = the canonical block target-1 descends from the previous round's block,
\*  - every block at or above target descends from t (no live fork branches below the target),
\*  - the root cache (latest roots only) and the block being built are far above the target
NoDeepFork(t, target) == \A b \in vers : b.maj >= target => t \in anc[b]
RootCacheRecent(target) == \A n \in Names : rcache[n] = NoVer \/ rcache[n].maj >= target
CanPrune(t, target) ==
  /\ pend = 0 /\ target > base /\ t \in vers /\ t.maj = target - 1 /\ Retained(t)
  /\ \E b \in vers : b.maj >= target
  /\ NoDeepFork(t, target)
  /\ RootCacheRecent(target)
  /\ w.par = NoVer \/ (w.par.maj >= target /\ t \in anc[w.par])
  /\ AlignedOnly => Aligned(target)

Checkpoint(t, target) ==
  /\ CanPrune(t, target)
  /\ \E new \in {CkptAll(t, base)} :
       /\ \A e \in new : e[2] # NoNode
       /\ dedup' = Merge(dedup, AsFun(new))
  /\ pend' = target /\ ckroot' = t
  /\ UNCHANGED <<opt, vers, anc, rootv, cont, tver, ever, wl, use, delp, base, rcache, w, crashed>>

\* backend.DeleteHistoryNodes: whole partitions [base/hf, target/hf)
\* i.e. exactly the versions below floor(target/hf)*hf: the partition that contains an unaligned target stays
DelLimit(target) == target \div use.hf
DeleteHist ==
  /\ pend # 0 /\ ~crashed
  /\ delp' = IF DelLimit(pend) > delp THEN DelLimit(pend) ELSE delp
  /\ base' = pend /\ pend' = 0
  /\ UNCHANGED <<opt, vers, anc, rootv, cont, tver, ever, wl, use, dedup, ckroot, rcache, w, crashed>>

\* ---------------------------------------------------------------- crash inside a prune round, and the round again
\* The pruner persists its base only after the range delete.  A process that dies inside a round therefore starts the
\* SAME round [base, target) again: checkpoint first, then delete.  What is durable at the crash:
\*  - in the checkpoint: the tries are checkpointed one after the other (index, account, storage tries), each through
\*    a bulk that is flushed by size: some tries completely, one up to some point of the pre-order walk;
\*  - in the range delete: partitions are deleted in ascending order: the partitions below some x (x = all of them:
\*    the crash hit between the delete and status.Save).
PathBefore(p, q) == p # q /\ (IsPrefix(p, q) \/ \E i \in 1..Len(p) : /\ i <= Len(q)
                                                                      /\ \A j \in 1..(i - 1) : p[j] = q[j]
                                                                      /\ p[i] < q[i])
NameRank(n) == IF n \in Main THEN (IF n = "i" THEN 0 ELSE 1) ELSE 2
EntryBefore(e, x) == NameRank(e[1][2]) < NameRank(x[1][2]) \/ (e[1][2] = x[1][2] /\ PathBefore(e[1][3], x[1][3]))
Restarted == rcache' = [n \in Names |-> NoVer] /\ w' = Closed
CrashInCheckpoint(t, target) ==
  /\ CanPrune(t, target)
  /\ \E all \in {CkptAll(t, base)} :
       /\ \A e \in all : e[2] # NoNode
       /\ \E x \in all : dedup' = Merge(dedup, AsFun({e \in all : EntryBefore(e, x)}))
  /\ pend' = target /\ ckroot' = t /\ crashed' = TRUE /\ Restarted
  /\ UNCHANGED <<opt, vers, anc, rootv, cont, tver, ever, wl, use, delp, base>>
CrashInDelete(x) ==
  /\ pend # 0 /\ ~crashed
  /\ x > delp /\ x <= DelLimit(pend)
  /\ delp' = x /\ crashed' = TRUE /\ Restarted
  /\ UNCHANGED <<opt, vers, anc, rootv, cont, tver, ever, wl, use, dedup, base, ckroot, pend>>
\* the round again: the checkpoint walk must find everything it needs (some of it only in the deduped space by now)
ResumeWalk == CkptAll(ckroot, base)
ResumeCheckpoint ==
  /\ pend # 0 /\ crashed
  /\ \E new \in {ResumeWalk} :
       /\ \A e \in new : e[2] # NoNode
       /\ dedup' = Merge(dedup, AsFun(new))
  /\ crashed' = FALSE
  /\ UNCHANGED <<opt, vers, anc, rootv, cont, tver, ever, wl, use, delp, base, ckroot, pend, rcache, w>>

\* a new MuxDB over the same store (muxdb.Open with possibly different Options): caches are gone, an open working
\* copy is dropped; the key layout is the PERSISTED one, whatever partition factors the caller asks for
LayoutAfterReopen(persisted, requested) == persisted
ReopenWith(req) ==
  /\ rcache' = [n \in Names |-> NoVer]
  /\ w' = Closed
  /\ use' = LayoutAfterReopen([hf |-> opt.hf, df |-> opt.df], req)
  /\ UNCHANGED <<opt, vers, anc, rootv, cont, tver, ever, wl, delp, dedup, base, ckroot, pend, crashed>>
ReopenAny == ReopenWith([hf |-> opt.hf, df |-> opt.df])
Reopen == (w.par # NoVer \/ \E n \in Names : rcache[n] # NoVer) /\ ReopenAny

\* ---------------------------------------------------------------- bounded exploration
TouchCount == Cardinality(UNION {{<<n, k>> : k \in w.touched[n]} : n \in Names})
ForkCount == Cardinality({b \in vers : b.min > 0})
ValOf(b) == b.maj * (MaxMin + 1) + b.min + 2     \* a fresh value per block (1 = genesis value)
MayBuildOn(p) == NextMinor(p.maj + 1) = 0 \/ (NextMinor(p.maj + 1) <= MaxMin /\ ForkCount < MaxForks)
NextFine ==
  \/ \E p \in vers : MayBuildOn(p) /\ Open(p)
  \/ \E n \in Names, k \in Keys :
        /\ w.par # NoVer /\ TouchCount < MaxTouch /\ k \notin w.touched[n]
        /\ \/ Update(n, k, ValOf(V(w.par.maj + 1, NextMinor(w.par.maj + 1))))
           \/ Update(n, k, 0)
           \/ Touch(n, k)
  \/ Commit \/ CommitFork
NextStore ==
  \/ \E t \in vers : Checkpoint(t, t.maj + 1)
  \/ DeleteHist
  \/ Reopen
  \/ \E t \in vers : CrashInCheckpoint(t, t.maj + 1)
  \/ \E x \in 1..(MaxMaj + 1) : CrashInDelete(x)
  \/ ResumeCheckpoint
Next == NextFine \/ NextStore
Spec == Init /\ [][Next]_vars

\* ---------------------------------------------------------------- properties
RetainedReadable ==
  \A b \in vers : Retained(b) =>
     \A cached \in BOOLEAN : ReadState(b, cached) = Logical(b)
PrunedNeverDifferent ==
  \A b \in vers : (~Retained(b) /\ Owed(b)) =>
     \A cached \in BOOLEAN : \E s \in {ReadState(b, cached)} : StateErr(s) \/ s = Logical(b)
\* node-wise form, independent of which lookups the caches happen to serve: along the TRUE tree of any block whose
\* main roots can be obtained, the store never answers a lookup with a wrong blob (missing is fine below base)
RootObtainable(b) == \A n \in Main : rootv[n][b] = NoVer \/ Lookup(n, <<>>, rootv[n][b], TRUE) # NoNode
NoWrongNode ==
  \A b \in vers : (RootObtainable(b) /\ Owed(b)) =>
    \A n \in Names : rootv[n][b] # NoVer =>
      \A q \in DOMAIN tver[n][rootv[n][b]] :
         \E got \in {StoreGet(n, q, tver[n][rootv[n][b]][q])} :
           /\ got = NoNode \/ got = EverGet(n, q, tver[n][rootv[n][b]][q])
           /\ Retained(b) => got # NoNode
\* the committed root denotes exactly the canonical shape of the content: reading through the undeleted store
\* gives the content back, the standalone nodes are those of the canonical shape, versions never grow downwards
RECURSIVE EverRead(_, _, _)
EverReadFrom(n, nd) ==
  IF nd = NoNode THEN Err ELSE Assemble(nd, [q \in DOMAIN nd.refs |-> EverRead(n, q, nd.refs[q])])
EverRead(n, p, v) == EverReadFrom(n, EverGet(n, p, v))
Childless(b) == ~\E x \in vers : x # b /\ b \in anc[x]
RootCanonical ==
  \A n \in Names : \A rv \in {x \in DOMAIN cont[n] : Childless(x)} :   \* entries are immutable once written
     /\ EverRead(n, <<>>, rv) = cont[n][rv]
     /\ DOMAIN tver[n][rv] = Standalone(cont[n][rv], Skip(n))
     /\ \A q \in DOMAIN tver[n][rv] :
          /\ tver[n][rv][q].maj <= rv.maj
          /\ \A r \in DOMAIN tver[n][rv] : IsPrefix(q, r) =>
               (tver[n][rv][r].maj < tver[n][rv][q].maj \/ tver[n][rv][r] = tver[n][rv][q])
\* NOT an invariant of the design (MC_NodeStore_teeth_resume.cfg): a round that crashed can always be run again.
\* A crash after the range delete has removed the partition of block target-1 (its main roots are fetched from hist
\* only) leaves a round whose checkpoint walk fails for good, while the persisted base still says "not done".
Resumable == crashed => \A e \in ResumeWalk : e[2] # NoNode
\* the open MuxDB always composes keys with the layout the database was created with
LayoutPersistent == use = [hf |-> opt.hf, df |-> opt.df]
\* old versions do become unreadable (the pruner does prune): whole deleted partitions hold no main root
PrunedUnreadable ==
  \A b \in vers : (HPtn(b) < delp /\ \E n \in Main : rootv[n][b] # NoVer) => StateErr(ReadState(b, FALSE))
=============================================================================
