SPECIFICATION Spec
CONSTANTS
  Nib = {0, 1, 2}
  Keys <- Keys9
  Vals = {1, 2}
  MaxOps = 0
  CountOps = FALSE
  Export = TRUE
INVARIANT Canonical
INVARIANT WellFormed
CHECK_DEADLOCK FALSE
INVARIANT ExportShapes
