SPECIFICATION MCSpec
CONSTANTS
  NA = 2
  NK = 2
  Addr = {1, 2}
  Key = {1, 2}
  BalV = {0, 1}
  EnV <- MCEnV
  MsV = {0, 1}
  CdV = {0, 1}
  StV = {0, 1, 2}
  LogV = {1, 2}
  RefV = {1}
  SuiV = {1, 2}
  StageFolds = FALSE
  MaxOps = 14
  MaxDepth = 4
  MaxCommits = 3
  Export = "leaf"
INVARIANT ReadsArePlainMap
INVARIANT StageIsCanonical
INVARIANT SideIsPlainJournal
INVARIANT ContentsWellFormed
INVARIANT ReopenReadsBack
INVARIANT ExportLeaf
CHECK_DEADLOCK FALSE
