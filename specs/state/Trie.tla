------------------------------- MODULE Trie -------------------------------
(* C06 (and read by C12) - the Merkle-Patricia trie keeps the CANONICAL shape of its content.

   Insert / Delete are transcribed from trie/trie.go:insert and trie/trie.go:delete (node kinds short, full, value;
   the branch-out of a short node at the first differing nibble, the merge of a short node with a short child after a
   delete, the collapse of a full node with a single remaining child into a short node).  Shape(S) is defined directly
   from the content, without any history.  Invariant Canonical: after any sequence of operations the operational trie
   IS Shape(content) - hence the root hash (a function of the shape, trie/hasher.go) depends on the content only, not on
   the order of operations nor on deleted keys.

   Keys are nibble sequences of one fixed length (the state trie uses 64 nibbles of a blake2b hash).  The real trie
   appends a terminator nibble (16) to every key; with fixed-length keys no key is a prefix of another one, so the
   terminator is left implicit: the value slot (17th child) of a full node is never used, a value node directly below
   a full node stands for the real shortNode{[16], value}, and Short(k, value) for the real shortNode{k ++ [16], value}.
   Not modelled: dirty flags / cache generations / refNode resolution (they do not influence the shape; the harness
   exercises them on the real trie through commit + reload).                                                        *)
EXTENDS Integers, Sequences, FiniteSets, TLC

CONSTANTS Nib,        \* nibble alphabet (subset of 0..15)
          Keys,       \* set of keys: sequences over Nib, all of the same length
          Vals,       \* non-zero values; 0 = absent
          MaxOps,     \* bound on the number of operations when CountOps
          CountOps    \* FALSE: unbounded operation sequences (the state space is the set of contents)

ASSUME \A k1, k2 \in Keys : Len(k1) = Len(k2)

Nil == [t |-> "nil"]
Val(v) == [t |-> "val", v |-> v]
Short(k, c) == [t |-> "short", key |-> k, child |-> c]
Leaf(k, v) == Short(k, Val(v))
Full(ch) == [t |-> "full", ch |-> ch]
EmptyCh == [n \in Nib |-> Nil]

\* trie/encoding.go:prefixLen
PrefixLen(a, b) == LET m == IF Len(a) < Len(b) THEN Len(a) ELSE Len(b)
                       S == {i \in 0..m : \A j \in 1..i : a[j] = b[j]}
                   IN CHOOSE i \in S : \A j \in S : j <= i
Drop(s, n) == SubSeq(s, n + 1, Len(s))
Take(s, n) == SubSeq(s, 1, n)

RECURSIVE Insert(_, _, _)
\* trie.go:insert - put value node v at key suffix k below node n
Insert(n, k, v) ==
  IF Len(k) = 0 THEN v
  ELSE CASE n.t = "nil" -> Short(k, v)
       [] n.t = "short" ->
            LET m == PrefixLen(k, n.key) IN
            IF m = Len(n.key) THEN Short(n.key, Insert(n.child, Drop(k, m), v))
            ELSE LET br == [EmptyCh EXCEPT ![n.key[m + 1]] = Insert(Nil, Drop(n.key, m + 1), n.child),
                                           ![k[m + 1]] = Insert(Nil, Drop(k, m + 1), v)]
                 IN IF m = 0 THEN Full(br) ELSE Short(Take(k, m), Full(br))
       [] n.t = "full" -> Full([n.ch EXCEPT ![k[1]] = Insert(n.ch[k[1]], Drop(k, 1), v)])

RECURSIVE Delete(_, _)
\* trie.go:delete - the new node (Nil when the subtree disappears)
Delete(n, k) ==
  CASE n.t = "nil" -> Nil
    [] n.t = "val" -> Nil
    [] n.t = "short" ->
         LET m == PrefixLen(k, n.key) IN
         IF m < Len(n.key) THEN n                         \* key not in the trie
         ELSE IF m = Len(k) THEN Nil                      \* whole match: remove n
         ELSE LET c == Delete(n.child, Drop(k, Len(n.key))) IN
              IF c.t = "short" THEN Short(n.key \o c.key, c.child)     \* merge short + short
              ELSE IF c.t = "nil" THEN Nil                \* unreachable for well-formed tries; kept total
              ELSE Short(n.key, c)
    [] n.t = "full" ->
         LET ch == [n.ch EXCEPT ![k[1]] = Delete(n.ch[k[1]], Drop(k, 1))]
             live == {x \in Nib : ch[x].t # "nil"}
         IN IF Cardinality(live) >= 2 THEN Full(ch)
            ELSE IF Cardinality(live) = 0 THEN Nil        \* unreachable: a full node has >= 2 children
            ELSE LET p == CHOOSE x \in live : TRUE
                     c == ch[p]
                 IN IF c.t = "short" THEN Short(<<p>> \o c.key, c.child) ELSE Short(<<p>>, c)

RECURSIVE Shape(_)
\* the canonical trie of a set S of <<key suffix, value>> pairs (all suffixes of one length, pairwise different)
Shape(S) ==
  IF S = {} THEN Nil
  ELSE IF Cardinality(S) = 1 THEN LET e == CHOOSE e \in S : TRUE IN
                                   IF Len(e[1]) = 0 THEN Val(e[2]) ELSE Leaf(e[1], e[2])
  ELSE LET any == CHOOSE e \in S : TRUE
           cp == CHOOSE m \in 0..Len(any[1]) :                  \* length of the longest common prefix
                   /\ \A e \in S : \A j \in 1..m : e[1][j] = any[1][j]
                   /\ (m = Len(any[1]) \/ \E e \in S : e[1][m + 1] # any[1][m + 1])
           rest == {<<Drop(e[1], cp), e[2]>> : e \in S}
           br == Full([x \in Nib |-> Shape({<<Drop(e[1], 1), e[2]>> : e \in {f \in rest : f[1][1] = x}})])
       IN IF cp = 0 THEN br ELSE Short(Take(any[1], cp), br)

ShapeOf(content) == Shape({<<k, content[k]>> : k \in {x \in DOMAIN content : content[x] # 0}})

VARIABLES root, content, nops
vars == <<root, content, nops>>
Init == root = Nil /\ content = [k \in Keys |-> 0] /\ nops = 0
Count == nops' = IF CountOps THEN nops + 1 ELSE 0
\* Trie.Update with a non-empty value
Put(k, v) == /\ root' = Insert(root, k, Val(v))
             /\ content' = [content EXCEPT ![k] = v] /\ Count
\* Trie.Update with an empty value
Del(k) == /\ root' = Delete(root, k)
          /\ content' = [content EXCEPT ![k] = 0] /\ Count
Next == /\ (CountOps => nops < MaxOps)
        /\ \E k \in Keys : (\E v \in Vals : Put(k, v)) \/ Del(k)
Spec == Init /\ [][Next]_vars

Canonical == root = ShapeOf(content)

\* well-formedness that the hasher relies on: no short node below a short node, full nodes have >= 2 children
RECURSIVE WF(_)
WF(n) == CASE n.t = "short" -> n.child.t # "short" /\ n.child.t # "nil" /\ Len(n.key) > 0 /\ WF(n.child)
           [] n.t = "full" -> Cardinality({x \in Nib : n.ch[x].t # "nil"}) >= 2 /\ \A x \in Nib : WF(n.ch[x])
           [] OTHER -> TRUE
WellFormed == WF(root)
=============================================================================
