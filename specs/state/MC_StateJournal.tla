------------------------- MODULE MC_StateJournal -------------------------
(* Model-checking wrapper of StateJournal.tla: finite universes Addr = 1..NA, Key = 1..NK, a set of initial bases
   (contents a State may be opened from without spending operations on building them) and the history variable
   `hist` used to export behaviours for the model -> implementation replay (DESIGN 3.3).  `hist` is excluded from
   the fingerprint with VIEW, so TLC keeps ONE representative history per distinct abstract state.
   hist[i] = <<op, x, y, z>> \o FlatView-after-the-op (\o FlatContent(root) for OpenBase and Stage) \o FlatSide
   (statedb side journal after the op: refund, suicide flag per address, number of logs, <<kind, id>> pairs); all integers. *)
EXTENDS StateJournal, Json

CONSTANTS NA, NK, Export
VARIABLE hist
mcvars == <<base, stack, shadow, staged, committed, side, nops, hist>>
View == svars

RECURSIVE ConcatTo(_, _)
ConcatTo(F, n) == IF n = 0 THEN <<>> ELSE ConcatTo(F, n - 1) \o F[n]

FlatViewOf(b, stk) ==
  ConcatTo([a \in 1..NA |-> LET m == ReadMeta(b, stk, a)
                            IN <<m.bal, m.en, m.bt, m.ms, m.cd>> \o [k \in 1..NK |-> ReadSt(b, stk, a, k)]], NA)
FlatContent(c) ==
  ConcatTo([a \in 1..NA |-> LET x == AccOf(c, a)
                            IN <<x.bal, x.en, x.bt, x.ms, x.cd, IF x.sw THEN 1 ELSE 0>> \o [k \in 1..NK |-> Lookup(x.st, k, 0)]], NA)

RECURSIVE FlatPairs(_, _)
FlatPairs(q, n) == IF n = 0 THEN <<>> ELSE FlatPairs(q, n - 1) \o q[n]
FlatSide(sd) ==
  LET lg == SideLogs(sd.stk) IN
  <<SideRefund(sd.stk)>> \o [a \in 1..NA |-> IF a \in SideSui(sd.stk) THEN 1 ELSE 0] \o <<Len(lg)>> \o FlatPairs(lg, Len(lg))

MCEnV == {<<0, 1>>, <<1, 1>>}        \* (energy, blockTime): a block time alone does not make an account non-empty

\* bases: address 1 absent / plain / with storage / with explicit empty storage; address 2 absent or with storage
Acc(bal, sw, st) == [bal |-> bal, en |-> 0, bt |-> 0, ms |-> 0, cd |-> 0, sw |-> sw, st |-> st]
A1Variants == {AbsentAcc, Acc(1, FALSE, EmptyFn), Acc(1, TRUE, (1 :> 1)), Acc(1, TRUE, EmptyFn), Acc(1, TRUE, (1 :> 1) @@ (2 :> 2))}
A2Variants == IF 2 \in Addr THEN {AbsentAcc, Acc(1, TRUE, (1 :> 2))} ELSE {AbsentAcc}     \* the narrow configs never touch address 2
InitBases == {Canon((1 :> x) @@ (2 :> y)) : x \in A1Variants, y \in A2Variants}

MCInit == /\ base \in InitBases /\ stack = <<EmptyLevel>> /\ shadow = <<base>>
          /\ staged = NoStage /\ committed = <<>> /\ side = SideInit /\ nops = 0
          /\ hist = << <<0, 0, 0, 0>> \o FlatViewOf(base, <<EmptyLevel>>) \o FlatContent(base) \o FlatSide(SideInit) >>

Log(op, x, y, z) == hist' = Append(hist, <<op, x, y, z>> \o FlatViewOf(base', stack') \o FlatSide(side'))
LogStage == hist' = Append(hist, <<10, 0, 0, 0>> \o FlatViewOf(base', stack') \o FlatContent(staged'.c) \o FlatSide(side'))

MCNext ==
  /\ nops < MaxOps
  /\ \/ \E a \in Addr :
          \/ \E v \in BalV : SetBalance(a, v) /\ Log(1, a, v, 0)
          \/ \E e \in EnV : SetEnergy(a, e[1], e[2]) /\ Log(2, a, e[1], e[2])
          \/ \E x \in MsV : SetMaster(a, x) /\ Log(3, a, x, 0)
          \/ \E c \in CdV : SetCode(a, c) /\ Log(4, a, c, 0)
          \/ \E k \in Key, v \in StV : SetStorage(a, k, v) /\ Log(5, a, k, v)
          \/ Delete(a) /\ Log(7, a, 0, 0)
     \/ \E a \in SuiV : Suicide(a) /\ Log(16, a, IF Exists(base, stack, a) THEN 1 ELSE 0, 0)
     \/ \E id \in LogV : (AddLog(1, id) /\ Log(13, id, 0, 0)) \/ (AddLog(2, id) /\ Log(14, id, 0, 0))
     \/ \E g \in RefV : AddRefund(g) /\ Log(15, g, 0, 0)
     \/ (Len(stack) < MaxDepth /\ NewCheckpoint /\ Log(8, Len(stack), 0, 0))
     \/ \E r \in 1..(Len(stack) - 1) : RevertTo(r) /\ Log(9, r, 0, 0)
     \/ Stage /\ LogStage
     \/ (Len(committed) < MaxCommits /\ Commit /\ Log(11, Len(committed'), 0, 0))
     \/ \E i \in 1..Len(committed) : Reopen(i) /\ Log(12, i, 0, 0)
MCSpec == MCInit /\ [][MCNext]_mcvars

\* export: one line per distinct abstract state (BFS) / per finished behaviour (simulation)
ExportAll == Export = "all" => PrintT("BEH" \o ToJson(hist))
ExportLeaf == (Export = "leaf" /\ nops = MaxOps) => PrintT("BEH" \o ToJson(hist))
=============================================================================
