---------------------------- MODULE StateJournal ----------------------------
(* C06 - world state = Merkle commitment of its logical content.            DESIGN section 5 (C06), Appendix A "State".

   Two descriptions of the same object and the claim that they agree:

   (1) the MECHANISM, transcribed from state/state.go + stackedmap/stackedmap.go:
         base   - the logical content of the root the State was opened from (what the account/storage tries answer)
         stack  - a stack of write-sets (stackedmap levels).  Keys are  address (account meta data incl. code hash),
                  <<address, barrier, key>> (storage)  and  address (storage barrier).  Delete bumps the barrier,
                  so that every earlier storage write and the base storage of that address become unreachable.
         Read   - stackedmap.Get: the top-most level holding the key, else the source (base; a storage key with a
                  non-zero barrier never reaches the base).
         StageOp- state.go:Stage: journal replay, the empty-account rule, the explicit storage root.
   (2) the MEANING: a plain map (address -> account with a storage map and the flag "storage root is explicit"),
         a stack of full copies of it for checkpoints (`shadow`), and Canon(view) = the canonical content.

   Invariants: ReadsArePlainMap (every getter over (1) = lookup in (2)), RevertRestores (by construction of shadow +
   ReadsArePlainMap after RevertTo), StageIsCanonical (StageOp over (1) = Canon of (2)).
   The state root is modelled as the canonical content itself (hashes are injective oracles, DESIGN 3.4): two
   histories have the same root iff they have the same canonical content.  The conformance harness checks exactly
   that on the real code: equal content <=> equal real root hash.

   runtime/statedb keeps a second journal in its own stacked map, pushed and popped together with the State's
   checkpoints (Snapshot / RevertToSnapshot): the logs (events, transfers), the refund counter and the suicide flags.
   `side` carries its mechanism (stk: a stack of levels, read as statedb.GetLogs / GetRefund / HasSuicided read it) and
   its meaning (sh: one plain copy per checkpoint); invariant SideIsPlainJournal.

   Values: every scalar is a small integer; 0 is "absent/zero/nil" everywhere (balance 0, no master, no code, storage
   value nil).  What the integers stand for (which bytes) is the harness's business.                               *)
EXTENDS Integers, Sequences, FiniteSets, TLC

CONSTANTS Addr, Key,        \* universes used by Next only (the operators below work on any address / key)
          BalV, EnV, MsV, CdV, StV,   \* value alphabets used by Next only; EnV is a set of <<energy, blockTime>>
          LogV, RefV, SuiV,           \* statedb side journal: log ids, refund increments, addresses Suicide is tried on
          MaxOps, MaxDepth, MaxCommits,
          StageFolds                  \* FALSE.  TRUE only in the teeth config: Stage writes into the tries the State reads from

VARIABLES base,       \* canonical content of the opened root: partial function addr -> Account
          stack,      \* Seq of levels [acc, st, bar]  (partial functions)
          shadow,     \* Seq of views (plain maps, one full copy per checkpoint); Len(shadow) = Len(stack)
          staged,     \* NoStage or StagedAs(content computed by the last Stage of this State)
          committed,  \* Seq of contents committed to the database (one entry per Commit, i.e. per version)
          side,       \* statedb's own journal: [stk: Seq of [log, ref, sui], sh: Seq of [logs, refund, sui]]
          nops
svars == <<base, stack, shadow, staged, committed, side, nops>>

\* ------------------------------------------------------------------------------------------------ partial functions
EmptyFn == <<>>
Lookup(f, x, d) == IF x \in DOMAIN f THEN f[x] ELSE d
Upd(f, x, v) == [y \in (DOMAIN f) \cup {x} |-> IF y = x THEN v ELSE f[y]]
NonZero(f) == [x \in {y \in DOMAIN f : f[y] # 0} |-> f[x]]
MaxOf(S) == CHOOSE x \in S : \A y \in S : y <= x

\* ------------------------------------------------------------------------------------------------ accounts
\* meta = what is journaled under the address key (Account struct without the storage root)
EmptyMeta == [bal |-> 0, en |-> 0, bt |-> 0, ms |-> 0, cd |-> 0]
\* account.go:IsEmpty - block time is NOT part of it
IsEmpty(m) == m.bal = 0 /\ m.en = 0 /\ m.ms = 0 /\ m.cd = 0
\* logical account: meta + storage map + "storage root is explicit" (sw)
AbsentAcc == [bal |-> 0, en |-> 0, bt |-> 0, ms |-> 0, cd |-> 0, sw |-> FALSE, st |-> EmptyFn]
MetaOf(acc) == [bal |-> acc.bal, en |-> acc.en, bt |-> acc.bt, ms |-> acc.ms, cd |-> acc.cd]
MkAcc(m, sw, st) == [bal |-> m.bal, en |-> m.en, bt |-> m.bt, ms |-> m.ms, cd |-> m.cd, sw |-> sw, st |-> st]
AccOf(content, a) == Lookup(content, a, AbsentAcc)

\* account.go:CalcEnergy.  Amounts are scaled so that growth = dt * balance / GrowthDiv  (EnergyGrowthRate 5e9 / 1e18)
GrowthDiv == 200000000
CalcEnergy(m, t, stop) ==
  IF m.bt = 0 \/ m.bal = 0 \/ t <= m.bt THEN m.en
  ELSE IF m.bt < stop THEN m.en + (((IF t <= stop THEN t - m.bt ELSE stop - m.bt) * m.bal) \div GrowthDiv)
  ELSE m.en

\* ------------------------------------------------------------------------------------------------ mechanism: reads
EmptyLevel == [acc |-> EmptyFn, st |-> EmptyFn, bar |-> EmptyFn]

TopAcc(stk, a) == LET S == {i \in 1..Len(stk) : a \in DOMAIN stk[i].acc} IN IF S = {} THEN 0 ELSE MaxOf(S)
TopBar(stk, a) == LET S == {i \in 1..Len(stk) : a \in DOMAIN stk[i].bar} IN IF S = {} THEN 0 ELSE MaxOf(S)
TopSt(stk, sk) == LET S == {i \in 1..Len(stk) : sk \in DOMAIN stk[i].st} IN IF S = {} THEN 0 ELSE MaxOf(S)

\* state.go:getAccount -> stackedmap.Get(addr) -> cacheGetter -> loadAccount
ReadMeta(b, stk, a) == LET i == TopAcc(stk, a) IN IF i = 0 THEN MetaOf(AccOf(b, a)) ELSE stk[i].acc[a]
\* state.go:getStorageBarrier, 0 initially
Barrier(stk, a) == LET i == TopBar(stk, a) IN IF i = 0 THEN 0 ELSE stk[i].bar[a]
\* state.go:GetRawStorage: key carries the current barrier; cacheGetter answers nil for barrier # 0
ReadSt(b, stk, a, k) ==
  LET br == Barrier(stk, a)
      i == TopSt(stk, <<a, br, k>>)
  IN IF i # 0 THEN stk[i].st[<<a, br, k>>]
     ELSE IF br # 0 THEN 0 ELSE Lookup(AccOf(b, a).st, k, 0)
Exists(b, stk, a) == ~IsEmpty(ReadMeta(b, stk, a))

\* ------------------------------------------------------------------------------------------------ mechanism: writes
PutAcc(stk, a, m) == [stk EXCEPT ![Len(stk)].acc = Upd(@, a, m)]
PutSt(stk, a, k, v) == [stk EXCEPT ![Len(stk)].st = Upd(@, <<a, Barrier(stk, a), k>>, v)]
PutBar(stk, a, n) == [stk EXCEPT ![Len(stk)].bar = Upd(@, a, n)]

\* ------------------------------------------------------------------------------------------------ mechanism: Stage
\* addresses with any journal entry
Changed(stk) == UNION {(DOMAIN stk[i].acc) \cup (DOMAIN stk[i].bar) \cup {sk[1] : sk \in DOMAIN stk[i].st} : i \in 1..Len(stk)}
\* storage keys written at the current barrier (entries collected after the last barrier entry of the journal)
Written(stk, a) == LET br == Barrier(stk, a) IN
                   {sk[3] : sk \in {x \in UNION {DOMAIN stk[i].st : i \in 1..Len(stk)} : x[1] = a /\ x[2] = br}}
StagedAcc(b, stk, a) ==
  LET m == ReadMeta(b, stk, a)
      br == Barrier(stk, a)
      W == Written(stk, a)
      bst == IF br = 0 THEN AccOf(b, a).st ELSE EmptyFn        \* a barrier discards the base storage trie ...
      bsw == IF br = 0 THEN AccOf(b, a).sw ELSE FALSE          \* ... and the storage root (Delete journals emptyAccount())
  IN IF IsEmpty(m) THEN AbsentAcc                               \* saveAccount deletes the leaf; storage is skipped
     ELSE IF W # {}
          THEN MkAcc(m, TRUE, NonZero([k \in (DOMAIN bst) \cup W |-> IF k \in W THEN ReadSt(b, stk, a, k) ELSE bst[k]]))
          ELSE MkAcc(m, bsw, bst)
StageOp(b, stk) ==
  LET all == (DOMAIN b) \cup Changed(stk)
      live == {a \in all : StagedAcc(b, stk, a) # AbsentAcc}
  IN [a \in live |-> StagedAcc(b, stk, a)]

\* ------------------------------------------------------------------------------------------------ meaning: plain map
Top(s) == s[Len(s)]
VGet(view, a) == Lookup(view, a, AbsentAcc)
VSet(view, a, acc) == Upd(view, a, acc)
Canon(view) == LET live == {a \in DOMAIN view : ~IsEmpty(MetaOf(view[a]))}
               IN [a \in live |-> [view[a] EXCEPT !.st = NonZero(@)]]
SetTop(s, v) == [s EXCEPT ![Len(s)] = v]

\* the storage of one address as the State reads it (what BuildStorageTrie must commit to while the barrier is 0)
StorageOf(b, stk, a) ==
  LET ks == (DOMAIN AccOf(b, a).st) \cup {sk[3] : sk \in {x \in UNION {DOMAIN stk[i].st : i \in 1..Len(stk)} : x[1] = a}}
  IN NonZero([k \in ks |-> ReadSt(b, stk, a, k)])

\* ------------------------------------------------------------------------------------------------ statedb side journal
\* level: log = entries <<kind, id>> put in this level (kind 1 event, 2 transfer), ref = refund value put in this
\* level (-1: none), sui = addresses flagged in this level
EmptySideLevel == [log |-> <<>>, ref |-> -1, sui |-> {}]
EmptySideView == [logs |-> <<>>, refund |-> 0, sui |-> {}]
SideInit == [stk |-> <<EmptySideLevel>>, sh |-> <<EmptySideView>>]
RECURSIVE CatLogs(_, _)
CatLogs(stk, n) == IF n = 0 THEN <<>> ELSE CatLogs(stk, n - 1) \o stk[n].log
\* statedb.GetLogs: Journal() over all levels;  GetRefund / HasSuicided: stackedmap.Get = top-most level holding the key
SideLogs(stk) == CatLogs(stk, Len(stk))
SideRefund(stk) == LET S == {i \in 1..Len(stk) : stk[i].ref >= 0} IN IF S = {} THEN 0 ELSE stk[MaxOf(S)].ref
SideSui(stk) == UNION {stk[i].sui : i \in 1..Len(stk)}
SidePush(sd) == [stk |-> Append(sd.stk, EmptySideLevel), sh |-> Append(sd.sh, sd.sh[Len(sd.sh)])]
SideCut(sd, r) == LET n == IF r < Len(sd.stk) THEN r ELSE Len(sd.stk) IN [stk |-> SubSeq(sd.stk, 1, n), sh |-> SubSeq(sd.sh, 1, n)]

NoStage == [ok |-> FALSE, c |-> EmptyFn]
StagedAs(c) == [ok |-> TRUE, c |-> c]

\* ------------------------------------------------------------------------------------------------ actions
Init == /\ base = EmptyFn /\ stack = <<EmptyLevel>> /\ shadow = <<EmptyFn>>
        /\ staged = NoStage /\ committed = <<>> /\ side = SideInit /\ nops = 0

Tick == nops' = nops + 1
Keep == UNCHANGED <<base, staged, committed>>
KeepSide == UNCHANGED side

MetaWrite(a, m) ==                       \* getAccountCopy + updateAccount
  /\ stack' = PutAcc(stack, a, m)
  /\ shadow' = SetTop(shadow, VSet(Top(shadow), a, LET o == VGet(Top(shadow), a) IN MkAcc(m, o.sw, o.st)))
  /\ Keep /\ KeepSide /\ Tick

SetBalance(a, v) == MetaWrite(a, [ReadMeta(base, stack, a) EXCEPT !.bal = v])
SetEnergy(a, v, t) == MetaWrite(a, [ReadMeta(base, stack, a) EXCEPT !.en = v, !.bt = t])
SetMaster(a, x) == MetaWrite(a, [ReadMeta(base, stack, a) EXCEPT !.ms = x])
SetCode(a, c) == MetaWrite(a, [ReadMeta(base, stack, a) EXCEPT !.cd = c])

SetRawStorage(a, k, v) ==
  /\ stack' = PutSt(stack, a, k, v)
  /\ shadow' = SetTop(shadow, VSet(Top(shadow), a, LET o == VGet(Top(shadow), a) IN [o EXCEPT !.st = Upd(@, k, v), !.sw = TRUE]))
  /\ Keep /\ KeepSide /\ Tick
SetStorage(a, k, v) == SetRawStorage(a, k, v)     \* zero -> nil, otherwise rlp(trimmed): an encoding matter
EncodeStorage(a, k, v) == SetRawStorage(a, k, v)  \* state.go:EncodeStorage = SetRawStorage(enc())

DeleteCore(a) ==
  /\ stack' = PutBar(PutAcc(stack, a, EmptyMeta), a, Barrier(stack, a) + 1)
  /\ shadow' = SetTop(shadow, VSet(Top(shadow), a, AbsentAcc))
  /\ Keep /\ Tick
Delete(a) == DeleteCore(a) /\ KeepSide

\* ---- runtime/statedb
\* Suicide: only an existing account is deleted and flagged; the result says which
Suicide(a) ==
  IF Exists(base, stack, a)
  THEN /\ DeleteCore(a)
       /\ side' = [stk |-> [side.stk EXCEPT ![Len(side.stk)].sui = @ \cup {a}],
                    sh |-> [side.sh EXCEPT ![Len(side.sh)].sui = @ \cup {a}]]
  ELSE UNCHANGED <<base, stack, shadow, staged, committed, side>> /\ Tick
\* AddLog (kind 1) / AddTransfer (kind 2): appended to the journal of the top level
AddLog(kind, id) ==
  /\ side' = [stk |-> [side.stk EXCEPT ![Len(side.stk)].log = Append(@, <<kind, id>>)],
               sh |-> [side.sh EXCEPT ![Len(side.sh)].logs = Append(@, <<kind, id>>)]]
  /\ UNCHANGED <<base, stack, shadow, staged, committed>> /\ Tick
\* AddRefund: read the current total through the stack, put the new total into the top level
AddRefund(g) ==
  /\ side' = [stk |-> [side.stk EXCEPT ![Len(side.stk)].ref = SideRefund(side.stk) + g],
               sh |-> [side.sh EXCEPT ![Len(side.sh)].refund = @ + g]]
  /\ UNCHANGED <<base, stack, shadow, staged, committed>> /\ Tick

\* returns the revision = depth before the push
NewCheckpoint ==
  /\ stack' = Append(stack, EmptyLevel)
  /\ shadow' = Append(shadow, Top(shadow))
  /\ side' = SidePush(side)
  /\ Keep /\ Tick
\* stackedmap.PopTo: pop while depth > r  (r >= current depth: nothing happens)
RevertTo(r) ==
  /\ r >= 1
  /\ stack' = SubSeq(stack, 1, IF r < Len(stack) THEN r ELSE Len(stack))
  /\ shadow' = SubSeq(shadow, 1, IF r < Len(shadow) THEN r ELSE Len(shadow))
  /\ side' = SideCut(side, r)
  /\ Keep /\ Tick

\* Stage does not change the State - at ANY point of a history, also in the middle of nested checkpoints: it works on
\* copies of the account trie and of the storage tries the State reads from; the result is the root (= content).
\* FoldedBase is what the State would read from afterwards if Stage applied the journalled storage writes to the opened
\* storage tries themselves (no copy): a later RevertTo could not undo them.  Used by the teeth config only.
FoldedBase(b, stk) ==
  [a \in DOMAIN b |->
     IF b[a].sw /\ Barrier(stk, a) = 0 /\ Written(stk, a) # {} /\ ~IsEmpty(ReadMeta(b, stk, a))
     THEN [b[a] EXCEPT !.st = NonZero([k \in (DOMAIN b[a].st) \cup Written(stk, a) |->
                                       IF k \in Written(stk, a) THEN ReadSt(b, stk, a, k) ELSE b[a].st[k]])]
     ELSE b[a]]
Stage ==
  /\ staged' = StagedAs(StageOp(base, stack))
  /\ base' = IF StageFolds THEN FoldedBase(base, stack) ELSE base
  /\ UNCHANGED <<stack, shadow, committed, side>> /\ Tick
Commit ==
  /\ staged.ok
  /\ committed' = Append(committed, staged.c)
  /\ UNCHANGED <<base, stack, shadow, staged, side>> /\ Tick
\* a new State (and a new statedb) from a committed root
Reopen(i) ==
  /\ i \in 1..Len(committed)
  /\ base' = committed[i]
  /\ stack' = <<EmptyLevel>> /\ shadow' = <<committed[i]>>
  /\ staged' = NoStage /\ side' = SideInit
  /\ UNCHANGED committed /\ Tick

Next ==
  /\ nops < MaxOps
  /\ \/ \E a \in Addr :
          \/ \E v \in BalV : SetBalance(a, v)
          \/ \E e \in EnV : SetEnergy(a, e[1], e[2])
          \/ \E x \in MsV : SetMaster(a, x)
          \/ \E c \in CdV : SetCode(a, c)
          \/ \E k \in Key, v \in StV : SetStorage(a, k, v)
          \/ Delete(a)
     \/ \E a \in SuiV : Suicide(a)
     \/ \E id \in LogV : AddLog(1, id) \/ AddLog(2, id)
     \/ \E g \in RefV : AddRefund(g)
     \/ (Len(stack) < MaxDepth /\ NewCheckpoint)
     \/ \E r \in 1..(Len(stack) - 1) : RevertTo(r)
     \/ Stage
     \/ (Len(committed) < MaxCommits /\ Commit)
     \/ \E i \in 1..Len(committed) : Reopen(i)
Spec == Init /\ [][Next]_svars

\* ------------------------------------------------------------------------------------------------ invariants
\* the universe an invariant has to talk about: everything ever mentioned
UnivA == (DOMAIN base) \cup Changed(stack) \cup UNION {DOMAIN shadow[i] : i \in 1..Len(shadow)}
UnivK(a) == (DOMAIN AccOf(base, a).st) \cup {sk[3] : sk \in {x \in UNION {DOMAIN stack[i].st : i \in 1..Len(stack)} : x[1] = a}}
            \cup UNION {DOMAIN VGet(shadow[i], a).st : i \in 1..Len(shadow)}

\* every getter over the mechanism answers what the plain map answers - at every checkpoint depth: the levels
\* 1..i of the stack read exactly as the i-th snapshot, hence RevertTo(i) restores precisely the earlier contents
ReadsArePlainMap ==
  /\ Len(shadow) = Len(stack)
  /\ \A i \in 1..Len(stack) : \A a \in UnivA :
        LET stk == SubSeq(stack, 1, i)
            acc == VGet(shadow[i], a)
        IN /\ ReadMeta(base, stk, a) = MetaOf(acc)
           /\ \A k \in UnivK(a) : ReadSt(base, stk, a, k) = Lookup(acc.st, k, 0)
\* logs, refund and suicide flags read through statedb's stack = the plain copy, at every checkpoint depth
SideIsPlainJournal ==
  /\ Len(side.stk) = Len(stack) /\ Len(side.sh) = Len(stack)
  /\ \A i \in 1..Len(side.stk) :
        LET stk == SubSeq(side.stk, 1, i) IN
        /\ SideLogs(stk) = side.sh[i].logs
        /\ SideRefund(stk) = side.sh[i].refund
        /\ SideSui(stk) = side.sh[i].sui
\* the staged root is the canonical content of the plain map, whatever the history
StageIsCanonical == StageOp(base, stack) = Canon(Top(shadow))
\* canonical contents are canonical: no empty account, no zero slot, no storage without explicit root
WellFormed(c) == \A a \in DOMAIN c : /\ ~IsEmpty(MetaOf(c[a]))
                                     /\ \A k \in DOMAIN c[a].st : c[a].st[k] # 0
                                     /\ (~c[a].sw => c[a].st = EmptyFn)
ContentsWellFormed == /\ WellFormed(base) /\ WellFormed(StageOp(base, stack))
                      /\ \A i \in 1..Len(committed) : WellFormed(committed[i])
\* a re-opened state is the committed content (base = shadow bottom when nothing was written)
ReopenReadsBack == (stack = <<EmptyLevel>>) => (StageOp(base, stack) = base /\ shadow = <<base>>)
=============================================================================
