SPECIFICATION MCSpec
CONSTANTS
  Nib = {0, 1}
  KeyLen = 2
  Names = {"a"}
  Main = {"a"}
  Opts <- OptsOne
  MaxMaj = 3
  MaxMin = 1
  MaxForks = 0
  MaxTouch = 1
  InitConts <- InitA1
  InFlightReads = FALSE
  AlignedOnly = FALSE
INVARIANT RetainedReadable
INVARIANT PrunedNeverDifferent
INVARIANT NoWrongNode
INVARIANT RootCanonical
INVARIANT PrunedUnreadable
INVARIANT LayoutPersistent
INVARIANT Resumable
CHECK_DEADLOCK FALSE
