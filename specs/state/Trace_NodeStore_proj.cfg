SPECIFICATION TSpec
CONSTANTS
  Nib <- TraceNib
  KeyLen <- TraceKeyLen
  Names <- TraceNames
  Main <- TraceMain
  Opts <- NoOpts
  InitConts <- EmptyConts
  MaxMaj = 1000000
  MaxMin = 1000
  MaxForks = 1000
  MaxTouch = 0
  AlignedOnly = FALSE
  InFlightReads = FALSE
  CheckProjection = TRUE
INVARIANT RetainedReadable
INVARIANT PrunedNeverDifferent
INVARIANT NoWrongNode
INVARIANT RootCanonical
INVARIANT PrunedUnreadable
INVARIANT LayoutPersistent
CONSTRAINT Progress
POSTCONDITION TraceAccepted
CHECK_DEADLOCK FALSE
