------------------------- MODULE Trace_StateJournal -------------------------
(* Trace specification for C06 (implementation -> model).  The trace is recorded by harness/cmd/statejournal from a
   REAL state.State over a real muxdb.  Logged: the operations with their arguments (facts), after every operation
   the results of the real getters (GetBalance, GetEnergy at time 0 and at a queried time, GetMaster, GetCode,
   GetCodeHash, Exists, GetRawStorage, GetStorage) for some addresses - after RevertTo and Reopen for the whole
   touched universe -, the revision returned by NewCheckpoint, and at every Stage an interned name of the real root
   hash.  Everything is recomputed here from StateJournal.tla and must be equal:
     - every logged getter result = Read over the specification's stack of write-sets / base content;
     - `roots` (root name -> canonical content) must stay a bijection over ALL Stage events of the file, across runs
       and databases:  equal content <=> equal real root;
     - Commit/Reopen: the committed root's content is what the re-opened State reads.
   All design invariants of StateJournal.tla are evaluated after every event.
   The trace determines the behaviour completely, so the position `l` identifies the state (VIEW).               *)
EXTENDS StateJournal, Json, TraceLib

Trace == LoadTrace("trace.ndjson")

VARIABLES l, roots
tvars == <<base, stack, shadow, staged, committed, nops, l, roots>>
TraceView == l

Ev == Trace[l]
IsEvent(n) == l <= Len(Trace) /\ Trace[l].e = n
Step == l' = l + 1

\* one logged account read against the (primed) specification state
ReadOK(b, stk, r) ==
  LET m == ReadMeta(b, stk, r.a) IN
  /\ r.bal = m.bal
  /\ r.en = m.en
  /\ r.eg = CalcEnergy(m, r.qt, r.qs)
  /\ r.ms = m.ms
  /\ r.cd = m.cd /\ r.ch = m.cd
  /\ r.ex = ~IsEmpty(m)
  /\ \A j \in DOMAIN r.st : LET v == ReadSt(b, stk, r.a, r.st[j][1]) IN r.st[j][2] = v /\ r.st[j][3] = v
ReadsOK == \A i \in DOMAIN Ev.rd : ReadOK(base', stack', Ev.rd[i])

\* equal content <=> equal root
RootOK(r, c) == IF r \in DOMAIN roots THEN roots[r] = c ELSE \A q \in DOMAIN roots : roots[q] # c

TraceInit == Init /\ l = 1 /\ roots = EmptyFn /\ HWMInit

\* a fresh database and an empty State; the root registry is global
TReset ==
  /\ IsEvent("Reset")
  /\ base' = EmptyFn /\ stack' = <<EmptyLevel>> /\ shadow' = <<EmptyFn>>
  /\ staged' = NoStage /\ committed' = <<>> /\ nops' = 0
  /\ UNCHANGED roots /\ Step

Plain(A) == A /\ ReadsOK /\ UNCHANGED roots /\ Step

TSetBalance == IsEvent("SetBalance") /\ Plain(SetBalance(Ev.a, Ev.v))
TSetEnergy == IsEvent("SetEnergy") /\ Plain(SetEnergy(Ev.a, Ev.v, Ev.t))
TSetMaster == IsEvent("SetMaster") /\ Plain(SetMaster(Ev.a, Ev.v))
TSetCode == IsEvent("SetCode") /\ Plain(SetCode(Ev.a, Ev.v))
TSetStorage == IsEvent("SetStorage") /\ Plain(SetStorage(Ev.a, Ev.k, Ev.v))
TSetRawStorage == IsEvent("SetRawStorage") /\ Plain(SetRawStorage(Ev.a, Ev.k, Ev.v))
TDelete == IsEvent("Delete") /\ Plain(Delete(Ev.a))
\* runtime/statedb.Suicide: deletes only an existing account and says whether it did
TSuicide ==
  /\ IsEvent("Suicide")
  /\ Ev.res = Exists(base, stack, Ev.a)
  /\ Plain(IF Ev.res THEN Delete(Ev.a) ELSE (UNCHANGED <<base, stack, shadow, staged, committed>> /\ Tick))
TNewCheckpoint == IsEvent("NewCheckpoint") /\ Ev.rev = Len(stack) /\ Plain(NewCheckpoint)
TRevertTo == IsEvent("RevertTo") /\ Plain(RevertTo(Ev.rev))
TStage ==
  /\ IsEvent("Stage")
  /\ Stage
  /\ RootOK(Ev.root, staged'.c)
  /\ roots' = Upd(roots, Ev.root, staged'.c)
  /\ ReadsOK /\ Step
TCommit ==
  /\ IsEvent("Commit")
  /\ Commit
  /\ Ev.ci = Len(committed')
  /\ Ev.root \in DOMAIN roots /\ roots[Ev.root] = staged.c
  /\ UNCHANGED roots /\ Step
TReopen ==
  /\ IsEvent("Reopen")
  /\ Ev.ci \in 1..Len(committed)
  /\ Ev.root \in DOMAIN roots /\ roots[Ev.root] = committed[Ev.ci]
  /\ Plain(Reopen(Ev.ci))

TraceNext == \/ TReset \/ TSetBalance \/ TSetEnergy \/ TSetMaster \/ TSetCode \/ TSetStorage \/ TSetRawStorage
             \/ TDelete \/ TSuicide \/ TNewCheckpoint \/ TRevertTo \/ TStage \/ TCommit \/ TReopen
TraceSpec == TraceInit /\ [][TraceNext]_tvars

Progress == HWM(l)
TraceAccepted == Accepted(Len(Trace))

\* the registry is a bijection (by construction of RootOK; stated for the record)
RootsBijective == \A p, q \in DOMAIN roots : (roots[p] = roots[q]) => p = q
=============================================================================
