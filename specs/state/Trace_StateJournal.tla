------------------------- MODULE Trace_StateJournal -------------------------
(* Trace specification for C06 (implementation -> model).  The trace is recorded by harness/cmd/statejournal from a
   REAL state.State over a real muxdb.  Logged: the operations with their arguments (facts), after every operation
   the results of the real getters (GetBalance, GetEnergy at time 0 and at a queried time, GetMaster, GetCode,
   GetCodeHash, Exists, GetRawStorage, GetStorage) for some addresses - after RevertTo and Reopen for the whole
   touched universe -, the revision returned by NewCheckpoint, and at every Stage an interned name of the real root
   hash.  Everything is recomputed here from StateJournal.tla and must be equal:
     - every logged getter result = Read over the specification's stack of write-sets / base content;
     - `roots` (root name -> canonical content) must stay a bijection over ALL Stage events of the file, across runs
       and databases:  equal content <=> equal real root;
     - Commit/Reopen: the committed root's content is what the re-opened State reads.
   All design invariants of StateJournal.tla are evaluated after every event.
   The trace determines the behaviour completely, so the position `l` identifies the state (VIEW).               *)
EXTENDS StateJournal, Json, TraceLib

Trace == LoadTrace("trace.ndjson")

VARIABLES l, roots,
          sroots,     \* storage-root name -> storage map: registry of BuildStorageTrie results (bijection as for roots)
          parked, cur \* other live State objects of the same database (sibling states): id -> its variables; id of the current one
tvars == <<base, stack, shadow, staged, committed, side, nops, l, roots, sroots, parked, cur>>
TraceView == l

Ev == Trace[l]
IsEvent(n) == l <= Len(Trace) /\ Trace[l].e = n
Step == l' = l + 1

\* one logged account read against the (primed) specification state
ReadOK(b, stk, r) ==
  LET m == ReadMeta(b, stk, r.a) IN
  /\ r.bal = m.bal
  /\ r.en = m.en
  /\ r.eg = CalcEnergy(m, r.qt, r.qs)
  /\ r.ms = m.ms
  /\ r.cd = m.cd /\ r.ch = m.cd
  /\ r.ex = ~IsEmpty(m)
  \* per key: GetRawStorage, GetStorage (or statedb.GetState), DecodeStorage
  /\ \A j \in DOMAIN r.st : LET v == ReadSt(b, stk, r.a, r.st[j][1]) IN \A n \in 2..Len(r.st[j]) : r.st[j][n] = v
  \* through runtime/statedb: Exist, Empty, GetCodeSize (as the id of the code of that size), HasSuicided
  /\ (Has(r, "sx") => (r.sx = ~IsEmpty(m) /\ r.sm = IsEmpty(m) /\ r.cs = m.cd))
ReadsOK == /\ \A i \in DOMAIN Ev.rd : ReadOK(base', stack', Ev.rd[i])
           /\ \A i \in DOMAIN Ev.rd : Has(Ev.rd[i], "hs") => (Ev.rd[i].hs = (Ev.rd[i].a \in SideSui(side'.stk)))
           \* statedb side journal: GetLogs (events, transfers in order) and GetRefund
           /\ Has(Ev, "sj") =>
                LET lg == SideLogs(side'.stk) IN
                /\ Ev.sj.ev = SelectSeq(lg, LAMBDA x : x[1] = 1)
                /\ Ev.sj.tr = SelectSeq(lg, LAMBDA x : x[1] = 2)
                /\ Ev.sj.rf = SideRefund(side'.stk)

\* equal content <=> equal root
RootOK(r, c) == IF r \in DOMAIN roots THEN roots[r] = c ELSE \A q \in DOMAIN roots : roots[q] # c

TraceInit == Init /\ l = 1 /\ roots = EmptyFn /\ sroots = EmptyFn /\ parked = EmptyFn /\ cur = 1 /\ HWMInit

\* a fresh database and an empty State; the root registry is global
TReset ==
  /\ IsEvent("Reset")
  /\ base' = EmptyFn /\ stack' = <<EmptyLevel>> /\ shadow' = <<EmptyFn>>
  /\ staged' = NoStage /\ committed' = <<>> /\ side' = SideInit /\ nops' = 0
  /\ parked' = EmptyFn /\ cur' = 1
  /\ UNCHANGED <<roots, sroots>> /\ Step

Plain(A) == A /\ ReadsOK /\ UNCHANGED <<roots, sroots, parked, cur>> /\ Step

TSetBalance == IsEvent("SetBalance") /\ Plain(SetBalance(Ev.a, Ev.v))
TSetEnergy == IsEvent("SetEnergy") /\ Plain(SetEnergy(Ev.a, Ev.v, Ev.t))
TSetMaster == IsEvent("SetMaster") /\ Plain(SetMaster(Ev.a, Ev.v))
TSetCode == IsEvent("SetCode") /\ Plain(SetCode(Ev.a, Ev.v))
TSetStorage == IsEvent("SetStorage") /\ Plain(SetStorage(Ev.a, Ev.k, Ev.v))
TSetRawStorage == IsEvent("SetRawStorage") /\ Plain(SetRawStorage(Ev.a, Ev.k, Ev.v))
TEncodeStorage == IsEvent("EncodeStorage") /\ Plain(EncodeStorage(Ev.a, Ev.k, Ev.v))
TDelete == IsEvent("Delete") /\ Plain(Delete(Ev.a))
\* runtime/statedb.Suicide: deletes only an existing account and says whether it did
TSuicide == IsEvent("Suicide") /\ Ev.res = Exists(base, stack, Ev.a) /\ Plain(Suicide(Ev.a))
TAddLog == IsEvent("AddLog") /\ Plain(AddLog(1, Ev.id))
TAddTransfer == IsEvent("AddTransfer") /\ Plain(AddLog(2, Ev.id))
TAddRefund == IsEvent("AddRefund") /\ Plain(AddRefund(Ev.v))
\* State.BuildStorageTrie(a).Hash(), called while the address was not deleted in this State: commits to the storage the
\* State reads for a;  equal storage <=> equal storage root over the whole trace
TBuildStorageTrie ==
  /\ IsEvent("BuildStorageTrie")
  /\ Barrier(stack, Ev.a) = 0
  /\ LET c == StorageOf(base, stack, Ev.a) IN
       /\ IF Ev.sroot \in DOMAIN sroots THEN sroots[Ev.sroot] = c ELSE \A q \in DOMAIN sroots : sroots[q] # c
       /\ sroots' = Upd(sroots, Ev.sroot, c)
  /\ UNCHANGED <<base, stack, shadow, staged, committed, side, roots, parked, cur>> /\ Tick /\ Step
TNewCheckpoint == IsEvent("NewCheckpoint") /\ Ev.rev = Len(stack) /\ Plain(NewCheckpoint)
TRevertTo == IsEvent("RevertTo") /\ Plain(RevertTo(Ev.rev))
TStage ==
  /\ IsEvent("Stage")
  /\ Stage
  /\ RootOK(Ev.root, staged'.c)
  /\ roots' = Upd(roots, Ev.root, staged'.c)
  /\ ReadsOK /\ UNCHANGED <<sroots, parked, cur>> /\ Step
TCommit ==
  /\ IsEvent("Commit")
  /\ Commit
  /\ Ev.ci = Len(committed')
  /\ Ev.root \in DOMAIN roots /\ roots[Ev.root] = staged.c
  /\ UNCHANGED <<roots, sroots, parked, cur>> /\ Step
TReopen ==
  /\ IsEvent("Reopen")
  /\ Ev.ci \in 1..Len(committed)
  /\ Ev.root \in DOMAIN roots /\ roots[Ev.root] = committed[Ev.ci]
  /\ Plain(Reopen(Ev.ci))       \* state.New or State.Checkout
\* a second live State object on the same database: the current one is parked under its id, a new State opened from
\* a committed root becomes the current one
Snapshot == [base |-> base, stack |-> stack, shadow |-> shadow, staged |-> staged, side |-> side]
TFork ==
  /\ IsEvent("Fork")
  /\ Ev.id # cur /\ Ev.id \notin DOMAIN parked
  /\ Ev.ci \in 1..Len(committed)
  /\ Ev.root \in DOMAIN roots /\ roots[Ev.root] = committed[Ev.ci]
  /\ parked' = Upd(parked, cur, Snapshot) /\ cur' = Ev.id
  /\ Reopen(Ev.ci) /\ ReadsOK
  /\ UNCHANGED <<roots, sroots>> /\ Step
\* continue with another live State object (both keep their journals; they share only the database = `committed`)
TSwitch ==
  /\ IsEvent("Switch")
  /\ Ev.to \in DOMAIN parked
  /\ LET p == parked[Ev.to] IN
       /\ base' = p.base /\ stack' = p.stack /\ shadow' = p.shadow /\ staged' = p.staged /\ side' = p.side
  /\ parked' = [x \in ((DOMAIN parked) \ {Ev.to}) \cup {cur} |-> IF x = cur THEN Snapshot ELSE parked[x]]
  /\ cur' = Ev.to
  /\ UNCHANGED committed /\ Tick
  /\ ReadsOK /\ UNCHANGED <<roots, sroots>> /\ Step

TraceNext == \/ TReset \/ TSetBalance \/ TSetEnergy \/ TSetMaster \/ TSetCode \/ TSetStorage \/ TSetRawStorage
             \/ TEncodeStorage \/ TDelete \/ TSuicide \/ TAddLog \/ TAddTransfer \/ TAddRefund \/ TBuildStorageTrie
             \/ TNewCheckpoint \/ TRevertTo \/ TStage \/ TCommit \/ TReopen \/ TFork \/ TSwitch
TraceSpec == TraceInit /\ [][TraceNext]_tvars

Progress == HWM(l)
TraceAccepted == Accepted(Len(Trace))

\* the registry is a bijection (by construction of RootOK; stated for the record)
RootsBijective == \A p, q \in DOMAIN roots : (roots[p] = roots[q]) => p = q
=============================================================================
