SPECIFICATION TraceSpec
CONSTANTS
  Addr = {}
  Key = {}
  BalV = {}
  EnV = {}
  MsV = {}
  CdV = {}
  StV = {}
  LogV = {}
  RefV = {}
  SuiV = {}
  StageFolds = FALSE
  MaxOps = 0
  MaxDepth = 0
  MaxCommits = 0
VIEW TraceView
INVARIANT ReadsArePlainMap
INVARIANT StageIsCanonical
INVARIANT SideIsPlainJournal
INVARIANT ContentsWellFormed
CONSTRAINT Progress
POSTCONDITION TraceAccepted
CHECK_DEADLOCK FALSE
