SPECIFICATION MCSpec
CONSTANTS
  NA = 2
  NK = 2
  Addr = {1}
  Key = {1, 2}
  BalV = {0, 1}
  EnV <- MCEnV
  MsV = {}
  CdV = {}
  StV = {0, 1}
  MaxOps = 6
  MaxDepth = 3
  MaxCommits = 2
  Export = "none"
VIEW View
INVARIANT ReadsArePlainMap
INVARIANT StageIsCanonical
INVARIANT ContentsWellFormed
INVARIANT ReopenReadsBack
CHECK_DEADLOCK FALSE
