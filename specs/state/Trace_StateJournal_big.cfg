SPECIFICATION TraceSpec
CONSTANTS
  Addr = {}
  Key = {}
  BalV = {}
  EnV = {}
  MsV = {}
  CdV = {}
  StV = {}
  MaxOps = 0
  MaxDepth = 0
  MaxCommits = 0
VIEW TraceView
CONSTRAINT Progress
POSTCONDITION TraceAccepted
CHECK_DEADLOCK FALSE
