SPECIFICATION MCSpec
CONSTANTS
  NA = 2
  NK = 2
  Addr = {1}
  Key = {1, 2}
  BalV = {0, 1}
  EnV <- MCEnV
  MsV = {}
  CdV = {}
  StV = {0, 1}
  LogV = {}
  RefV = {}
  SuiV = {}
  StageFolds = FALSE
  MaxOps = 5
  MaxDepth = 3
  MaxCommits = 1
  Export = "all"
VIEW View
INVARIANT ReadsArePlainMap
INVARIANT StageIsCanonical
INVARIANT SideIsPlainJournal
INVARIANT ContentsWellFormed
INVARIANT ReopenReadsBack
INVARIANT ExportAll
CHECK_DEADLOCK FALSE
