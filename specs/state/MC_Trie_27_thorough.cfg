SPECIFICATION Spec
CONSTANTS
  Nib = {0, 1, 2}
  Keys <- Keys27
  Vals = {1, 2}
  MaxOps = 5
  CountOps = TRUE
  Export = FALSE
INVARIANT Canonical
INVARIANT WellFormed
CHECK_DEADLOCK FALSE
