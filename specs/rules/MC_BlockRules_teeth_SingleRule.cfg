SPECIFICATION Spec
CONSTANTS
  ParentGasLimits = {2000000}
  SlotDistances = {1}
  Factored = TRUE
  RichTx = FALSE
  PairBodies = FALSE
INVARIANTS Teeth_SingleRule
CHECK_DEADLOCK FALSE
