SPECIFICATION Spec
CONSTANTS
  ParentGasLimits = {1000000, 1000700, 2000000, 40000000}
  SlotDistances = {1, 3}
  RichTx = TRUE
  PairBodies = TRUE
INVARIANTS CatalogueOK
CHECK_DEADLOCK FALSE
