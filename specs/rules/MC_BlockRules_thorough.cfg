SPECIFICATION Spec
CONSTANTS
  ParentGasLimits = {1000000, 1000700, 2000000, 40000000}
  SlotDistances = {1, 3}
  Factored = FALSE
  RichTx = FALSE
  PairBodies = FALSE
INVARIANTS CatalogueOK
CHECK_DEADLOCK FALSE
