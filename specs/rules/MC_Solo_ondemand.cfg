SPECIFICATION Spec
CONSTANTS
  T = 2
  MaxTime = 9
  MaxBlocks = 5
  OnDemand = TRUE
INVARIANT Increasing
INVARIANT OnDemandRules
INVARIANT IntervalAccepted
INVARIANT BurstAccepted
CHECK_DEADLOCK FALSE
