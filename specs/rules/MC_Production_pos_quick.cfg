SPECIFICATION Spec
CONSTANTS
  Masters = {1, 2, 3, 4}
  Nodes = {1}
  Rules <- AllRules
  MbpCap = 101
  Cfg <- CfgPoS3
  MaxLive = 2
  MaxNum = 4
  MaxNow = 2
  MaxTx = 1
  MaxBal = 2
  Kinds <- KindsStakeQ
  Ords <- OrdId4
  AliasSafe = FALSE
  Window = TRUE
INVARIANT TypeOK
INVARIANT CacheCoherent
INVARIANT CacheExact
INVARIANT PackAccepted
INVARIANT Deterministic
CHECK_DEADLOCK FALSE
