SPECIFICATION Spec
CONSTANTS
  ParentGasLimits = {2000000}
  SlotDistances = {1}
  Factored = TRUE
  RichTx = FALSE
  PairBodies = FALSE
INVARIANTS Teeth_BenefAlways
CHECK_DEADLOCK FALSE
