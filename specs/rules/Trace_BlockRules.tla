---- MODULE Trace_BlockRules ----
(* Trace specification for C02 (binding model -> implementation, judged line by line).
   cmd/blockrules logs one Case event per REAL block it fed to consensus.Process (fresh instance, warm instance) and to
   the node-level import: the abstract projection of the block (see BlockRules.tla) plus what the code did.
   A line is consumed iff
     Coherent   (catalogue mutants only) the specification agrees with the driver about what the mutant is: the named
                rule is among the violated ones for a departure, no rule is violated for a declared non-violation;
                otherwise the catalogue and its implementation drifted apart (infrastructure, exit 2);
     Conforms   the observed verdicts are the ones the rules prescribe for the projection: reject everywhere when a rule
                is violated - with the store digest and best block of the node unchanged -, accept everywhere when none
                is; never a panic; consensus.Process never writes;
     ClassOK    violated rules all of the consensus-error kind => IsCritical everywhere (the class decides whether the
                node treats the sender as faulty or retries: a change is a violation).
   BaseFee events (replay of the TLC-exported base-fee cases, see MC_BlockRulesBaseFee) are judged by recomputing the
   recurrence from the logged parent fields.
   On a line that is not consumed the reason is printed as  NONCONFORMING <line> <reason> .                         *)
EXTENDS BlockRules, TraceLib

Trace == LoadTrace("trace.ndjson")
VARIABLE l
Ev == Trace[l]

Verdicts(c) == {c.fresh, c.warm, c.node}

\* v = Violated(c), computed once per line
ExpV(c, v) == IF v # {} THEN "reject" ELSE IF c.unknown THEN "any" ELSE "accept"
ExpC(c, v) == IF v # {} /\ v \subseteq CriticalRules THEN "critical" ELSE "any"

\* (the rebuilt base block is the real packer's block: the driver's expectation says nothing about it, the rules judge it)
Coherent(c, v) ==
  (c.kind = "mutant" /\ c.var # "rebuilt_identity") =>
     /\ <<c.rule, c.var>> \in CatKeys
     /\ c.goexpect = ExpV(c, v)
     /\ c.goexpect = "reject" => c.rule \in v
     \* single-rule-ness of the REAL mutant: nothing is broken but the named rule and what the catalogue declares
     \* unavoidable for this departure - otherwise a dropped check would hide behind the second broken rule
     /\ c.goexpect = "reject" => v \subseteq ({c.rule} \cup CatOf(<<c.rule, c.var>>)[4])

ConformsKnown(c, v) ==
  LET exp == ExpV(c, v)
  IN /\ "panic" \notin Verdicts(c)
     /\ c.store # "process-wrote"
     /\ exp = "reject" => /\ Verdicts(c) = {"reject"}
                          /\ c.store = "same" /\ c.best = "same"
     /\ exp = "accept" => Verdicts(c) = {"accept"}
     /\ exp = "any"    => /\ Cardinality(Verdicts(c)) = 1
                          /\ c.node = "reject" => (c.store = "same" /\ c.best = "same")

ClassOK(c, v) ==
  (ExpV(c, v) = "reject" /\ ExpC(c, v) = "critical" /\ Verdicts(c) = {"reject"})
     => {c.cfresh, c.cwarm, c.cnode} = {"critical"}

\* a block whose parent the node does not have: never imported, nothing written
ConformsOrphan(c) == c.node = "reject" /\ c.store = "same" /\ c.best = "same"

Reason(c) ==
  IF ~c.pknown THEN <<"violation", c.rule, c.var, "reject", {}>>
  ELSE LET v == Violated(c)
       IN IF ~Coherent(c, v) THEN <<"drift:catalogue", c.rule, c.var, ExpV(c, v), v>>
          ELSE IF ~ConformsKnown(c, v) THEN <<"violation", c.rule, c.var, ExpV(c, v), v>>
          ELSE IF ~ClassOK(c, v) THEN <<"violation:class", c.rule, c.var, ExpC(c, v), v>>
          ELSE <<"ok">>

CaseOK(c) ==
  IF ~c.pknown THEN ConformsOrphan(c)
  ELSE LET v == Violated(c) IN Coherent(c, v) /\ ConformsKnown(c, v) /\ ClassOK(c, v)

\* BaseFee events: replay of the cases exported by MC_BlockRulesBaseFee on the real header validation. The child is
\* valid in everything but (possibly) its base fee; the formula is recomputed here from the parent's three fields.
BaseFeeExp(e)  == IF Eq(e.cand, ChildBaseFee(e.par.gl, e.par.gu, e.par.bf)) THEN "accept" ELSE "reject"
BaseFeeOK(e)   == e.fresh = BaseFeeExp(e) /\ e.warm = BaseFeeExp(e) /\ e.store = "same"
BaseFeeClass(e) == BaseFeeExp(e) = "reject" => {e.cfresh, e.cwarm} = {"critical"}
BaseFeeReason(e) == IF ~BaseFeeOK(e) THEN <<"violation", e.rule, e.var, BaseFeeExp(e), {"base_fee_value"}>>
                    ELSE <<"violation:class", e.rule, e.var, "critical", {"base_fee_value"}>>

Init == HWMInit /\ l = 1

Next == /\ l <= Len(Trace)
        /\ CASE Ev.e = "Case"  -> \/ CaseOK(Ev)
                                  \/ (~CaseOK(Ev) /\ PrintT(<<"NONCONFORMING", l, Reason(Ev)>>) /\ FALSE)
             [] Ev.e = "BaseFee" -> \/ (BaseFeeOK(Ev) /\ BaseFeeClass(Ev))
                                    \/ (~(BaseFeeOK(Ev) /\ BaseFeeClass(Ev)) /\ PrintT(<<"NONCONFORMING", l, BaseFeeReason(Ev)>>) /\ FALSE)
             [] Ev.e = "End"   -> Ev.count = l - 1 /\ l = Len(Trace)       \* no line was lost
             [] Ev.e = "Panic" -> PrintT(<<"NONCONFORMING", l, <<"violation", "decode", Ev.where, "no-panic", {}>> >>) /\ FALSE
             [] OTHER -> FALSE
        /\ l' = l + 1
Spec == Init /\ [][Next]_l

Progress == HWM(l)
TraceAccepted == Accepted(Len(Trace)) /\ Trace[Len(Trace)].e = "End"
====
