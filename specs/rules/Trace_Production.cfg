SPECIFICATION TSpec
CONSTANTS
  Masters <- TraceMasters
  Nodes <- TraceNodes
  Rules <- AllRules
  MbpCap = 101
  Cfg <- TraceCfg0
  NoBlock <- TNoBlock
  Genesis <- TGenesis
INVARIANT CacheCoherent
INVARIANT CacheExact
INVARIANT Deterministic
INVARIANT ObsDeterministic
CONSTRAINT Progress
POSTCONDITION TraceAccepted
CHECK_DEADLOCK FALSE
