---- MODULE Trace_Solo ----
(* Trace specification for harness/cmd/production -mode solo: every block the real solo.Core / solo.Solo stored, with the
   verdict of a cold consensus instance.  Recomputed: the verdict (Solo!Valid), the block time (on demand: max(now,
   parent time + T) with "now" read by the harness just before the call, so one second of slack; interval: a multiple of
   T after its parent), no empty on-demand block, the packer is the solo account.                                    *)
EXTENDS Solo, Json, TraceLib
Trace == LoadTrace("trace.ndjson")
VARIABLES l, mode
tvars == <<now, chain, l, mode>>
ev == Trace[l]
IsEvent(name) == l <= Len(Trace) /\ Trace[l].e = name
TInit == l = 1 /\ HWMInit /\ now = 0 /\ chain = <<>> /\ mode = ""
TReset == IsEvent("Reset") /\ chain' = <<>> /\ mode' = ev.mode /\ now' = 0 /\ l' = l + 1
TBlock ==
  /\ IsEvent("SoloBlock")
  /\ ev.pt = Last /\ ev.num = Len(chain) + 1 /\ ev.owner
  /\ ev.ok = Valid(ev.t, ev.pt)
  /\ ev.ok \/ ev.why = "interval-not-rounded"
  /\ IF mode = "ondemand"
     THEN ev.ntx >= 1 /\ ev.t \in {Max(ev.asked, ev.pt + T), Max(ev.asked + 1, ev.pt + T)}
     ELSE ev.t % T = 0 /\ ev.t > ev.pt /\ ev.ok
  /\ chain' = Append(chain, [t |-> ev.t, ntx |-> ev.ntx])
  /\ UNCHANGED <<now, mode>> /\ l' = l + 1
TAdd == IsEvent("SoloAdd") /\ UNCHANGED <<now, chain, mode>> /\ l' = l + 1
TNext == TReset \/ TBlock \/ TAdd
TSpec == TInit /\ [][TNext]_tvars
Progress == HWM(l)
TraceAccepted == Accepted(Len(Trace))
====
