---- MODULE Trace_Production ----
(* Trace specification for C01 (implementation -> model).  The events come from harness/cmd/production: the REAL packer
   made every block (Pack), REAL consensus instances / full nodes with different histories validated it (Validate),
   instances were replaced by fresh ones / nodes restarted (Restart).  The actions of Production.tla are re-used as they
   are; the trace binds their parameters and supplies the facts the model leaves open: the slot order of the addresses
   for the children of every block (cord), header hashes, gas.  Recomputed here and required to equal what was logged:

     Pack      the slot the packer took, the score it claimed, the beneficiary, the block number, and the abstract world
               after the block (authority list with activity flags, endorsor balances, endorsement, max proposers,
               leader group with weights / online flags / beneficiaries, queue) - the REAL proposer machinery state
               read back from the block's committed state
     Validate  the verdict: the model, whose cache follows poaCacher / posCacher.Handle, says what a validator with
               that history must answer; CacheCoherent is checked through this observable consequence (a warm
               validator answers what a cold one answers) and directly on the model's cache after every event

   Deterministic (the model's results) and ObsDeterministic (the logged verdict, state root, receipts root and gas of
   every validation of a block equal the header's, whatever the history) are invariants over the result maps.
   Several runs are concatenated; Reset starts the next one.                                                         *)
EXTENDS Production, Json, TraceLib

Trace == LoadTrace("trace.ndjson")

VARIABLES l,      \* next line
          hdr,    \* block -> [sroot, rroot, gas] of the header
          obs     \* block -> set of logged validation results [n, ok, sroot, rroot, gas]
tvars == <<blocks, vcache, res, l, hdr, obs>>

TNoBlock == "none"
TGenesis == "b0"
TraceNodes == {"w", "warm", "cold", "sib", "conf", "twice", "alt0", "alt1", "late", "n0", "n1"}
TraceMasters == 1..6
ev == Trace[l]
IsEvent(name) == l <= Len(Trace) /\ Trace[l].e = name

CfgOf(c) == [auth |-> c.auth, bal |-> [m \in Masters |-> IF m <= Len(c.bal) THEN c.bal[m] ELSE 0], thr |-> c.thr, mbp |-> c.mbp,
             hay |-> c.hay, tp |-> c.tp, E |-> c.E, per |-> c.Per, queue |-> c.queue, cord |-> c.cord, n |-> c.n]
TraceCfg0 == CfgOf(Trace[1].cfg)

\* ---- the abstract world of a block as the harness reads it back from the real state -----------------------------
ProjLgo(W) == IF Len(W.lgo) = 0 THEN <<>>
              ELSE [k \in 1..Len(W.lgo) |-> [v |-> W.lgo[k], w |-> W.val[W.lgo[k]].w, on |-> W.val[W.lgo[k]].on,
                                             ben |-> W.val[W.lgo[k]].ben]]
Matches(W, post) ==
  /\ W.auth = post.auth
  /\ W.mbp = post.mbp
  /\ (~W.hay => W.thr = post.thr /\ \A m \in 1..Len(post.bal) : W.bal[m] = post.bal[m])
  /\ ProjLgo(W) = post.lgo
  /\ W.queue = post.queue

TInit == /\ l = 1 /\ HWMInit
         /\ blocks = EmptyF /\ vcache = [n \in Nodes |-> EmptyF] /\ res = EmptyF /\ hdr = EmptyF /\ obs = EmptyF

TReset ==
  /\ IsEvent("Reset")
  /\ blocks' = (Genesis :> [par |-> NoBlock, num |-> 0, p |-> 0, slot |-> 0, score |-> 0, benef |-> 0, txs |-> <<>>,
                            w |-> InitWorld(CfgOf(ev.cfg)), cord |-> ev.cfg.cord])
  /\ vcache' = [n \in Nodes |-> EmptyF]
  /\ res' = (Genesis :> {}) /\ obs' = (Genesis :> {}) /\ hdr' = (Genesis :> [sroot |-> "", rroot |-> "", gas |-> 0])
  /\ l' = l + 1

TPack ==
  /\ IsEvent("Pack")
  /\ Pack(ev.b, ev.par, ev.p, ev.now, ev.txs, ev.cord, ev.opt)
  /\ \A i \in DOMAIN ev.deps : ev.deps[i].adopted = DepAdoptable(ev.deps[i].found, ev.deps[i].reverted)     \* R-DEP
  /\ LET B == blocks'[ev.b] IN
     /\ B.slot = ev.slot /\ B.score = ev.score /\ B.benef = ev.benef /\ B.num = ev.num
     /\ Matches(B.w, ev.post)
  /\ hdr' = (ev.b :> [sroot |-> ev.hroot, rroot |-> ev.hrroot, gas |-> ev.hgas]) @@ hdr
  /\ obs' = (ev.b :> {}) @@ obs
  /\ l' = l + 1

TValidate ==
  /\ IsEvent("Validate")
  /\ ev.b \in DOMAIN blocks /\ blocks[ev.b].par \in DOMAIN blocks
  /\ VResult(ev.n, ev.b).ok = ev.ok                       \* the verdict the model derives for this history
  /\ Validate(ev.n, ev.b)
  /\ obs' = [obs EXCEPT ![ev.b] = @ \cup {[n |-> ev.n, ok |-> ev.ok, sroot |-> ev.sroot, rroot |-> ev.rroot, gas |-> ev.gas]}]
  /\ UNCHANGED hdr
  /\ l' = l + 1

TRestart ==
  /\ IsEvent("Restart")
  /\ vcache' = [vcache EXCEPT ![ev.n] = EmptyF]
  /\ UNCHANGED <<blocks, res, hdr, obs>>
  /\ l' = l + 1

TPrune ==
  /\ IsEvent("Prune")
  /\ Prune(ev.b)
  /\ hdr' = Without(hdr, ev.b) /\ obs' = Without(obs, ev.b)
  /\ l' = l + 1

\* state-level comparison of the two implementations of "the first max-block-proposers endorsed candidates":
\* validator side scheduler.Candidates.Pick, packer side authority.Candidates(check, GetMaxBlockProposers(params, true));
\* ev.endorsed are the endorsement flags of the listed candidates in contract order, vlist / plist 1-based positions
TPick ==
  /\ IsEvent("Pick")
  /\ SatFlags(ev.endorsed, ev.mbp) = ev.vlist
  /\ SatFlags(ev.endorsed, ev.mbp) = ev.plist
  /\ UNCHANGED <<blocks, vcache, res, hdr, obs>>
  /\ l' = l + 1

TNext == TReset \/ TPack \/ TValidate \/ TRestart \/ TPrune \/ TPick
TSpec == TInit /\ [][TNext]_tvars

\* every logged validation of a block: accepted, with the header's state root, receipts root and gas used
ObsDeterministic ==
  \A b \in DOMAIN obs : \A o \in obs[b] :
    o.ok /\ o.sroot = hdr[b].sroot /\ o.rroot = hdr[b].rroot /\ o.gas = hdr[b].gas

Progress == HWM(l)
TraceAccepted == Accepted(Len(Trace))
====
