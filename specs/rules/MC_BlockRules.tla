---- MODULE MC_BlockRules ----
(* TLC checks the catalogue ITSELF on an abstract block universe (C02, design level):
     BaseValid        every base block of the universe violates no rule
     MutantBreaksRule every single-rule departure violates the rule it is named after
     OnlyDeclared     ... and nothing but that rule and the ones the catalogue declares unavoidable (`also`)
     NonViolationOK   every declared non-violation (beneficiary under PoA / PoS without staker-set beneficiary, COM flip
                      after FINALITY, gas limit exactly at the bound / at the floor, block-ref = this block, last valid
                      block of the expiry window, ...) keeps the block valid
     ClassDeclared    a departure whose violated rules are all of the consensus-error kind is expected IsCritical
   State = (base block, catalogue entry, mutant).  Init enumerates the universe, Next applies every applicable entry.
   The universe is the product of: monotone fork profiles (nothing .. VIP191 .. VIP214 .. FINALITY .. GALACTICA first
   block / later .. PoS with and without a staker-set beneficiary), parent gas limits around the floor / small / mainnet
   size, parent gas usage below / at / above the base-fee target, parent base fee at and above the floor, slot distance,
   gas-limit move (same / up / down by the full step), COM bit, bodies of 0..2 abstract valid transactions and a
   block-filling body.                                                                                              *)
EXTENDS BlockRules, TLC, Json

CONSTANTS ParentGasLimits, SlotDistances, PairBodies, RichTx, Factored

AllCfg == [vip191 : BOOLEAN, blocklist : BOOLEAN, vip214 : BOOLEAN, finality : BOOLEAN, galactica : BOOLEAN, gfirst : BOOLEAN, pos : BOOLEAN, nprop : {3}]
Cfgs == {g \in AllCfg : /\ (g.blocklist => g.vip191) /\ (g.vip214 => g.blocklist) /\ (g.finality => g.vip214) /\ (g.galactica => g.finality)
                        /\ (g.gfirst => g.galactica) /\ (g.pos => (g.galactica /\ ~g.gfirst))}

Num == FromInt(5)       \* (replay_beyond_scan_window needs a chain of > 105 blocks: see InitHigh)

ParOf(g, gl, gu, bf) ==
  LET hasbf == g.galactica /\ ~g.gfirst
  IN [ts |-> FromInt(1000), gl |-> gl, gu |-> gu, score |-> FromInt(7), bfp |-> hasbf, bf |-> IF hasbf THEN bf ELSE Zero]

\* parent gas usage: nothing, a little, exactly the base-fee target, nearly full
Usages(gl) == {Zero, FromInt(21000), DivInt(MulInt(gl, 75), 100), Monus(gl, FromInt(200))}

Pars(g) ==
  UNION {{ParOf(g, FromInt(gl), gu, bf) :
            gu \in Usages(FromInt(gl)),
            bf \in IF g.galactica /\ ~g.gfirst THEN {InitialBaseFee, MulInt(InitialBaseFee, 3)} ELSE {Zero}} :
         gl \in ParentGasLimits}

VTx(g) == {[tagok |-> TRUE, ref |-> r, exp |-> e, typ |-> ty, feat |-> f, unused |-> 0, origin |-> TRUE, dupb |-> FALSE,
            onchain |-> FALSE, blocked |-> FALSE, dep |-> d, start |-> TRUE, gas |-> 21000] :
             r \in IF RichTx THEN {Monus(Num, FromInt(2)), Num} ELSE {Monus(Num, FromInt(2))},
             e \in IF RichTx THEN {FromInt(2), FromInt(30)} ELSE {FromInt(2)},
             ty \in {"legacy"} \cup (IF g.galactica THEN {"dyn"} ELSE {}),
             f \in {0} \cup (IF g.vip191 THEN {1} ELSE {}), d \in {"none", "ok"}}

Plain(g) == [tagok |-> TRUE, ref |-> Monus(Num, One), exp |-> FromInt(10), typ |-> "legacy", feat |-> 0, unused |-> 0,
             origin |-> TRUE, dupb |-> FALSE, onchain |-> FALSE, blocked |-> FALSE, dep |-> "none", start |-> TRUE, gas |-> 21000]

Bodies(g, par) ==
  {<< >>} \cup {<<t>> : t \in VTx(g)}
  \cup (IF PairBodies THEN {<<Plain(g), t>> : t \in VTx(g)} ELSE {<<Plain(g), Plain(g)>>})
  \* a body that fills the block up to 200 gas below the limit (only where the numbers fit a TLC integer)
  \cup (IF LT(par.gl, FromInt(3000000)) /\ GT(par.gl, FromInt(1500000)) THEN {<<Plain(g), [Plain(g) EXCEPT !.gas = ToInt(par.gl) - 21200]>>} ELSE {})

BaseCase(g, par, dk, gld, com, sbset, txs) ==
  LET step == DivInt(par.gl, BoundDivisor)
      gl == CASE gld = "same" -> Norm(par.gl)
              [] gld = "up" -> Add(par.gl, step)
              [] gld = "down" -> Max(Monus(par.gl, step), MinGasLimit)
      score == Add(par.score, FromInt(IF dk = 1 THEN 3 ELSE 2))
  IN [cfg |-> g, num |-> Num, par |-> par, txs |-> txs, unknown |-> FALSE,
      h |-> [ts |-> Add(par.ts, FromInt(Interval * dk)), gl |-> gl, gu |-> SumGas(txs, 1), score |-> score,
             feat |-> IF g.vip191 THEN 1 ELSE 0, siglen |-> IF g.vip214 THEN SigLenVRF ELSE SigLenPlain,
             alphalen |-> IF g.vip214 THEN 32 ELSE 0, com |-> com, bfp |-> g.galactica,
             bf |-> IF g.galactica THEN NextBaseFee(par, g) ELSE Zero,
             future |-> FALSE, sigrec |-> TRUE, auth |-> TRUE, owns |-> TRUE, escore |-> score,
             sb |-> IF g.pos /\ sbset THEN "match" ELSE "none", alphaok |-> g.vip214, vrf |-> g.vip214, txsroot |-> TRUE,
             execknown |-> TRUE, guok |-> TRUE, rcptok |-> TRUE, stateok |-> TRUE]]

\* the gas limit moves only under the small bodies (the block-filling body needs the limit it was sized for)
BodiesFor(g, par, gld) == {b \in Bodies(g, par) : gld = "same" \/ Len(b) < 2}

VARIABLES base, key, mutant
vars == <<base, key, mutant>>

\* Init enumerates the universe (quantifiers instead of one big set: TLC would normalise that set first).
\* Full product:
InitFull == \E g \in Cfgs : \E par \in Pars(g) : \E gld \in {"same", "up", "down"} : \E dk \in SlotDistances :
          \E com \in IF g.finality THEN BOOLEAN ELSE {FALSE} : \E sbset \in IF g.pos THEN BOOLEAN ELSE {FALSE} :
            \E txs \in BodiesFor(g, par, gld) :
               /\ base = BaseCase(g, par, dk, gld, com, sbset, txs)
               /\ key = <<"none", "none">> /\ mutant = base
\* Factored (quick tier): dimensions that no rule couples are not multiplied -
\*   parent gas usage / base fee vary only where the base-fee recurrence reads them (GALACTICA, not its first block, PoA);
\*   header dimensions run over three bodies (empty, two plain transfers, block-filling);
\*   all bodies run over one parent per fork profile.
FewBodies(g, par, gld) == {b \in BodiesFor(g, par, gld) : Len(b) = 0 \/ (Len(b) = 2 /\ b[1] = Plain(g) /\ b[2].typ = "legacy" /\ b[2].feat = 0 /\ b[2].dep = "none")}
ParsFor(g) == IF g.galactica /\ ~g.gfirst /\ ~g.pos THEN Pars(g)
              ELSE {ParOf(g, FromInt(gl), FromInt(21000), InitialBaseFee) : gl \in ParentGasLimits}
InitFactored ==
  \/ \E g \in Cfgs : \E par \in ParsFor(g) : \E gld \in {"same", "up", "down"} : \E dk \in SlotDistances :
       \E com \in IF g.finality THEN BOOLEAN ELSE {FALSE} : \E sbset \in IF g.pos THEN BOOLEAN ELSE {FALSE} :
         \E txs \in FewBodies(g, par, gld) :
            /\ base = BaseCase(g, par, dk, gld, com, sbset, txs)
            /\ key = <<"none", "none">> /\ mutant = base
  \/ \E g \in Cfgs : \E com \in IF g.finality THEN BOOLEAN ELSE {FALSE} : \E sbset \in IF g.pos THEN BOOLEAN ELSE {FALSE} :
       LET par == ParOf(g, FromInt(2000000), FromInt(21000), InitialBaseFee)
       IN \E txs \in Bodies(g, par) :
            /\ base = BaseCase(g, par, 1, "same", com, sbset, txs)
            /\ key = <<"none", "none">> /\ mutant = base
\* a block far from genesis (empty body), so that the departures that need > 105 ancestors apply
InitHigh == \E g \in Cfgs :
              /\ base = [BaseCase(g, ParOf(g, FromInt(2000000), FromInt(21000), InitialBaseFee), 1, "same", FALSE, FALSE, << >>)
                          EXCEPT !.num = FromInt(120)]
              /\ key = <<"none", "none">> /\ mutant = base
Init == (IF Factored THEN InitFactored ELSE InitFull) \/ InitHigh
Next == /\ key = <<"none", "none">>
        /\ \E k \in CatKeys : /\ Applicable(base, k) /\ key' = k /\ mutant' = Mutate(base, k)
        /\ UNCHANGED base
Spec == Init /\ [][Next]_vars

Entry == CatOf(key)
IsMut == key # <<"none", "none">>

\* one invariant, so that Violated(mutant) is computed once per state; the conjuncts are named for the report
CatalogueOK ==
  IF ~IsMut THEN Violated(base) = {}                                                   \* BaseValid
  ELSE LET v == Violated(mutant)
           want == CatExpect(Entry, mutant)
       IN /\ want = "reject" => key[1] \in v                                           \* MutantBreaksRule
          /\ want = "reject" => v \subseteq ({key[1]} \cup Entry[4])                    \* OnlyDeclared
          /\ want = "accept" => v = {}                                                 \* NonViolationOK
          /\ (IF v # {} THEN "reject" ELSE "accept") = want                            \* VerdictDeclared
          /\ (want = "reject" /\ key[1] \in CriticalRules /\ Entry[4] \subseteq CriticalRules)
                => v \subseteq CriticalRules                                            \* ClassDeclared
\* a rule of the catalogue without any departure would be a rule nobody tests
EveryRuleHasDeparture == \A r \in RuleNames \ {"not_future"} : \E e \in Catalogue : e[1] = r /\ e[3] \in {"reject", "benef", "blocklist"}
ASSUME EveryRuleHasDeparture
ASSUME \A e \in Catalogue : e[1] \in RuleNames \cup {"valid"} /\ e[4] \subseteq RuleNames

\* teeth: deliberately wrong claims, each must be refuted by TLC (checked by checks/C02.py with the _teeth configs)
Teeth_NoDeparture   == IsMut => Violated(mutant) = {}
Teeth_BenefAlways   == (IsMut /\ key[1] = "beneficiary") => Violated(mutant) # {}
Teeth_SingleRule    == (IsMut /\ CatExpect(Entry, mutant) = "reject") => Violated(mutant) = {key[1]}

\* the catalogue as data for the check (names, expectations) - printed once
ASSUME PrintT(<<"CATALOGUE", ToJson({[rule |-> e[1], var |-> e[2], expect |-> e[3]] : e \in Catalogue})>>)
====
