SPECIFICATION TSpec
CONSTANTS
  T = 2
  MaxTime = 0
  MaxBlocks = 0
  OnDemand = TRUE
INVARIANT Increasing
CONSTRAINT Progress
POSTCONDITION TraceAccepted
CHECK_DEADLOCK FALSE
