SPECIFICATION Spec
CONSTANTS
  N = 3
  T = 2
  MaxTime = 9
  MaxBlocks = 4
  Rules <- AllRules
INVARIANT NoStalePack
INVARIANT SlotTolerance
INVARIANT OnePerParentSlot
INVARIANT OwnSlotsOnly
CHECK_DEADLOCK FALSE
