---- MODULE Solo ----
(* The solo engine, cmd/thor/solo: one dev account packs every block with packer.Mock (no scheduling: "not in consensus").

     on demand  (OnDemandTxPool.AddLocal -> Core.Pack(tx, onDemand = TRUE)):  a transaction that is executable on the best
                block is packed at once; block time = max(now, best time + T); a block without transactions is dropped
     interval   (Solo.loop): every second, if now % T = 0, Core.Pack(pool executables): block time = now, empty blocks kept

   What a COLD consensus instance says about such a block follows from its times alone, the sole authority owning every
   slot:  accepted  <=>  time > parent time  /\  (time - parent time) % T = 0   (validateBlockHeader: "block interval not
   rounded").  Interval blocks always qualify (launch time is a multiple of T).  On-demand blocks qualify while requests
   come faster than T (each block T after its parent, running ahead of the clock) - the first block after a pause takes
   "now" and is in general NOT a block a validator accepts.                                                          *)
EXTENDS Integers, Sequences

CONSTANTS T, MaxTime, MaxBlocks, OnDemand

VARIABLES now, chain       \* chain: <<[t, ntx]>> after genesis (time 0)
vars == <<now, chain>>

Max(a, b) == IF a > b THEN a ELSE b
Last == IF chain = <<>> THEN 0 ELSE chain[Len(chain)].t
ParentTime(i) == IF i = 1 THEN 0 ELSE chain[i - 1].t
\* the verdict of consensus.validateBlockHeader + proposer validation for block i
Valid(t, pt) == t > pt /\ (t - pt) % T = 0

Init == now = 0 /\ chain = <<>>
Tick == now < MaxTime /\ now' = now + 1 /\
        IF ~OnDemand /\ (now + 1) % T = 0 /\ Len(chain) < MaxBlocks
        THEN \E n \in 0..1 : chain' = Append(chain, [t |-> now + 1, ntx |-> n])     \* the loop wakes in every second
        ELSE UNCHANGED chain
Add(executable) ==
  /\ OnDemand /\ Len(chain) < MaxBlocks
  /\ chain' = IF executable THEN Append(chain, [t |-> Max(now, Last + T), ntx |-> 1]) ELSE chain
  /\ UNCHANGED now
Next == Tick \/ \E x \in BOOLEAN : Add(x)
Spec == Init /\ [][Next]_vars

Increasing == \A i \in 1..Len(chain) : chain[i].t > ParentTime(i)
OnDemandRules == OnDemand => \A i \in 1..Len(chain) : chain[i].ntx >= 1 /\ chain[i].t - ParentTime(i) >= T
IntervalAccepted == ~OnDemand => \A i \in 1..Len(chain) : Valid(chain[i].t, ParentTime(i))
BurstAccepted == OnDemand => \A i \in 1..Len(chain) : chain[i].t - ParentTime(i) = T => Valid(chain[i].t, ParentTime(i))
\* expected to be REFUTED in on-demand mode: a block made after a pause
X_AlwaysAccepted == \A i \in 1..Len(chain) : Valid(chain[i].t, ParentTime(i))
====
