---- MODULE MC_ProductionSim ----
(* Behaviour export for the model -> implementation replay (DESIGN 3.3): the plain block tree of MC_Production
   (Window = FALSE, no Prune / Evict) with a history variable that labels every step.  Run with -simulate num=N -depth D+1:
   every behaviour that reaches D steps is printed as one JSON document
        [cfg |-> initial world and concretisation knobs, steps |-> <<pack | val | rst records>>]
   a pack step carries the part of the model's world after the block that does not depend on the slot order of the
   real chain (authority list, balances, endorsement, max proposers, leader group with weights and beneficiaries, queue);
   the driver compares it with the real state, the activity flags are left to Trace_Production (which knows the order). *)
EXTENDS MC_Production, Json

CONSTANTS D,     \* steps per behaviour
          Gal    \* GALACTICA of the concretisation: "0" | "never" | "3"
VARIABLE hist
svars == <<vars, hist>>

N == Cardinality(Masters)
ExpOf(W) == [auth |-> [i \in DOMAIN W.auth |-> W.auth[i].m], bal |-> [m \in 1..N |-> W.bal[m]], thr |-> W.thr, mbp |-> W.mbp,
             lgo |-> W.lgo, w |-> [k \in DOMAIN W.lgo |-> W.val[W.lgo[k]].w], ben |-> [k \in DOMAIN W.lgo |-> W.val[W.lgo[k]].ben],
             queue |-> W.queue]
CfgJson == [n |-> N, auth |-> Cfg.auth, bal |-> [m \in 1..N |-> Cfg.bal[m]], thr |-> Cfg.thr, mbp |-> Cfg.mbp, hay |-> Cfg.hay,
            tp |-> Cfg.tp, queue |-> Cfg.queue, E |-> Cfg.E, Per |-> Cfg.per, gal |-> Gal]

SInit == Init /\ hist = <<>>
\* TLC's simulator builds every successor before it picks one; the choices of a Pack are therefore drawn with
\* RandomElement (a handful of draws per step) instead of being enumerated
SPack ==
  /\ Cardinality(DOMAIN blocks) < MaxLive
  /\ \E i \in 1..4 :           \* bound variables (not LET definitions) so that every draw is made once
       \E par \in {RandomElement(DOMAIN blocks)}, p \in {RandomElement(Masters)}, now \in {RandomElement(1..MaxNow)},
          cord \in {RandomElement(Ords)} :
         \E txs \in {RandomElement(Bags(blocks[par].w))} :
            /\ blocks[par].num < MaxNum
            /\ Pack(NewId, par, p, now, txs, cord, p)
            /\ Sane(blocks'[NewId].w)
            /\ hist' = Append(hist, [a |-> "pack", b |-> NewId, par |-> par, p |-> p, now |-> now, txs |-> txs,
                                     exp |-> ExpOf(blocks'[NewId].w)])
SNext ==
  \/ SPack
  \/ \E n \in Nodes, b \in DOMAIN blocks : Validate(n, b) /\ hist' = Append(hist, [a |-> "val", n |-> n, b |-> b])
  \/ \E n \in Nodes : Restart(n) /\ hist' = Append(hist, [a |-> "rst", n |-> n])
SSpec == SInit /\ [][SNext]_svars

Export == Len(hist) = D => PrintT(<<"BEH", ToJson([cfg |-> CfgJson, steps |-> hist])>>)

KindsSimPoA == KindsMixed \cup {Tx("plain", 0, 0), Tx("reverted", 0, 0), Tx("abort", 0, 0), Tx("dep", 0, 1), Tx("dep", 0, 2), Tx("dep", 0, 4), Tx("revoke", 4, 0), Tx("out", 2, 0), Tx("in", 2, 0), Tx("mbp", 0, 4)}
KindsSimPoS == KindsStake \cup {Tx("plain", 0, 0), Tx("reverted", 0, 0), Tx("abort", 0, 0), Tx("dep", 0, 1), Tx("dep", 0, 2), Tx("dep", 0, 4), Tx("mbp", 0, 3), Tx("mbp", 0, 4), Tx("sinc", 2, 0), Tx("swd", 2, 0),
                                Tx("sadd", 3, 0), Tx("sexit", 3, 0)}
CfgSimPoA == [auth |-> <<1, 2, 3>>, bal |-> [m \in Masters |-> IF m = 3 THEN 0 ELSE IF m = 1 THEN 2 ELSE 1], thr |-> 1, mbp |-> 3,
              hay |-> FALSE, tp |-> 0, E |-> 2, per |-> 2, queue |-> <<>>, cord |-> <<1, 2, 3, 4>>]
CfgSimPoS == [auth |-> <<1, 2, 3>>, bal |-> [m \in Masters |-> 2], thr |-> 1, mbp |-> 3, hay |-> TRUE, tp |-> 2, E |-> 2, per |-> 2,
              queue |-> <<1, 2, 3>>, cord |-> <<1, 2, 3, 4>>]
CfgSimPoS0 == [auth |-> <<1, 2, 3>>, bal |-> [m \in Masters |-> 2], thr |-> 1, mbp |-> 3, hay |-> TRUE, tp |-> 0, E |-> 2, per |-> 2,
               queue |-> <<1, 2, 3>>, cord |-> <<1, 2, 3, 4>>]
====
