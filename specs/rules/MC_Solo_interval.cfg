SPECIFICATION Spec
CONSTANTS
  T = 2
  MaxTime = 9
  MaxBlocks = 5
  OnDemand = FALSE
INVARIANT Increasing
INVARIANT OnDemandRules
INVARIANT IntervalAccepted
INVARIANT BurstAccepted
CHECK_DEADLOCK FALSE
