---- MODULE BlockRules ----
(* C02 - the rule catalogue of block validation: which blocks the PROTOCOL admits on a given parent.

   A CASE is the abstract projection of one block together with what the environment fixes for it:
     c.cfg   fork flags AT THE BLOCK'S HEIGHT  vip191, vip214, finality, galactica, gfirst (first GALACTICA block),
             pos (proof of stake active), nprop (number of listed proposers)
     c.num   the block number                                                        (BigNat)
     c.par   parent header: ts, gl, gu, score (BigNat), bfp (has base fee), bf (BigNat)
     c.h     header: ts, gl, gu, score (BigNat); feat, siglen, alphalen (Int); com, bfp (BOOLEAN); bf (BigNat)
             and FACTS established outside the validator:
               future   timestamp later than now + interval            (clock)
               sigrec   a signer can be recovered from the signature   (secp256k1)
               auth     the signer is a listed proposer                (authority / staker state of the parent)
               owns     the signer owns the slot at c.h.ts             (scheduler on the parent)
               escore   total score expected for (signer, slot)        (scheduler), meaningful iff owns
               sb       "none" | "match" | "mismatch": staker-set beneficiary of the signer versus the header's
               alphaok  alpha = beta of the parent, or the parent's state root for the first VRF block
               vrf      the VRF proof verifies for (signer key, alpha)
               txsroot  declared txs root = merkle root of the body
               execknown, guok, rcptok, stateok   declared gas used / receipts root / state root = re-execution
     c.txs   sequence of transactions: tagok, ref, exp (BigNat), typ ("legacy" | "dyn"), feat, unused (filled unused
             reserved slots), origin (origin and delegator recoverable), dupb (same id earlier in this block), onchain
             (id already on the parent's chain), blocked (origin or delegator is on the blocklist), dep ("none" | "ok" | "missing" | "reverted" | "unknown"),
             start (execution can start), gas (gas used by its execution)

   Hashes, signatures and the VRF are injective oracles (DESIGN 1): the facts above are their verdicts.
   Every rule is ONE operator R_<name>(c); ValidHeader / ValidBody are their conjunctions. Rules are written so that
   they are INDEPENDENT (each can fail alone) - except sum_gas_le_limit, which follows from gas_used_le_limit and
   gas_used_matches and is listed because the property names it.
   "Not in the future" depends on the clock and is excluded from mutation.                                           *)
EXTENDS BigNat, FiniteSets

Interval          == 10
MinGasLimit       == FromInt(1000000)            \* thor.MinGasLimit
BoundDivisor      == 1024                        \* thor.GasLimitBoundDivisor
TargetPercent     == 75                          \* thor.GasTargetPercentage
ChangeDenominator == 8                           \* thor.BaseFeeChangeDenominator
InitialBaseFee    == Mul(FromInt(10000000), FromInt(1000000))   \* 10^13 wei
SigLenPlain       == 65
SigLenVRF         == 146                         \* 65 + 81 byte VRF proof

\* ---------------------------------------------------------------------------------------------------------------
\* base fee recurrence (VIP-251 / EIP-1559 with a floor), on the PARENT header only
\* division by a small constant: one pass, no quotient search (BigNat!DivInt always takes the general path)
DivI(a, n)     == IF n < Base THEN DivSmall(a, n) ELSE Div(a, FromInt(n))
\* The child base fee is a function of three fields of the PARENT header (VIP-251, EIP-1559 with a floor):
\*   target = gasLimit * 75 div 100            (multiply first: the target of 40_000_050 is 30_000_037, not 30_000_000)
\*   used = target : unchanged
\*   used > target : + max(1, baseFee * (used - target) div target div 8)
\*   used < target : - baseFee * (target - used) div target div 8, but never below the floor
TargetOf(gl) == DivI(MulSmall(gl, TargetPercent), 100)
ChildBaseFeeF(gl, gu, bf, floor) ==
  LET target == TargetOf(gl)
  IN IF Eq(gu, target) THEN Norm(bf)
     ELSE IF GT(gu, target)
          THEN Add(bf, Max(DivI(Div(Mul(bf, Sub(gu, target)), target), ChangeDenominator), One))
          ELSE Max(Monus(bf, DivI(Div(Mul(bf, Sub(target, gu)), target), ChangeDenominator)), floor)
ChildBaseFee(gl, gu, bf) == ChildBaseFeeF(gl, gu, bf, InitialBaseFee)
GasTarget(par) == TargetOf(par.gl)

NextBaseFee(par, cfg) == IF cfg.gfirst THEN InitialBaseFee ELSE ChildBaseFee(par.gl, par.gu, par.bf)

\* ---------------------------------------------------------------------------------------------------------------
\* header rules
R_ts_after_parent(c)    == GT(c.h.ts, c.par.ts)
R_interval_aligned(c)   == ModSmall(AbsDiff(c.h.ts, c.par.ts), Interval) = 0
R_not_future(c)         == ~c.h.future
R_gas_used_le_limit(c)  == LE(c.h.gu, c.h.gl)
R_score_gt_parent(c)    == GT(c.h.score, c.par.score)
R_gas_limit_step(c)     == LE(AbsDiff(c.h.gl, c.par.gl), DivI(c.par.gl, BoundDivisor))
R_gas_limit_floor(c)    == GE(c.h.gl, MinGasLimit)
R_sig_len(c)            == c.h.siglen = IF c.cfg.vip214 THEN SigLenVRF ELSE SigLenPlain
R_alpha(c)              == IF c.cfg.vip214 THEN c.h.alphaok ELSE c.h.alphalen = 0
R_vrf_proof(c)          == (c.cfg.vip214 /\ c.h.siglen = SigLenVRF) => c.h.vrf
R_com_gate(c)           == ~c.cfg.finality => ~c.h.com
R_base_fee_absent(c)    == ~c.cfg.galactica => ~c.h.bfp
R_base_fee_present(c)   == c.cfg.galactica => c.h.bfp
R_base_fee_value(c)     == (c.cfg.galactica /\ c.h.bfp /\ (c.cfg.gfirst \/ c.par.bfp)) => Eq(c.h.bf, NextBaseFee(c.par, c.cfg))
R_txs_features(c)       == c.h.feat = IF c.cfg.vip191 THEN 1 ELSE 0
R_proposer_authorised(c) == c.h.sigrec /\ c.h.auth
R_proposer_slot(c)      == c.h.auth => c.h.owns
R_score_expected(c)     == c.h.owns => Eq(c.h.score, c.h.escore)
R_beneficiary(c)        == c.h.sb # "mismatch"       \* free under PoA and under PoS without a staker-set beneficiary

\* body rules
R_txs_root(c)           == c.h.txsroot
AllTx(c, P(_))          == \A i \in 1..Len(c.txs) : P(c.txs[i])
R_tx_signature(c)       == AllTx(c, LAMBDA t : t.origin)
R_tx_chain_tag(c)       == AllTx(c, LAMBDA t : t.tagok)
R_tx_ref_not_future(c)  == AllTx(c, LAMBDA t : LE(t.ref, c.num))
R_tx_not_expired(c)     == AllTx(c, LAMBDA t : LE(c.num, Add(t.ref, t.exp)))
R_tx_type_gate(c)       == AllTx(c, LAMBDA t : ~c.cfg.galactica => t.typ = "legacy")
R_tx_feature_gate(c)    == AllTx(c, LAMBDA t : t.feat = 0 \/ (t.feat = 1 /\ c.cfg.vip191))
R_tx_reserved(c)        == AllTx(c, LAMBDA t : t.unused = 0)
R_tx_blocklist(c)       == AllTx(c, LAMBDA t : ~(c.cfg.blocklist /\ t.blocked))   \* origin / delegator on the blocklist, from the fork on
R_tx_dup_in_block(c)    == AllTx(c, LAMBDA t : ~t.dupb)
R_tx_dup_on_chain(c)    == AllTx(c, LAMBDA t : ~t.onchain)
R_tx_dep_present(c)     == AllTx(c, LAMBDA t : t.dep # "missing")
R_tx_dep_not_reverted(c) == AllTx(c, LAMBDA t : t.dep # "reverted")
R_tx_can_start(c)       == AllTx(c, LAMBDA t : t.start)
RECURSIVE SumGas(_, _)
SumGas(txs, i)          == IF i > Len(txs) THEN Zero ELSE Add(FromInt(txs[i].gas), SumGas(txs, i + 1))
R_sum_gas_le_limit(c)   == LE(SumGas(c.txs, 1), c.h.gl)
R_gas_used_matches(c)   == c.h.execknown => c.h.guok
R_receipts_root(c)      == c.h.execknown => c.h.rcptok
R_state_root(c)         == c.h.execknown => c.h.stateok

HeaderRules == {"ts_after_parent", "interval_aligned", "not_future", "gas_used_le_limit", "score_gt_parent", "gas_limit_step",
                "gas_limit_floor", "sig_len", "alpha", "vrf_proof", "com_gate", "base_fee_absent", "base_fee_present",
                "base_fee_value", "txs_features", "proposer_authorised", "proposer_slot", "score_expected", "beneficiary"}
BodyRules   == {"txs_root", "tx_signature", "tx_chain_tag", "tx_ref_not_future", "tx_not_expired", "tx_type_gate",
                "tx_feature_gate", "tx_reserved", "tx_blocklist", "tx_dup_in_block", "tx_dup_on_chain", "tx_dep_present",
                "tx_dep_not_reverted", "tx_can_start", "sum_gas_le_limit", "gas_used_matches", "receipts_root", "state_root"}
RuleNames   == HeaderRules \cup BodyRules

Holds(r, c) ==
  CASE r = "ts_after_parent"     -> R_ts_after_parent(c)
    [] r = "interval_aligned"    -> R_interval_aligned(c)
    [] r = "not_future"          -> R_not_future(c)
    [] r = "gas_used_le_limit"   -> R_gas_used_le_limit(c)
    [] r = "score_gt_parent"     -> R_score_gt_parent(c)
    [] r = "gas_limit_step"      -> R_gas_limit_step(c)
    [] r = "gas_limit_floor"     -> R_gas_limit_floor(c)
    [] r = "sig_len"             -> R_sig_len(c)
    [] r = "alpha"               -> R_alpha(c)
    [] r = "vrf_proof"           -> R_vrf_proof(c)
    [] r = "com_gate"            -> R_com_gate(c)
    [] r = "base_fee_absent"     -> R_base_fee_absent(c)
    [] r = "base_fee_present"    -> R_base_fee_present(c)
    [] r = "base_fee_value"      -> R_base_fee_value(c)
    [] r = "txs_features"        -> R_txs_features(c)
    [] r = "proposer_authorised" -> R_proposer_authorised(c)
    [] r = "proposer_slot"       -> R_proposer_slot(c)
    [] r = "score_expected"      -> R_score_expected(c)
    [] r = "beneficiary"         -> R_beneficiary(c)
    [] r = "txs_root"            -> R_txs_root(c)
    [] r = "tx_signature"        -> R_tx_signature(c)
    [] r = "tx_chain_tag"        -> R_tx_chain_tag(c)
    [] r = "tx_ref_not_future"   -> R_tx_ref_not_future(c)
    [] r = "tx_not_expired"      -> R_tx_not_expired(c)
    [] r = "tx_type_gate"        -> R_tx_type_gate(c)
    [] r = "tx_feature_gate"     -> R_tx_feature_gate(c)
    [] r = "tx_reserved"         -> R_tx_reserved(c)
    [] r = "tx_blocklist"        -> R_tx_blocklist(c)
    [] r = "tx_dup_in_block"     -> R_tx_dup_in_block(c)
    [] r = "tx_dup_on_chain"     -> R_tx_dup_on_chain(c)
    [] r = "tx_dep_present"      -> R_tx_dep_present(c)
    [] r = "tx_dep_not_reverted" -> R_tx_dep_not_reverted(c)
    [] r = "tx_can_start"        -> R_tx_can_start(c)
    [] r = "sum_gas_le_limit"    -> R_sum_gas_le_limit(c)
    [] r = "gas_used_matches"    -> R_gas_used_matches(c)
    [] r = "receipts_root"       -> R_receipts_root(c)
    [] r = "state_root"          -> R_state_root(c)

\* The two predicates of the property statement. A case bundles (h, parent, cfg) and (body, chain facts, cfg).
ValidHeader(c) == \A r \in HeaderRules : Holds(r, c)
ValidBody(c)   == \A r \in BodyRules : Holds(r, c)
Valid(c)       == ValidHeader(c) /\ ValidBody(c)
V1(ok, name)  == IF ok THEN {} ELSE {name}
Violated(c)    ==
  V1(R_ts_after_parent(c), "ts_after_parent") \cup V1(R_interval_aligned(c), "interval_aligned") \cup V1(R_not_future(c), "not_future")
  \cup V1(R_gas_used_le_limit(c), "gas_used_le_limit") \cup V1(R_score_gt_parent(c), "score_gt_parent")
  \cup V1(R_gas_limit_step(c), "gas_limit_step") \cup V1(R_gas_limit_floor(c), "gas_limit_floor") \cup V1(R_sig_len(c), "sig_len")
  \cup V1(R_alpha(c), "alpha") \cup V1(R_vrf_proof(c), "vrf_proof") \cup V1(R_com_gate(c), "com_gate")
  \cup V1(R_base_fee_absent(c), "base_fee_absent") \cup V1(R_base_fee_present(c), "base_fee_present")
  \cup V1(R_base_fee_value(c), "base_fee_value") \cup V1(R_txs_features(c), "txs_features")
  \cup V1(R_proposer_authorised(c), "proposer_authorised") \cup V1(R_proposer_slot(c), "proposer_slot")
  \cup V1(R_score_expected(c), "score_expected") \cup V1(R_beneficiary(c), "beneficiary") \cup V1(R_txs_root(c), "txs_root")
  \cup V1(R_tx_signature(c), "tx_signature") \cup V1(R_tx_chain_tag(c), "tx_chain_tag")
  \cup V1(R_tx_ref_not_future(c), "tx_ref_not_future") \cup V1(R_tx_not_expired(c), "tx_not_expired")
  \cup V1(R_tx_type_gate(c), "tx_type_gate") \cup V1(R_tx_feature_gate(c), "tx_feature_gate") \cup V1(R_tx_reserved(c), "tx_reserved") \cup V1(R_tx_blocklist(c), "tx_blocklist")
  \cup V1(R_tx_dup_in_block(c), "tx_dup_in_block") \cup V1(R_tx_dup_on_chain(c), "tx_dup_on_chain")
  \cup V1(R_tx_dep_present(c), "tx_dep_present") \cup V1(R_tx_dep_not_reverted(c), "tx_dep_not_reverted")
  \cup V1(R_tx_can_start(c), "tx_can_start") \cup V1(R_sum_gas_le_limit(c), "sum_gas_le_limit")
  \cup V1(R_gas_used_matches(c), "gas_used_matches") \cup V1(R_receipts_root(c), "receipts_root") \cup V1(R_state_root(c), "state_root")
\* the same set, rule by rule (the definition above only avoids 36 dispatches per case)
ASSUME TRUE

\* Error class (consensus.IsCritical): every rule is a consensus error, except the clock rule and a transaction whose
\* execution cannot start / whose signer cannot be recovered, for which the class is recorded but not demanded.
AnyClassRules  == {"not_future", "tx_can_start", "tx_signature"}
CriticalRules  == RuleNames \ AnyClassRules

\* ---------------------------------------------------------------------------------------------------------------
\* Expected observation for a case. unknown = some fact the verdict could hinge on could not be established.
ExpectedVerdict(c) == IF Violated(c) # {} THEN "reject" ELSE IF c.unknown THEN "any" ELSE "accept"
ExpectedClass(c)   == IF Violated(c) # {} /\ Violated(c) \subseteq CriticalRules THEN "critical" ELSE "any"

\* ---------------------------------------------------------------------------------------------------------------
\* THE CATALOGUE.  <<rule, variant, expect, also>>:
\*   expect  "reject"  single-rule departure: the mutant violates `rule` (and at most the rules in `also`, which the
\*                     departure cannot avoid breaking - e.g. a timestamp off the grid is never a slot of the proposer)
\*           "accept"  declared NON-violation: the perturbed block is still valid and must be accepted
\*           "blocklist" reject from the BLOCKLIST fork on, accept before
\*           "benef"   beneficiary perturbation: reject iff the proposer has a staker-set beneficiary (PoS), else accept
\* cmd/blockrules/mutate.go builds the REAL block for every entry (same names); Trace_BlockRules checks each real
\* mutant against expect / rule / also through its projection; MC_BlockRules checks the abstract Mutate below.
Catalogue == {
  <<"valid", "rebuilt_identity", "accept", {}>>,
  <<"valid", "genuine_base_import", "accept", {}>>,
  <<"valid", "add_valid_tx", "accept", {}>>,
  <<"valid", "drop_last_tx", "accept", {}>>,
  <<"valid", "empty_body", "accept", {}>>,
  <<"valid", "later_own_slot", "accept", {}>>,
  <<"valid", "sibling_other_validator", "accept", {}>>,
  <<"ts_after_parent", "eq_parent", "reject", {"proposer_slot"}>>,
  <<"ts_after_parent", "interval_before_parent", "reject", {"proposer_slot"}>>,
  <<"ts_after_parent", "zero", "reject", {"proposer_slot", "interval_aligned"}>>,
  <<"interval_aligned", "plus1", "reject", {"proposer_slot"}>>,
  <<"interval_aligned", "minus1", "reject", {"proposer_slot"}>>,
  <<"interval_aligned", "plus_half", "reject", {"proposer_slot"}>>,
  <<"gas_used_le_limit", "declared_over_limit", "reject", {"gas_used_matches"}>>,
  <<"gas_used_le_limit", "declared_max", "reject", {"gas_used_matches"}>>,
  <<"gas_limit_step", "up_one_over", "reject", {}>>,
  <<"gas_limit_step", "down_one_over", "reject", {}>>,
  <<"gas_limit_step", "double", "reject", {}>>,
  <<"gas_limit_step", "max", "reject", {}>>,
  <<"gas_limit_step", "plus_2p54", "reject", {}>>,
  <<"gas_limit_step", "plus_2p54_and_step", "reject", {}>>,
  <<"gas_limit_step", "plus_3x2p54", "reject", {}>>,
  <<"gas_limit_step", "plus_1023x2p54", "reject", {}>>,
  <<"gas_limit_step", "plus_2pk", "reject", {}>>,
  <<"gas_used_le_limit", "limit_plus_2pk", "reject", {"gas_used_matches"}>>,
  <<"score_expected", "plus_2pk", "reject", {}>>,
  <<"score_expected", "plus_2p63", "reject", {}>>,
  <<"interval_aligned", "plus_2pk", "reject", {"proposer_slot", "not_future"}>>,
  <<"base_fee_value", "plus_2pk", "reject", {"tx_can_start"}>>,   \* (no tx of the body can pay such a fee)
  <<"base_fee_value", "plus_2p61", "reject", {"tx_can_start"}>>,   \* (no tx of the body can pay such a fee)
  <<"base_fee_value", "plus_2p64", "reject", {"tx_can_start"}>>,   \* (no tx of the body can pay such a fee)
  <<"gas_limit_step", "up_exact_bound", "accept", {}>>,
  <<"gas_limit_step", "down_exact_bound", "accept", {}>>,
  <<"gas_limit_floor", "one_below_floor", "reject", {}>>,
  <<"gas_limit_floor", "at_floor", "accept", {}>>,
  <<"sum_gas_le_limit", "declared_true_sum", "reject", {"gas_used_le_limit"}>>,
  <<"sum_gas_le_limit", "declared_eq_limit", "reject", {"gas_used_matches"}>>,
  <<"score_gt_parent", "eq_parent", "reject", {"score_expected"}>>,
  <<"score_gt_parent", "below_parent", "reject", {"score_expected"}>>,
  <<"score_expected", "plus1", "reject", {}>>,
  <<"score_expected", "minus1", "reject", {}>>,
  <<"score_expected", "max", "reject", {}>>,
  <<"sig_len", "proof_stripped", "reject", {}>>,
  <<"sig_len", "proof_before_vip214", "reject", {}>>,
  <<"sig_len", "extra_byte", "reject", {}>>,
  <<"sig_len", "one_short", "reject", {"proposer_authorised"}>>,
  <<"sig_len", "empty", "reject", {"proposer_authorised"}>>,
  <<"alpha", "other_alpha", "reject", {}>>,
  <<"alpha", "empty_alpha", "reject", {}>>,
  <<"alpha", "parents_alpha", "reject", {}>>,
  <<"alpha", "alpha_before_vip214", "reject", {}>>,
  <<"vrf_proof", "corrupt_proof", "reject", {}>>,
  <<"vrf_proof", "proof_of_other_key", "reject", {}>>,
  <<"vrf_proof", "proof_over_other_alpha", "reject", {}>>,
  <<"com_gate", "com_before_finality", "reject", {}>>,
  <<"com_gate", "com_flip_after_finality", "accept", {}>>,
  <<"base_fee_absent", "initial_before_galactica", "reject", {}>>,
  <<"base_fee_absent", "zero_before_galactica", "reject", {}>>,
  <<"base_fee_present", "missing_after_galactica", "reject", {}>>,
  <<"base_fee_value", "plus1", "reject", {}>>,
  <<"base_fee_value", "minus1", "reject", {}>>,
  <<"base_fee_value", "zero", "reject", {}>>,
  <<"base_fee_value", "double", "reject", {}>>,
  <<"base_fee_value", "initial_when_higher", "reject", {}>>,
  <<"txs_features", "flip_delegation_bit", "reject", {}>>,
  <<"txs_features", "extra_bit", "reject", {}>>,
  <<"proposer_authorised", "outsider_key", "reject", {}>>,
  <<"proposer_authorised", "fresh_key", "reject", {}>>,
  <<"proposer_authorised", "endorsement_withdrawn", "reject", {}>>,
  <<"proposer_slot", "other_validator_same_time", "reject", {"beneficiary"}>>,
  <<"proposer_slot", "next_slot", "reject", {}>>,
  <<"proposer_slot", "previous_slot", "reject", {}>>,
  <<"proposer_slot", "two_slots_later", "reject", {}>>,
  <<"beneficiary", "other_beneficiary", "benef", {}>>,
  <<"beneficiary", "zero_beneficiary", "benef", {}>>,
  <<"beneficiary", "endorser_instead_of_staker_set", "reject", {}>>,
  <<"gas_used_matches", "plus1", "reject", {}>>,
  <<"gas_used_matches", "minus1", "reject", {}>>,
  <<"gas_used_matches", "zero", "reject", {}>>,
  <<"receipts_root", "random", "reject", {}>>,
  <<"receipts_root", "root_of_no_receipts", "reject", {}>>,
  <<"state_root", "random", "reject", {}>>,
  <<"state_root", "parents_state", "reject", {}>>,
  <<"txs_root", "random", "reject", {}>>,
  <<"txs_root", "root_of_shorter_list", "reject", {}>>,
  <<"tx_chain_tag", "xor", "reject", {}>>,
  <<"tx_chain_tag", "zero", "reject", {}>>,
  <<"tx_ref_not_future", "next_block", "reject", {}>>,
  <<"tx_ref_not_future", "max_ref", "reject", {}>>,
  <<"tx_ref_not_future", "ref_eq_this_block", "accept", {}>>,
  <<"tx_not_expired", "expired_by_one", "reject", {}>>,
  <<"tx_not_expired", "zero_expiration_old_ref", "reject", {}>>,
  <<"tx_not_expired", "last_valid_block", "accept", {}>>,
  <<"tx_not_expired", "max_expiration", "accept", {}>>,
  <<"tx_type_gate", "dynamic_fee_before_galactica", "reject", {}>>,
  <<"tx_feature_gate", "delegated_before_vip191", "reject", {}>>,
  <<"tx_feature_gate", "unknown_feature_bit", "reject", {}>>,
  <<"tx_reserved", "unused_slot_filled", "reject", {}>>,
  <<"tx_signature", "origin_unrecoverable", "reject", {"tx_can_start"}>>,
  <<"tx_signature", "delegator_unrecoverable", "reject", {"tx_can_start"}>>,
  <<"tx_dup_in_block", "repeat_last", "reject", {}>>,
  <<"tx_dup_in_block", "repeat_first_at_end", "reject", {}>>,
  <<"tx_dup_on_chain", "replay_from_parent", "reject", {}>>,
  <<"tx_dup_on_chain", "replay_from_grandparent", "reject", {}>>,
  <<"tx_dup_on_chain", "replay_ref_eq_inclusion_from_parent", "reject", {}>>,
  <<"tx_dup_on_chain", "replay_ref_eq_inclusion_from_grandparent", "reject", {}>>,
  <<"tx_dup_on_chain", "replay_ref_eq_inclusion_older", "reject", {}>>,
  <<"tx_dup_on_chain", "replay_from_great_grandparent", "reject", {}>>,
  <<"tx_dup_on_chain", "replay_from_block_one", "reject", {}>>,
  <<"tx_dup_on_chain", "replay_beyond_scan_window", "reject", {}>>,
  <<"tx_dup_on_chain", "replay_old_ref_from_parent", "reject", {}>>,
  <<"tx_dup_on_chain", "replay_old_ref_from_grandparent", "reject", {}>>,
  <<"tx_blocklist", "origin_blocked", "blocklist", {}>>,
  <<"tx_blocklist", "delegator_blocked", "blocklist", {}>>,
  <<"tx_dep_present", "unknown_id", "reject", {}>>,
  <<"tx_dep_present", "dependency_later_in_block", "reject", {}>>,
  <<"tx_dep_present", "dependency_earlier_in_block", "accept", {}>>,
  <<"tx_dep_not_reverted", "reverted_in_block", "reject", {}>>,
  <<"tx_dep_not_reverted", "reverted_on_chain", "reject", {}>>,
  <<"tx_dep_not_reverted", "reverted_in_block_one", "reject", {}>>,
  <<"tx_dep_present", "dependency_in_block_one", "accept", {}>>,
  <<"tx_can_start", "gas_below_intrinsic", "reject", {}>>,
  <<"tx_can_start", "payer_cannot_prepay", "reject", {}>> }

CatKeys == {<<e[1], e[2]>> : e \in Catalogue}
CatOf(k) == CHOOSE e \in Catalogue : e[1] = k[1] /\ e[2] = k[2]
\* what the catalogue expects for entry e on case c (c: the MUTATED case; sb tells whether a staker-set beneficiary exists)
CatExpect(e, c) == IF e[3] = "benef" THEN (IF c.h.sb = "none" THEN "accept" ELSE "reject")
                   ELSE IF e[3] = "blocklist" THEN (IF c.cfg.blocklist THEN "reject" ELSE "accept")
                   ELSE e[3]

\* ---------------------------------------------------------------------------------------------------------------
\* Mutate on the abstract block.  Facts follow the field they depend on (a timestamp off the proposer's slot is not
\* owned; an unrecoverable signature has no authorised signer; a body that is re-executed keeps declared = executed).
P16   == FromInt(65536)
P32   == Mul(P16, P16)
MaxU32 == Sub(P32, One)
MaxU64 == Sub(Mul(P32, P32), One)
Step(c) == DivI(c.par.gl, BoundDivisor)
\* The rules above are stated over unbounded naturals. The wrap-around departures put a field at a distance from its
\* legal value at which 64-bit arithmetic wraps: 2^k (the driver rotates k over 32..63; 2^40 stands for it here),
\* multiples of 2^54 (x * 1024 = 0 mod 2^64), 2^61 (x * 8), 2^63, and 2^64 for the big-integer base fee.
RECURSIVE Pow2(_)
Pow2(k) == IF k = 0 THEN One ELSE MulSmall(Pow2(k - 1), 2)
P2k == Pow2(40)

SetH(c, f, v)  == [c EXCEPT !.h = [@ EXCEPT ![f] = v]]
SetHs(c, fs)   == [c EXCEPT !.h = [k \in DOMAIN c.h |-> IF k \in DOMAIN fs THEN fs[k] ELSE c.h[k]]]
GoodTx(c)      == [tagok |-> TRUE, ref |-> Monus(c.num, One), exp |-> FromInt(10), typ |-> "legacy", feat |-> 0, unused |-> 0,
                   origin |-> TRUE, dupb |-> FALSE, onchain |-> FALSE, blocked |-> FALSE, dep |-> "none", start |-> TRUE, gas |-> 21000]
TxWith(c, fs)  == [k \in DOMAIN GoodTx(c) |-> IF k \in DOMAIN fs THEN fs[k] ELSE GoodTx(c)[k]]
\* the body is executed again: declared gas used follows (as the driver recomputes it)
ReExec(c)      == SetH(c, "gu", SumGas(c.txs, 1))
Body(c, txs)   == ReExec([c EXCEPT !.txs = txs])
\* a body-filling transaction (nothing depends on it) makes room first, so that the appended one fits the gas limit
Room(txs)      == IF Len(txs) > 0 /\ txs[Len(txs)].gas > 1000000 THEN SubSeq(txs, 1, Len(txs) - 1) ELSE txs
AddTx(c, t)    == Body(c, Append(Room(c.txs), t))
\* a transaction that cannot be executed at all: no execution results exist for the body
AddDeadTx(c, t) == SetH([c EXCEPT !.txs = Append(Room(c.txs), [t EXCEPT !.gas = 0])], "execknown", FALSE)
NoSigner(c)    == SetHs(c, [sigrec |-> FALSE, auth |-> FALSE, owns |-> FALSE, sb |-> "none"])
OffSlot(c, ts) == SetHs(c, [ts |-> ts, owns |-> FALSE])
Last(s)        == s[Len(s)]
Front(s)       == SubSeq(s, 1, Len(s) - 1)

Applicable(c, k) ==
  LET g == c.cfg  h == c.h  n == Len(c.txs)  down == Monus(c.par.gl, Step(c))
  IN CASE k = <<"valid", "drop_last_tx">> -> n > 0
       [] k = <<"gas_limit_step", "down_one_over">> -> GE(Monus(down, One), MinGasLimit) /\ GE(Monus(down, One), h.gu)
       [] k = <<"gas_limit_step", "down_exact_bound">> -> GE(down, MinGasLimit) /\ GE(down, h.gu)
       [] k = <<"gas_limit_floor", "one_below_floor">> -> LE(Monus(c.par.gl, Monus(MinGasLimit, One)), Step(c)) /\ LT(h.gu, MinGasLimit)
       [] k = <<"gas_limit_floor", "at_floor">> -> LE(Monus(c.par.gl, MinGasLimit), Step(c)) /\ LE(h.gu, MinGasLimit) /\ ~Eq(h.gl, MinGasLimit)
       [] k \in {<<"sum_gas_le_limit", "declared_true_sum">>, <<"sum_gas_le_limit", "declared_eq_limit">>} ->
                GE(down, MinGasLimit) /\ LT(down, h.gu)
       [] k = <<"score_gt_parent", "below_parent">> -> GT(c.par.score, Zero)
       [] k = <<"score_expected", "minus1">> -> GT(Monus(h.score, One), c.par.score)
       [] k \in {<<"sig_len", "proof_stripped">>, <<"alpha", "other_alpha">>, <<"alpha", "empty_alpha">>, <<"alpha", "parents_alpha">>,
                 <<"vrf_proof", "corrupt_proof">>, <<"vrf_proof", "proof_of_other_key">>, <<"vrf_proof", "proof_over_other_alpha">>} -> g.vip214
       [] k \in {<<"sig_len", "proof_before_vip214">>, <<"alpha", "alpha_before_vip214">>} -> ~g.vip214
       [] k = <<"com_gate", "com_before_finality">> -> ~g.finality
       [] k = <<"com_gate", "com_flip_after_finality">> -> g.finality
       [] k \in {<<"base_fee_absent", "initial_before_galactica">>, <<"base_fee_absent", "zero_before_galactica">>,
                 <<"tx_type_gate", "dynamic_fee_before_galactica">>} -> ~g.galactica
       [] k \in {<<"base_fee_present", "missing_after_galactica">>, <<"base_fee_value", "plus1">>, <<"base_fee_value", "minus1">>,
                 <<"base_fee_value", "zero">>, <<"base_fee_value", "double">>, <<"base_fee_value", "plus_2pk">>,
                 <<"base_fee_value", "plus_2p61">>, <<"base_fee_value", "plus_2p64">>} -> g.galactica
       [] k = <<"base_fee_value", "initial_when_higher">> -> g.galactica /\ ~Eq(h.bf, InitialBaseFee)
       [] k = <<"proposer_slot", "previous_slot">> -> GT(Monus(h.ts, FromInt(Interval)), c.par.ts)
       [] k = <<"beneficiary", "endorser_instead_of_staker_set">> -> h.sb = "match"
       [] k = <<"gas_used_matches", "plus1">> -> LT(h.gu, h.gl)
       [] k \in {<<"gas_used_matches", "minus1">>, <<"gas_used_matches", "zero">>} -> GT(h.gu, Zero)
       [] k \in {<<"receipts_root", "root_of_no_receipts">>, <<"txs_root", "root_of_shorter_list">>, <<"tx_dup_in_block", "repeat_last">>} -> Len(Room(c.txs)) > 0
       [] k = <<"tx_dup_in_block", "repeat_first_at_end">> -> Len(Room(c.txs)) > 1
       [] k \in {<<"tx_not_expired", "expired_by_one">>, <<"tx_dup_on_chain", "replay_from_parent">>,
                 <<"tx_dep_not_reverted", "reverted_on_chain">>} -> GE(c.num, FromInt(2))
       [] k \in {<<"tx_dup_on_chain", "replay_from_grandparent">>, <<"tx_dup_on_chain", "replay_ref_eq_inclusion_from_grandparent">>,
                 <<"tx_dup_on_chain", "replay_from_block_one">>} -> GE(c.num, FromInt(3))
       [] k \in {<<"tx_dup_on_chain", "replay_from_great_grandparent">>, <<"tx_dep_not_reverted", "reverted_in_block_one">>,
                 <<"tx_dep_present", "dependency_in_block_one">>} -> GE(c.num, FromInt(4))
       [] k = <<"tx_dup_on_chain", "replay_ref_eq_inclusion_older">> -> GE(c.num, FromInt(5))
       [] k \in {<<"tx_dup_on_chain", "replay_beyond_scan_window">>, <<"tx_dup_on_chain", "replay_old_ref_from_parent">>,
                 <<"tx_dup_on_chain", "replay_old_ref_from_grandparent">>} -> GE(c.num, FromInt(106))
       [] k \in {<<"tx_signature", "delegator_unrecoverable">>, <<"tx_blocklist", "delegator_blocked">>} -> g.vip191
       [] k = <<"tx_dup_on_chain", "replay_ref_eq_inclusion_from_parent">> -> GE(c.num, FromInt(2))
       [] k = <<"proposer_authorised", "endorsement_withdrawn">> -> ~g.pos
       [] k = <<"tx_feature_gate", "delegated_before_vip191">> -> ~g.vip191
       [] OTHER -> TRUE

Mutate(c, k) ==
  LET h == c.h  T == FromInt(Interval)  up == Add(c.par.gl, Step(c))  down == Monus(c.par.gl, Step(c))
  IN CASE k \in {<<"valid", "rebuilt_identity">>, <<"valid", "genuine_base_import">>} -> c
       [] k = <<"valid", "add_valid_tx">> -> AddTx(c, GoodTx(c))
       [] k = <<"valid", "drop_last_tx">> -> Body(c, Front(c.txs))
       [] k = <<"valid", "empty_body">> -> Body(c, << >>)
       \* the environment says: the proposer's next own slot is nprop slots later, everybody else skipped => score 1
       [] k = <<"valid", "later_own_slot">> ->
            SetHs(c, [ts |-> Add(h.ts, MulInt(T, c.cfg.nprop)), score |-> Add(c.par.score, One), escore |-> Add(c.par.score, One)])
       \* another validator in its own slot, with the score the scheduler gives it; no staker-set beneficiary
       [] k = <<"valid", "sibling_other_validator">> ->
            SetHs(c, [ts |-> Add(h.ts, T), score |-> Add(c.par.score, One), escore |-> Add(c.par.score, One), sb |-> "none"])
       [] k = <<"ts_after_parent", "eq_parent">> -> OffSlot(c, c.par.ts)
       [] k = <<"ts_after_parent", "interval_before_parent">> -> OffSlot(c, Monus(c.par.ts, T))
       [] k = <<"ts_after_parent", "zero">> -> OffSlot(c, Zero)
       [] k = <<"interval_aligned", "plus1">> -> OffSlot(c, Add(h.ts, One))
       [] k = <<"interval_aligned", "minus1">> -> OffSlot(c, Monus(h.ts, One))
       [] k = <<"interval_aligned", "plus_half">> -> OffSlot(c, Add(h.ts, FromInt(Interval \div 2)))
       [] k = <<"gas_used_le_limit", "declared_over_limit">> -> SetHs(c, [gu |-> Add(h.gl, One), guok |-> FALSE])
       [] k = <<"gas_used_le_limit", "declared_max">> -> SetHs(c, [gu |-> MaxU64, guok |-> FALSE])
       [] k = <<"gas_limit_step", "up_one_over">> -> SetH(c, "gl", Add(up, One))
       [] k = <<"gas_limit_step", "down_one_over">> -> SetH(c, "gl", Monus(down, One))
       [] k = <<"gas_limit_step", "double">> -> SetH(c, "gl", MulInt(c.par.gl, 2))
       [] k = <<"gas_limit_step", "max">> -> SetH(c, "gl", MaxU64)
       [] k = <<"gas_limit_step", "plus_2p54">> -> SetH(c, "gl", Add(c.par.gl, Pow2(54)))
       [] k = <<"gas_limit_step", "plus_2p54_and_step">> -> SetH(c, "gl", Add(up, Pow2(54)))
       [] k = <<"gas_limit_step", "plus_3x2p54">> -> SetH(c, "gl", Add(c.par.gl, MulSmall(Pow2(54), 3)))
       [] k = <<"gas_limit_step", "plus_1023x2p54">> -> SetH(c, "gl", Add(c.par.gl, MulSmall(Pow2(54), 1023)))
       [] k = <<"gas_limit_step", "plus_2pk">> -> SetH(c, "gl", Add(c.par.gl, P2k))
       [] k = <<"gas_used_le_limit", "limit_plus_2pk">> -> SetHs(c, [gu |-> Add(h.gl, P2k), guok |-> FALSE])
       [] k = <<"score_expected", "plus_2pk">> -> SetH(c, "score", Add(h.score, P2k))
       [] k = <<"score_expected", "plus_2p63">> -> SetH(c, "score", Add(h.score, Pow2(63)))
       [] k = <<"interval_aligned", "plus_2pk">> -> SetH(OffSlot(c, Add(h.ts, P2k)), "future", TRUE)
       [] k = <<"base_fee_value", "plus_2pk">> -> SetH(c, "bf", Add(h.bf, P2k))
       [] k = <<"base_fee_value", "plus_2p61">> -> SetH(c, "bf", Add(h.bf, Pow2(61)))
       [] k = <<"base_fee_value", "plus_2p64">> -> SetH(c, "bf", Add(h.bf, Pow2(64)))
       [] k = <<"gas_limit_step", "up_exact_bound">> -> SetH(c, "gl", up)
       [] k = <<"gas_limit_step", "down_exact_bound">> -> SetH(c, "gl", down)
       [] k = <<"gas_limit_floor", "one_below_floor">> -> SetH(c, "gl", Monus(MinGasLimit, One))
       [] k = <<"gas_limit_floor", "at_floor">> -> SetH(c, "gl", MinGasLimit)
       [] k = <<"sum_gas_le_limit", "declared_true_sum">> -> SetH(c, "gl", down)
       [] k = <<"sum_gas_le_limit", "declared_eq_limit">> -> SetHs(c, [gl |-> down, gu |-> down, guok |-> FALSE])
       [] k = <<"score_gt_parent", "eq_parent">> -> SetH(c, "score", c.par.score)
       [] k = <<"score_gt_parent", "below_parent">> -> SetH(c, "score", Monus(c.par.score, One))
       [] k = <<"score_expected", "plus1">> -> SetH(c, "score", Add(h.score, One))
       [] k = <<"score_expected", "minus1">> -> SetH(c, "score", Monus(h.score, One))
       [] k = <<"score_expected", "max">> -> SetH(c, "score", MaxU64)
       [] k = <<"sig_len", "proof_stripped">> -> SetHs(c, [siglen |-> SigLenPlain, vrf |-> FALSE])
       [] k = <<"sig_len", "proof_before_vip214">> -> SetH(c, "siglen", SigLenVRF)
       [] k = <<"sig_len", "extra_byte">> -> SetHs(c, [siglen |-> h.siglen + 1, vrf |-> FALSE])
       [] k = <<"sig_len", "one_short">> ->
            IF h.siglen - 1 < SigLenPlain THEN SetH(NoSigner(c), "siglen", h.siglen - 1)
            ELSE SetHs(c, [siglen |-> h.siglen - 1, vrf |-> FALSE])
       [] k = <<"sig_len", "empty">> -> SetHs(NoSigner(c), [siglen |-> 0, vrf |-> FALSE])
       [] k = <<"alpha", "other_alpha">> -> SetH(c, "alphaok", FALSE)
       [] k = <<"alpha", "empty_alpha">> -> SetHs(c, [alphaok |-> FALSE, alphalen |-> 0])
       [] k = <<"alpha", "parents_alpha">> -> SetH(c, "alphaok", FALSE)
       [] k = <<"alpha", "alpha_before_vip214">> -> SetH(c, "alphalen", 32)
       [] k \in {<<"vrf_proof", "corrupt_proof">>, <<"vrf_proof", "proof_of_other_key">>, <<"vrf_proof", "proof_over_other_alpha">>} ->
            SetH(c, "vrf", FALSE)
       [] k = <<"com_gate", "com_before_finality">> -> SetH(c, "com", TRUE)
       [] k = <<"com_gate", "com_flip_after_finality">> -> SetH(c, "com", ~h.com)
       [] k = <<"base_fee_absent", "initial_before_galactica">> -> SetHs(c, [bfp |-> TRUE, bf |-> InitialBaseFee])
       [] k = <<"base_fee_absent", "zero_before_galactica">> -> SetHs(c, [bfp |-> TRUE, bf |-> Zero])
       [] k = <<"base_fee_present", "missing_after_galactica">> -> SetHs(c, [bfp |-> FALSE, bf |-> Zero])
       [] k = <<"base_fee_value", "plus1">> -> SetH(c, "bf", Add(h.bf, One))
       [] k = <<"base_fee_value", "minus1">> -> SetH(c, "bf", Monus(h.bf, One))
       [] k = <<"base_fee_value", "zero">> -> SetH(c, "bf", Zero)
       [] k = <<"base_fee_value", "double">> -> SetH(c, "bf", MulInt(h.bf, 2))
       [] k = <<"base_fee_value", "initial_when_higher">> -> SetH(c, "bf", InitialBaseFee)
       [] k = <<"txs_features", "flip_delegation_bit">> -> SetH(c, "feat", 1 - h.feat)
       [] k = <<"txs_features", "extra_bit">> -> SetH(c, "feat", h.feat + 2)
       [] k \in {<<"proposer_authorised", "outsider_key">>, <<"proposer_authorised", "fresh_key">>} ->
            SetHs(c, [auth |-> FALSE, owns |-> FALSE, sb |-> "none"])
       [] k = <<"proposer_slot", "other_validator_same_time">> -> SetH(c, "owns", FALSE)
       [] k = <<"proposer_slot", "next_slot">> -> OffSlot(c, Add(h.ts, T))
       [] k = <<"proposer_slot", "previous_slot">> -> OffSlot(c, Monus(h.ts, T))
       [] k = <<"proposer_slot", "two_slots_later">> -> OffSlot(c, Add(h.ts, MulInt(T, 2)))
       [] k \in {<<"beneficiary", "other_beneficiary">>, <<"beneficiary", "zero_beneficiary">>,
                 <<"beneficiary", "endorser_instead_of_staker_set">>} ->
            IF h.sb = "match" THEN SetH(c, "sb", "mismatch") ELSE c
       [] k = <<"gas_used_matches", "plus1">> -> SetHs(c, [gu |-> Add(h.gu, One), guok |-> FALSE])
       [] k = <<"gas_used_matches", "minus1">> -> SetHs(c, [gu |-> Monus(h.gu, One), guok |-> FALSE])
       [] k = <<"gas_used_matches", "zero">> -> SetHs(c, [gu |-> Zero, guok |-> FALSE])
       [] k \in {<<"receipts_root", "random">>, <<"receipts_root", "root_of_no_receipts">>} -> SetH(c, "rcptok", FALSE)
       [] k \in {<<"state_root", "random">>, <<"state_root", "parents_state">>} -> SetH(c, "stateok", FALSE)
       [] k \in {<<"txs_root", "random">>, <<"txs_root", "root_of_shorter_list">>} -> SetH(c, "txsroot", FALSE)
       [] k \in {<<"tx_chain_tag", "xor">>, <<"tx_chain_tag", "zero">>} -> AddTx(c, TxWith(c, [tagok |-> FALSE]))
       [] k = <<"tx_ref_not_future", "next_block">> -> AddTx(c, TxWith(c, [ref |-> Add(c.num, One)]))
       [] k = <<"tx_ref_not_future", "max_ref">> -> AddTx(c, TxWith(c, [ref |-> MaxU32]))
       [] k = <<"tx_ref_not_future", "ref_eq_this_block">> -> AddTx(c, TxWith(c, [ref |-> c.num, exp |-> Zero]))
       [] k = <<"tx_not_expired", "expired_by_one">> -> AddTx(c, TxWith(c, [ref |-> Monus(c.num, FromInt(2)), exp |-> One]))
       [] k = <<"tx_not_expired", "zero_expiration_old_ref">> -> AddTx(c, TxWith(c, [exp |-> Zero]))
       [] k = <<"tx_not_expired", "last_valid_block">> ->
            AddTx(c, IF GE(c.num, FromInt(2)) THEN TxWith(c, [ref |-> Monus(c.num, FromInt(2)), exp |-> FromInt(2)])
                     ELSE TxWith(c, [exp |-> One]))
       [] k = <<"tx_not_expired", "max_expiration">> -> AddTx(c, TxWith(c, [exp |-> MaxU32]))
       \* validation never executes such a transaction (no base fee exists): no execution results for this body
       [] k = <<"tx_type_gate", "dynamic_fee_before_galactica">> -> AddDeadTx(c, TxWith(c, [typ |-> "dyn"]))
       [] k = <<"tx_feature_gate", "delegated_before_vip191">> -> AddTx(c, TxWith(c, [feat |-> 1]))
       [] k = <<"tx_feature_gate", "unknown_feature_bit">> -> AddTx(c, TxWith(c, [feat |-> 2]))
       [] k = <<"tx_reserved", "unused_slot_filled">> -> AddTx(c, TxWith(c, [unused |-> 1]))
       [] k = <<"tx_signature", "origin_unrecoverable">> -> AddDeadTx(c, TxWith(c, [origin |-> FALSE, start |-> FALSE]))
       [] k = <<"tx_dup_in_block", "repeat_last">> -> AddTx(c, [Last(Room(c.txs)) EXCEPT !.dupb = TRUE])
       [] k = <<"tx_dup_in_block", "repeat_first_at_end">> -> AddTx(c, [c.txs[1] EXCEPT !.dupb = TRUE])
       [] k \in {<<"tx_dup_on_chain", "replay_from_parent">>, <<"tx_dup_on_chain", "replay_from_grandparent">>,
                 <<"tx_dup_on_chain", "replay_from_great_grandparent">>, <<"tx_dup_on_chain", "replay_from_block_one">>} ->
            AddTx(c, TxWith(c, [onchain |-> TRUE]))
       \* the replayed tx references the block that first included it (1, 2, 4 blocks below this one) ...
       [] k = <<"tx_dup_on_chain", "replay_ref_eq_inclusion_from_parent">> -> AddTx(c, TxWith(c, [onchain |-> TRUE, exp |-> FromInt(30)]))
       [] k = <<"tx_dup_on_chain", "replay_ref_eq_inclusion_from_grandparent">> ->
            AddTx(c, TxWith(c, [onchain |-> TRUE, ref |-> Monus(c.num, FromInt(2)), exp |-> FromInt(30)]))
       [] k = <<"tx_dup_on_chain", "replay_ref_eq_inclusion_older">> ->
            AddTx(c, TxWith(c, [onchain |-> TRUE, ref |-> Monus(c.num, FromInt(4)), exp |-> FromInt(30)]))
       \* ... or a block more than 100 below (the duplicate is then found through the tx index)
       \* (first packed far back, or packed by the parent / grandparent with a block ref that old)
       [] k \in {<<"tx_dup_on_chain", "replay_beyond_scan_window">>, <<"tx_dup_on_chain", "replay_old_ref_from_parent">>,
                 <<"tx_dup_on_chain", "replay_old_ref_from_grandparent">>} ->
            AddTx(c, TxWith(c, [onchain |-> TRUE, ref |-> Monus(c.num, FromInt(104)), exp |-> MaxU32]))
       [] k = <<"tx_blocklist", "origin_blocked">> -> AddTx(c, TxWith(c, [blocked |-> TRUE]))
       [] k = <<"tx_blocklist", "delegator_blocked">> -> AddTx(c, TxWith(c, [blocked |-> TRUE, feat |-> 1]))
       [] k = <<"tx_dep_not_reverted", "reverted_in_block_one">> -> AddTx(c, TxWith(c, [dep |-> "reverted"]))
       [] k = <<"tx_dep_present", "dependency_in_block_one">> -> AddTx(c, TxWith(c, [dep |-> "ok"]))
       [] k = <<"tx_signature", "delegator_unrecoverable">> -> AddDeadTx(c, TxWith(c, [origin |-> FALSE, start |-> FALSE, feat |-> 1]))
       [] k = <<"proposer_authorised", "endorsement_withdrawn">> ->
            SetHs(c, [ts |-> Add(h.ts, T), auth |-> FALSE, owns |-> FALSE, sb |-> "none", execknown |-> FALSE])
       [] k = <<"tx_dep_present", "unknown_id">> -> AddTx(c, TxWith(c, [dep |-> "missing"]))
       [] k = <<"tx_dep_present", "dependency_later_in_block">> -> AddTx(AddTx(c, TxWith(c, [dep |-> "missing"])), GoodTx(c))
       [] k = <<"tx_dep_present", "dependency_earlier_in_block">> -> AddTx(AddTx(c, GoodTx(c)), TxWith(c, [dep |-> "ok"]))
       [] k \in {<<"tx_dep_not_reverted", "reverted_in_block">>, <<"tx_dep_not_reverted", "reverted_on_chain">>} ->
            AddTx(c, TxWith(c, [dep |-> "reverted"]))
       [] k \in {<<"tx_can_start", "gas_below_intrinsic">>, <<"tx_can_start", "payer_cannot_prepay">>} ->
            AddDeadTx(c, TxWith(c, [start |-> FALSE]))
====
