SPECIFICATION Spec
CONSTANTS
  Masters = {1, 2, 3}
  Nodes = {1}
  Rules <- AllRules
  MbpCap = 101
  Cfg <- CfgEnd3
  MaxLive = 3
  MaxNum = 1
  MaxNow = 1
  MaxTx = 1
  MaxBal = 2
  Kinds <- KindsSibQ
  Ords <- OrdId3
  AliasSafe = FALSE
  Window = TRUE
  NumOf <- Flat
INVARIANT TypeOK
INVARIANT CacheCoherent
INVARIANT CacheExact
INVARIANT PackAccepted
INVARIANT Deterministic
CHECK_DEADLOCK FALSE
