SPECIFICATION TSpec
CONSTANTS
  N = 3
  T = 2
  MaxTime = 0
  MaxBlocks = 0
  Rules <- AllRules
INVARIANT T_NoStalePack
INVARIANT T_NotEarly
INVARIANT T_NotLate
INVARIANT T_OnePerParentSlot
CONSTRAINT Progress
POSTCONDITION TraceAccepted
CHECK_DEADLOCK FALSE
