SPECIFICATION Spec
CONSTANTS
  ParentGasLimits = {1000700, 2000000}
  SlotDistances = {1}
  Factored = TRUE
  RichTx = FALSE
  PairBodies = FALSE
INVARIANTS CatalogueOK
CHECK_DEADLOCK FALSE
