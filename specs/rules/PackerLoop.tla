---- MODULE PackerLoop ----
(* The block producer's loop, cmd/thor/node/packer_loop.go:packerLoop, as a state machine over whole seconds.

     wait until comm.Synced()
     top:   now := clock; base := (bestTime < now < bestTime + 3T - buff) ? bestTime + T : now        buff = min(T/2, 3)
            flow := packer.Schedule(best, base)       -- the earliest own slot >= base
     test:  if now + T/2 > flow.When  ->  doPack(flow) (may fail: logged, nothing else)  -> top
            else sleep 1 s; wake: best' := repo.Best;
                 if (best'.num = parent.num /\ best'.signer # parent.signer) \/ best'.totalScore > flow.totalScore -> top
                 else -> test

   The environment mints blocks of the other validators in their own slots and delivers any known block to the node at any
   moment (Import = node.processBlock).  Whether an imported or own block becomes the best block is the BFT engine's
   decision (bft.Select: quality, then total score, then smaller id) and is left open here: the loop only READS the best
   block, and every property below is about what it read.
   Who owns which slot after a parent is an oracle: Owner(parent, k); here a rotation that depends on the parent's number,
   so that the same wall-clock second can belong to the node on two different parents.
   Time: the node's own steps take no time; Tick advances the clock by one second only while the node is blocked (asleep
   before its wake-up time, parked, or waiting for sync) - the loop is never late for its 1 s check.

   Rules (all TRUE = the code): recheck = the 1 s check of the best block; window = base is "now" outside the prioritized
   window.  Switching one off breaks NoStalePack / SlotTolerance (teeth).                                           *)
EXTENDS Integers, Sequences, FiniteSets, TLC

CONSTANTS N,         \* validators 0..N-1, the node is validator 0
          T,         \* block interval in seconds (>= 2)
          MaxTime,   \* the clock stops here
          MaxBlocks, \* blocks besides genesis
          Rules      \* [recheck, window : BOOLEAN]

Me == 0
Buff == IF T \div 2 < 3 THEN T \div 2 ELSE 3
AllRules == [recheck |-> TRUE, window |-> TRUE]

VARIABLES now,      \* wall clock, seconds
          blocks,   \* id -> [par, num, time, score, signer]      every block that exists anywhere
          known,    \* ids the node has stored
          seenAt,   \* id -> second at which the node stored it
          best,     \* the node's best block
          pc,       \* "sync" | "top" | "test" | "sleep" | "failed"
          flow,     \* [par, when, score] of the scheduled flow (when pc in test / sleep)
          wake,     \* second at which the sleeping loop wakes
          packs     \* set of [b, at, flow, bestThen]: successful doPack calls
vars == <<now, blocks, known, seenAt, best, pc, flow, wake, packs>>

Genesis == 0
NoFlow == [par |-> -1, when |-> 0, score |-> 0]
Max(a, b) == IF a > b THEN a ELSE b

\* ---- oracles ---------------------------------------------------------------------------------------------------------
Owner(p, k) == (blocks[p].num + k) % N                          \* who owns slot k (>= 1) after parent p
Inc(k) == Max(1, N - (k - 1))                                   \* score of a block that skipped k - 1 slots
SlotTime(p, k) == blocks[p].time + k * T
\* header.BetterThan: total score, then the smaller id
Better(a, b) == blocks[a].score > blocks[b].score \/ (blocks[a].score = blocks[b].score /\ a < b)
\* packer.Schedule(parent, base): the earliest own slot at or after base (and after the parent)
EarliestOwn(p, who, base) ==
  LET ks == {k \in 1..(2 * N + (MaxTime \div T) + 1) : Owner(p, k) = who /\ SlotTime(p, k) >= base}
  IN CHOOSE k \in ks : \A j \in ks : k <= j

\* ---- the loop --------------------------------------------------------------------------------------------------------
Init ==
  /\ now = 0
  /\ blocks = (Genesis :> [par |-> -1, num |-> 0, time |-> 0, score |-> 0, signer |-> -1])
  /\ known = {Genesis} /\ seenAt = (Genesis :> 0) /\ best = Genesis
  /\ pc = "sync" /\ flow = NoFlow /\ wake = 0 /\ packs = {}

Synced == pc = "sync" /\ pc' = "top" /\ UNCHANGED <<now, blocks, known, seenAt, best, flow, wake, packs>>

Top ==
  /\ pc = "top"
  /\ LET bt == blocks[best].time
         base == IF (~Rules.window) \/ (now > bt /\ now < bt + 3 * T - Buff) THEN bt + T ELSE now
         k == EarliestOwn(best, Me, base)
     IN flow' = [par |-> best, when |-> SlotTime(best, k), score |-> blocks[best].score + Inc(k)]
  /\ pc' = "test"
  /\ UNCHANGED <<now, blocks, known, seenAt, best, wake, packs>>

NewId == Cardinality(DOMAIN blocks)

\* doPack succeeds: the own block is stored; it becomes best when it is better than the best of that moment
PackOK ==
  /\ pc = "test" /\ now + T \div 2 > flow.when
  /\ Cardinality(DOMAIN blocks) <= MaxBlocks
  /\ LET b == NewId IN
     /\ blocks' = (b :> [par |-> flow.par, num |-> blocks[flow.par].num + 1, time |-> flow.when, score |-> flow.score,
                         signer |-> Me]) @@ blocks
     /\ known' = known \cup {b} /\ seenAt' = (b :> now) @@ seenAt
     \* the fork choice is the BFT engine's (quality before score); a child always beats its own parent
     /\ best' \in (IF flow.par = best THEN {b} ELSE {b, best})
     /\ packs' = packs \cup {[b |-> b, at |-> now, flow |-> flow, bestThen |-> best]}
  /\ pc' = "top"
  /\ UNCHANGED <<now, flow, wake>>
\* doPack fails (logged): straight back to the top.  There is no back-off: the loop retries at once and keeps retrying until
\* the clock or the best block changes; "failed" stands for that busy phase (time may pass in it)
PackFail ==
  /\ pc = "test" /\ now + T \div 2 > flow.when
  /\ pc' = "failed"
  /\ UNCHANGED <<now, blocks, known, seenAt, best, flow, wake, packs>>
Retry == pc = "failed" /\ pc' = "top" /\ UNCHANGED <<now, blocks, known, seenAt, best, flow, wake, packs>>
Sleep ==
  /\ pc = "test" /\ ~(now + T \div 2 > flow.when)
  /\ pc' = "sleep" /\ wake' = now + 1
  /\ UNCHANGED <<now, blocks, known, seenAt, best, flow, packs>>
Wake ==
  /\ pc = "sleep" /\ now >= wake
  /\ LET b == blocks[best]
         p == blocks[flow.par]
     IN pc' = IF Rules.recheck /\ ((b.num = p.num /\ b.signer # p.signer) \/ b.score > flow.score) THEN "top" ELSE "test"
  /\ UNCHANGED <<now, blocks, known, seenAt, best, flow, wake, packs>>

\* ---- the environment ---------------------------------------------------------------------------------------------------
Tick ==
  /\ now < MaxTime
  /\ pc \in {"sync", "failed"} \/ (pc = "sleep" /\ now < wake)
  /\ now' = now + 1
  /\ UNCHANGED <<blocks, known, seenAt, best, pc, flow, wake, packs>>
\* another validator packs in one of its slots, on any existing block, not in the future
Mint ==
  /\ Cardinality(DOMAIN blocks) <= MaxBlocks
  /\ \E p \in DOMAIN blocks, k \in 1..(N + 1) :
       /\ Owner(p, k) # Me /\ SlotTime(p, k) <= now + T \div 2
       /\ blocks' = (NewId :> [par |-> p, num |-> blocks[p].num + 1, time |-> SlotTime(p, k), score |-> blocks[p].score + Inc(k),
                               signer |-> Owner(p, k)]) @@ blocks
  /\ UNCHANGED <<now, known, seenAt, best, pc, flow, wake, packs>>
\* the node imports a block whose parent it has
Import ==
  \E b \in DOMAIN blocks \ known :
    /\ blocks[b].par \in known
    /\ known' = known \cup {b} /\ seenAt' = (b :> now) @@ seenAt
    \* bft.Select: quality first, then score, then id - NOT a function of the score alone; a child beats its own parent
    /\ best' \in (IF blocks[b].par = best THEN {b} ELSE {b, best})
    /\ UNCHANGED <<now, blocks, pc, flow, wake, packs>>

Next == Synced \/ Top \/ PackOK \/ PackFail \/ Retry \/ Sleep \/ Wake \/ Tick \/ Mint \/ Import
Spec == Init /\ [][Next]_vars

\* ---- properties --------------------------------------------------------------------------------------------------------
\* the code's own reason to re-schedule a flow f: a different block at the parent's height is best, or the best outscores f
Outdates(x, f) ==
  \/ blocks[x].num = blocks[f.par].num /\ blocks[x].signer # blocks[f.par].signer
  \/ blocks[x].score > f.score

\* never packs on a stale parent: if the block that was best at the moment of packing outdated the flow, it had arrived in
\* that very second - after the loop's last look (a better best known one tick earlier is always acted upon)
NoStalePack ==
  \A q \in packs : Outdates(q.bestThen, q.flow) => seenAt[q.bestThen] >= q.at

\* packs only inside the slot tolerance: at most T/2 early, less than 2T - buff late
SlotTolerance ==
  \A q \in packs : q.flow.when - q.at < T \div 2 /\ q.at - q.flow.when < 2 * T - Buff

\* never two successful packs for the same parent and slot
OnePerParentSlot ==
  \A q, r \in packs : q.flow.par = r.flow.par /\ q.flow.when = r.flow.when => q = r

\* every own block sits in a slot the node owns
OwnSlotsOnly ==
  \A q \in packs : \E k \in 1..(2 * N + (MaxTime \div T) + 1) : Owner(q.flow.par, k) = Me /\ SlotTime(q.flow.par, k) = q.flow.when

\* ---- statements expected to be REFUTED (facts about the design worth knowing) ---------------------------------------
\* two own blocks with the same timestamp on different parents are possible (the best changed to a block that did not
\* outdate the flow, the own block lost the tie, the next schedule lands on the same second)
X_OnePerSecond == \A q, r \in packs : q.flow.when = r.flow.when => q = r
X_NeverLate == \A q \in packs : q.at <= q.flow.when
X_NeverStaleAtAll == \A q \in packs : q.bestThen = q.flow.par
====
