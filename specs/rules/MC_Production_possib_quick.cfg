SPECIFICATION Spec
CONSTANTS
  Masters = {1, 2, 3}
  Nodes = {1}
  Rules <- AllRules
  MbpCap = 101
  Cfg <- CfgPoS0s
  MaxLive = 4
  MaxNum = 3
  MaxNow = 3
  MaxTx = 0
  MaxBal = 2
  Kinds <- KindsSibQ
  Ords <- OrdId3
  AliasSafe = FALSE
  Window = FALSE
INVARIANT TypeOK
INVARIANT CacheCoherent
INVARIANT CacheExact
INVARIANT PackAccepted
INVARIANT Deterministic
CHECK_DEADLOCK FALSE
