---- MODULE Trace_PackerLoop ----
(* Trace specification for the real packer loop (harness/cmd/production -mode packerloop): a full node started through
   Node.Run packs in real 2 s slots while the harness plays the other validators.  Events carry millisecond wall-clock
   stamps relative to the launch time:  Import (node.processBlock returned for a block of another validator), Pack (an own
   block appeared among the node's heads).  The bookkeeping of PackerLoop.tla (blocks, known, seenAt, best, packs) is
   rebuilt from the events; its property operators are evaluated with the margins real time needs:

     T_OnePerParentSlot   exact: never two own blocks for one (parent, slot)
     T_NotEarly           exact: the loop packs when  now + T/2 > when  on whole seconds, so an own block can never be
                          observed before second  when - T/2 + 1  (observation only delays the stamp)
     T_NotLate            less than 2T - buff after the slot, plus LateMargin
     T_NoStalePack        the NODE's best block (read from the node after every event - the fork choice is the BFT engine's,
                          quality before score) as it stood Margin before the pack, and unchanged since, does not outdate
                          the flow (the loop looks at the best block every second; Margin = 3 s; stamps are conservative:
                          readings carry upper bounds, the pack a lower bound)                              *)
EXTENDS PackerLoop, Json, TraceLib

Trace == LoadTrace("trace.ndjson")
VARIABLES l, ord,
          hist     \* <<[at, best]>>: the node's own best block as read from the node after every event (upper-bound stamps)
tvars == <<now, blocks, known, seenAt, best, pc, flow, wake, packs, l, ord, hist>>

Margin == 3000
LateMargin == 2500
ev == Trace[l]
IsEvent(name) == l <= Len(Trace) /\ Trace[l].e = name
EmptyF == [x \in {} |-> 0]

TBetter(a, b) == blocks[a].score > blocks[b].score \/ (blocks[a].score = blocks[b].score /\ ord[a] < ord[b])
Rec(e) == [par |-> e.par, num |-> e.num, time |-> e.time, score |-> e.score, signer |-> e.signer]
Idle == UNCHANGED <<now, pc, flow, wake>>

TInit == /\ l = 1 /\ HWMInit /\ now = 0 /\ pc = "sync" /\ flow = NoFlow /\ wake = 0
         /\ blocks = EmptyF /\ known = {} /\ seenAt = EmptyF /\ best = "b0" /\ packs = {} /\ ord = EmptyF /\ hist = <<>>
TReset ==
  /\ IsEvent("Reset")
  /\ blocks' = ("b0" :> [par |-> "none", num |-> 0, time |-> 0, score |-> 0, signer |-> -1])
  /\ known' = {"b0"} /\ seenAt' = ("b0" :> 0) /\ best' = "b0" /\ packs' = {} /\ ord' = ev.ord /\ hist' = <<[at |-> 0, best |-> "b0"]>>
  /\ Idle /\ l' = l + 1
TSynced == (IsEvent("Synced") \/ IsEvent("End")) /\ UNCHANGED <<blocks, known, seenAt, best, packs, ord, hist>> /\ Idle /\ l' = l + 1
\* the node's best is the NODE's (bft.Select: quality first, then score, then id): taken from the event, it only has to be a
\* block the node has
Store(e) ==
  /\ e.b \notin known /\ e.par \in known
  /\ blocks' = (e.b :> Rec(e)) @@ blocks
  /\ known' = known \cup {e.b} /\ seenAt' = (e.b :> e.at) @@ seenAt
  /\ e.best \in known'
  /\ best' = e.best
  /\ hist' = Append(hist, [at |-> e.at, best |-> e.best])
TImport == IsEvent("Import") /\ Store(ev) /\ UNCHANGED <<packs, ord>> /\ Idle /\ l' = l + 1
TPack ==
  /\ IsEvent("Pack")
  /\ Store(ev)
  /\ packs' = packs \cup {[b |-> ev.b, at |-> ev.at, lo |-> ev.lo, flow |-> [par |-> ev.par, when |-> ev.time, score |-> ev.score], bestThen |-> best]}
  /\ UNCHANGED ord /\ Idle /\ l' = l + 1
TNext == TReset \/ TSynced \/ TImport \/ TPack
TSpec == TInit /\ [][TNext]_tvars

\* what the node's best block was Margin before the pack at the latest: the last reading stamped at or before lo - Margin
\* (a reading's stamp is an upper bound of the moment the node had that best, lo a lower bound of the moment it packed)
OldIdx(q) == {i \in DOMAIN hist : hist[i].at <= q.lo - Margin /\ hist[i].best # q.b}
StaleBest(q) == hist[CHOOSE i \in OldIdx(q) : \A j \in OldIdx(q) : j <= i].best
\* ... and nothing changed it until the pack (a later reading may show another best; then the node had less than Margin)
Unchanged(q) == \A i \in DOMAIN hist : hist[i].at > q.lo - Margin /\ hist[i].at < q.lo => hist[i].best = StaleBest(q)
T_NoStalePack == \A q \in packs : OldIdx(q) # {} /\ Unchanged(q) => ~Outdates(StaleBest(q), q.flow)
T_NotEarly == \A q \in packs : q.at >= (q.flow.when - T \div 2 + 1) * 1000
T_NotLate == \A q \in packs : q.lo - q.flow.when * 1000 < (2 * T - Buff) * 1000 + LateMargin
T_OnePerParentSlot == OnePerParentSlot

Progress == HWM(l)
TraceAccepted == Accepted(Len(Trace))
====
