---- MODULE Trace_PackerLoop ----
(* Trace specification for the real packer loop (harness/cmd/production -mode packerloop): a full node started through
   Node.Run packs in real 2 s slots while the harness plays the other validators.  Events carry millisecond wall-clock
   stamps relative to the launch time:  Import (node.processBlock returned for a block of another validator), Pack (an own
   block appeared among the node's heads).  The bookkeeping of PackerLoop.tla (blocks, known, seenAt, best, packs) is
   rebuilt from the events; its property operators are evaluated with the margins real time needs:

     T_OnePerParentSlot   exact: never two own blocks for one (parent, slot)
     T_NotEarly           exact: the loop packs when  now + T/2 > when  on whole seconds, so an own block can never be
                          observed before second  when - T/2 + 1  (observation only delays the stamp)
     T_NotLate            less than 2T - buff after the slot, plus LateMargin
     T_NoStalePack        the best of the blocks the node had stored Margin before the pack does not outdate the flow
                          (the loop looks at the best block every second; Margin = 3 s)                              *)
EXTENDS PackerLoop, Json, TraceLib

Trace == LoadTrace("trace.ndjson")
VARIABLES l, ord
tvars == <<now, blocks, known, seenAt, best, pc, flow, wake, packs, l, ord>>

Margin == 3000
LateMargin == 2500
ev == Trace[l]
IsEvent(name) == l <= Len(Trace) /\ Trace[l].e = name
EmptyF == [x \in {} |-> 0]

TBetter(a, b) == blocks[a].score > blocks[b].score \/ (blocks[a].score = blocks[b].score /\ ord[a] < ord[b])
Rec(e) == [par |-> e.par, num |-> e.num, time |-> e.time, score |-> e.score, signer |-> e.signer]
Idle == UNCHANGED <<now, pc, flow, wake>>

TInit == /\ l = 1 /\ HWMInit /\ now = 0 /\ pc = "sync" /\ flow = NoFlow /\ wake = 0
         /\ blocks = EmptyF /\ known = {} /\ seenAt = EmptyF /\ best = "b0" /\ packs = {} /\ ord = EmptyF
TReset ==
  /\ IsEvent("Reset")
  /\ blocks' = ("b0" :> [par |-> "none", num |-> 0, time |-> 0, score |-> 0, signer |-> -1])
  /\ known' = {"b0"} /\ seenAt' = ("b0" :> 0) /\ best' = "b0" /\ packs' = {} /\ ord' = ev.ord
  /\ Idle /\ l' = l + 1
TSynced == IsEvent("Synced") /\ UNCHANGED <<blocks, known, seenAt, best, packs, ord>> /\ Idle /\ l' = l + 1
Store(e) ==
  /\ e.b \notin known /\ e.par \in known
  /\ blocks' = (e.b :> Rec(e)) @@ blocks
  /\ known' = known \cup {e.b} /\ seenAt' = (e.b :> e.at) @@ seenAt
  /\ best' = IF Rec(e).score > blocks[best].score \/ (Rec(e).score = blocks[best].score /\ ord[e.b] < ord[best]) THEN e.b ELSE best
TImport == IsEvent("Import") /\ Store(ev) /\ UNCHANGED <<packs, ord>> /\ Idle /\ l' = l + 1
TPack ==
  /\ IsEvent("Pack")
  /\ Store(ev)
  /\ packs' = packs \cup {[b |-> ev.b, at |-> ev.at, flow |-> [par |-> ev.par, when |-> ev.time, score |-> ev.score], bestThen |-> best]}
  /\ UNCHANGED ord /\ Idle /\ l' = l + 1
TNext == TReset \/ TSynced \/ TImport \/ TPack
TSpec == TInit /\ [][TNext]_tvars

Old(q) == {x \in known : x # q.b /\ seenAt[x] <= q.at - Margin}
StaleBest(q) == CHOOSE x \in Old(q) : \A y \in Old(q) : x = y \/ TBetter(x, y)
T_NoStalePack == \A q \in packs : Old(q) # {} => ~Outdates(StaleBest(q), q.flow)
T_NotEarly == \A q \in packs : q.at >= (q.flow.when - T \div 2 + 1) * 1000
T_NotLate == \A q \in packs : q.at - q.flow.when * 1000 < (2 * T - Buff) * 1000 + LateMargin
T_OnePerParentSlot == OnePerParentSlot

Progress == HWM(l)
TraceAccepted == Accepted(Len(Trace))
====
