SPECIFICATION Spec
CONSTRAINT Progress
POSTCONDITION TraceAccepted
CHECK_DEADLOCK FALSE
