---- MODULE MC_PackerLoop ----
EXTENDS PackerLoop
NoRecheck == [AllRules EXCEPT !.recheck = FALSE]
NoWindow == [AllRules EXCEPT !.window = FALSE]
====
