SPECIFICATION Spec
INVARIANT Promises
CHECK_DEADLOCK FALSE
