SPECIFICATION SSpec
CONSTANTS
  Masters = {1, 2, 3, 4}
  Nodes = {1}
  Rules <- AllRules
  MbpCap = 101
  Cfg <- CfgSimPoS0
  MaxLive = 6
  MaxNum = 8
  MaxNow = 3
  MaxTx = 1
  MaxBal = 2
  Kinds <- KindsSimPoS
  Ords <- OrdTwo4
  AliasSafe = FALSE
  Window = FALSE
  D = 14
  Gal = "0"
INVARIANT Export
INVARIANT CacheCoherent
INVARIANT Deterministic
CHECK_DEADLOCK FALSE
