---- MODULE MC_Production ----
(* Exhaustive exploration of Production.tla.

   The block tree is explored through a WINDOW of at most MaxLive live blocks: Pack adds a block while there is room,
   Prune drops a block that has no live parent any more (its state is never needed again).  Everything the properties
   talk about is local to a block, its parent and the cache entries stored under the two ids, so a window of 2 covers
   every chain of any length (all reachable world states, not only those within a few blocks of genesis), a window of
   3 adds sibling-first / grandparent histories.  With Window = FALSE it is the plain tree of at most MaxLive blocks.

   One node is enough: nodes do not interact, and Restart / Evict / Validate in any order give that node every history
   (cold, warm on the parent, warm on a sibling first, restarted, repeated).  Deterministic compares every result with
   the packer's, so two nodes need not be compared with each other.                                                 *)
EXTENDS Production

CONSTANTS MaxLive,   \* live blocks incl. the oldest one
          MaxNum,    \* highest block number (PoS; PoA configs flatten the number)
          MaxNow,    \* the packer is asked at parent time + 1..MaxNow slots (MaxNow - 1 skipped slots at least)
          MaxTx,     \* transactions of interest per block (0..2)
          MaxBal,    \* endorsor balances stay within 0..MaxBal units
          Kinds,     \* tx kinds on offer
          Ords,      \* order facts on offer
          Window,    \* BOOLEAN
          AliasSafe  \* BOOLEAN: never re-use the id of a pruned block while a cache entry still shares a slice read there
                     \* (needed only when a rule that forbids writing into shared slices is switched off)

Tx(k, m, v) == [k |-> k, m |-> m, v |-> v]
Flat(n) == 0

\* ---- what the generator offers (the semantics of a tx that does not apply - a revert - is in ApplyTx) ---------------
Offered(W) ==
  {tx \in Kinds :
     CASE tx.k = "revoke" -> Len(W.auth) >= 3 /\ tx.m \in Listed(W)
       [] tx.k = "add"    -> tx.m \notin Listed(W)                       \* incl. revoked ones: "already exists" revert
       [] tx.k = "out"    -> TRUE                                        \* incl. an empty endorsor: reverted transfer
       [] tx.k = "in"     -> W.bal[tx.m] < MaxBal
       [] tx.k = "sexit"  -> Cardinality({v \in Range(W.lgo) : W.val[v].exitB = 0}) >= 2
       [] OTHER -> TRUE}
Bags(W) == {<<>>} \cup (IF MaxTx >= 1 THEN {<<a>> : a \in Offered(W)} ELSE {})
                  \cup (IF MaxTx >= 2 THEN {<<a, c>> : a \in Offered(W), c \in Offered(W)} ELSE {})
\* worlds the exploration stays in: somebody can always propose; never a single listed authority (authority.Update is a
\* no-op on an unlinked entry, see SetAct); under PoS somebody stays
Sane(W) ==
  /\ Len(W.auth) >= 2
  /\ Len(PoAView(W)) >= 1
  /\ \A m \in Masters : W.bal[m] <= MaxBal
  /\ PosActive(W) => Cardinality({v \in Range(W.lgo) : W.val[v].exitB = 0}) >= 1

\* the smallest id that names no live block - and, with AliasSafe, no slice behind a cache entry (the id of a pruned block
\* is re-used; harmless as long as nothing is ever written into a shared slice, i.e. with the rules of the code)
UsedIds == DOMAIN blocks \cup (IF AliasSafe THEN UNION {{vcache[n][x].id : x \in DOMAIN vcache[n]} : n \in Nodes} ELSE {})
NewId == CHOOSE i \in 0..(2 * MaxLive + 1) : i \notin UsedIds /\ \A j \in 0..(i - 1) : j \in UsedIds

MCPack ==
  /\ Cardinality(DOMAIN blocks) < MaxLive
  /\ \E par \in DOMAIN blocks :
       /\ blocks[par].num < MaxNum
       /\ \E p \in Masters, now \in 1..MaxNow, txs \in Bags(blocks[par].w), cord \in Ords :
            /\ Pack(NewId, par, p, now, txs, cord, p)
            /\ Sane(blocks'[NewId].w)
MCPrune == Window /\ \E b \in DOMAIN blocks : blocks[b].par = NoBlock /\ Prune(b)
Next ==
  \/ MCPack
  \/ \E n \in Nodes, b \in DOMAIN blocks : Validate(n, b) \/ Evict(n, b)
  \/ \E n \in Nodes : Restart(n)
  \/ MCPrune
Spec == Init /\ [][Next]_vars

\* ---- configurations (records cannot be written in a cfg file) -------------------------------------------------------
AllOne == [m \in Masters |-> 1]
CfgPoA3 == [auth |-> <<1, 2, 3>>, bal |-> AllOne, thr |-> 1, mbp |-> 3, hay |-> FALSE, tp |-> 0, E |-> 2, per |-> 2, queue |-> <<>>, cord |-> <<1, 2, 3, 4>>]
CfgPoA4 == [auth |-> <<1, 2, 3, 4>>, bal |-> AllOne, thr |-> 1, mbp |-> 3, hay |-> FALSE, tp |-> 0, E |-> 2, per |-> 2, queue |-> <<>>, cord |-> <<1, 2, 3, 4>>]
CfgEnd3 == [auth |-> <<1, 2, 3>>, bal |-> [m \in Masters |-> IF m = 3 THEN 0 ELSE 1], thr |-> 1, mbp |-> 3, hay |-> FALSE, tp |-> 0, E |-> 2, per |-> 2,
            queue |-> <<>>, cord |-> <<1, 2, 3>>]
CfgPoS3 == [auth |-> <<1, 2, 3>>, bal |-> [m \in Masters |-> 2], thr |-> 1, mbp |-> 3, hay |-> TRUE, tp |-> 2, E |-> 2, per |-> 2, queue |-> <<1, 2, 3>>,
            cord |-> <<1, 2, 3, 4>>]
CfgPoS0 == [auth |-> <<1, 2, 3>>, bal |-> [m \in Masters |-> 2], thr |-> 1, mbp |-> 3, hay |-> TRUE, tp |-> 0, E |-> 2, per |-> 2, queue |-> <<1, 2, 3>>,
            cord |-> <<1, 2, 3, 4>>]

\* PoS from genesis, epoch far away: sibling / skipped-slot shapes only
CfgPoS0s == [auth |-> <<1, 2, 3>>, bal |-> [m \in Masters |-> 2], thr |-> 1, mbp |-> 3, hay |-> TRUE, tp |-> 0, E |-> 8, per |-> 8,
             queue |-> <<1, 2, 3>>, cord |-> <<1, 2, 3>>]

KindsMember == {Tx("add", 4, 0), Tx("revoke", 1, 0), Tx("revoke", 2, 0), Tx("revoke", 3, 0), Tx("mbp", 0, 2), Tx("mbp", 0, 3),
                Tx("mbp", 0, 4), Tx("mbp", 0, 0)}
KindsMemberQ == {Tx("add", 4, 0), Tx("revoke", 1, 0), Tx("mbp", 0, 2)}
KindsEndorse == {Tx("thr", 0, 1), Tx("thr", 0, 2), Tx("out", 1, 0), Tx("in", 1, 0), Tx("out", 3, 0), Tx("in", 3, 0),
                 Tx("mbp", 0, 2), Tx("mbp", 0, 3)}
KindsEndorseQ == {Tx("thr", 0, 2), Tx("out", 1, 0), Tx("in", 3, 0)}
KindsSibQ == {Tx("out", 1, 0), Tx("in", 3, 0)}
KindsSibM == {Tx("thr", 0, 2), Tx("out", 1, 0), Tx("in", 3, 0), Tx("revoke", 1, 0)}
KindsSibT == {Tx("add", 4, 0), Tx("revoke", 1, 0), Tx("thr", 0, 2), Tx("out", 1, 0), Tx("in", 1, 0), Tx("mbp", 0, 2)}
KindsMixed == KindsMember \cup KindsEndorse
KindsStake == {Tx("sadd", 4, 0), Tx("swd", 4, 0), Tx("sinc", 1, 0), Tx("swd", 1, 0), Tx("sexit", 1, 0), Tx("sexit", 2, 0),
               Tx("sben", 1, 9), Tx("sben", 1, 0), Tx("sben", 2, 9), Tx("mbp", 0, 2)}
KindsStakeQ == {Tx("sadd", 4, 0), Tx("sinc", 1, 0), Tx("sexit", 2, 0), Tx("sben", 1, 9), Tx("sben", 1, 0)}

OrdId3 == {<<1, 2, 3>>}
OrdId4 == {<<1, 2, 3, 4>>}
OrdTwo4 == {<<1, 2, 3, 4>>, <<3, 1, 4, 2>>}

\* rule sets with one rule of the code switched off (teeth)
NoAuthDrop  == [AllRules EXCEPT !.authDrop = FALSE]
NoParamsInv == [AllRules EXCEPT !.paramsInv = FALSE]
NoXferInv   == [AllRules EXCEPT !.xferInv = FALSE]
NoPosSync   == [AllRules EXCEPT !.posSync = FALSE]
NoPosOnline == [AllRules EXCEPT !.posOnline = FALSE]
NoPosBen    == [AllRules EXCEPT !.posBen = FALSE]
NoCow       == [AllRules EXCEPT !.cow = FALSE]            \* Candidates.Update writes into the shared candidate slice
NoPosNoWrite == [AllRules EXCEPT !.posNoWrite = FALSE]    \* the validator writes online/offline updates into the cached leader slice

\* ---- vacuity guards: each of these "never happens" statements must be refuted by the exploration ---------------------
X_NeverHit == \A n \in Nodes : \A b \in DOMAIN blocks : blocks[b].par \in DOMAIN blocks => blocks[b].par \notin DOMAIN vcache[n]
X_NeverMemo == \A n \in Nodes : \A b \in DOMAIN vcache[n] : vcache[n][b].kind = "poa" => vcache[n][b].sat = <<>>
X_NeverInactive == \A b \in DOMAIN blocks : \A i \in DOMAIN blocks[b].w.auth : blocks[b].w.auth[i].act
X_NeverUnendorsed == \A b \in DOMAIN blocks : Len(PoAView(blocks[b].w)) = Min(Len(blocks[b].w.auth), blocks[b].w.mbp)
X_NeverPoS == \A b \in DOMAIN blocks : ~PosActive(blocks[b].w)
X_NeverPosEntry == \A n \in Nodes : \A b \in DOMAIN vcache[n] : vcache[n][b].kind = "poa"
X_NeverExit == \A b \in DOMAIN blocks : \A v \in Masters : blocks[b].w.val[v].st # "exit"
X_NeverHeavier == \A b \in DOMAIN blocks : \A v \in Masters : blocks[b].w.val[v].w <= 1
====
