---- MODULE Production ----
(* C01 - "every block the packer produces is accepted, identically, by every validator".

   Design-level model of the two code paths that have to agree on who may sign a block, when, with which score and
   which activity updates:

     packer     packer/packer.go:Schedule -> poa_scheduler.go:schedulePOA / pos_scheduler.go:schedulePOS
                (always reads the proposer list from the parent's state) -> flow.go:Adopt/Pack
     validator  consensus/validator.go:validate -> poa_validator.go:validateAuthorityProposer /
                pos_validator.go:validateStakingProposer, which take the list from  validatorsCache[parent id]  when it
                is there (LRU keyed by the PARENT block id, a hit is Copy()ed) and from the state otherwise, and whose
                poaCacher.Handle / posCacher.Handle decide what is stored under the id of the validated block.

   A block is an id with a parent pointer.  Per block the model keeps the abstract world state the block commits to:

     auth   the Authority contract list in contract order, <<[m, act]>> ; the endorsor of master m is the account "e(m)",
            identified with m.  gone = revoked masters (authority.Add refuses a non-empty entry: they cannot come back)
     bal    VET balance of e(m) in units, thr = params[proposer-endorsement] in the same unit, mbp = params[max-block-proposers]
     hay    HAYABUSA at genesis (constant of a run), tp its transition period (blocks below tp are PoA)
     val    staker contract per validator [st, w, pq, on, ben, start, exitB], lgo = leader group (active list, contract
            order), queue = queued list, rl = renewal list

   and per validator NODE the cache  vcache[n][block id] :
     PoA    [kind |-> "poa", list |-> <<[m, act]>> (scheduler.Candidates.list after this block's activity updates),
             sat |-> memoised index list `satisfied` (<<>> = nil), id]       Candidates.endorsors = masters of list
     PoS    [kind |-> "pos", lg |-> <<[a, act, w, ben]>>, id]                ([]validation.Leader)
            id names the Go slice behind the entry: entries with the same id share it (see WriteShared)

   The scheduler itself (who owns which slot, who is switched off, the score) is sched/Scheduler.tla (C05); the order
   fact `cord` of a block (order of all addresses for the children of that block: blake2b / weighted random sort) is an
   oracle, chosen from Ords when the block is made.  Time is relative: T = 1, parent time 0, a block carries its slot.

   Tx kinds ([k |-> ...] records) and their effect on the abstract world are in ApplyTx; a kind whose precondition does
   not hold is a REVERTED transaction: no effect, no event - exactly what the real receipts show.

   Rules is a record of switches, one per cache rule of the code; all TRUE is the code as it is.  Switching one off
   must break CacheCoherent (the teeth configs).

   Named rules (where the model states them / how the driver reports a breach on the real code):
     R-ENTITLED   the entitled proposer set (and its activity flags) for the children of a block is a function of that block's
                  committed state only: PoAView / LGView o SyncPOS; a cache entry may only stand in for it (CacheCoherent)
                  [rejected:<history>:signer-invalid | timestamp-unscheduled | total-score-invalid]
     R-ORDER      the slot order (seed) for the children of a block is a fact of that block and ITS OWN chain (field cord of
                  the parent), never of what happens to be the best chain when somebody looks  [rejected:late-cold:..., seeder:...]
     R-EARLIEST   the packer takes the EARLIEST slot >= now that the validator-side IsTheTime grants the signer
                  (PackerPlan.slot = S!Schedule, Scheduler!ScheduleIsEarliest)                     [packer:not-earliest-slot]
     R-BENEFICIARY beneficiary = the staker-registered one if set, else the node's option, else the endorsor
                  (PackerPlan.benef; the validator insists only on a registered one)  [rejected:...:beneficiary-mismatch]
     R-UPDATES    packer and validator switch the same proposers off/on before the first tx (ApplyUpd with S!UpdOff/UpdOn
                  of the slot TAKEN)                                                   [rejected:...:state-root-mismatch]
     R-PICK       both sides pick the first min(max-block-proposers, MbpCap) endorsed candidates (SatFlags)   [pick-mismatch]
     R-SKIP       a tx the packer cannot start executing leaves no trace in the block's state (kind "abort")
     R-DEP        flow.Adopt takes a tx with DependsOn only if the dependency is FOUND - included earlier on this chain or
                  adopted earlier in this very flow - AND NOT REVERTED; otherwise the tx is not adoptable (now / ever) and
                  stays out of the block (DepAdoptable; kind "dep")   [packer:adopt-dependency, rejected:...:tx-dep]

   Validator histories are sequences of the actions below on one node: cold (nothing cached: after Restart / Evict),
   warm on the parent (Validate(parent) before), warm on a sibling (Validate(sibling) first - it reads, and may share,
   the parent's entry), repeated (Validate twice), restarted.  The conflicts ordinal a validator is given does not occur:
   nothing in the abstract state depends on it; on the real code it is exercised and ObsDeterministic (trace spec)
   requires the same roots for every ordinal.                                                                       *)
EXTENDS Integers, Sequences, FiniteSets, TLC

CONSTANTS Masters,   \* universe of node masters / validators (positive naturals)
          Nodes,     \* validator nodes
          Rules,     \* [authDrop, paramsInv, xferInv, stakerInv, cow, posSync, posOnline, posBen, posNoWrite : BOOLEAN]
          Cfg,       \* initial world, see InitWorld
          MbpCap     \* thor.InitialMaxBlockProposers (101)

S == INSTANCE Scheduler WITH MaxPosScore <- 10000, V1Walk <- 101

VARIABLES blocks,    \* block id -> [par, num, p, slot, score, benef, txs, w, cord]
          vcache,    \* node -> (block id -> cache entry)
          res        \* block id -> set of validation results [ok, why, w] seen so far (any node, any history)
vars == <<blocks, vcache, res>>

NoBlock == -1       \* "no parent (any more)"; block ids are naturals here, the trace specification overrides both with strings
Genesis == 0
Min(a, b) == IF a < b THEN a ELSE b
Range(s) == {s[i] : i \in DOMAIN s}
Without(f, x) == [y \in DOMAIN f \ {x} |-> f[y]]
EmptyF == [y \in {} |-> 0]
NumOf(n) == n          \* overridden by configs in which nothing depends on the height (PoA): keeps the window model finite
SeqWithout(s, x) == SelectSeq(s, LAMBDA y : y # x)
AllRules == [authDrop |-> TRUE, paramsInv |-> TRUE, xferInv |-> TRUE, stakerInv |-> TRUE, cow |-> TRUE,
             posSync |-> TRUE, posOnline |-> TRUE, posBen |-> TRUE, posNoWrite |-> TRUE]

\* ================================================================================================== the world state
NoVal == [st |-> "none", w |-> 0, pq |-> 0, on |-> TRUE, ben |-> 0, start |-> 0, exitB |-> 0]

\* c = [auth : Seq(master), bal : master -> units, thr, mbp, hay, tp, E, per, queue : Seq(master), cord]
\* E = thor.EpochLength, per = the staking period of every validation (a multiple of E): constants of a run
\* hay: HAYABUSA at genesis, tp = its transition period in blocks (0: genesis itself runs Housekeep(0), PoS from block 1)
QueuedWorld(c) ==
  [auth |-> [i \in DOMAIN c.auth |-> [m |-> c.auth[i], act |-> TRUE]], gone |-> {}, bal |-> c.bal, thr |-> c.thr,
   mbp |-> c.mbp, hay |-> c.hay, tp |-> c.tp, E |-> c.E, per |-> c.per,
   val |-> [v \in Masters |-> IF v \in Range(c.queue) THEN [NoVal EXCEPT !.st = "queued", !.pq = 1] ELSE NoVal],
   lgo |-> <<>>, queue |-> c.queue, rl |-> {}]

Listed(W) == {W.auth[i].m : i \in DOMAIN W.auth}
Endorsed(W, m) == W.bal[m] >= W.thr          \* TransitionPeriodBalanceCheck with no queued stake behind an endorsor
PosActive(W) == Len(W.lgo) > 0               \* staker.IsPoSActive

\* ---- scheduler.Candidates.Pick ------------------------------------------------------------------------------------
\* thor.GetMaxBlockProposers(params, capToInitial): 0 means the initial value; PoA (packer AND validator) also caps at it
EffMbp(mbp, cap) == IF mbp = 0 \/ (cap /\ mbp > MbpCap) THEN MbpCap ELSE mbp
\* the first `limit` candidates whose endorsor is endorsed (flags in list order), as indices into the list
RECURSIVE SatFrom(_, _, _, _)
SatFrom(flags, limit, i, acc) ==
  IF i > Len(flags) \/ Len(acc) >= limit THEN acc
  ELSE SatFrom(flags, limit, i + 1, IF flags[i] THEN Append(acc, i) ELSE acc)
SatFlags(flags, mbp) == SatFrom(flags, EffMbp(mbp, TRUE), 1, <<>>)
ComputeSat(list, W) == SatFlags([i \in DOMAIN list |-> Endorsed(W, list[i].m)], W.mbp)
PickWith(list, sat) == [k \in 1..Len(sat) |-> [a |-> list[sat[k]].m, act |-> list[sat[k]].act, w |-> 0, ben |-> 0]]
\* len(c.satisfied) == 0  =>  recompute and memoise;  otherwise the memoised indices are used without looking at the state
Pick(entry, W) == LET sat == IF Len(entry.sat) = 0 THEN ComputeSat(entry.list, W) ELSE entry.sat
                  IN [view |-> PickWith(entry.list, sat), sat |-> sat]
ColdEntry(W) == [kind |-> "poa", list |-> W.auth, sat |-> <<>>, id |-> NoBlock]   \* NewCandidates(authority.AllCandidates())
PoAView(W) == Pick(ColdEntry(W), W).view                                \* = authority.Candidates(checker, mbp): the packer

\* ---- staker.LeaderGroup -------------------------------------------------------------------------------------------
LGView(W) == [k \in 1..Len(W.lgo) |-> [a |-> W.lgo[k], act |-> W.val[W.lgo[k]].on, w |-> W.val[W.lgo[k]].w,
                                       ben |-> W.val[W.lgo[k]].ben]]
RECURSIVE SumW(_, _)
SumW(W, s) == IF s = <<>> THEN 0 ELSE W.val[Head(s)].w + SumW(W, Tail(s))
TotalWeight(W) == SumW(W, W.lgo)                                        \* staker.LockedStake (no delegations here)

\* ---- staker.SyncPOS: PoA -> PoS transition and epoch housekeeping (housekeep.go) -----------------------------------
Renewals(W, num) == {v \in W.rl : W.val[v].st = "active" /\ (num - W.val[v].start) % W.per = 0 /\ W.val[v].exitB = 0}
Exiting(W, num)  == {v \in Range(W.lgo) : W.val[v].exitB = num}
ActivationCount(W, num) ==
  LET l == Len(W.lgo) - Cardinality(Exiting(W, num))
      m == EffMbp(W.mbp, FALSE)                                  \* the staker does not cap
  IN IF l >= m \/ Len(W.queue) = 0 THEN 0 ELSE Min(m - l, Len(W.queue))
HasUpdates(W, num) == Renewals(W, num) # {} \/ Exiting(W, num) # {} \/ ActivationCount(W, num) > 0
Epoch(W, num) ==
  LET rn  == Renewals(W, num)
      ex  == Exiting(W, num)
      cnt == ActivationCount(W, num)
      act == SubSeq(W.queue, 1, cnt)
      v1  == [v \in Masters |->
                IF v \in ex THEN [W.val[v] EXCEPT !.st = "exit", !.w = 0, !.pq = 0]
                ELSE IF v \in rn THEN [W.val[v] EXCEPT !.w = @ + W.val[v].pq, !.pq = 0]
                ELSE IF v \in Range(act) THEN [W.val[v] EXCEPT !.st = "active", !.w = W.val[v].pq, !.pq = 0, !.start = num,
                                                               !.on = TRUE]
                ELSE W.val[v]]
  IN [W EXCEPT !.val = v1, !.rl = (@ \ rn) \ ex,
               !.lgo = SelectSeq(@, LAMBDA v : v \notin ex) \o act,
               !.queue = SubSeq(@, cnt + 1, Len(@))]
InitWorld(c) == IF c.hay /\ c.tp = 0 THEN Epoch(QueuedWorld(c), 0) ELSE QueuedWorld(c)

SyncPOS(W, num) ==
  IF ~W.hay \/ num < W.tp THEN [w |-> W, active |-> FALSE, upd |-> FALSE]
  ELSE IF ~PosActive(W)
       THEN IF (W.tp = 0 \/ num % W.tp = 0) /\ num % W.E = 0 /\ Len(W.queue) * 3 >= EffMbp(W.mbp, FALSE) * 2 /\ ActivationCount(W, num) > 0
            THEN [w |-> Epoch(W, num), active |-> TRUE, upd |-> TRUE]
            ELSE [w |-> W, active |-> FALSE, upd |-> FALSE]
       ELSE IF num % W.E = 0 /\ HasUpdates(W, num)
            THEN [w |-> Epoch(W, num), active |-> TRUE, upd |-> TRUE]     \* status.Active was read before Housekeep
            ELSE [w |-> W, active |-> TRUE, upd |-> FALSE]

\* ---- activity updates of a block -----------------------------------------------------------------------------------
\* authority.Update: nothing happens for an entry that is not linked - the ONLY listed candidate has neither prev nor next
SetAct(list, linkedOnly, off, on) ==
  IF linkedOnly /\ Len(list) = 1 THEN list
  ELSE [i \in DOMAIN list |-> IF list[i].m \in off THEN [list[i] EXCEPT !.act = FALSE]
                              ELSE IF list[i].m \in on THEN [list[i] EXCEPT !.act = TRUE] ELSE list[i]]
ApplyUpd(W, pos, off, on) ==
  IF pos THEN [W EXCEPT !.val = [v \in Masters |-> IF v \in off THEN [W.val[v] EXCEPT !.on = FALSE]
                                                   ELSE IF v \in on THEN [W.val[v] EXCEPT !.on = TRUE] ELSE W.val[v]]]
  ELSE [W EXCEPT !.auth = SetAct(@, TRUE, off, on)]

\* ---- transactions ---------------------------------------------------------------------------------------------------
NoFlags == [au |-> FALSE, pa |-> FALSE, sk |-> FALSE, be |-> FALSE, xf |-> {}]
ExitAt(W, b) == {v \in Masters : W.val[v].exitB = b}
RECURSIVE FreeExit(_, _, _)
FreeExit(W, b, fuel) == IF fuel = 0 THEN 0 ELSE IF ExitAt(W, b) = {} THEN b ELSE FreeExit(W, b + W.E, fuel - 1)
\* result [w, f]: the world after the tx and what its receipt shows (f.au Authority event, f.pa Params event, f.sk Staker
\* event, f.be BeneficiarySet event, f.xf accounts that are sender or recipient of a VET transfer)
ApplyTx(W, tx, num) ==
  LET same == [w |-> W, f |-> NoFlags] IN
  CASE tx.k = "add" ->
         IF tx.m \in Listed(W) \/ tx.m \in W.gone THEN same
         ELSE [w |-> [W EXCEPT !.auth = Append(@, [m |-> tx.m, act |-> TRUE])], f |-> [NoFlags EXCEPT !.au = TRUE]]
    [] tx.k = "revoke" ->
         IF tx.m \notin Listed(W) \/ Len(W.auth) < 2 THEN same
         ELSE [w |-> [W EXCEPT !.auth = SelectSeq(@, LAMBDA c : c.m # tx.m), !.gone = @ \cup {tx.m}],
               f |-> [NoFlags EXCEPT !.au = TRUE]]
    [] tx.k = "thr" -> [w |-> [W EXCEPT !.thr = tx.v], f |-> [NoFlags EXCEPT !.pa = TRUE]]
    [] tx.k = "mbp" -> [w |-> [W EXCEPT !.mbp = tx.v], f |-> [NoFlags EXCEPT !.pa = TRUE]]
    [] tx.k = "out" ->
         IF W.bal[tx.m] < 1 THEN same
         ELSE [w |-> [W EXCEPT !.bal[tx.m] = @ - 1], f |-> [NoFlags EXCEPT !.xf = {tx.m}]]
    [] tx.k = "in" -> [w |-> [W EXCEPT !.bal[tx.m] = @ + 1], f |-> [NoFlags EXCEPT !.xf = {tx.m}]]
    [] tx.k = "sadd" ->
         \* staker_native.go: before PoS is active only a listed authority (endorsed by the sender) may queue
         IF ~W.hay \/ W.val[tx.m].st # "none" \/ (~PosActive(W) /\ tx.m \notin Listed(W)) THEN same
         ELSE [w |-> [W EXCEPT !.val[tx.m] = [NoVal EXCEPT !.st = "queued", !.pq = 1], !.queue = Append(@, tx.m)],
               f |-> [NoFlags EXCEPT !.sk = TRUE, !.xf = {tx.m}]]
    [] tx.k = "sinc" ->
         IF W.val[tx.m].st # "active" \/ W.val[tx.m].exitB # 0 THEN same
         ELSE [w |-> [W EXCEPT !.val[tx.m].pq = @ + 1, !.rl = @ \cup {tx.m}],
               f |-> [NoFlags EXCEPT !.sk = TRUE, !.xf = {tx.m}]]
    [] tx.k = "swd" ->
         IF W.val[tx.m].st = "queued"
         THEN [w |-> [W EXCEPT !.val[tx.m] = [@ EXCEPT !.st = "exit", !.pq = 0], !.queue = SeqWithout(@, tx.m)],
               f |-> [NoFlags EXCEPT !.sk = TRUE, !.xf = {tx.m}]]
         ELSE IF W.val[tx.m].st = "active"
         THEN [w |-> [W EXCEPT !.val[tx.m].pq = 0], f |-> [NoFlags EXCEPT !.sk = TRUE, !.xf = {tx.m}]]
         ELSE same
    [] tx.k = "sexit" ->
         IF W.val[tx.m].st # "active" \/ W.val[tx.m].exitB # 0 THEN same
         ELSE LET v == W.val[tx.m]
                  b == FreeExit(W, v.start + W.per * ((num - v.start) \div W.per + 1), 20)
              IN IF b = 0 THEN same
                 ELSE [w |-> [W EXCEPT !.val[tx.m].exitB = b], f |-> [NoFlags EXCEPT !.sk = TRUE]]
    [] tx.k = "sben" ->
         IF W.val[tx.m].st \notin {"queued", "active"} \/ W.val[tx.m].exitB # 0 THEN same
         ELSE [w |-> [W EXCEPT !.val[tx.m].ben = tx.v], f |-> [NoFlags EXCEPT !.sk = TRUE, !.be = TRUE]]
    [] OTHER -> same      \* "plain", "reverted", "dep": nothing the proposer machinery looks at; "abort": skipped by the packer
\* R-DEP: the per-tx verdict of flow.Adopt on a dependent tx (a validator rejects the whole block otherwise)
DepAdoptable(found, reverted) == found /\ ~reverted
OrFlags(a, b) == [au |-> a.au \/ b.au, pa |-> a.pa \/ b.pa, sk |-> a.sk \/ b.sk, be |-> a.be \/ b.be, xf |-> a.xf \cup b.xf]
RECURSIVE ApplyTxs(_, _, _, _)
ApplyTxs(W, f, txs, num) ==
  IF txs = <<>> THEN [w |-> W, f |-> f]
  ELSE LET r == ApplyTx(W, Head(txs), num) IN ApplyTxs(r.w, OrFlags(f, r.f), Tail(txs), num)

\* ================================================================================================== both code paths
Inst(kind, view, cord, total) ==
  [kind |-> kind, T |-> 1, pt |-> 0, list |-> view, ord |-> SelectSeq(cord, LAMBDA x : x \in S!Addrs([list |-> view])),
   total |-> total, dp |-> <<>>]
BenOf(view, p) == LET hit == {i \in DOMAIN view : view[i].a = p} IN
                  IF hit = {} THEN 0 ELSE view[CHOOSE i \in hit : TRUE].ben

\* ---- packer.Schedule: always from the state of the parent -------------------------------------------------------
\* opt: the packer's own beneficiary choice (node option, else the endorsor); a staker-set beneficiary outranks it
PackerPlan(P, p, now, opt) ==
  LET num == P.num + 1
      sp  == SyncPOS(P.w, num)
      view == IF sp.active THEN LGView(sp.w) ELSE PoAView(sp.w)
      I   == Inst(IF sp.active THEN "pos" ELSE "v2", view, P.cord, TotalWeight(sp.w))
  IN IF ~S!CtorOK(I, p) THEN [ok |-> FALSE]
     ELSE LET t == S!Schedule(I, p, now) IN
          [ok |-> TRUE, num |-> num, slot |-> t, score |-> S!Score(I, p, t), off |-> S!UpdOff(I, p, t),
           on |-> S!UpdOn(I, p), pos |-> sp.active, w |-> sp.w,
           benef |-> IF sp.active /\ BenOf(view, p) # 0 THEN BenOf(view, p) ELSE opt]

\* ---- consensus.validate on node n ----------------------------------------------------------------------------------
\* the cache as validateXProposer sees it: a SyncPOS with updates removes the parent's entry first
CacheSeen(n, par, sp) == IF sp.upd /\ Rules.posSync /\ par \in DOMAIN vcache[n] THEN Without(vcache[n], par) ELSE vcache[n]

Reject(why, cache) == [ok |-> FALSE, why |-> why, w |-> <<>>, cache |-> cache]

\* Aliasing.  A cache entry holds a Go slice: several entries of one node may share it (a PoS hit stores the very slice it
\* found; a PoA hit Copy()s the Candidates struct, the candidate slice stays shared until Update() clones it).  `id` of an
\* entry names the slice ( = the block at which it was read from the state / cloned).  The code never writes into a shared
\* slice; with Rules.cow / Rules.posNoWrite off it does, and every entry sharing the slice changes with it.
WriteShared(cs, kind, id, field, v) ==
  [x \in DOMAIN cs |-> IF cs[x].kind = kind /\ cs[x].id = id THEN [cs[x] EXCEPT ![field] = v] ELSE cs[x]]
SetOn(leaders, off, on) ==
  [k \in DOMAIN leaders |-> IF leaders[k].a \in off THEN [leaders[k] EXCEPT !.act = FALSE]
                            ELSE IF leaders[k].a \in on THEN [leaders[k] EXCEPT !.act = TRUE] ELSE leaders[k]]

VResult(n, b) ==
  LET B   == blocks[b]
      P   == blocks[B.par]
      sp  == SyncPOS(P.w, B.num)
      cs  == CacheSeen(n, B.par, sp)
      hit == B.par \in DOMAIN cs
  IN
  IF sp.active
  THEN \* ------------------------------------------------------------------------------ validateStakingProposer
    LET hitS == hit /\ cs[B.par].kind = "pos" /\ Len(cs[B.par].lg) > 0
        leaders == IF hitS THEN cs[B.par].lg ELSE LGView(sp.w)            \* a hit is the cached slice itself
        sid == IF hitS THEN cs[B.par].id ELSE b
        I == Inst("pos", leaders, P.cord, TotalWeight(sp.w))
    IN IF ~S!CtorOK(I, B.p) THEN Reject("signer", cs)
       ELSE IF ~S!IsTheTime(I, B.p, B.slot) THEN Reject("unscheduled", cs)
       ELSE IF S!Score(I, B.p, B.slot) # B.score THEN Reject("score", cs)
       ELSE IF BenOf(leaders, B.p) # 0 /\ BenOf(leaders, B.p) # B.benef THEN Reject("beneficiary", cs)
       ELSE LET off == S!UpdOff(I, B.p, B.slot)
                on  == S!UpdOn(I, B.p)
                upd == off \cup on # {}
                r   == ApplyTxs(ApplyUpd(sp.w, TRUE, off, on), NoFlags, B.txs, B.num)
                \* not the code: the updates are written into the leader slice (and the slice kept for this block)
                wr  == upd /\ ~Rules.posNoWrite
                lw  == IF wr THEN SetOn(leaders, off, on) ELSE leaders
                cw  == IF wr THEN WriteShared(cs, "pos", sid, "lg", lw) ELSE cs
            IN IF r.w # B.w THEN Reject("state root", cw)
               ELSE [ok |-> TRUE, why |-> "", w |-> r.w,
                     cache |-> IF (upd /\ Rules.posOnline /\ ~wr) \/ (r.f.be /\ Rules.posBen) THEN cw      \* noOpCacher / skip
                               ELSE (b :> [kind |-> "pos", lg |-> lw, id |-> sid]) @@ cw]
  ELSE \* ------------------------------------------------------------------------------ validateAuthorityProposer
    LET hitA == hit /\ cs[B.par].kind = "poa"
        entry == IF hitA THEN cs[B.par] ELSE [ColdEntry(sp.w) EXCEPT !.id = b]              \* a hit is Copy()ed
        pk == Pick(entry, sp.w)
        I  == Inst("v2", pk.view, P.cord, 0)
    IN IF ~S!CtorOK(I, B.p) THEN Reject("signer", cs)
       ELSE IF ~S!IsTheTime(I, B.p, B.slot) THEN Reject("unscheduled", cs)
       ELSE IF S!Score(I, B.p, B.slot) # B.score THEN Reject("score", cs)
       ELSE LET off == S!UpdOff(I, B.p, B.slot)
                on  == S!UpdOn(I, B.p)
                upd == off \cup on # {}
                r   == ApplyTxs(ApplyUpd(sp.w, FALSE, off, on), NoFlags, B.txs, B.num)
                \* candidates.Update on the copy: the shared slice is cloned first (copy-on-write) - unless Rules.cow is off
                nl  == SetAct(entry.list, FALSE, off, on)
                wr  == hitA /\ upd /\ ~Rules.cow
                cw  == IF wr THEN WriteShared(cs, "poa", entry.id, "list", nl) ELSE cs
                e1  == [kind |-> "poa", list |-> nl, sat |-> pk.sat, id |-> IF hitA /\ upd /\ ~wr THEN b ELSE entry.id]
                inv == \/ Rules.paramsInv /\ r.f.pa
                       \/ Rules.stakerInv /\ sp.w.hay /\ r.f.sk
                       \/ Rules.xferInv /\ r.f.xf \cap {e1.list[i].m : i \in DOMAIN e1.list} # {}      \* IsEndorsor
            IN IF r.w # B.w THEN Reject("state root", cw)
               ELSE [ok |-> TRUE, why |-> "", w |-> r.w,
                     cache |-> IF Rules.authDrop /\ r.f.au THEN cw                                   \* Handle returns nil
                               ELSE (b :> (IF inv THEN [e1 EXCEPT !.sat = <<>>] ELSE e1)) @@ cw]

\* ================================================================================================== actions
Init ==
  /\ blocks = (Genesis :> [par |-> NoBlock, num |-> 0, p |-> 0, slot |-> 0, score |-> 0, benef |-> 0, txs |-> <<>>,
                           w |-> InitWorld(Cfg), cord |-> Cfg.cord])
  /\ vcache = [n \in Nodes |-> EmptyF]
  /\ res = (Genesis :> {})

\* proposer p packs block b on parent par with the transactions txs at its earliest own slot >= now
Pack(b, par, p, now, txs, cord, opt) ==
  /\ b \notin DOMAIN blocks /\ par \in DOMAIN blocks
  /\ LET pl == PackerPlan(blocks[par], p, now, opt) IN
     /\ pl.ok
     /\ LET r == ApplyTxs(ApplyUpd(pl.w, pl.pos, pl.off, pl.on), NoFlags, txs, pl.num) IN
        blocks' = (b :> [par |-> par, num |-> NumOf(pl.num), p |-> p, slot |-> pl.slot, score |-> pl.score, benef |-> pl.benef,
                         txs |-> txs, w |-> r.w, cord |-> cord]) @@ blocks
  /\ res' = (b :> {}) @@ res
  /\ UNCHANGED vcache

\* node n runs consensus.Process on block b (its parent's state must be at hand)
Validate(n, b) ==
  /\ b \in DOMAIN blocks /\ blocks[b].par \in DOMAIN blocks
  /\ LET r == VResult(n, b) IN
     /\ vcache' = [vcache EXCEPT ![n] = r.cache]
     /\ res' = [res EXCEPT ![b] = @ \cup {[ok |-> r.ok, why |-> r.why, w |-> r.w]}]
  /\ UNCHANGED blocks

Restart(n) == DOMAIN vcache[n] # {} /\ vcache' = [vcache EXCEPT ![n] = EmptyF] /\ UNCHANGED <<blocks, res>>
\* the LRU drops an entry (capacity 16 is never reached inside the bounds; any eviction is allowed instead)
Evict(n, b) == b \in DOMAIN vcache[n] /\ vcache' = [vcache EXCEPT ![n] = Without(@, b)] /\ UNCHANGED <<blocks, res>>

\* the block leaves the part of the tree the model looks at (its state is never needed again); children stay as orphans.
\* An orphan can never be validated again, so what only validation reads (signer, slot, score, txs, results) is blanked.
Orphan(B) == [B EXCEPT !.par = NoBlock, !.p = 0, !.slot = 0, !.score = 0, !.benef = 0, !.txs = <<>>]
Prune(b) ==
  /\ b \in DOMAIN blocks /\ Cardinality(DOMAIN blocks) > 1
  /\ blocks' = [c \in DOMAIN blocks \ {b} |-> IF blocks[c].par = b THEN Orphan(blocks[c]) ELSE blocks[c]]
  /\ vcache' = [n \in Nodes |-> IF b \in DOMAIN vcache[n] THEN Without(vcache[n], b) ELSE vcache[n]]
  /\ res' = [c \in DOMAIN blocks \ {b} |-> IF blocks[c].par = b THEN {} ELSE res[c]]

\* ================================================================================================== properties
\* what a validator without a cache computes for the children of block b
ColdChildView(b) == LET W == blocks[b].w
                        sp == SyncPOS(W, blocks[b].num + 1)
                    IN IF sp.active THEN LGView(sp.w) ELSE PoAView(sp.w)

\* every cached entry yields the proposer list a cold validator would compute from the state of that block
CacheCoherent ==
  \A n \in Nodes : \A b \in DOMAIN vcache[n] : b \in DOMAIN blocks =>
    LET e  == vcache[n][b]
        sp == SyncPOS(blocks[b].w, blocks[b].num + 1)
    IN IF e.kind = "poa"
       THEN ~sp.active => Pick(e, sp.w).view = PoAView(sp.w)
       ELSE (sp.active /\ ~(sp.upd /\ Rules.posSync)) => e.lg = LGView(sp.w)

\* stronger, internal: the cached candidate list is the contract's list (also beyond maxBlockProposers)
CacheExact ==
  \A n \in Nodes : \A b \in DOMAIN vcache[n] : b \in DOMAIN blocks /\ vcache[n][b].kind = "poa" =>
    vcache[n][b].list = blocks[b].w.auth

\* whatever a node has in its cache, it accepts every packed block whose parent it has - with the packer's numbers
PackAccepted ==
  \A n \in Nodes : \A b \in DOMAIN blocks : blocks[b].par \in DOMAIN blocks => VResult(n, b).ok

\* verdict and resulting state are functions of the block (and its ancestors) only
Deterministic ==
  \A b \in DOMAIN res : \A r \in res[b] : r.ok /\ r.w = blocks[b].w

TypeOK ==
  /\ \A b \in DOMAIN blocks : blocks[b].par \in DOMAIN blocks \cup {NoBlock}
  /\ DOMAIN res = DOMAIN blocks
  /\ \A n \in Nodes : DOMAIN vcache[n] \subseteq DOMAIN blocks
====
