SPECIFICATION Spec
CONSTANTS
  Masters = {1, 2, 3, 4}
  Nodes = {1}
  Rules <- AllRules
  MbpCap = 3
  Cfg <- CfgPoA3
  MaxLive = 2
  MaxNum = 1
  MaxNow = 2
  MaxTx = 2
  MaxBal = 2
  Kinds <- KindsMember
  Ords <- OrdId4
  AliasSafe = FALSE
  Window = TRUE
  NumOf <- Flat
INVARIANT TypeOK
INVARIANT CacheCoherent
INVARIANT CacheExact
INVARIANT PackAccepted
INVARIANT Deterministic
CHECK_DEADLOCK FALSE
