---- MODULE MC_BlockRulesBaseFee ----
(* C02 - the base-fee recurrence of BlockRules.tla at REAL scale and at a small stand-in scale.
   One state per case (parent gas limit, parent gas used, parent base fee). TLC evaluates ChildBaseFee on every case,
   checks what the protocol promises about the result, and the case table is exported; cmd/blockrules replays every
   exported case on the real consensus header validation (a correctly signed child of a parent header with exactly
   these three fields): the protocol value is accepted, value+1 / value-1 and the value of a plausible wrong
   transcription (target computed divide-first) are rejected.
   Real scale: gas limits that are and are not multiples of 100 (40_000_050, 39_999_999, 10_000_001, ...), gas used
   below / one below / at / one above / far above the target and at the limit, base fee at the floor, one above it and
   well above it.  Small scale: floor 100, native-integer formula == BigNat formula on a dense grid.                *)
EXTENDS BlockRules, TLC, Json

GasLimits == {40000050, 39999999, 10000001, 40000000, 30000033, 1000001, 2000050, 12345678}
Fees == {InitialBaseFee, Add(InitialBaseFee, One), Add(InitialBaseFee, DivI(InitialBaseFee, 4)),
         Add(MulSmall(InitialBaseFee, 7), FromInt(12345)), Mul(InitialBaseFee, FromInt(100000))}

TargetInt(gl) == ToInt(TargetOf(FromInt(gl)))
Usages(gl) == LET t == TargetInt(gl)
              IN {0, t \div 2, t - 1, t, t + 1, t + (gl - t) \div 2, gl - 21000, gl}

\* the wrong transcription the replay must tell apart: divide first, then multiply
DivFirstTarget(gl) == MulSmall(DivI(gl, 100), TargetPercent)
ChildDivFirst(gl, gu, bf) ==
  LET target == DivFirstTarget(gl)
  IN IF Eq(gu, target) THEN Norm(bf)
     ELSE IF GT(gu, target)
          THEN Add(bf, Max(DivI(Div(Mul(bf, Sub(gu, target)), target), ChangeDenominator), One))
          ELSE Max(Monus(bf, DivI(Div(Mul(bf, Sub(target, gu)), target), ChangeDenominator)), InitialBaseFee)

CaseOf(gl, gu, bf) == [gl |-> gl, gu |-> gu, bf |-> bf, next |-> ChildBaseFee(FromInt(gl), FromInt(gu), bf),
                       alt |-> ChildDivFirst(FromInt(gl), FromInt(gu), bf)]
Cases == UNION {UNION {{CaseOf(gl, gu, bf) : bf \in Fees} : gu \in Usages(gl)} : gl \in GasLimits}

\* ---- small stand-in scale: the same formula in native integers -------------------------------------------------
Floor == 100
NMax(a, b) == IF a > b THEN a ELSE b
NativeChild(gl, gu, bf) ==
  LET t == (gl * 75) \div 100
  IN IF gu = t THEN bf
     ELSE IF gu > t THEN bf + NMax(((bf * (gu - t)) \div t) \div 8, 1)
     ELSE NMax(bf - ((bf * (t - gu)) \div t) \div 8, Floor)
SmallOK == \A gl \in 100..116 : \A gu \in 0..gl : \A bf \in {100, 107, 250, 4321} :
              ChildBaseFeeF(FromInt(gl), FromInt(gu), FromInt(bf), FromInt(Floor)) = FromInt(NativeChild(gl, gu, bf))
ASSUME SmallOK

VARIABLE c
Init == c \in Cases
Next == UNCHANGED c
Spec == Init /\ [][Next]_c

\* what the protocol promises (every c.bf is >= the floor, c.gu <= c.gl)
Promises ==
  LET gl == FromInt(c.gl)  gu == FromInt(c.gu)  t == TargetOf(gl)
  IN /\ Eq(gu, t) => c.next = Norm(c.bf)
     /\ GT(gu, t) => /\ GT(c.next, c.bf)
                     /\ LE(Sub(c.next, c.bf), Add(DivI(c.bf, ChangeDenominator), One))
     /\ LT(gu, t) => /\ LE(c.next, c.bf) /\ GE(c.next, InitialBaseFee)
                     /\ LE(Sub(Norm(c.bf), c.next), DivI(c.bf, ChangeDenominator))
     \* more usage never gives a lower fee
     /\ c.gu < c.gl => GE(ChildBaseFee(gl, FromInt(c.gu + 1), c.bf), c.next)
     \* the multiply-first target: 40_000_050 -> 30_000_037
     /\ ToInt(t) = (c.gl \div 4) * 3 + ((c.gl % 4) * 3) \div 4
\* vacuity guards: the table separates the protocol formula from the divide-first transcription, in both directions
ASSUME \E x \in Cases : x.alt # x.next /\ GT(FromInt(x.gu), TargetOf(FromInt(x.gl)))
ASSUME \E x \in Cases : x.alt # x.next /\ LT(FromInt(x.gu), TargetOf(FromInt(x.gl)))
ASSUME \E x \in Cases : x.alt # x.next /\ Eq(FromInt(x.gu), TargetOf(FromInt(x.gl)))
ASSUME \E x \in Cases : x.gl % 100 # 0 /\ x.alt = x.next        \* pinned to the floor: indistinguishable there

ASSUME PrintT(<<"BASEFEECASES", ToJson(Cases)>>)
====
