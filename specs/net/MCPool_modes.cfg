SPECIFICATION MCSpec
CONSTANTS
  TxDef <- TxModes
  Heads <- Heads2
  CLimit = 2
  CLimitPerAccount = 2
  CLifetime = "never"
  CIdentityCheck = TRUE
  Sources = {"remote","local"}
  Stricts = {FALSE,TRUE}
  MaxGen = 2
  AllOrders = TRUE
  StaleEval = TRUE
  Blockable = {}
  Record = FALSE
  MaxSteps = 0
  Sample = FALSE
  Variant = "base"
  SplitAdd = "off"
INVARIANT QuotaExact
INVARIANT CostExact
INVARIANT NeverLockedOut
INVARIANT DropHasReason
INVARIANT ExecutablesSorted
INVARIANT MapsConsistent
INVARIANT FlagImpliesPriced
CHECK_DEADLOCK FALSE
VIEW MCView
