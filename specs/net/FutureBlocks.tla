---- MODULE FutureBlocks ----
(* Growth beyond C19 (DESIGN section 8): what the node does with a pushed block it cannot import YET.

   Transcribed from the pinned tree:
     cmd/thor/node/housekeep.go  houseKeeping      one goroutine: a NewBlockEvent of the communicator -> handleNewBlock,
                                                   a ticker every BlockInterval -> handleFutureBlocks
                                 handleNewBlock    processBlock; on error the block goes into futureBlocksCache if
                                                     - it is ahead of the local clock (consensus.IsFutureBlock), or
                                                     - its parent is missing / it is "temporarily unprocessable" AND its parent is in the cache
                                                   every other refused block is dropped
                                 handleFutureBlocks  all cached blocks SORTED BY NUMBER, processBlock each; imported or already
                                                   known => removed from the cache; anything else stays
     cmd/thor/node/block_exec.go processBlock      order of the checks:  number > maxBlockNum + 1 (temporarily unprocessable)
                                                   -> already stored (known; ignored) -> parent missing -> bft.Accepts(parent)
                                                   -> consensus (header: timestamp > now + BlockInterval => future; ... state)
     cache.RandCache(32)                           adding beyond the capacity drops ONE entry chosen at random (possibly the new one)

   A block that is dropped or evicted is gone for the node: only synchronisation (C19 proper) brings it back - `lost` names
   exactly those blocks.                                                                                                  *)
EXTENDS Integers, Sequences, FiniteSets, TLC

CONSTANTS Blocks,     \* the universe: a function  id -> [num, parent, ts, valid, bft]  (bft: finality accepts its parent chain)
          Genesis,    \* id of the stored root
          Cap,        \* capacity of the cache (32 in the code)
          T,          \* thor.BlockInterval()
          MaxClock,   \* the clock runs from 0 to MaxClock
          Sorted      \* TRUE: handleFutureBlocks sorts by number (the code). FALSE only in the negative configuration

Ids == DOMAIN Blocks
VARIABLES clock,    \* the node's wall clock (seconds)
          stored,   \* ids of stored blocks
          maxNum,   \* node.maxBlockNum
          cache,    \* ids in futureBlocksCache
          queue,    \* the retry round in progress: blocks still to be visited, in visiting order (<<>> = no round)
          lost,     \* valid blocks that were pushed and then dropped or evicted: only sync recovers them
          pushed,   \* ids that were pushed at least once
          admitted, \* history: set of [id, why, was]: why a block entered the cache ("future" | "child") and what processBlock had said
          roundAt   \* clock at the start of the round in progress / of the last round
vars == <<clock, stored, maxNum, cache, queue, lost, pushed, admitted, roundAt>>

B(id) == Blocks[id]
\* processBlock(b) at the given clock: the first check that fails decides
Outcome(id, now) ==
  LET b == B(id) IN
  IF b.num > maxNum + 1 THEN "unprocessable"
  ELSE IF id \in stored THEN "known"
  ELSE IF b.parent \notin stored THEN "parent"
  ELSE IF ~b.bft THEN "bft"
  ELSE IF b.ts > now + T THEN "future"
  ELSE IF ~b.valid THEN "invalid"
  ELSE "ok"

Store(id) == /\ stored' = stored \cup {id}
             /\ maxNum' = IF B(id).num > maxNum THEN B(id).num ELSE maxNum

Init == /\ clock = 0 /\ stored = {Genesis} /\ maxNum = 0 /\ cache = {} /\ queue = <<>> /\ lost = {} /\ pushed = {}
        /\ admitted = {} /\ roundAt = 0

ClockAdvance == clock < MaxClock /\ clock' = clock + 1 /\ UNCHANGED <<stored, maxNum, cache, queue, lost, pushed, admitted, roundAt>>

\* handleNewBlock(b); ev: the cached entry the RandCache throws out when it is over capacity (any, possibly b itself)
PushBlock(id, ev) ==
  /\ queue = <<>>                                   \* the housekeeping goroutine does one thing at a time
  /\ LET o == Outcome(id, clock)
         toCache == o = "future" \/ (o \in {"parent", "unprocessable"} /\ B(id).parent \in cache)
         full == cache \cup {id}
     IN /\ pushed' = pushed \cup {id}
        /\ IF o = "ok" THEN Store(id) ELSE UNCHANGED <<stored, maxNum>>
        /\ IF toCache
           THEN /\ IF Cardinality(full) > Cap
                   THEN ev \in full /\ cache' = full \ {ev}
                        /\ lost' = lost \cup (IF B(ev).valid /\ B(ev).bft THEN {ev} ELSE {})
                   ELSE ev = id /\ cache' = full /\ UNCHANGED lost
                /\ admitted' = IF id \in cache THEN admitted
                               ELSE admitted \cup {[id |-> id, why |-> IF o = "future" THEN "future" ELSE "child", was |-> o]}
           ELSE /\ ev = id /\ UNCHANGED <<cache, admitted>>
                \* dropped: a valid block that is neither stored nor cached now is recoverable by sync only
                /\ lost' = lost \cup (IF o \in {"parent", "unprocessable"} /\ B(id).valid /\ B(id).bft /\ id \notin cache THEN {id} ELSE {})
  /\ UNCHANGED <<clock, queue, roundAt>>

\* sort.Slice(blocks, by number); without it the order is whatever the cache iterates in (any permutation)
RECURSIVE SortedSeq(_)
SortedSeq(S) == IF S = {} THEN <<>>
                ELSE LET m == CHOOSE x \in S : \A y \in S : B(x).num <= B(y).num IN <<m>> \o SortedSeq(S \ {m})
IsPerm(q, S) == Len(q) = Cardinality(S) /\ {q[i] : i \in 1..Len(q)} = S
NonDecreasing(q) == \A i \in 1..(Len(q) - 1) : B(q[i]).num <= B(q[i + 1]).num

\* handleFutureBlocks begins: the cached blocks in visiting order
TickBegin(q) ==
  /\ queue = <<>> /\ cache # {}
  /\ IsPerm(q, cache) /\ (Sorted => NonDecreasing(q))
  /\ queue' = q /\ roundAt' = clock
  /\ UNCHANGED <<clock, stored, maxNum, cache, lost, pushed, admitted>>

\* ... one cached block: imported or already known => out of the cache; anything else stays
TickStep ==
  /\ queue # <<>>
  /\ LET id == Head(queue)  o == Outcome(id, clock) IN
     /\ queue' = Tail(queue)
     /\ IF o = "ok" THEN Store(id) ELSE UNCHANGED <<stored, maxNum>>
     /\ cache' = IF o \in {"ok", "known"} THEN cache \ {id} ELSE cache
  /\ UNCHANGED <<clock, lost, pushed, admitted, roundAt>>

Next == ClockAdvance \/ TickStep
        \/ (\E id \in Ids : \E ev \in Ids : PushBlock(id, ev))
        \/ (\E q \in UNION {[1..n -> Ids] : n \in 1..Cap} : TickBegin(q))
Spec == Init /\ [][Next]_vars /\ WF_vars(TickStep) /\ WF_vars(ClockAdvance)
             /\ WF_vars(\E q \in UNION {[1..n -> Ids] : n \in 1..Cap} : TickBegin(q))

(* ---------------------------------------------------------------- properties *)
Good(id) == B(id).valid /\ B(id).bft
\* nothing invalid, nothing refused by finality, nothing without its parent is ever stored
StoredSound == \A id \in stored : id = Genesis \/ (Good(id) /\ B(id).parent \in stored)
CacheCapped == Cardinality(cache) <= Cap
\* a block enters the cache only as "ahead of the clock" (all earlier checks passed: parent stored, accepted by finality)
\* or as the child of a cached block; never as a block refused by finality, an invalid or a known one
AdmissionSound == \A a \in admitted :
                     \/ a.why = "future" /\ a.was = "future"
                     \/ a.why = "child" /\ a.was \in {"parent", "unprocessable"}
\* ONE round imports everything that was importable when it began - a cached chain of k blocks included: when a round ends
\* no cached block is left that is good, within the clock of the round's start and has its parent stored; and no cached
\* block is a stored one (between rounds a block imported by another path may sit in the cache until the next round)
RoundLeavesNothingImportable ==
  \A id \in cache : id \notin stored /\ ~(Good(id) /\ B(id).ts <= roundAt + T /\ B(id).parent \in stored)
RoundComplete == [][(queue # <<>> /\ queue' = <<>>) => RoundLeavesNothingImportable']_vars
\* liveness: a good pushed block is stored in the end, or it is lost (dropped / evicted: recoverable by sync only), or it
\* sits in the cache waiting for something that does not come (a timestamp beyond the horizon, a parent that is not stored)
Waiting(id) == id \in cache /\ (B(id).ts > MaxClock + T \/ B(id).parent \notin stored)
Eventually == \A id \in Ids : Good(id) => <>[](id \in pushed => (id \in stored \/ id \in lost \/ Waiting(id)))
====
