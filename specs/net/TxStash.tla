------------------------------- MODULE TxStash -------------------------------
(* The node's tx stash (cmd/thor/node/tx_stash.go, txStashLoop in node.go) next to the tx pool (growth of C18, DESIGN 8).

   Every tx event of the pool that is not "executable" (Executable = false, or nil while the node is not synced) makes the
   loop Save the tx: keyed by tx HASH in a leveldb directory; a tx already on disk is left alone; an in-memory FIFO of the
   saved hashes bounds the size: beyond the capacity the FRONT of the FIFO is deleted from disk.  Nothing else is ever
   deleted - a tx that became executable, was packed or expired stays stashed until it is evicted.
   At start-up LoadAll reads the whole directory in KEY order (that is the order of the new FIFO: after a restart eviction
   goes by hash order, not by age), and the loop hands the loaded txs to pool.Fill: a tx whose hash is pooled already is
   skipped, any other becomes a NEW pool object without pricing (no cost is accounted for it before a wash evaluates it).

   State: disk (what survives a stop), fifo (in memory, front first), up, the pool as hash -> [gen, priced] (gen: identity of
   the pool object, as in TxPool.tla), and history for the invariants.                                                    *)
EXTENDS Integers, Sequences, FiniteSets, TLC

CONSTANTS Tx      \* hashes

VARIABLES cfgs,       \* [cap, ord]: capacity of the stash (Node.Run: 1000); ord: hash -> position in leveldb's key order
          disk,       \* set of hashes on disk
          fifo,       \* eviction queue, front first (in memory: empty while down)
          up,
          pool,       \* hash -> [gen, priced]
          gens,       \* hash -> number of pool objects ever created for it
          reported,   \* hashes ever reported by a non-executable tx event
          tofill,     \* what the last start-up still has to hand to the pool (sequence)
          hist        \* [evicted, front, loaded, diskAtStart, kept]: last eviction / last start-up
vars == <<cfgs, disk, fifo, up, pool, gens, reported, tofill, hist>>

Cap == cfgs.cap
Ord == cfgs.ord

SeqSet(s) == {s[i] : i \in 1..Len(s)}
NoDup(s) == Cardinality(SeqSet(s)) = Len(s)
At(f, k, d) == IF k \in DOMAIN f THEN f[k] ELSE d
Put(f, k, v) == [x \in (DOMAIN f) \cup {k} |-> IF x = k THEN v ELSE f[x]]
Del(f, k) == [x \in (DOMAIN f) \ {k} |-> f[x]]

\* the hashes of S in key order
RECURSIVE Sorted(_)
Sorted(S) == IF S = {} THEN <<>>
             ELSE LET m == CHOOSE x \in S : \A y \in S : Ord[x] <= Ord[y] IN <<m>> \o Sorted(S \ {m})

NoHist == [evicted |-> "none", front |-> "none", loaded |-> <<>>, diskAtStart |-> {}, kept |-> << >>]

Init0 == /\ disk = {} /\ fifo = <<>> /\ up = TRUE /\ pool = << >> /\ gens = << >> /\ reported = {} /\ tofill = <<>>
        /\ hist = NoHist

\* txStash.Save
SaveTo(h) ==
  IF h \in disk THEN UNCHANGED <<disk, fifo>> /\ hist' = [hist EXCEPT !.evicted = "none"]
  ELSE LET f1 == Append(fifo, h) IN
       IF Len(f1) > Cap
       THEN /\ fifo' = Tail(f1) /\ disk' = (disk \cup {h}) \ {Head(f1)}
            /\ hist' = [hist EXCEPT !.evicted = Head(f1), !.front = Head(f1)]
       ELSE /\ fifo' = f1 /\ disk' = disk \cup {h} /\ hist' = [hist EXCEPT !.evicted = "none"]

NewObj(h, priced) == /\ pool' = Put(pool, h, [gen |-> At(gens, h, 0) + 1, priced |-> priced])
                     /\ gens' = Put(gens, h, At(gens, h, 0) + 1)

\* the pool admitted a tx (Add) and posted the event; the loop reacts
EvNonExec(h) ==          \* TxEvent{Executable: false | nil}: pooled as non-executable, stashed
  /\ up /\ tofill = <<>> /\ h \notin DOMAIN pool
  /\ NewObj(h, FALSE)
  /\ SaveTo(h)
  /\ reported' = reported \cup {h}
  /\ UNCHANGED <<up, tofill>>

EvExecAdd(h) ==          \* TxEvent{Executable: true} of an Add: pooled as executable (priced), not stashed
  /\ up /\ tofill = <<>> /\ h \notin DOMAIN pool
  /\ NewObj(h, TRUE)
  /\ UNCHANGED <<disk, fifo, up, reported, tofill, hist>>

EvPromoted(h) ==         \* TxEvent{Executable: true} after a wash promoted the pooled object: same object, not stashed
  /\ up /\ tofill = <<>> /\ h \in DOMAIN pool /\ ~pool[h].priced
  /\ pool' = [pool EXCEPT ![h].priced = TRUE]
  /\ UNCHANGED <<disk, fifo, up, gens, reported, tofill, hist>>

PoolDrop(h) ==           \* packed / expired / removed: leaves the pool, stays in the stash
  /\ up /\ tofill = <<>> /\ h \in DOMAIN pool            \* (pool.Fill holds the map lock for the whole list)
  /\ pool' = Del(pool, h)
  /\ UNCHANGED <<disk, fifo, up, gens, reported, tofill, hist>>

Stop(keepPool) ==        \* the process stops (keepPool: only the stash is re-opened, a harness-only variant)
  /\ up /\ tofill = <<>>
  /\ up' = FALSE /\ fifo' = <<>>
  /\ pool' = IF keepPool THEN pool ELSE << >>
  /\ UNCHANGED <<disk, gens, reported, tofill, hist>>

Start ==                 \* LoadAll: the directory in key order becomes the FIFO and is handed to pool.Fill
  /\ ~up
  /\ up' = TRUE
  /\ fifo' = Sorted(disk)
  /\ tofill' = Sorted(disk)
  /\ hist' = [hist EXCEPT !.loaded = Sorted(disk), !.diskAtStart = disk, !.kept = pool, !.evicted = "none"]
  /\ UNCHANGED <<disk, pool, gens, reported>>

FillNext ==              \* pool.Fill, one element: pooled already -> skipped, else a new unpriced object
  /\ up /\ tofill # <<>>
  /\ LET h == Head(tofill) IN
     IF h \in DOMAIN pool THEN UNCHANGED <<pool, gens>> ELSE NewObj(h, FALSE)
  /\ tofill' = Tail(tofill)
  /\ UNCHANGED <<disk, fifo, up, reported, hist>>

Next == /\ UNCHANGED cfgs
        /\ \/ \E h \in Tx : EvNonExec(h) \/ EvExecAdd(h) \/ EvPromoted(h) \/ PoolDrop(h)
           \/ \E k \in BOOLEAN : Stop(k)
           \/ Start \/ FillNext

----------------------------------------------------------------------------------------------------------------
CapRespected   == Cardinality(disk) <= Cap /\ Len(fifo) <= Cap
NoDuplicates   == NoDup(fifo) /\ NoDup(tofill)
FifoIsDisk     == up => SeqSet(fifo) = disk
StashReported  == disk \subseteq reported
\* the object evicted is the front of the queue (insertion order; key order for what a start-up loaded)
EvictsFront    == hist.evicted # "none" => hist.evicted = hist.front /\ hist.evicted \notin disk
\* a start-up offers every stashed tx exactly once, in key order
OfferedOnce    == /\ NoDup(hist.loaded) /\ SeqSet(hist.loaded) = hist.diskAtStart
                  /\ \A i, j \in 1..Len(hist.loaded) : i < j => Ord[hist.loaded[i]] < Ord[hist.loaded[j]]
\* Fill never replaces a pooled object: while a start-up hands the stash to the pool, every object that was pooled before
\* (executable and accounted, or not) is still the same object with the same pricing status - a stashed copy of a tx that
\* became executable meanwhile is not resurrected as a second, unpriced object
FillKeepsObjects == tofill # <<>> => \A h \in (DOMAIN hist.kept) \cap (DOMAIN pool) : pool[h] = hist.kept[h]
=============================================================================
