SPECIFICATION MCSpec
CONSTANTS
  TxDef <- FTx
  Heads <- FHeads
  CLimit = 2
  CLimitPerAccount = 2
  CLifetime = "never"
  CIdentityCheck = TRUE
  Sources = {"remote","local"}
  Stricts = {FALSE}
  MaxGen = 2
  AllOrders = FALSE
  StaleEval = FALSE
  Blockable = {}
  Record = FALSE
  MaxSteps = 0
  Sample = FALSE
  Variant = "fork"
  SplitAdd = "off"
INVARIANT QuotaExact
INVARIANT CostExact
INVARIANT NeverLockedOut
INVARIANT DropHasReason
INVARIANT ExecutablesSorted
INVARIANT MapsConsistent
INVARIANT FlagImpliesPriced
CHECK_DEADLOCK FALSE
VIEW MCView
