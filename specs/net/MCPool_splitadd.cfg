SPECIFICATION MCSpec
CONSTANTS
  TxDef <- Tx2
  Heads <- Heads2
  CLimit = 2
  CLimitPerAccount = 2
  CLifetime = "never"
  CIdentityCheck = TRUE
  Sources = {"remote"}
  Stricts = {FALSE}
  MaxGen = 2
  AllOrders = FALSE
  StaleEval = FALSE
  Blockable = {}
  Record = FALSE
  MaxSteps = 0
  Sample = FALSE
  Variant = "base"
  SplitAdd = "inlock"
INVARIANT QuotaExact
INVARIANT CostExact
INVARIANT NeverLockedOut
INVARIANT DropHasReason
INVARIANT ExecutablesSorted
INVARIANT MapsConsistent
INVARIANT FlagImpliesPriced
CHECK_DEADLOCK FALSE
VIEW MCView
