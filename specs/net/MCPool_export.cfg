SPECIFICATION MCSpec
CONSTANTS
  TxDef <- Tx4
  Heads <- Heads2
  CLimit = 2
  CLimitPerAccount = 2
  CLifetime = "never"
  CIdentityCheck = TRUE
  Sources = {"remote", "local"}
  Stricts = {FALSE, TRUE}
  MaxGen = 3
  AllOrders = TRUE
  StaleEval = FALSE
  Blockable = {}
  Record = TRUE
  MaxSteps = 30
  Sample = TRUE
  Variant = "base"
  SplitAdd = "off"
INVARIANT ExportDone
INVARIANT QuotaExact
INVARIANT CostExact
INVARIANT NeverLockedOut
INVARIANT DropHasReason
INVARIANT ExecutablesSorted
INVARIANT MapsConsistent
CHECK_DEADLOCK FALSE
