\* NEGATIVE configuration (expected to FAIL): a fetcher that ignores the cancel (it runs on the caller's context) wedges download
\* (B) deep pipeline: single-block batches (up to 4 batches + the final empty reply), rawBatches capacity 2, warmedUp
\*     capacity 2: every fault at every position with the queues full behind it; download must return (BTerminates)
SPECIFICATION SpecB
CONSTANTS
  MaxH = 0
  ExtraR = 0
  MaxHB = 0
  MaxRB = 3
  MaxBatch = 1
  RawCap = 1
  WarmCap = 1
  Slack = {0}
  FetchListens = FALSE
  DecListens = TRUE
PROPERTY BTerminates
CHECK_DEADLOCK FALSE
