SPECIFICATION Spec
CONSTANTS
  MaxH = 1000000
  ExtraR = 0
  MaxHB = 0
  MaxRB = 0
  MaxBatch = 1024
  RawCap = 10
  WarmCap = 2048
  Slack = {0}
  FetchListens = TRUE
  DecListens = TRUE
INVARIANT TInvA
INVARIANT TInvB
INVARIANT TInvC
CONSTRAINT Progress
POSTCONDITION TraceAccepted
CHECK_DEADLOCK FALSE
