\* line 1 - 2 - 3, 2 blocks relayed hop by hop
SPECIFICATION Spec
CONSTANTS
  Nodes = {1, 2, 3}
  Links0 = {{1, 2}, {2, 3}}
  LinksLater = {}
  NBlocks = 2
  Txs = {}
  Hostile = {}
  Bogus = {}
  HBudget = 0
INVARIANT NoBreach
INVARIANT MarksCoverTruth
INVARIANT CleanState
PROPERTY Liveness
PROPERTY Terminates
CHECK_DEADLOCK FALSE
