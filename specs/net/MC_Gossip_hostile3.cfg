\* two honest nodes and a hostile peer of node 1: bogus announcements / blocks / txs, refusals, duplicate floods
SPECIFICATION Spec
CONSTANTS
  Nodes = {1, 2, 9}
  Links0 = {{1, 2}, {1, 9}}
  LinksLater = {}
  NBlocks = 1
  Txs = {}
  Hostile = {9}
  Bogus = {2001, 4001}
  HBudget = 3
INVARIANT NoBreach
INVARIANT MarksCoverTruth
INVARIANT CleanState
PROPERTY Liveness
PROPERTY Terminates
CHECK_DEADLOCK FALSE
