------------------------------- MODULE TxPool -------------------------------
(* Design-level model of thor's transaction pool accounting (property C18).
   Transcribed from txpool/tx_object_map.go, tx_pool.go (add, wash, housekeeping), tx_object.go (Evaluate).

   Pool OBJECTS have identity: a transaction (hash) that is removed and added again is a NEW object; an in-flight
   wash holds references to the objects of its snapshot, not to hashes.  One action = one critical section of
   txObjectMap.lock (AddLocked, FillLocked, RemoveLocked, PromoteLocked) or one lock-free step of the single
   housekeeping goroutine (WashStart = snapshot under the read lock, WashEval, WashLimit, WashPayCheck = pending
   cost read under the read lock + energy test, WashPromote, WashEvict, WashPublish).

   Constant IdentityCheck selects the presence test of promote:
     FALSE  the code as it is: "some object with this hash is pooled"          (finding F6: CostExact is violated)
     TRUE   the repaired rule:  "this very object is pooled"

   Amounts (cost, energy) are integers in a unit chosen by the harness (all real costs are multiples of it).
   Priorities and times-added are compared only; they are sequences of integers compared lexicographically
   (one element in the model-checking configs, base-10^9 digits in traces).                                        *)
EXTENDS Integers, Sequences, FiniteSets, TLC

None == "none"
Inf  == 1000000000         \* energy of accounts that are not tracked (rich accounts)

VARIABLES cfg,      \* [limit, lpa, lifetime, identity]  pool options + which promote rule (never changes in a run)
          txs,      \* hash -> [k (the hash itself), id, org, dlg, cost, costs, cap, prios, priosnw, prio, prio0, ref, exp, dep, typed]     what is known about signed txs
                    \*         (cap: the most it pays per gas; prio: priority fee from GALACTICA on, prio0: before)
          objs,     \* object id -> [h, src, t, flag, priced, cost, pay, prio]
          byHash,   \* hash -> object id          (mapByHash: THE pool)
          byID,     \* tx id -> object id         (mapByID)
          quota,    \* account -> count           (entries are deleted when they reach 0)
          cost,     \* account -> pending cost    (entries are deleted when they reach 0)
          pub,      \* published executables: sequence of [h, prio]
          head,     \* [id, num, incl, rev, energy, payers, basefee, bf, refresh, gala, synced]  facts about the best block (basefee: of the NEXT block)
          blocked,  \* fetched blocklist
          tick,     \* housekeeping locals: [seen (id of the head at the last tick), added (addedAfterWash > 0)]
          w,        \* the in-flight wash
          lastDrop  \* how the last object left the pool

vars == <<cfg, txs, objs, byHash, byID, quota, cost, pub, head, blocked, tick, w, lastDrop>>

Limit           == cfg.limit      \* Options.Limit
LimitPerAccount == cfg.lpa        \* Options.LimitPerAccount
Lifetime        == cfg.lifetime   \* "never" | "always" | "any": can wash find a non-local object out of lifetime
IdentityCheck   == cfg.identity

----------------------------------------------------------------------------------------------------------------
At(f, k, d) == IF k \in DOMAIN f THEN f[k] ELSE d
Put(f, k, v) == [x \in (DOMAIN f) \cup {k} |-> IF x = k THEN v ELSE f[x]]
Del(f, k)    == [x \in (DOMAIN f) \ {k} |-> f[x]]
Image(f)     == {f[x] : x \in DOMAIN f}
SeqSet(s)    == {s[i] : i \in 1..Len(s)}

\* lexicographic order on equal-length integer sequences
RECURSIVE LexLess(_, _)
LexLess(a, b) == IF a = <<>> \/ b = <<>> THEN FALSE
                 ELSE IF Head(a) # Head(b) THEN Head(a) < Head(b) ELSE LexLess(Tail(a), Tail(b))

Payer(tx)   == IF tx.dlg # None THEN tx.dlg ELSE tx.org
\* who is charged when the tx is priced against head hd.  A tx that is not delegated and whose clauses all go to one
\* account with a credit plan may be paid by that account's sponsor, or by the account itself, before its origin (prototype);
\* that depends on credit and energies in the head's state: the head lists the payer of such txs (key tx.k, "nobody" if not
\* even the origin can pay)
Nobody == "nobody"
PayerAt(tx, hd) == IF tx.k \in DOMAIN hd.payers THEN hd.payers[tx.k] ELSE Payer(tx)
\* what the payer is charged up front when the tx is priced against head hd: gas x effective price.  For a dynamic-fee tx
\* whose fee cap leaves head-room the effective price moves with the base fee; costs lists the value per base fee (key hd.bf)
\* where it differs from tx.cost.  The pool computes it ONCE, when the object becomes executable, and accounts that value
\* until the object leaves - whatever the base fee does meanwhile.
CostAt(tx, hd) == IF hd.bf \in DOMAIN tx.costs THEN tx.costs[hd.bf] ELSE tx.cost
\* priority fee per gas as the pool computes it against head hd (for block hd.num + 1).  It depends on the base fee of that
\* block and, for legacy txs, on the proved work, which stops counting once the block ref is more than MaxTxWorkDelay (30)
\* blocks back.  prios / priosnw (with / without work) list it per base fee (key hd.bf, "0" before GALACTICA); prio / prio0 are
\* the values for the initial base fee / before the fork, used where no table is given.
WorkCounts(tx, hd) == hd.num + 1 - tx.ref <= 30
PrioOf(tx, hd) ==
  LET m == IF WorkCounts(tx, hd) THEN tx.prios ELSE tx.priosnw IN
  IF hd.bf \in DOMAIN m THEN m[hd.bf] ELSE IF hd.gala THEN tx.prio ELSE tx.prio0
Size        == Cardinality(DOMAIN byHash)
Pooled      == Image(byHash)
Energy(hd, a) == At(hd.energy, a, Inf)
IsBlocked(tx) == tx.org \in blocked \/ tx.dlg \in blocked

\* quota[origin]++ ; quota[delegator]++          /   if quota > 1 then -- else delete
Inc(q, a)  == Put(q, a, At(q, a, 0) + 1)
Dec(q, a)  == IF At(q, a, 0) > 1 THEN Put(q, a, q[a] - 1) ELSE Del(q, a)
IncQ(q, tx) == IF tx.dlg # None THEN Inc(Inc(q, tx.org), tx.dlg) ELSE Inc(q, tx.org)
DecQ(q, tx) == IF tx.dlg # None THEN Dec(Dec(q, tx.org), tx.dlg) ELSE Dec(q, tx.org)
AddCost(c, p, x) == Put(c, p, At(c, p, 0) + x)
\* RemoveByHash: if pending != nil { if pending <= cost then delete else subtract }
SubCost(c, p, x) == IF p \notin DOMAIN c THEN c ELSE IF c[p] <= x THEN Del(c, p) ELSE Put(c, p, c[p] - x)

----------------------------------------------------------------------------------------------------------------
\* TxObject.Evaluate against head hd (the tx is judged for block hd.num + 1)
Expired(tx, n) == n > tx.ref + tx.exp
Drop(why) == [r |-> "drop", why |-> why]
Evaluate(tx, hd) ==
  LET n == hd.num + 1 IN
  IF Expired(tx, n) THEN Drop("expired")
  ELSE IF tx.ref > n + 30 THEN Drop("inadmissible")            \* block ref out of schedule (5 min)
  ELSE IF tx.typed /\ ~hd.gala THEN Drop("inadmissible")       \* typed tx before GALACTICA
  ELSE IF tx.id \in hd.incl THEN Drop("settled")               \* known tx
  ELSE IF tx.dep # None /\ tx.dep \notin hd.incl THEN [r |-> "nonexec"]
  ELSE IF tx.dep # None /\ tx.dep \in hd.rev THEN Drop("depreverted")
  ELSE IF tx.ref > n THEN [r |-> "nonexec"]
  ELSE IF LexLess(tx.cap, hd.basefee) THEN Drop("unpayable")       \* BuyGas: gas price is less than block base fee
  ELSE IF PayerAt(tx, hd) = Nobody \/ Energy(hd, PayerAt(tx, hd)) < CostAt(tx, hd) THEN Drop("unpayable")   \* BuyGas: insufficient energy
  ELSE [r |-> "exec"]

\* checkTxPriority: strictly above the published tx at the 90th percentile
PriorityOK(exec, prio) ==
  IF ~exec THEN FALSE
  ELSE IF pub = <<>> THEN TRUE
  ELSE LET thr == pub[((Len(pub) * 9) \div 10) + 1]
           id  == txs[thr.h].id
       IN IF id \notin DOMAIN byID THEN FALSE
          ELSE LET ob == objs[byID[id]] IN IF ~ob.priced THEN FALSE ELSE LexLess(ob.prio, prio)

\* TxPool.add up to (not including) the critical section: the verdict of the lock-free part
\* "go" means txObjectMap.Add is entered with the given executable flag
AddPrefix(h, src, strict, hd) ==
  LET tx == txs[h] IN
  IF h \in DOMAIN byHash THEN [v |-> "known"]
  ELSE IF IsBlocked(tx) THEN [v |-> "ignored"]
  ELSE IF ~hd.synced
       THEN IF Size >= Limit THEN [v |-> "full"] ELSE [v |-> "go", exec |-> FALSE]
  ELSE LET e == Evaluate(tx, hd) IN
       IF e.r = "drop" THEN [v |-> "rejected", why |-> e.why]
       ELSE LET exec == (e.r = "exec") IN
            IF src # "local" /\ Size >= (Limit * 15) \div 10 THEN [v |-> "full"]
            ELSE IF src # "local" /\ Size >= (Limit * 12) \div 10 /\ ~PriorityOK(exec, PrioOf(tx, hd)) THEN [v |-> "full"]
            ELSE IF strict /\ ~exec THEN [v |-> "notexec"]
            ELSE IF ~exec /\ Size - Len(pub) >= (Limit * 2) \div 10 THEN [v |-> "nonexecfull"]
            ELSE [v |-> "go", exec |-> exec]

----------------------------------------------------------------------------------------------------------------
\* critical sections of txObjectMap.lock.  Each constrains objs, byHash, byID, quota, cost only.

\* txObjectMap.Add: hd is the head whose state backs validatePayer (the head the prefix evaluated against)
AddVerdict(h, exec, hd) ==
  LET tx == txs[h] IN
  IF h \in DOMAIN byHash THEN "dup"
  ELSE IF At(quota, tx.org, 0) >= LimitPerAccount THEN "quota"
  ELSE IF tx.dlg # None /\ At(quota, tx.dlg, 0) >= LimitPerAccount THEN "dquota"
  ELSE IF exec /\ hd.synced /\ At(cost, PayerAt(tx, hd), 0) + CostAt(tx, hd) > Energy(hd, PayerAt(tx, hd)) THEN "payer"
  ELSE "ok"

NewObj(h, src, t, exec, pr, c, py) ==
  LET tx == txs[h] IN
  [h |-> h, src |-> src, t |-> t, flag |-> exec, priced |-> exec,
   cost |-> IF exec THEN c ELSE 0, pay |-> IF exec THEN py ELSE None, prio |-> IF exec THEN pr ELSE <<>>]

\* pr: the priority the implementation computed (a fact; equal to PrioOf in the model-checking configs).
\* checkDup: the duplicate test is part of this critical section (as in the code).  FALSE models a variant that has looked the
\* hash up BEFORE taking the lock (a read-locked "fast path"): kept for the teeth config MCPool_dupcheck.cfg, where two
\* submissions of one tx both pass the lookup and both insert - QuotaExact / CostExact must then be violated.
AddLockedWith(o, h, src, t, exec, hd, pr, checkDup) ==
  LET tx == txs[h]
      v == AddVerdict(h, exec, hd)
      v2 == IF v = "dup" /\ ~checkDup
            THEN (IF At(quota, tx.org, 0) >= LimitPerAccount THEN "quota"
                  ELSE IF tx.dlg # None /\ At(quota, tx.dlg, 0) >= LimitPerAccount THEN "dquota"
                  ELSE IF exec /\ hd.synced /\ At(cost, PayerAt(tx, hd), 0) + CostAt(tx, hd) > Energy(hd, PayerAt(tx, hd)) THEN "payer"
                  ELSE "ok")
            ELSE v
  IN
  IF v2 # "ok" THEN UNCHANGED <<objs, byHash, byID, quota, cost>>
  ELSE /\ o \notin DOMAIN objs
       /\ objs' = Put(objs, o, NewObj(h, src, t, exec, pr, CostAt(tx, hd), PayerAt(tx, hd)))
       /\ byHash' = Put(byHash, h, o)
       /\ byID' = Put(byID, tx.id, o)
       /\ quota' = IncQ(quota, tx)
       /\ cost' = IF exec THEN AddCost(cost, PayerAt(tx, hd), CostAt(tx, hd)) ELSE cost

AddLocked(o, h, src, t, exec, hd, pr) == AddLockedWith(o, h, src, t, exec, hd, pr, TRUE)

\* txObjectMap.Fill, one element: no limit check, no cost
FillLocked(o, h, t) ==
  IF h \in DOMAIN byHash THEN UNCHANGED <<objs, byHash, byID, quota, cost>>
  ELSE /\ o \notin DOMAIN objs
       /\ objs' = Put(objs, o, NewObj(h, "fill", t, FALSE, <<>>, 0, None))
       /\ byHash' = Put(byHash, h, o)
       /\ byID' = Put(byID, txs[h].id, o)
       /\ quota' = IncQ(quota, txs[h])
       /\ UNCHANGED cost

\* txObjectMap.RemoveByHash; the removed object keeps its fields (a wash may still hold it)
RemoveLocked(h) ==
  IF h \notin DOMAIN byHash THEN UNCHANGED <<objs, byHash, byID, quota, cost>>
  ELSE LET ob == objs[byHash[h]] tx == txs[h] IN
       /\ quota' = DecQ(quota, tx)
       /\ cost' = IF ob.flag /\ ob.priced THEN SubCost(cost, ob.pay, ob.cost) ELSE cost
       /\ byHash' = Del(byHash, h)
       /\ byID' = Del(byID, tx.id)          \* by id, whichever object that entry points to
       /\ UNCHANGED objs

\* txObjectMap.promote
PromoteVerdict(o) ==
  LET h == objs[o].h IN
  IF h \notin DOMAIN byHash \/ (IdentityCheck /\ byHash[h] # o) THEN "miss"
  ELSE IF objs[o].flag THEN "noop" ELSE "ok"

PromoteLocked(o) ==
  /\ IF PromoteVerdict(o) = "ok"
     THEN /\ objs' = [objs EXCEPT ![o].flag = TRUE]
          /\ cost' = AddCost(cost, objs[o].pay, objs[o].cost)
     ELSE UNCHANGED <<objs, cost>>
  /\ UNCHANGED <<byHash, byID, quota>>

----------------------------------------------------------------------------------------------------------------
\* the housekeeping goroutine
WIdle == [pc |-> "idle"]
NoDrop == [by |-> None]

WashTrigger == head.synced /\ (head.id # tick.seen \/ Size > Limit \/ tick.added)

\* a tick that does not wash (not synced, or nothing to do); the head change is consumed all the same
TickIdle ==
  /\ w.pc = "idle" /\ ~WashTrigger /\ tick.seen # head.id
  /\ tick' = [tick EXCEPT !.seen = head.id]
  /\ UNCHANGED <<cfg, txs, objs, byHash, byID, quota, cost, pub, head, blocked, w, lastDrop>>

\* tick + ToTxObjects (read lock): order = evaluation order (Go map order: any permutation)
WashStart(order, force) ==
  /\ w.pc = "idle" /\ (force \/ WashTrigger)
  /\ SeqSet(order) = Pooled /\ Len(order) = Size
  /\ w' = [pc |-> "eval", hd |-> head, chg |-> head.id # tick.seen, forced |-> force, snap |-> order, i |-> 1, ex |-> <<>>, lex |-> <<>>, nx |-> <<>>,
           rm |-> <<>>, k |-> 1, j |-> 1, out |-> <<>>, chk |-> FALSE, fail |-> FALSE]
  /\ tick' = [seen |-> head.id, added |-> FALSE]
  /\ UNCHANGED <<cfg, txs, objs, byHash, byID, quota, cost, pub, head, blocked, lastDrop>>

RmEntry(o, why, a, b) == [o |-> o, why |-> why, a |-> a, b |-> b]

\* what wash decides for one object of the snapshot (blocked / lifetime / Evaluate)
EvalOf(o, outlived) ==
  LET ob == objs[o] tx == txs[ob.h] IN
  IF IsBlocked(tx) THEN Drop("blocked")
  ELSE IF ob.src # "local" /\ outlived THEN Drop("outlived")
  ELSE Evaluate(tx, w.hd)

\* lock-free evaluation of the next object; publishes the pricing of an object that was not executable.
\* pr: the object's priority after the evaluation (a fact of the implementation when it is refreshed).
\* the priority an object has after wash evaluated it.  Executables are published in non-increasing priority order, so a
\* priced object's priority has to follow the block the wash works towards: it is computed afresh when the pricing is
\* published now, and brought up to date - PrioOf(tx, w.hd): the next block's base fee, proved work only while it counts -
\* by every wash that runs because the head changed (w.chg), once a base fee applies.  A wash on an unchanged head keeps
\* what the object has (txpool.TestWashPriorityGasPriceRecomputation requires that).
\* [Residual, known finding order:stale-priority:add-raced-head-change: an Add that priced under head b0 and inserts after
\*  the head moved to b1 and after b1's wash took its snapshot keeps b0's priority until the next head change.  The model
\*  has it too (AddLocked takes the priority of the head the prefix evaluated against); the driver reports it when it sees it.]
EvalPrio(o) ==
  LET ob == objs[o] tx == txs[ob.h] IN
  IF (~ob.flag /\ EvalOf(o, FALSE).r = "exec") \/ (ob.priced /\ w.chg /\ w.hd.gala) THEN PrioOf(tx, w.hd) ELSE ob.prio

WashEval(outlived, pr) ==
  /\ w.pc = "eval" /\ w.i <= Len(w.snap)
  /\ (Lifetime = "never" => ~outlived) /\ (Lifetime = "always" => outlived)
  /\ LET o == w.snap[w.i]
         ob == objs[o]
         tx == txs[ob.h]
         e == EvalOf(o, outlived)
         local == ob.src = "local"
     IN /\ objs' = IF e.r = "exec"
                   THEN IF ob.flag THEN [objs EXCEPT ![o].prio = pr]
                        ELSE [objs EXCEPT ![o].priced = TRUE, ![o].cost = CostAt(tx, w.hd), ![o].pay = PayerAt(tx, w.hd), ![o].prio = pr]
                   ELSE IF e.r = "nonexec" /\ ob.priced THEN [objs EXCEPT ![o].prio = pr]     \* refreshed all the same
                   ELSE objs
        /\ w' = [w EXCEPT !.i = @ + 1,
                          !.rm  = IF e.r = "drop" THEN Append(@, RmEntry(o, e.why, 0, 0)) ELSE @,
                          !.ex  = IF e.r = "exec" /\ ~local THEN Append(@, o) ELSE @,
                          !.lex = IF e.r = "exec" /\ local THEN Append(@, o) ELSE @,
                          !.nx  = IF e.r = "nonexec" /\ ~local THEN Append(@, o) ELSE @]
  /\ UNCHANGED <<cfg, txs, byHash, byID, quota, cost, pub, head, blocked, tick, lastDrop>>

\* wash's error path: the params read failed; the pool is cut to Limit, nothing is published
WashFail ==
  /\ w.pc = "eval" /\ w.i = 1
  /\ LET n == Len(w.snap) - Limit IN
     w' = [w EXCEPT !.pc = "evict", !.fail = TRUE,
                    !.rm = IF n > 0 THEN [x \in 1..n |-> RmEntry(w.snap[x], "errortrim", Len(w.snap), 0)] ELSE <<>>]
  /\ UNCHANGED <<cfg, txs, objs, byHash, byID, quota, cost, pub, head, blocked, tick, lastDrop>>

\* sortTxObjsByPriorityGasPriceDesc: priority descending, then LATER time-added first
Before(a, b) == \/ LexLess(objs[b].prio, objs[a].prio)
                \/ objs[a].prio = objs[b].prio /\ LexLess(objs[b].t, objs[a].t)
RECURSIVE Insert(_, _)
Insert(s, x) == IF s = <<>> THEN <<x>>
                ELSE IF Before(x, Head(s)) THEN <<x>> \o s ELSE <<Head(s)>> \o Insert(Tail(s), x)
RECURSIVE SortExec(_)
SortExec(s) == IF s = <<>> THEN <<>> ELSE Insert(SortExec(Tail(s)), Head(s))

Displaced(sx, nx) ==
  LET ne == Len(sx) nn == Len(nx) nl == (Limit * 2) \div 10 IN
  IF ne > Limit THEN nx \o SubSeq(sx, Limit + 1, ne)
  ELSE IF ne + nn > Limit THEN SubSeq(nx, Limit - ne + 1, nn)
  ELSE IF nn > nl THEN SubSeq(nx, nl + 1, nn)
  ELSE <<>>

\* the limits (lock-free): over-limit objects go to the removal list, locals are appended, list is sorted.
\* sortTxObjsByPriorityGasPriceDesc is not a strict order for objects with equal (priority, time added): the position of
\* such ties - and, when a tie straddles the limit, which of them is displaced - is left open.  ex2 / rmo2 are the lists the
\* implementation produced; they must equal the canonical ones up to ties.
SortKey(o) == <<objs[o].prio, objs[o].t>>
SameKeys(a, b) == Len(a) = Len(b) /\ \A x \in 1..Len(a) : SortKey(a[x]) = SortKey(b[x])
NoDup(a) == Cardinality(SeqSet(a)) = Len(a)
LimitEx == LET sx == SortExec(w.ex) IN SortExec((IF Len(sx) > Limit THEN SubSeq(sx, 1, Limit) ELSE sx) \o w.lex)
LimitRm == LET sx == SortExec(w.ex) disp == Displaced(sx, w.nx) IN
           w.rm \o [x \in 1..Len(disp) |-> RmEntry(disp[x], "displaced", Len(sx), Len(w.nx))]
WashLimitTo(ex2, rmo2) ==
  /\ w.pc = "eval" /\ w.i > Len(w.snap)
  /\ LET ex1 == LimitEx
         rm1 == LimitRm
         rmo1 == [x \in 1..Len(rm1) |-> rm1[x].o]
     IN /\ \/ ex2 = ex1 /\ rmo2 = rmo1
           \/ /\ SameKeys(ex2, ex1) /\ Len(rmo2) = Len(rmo1)
              /\ \A x \in 1..Len(rmo1) : rmo2[x] = rmo1[x] \/ (rm1[x].why = "displaced" /\ SortKey(rmo2[x]) = SortKey(rmo1[x]))
              /\ NoDup(ex2 \o rmo2) /\ SeqSet(ex2 \o rmo2) = SeqSet(ex1 \o rmo1)
        /\ w' = [w EXCEPT !.pc = "promote", !.k = 1, !.ex = ex2,
                          !.rm = [x \in 1..Len(rm1) |-> [rm1[x] EXCEPT !.o = rmo2[x]]]]
  /\ UNCHANGED <<cfg, txs, objs, byHash, byID, quota, cost, pub, head, blocked, tick, lastDrop>>

WashLimit == WashLimitTo(LimitEx, [x \in 1..Len(LimitRm) |-> LimitRm[x].o])

\* promote loop, next object already executable: stays listed, no lock taken
WashKeep ==
  /\ w.pc = "promote" /\ w.k <= Len(w.ex) /\ ~w.chk /\ objs[w.ex[w.k]].flag
  /\ w' = [w EXCEPT !.k = @ + 1, !.out = Append(@, w.ex[w.k])]
  /\ UNCHANGED <<cfg, txs, objs, byHash, byID, quota, cost, pub, head, blocked, tick, lastDrop>>

\* PendingCostOf (read lock) + energy test against the wash head
WashPayCheck ==
  /\ w.pc = "promote" /\ w.k <= Len(w.ex) /\ ~w.chk /\ ~objs[w.ex[w.k]].flag
  /\ LET o == w.ex[w.k]
         p == objs[o].pay
         needs == At(cost, p, 0) + objs[o].cost
     IN w' = IF Energy(w.hd, p) < needs
             THEN [w EXCEPT !.k = @ + 1, !.rm = Append(@, RmEntry(o, "unpayable", needs, Energy(w.hd, p)))]
             ELSE [w EXCEPT !.chk = TRUE]
  /\ UNCHANGED <<cfg, txs, objs, byHash, byID, quota, cost, pub, head, blocked, tick, lastDrop>>

WashPromote ==
  /\ w.pc = "promote" /\ w.k <= Len(w.ex) /\ w.chk
  /\ LET o == w.ex[w.k] IN
     /\ PromoteLocked(o)
     /\ w' = [w EXCEPT !.chk = FALSE, !.k = @ + 1, !.out = IF PromoteVerdict(o) = "miss" THEN @ ELSE Append(@, o)]
  /\ UNCHANGED <<cfg, txs, pub, head, blocked, tick, lastDrop>>

\* return from wash: the deferred evictions start
WashReturn ==
  /\ w.pc = "promote" /\ w.k > Len(w.ex)
  /\ w' = [w EXCEPT !.pc = "evict", !.j = 1]
  /\ UNCHANGED <<cfg, txs, objs, byHash, byID, quota, cost, pub, head, blocked, tick, lastDrop>>

\* evict: RemoveByHash(obj.Hash()) - by hash
WashEvict ==
  /\ w.pc = "evict" /\ w.j <= Len(w.rm)
  /\ LET e == w.rm[w.j] h == objs[e.o].h IN
     /\ RemoveLocked(h)
     /\ lastDrop' = IF h \in DOMAIN byHash
                    THEN [by |-> "wash", h |-> h, o |-> byHash[h], why |-> e.why, a |-> e.a, b |-> e.b, hd |-> w.hd,
                          src |-> objs[e.o].src]
                    ELSE lastDrop
     /\ w' = [w EXCEPT !.j = @ + 1]
  /\ UNCHANGED <<cfg, txs, pub, head, blocked, tick>>

\* housekeeping stores the executables (not after a failed wash); prios: priorities as read at publication
WashPublish(prios) ==
  /\ w.pc = "evict" /\ w.j > Len(w.rm)
  /\ Len(prios) = Len(w.out)
  /\ pub' = IF w.fail THEN pub ELSE [x \in 1..Len(w.out) |-> [h |-> objs[w.out[x]].h, prio |-> prios[x]]]
  /\ w' = WIdle
  /\ UNCHANGED <<cfg, txs, objs, byHash, byID, quota, cost, head, blocked, tick, lastDrop>>

----------------------------------------------------------------------------------------------------------------
\* user-level operations (each = prefix + one critical section)

Add(o, h, src, strict, t, hd) ==
  LET p == AddPrefix(h, src, strict, hd) IN
  /\ p.v = "go"
  /\ AddLocked(o, h, src, t, p.exec, hd, PrioOf(txs[h], hd))
  /\ tick' = IF AddVerdict(h, p.exec, hd) = "ok" THEN [tick EXCEPT !.added = TRUE] ELSE tick
  /\ UNCHANGED <<cfg, txs, pub, head, blocked, w, lastDrop>>

Fill(o, h, t) ==
  /\ ~IsBlocked(txs[h])
  /\ FillLocked(o, h, t)
  /\ UNCHANGED <<cfg, txs, pub, head, blocked, tick, w, lastDrop>>

\* TxPool.Remove(hash, id): GetByID(id) must find something, then RemoveByHash(hash)
Remove(h) ==
  /\ txs[h].id \in DOMAIN byID
  /\ h \in DOMAIN byHash
  /\ RemoveLocked(h)
  /\ lastDrop' = [by |-> "remove", h |-> h, o |-> byHash[h]]
  /\ UNCHANGED <<cfg, txs, pub, head, blocked, tick, w>>

HeadAdvance(hd) ==
  /\ head' = hd
  /\ UNCHANGED <<cfg, txs, objs, byHash, byID, quota, cost, pub, blocked, tick, w, lastDrop>>

BlockAccounts(S) ==
  /\ blocked' = S
  /\ UNCHANGED <<cfg, txs, objs, byHash, byID, quota, cost, pub, head, tick, w, lastDrop>>

----------------------------------------------------------------------------------------------------------------
\* invariants
RECURSIVE SumCost(_)
SumCost(S) == IF S = {} THEN 0 ELSE LET x == CHOOSE x \in S : TRUE IN objs[x].cost + SumCost(S \ {x})

Accounts == {txs[h].org : h \in DOMAIN txs} \cup ({txs[h].dlg : h \in DOMAIN txs} \ {None})
                \cup DOMAIN quota \cup DOMAIN cost

QuotaExact == \A a \in Accounts :
  At(quota, a, 0) = Cardinality({o \in Pooled : txs[objs[o].h].org = a}) + Cardinality({o \in Pooled : txs[objs[o].h].dlg = a})

CostExact == \A a \in Accounts :
  At(cost, a, 0) = SumCost({o \in Pooled : objs[o].flag /\ objs[o].pay = a})

\* after all of an account's txs left, its entries are gone (no zero or stale entries)
NeverLockedOut ==
  /\ \A a \in DOMAIN quota : quota[a] > 0 /\ \E o \in Pooled : txs[objs[o].h].org = a \/ txs[objs[o].h].dlg = a
  /\ \A a \in DOMAIN cost : cost[a] > 0 /\ \E o \in Pooled : objs[o].flag /\ objs[o].pay = a

Reasons == {"expired", "settled", "unpayable", "blocked", "outlived", "depreverted", "inadmissible", "displaced", "errortrim"}

\* an object leaves only by Remove, or by wash with a reason that holds for its transaction at the wash's head
Justified(d) ==
  LET tx == txs[d.h] nl == (Limit * 2) \div 10 IN
  CASE d.why = "expired"      -> Expired(tx, d.hd.num + 1)
    [] d.why = "settled"      -> tx.id \in d.hd.incl
    [] d.why = "depreverted"  -> tx.dep \in d.hd.rev
    [] d.why = "inadmissible" -> tx.ref > d.hd.num + 31 \/ (tx.typed /\ ~d.hd.gala)
    [] d.why = "unpayable"    -> \/ PayerAt(tx, d.hd) = Nobody \/ Energy(d.hd, PayerAt(tx, d.hd)) < CostAt(tx, d.hd)
                                 \/ LexLess(tx.cap, d.hd.basefee)
                                 \/ d.a > d.b
    [] d.why = "blocked"      -> IsBlocked(tx)
    [] d.why = "outlived"     -> d.src # "local" /\ Lifetime # "never"
    [] d.why = "displaced"    -> d.src # "local" /\ (d.a > Limit \/ d.a + d.b > Limit \/ d.b > nl)
    [] d.why = "errortrim"    -> d.a > Limit
    [] OTHER -> FALSE
DropHasReason == lastDrop.by = None \/ lastDrop.by = "remove" \/ (lastDrop.by = "wash" /\ lastDrop.why \in Reasons /\ Justified(lastDrop))

ExecutablesSorted == \A x \in 1..Len(pub) : \A y \in 1..Len(pub) : x < y => ~LexLess(pub[x].prio, pub[y].prio)

\* structure
MapsConsistent == /\ \A h \in DOMAIN byHash : byHash[h] \in DOMAIN objs /\ objs[byHash[h]].h = h
                  /\ \A i \in DOMAIN byID : byID[i] \in Pooled /\ txs[objs[byID[i]].h].id = i
FlagImpliesPriced == \A o \in Pooled : objs[o].flag => objs[o].priced
=============================================================================
