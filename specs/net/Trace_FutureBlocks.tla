---- MODULE Trace_FutureBlocks ----
(* Trace specification for FutureBlocks.tla: a REAL node (Node.Run: houseKeeping with its retry ticker, handleBlockStream)
   that is pushed blocks through the NewBlockEvent channel of its communicator (syncsim -mode future).

     FReset{T, cap, universe, stored, maxNum, clock}   the blocks of the run (id, num, parent, ts, valid, bft), what is stored
     Universe{add}                                     one more block of the universe (minted later)
     Push{id, lo, hi, out, cache, held}                a block was pushed: the clock read before the push and after the node
                                                       had handled it, what the node did (imported | cached | dropped | known),
                                                       the cache afterwards; held: the houseKeeping goroutine is then kept
                                                       inside a slow BroadcastBlock (no retry round, no push, until Release)
     Release{lo}                                       the slow broadcast returns; lo: the clock then
     Round{hi, stored, cache}                          read with houseKeeping at rest: what is stored, what is cached
   Timestamps and clock readings are seconds relative to the genesis time.  The clock of the model may be anything between
   the readings around an event; retry rounds (TickBegin / TickStep) are silent - the ticker is not observed - but a round
   visits the cache sorted by number, so whatever was importable when a round began is imported by it.               *)
EXTENDS FutureBlocks, Json, TraceLib

Trace == LoadTrace("trace.ndjson")
VARIABLES l, held
tvars == <<vars, l, held>>
ev == Trace[l]
IsEvent(name) == l <= Len(Trace) /\ Trace[l].e = name
Consume == l' = l + 1
ToSet(s) == {s[i] : i \in 1..Len(s)}

\* the universe of the run, from the whole trace (a constant)
UniRecs == ToSet(Trace[1].universe) \cup {Trace[i].add : i \in {j \in 1..Len(Trace) : Trace[j].e = "Universe"}}
TBlocks == [id \in {r.id : r \in UniRecs} |-> CHOOSE r \in UniRecs : r.id = id]

\* upper bound for the silent clock: the next reading in the trace
RECURSIVE NextBound(_)
NextBound(i) == IF i > Len(Trace) THEN 0
                ELSE IF "hi" \in DOMAIN Trace[i] THEN Trace[i].hi
                ELSE IF Trace[i].e = "Release" THEN Trace[i].lo
                ELSE NextBound(i + 1)

TReset ==
  /\ IsEvent("FReset") /\ ev.T = T /\ ev.cap = Cap
  /\ clock' = ev.clock /\ stored' = ToSet(ev.stored) /\ maxNum' = ev.maxNum /\ cache' = {} /\ queue' = <<>> /\ lost' = {}
  /\ pushed' = {} /\ admitted' = {} /\ roundAt' = ev.clock /\ held' = FALSE
  /\ Consume
TUniverse == IsEvent("Universe") /\ Consume /\ UNCHANGED <<vars, held>>

TClock == /\ l <= Len(Trace) /\ clock < NextBound(l)
          /\ clock' = clock + 1
          /\ UNCHANGED <<stored, maxNum, cache, queue, lost, pushed, admitted, roundAt, l, held>>

\* silent retry rounds (not while the goroutine is held); ties among equal numbers do not matter: one canonical order
TTickBegin == /\ l <= Len(Trace) /\ ~held /\ TickBegin(SortedSeq(cache)) /\ UNCHANGED <<l, held>>
TTickStep == /\ l <= Len(Trace) /\ ~held /\ TickStep /\ UNCHANGED <<l, held>>

TPush ==
  /\ IsEvent("Push") /\ ~held
  /\ ev.lo <= clock /\ clock <= ev.hi                   \* the node read its clock between the two readings
  /\ \E evict \in DOMAIN TBlocks : PushBlock(ev.id, evict)
  /\ cache' = ToSet(ev.cache)                           \* (which entry an overflow throws out is the cache's random choice)
  /\ ev.out = (IF ev.id \in stored THEN "known"
               ELSE IF ev.id \in stored' THEN "imported"
               ELSE IF ev.id \in cache' THEN "cached" ELSE "dropped")
  /\ held' = ev.held
  /\ Consume

TRelease == /\ IsEvent("Release") /\ held /\ clock >= ev.lo /\ held' = FALSE /\ Consume /\ UNCHANGED vars

TRound ==
  /\ IsEvent("Round") /\ ~held /\ queue = <<>>
  /\ clock <= ev.hi
  /\ stored \cap DOMAIN TBlocks = ToSet(ev.stored)
  /\ cache = ToSet(ev.cache)
  /\ Consume /\ UNCHANGED <<vars, held>>

TEnd == IsEvent("FEnd") /\ queue = <<>> /\ Consume /\ UNCHANGED <<vars, held>>

TInit == Init /\ l = 1 /\ held = FALSE /\ HWMInit
TNext == TReset \/ TUniverse \/ TClock \/ TTickBegin \/ TTickStep \/ TPush \/ TRelease \/ TRound \/ TEnd
TSpec == TInit /\ [][TNext]_tvars
Progress == HWM(l)
TraceAccepted == Accepted(Len(Trace))
TInv == StoredSound /\ CacheCapped /\ AdmissionSound
====
