---- MODULE Gossip ----
(* Growth beyond C19 (DESIGN section 8): propagation of blocks and transactions between peers.

   Transcribed from the pinned tree:
     comm/communicator.go  BroadcastBlock   peers that are not marked as knowing the block: the first floor(sqrt(k)) of a
                                             random permutation get the block (MsgNewBlock), the rest its id (MsgNewBlockID);
                                             every one of them is marked BEFORE the message leaves
     comm/handle_rpc.go    MsgNewBlock      mark the sender, post the block to the node (import; re-broadcast if trunk)
                           MsgNewBlockID    mark the sender, hand (id, peer) to the announcement loop
                           MsgNewTx         mark the sender, txpool.Add
                           MsgGetBlockByID  0 or 1 block;   MsgGetTxs: executables the requester is not marked for (marking)
     comm/announcement_loop.go              an announcement is taken up unless a fetch from that peer is running or the id is
                                             already being fetched 3 times; the fetch starts with a repository look-up and
                                             asks the announcer only if the block is unknown; a fetched block must carry the
                                             announced id
     comm/txs_loop.go                       an executable tx of the pool goes to every peer not marked for it (marking)
     comm/communicator.go  runPeer/syncTxs  after the handshake of a synced node: GetTxs until the answer is empty
     comm/peer.go                           per peer LRU marks (1024 blocks, 65536 txs with a 100..1000 s lifetime): inside the
                                             explored horizon a mark is never lost

   Marks are state of the real code (knownB / knownT).  The properties are stated over ground-truth histories that are kept
   independently of the marks (sentH, recvH), so dropping a mark in the model violates them.                               *)
EXTENDS Integers, Sequences, FiniteSets, TLC

CONSTANTS Nodes,        \* node ids
          Links0,       \* links that are up initially: set of {n, p}
          LinksLater,   \* links PeerConnect may bring up later
          NBlocks,      \* blocks 1..NBlocks are produced in this order (a chain)
          Txs,          \* valid transactions (subset of 3000..3999)
          Hostile,      \* subset of Nodes: sends what it likes, serves what it likes
          Bogus,        \* ids a hostile node uses: bogus / invalid blocks (2000..2999), invalid txs (4000..4999)
          HBudget       \* number of messages every hostile node may send

\* Ids are integers from disjoint ranges, in the model and in recorded traces alike:
\*   1..999 valid blocks (in the model block b has parent b - 1)       2000..2999 bogus / invalid blocks
\*   3000..3999 valid txs                                              4000..4999 invalid txs
Blocks == 1..NBlocks
Honest == Nodes \ Hostile
ValidB(b) == b \in 1..999
ValidT(t) == t \in 3000..3999
Isqrt(k) == IF k = 0 THEN 0 ELSE IF k < 4 THEN 1 ELSE IF k < 9 THEN 2 ELSE 3

VARIABLES have,      \* [node -> set of block ids]   the chain store
          pool,      \* [node -> set of tx ids]      the tx pool (executables)
          links,     \* set of {n, p}: connections that are up
          knownB,    \* [<<n, p>> -> set of block ids]   n's marks for peer p (peer.MarkBlock)
          knownT,    \* [<<n, p>> -> set of tx ids]      n's marks for peer p (peer.MarkTransaction)
          chan,      \* [<<from, to>> -> sequence of messages]  the connection, FIFO
          outbox,    \* messages decided (and marked) but not yet written to the connection (one goroutine each)
          posted,    \* [node -> sequence of block ids]  NewBlockEvents the node has not handled yet (handleNewBlock)
          todoB,     \* [node -> blocks imported as trunk and not yet handed to BroadcastBlock]
          todoT,     \* [node -> txs whose "executable" pool event txsLoop has not handled yet]
          fetching,  \* [node -> set of [p, b, st]]  announcement loop: fetches in progress, st = "new" | "asked"
          txsrv,     \* [<<server, client>> -> "fresh" | "done"]   txsToSync of the connection
          produced,  \* blocks produced so far
          submitted, \* txs submitted so far
          budget,    \* [hostile node -> messages left]
          sentH,     \* ground truth: set of <<n, p, class, id>>  n pushed id to p (class "B" / "T"); answers are not pushes
          recvH,     \* ground truth: set of <<n, p, class, id>>  n got id from p ("K": announced while already stored)
          viol       \* rule breaches seen: "echo", "dup", "fetch-known"
vars == <<have, pool, links, knownB, knownT, chan, outbox, posted, todoB, todoT, fetching, txsrv, produced, submitted,
          budget, sentH, recvH, viol>>
\* everything but ... (for UNCHANGED)
vNode == <<have, pool, posted, todoB, todoT>>
vMarks == <<knownB, knownT>>
vEnv == <<links, produced, submitted, budget>>
vHist == <<sentH, recvH, viol>>

Peers(n) == {p \in Nodes : {n, p} \in links}
\* set: payload of a "txs" answer
Msg(f, t, k, id) == [from |-> f, to |-> t, t |-> k, id |-> id, set |-> {}]
MsgS(f, t, S) == [from |-> f, to |-> t, t |-> "txs", id |-> 0, set |-> S]
Pairs == {<<a, b>> \in Nodes \X Nodes : a # b}
FetchPeers(n) == {e.p : e \in fetching[n]}
Quiet == /\ outbox = {} /\ \A pr \in Pairs : chan[pr] = <<>>
         /\ \A n \in Nodes : todoB[n] = {} /\ todoT[n] = {} /\ fetching[n] = {} /\ posted[n] = <<>>
CanImport(n, b) == ValidB(b) /\ b \notin have[n] /\ (b = 1 \/ (b - 1) \in have[n])
RECURSIVE RemoveFirst(_, _)
RemoveFirst(s, x) == IF s = <<>> THEN <<>> ELSE IF Head(s) = x THEN Tail(s) ELSE <<Head(s)>> \o RemoveFirst(Tail(s), x)
InSeq(s, x) == \E i \in 1..Len(s) : s[i] = x

Init ==
  /\ have = [n \in Nodes |-> {}] /\ pool = [n \in Nodes |-> {}] /\ links = Links0
  /\ knownB = [pr \in Pairs |-> {}] /\ knownT = [pr \in Pairs |-> {}]
  /\ chan = [pr \in Pairs |-> <<>>] /\ outbox = {}
  /\ posted = [n \in Nodes |-> <<>>]
  /\ todoB = [n \in Nodes |-> {}] /\ todoT = [n \in Nodes |-> {}] /\ fetching = [n \in Nodes |-> {}]
  /\ txsrv = [pr \in Pairs |-> "done"]
  /\ produced = {} /\ submitted = {} /\ budget = [h \in Hostile |-> HBudget]
  /\ sentH = {} /\ recvH = {} /\ viol = {}

(* ---------------------------------------------------------------- environment *)
\* a node packs block b (packer_loop: commit, then BroadcastBlock)
ProduceAs(n, b) ==
  /\ n \in Honest /\ b \notin have[n]
  /\ have' = [have EXCEPT ![n] = @ \cup {b}]
  /\ todoB' = [todoB EXCEPT ![n] = @ \cup {b}]
  /\ produced' = produced \cup {b}
  /\ UNCHANGED <<pool, posted, todoT, vMarks, chan, outbox, fetching, txsrv, links, submitted, budget, vHist>>
\* Blocks are 10 s apart: the previous one has spread before the next one is made (assumption of the liveness claim)
Produce(n) ==
  LET b == Cardinality(produced) + 1 IN Quiet /\ b <= NBlocks /\ CanImport(n, b) /\ ProduceAs(n, b)

TxSubmit(n, t) ==
  /\ n \in Honest /\ ValidT(t) /\ t \notin submitted
  /\ pool' = [pool EXCEPT ![n] = @ \cup {t}]
  /\ todoT' = [todoT EXCEPT ![n] = @ \cup {t}]
  /\ submitted' = submitted \cup {t}
  /\ UNCHANGED <<have, posted, todoB, vMarks, chan, outbox, fetching, txsrv, links, produced, budget, vHist>>

\* a new connection; both sides (if synced nodes) start syncTxs
ConnectAs(n, p) ==
  /\ {n, p} \notin links /\ n # p
  /\ links' = links \cup {{n, p}}
  /\ txsrv' = [txsrv EXCEPT ![<<n, p>>] = "fresh", ![<<p, n>>] = "fresh"]
  /\ outbox' = outbox \cup {Msg(x[1], x[2], "gettxs", 0) : x \in {<<n, p>>, <<p, n>>} \cap (Honest \X Nodes)}
  /\ UNCHANGED <<vNode, vMarks, chan, fetching, produced, submitted, budget, vHist>>
\* between two nodes on the same chain (block sync is C19 proper)
PeerConnect(n, p) ==
  /\ {n, p} \in LinksLater
  /\ have[n] = have[p] \/ n \in Hostile \/ p \in Hostile
  /\ ConnectAs(n, p)

(* ---------------------------------------------------------------- decisions *)
Breach(n, T, cls, id) ==
  (IF \E p \in T : <<n, p, cls, id>> \in recvH THEN {"echo"} ELSE {}) \cup
  (IF \E p \in T : <<n, p, cls, id>> \in sentH THEN {"dup"} ELSE {})

\* BroadcastBlock(b) at n; F = the peers that get the full block
BroadcastB(n, b, F) ==
  /\ n \in Honest /\ b \in todoB[n]
  /\ LET T == {p \in Peers(n) : b \notin knownB[<<n, p>>]} IN
     /\ F \subseteq T /\ Cardinality(F) = Isqrt(Cardinality(T))
     /\ knownB' = [pr \in Pairs |-> IF pr[1] = n /\ pr[2] \in T THEN knownB[pr] \cup {b} ELSE knownB[pr]]
     /\ outbox' = outbox \cup {Msg(n, p, IF p \in F THEN "full" ELSE "ann", b) : p \in T}
     /\ viol' = viol \cup Breach(n, T, "B", b)
     /\ sentH' = sentH \cup {<<n, p, "B", b>> : p \in T}
  /\ todoB' = [todoB EXCEPT ![n] = @ \ {b}]
  /\ UNCHANGED <<have, pool, posted, todoT, knownT, chan, fetching, txsrv, vEnv, recvH>>

\* txsLoop: one executable tx event
RelayT(n, t) ==
  /\ n \in Honest /\ t \in todoT[n]
  /\ LET T == {p \in Peers(n) : t \notin knownT[<<n, p>>]} IN
     /\ knownT' = [pr \in Pairs |-> IF pr[1] = n /\ pr[2] \in T THEN knownT[pr] \cup {t} ELSE knownT[pr]]
     /\ outbox' = outbox \cup {Msg(n, p, "tx", t) : p \in T}
     /\ viol' = viol \cup Breach(n, T, "T", t)
     /\ sentH' = sentH \cup {<<n, p, "T", t>> : p \in T}
  /\ todoT' = [todoT EXCEPT ![n] = @ \ {t}]
  /\ UNCHANGED <<have, pool, posted, todoB, knownB, chan, fetching, txsrv, vEnv, recvH>>

\* fetchBlockByID: repository look-up first
FetchDecide(n, e) ==
  /\ n \in Honest /\ e \in fetching[n] /\ e.st = "new"
  /\ IF e.b \in have[n]
     THEN fetching' = [fetching EXCEPT ![n] = @ \ {e}] /\ UNCHANGED <<outbox, viol>>
     ELSE /\ fetching' = [fetching EXCEPT ![n] = (@ \ {e}) \cup {[e EXCEPT !.st = "asked"]}]
          /\ outbox' = outbox \cup {Msg(n, e.p, "get", e.b)}
          \* (c): the announcement had arrived when the block was already in the repository
          /\ viol' = viol \cup (IF <<n, e.p, "K", e.b>> \in recvH THEN {"fetch-known"} ELSE {})
  /\ UNCHANGED <<vNode, vMarks, chan, txsrv, vEnv, sentH, recvH>>

\* a decided message is written to the connection (dropped if the connection is gone)
Send(m) ==
  /\ m \in outbox
  /\ outbox' = outbox \ {m}
  /\ chan' = IF {m.from, m.to} \in links THEN [chan EXCEPT ![<<m.from, m.to>>] = Append(@, m)] ELSE chan
  /\ UNCHANGED <<vNode, vMarks, fetching, txsrv, vEnv, vHist>>

\* node.handleNewBlock: processBlock; a block that becomes trunk is re-broadcast
NodeImport(n, b, ok, trunk) ==
  /\ n \in Honest /\ InSeq(posted[n], b)
  /\ posted' = [posted EXCEPT ![n] = RemoveFirst(@, b)]
  /\ have' = IF ok THEN [have EXCEPT ![n] = @ \cup {b}] ELSE have
  /\ todoB' = IF ok /\ trunk THEN [todoB EXCEPT ![n] = @ \cup {b}] ELSE todoB
  /\ UNCHANGED <<pool, todoT, vMarks, chan, outbox, fetching, txsrv, vEnv, vHist>>

(* ---------------------------------------------------------------- receiving (rpc.Serve -> handleRPC / result) *)
RecvHonest(n, p, m) ==
  CASE m.t = "full" ->
         /\ knownB' = [knownB EXCEPT ![<<n, p>>] = @ \cup {m.id}]
         /\ recvH' = recvH \cup {<<n, p, "B", m.id>>}
         /\ posted' = [posted EXCEPT ![n] = Append(@, m.id)]
         /\ UNCHANGED <<have, pool, todoB, todoT, knownT, outbox, fetching, txsrv, viol, sentH>>
    [] m.t = "ann" ->
         /\ knownB' = [knownB EXCEPT ![<<n, p>>] = @ \cup {m.id}]
         /\ recvH' = recvH \cup {<<n, p, "B", m.id>>} \cup (IF m.id \in have[n] THEN {<<n, p, "K", m.id>>} ELSE {})
         /\ fetching' = IF p \notin FetchPeers(n) /\ Cardinality({e \in fetching[n] : e.b = m.id}) < 3
                        THEN [fetching EXCEPT ![n] = @ \cup {[p |-> p, b |-> m.id, st |-> "new"]}]
                        ELSE fetching                      \* "skip new block ID announcement"
         /\ UNCHANGED <<vNode, knownT, outbox, txsrv, viol, sentH>>
    [] m.t = "get" ->
         /\ outbox' = outbox \cup {Msg(n, p, IF m.id \in have[n] THEN "blk" ELSE "nil", m.id)}
         /\ UNCHANGED <<vNode, vMarks, fetching, txsrv, vHist>>
    [] m.t \in {"blk", "nil"} ->
         LET es == {e \in fetching[n] : e.p = p /\ e.st = "asked"} IN
         /\ fetching' = [fetching EXCEPT ![n] = @ \ es]
         /\ posted' = IF m.t = "blk" /\ \E e \in es : e.b = m.id          \* the block must carry the announced id
                      THEN [posted EXCEPT ![n] = Append(@, m.id)] ELSE posted
         /\ UNCHANGED <<have, pool, todoB, todoT, vMarks, outbox, txsrv, vHist>>
    [] m.t = "tx" ->
         /\ knownT' = [knownT EXCEPT ![<<n, p>>] = @ \cup {m.id}]
         /\ recvH' = recvH \cup {<<n, p, "T", m.id>>}
         /\ IF ValidT(m.id) /\ m.id \notin pool[n]
            THEN pool' = [pool EXCEPT ![n] = @ \cup {m.id}] /\ todoT' = [todoT EXCEPT ![n] = @ \cup {m.id}]
            ELSE UNCHANGED <<pool, todoT>>
         /\ UNCHANGED <<have, posted, todoB, knownB, outbox, fetching, txsrv, viol, sentH>>
    [] m.t = "gettxs" ->
         LET S == IF txsrv[<<n, p>>] = "fresh" THEN pool[n] \ knownT[<<n, p>>] ELSE {} IN
         /\ knownT' = [knownT EXCEPT ![<<n, p>>] = @ \cup S]
         /\ txsrv' = [txsrv EXCEPT ![<<n, p>>] = "done"]
         /\ outbox' = outbox \cup {MsgS(n, p, S)}
         /\ viol' = viol \cup UNION {Breach(n, {p}, "T", t) : t \in S}
         /\ sentH' = sentH \cup {<<n, p, "T", t>> : t \in S}
         /\ UNCHANGED <<vNode, knownB, fetching, recvH>>
    [] m.t = "txs" ->
         LET S == m.set  new == {t \in S : ValidT(t) /\ t \notin pool[n]} IN
         /\ knownT' = [knownT EXCEPT ![<<n, p>>] = @ \cup S]
         /\ recvH' = recvH \cup {<<n, p, "T", t>> : t \in S}
         /\ pool' = [pool EXCEPT ![n] = @ \cup new]
         /\ todoT' = [todoT EXCEPT ![n] = @ \cup new]
         /\ outbox' = IF S # {} THEN outbox \cup {Msg(n, p, "gettxs", 0)} ELSE outbox
         /\ UNCHANGED <<have, posted, todoB, knownB, fetching, txsrv, viol, sentH>>

Recv(n, p) ==
  /\ chan[<<p, n>>] # <<>>
  /\ chan' = [chan EXCEPT ![<<p, n>>] = Tail(@)]
  /\ IF n \in Hostile
     THEN UNCHANGED <<vNode, vMarks, outbox, fetching, txsrv, vHist>>
     ELSE RecvHonest(n, p, Head(chan[<<p, n>>]))
  /\ UNCHANGED vEnv

(* ---------------------------------------------------------------- hostile peers *)
HostileMsgs(h, p) ==
  {Msg(h, p, k, id) : k \in {"full", "ann", "tx"}, id \in Bogus}             \* unknown / invalid ids, as often as it likes
  \cup {Msg(h, p, "ann", b) : b \in have[p]}                                  \* announcing what the victim has
  \cup {Msg(h, p, k, id) : k \in {"nil", "blk"}, id \in Bogus \cup have[p]}   \* answers: refusal, another block
\* a hostile node writes m to its connection with p
HSendAs(h, p, m) ==
  /\ h \in Hostile /\ p \in Peers(h)
  /\ chan' = [chan EXCEPT ![<<h, p>>] = Append(@, m)]
  /\ UNCHANGED <<vNode, vMarks, outbox, fetching, txsrv, links, produced, submitted, vHist>>
HSend(h, p) ==
  /\ h \in Hostile /\ budget[h] > 0
  /\ \E m \in HostileMsgs(h, p) : HSendAs(h, p, m)
  /\ budget' = [budget EXCEPT ![h] = @ - 1]
\* a fetch from a peer that never answers ends with the rpc time-out (10 s)
FetchTimeout(n, e) ==
  /\ n \in Honest /\ e \in fetching[n] /\ e.st = "asked" /\ e.p \in Hostile
  /\ chan[<<e.p, n>>] = <<>> /\ chan[<<n, e.p>>] = <<>> /\ Msg(n, e.p, "get", e.b) \notin outbox
  /\ fetching' = [fetching EXCEPT ![n] = @ \ {e}]
  /\ UNCHANGED <<vNode, vMarks, chan, outbox, txsrv, vEnv, vHist>>

(* ---------------------------------------------------------------- *)
System ==
  \/ \E n \in Nodes : \E b \in Blocks : \E F \in SUBSET Nodes : BroadcastB(n, b, F)
  \/ \E n \in Nodes : \E t \in Txs : RelayT(n, t)
  \/ \E n \in Nodes : \E e \in fetching[n] : FetchDecide(n, e) \/ FetchTimeout(n, e)
  \/ \E m \in outbox : Send(m)
  \/ \E pr \in Pairs : Recv(pr[1], pr[2])
  \/ \E n \in Nodes : \E i \in 1..Len(posted[n]) :
        LET b == posted[n][i] IN NodeImport(n, b, CanImport(n, b), TRUE)
Env ==
  \/ \E n \in Nodes : Produce(n)
  \/ \E n \in Nodes : \E t \in Txs : TxSubmit(n, t)
  \/ \E pr \in Pairs : PeerConnect(pr[1], pr[2])
  \/ \E pr \in Pairs : HSend(pr[1], pr[2]) /\ UNCHANGED <<>>
Next == System \/ Env
Spec == Init /\ [][Next]_vars /\ WF_vars(System)

(* ---------------------------------------------------------------- properties *)
\* (a) never to the peer it came from, never twice to the same peer; (c) no fetch for a block the node has
NoBreach == viol = {}
\* marks cover the ground truth: what was pushed to / came from a peer is marked for it
MarksCoverTruth ==
  \A x \in sentH \cup recvH : (x[1] \in Honest /\ x[3] \in {"B", "T"}) =>
     (IF x[3] = "B" THEN x[4] \in knownB[<<x[1], x[2]>>] ELSE x[4] \in knownT[<<x[1], x[2]>>])
\* (d) whatever hostile peers send, chain and pool hold valid things only
CleanState == \A n \in Honest : have[n] \subseteq produced /\ pool[n] \subseteq submitted
\* connected component of the honest nodes
RECURSIVE Reach(_, _)
Reach(S, k) == IF k = 0 THEN S
               ELSE Reach(S \cup {p \in Honest : \E n \in S : {n, p} \in links}, k - 1)
Connected == \A n \in Honest : Reach({n}, Cardinality(Nodes)) = Honest
Spread == \A n \in Honest : have[n] = produced /\ pool[n] = submitted
\* (b) on a connected graph of honest nodes everything produced / accepted reaches everybody
Liveness == <>[](Connected => Spread)
\* (d) the work a hostile peer can cause ends
Terminates == <>[]Quiet
====
