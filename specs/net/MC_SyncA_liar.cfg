\* (A) findCommonAncestor against a peer that answers every probe as it likes: range, probe bound, termination
SPECIFICATION SpecAL
CONSTANTS
  MaxH = 40
  ExtraR = 3
  MaxHB = 0
  MaxRB = 0
  MaxBatch = 2
  RawCap = 1
  WarmCap = 1
  Slack = {0}
  FetchListens = TRUE
  DecListens = TRUE
INVARIANT LiarHarmless
INVARIANT ProbesInRange
INVARIANT ProbesBounded
INVARIANT FindWindow
PROPERTY ATerminates
CHECK_DEADLOCK FALSE
