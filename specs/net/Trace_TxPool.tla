---------------------------- MODULE Trace_TxPool ----------------------------
(* Trace specification for C18: validates event traces recorded from the real txpool (harness/cmd/poolsim, hook H5)
   against TxPool.tla with the REPAIRED promote rule (cfg.identity = TRUE in the traces).

   The trace supplies only facts the pool does not decide: which signed transactions exist (Tx), what the best
   block says about them (Head: included / reverted ids, energy of the tracked payers, fork and sync status), which
   operation a worker starts (AddBegin/RemoveBegin/FillBegin), object identities, times added, and the priorities
   and costs the pool computed (compared with the harness's own computation).  Everything the pool decides is
   recomputed here and must equal what the implementation reported:
     - every verdict of txObjectMap.Add (dup / quota / delegator quota / payer energy / ok) and of the lock-free
       prefix of TxPool.add (known, blocked, rejected:<reason>, pool full at 150 % / 120 %, not executable, 20 % rule)
     - the executable flag, quota[origin], quota[delegator], cost[payer] and the pool size AFTER every critical section
     - which object RemoveByHash removed, and what promote did (ok / noop / miss - by object identity)
     - every wash decision: per-object evaluation (executable, non-executable, dropped and why), the sorted list and
       the displaced objects under the limits, the pending-cost test before each promotion, the evictions in order,
       the published executables
     - the housekeeping trigger (head changed / over limit / added since last wash) of every tick
     - full snapshots of quota, cost and flags at quiescence (exact key sets: stale or zero entries are rejected)
   All invariants of TxPool.tla are evaluated after every event.

   Events emitted under txObjectMap.lock carry a pool-wide sequence number taken under that lock; the trace is in that
   order.  In traces of free-running goroutines (cfg.relaxed) the lock-free prefix of add is not linearised with the
   other events, so verdicts that depend on racy reads (pool size, published list, GetByID guard, addedAfterWash)
   are accepted as reported; everything decided under the lock is still recomputed.  In gate-scheduled traces
   (one goroutine runs at a time, parked at the unlocked hook sites) everything is checked.
   wash's steps that take no lock and touch nothing shared (keeping an already executable object in the list,
   returning from wash) leave no event: they are silent steps (l unchanged).                                       *)
EXTENDS TxPool, TraceLib

Trace == LoadTrace("trace.ndjson")

VARIABLES l,      \* next line
          pend,   \* worker -> operation in flight
          wev     \* wash announced an eviction (wash_evict seen, RemoveByHash not yet)
tvars == <<vars, l, pend, wev>>

Ev == Trace[l]
Relaxed == cfg.relaxed
NoHead == [num |-> -1, incl |-> {}, rev |-> {}, energy |-> << >>, payers |-> << >>, basefee |-> <<0, 0, 0>>, bf |-> "0", id |-> "none", refresh |-> FALSE, gala |-> FALSE, synced |-> FALSE]

Fresh(c) ==
  /\ cfg = c /\ txs = << >> /\ objs = << >> /\ byHash = << >> /\ byID = << >> /\ quota = << >> /\ cost = << >>
  /\ pub = <<>> /\ head = NoHead /\ blocked = {} /\ tick = [seen |-> "none", added |-> FALSE] /\ w = WIdle
  /\ lastDrop = NoDrop /\ pend = << >> /\ wev = FALSE

Init == /\ HWMInit /\ Len(Trace) >= 1 /\ Trace[1].e = "Reset" /\ Fresh(Trace[1].cfg) /\ l = 2

ResetEv ==
  /\ Ev.e = "Reset"
  /\ cfg' = Ev.cfg /\ txs' = << >> /\ objs' = << >> /\ byHash' = << >> /\ byID' = << >> /\ quota' = << >> /\ cost' = << >>
  /\ pub' = <<>> /\ head' = NoHead /\ blocked' = {} /\ tick' = [seen |-> "none", added |-> FALSE] /\ w' = WIdle
  /\ lastDrop' = NoDrop /\ pend' = << >> /\ wev' = FALSE

TxEv ==
  /\ Ev.e = "Tx" /\ Ev.h \notin DOMAIN txs
  /\ txs' = Put(txs, Ev.h, Ev.tx)
  /\ UNCHANGED <<cfg, objs, byHash, byID, quota, cost, pub, head, blocked, tick, w, lastDrop, pend, wev>>

HeadOf(r) == [num |-> r.num, incl |-> SeqSet(r.incl), rev |-> SeqSet(r.rev), energy |-> r.energy, payers |-> r.payers, basefee |-> r.basefee, bf |-> r.bf, id |-> r.id, refresh |-> r.refresh, gala |-> r.gala,
              synced |-> r.synced]
HeadEv ==
  /\ Ev.e = "Head"
  /\ head' = HeadOf(Ev.hd)
  /\ tick' = IF head.num = -1 THEN [tick EXCEPT !.seen = Ev.hd.id] ELSE tick    \* housekeeping reads the head once at start
  /\ UNCHANGED <<cfg, txs, objs, byHash, byID, quota, cost, pub, blocked, w, lastDrop, pend, wev>>

BlockEv == Ev.e = "Block" /\ BlockAccounts(SeqSet(Ev.accts)) /\ UNCHANGED <<pend, wev>>

PrioOK(p, h, hd) == cfg.checkprio => p = PrioOf(txs[h], hd)

----------------------------------------------------------------------------------------------------------------
\* TxPool.add

AddBeginEv ==
  /\ Ev.e = "AddBegin" /\ Ev.g \notin DOMAIN pend
  /\ LET src == IF Ev.kind = "local" THEN "local" ELSE "remote"
         strict == Ev.kind = "strict"
     IN pend' = Put(pend, Ev.g, [op |-> "add", h |-> Ev.h, src |-> src, strict |-> strict, hd |-> head,
                                 pv |-> AddPrefix(Ev.h, src, strict, head), lock |-> None])
  /\ UNCHANGED <<vars, wev>>

KindVerdict(k) == CASE k = "add" -> "ok" [] k = "add_dup" -> "dup" [] k = "add_quota" -> "quota"
                    [] k = "add_dquota" -> "dquota" [] k = "add_payer" -> "payer"

\* what the lock-free prefix must have found, judged only by facts that are stable while the operation runs
StableExec(p) == p.hd.synced /\ Evaluate(txs[p.h], p.hd).r = "exec"
StableGo(p) == /\ ~IsBlocked(txs[p.h])
               /\ (p.hd.synced => Evaluate(txs[p.h], p.hd).r # "drop")
               /\ (p.strict /\ p.hd.synced => Evaluate(txs[p.h], p.hd).r = "exec")

AddLockEv ==
  /\ Ev.e \in {"add", "add_dup", "add_quota", "add_dquota", "add_payer"}
  /\ \E g \in DOMAIN pend :
       LET p == pend[g]
           tx == txs[Ev.h]
           exec == IF Relaxed THEN StableExec(p) ELSE (p.pv.v = "go" /\ p.pv.exec)
       IN /\ p.op = "add" /\ p.h = Ev.h /\ p.lock = None
          /\ IF Relaxed THEN StableGo(p) ELSE p.pv.v = "go"
          /\ AddVerdict(Ev.h, exec, p.hd) = KindVerdict(Ev.e)
          /\ AddLocked(Ev.o, Ev.h, p.src, Ev.t, exec, p.hd, IF Ev.priced THEN Ev.prio ELSE <<>>)
          \* TxPool.add counts every nil return of txObjectMap.Add, a duplicate found under the lock included
          /\ tick' = IF Ev.e \in {"add", "add_dup"} THEN [tick EXCEPT !.added = TRUE] ELSE tick
          /\ pend' = [pend EXCEPT ![g].lock = KindVerdict(Ev.e)]
          \* the post-state the implementation reported from inside the critical section
          /\ Ev.n = Cardinality(DOMAIN byHash')
          /\ (Ev.e = "add" =>
                /\ Ev.x = exec /\ Ev.priced = exec /\ Ev.src = p.src
                /\ Ev.qo = At(quota', tx.org, 0)
                /\ (tx.dlg # None => Ev.qd = At(quota', tx.dlg, 0))
                /\ (exec => /\ Ev.cost = CostAt(tx, p.hd) /\ Ev.pay = PayerAt(tx, p.hd) /\ PrioOK(Ev.prio, Ev.h, p.hd)
                            /\ Ev.cp = At(cost', PayerAt(tx, p.hd), 0)))
  /\ UNCHANGED <<cfg, txs, pub, head, blocked, w, lastDrop, wev>>

LockRes(v) == IF v \in {"ok", "dup"} THEN "ok" ELSE v
PrefixRes(p, res) ==
  LET ev == Evaluate(txs[p.h], p.hd) IN
  IF ~Relaxed
  THEN /\ p.pv.v # "go"
       /\ res = (CASE p.pv.v \in {"known", "ignored"} -> "ok"
                   [] p.pv.v = "rejected" -> "rejected:" \o p.pv.why
                   [] OTHER -> p.pv.v)
  ELSE \/ res \in {"ok", "full", "nonexecfull"}
       \/ res = "notexec" /\ p.strict /\ p.hd.synced /\ ev.r = "nonexec"
       \/ p.hd.synced /\ ev.r = "drop" /\ res = "rejected:" \o ev.why

AddEndEv ==
  /\ Ev.e = "AddEnd" /\ Ev.g \in DOMAIN pend /\ pend[Ev.g].op = "add"
  /\ LET p == pend[Ev.g] IN IF p.lock # None THEN Ev.res = LockRes(p.lock) ELSE PrefixRes(p, Ev.res)
  /\ pend' = Del(pend, Ev.g)
  /\ UNCHANGED <<vars, wev>>

----------------------------------------------------------------------------------------------------------------
\* TxPool.Remove and wash's evict: both end in txObjectMap.RemoveByHash

RemoveBeginEv ==
  /\ Ev.e = "RemoveBegin" /\ Ev.g \notin DOMAIN pend
  /\ pend' = Put(pend, Ev.g, [op |-> "remove", h |-> Ev.h, guard |-> txs[Ev.h].id \in DOMAIN byID, lock |-> None])
  /\ UNCHANGED <<vars, wev>>

\* what RemoveByHash reported about the object it removed
RemovedAsReported ==
  /\ Ev.n = Cardinality(DOMAIN byHash')
  /\ (Ev.e = "remove" =>
        LET o == byHash[Ev.h] tx == txs[Ev.h] IN
        /\ Ev.o = o                                        \* identity of the removed object
        /\ Ev.x = objs[o].flag
        \* wash publishes the pricing of the object it is evaluating (lock-free, setPricing) BEFORE its eval event is emitted:
        \* a RemoveByHash that falls into that window reports "priced" for an object whose eval event is still to come
        /\ \/ Ev.priced = objs[o].priced
           \/ Ev.priced /\ ~objs[o].flag /\ w.pc = "eval" /\ w.i <= Len(w.snap) /\ w.snap[w.i] = o
        /\ Ev.qo = At(quota', tx.org, 0)
        /\ (tx.dlg # None => Ev.qd = At(quota', tx.dlg, 0))
        /\ (objs[o].priced => Ev.pay = objs[o].pay /\ Ev.cost = objs[o].cost /\ Ev.cp = At(cost', objs[o].pay, 0)))

RemoveLockEv ==
  /\ Ev.e \in {"remove", "remove_miss"}
  /\ (Ev.e = "remove") = (Ev.h \in DOMAIN byHash)
  /\ \/ \E g \in DOMAIN pend :                                  \* a user's Remove
          /\ pend[g].op = "remove" /\ pend[g].h = Ev.h /\ pend[g].lock = None
          /\ (Relaxed \/ pend[g].guard)
          /\ RemoveLocked(Ev.h)
          /\ lastDrop' = IF Ev.e = "remove" THEN [by |-> "remove", h |-> Ev.h, o |-> byHash[Ev.h]] ELSE lastDrop
          /\ pend' = [pend EXCEPT ![g].lock = Ev.e]
          /\ UNCHANGED <<cfg, txs, pub, head, blocked, tick, w, wev>>
     \/ /\ wev /\ w.pc = "evict" /\ w.j <= Len(w.rm) /\ objs[w.rm[w.j].o].h = Ev.h      \* wash's evict
        /\ WashEvict
        /\ wev' = FALSE
        /\ UNCHANGED pend
  /\ RemovedAsReported

RemoveEndEv ==
  /\ Ev.e = "RemoveEnd" /\ Ev.g \in DOMAIN pend /\ pend[Ev.g].op = "remove"
  /\ LET p == pend[Ev.g] IN
     IF p.lock = None THEN (Relaxed \/ ~p.guard) /\ Ev.res = FALSE ELSE Ev.res = (p.lock = "remove")
  /\ pend' = Del(pend, Ev.g)
  /\ UNCHANGED <<vars, wev>>

----------------------------------------------------------------------------------------------------------------
\* TxPool.Fill

CountFillable(hs) == Cardinality({x \in 1..Len(hs) : ~IsBlocked(txs[hs[x]])})
FillBeginEv ==
  /\ Ev.e = "FillBegin" /\ Ev.g \notin DOMAIN pend
  \* the blocklist filter runs before the critical section
  /\ pend' = Put(pend, Ev.g, [op |-> "fill", hs |-> {h \in SeqSet(Ev.hs) : ~IsBlocked(txs[h])}, left |-> CountFillable(Ev.hs)])
  /\ UNCHANGED <<vars, wev>>

FillLockEv ==
  /\ Ev.e \in {"fill", "fill_dup"}
  /\ (Ev.e = "fill") = (Ev.h \notin DOMAIN byHash)
  /\ \E g \in DOMAIN pend :
       /\ pend[g].op = "fill" /\ Ev.h \in pend[g].hs /\ pend[g].left > 0
       /\ pend' = [pend EXCEPT ![g].left = @ - 1]
  /\ FillLocked(Ev.o, Ev.h, Ev.t)
  /\ Ev.n = Cardinality(DOMAIN byHash')
  /\ (Ev.e = "fill" => /\ ~Ev.x /\ ~Ev.priced /\ Ev.src = "fill"
                       /\ Ev.qo = At(quota', txs[Ev.h].org, 0)
                       /\ (txs[Ev.h].dlg # None => Ev.qd = At(quota', txs[Ev.h].dlg, 0)))
  /\ UNCHANGED <<cfg, txs, pub, head, blocked, tick, w, lastDrop, wev>>

FillEndEv ==
  /\ Ev.e = "FillEnd" /\ Ev.g \in DOMAIN pend /\ pend[Ev.g].op = "fill" /\ pend[Ev.g].left = 0
  /\ pend' = Del(pend, Ev.g)
  /\ UNCHANGED <<vars, wev>>

----------------------------------------------------------------------------------------------------------------
\* housekeeping tick and wash

TickEv ==
  /\ Ev.e = "tick" /\ w.pc = "idle"
  /\ Ev.num = head.num
  /\ (~Relaxed => /\ Ev.changed = (head.id # tick.seen)
                  /\ Ev.ran = (head.synced /\ (Ev.forced \/ WashTrigger)))
  /\ tick' = IF Ev.ran THEN tick ELSE [tick EXCEPT !.seen = head.id]
  /\ UNCHANGED <<cfg, txs, objs, byHash, byID, quota, cost, pub, head, blocked, w, lastDrop, pend, wev>>

SnapshotEv ==        \* ToTxObjects under the read lock
  /\ Ev.e = "snapshot"
  /\ WashStart(Ev.os, TRUE)
  /\ UNCHANGED <<pend, wev>>

WashBeginEv ==       \* the evaluation order (a permutation of the snapshot) and the head wash works with
  /\ Ev.e = "wash_begin" /\ w.pc = "eval" /\ w.i = 1
  /\ SeqSet(Ev.os) = SeqSet(w.snap) /\ Len(Ev.os) = Len(w.snap)
  /\ Ev.num = w.hd.num
  /\ (~Relaxed /\ ~w.forced => Ev.changed = w.chg)
  /\ w' = [w EXCEPT !.snap = Ev.os, !.chg = Ev.changed]
  /\ UNCHANGED <<cfg, txs, objs, byHash, byID, quota, cost, pub, head, blocked, tick, lastDrop, pend, wev>>

EvalEv ==
  /\ Ev.e = "eval" /\ w.pc = "eval" /\ w.i <= Len(w.snap) /\ Ev.o = w.snap[w.i]
  /\ LET outlived == cfg.lifetime = "always"
         e == EvalOf(Ev.o, outlived)
     IN /\ e.r = Ev.res
        /\ (e.r = "drop" => e.why = Ev.why)
        /\ WashEval(outlived, IF Ev.priced THEN Ev.prio ELSE <<>>)
        /\ (e.r = "exec" => /\ Ev.priced /\ Ev.cost = objs'[Ev.o].cost /\ Ev.pay = objs'[Ev.o].pay
                            /\ (~objs[Ev.o].flag => Ev.cost = CostAt(txs[Ev.h], w.hd)))
        \* the priority is recomputed, also for objects that were executable before (kept, or refreshed by the rule)
        /\ (cfg.checkprio /\ Ev.priced /\ e.r # "drop" => Ev.prio = EvalPrio(Ev.o))
  /\ UNCHANGED <<pend, wev>>

WashErrorEv == Ev.e = "wash_error" /\ WashFail /\ UNCHANGED <<pend, wev>>

WashLimitEv ==
  /\ Ev.e = "wash_limit"
  /\ WashLimitTo(Ev.ex, Ev.rm)        \* equal to the recomputed lists up to ties of (priority, time added)
  /\ UNCHANGED <<pend, wev>>

CostOfEv ==          \* PendingCostOf under the read lock, then the energy test
  /\ Ev.e = "costof"
  /\ WashPayCheck
  /\ Ev.a = objs[w.ex[w.k]].pay
  /\ Ev.c = At(cost, Ev.a, 0)
  /\ UNCHANGED <<pend, wev>>

UnpayableEv ==       \* the energy test failed: confirms what CostOfEv computed
  /\ Ev.e = "wash_unpayable" /\ w.pc = "promote" /\ ~w.chk
  /\ Len(w.rm) > 0 /\ w.rm[Len(w.rm)].o = Ev.o /\ w.rm[Len(w.rm)].why = "unpayable"
  /\ UNCHANGED <<vars, pend, wev>>

PromoteEv ==
  /\ Ev.e \in {"promote", "promote_miss", "promote_noop"}
  /\ w.pc = "promote" /\ w.chk /\ w.k <= Len(w.ex) /\ w.ex[w.k] = Ev.o
  /\ PromoteVerdict(Ev.o) = (CASE Ev.e = "promote" -> "ok" [] Ev.e = "promote_miss" -> "miss" [] OTHER -> "noop")
  /\ WashPromote
  /\ Ev.x = objs'[Ev.o].flag
  /\ (Ev.e = "promote" => Ev.cp = At(cost', objs[Ev.o].pay, 0) /\ Ev.cost = objs[Ev.o].cost)
  /\ UNCHANGED <<pend, wev>>

EvictMarkEv ==
  /\ Ev.e = "wash_evict" /\ w.pc = "evict" /\ ~wev /\ w.j <= Len(w.rm) /\ w.rm[w.j].o = Ev.o
  /\ wev' = TRUE
  /\ UNCHANGED <<vars, pend>>

Hashes(s) == [x \in 1..Len(s) |-> objs[s[x]].h]
PublishEv ==
  /\ Ev.e = "publish" /\ ~wev /\ w.pc = "evict" /\ ~w.fail
  /\ Hashes(w.out) = Ev.hs
  /\ WashPublish(Ev.prios)
  /\ UNCHANGED <<pend, wev>>

WashEndEv ==
  /\ Ev.e = "wash_end" /\ ~wev
  /\ IF Ev.failed THEN w.pc = "evict" /\ w.fail /\ WashPublish(<<>>)
     ELSE w.pc = "idle" /\ UNCHANGED vars
  /\ UNCHANGED <<pend, wev>>

\* full accounting at quiescence: exact key sets
FullSnapshotEv ==
  /\ Ev.e = "Snapshot"
  /\ DOMAIN Ev.quota = DOMAIN quota /\ \A a \in DOMAIN quota : Ev.quota[a] = quota[a]
  /\ DOMAIN Ev.cost = DOMAIN cost /\ \A a \in DOMAIN cost : Ev.cost[a] = cost[a]
  /\ DOMAIN Ev.pool = DOMAIN byHash
  /\ \A h \in DOMAIN byHash : Ev.pool[h].o = byHash[h] /\ Ev.pool[h].flag = objs[byHash[h]].flag
  /\ Ev.n = Size
  /\ UNCHANGED <<vars, pend, wev>>

Silent == (WashKeep \/ WashReturn) /\ UNCHANGED <<pend, wev>>

Next ==
  \/ /\ l <= Len(Trace) /\ l' = l + 1
     /\ \/ ResetEv \/ TxEv \/ HeadEv \/ BlockEv
        \/ AddBeginEv \/ AddLockEv \/ AddEndEv
        \/ RemoveBeginEv \/ RemoveLockEv \/ RemoveEndEv
        \/ FillBeginEv \/ FillLockEv \/ FillEndEv
        \/ TickEv \/ SnapshotEv \/ WashBeginEv \/ EvalEv \/ WashErrorEv \/ WashLimitEv \/ CostOfEv \/ UnpayableEv
        \/ PromoteEv \/ EvictMarkEv \/ PublishEv \/ WashEndEv \/ FullSnapshotEv
  \/ /\ l <= Len(Trace) /\ l' = l /\ Silent

Spec == Init /\ [][Next]_tvars

Progress == HWM(l)
TraceAccepted == Accepted(Len(Trace))
=============================================================================
