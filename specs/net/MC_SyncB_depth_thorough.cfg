\* (B) deep pipeline: single-block batches (up to 5 batches + the final empty reply), rawBatches capacity 3, warmedUp
\*     capacity 2: every fault at every position with the queues full behind it; download must return (BTerminates)
SPECIFICATION SpecB
CONSTANTS
  MaxH = 0
  ExtraR = 0
  MaxHB = 1
  MaxRB = 5
  MaxBatch = 1
  RawCap = 3
  WarmCap = 2
  Slack = {0}
  FetchListens = TRUE
  DecListens = TRUE
INVARIANT Converges
INVARIANT HostileHarmless
PROPERTY BTerminates
PROPERTY HonestCompletes
CHECK_DEADLOCK FALSE
