SPECIFICATION TSpec
CONSTANTS
  Nodes = {1, 2, 3, 4, 9}
  Links0 = {}
  LinksLater = {}
  NBlocks = 0
  Txs = {}
  Hostile = {9}
  Bogus = {}
  HBudget = 0
INVARIANT TInv
CONSTRAINT Progress
POSTCONDITION TraceAccepted
CHECK_DEADLOCK FALSE
