------------------------------- MODULE MCStash -------------------------------
EXTENDS TxStash
CONSTANTS MaxGen,  \* bound: pool objects per hash
          CCap
OrdDef == ("t1" :> 3) @@ ("t2" :> 1) @@ ("t3" :> 2)      \* key order differs from any insertion order
Init == Init0 /\ cfgs = [cap |-> CCap, ord |-> OrdDef]
Spec == Init /\ [][Next]_vars
MCConstraint == \A h \in DOMAIN gens : gens[h] <= MaxGen
=============================================================================
