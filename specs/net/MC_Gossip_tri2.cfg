\* triangle of honest nodes, 2 blocks: every interleaving
SPECIFICATION Spec
CONSTANTS
  Nodes = {1, 2, 3}
  Links0 = {{1, 2}, {2, 3}, {1, 3}}
  LinksLater = {}
  NBlocks = 2
  Txs = {}
  Hostile = {}
  Bogus = {}
  HBudget = 0
INVARIANT NoBreach
INVARIANT MarksCoverTruth
INVARIANT CleanState
PROPERTY Liveness
PROPERTY Terminates
CHECK_DEADLOCK FALSE
