\* every order of pushes (duplicates included), ticks and clock steps; cache of 2: evictions happen
SPECIFICATION Spec
CONSTANTS
  Blocks <- MCBlocks
  Genesis = "g"
  Cap = 2
  T = 1
  MaxClock = 6
  Sorted = TRUE
INVARIANT StoredSound
INVARIANT CacheCapped
INVARIANT AdmissionSound
PROPERTY RoundComplete
PROPERTY Eventually
CHECK_DEADLOCK FALSE
