SPECIFICATION TSpec
CONSTANTS
  Blocks <- TBlocks
  Genesis = "g"
  Cap = 32
  T = 2
  MaxClock = 1000000
  Sorted = TRUE
INVARIANT TInv
PROPERTY RoundComplete
CONSTRAINT Progress
POSTCONDITION TraceAccepted
CHECK_DEADLOCK FALSE
