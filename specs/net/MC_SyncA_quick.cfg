\* (A) findCommonAncestor: every local head <= 16, every divergence height, remote shorter / equal / longer
SPECIFICATION SpecA
CONSTANTS
  MaxH = 16
  ExtraR = 3
  MaxHB = 0
  MaxRB = 0
  MaxBatch = 2
  RawCap = 1
  WarmCap = 1
  Slack = {0}
  FetchListens = TRUE
  DecListens = TRUE
INVARIANT AncestorCorrect
INVARIANT ProbesInRange
INVARIANT ProbesBounded
INVARIANT FindWindow
PROPERTY ATerminates
CHECK_DEADLOCK FALSE
