SPECIFICATION MCSpec
CONSTANTS
  TxDef <- Tx2
  Heads <- Heads2
  CLimit = 2
  CLimitPerAccount = 2
  CLifetime = "never"
  CIdentityCheck = FALSE
  Sources = {"remote"}
  Stricts = {FALSE}
  MaxGen = 2
  AllOrders = FALSE
  StaleEval = FALSE
  Blockable = {}
  Record = TRUE
  MaxSteps = 14
  Sample = FALSE
  Variant = "base"
  SplitAdd = "off"
INVARIANT QuotaExact
INVARIANT CostExactOrExport
INVARIANT NeverLockedOut
INVARIANT DropHasReason
INVARIANT ExecutablesSorted
INVARIANT MapsConsistent
INVARIANT FlagImpliesPriced
CHECK_DEADLOCK FALSE
VIEW MCView
