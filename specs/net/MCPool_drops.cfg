SPECIFICATION MCSpec
CONSTANTS
  TxDef <- TxDrops
  Heads <- Heads3
  CLimit = 2
  CLimitPerAccount = 2
  CLifetime = "any"
  CIdentityCheck = TRUE
  Sources = {"remote"}
  Stricts = {FALSE}
  MaxGen = 1
  AllOrders = FALSE
  StaleEval = FALSE
  Blockable = {"b"}
  Record = FALSE
  MaxSteps = 0
  Sample = FALSE
  Variant = "base"
  SplitAdd = "off"
INVARIANT QuotaExact
INVARIANT CostExact
INVARIANT NeverLockedOut
INVARIANT DropHasReason
INVARIANT ExecutablesSorted
INVARIANT MapsConsistent
INVARIANT FlagImpliesPriced
CHECK_DEADLOCK FALSE
VIEW MCView
