---------------------------- MODULE Trace_TxStash ----------------------------
(* Trace specification for the node's tx stash (growth of C18): validates what the REAL txStash (cmd/thor/node/tx_stash.go,
   through hook verif_hooks_txstash.go) did on a scratch leveldb directory while a real pool posted its tx events, against
   TxStash.tla.  The trace supplies the tx events the pool posted (hash, Executable true / false / nil), the pool's membership
   changes (from the pool hooks), stops and starts; after every Save (or at quiescence when the node's own txStashLoop runs)
   it reports the FIFO and the keys read back from the db in iteration order.  Recomputed here and compared:
     - what Save does: nothing for a hash on disk, append otherwise, eviction of the FRONT beyond the capacity
     - what is on disk (as a set, and in key order) and the FIFO, after every step
     - what LoadAll returns (everything on disk, in key order) and that the new FIFO is that sequence
     - that the start-up hands exactly those txs to pool.Fill, each once, in that order, and Fill creates an object only for
       hashes that are not pooled
   and the invariants of TxStash.tla hold after every event.                                                            *)
EXTENDS TxStash, TraceLib

Trace == LoadTrace("trace.ndjson")
VARIABLES l
tvars == <<vars, l>>
Ev == Trace[l]

Fresh(e) == /\ disk = {} /\ fifo = <<>> /\ up = TRUE /\ pool = << >> /\ gens = << >> /\ reported = {} /\ tofill = <<>>
            /\ hist = NoHist /\ cfgs = [cap |-> e.cap, ord |-> e.ord]
Init == /\ HWMInit /\ Len(Trace) >= 1 /\ Trace[1].e = "Reset" /\ Fresh(Trace[1]) /\ l = 2

ResetEv == /\ Ev.e = "Reset"
           /\ disk' = {} /\ fifo' = <<>> /\ up' = TRUE /\ pool' = << >> /\ gens' = << >> /\ reported' = {} /\ tofill' = <<>>
           /\ hist' = NoHist /\ cfgs' = [cap |-> Ev.cap, ord |-> Ev.ord]

PoolInEv ==          \* txObjectMap.Add inserted an object
  /\ Ev.e = "PoolIn" /\ up /\ tofill = <<>> /\ Ev.h \notin DOMAIN pool
  /\ NewObj(Ev.h, FALSE)
  /\ UNCHANGED <<disk, fifo, up, reported, tofill, hist, cfgs>>

PoolOutEv ==
  /\ Ev.e = "PoolOut" /\ Ev.h \in DOMAIN pool
  /\ pool' = Del(pool, Ev.h)
  /\ UNCHANGED <<disk, fifo, up, gens, reported, tofill, hist, cfgs>>

TxEventEv ==         \* the loop body: Save unless the event says executable
  /\ Ev.e = "TxEvent" /\ up /\ tofill = <<>>
  /\ IF Ev.exec = "t"
     THEN /\ pool' = IF Ev.h \in DOMAIN pool THEN [pool EXCEPT ![Ev.h].priced = TRUE] ELSE pool
          /\ UNCHANGED <<disk, fifo, reported, hist>>
     ELSE /\ SaveTo(Ev.h) /\ reported' = reported \cup {Ev.h} /\ UNCHANGED pool
  /\ UNCHANGED <<up, gens, tofill, cfgs>>

SnapEv ==            \* the FIFO and the db, read back
  /\ Ev.e = "Snap" /\ up
  /\ Ev.fifo = fifo
  /\ Ev.keys = Sorted(disk)
  /\ UNCHANGED vars

StopEv ==
  /\ Ev.e = "Stop"
  /\ Stop(Ev.keep)
  /\ UNCHANGED cfgs

StartEv ==           \* LoadAll (its result is logged when the driver called it itself)
  /\ Ev.e = "Start"
  /\ Start
  /\ (Ev.known => Ev.loaded = Sorted(disk))
  /\ UNCHANGED cfgs

PoolFillEv ==        \* pool.Fill reached the next loaded tx
  /\ Ev.e = "PoolFill" /\ tofill # <<>> /\ Ev.h = Head(tofill)
  /\ Ev.new = (Ev.h \notin DOMAIN pool)
  /\ FillNext
  /\ UNCHANGED cfgs

TNext == /\ l <= Len(Trace) /\ l' = l + 1
        /\ (ResetEv \/ PoolInEv \/ PoolOutEv \/ TxEventEv \/ SnapEv \/ StopEv \/ StartEv \/ PoolFillEv)
Spec == Init /\ [][TNext]_tvars

Progress == HWM(l)
TraceAccepted == Accepted(Len(Trace))
=============================================================================
