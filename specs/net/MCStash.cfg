SPECIFICATION Spec
CONSTANTS
  Tx = {"t1", "t2", "t3"}
  CCap = 2
  MaxGen = 2
CONSTRAINT MCConstraint
INVARIANT CapRespected
INVARIANT NoDuplicates
INVARIANT FifoIsDisk
INVARIANT StashReported
INVARIANT EvictsFront
INVARIANT OfferedOnce
INVARIANT FillKeepsObjects
CHECK_DEADLOCK FALSE
