\* line 1 - 2, node 3 connects to 2 later (initial tx sync), 1 tx
SPECIFICATION Spec
CONSTANTS
  Nodes = {1, 2, 3}
  Links0 = {{1, 2}}
  LinksLater = {{2, 3}}
  NBlocks = 0
  Txs = {3001}
  Hostile = {}
  Bogus = {}
  HBudget = 0
INVARIANT NoBreach
INVARIANT MarksCoverTruth
INVARIANT CleanState
PROPERTY Liveness
PROPERTY Terminates
CHECK_DEADLOCK FALSE
