\* (B) the download starts one block BELOW the true ancestor: blocks the node already holds arrive first and are ignored
SPECIFICATION SpecB
CONSTANTS
  MaxH = 0
  ExtraR = 0
  MaxHB = 1
  MaxRB = 2
  MaxBatch = 2
  RawCap = 1
  WarmCap = 2
  Slack = {1}
  FetchListens = TRUE
  DecListens = TRUE
INVARIANT Converges
INVARIANT HostileHarmless
PROPERTY BTerminates
PROPERTY HonestCompletes
CHECK_DEADLOCK FALSE
