\* (B) download pipeline against scripted peers: every scenario (H <= 3, R <= 6), batches of <= 2 blocks
\*     (so up to 3 batches), one fault of every kind at every stream position, queue capacities 1 and 2
SPECIFICATION SpecB
CONSTANTS
  MaxH = 0
  ExtraR = 0
  MaxHB = 3
  MaxRB = 6
  MaxBatch = 2
  RawCap = 1
  WarmCap = 2
  Slack = {0, 1}
  FetchListens = TRUE
  DecListens = TRUE
INVARIANT Converges
INVARIANT HostileHarmless
PROPERTY BTerminates
PROPERTY HonestCompletes
CHECK_DEADLOCK FALSE
