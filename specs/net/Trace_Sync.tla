---- MODULE Trace_Sync ----
(* Trace specification of C19.  One ndjson file carries three kinds of runs recorded from the real code:

   (A) AStart{H,A,R} Probe{n,ov}* AResult{anc}       the real findCommonAncestor (hook H6) of a local repository with
       head H against a real remote Communicator (handleRPC) whose chain shares exactly the heights 0..A; Probe =
       one GetBlockIDByNumber request seen at the message pipe, ov = (answered id = local id at n).  The probed heights
       must be EXACTLY the sequence the algorithm of Sync.tla produces, the result must be the spec's result.
   (B) BStart{local,best,anc} Fetch{from,t,bs,bad}* BEnd{status,imported,best,dropped,digestOK}
       the real download (ancestor search + fetch/decode/handle pipeline with the real node import as handler)
       against an honest real Communicator or a scripted hostile peer.  Fetch = one GetBlocksFromNumber round trip seen
       at the pipe with the answer the peer gave; the pipeline of Sync.tla is run on exactly these answers (decode and
       import steps are silent) and must be able to end in the reported state.
   (H) SStart{local,best,anc,stream} BEnd{...}   handleBlockStream (hook) fed a hand-made stream with nil throttle markers
       at chosen positions: nil entries are skipped, every block is imported, no error.
   (C) Conn Msg{code,cls,call,err,reply,feed,pool,fetch,unk,same}   one message through rpc.Serve/handleRPC of a node.
   (S) SyncEnd{prefers,converged,validBest,storeOK,hostile,dropped}   summary of a real Communicator.Sync run between two nodes.

   All design invariants are evaluated after every event.                                                       *)
EXTENDS Sync, Json, TraceLib

Trace == LoadTrace("trace.ndjson")
VARIABLES l,      \* next unconsumed line
          mode    \* schedule of the silent pipeline steps of the current download case: "free" | "eager"
tvars == <<vars, l, mode>>

ev == Trace[l]
IsEvent(name) == l <= Len(Trace) /\ Trace[l].e = name
Consume == l' = l + 1

ToSet(s) == {s[i] : i \in 1..Len(s)}

(* ---------------------------------------------------------------- (A) *)
TAStart ==
  /\ IsEvent("AStart")
  /\ AStart(ev.H, ev.A, ev.R)
  /\ Consume /\ UNCHANGED <<varsB, varsC, scen, mode, live>>

\* a peer that lies about its ids (aA = -1): the algorithm runs on the answers it gave
TLStart ==
  /\ IsEvent("LStart")
  /\ AStart(ev.H, -1, ev.R)
  /\ Consume /\ UNCHANGED <<varsB, varsC, scen, mode, live>>

TProbe ==
  /\ IsEvent("Probe")
  /\ ~Has(ev, "lost")                        \* (a probe the peer answered with garbage or by hanging up ends the search)
  /\ (SeekProbeO(ev.ov) \/ FindProbeO(ev.ov))
  /\ probes' = Append(probes, ev.n)          \* the height the spec probes is the height the implementation asked for
  /\ aA >= 0 => ev.ov = Overlapped(ev.n)     \* and (honest peer) the answer is what the chains imply
  /\ Consume /\ UNCHANGED <<varsB, varsC, scen, mode, live>>

TASilent ==
  /\ l <= Len(Trace)
  /\ SeekExhausted
  /\ UNCHANGED <<l, varsB, varsC, scen, mode, live>>

TAResult ==
  /\ IsEvent("AResult")
  /\ apc = "done"
  /\ ev.err = ""
  /\ ev.anc = res
  /\ Consume /\ UNCHANGED <<varsA, varsB, varsC, scen, mode, live>>

\* the search against a lying peer failed (undecodable answer, hang-up): wherever it stood, nothing was touched
TLLost ==
  /\ IsEvent("Probe") /\ Has(ev, "lost") /\ aA = -1
  /\ apc \in {"seek", "find"}
  /\ ev.n = (IF apc = "seek" THEN aH - bw ELSE IF st = en THEN st ELSE (st + en) \div 2)    \* it was the next probe
  /\ Consume /\ UNCHANGED <<varsA, varsB, varsC, scen, mode, live>>
TLResult ==
  /\ IsEvent("LResult")
  /\ aA = -1 /\ ev.err # "" /\ ev.same
  /\ apc' = "done" /\ res' = 0                \* the search is over (with an error)
  /\ Consume /\ UNCHANGED <<aH, aA, aR, bw, st, en, anc, probes, varsB, varsC, scen, mode, live>>

(* ---------------------------------------------------------------- (B) *)
TBStart ==
  /\ IsEvent("BStart")
  /\ LET S == ToSet(ev.local)
         b == CHOOSE x \in S : x.id = ev.best
     IN BStart(S, b, ev.anc)
  /\ mode' = ev.sched /\ live' = Stages
  /\ Consume /\ UNCHANGED <<varsA, varsC, scen>>

\* the block stream handler driven on its own: the stream (blocks and nil throttle markers) is given, nothing is fetched
TSStart ==
  /\ IsEvent("SStart")
  /\ LET S == ToSet(ev.local)
         b == CHOOSE x \in S : x.id = ev.best
         q == [i \in 1..Len(ev.stream) |-> IF ev.stream[i].id = "nil" THEN Nil ELSE ev.stream[i]]
     IN BStartWith(S, b, ev.anc, q, TRUE)
  /\ mode' = "free" /\ live' = Stages
  /\ Consume /\ UNCHANGED <<varsA, varsC, scen>>

\* the download after a search against a lying peer starts from what the algorithm made of the answers
TBStartL ==
  /\ IsEvent("BStartL")
  /\ aA = -1 /\ apc = "done"
  /\ LET S == ToSet(ev.local)
         b == CHOOSE x \in S : x.id = ev.best
     IN BStart(S, b, res)
  /\ mode' = ev.sched /\ live' = Stages
  /\ Consume /\ UNCHANGED <<varsA, varsC, scen>>

Answer(e) == IF e.t = "blocks" THEN [t |-> "blocks", bs |-> e.bs] ELSE [t |-> e.t]

(* Schedules of the silent steps (decode, import).  "free": every interleaving the queues allow is explored - used for
   all small cases.  "eager" (chains of more than 40 blocks, where the interleavings are quadratic in the batch size):
   one canonical interleaving - the handler runs whenever it can but imports no more blocks than the case reports at its
   end, the decoder runs when the handler cannot, a request is answered only when neither can move.  A restriction of
   the free schedule: whatever it accepts the free schedule accepts as well.                                       *)
RECURSIVE EndIdx(_)
EndIdx(i) == IF i > Len(Trace) THEN 0 ELSE IF Trace[i].e = "BEnd" THEN i ELSE EndIdx(i + 1)
Target == LET k == EndIdx(l) IN IF k = 0 THEN 0 ELSE Len(Trace[k].imported)
Importing == LET b == Head(warmQ) IN
             b # Nil /\ b.num <= maxNum + 1 /\ ~Known(b) /\ ParentStored(b) /\ b.kind = "ok"
HandleOK == status = "run" /\ warmQ # <<>> /\ (Importing => Len(imported) < Target)
DecCanMove == /\ status = "run"
              /\ \/ dec = None /\ rawQ # <<>>
                 \/ dec # None /\ dec.i > Len(dec.bs)
                 \/ dec # None /\ dec.i <= Len(dec.bs) /\
                      (Len(warmQ) < WarmCap \/ dec.bs[dec.i].kind \in {"struct", "body"} \/ dec.bs[dec.i].num # dec.start + dec.i - 1)
\* the throttle token (DecThrottle) needs more than 204 queued blocks: it cannot occur in a "free" case (<= 40 blocks) and
\* does not change any outcome, so the trace specification leaves it out
FreeSilent == DecTake \/ DecBlock \/ DecDone \/ Handle \/ Finish
EagerSilent == \/ HandleOK /\ Handle
               \/ ~HandleOK /\ (DecTake \/ DecBlock \/ DecDone)
               \/ Finish

TFetch ==
  /\ IsEvent("Fetch")
  /\ mode = "eager" => ~HandleOK /\ ~DecCanMove
  /\ ev.from = from                          \* batches are requested from ancestor + 1, then from + len(previous)
  /\ Has(ev, "sizes") => Len(ev.bs) = Served(ev.sizes, 524288, MaxBatch)    \* an honest server: (D), never empty while it has a block
  /\ Fetch(Answer(ev))
  /\ tainted' = (tainted \/ ev.bad)
  /\ Consume /\ UNCHANGED <<varsA, varsC, scen, mode, live>>

\* "late": the importer starts only when everything else has come to rest (a slow importer): fetch and decode first, the
\* handler moves when the decoder cannot and no further answer of the peer is recorded before the end of the case
NextIsEnd == l <= Len(Trace) /\ Trace[l].e = "BEnd"
LateSilent == \/ (~IsEvent("Fetch") \/ Len(rawQ) > RawCap) /\ (DecTake \/ DecBlock \/ DecDone)    \* answers first, one order only
              \/ ~DecCanMove /\ NextIsEnd /\ Handle
              \/ Finish
TBSilent ==
  /\ l <= Len(Trace)
  /\ CASE mode = "eager" -> EagerSilent
       [] mode = "late" -> LateSilent
       [] OTHER -> FreeSilent
  /\ UNCHANGED <<l, varsA, varsC, scen, mode, live>>

\* the stages return one by one once the group is cancelled or finished
TBExit ==
  /\ l <= Len(Trace)
  /\ \E sg \in Stages : StageExit(sg)
  /\ UNCHANGED <<l, varsA, varsC, scen, mode>>

TBEnd ==
  /\ IsEvent("BEnd")
  /\ Returned                                \* download() came back: every stage has returned
  /\ ev.status = status
  /\ ev.imported = imported
  /\ ev.best = best.id
  /\ ev.dropped = dropped
  /\ ev.digestOK                             \* store digest = digest of a reference node that imported exactly `imported`
  /\ Consume /\ UNCHANGED <<vars, mode>>

(* ---------------------------------------------------------------- (C) *)
TConn ==
  /\ IsEvent("Conn")
  /\ CReset
  /\ Consume /\ UNCHANGED <<varsA, varsB, scen, mode, live>>

Footprint(e) ==
  /\ creply' - creply = e.reply
  /\ cfeed' - cfeed = e.feed
  /\ cpool' - cpool = e.pool
  /\ (conn' = "closed") = e.err
  /\ e.fetch = (IF last' = "effect" /\ e.code = NewBlockID /\ e.unk THEN 1 ELSE 0)
  /\ e.same                                  \* chain store digest unchanged by the handler

TMsg ==
  /\ IsEvent("Msg")
  /\ IF ev.cls = "random"
     THEN \E cls \in Classes : \E acc \in BOOLEAN : HandleMsg(ev.code, cls, ev.call, acc) /\ Footprint(ev)
     ELSE \E acc \in BOOLEAN : HandleMsg(ev.code, ev.cls, ev.call, acc) /\ Footprint(ev)
  /\ Consume /\ UNCHANGED <<varsA, varsB, scen, mode, live>>

(* ---------------------------------------------------------------- (S) *)
\* One real Communicator.Sync run.  The verdict is re-derived from logged facts (total score and id order of the two
\* heads, where the node's best ended up, how many of the peer's blocks it holds), not read off the driver's booleans.
TSyncEnd ==
  /\ IsEvent("SyncEnd")
  /\ IF ev.timeout THEN TRUE                   \* the harness gave up on this pair (absolute cap): nothing is concluded
     ELSE LET prefers == Better(ev.rhead, ev.lhead) IN
          /\ ev.validBest                      \* best = best of a reference node holding the same valid blocks
          /\ ev.storeOK                        \* store = local store + a prefix of the peer's valid chain
          /\ ev.imported <= ev.remoteOnly
          /\ ev.hostile = "" =>
               /\ ev.best = (IF prefers THEN "r" ELSE "l")                 \* Converges, and nothing else is followed
               /\ prefers => ev.imported = ev.remoteOnly
          /\ ev.hostile \in {"undecodable", "toolarge"} => ev.dropped    \* rpc.Serve ended: the peer is dropped
  /\ Consume /\ UNCHANGED <<vars, mode>>

\* Finality / quality variants (4 validators, epochs of 3, PoA or PoS): the fork choice is bft.Select (quality, score, id) and
\* bft.Accepts refuses what conflicts with the finalized checkpoint - none of it is modelled here.  The oracle is a reference
\* node with the same local chain that is handed the peer's blocks through the real node import until the first refusal.
TQEnd ==
  /\ IsEvent("QEnd")
  /\ ev.timeout \/
       CASE ev.via = "download" -> ev.bestIsRef /\ ev.storeOK /\ ev.imported = ev.refImported
         [] ev.via = "sync" /\ ev.higherScore -> ev.bestIsRef /\ ev.storeOK
         [] OTHER -> TRUE       \* a peer announcing a lower total score is not selected by Communicator.Sync (design limit)
  /\ Consume /\ UNCHANGED <<vars, mode>>

TNote == IsEvent("Note") /\ Consume /\ UNCHANGED <<vars, mode>>

Init == IdleA /\ IdleB /\ IdleC /\ scen = NoScen /\ live = {} /\ l = 1 /\ mode = "free" /\ HWMInit
Next == TAStart \/ TLStart \/ TProbe \/ TLLost \/ TLResult \/ TASilent \/ TAResult \/ TBStart \/ TBStartL \/ TSStart \/ TFetch \/ TBSilent \/ TBExit \/ TBEnd \/ TConn \/ TMsg
        \/ TSyncEnd \/ TQEnd \/ TNote
Spec == Init /\ [][Next]_tvars

Progress == HWM(l)
TraceAccepted == Accepted(Len(Trace))

\* design invariants evaluated on the observed executions
TInvA == AncestorCorrect /\ LiarHarmless /\ ProbesInRange /\ ProbesBounded /\ FindWindow
\* ParentClosed is quadratic in the store: on long chains it is evaluated when the download has ended only
TInvB == /\ NoInvalidStored /\ FaultReported /\ DroppedIsError /\ SequenceGuards
         /\ (Cardinality(store) <= 50 \/ status # "run") => ParentClosed
         /\ (status # "idle" => BestIsStoredMax)
TInvC == StoreNeverChanges /\ ClosedIffRejected
====
