SPECIFICATION MCSpec
CONSTANTS
  TxDef <- FTx
  Heads <- FHeads
  CLimit = 2
  CLimitPerAccount = 2
  CLifetime = "never"
  CIdentityCheck = TRUE
  Sources = {"remote", "local"}
  Stricts = {FALSE, TRUE}
  MaxGen = 3
  AllOrders = TRUE
  StaleEval = FALSE
  Blockable = {}
  Record = TRUE
  MaxSteps = 26
  Sample = TRUE
  Variant = "fork"
INVARIANT ExportDone
INVARIANT QuotaExact
INVARIANT CostExact
INVARIANT NeverLockedOut
INVARIANT DropHasReason
INVARIANT ExecutablesSorted
INVARIANT MapsConsistent
CHECK_DEADLOCK FALSE
