\* triangle of honest nodes, 1 block: every interleaving
SPECIFICATION Spec
CONSTANTS
  Nodes = {1, 2, 3}
  Links0 = {{1, 2}, {2, 3}, {1, 3}}
  LinksLater = {}
  NBlocks = 1
  Txs = {}
  Hostile = {}
  Bogus = {}
  HBudget = 0
INVARIANT NoBreach
INVARIANT MarksCoverTruth
INVARIANT CleanState
PROPERTY Liveness
PROPERTY Terminates
CHECK_DEADLOCK FALSE
