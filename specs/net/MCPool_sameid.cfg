SPECIFICATION MCSpec
CONSTANTS
  TxDef <- TxSame
  Heads <- Heads2
  CLimit = 2
  CLimitPerAccount = 3
  CLifetime = "never"
  CIdentityCheck = TRUE
  Sources = {"remote","local"}
  Stricts = {FALSE}
  MaxGen = 2
  AllOrders = TRUE
  StaleEval = FALSE
  Blockable = {}
  Record = FALSE
  MaxSteps = 0
  Sample = FALSE
  Variant = "base"
  SplitAdd = "off"
INVARIANT QuotaExact
INVARIANT CostExact
INVARIANT NeverLockedOut
INVARIANT DropHasReason
INVARIANT ExecutablesSorted
INVARIANT MapsConsistent
INVARIANT FlagImpliesPriced
CHECK_DEADLOCK FALSE
VIEW MCView
