\* NEGATIVE configuration (expected to FAIL RoundComplete): the retry round visits the cache in any order
SPECIFICATION Spec
CONSTANTS
  Blocks <- MCBlocks
  Genesis = "g"
  Cap = 3
  T = 1
  MaxClock = 5
  Sorted = FALSE
PROPERTY RoundComplete
CHECK_DEADLOCK FALSE
