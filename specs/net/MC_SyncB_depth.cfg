\* (B) deep pipeline: single-block batches (up to 3 batches + the final empty reply), rawBatches capacity 2, warmedUp
\*     capacity 2: every fault at every position with the queues full behind it; download must return (BTerminates)
SPECIFICATION SpecB
CONSTANTS
  MaxH = 0
  ExtraR = 0
  MaxHB = 0
  MaxRB = 3
  MaxBatch = 1
  RawCap = 2
  WarmCap = 2
  Slack = {0}
  FetchListens = TRUE
  DecListens = TRUE
INVARIANT Converges
INVARIANT HostileHarmless
PROPERTY BTerminates
PROPERTY HonestCompletes
CHECK_DEADLOCK FALSE
