SPECIFICATION Spec
INVARIANT QuotaExact
INVARIANT CostExact
INVARIANT NeverLockedOut
INVARIANT DropHasReason
INVARIANT ExecutablesSorted
INVARIANT MapsConsistent
INVARIANT FlagImpliesPriced
CONSTRAINT Progress
POSTCONDITION TraceAccepted
CHECK_DEADLOCK FALSE
