---- MODULE Trace_Gossip ----
(* Trace specification for block / transaction propagation (Gossip.tla) between REAL Communicators (syncsim -mode gossip).

   Logged, in one global order (one lock):
     GReset{links, base}            start of a run: links that are up, block ids every node holds already
     Produce{n, b}                  node n committed its own block b and calls BroadcastBlock
     Send{from, to, t, id, set}     a propagation message is written to the connection   (t: full ann get blk nil tx gettxs txs)
     Recv{at, from, t, id, set}     ... is read from the connection by rpc.Serve (before its handler runs)
     Import{n, b, ok, trunk}        the node handled a posted block (processBlock); trunk => it calls BroadcastBlock
     TxSubmit{n, t} TxVerdict{ok}   a tx is about to be handed to the node's pool (AddLocal) / what the pool answered
     Connect{n, p}                  a new connection;   Disconnect{n, p}: node n dropped peer p
     Untouched{same}                store digest and pool of every node as at the start (after the hostile phase)
     Marks{n, p, blocks, txs}       the real per-peer marks, network at rest (hook comm.VerifPeerMarks)
     State{n, have, pool}           blocks of the run stored / txs pooled by node n, network at rest
     GEnd                           end of the run

   NOT logged, hence silent steps whose position TLC has to find: the moment BroadcastBlock / txsLoop filter the peers by
   their marks (BroadcastB, RelayT: decisions are atomic, the writes happen later in goroutines of their own), the
   repository look-up of a fetch (FetchDecide), the start of the initial tx sync of a connection (syncTxs after Synced).
   Everything else is bound to the log: a message can only be written if a decision put it into the outbox, it is read in
   FIFO order, marks / chain / pool at rest must be exactly what the model derived.                                      *)
EXTENDS Gossip, Json, TraceLib

Trace == LoadTrace("trace.ndjson")
VARIABLES l,       \* next unconsumed line
          txcli,   \* [<<n, p>> -> "idle" | "started"]  n's initial tx sync with peer p
          txpend,  \* [<<n, p>> -> number of MsgGetTxs of p that n has read and not answered yet]
          inh      \* [<<from, to>> -> the message `to` has read from that connection and whose handler has not run yet]
tvars == <<vars, l, txcli, txpend, inh>>
\* Recv is logged when rpc.Serve READS the message; its handler (marks, pool, posting) runs after that, on the same
\* goroutine, before the next message of that connection is read - but not necessarily before other goroutines of the
\* node act (observed under load: a BroadcastBlock filter running between read and MarkBlock).
NoMsg == [t |-> "none"]

ev == Trace[l]
IsEvent(name) == l <= Len(Trace) /\ Trace[l].e = name
Consume == l' = l + 1
ToSet(s) == {s[i] : i \in 1..Len(s)}
Quiesced == Quiet /\ \A pr \in Pairs : txpend[pr] = 0 /\ inh[pr] = NoMsg

TReset ==
  /\ IsEvent("GReset")
  /\ have' = [n \in Nodes |-> IF n \in Honest THEN ToSet(ev.base) ELSE {}]
  /\ pool' = [n \in Nodes |-> {}]
  /\ links' = {{ev.links[i][1], ev.links[i][2]} : i \in 1..Len(ev.links)}
  /\ knownB' = [pr \in Pairs |-> {}] /\ knownT' = [pr \in Pairs |-> {}]
  /\ chan' = [pr \in Pairs |-> <<>>] /\ outbox' = {}
  /\ posted' = [n \in Nodes |-> <<>>]
  /\ todoB' = [n \in Nodes |-> {}] /\ todoT' = [n \in Nodes |-> {}] /\ fetching' = [n \in Nodes |-> {}]
  /\ txsrv' = [pr \in Pairs |-> "fresh"]
  /\ produced' = ToSet(ev.base) /\ submitted' = {} /\ budget' = budget
  /\ sentH' = {} /\ recvH' = {} /\ viol' = {}
  /\ txcli' = [pr \in Pairs |-> "idle"] /\ txpend' = [pr \in Pairs |-> 0] /\ inh' = [pr \in Pairs |-> NoMsg]
  /\ Consume

TProduce == IsEvent("Produce") /\ ProduceAs(ev.n, ev.b) /\ Consume /\ UNCHANGED <<txcli, txpend, inh>>

TImport == IsEvent("Import") /\ NodeImport(ev.n, ev.b, ev.ok, ev.trunk) /\ Consume /\ UNCHANGED <<txcli, txpend, inh>>

\* logged before pool.AddLocal is called (the relays may be on the wire before it returns); TxVerdict: what it returned
TTxSubmit ==
  /\ IsEvent("TxSubmit")
  /\ IF ValidT(ev.t) THEN TxSubmit(ev.n, ev.t) ELSE UNCHANGED vars
  /\ Consume /\ UNCHANGED <<txcli, txpend, inh>>
TTxVerdict ==
  /\ IsEvent("TxVerdict")
  /\ ev.ok = ValidT(ev.t)                               \* the pool takes valid txs and nothing else
  /\ Consume /\ UNCHANGED <<vars, txcli, txpend, inh>>

TConnect ==
  /\ IsEvent("Connect")
  /\ {ev.n, ev.p} \notin links
  /\ links' = links \cup {{ev.n, ev.p}}
  /\ txsrv' = [txsrv EXCEPT ![<<ev.n, ev.p>>] = "fresh", ![<<ev.p, ev.n>>] = "fresh"]
  /\ txcli' = [txcli EXCEPT ![<<ev.n, ev.p>>] = "idle", ![<<ev.p, ev.n>>] = "idle"]
  /\ knownB' = [knownB EXCEPT ![<<ev.n, ev.p>>] = {}, ![<<ev.p, ev.n>>] = {}]
  /\ knownT' = [knownT EXCEPT ![<<ev.n, ev.p>>] = {}, ![<<ev.p, ev.n>>] = {}]
  /\ Consume /\ UNCHANGED <<vNode, chan, outbox, fetching, produced, submitted, budget, vHist, txpend, inh>>

\* the node dropped a peer (its protocol handler returned with an error): the peer leaves the peer set, what was in flight
\* or decided for it is gone
TDisconnect ==
  /\ IsEvent("Disconnect")
  /\ links' = links \ {{ev.n, ev.p}}
  /\ chan' = [chan EXCEPT ![<<ev.n, ev.p>>] = <<>>, ![<<ev.p, ev.n>>] = <<>>]
  /\ inh' = [inh EXCEPT ![<<ev.n, ev.p>>] = NoMsg, ![<<ev.p, ev.n>>] = NoMsg]
  /\ outbox' = {m \in outbox : {m.from, m.to} # {ev.n, ev.p}}
  /\ fetching' = [fetching EXCEPT ![ev.n] = {e \in @ : e.p # ev.p}]
  /\ txpend' = [txpend EXCEPT ![<<ev.n, ev.p>>] = 0, ![<<ev.p, ev.n>>] = 0]
  /\ Consume /\ UNCHANGED <<vNode, vMarks, txsrv, produced, submitted, budget, vHist, txcli>>

\* ---- a message is written --------------------------------------------------------------------------------------
LoggedMsg == IF ev.t = "txs" THEN MsgS(ev.from, ev.to, ToSet(ev.set)) ELSE Msg(ev.from, ev.to, ev.t, ev.id)

TSend ==
  /\ IsEvent("Send")
  /\ IF ev.from \in Hostile
     THEN HSendAs(ev.from, ev.to, LoggedMsg) /\ UNCHANGED <<budget, txpend>>
     ELSE IF ev.t = "txs"
     THEN \* the answer to MsgGetTxs: executables the requester is not marked for (marking them); only the first answer of
          \* a connection carries anything.  The executables list is rebuilt by the pool's housekeeping every second, so the
          \* answer may lack the newest txs: a subset is accepted.
          LET n == ev.from  p == ev.to  S == ToSet(ev.set) IN
          /\ txpend[<<n, p>>] > 0
          /\ txpend' = [txpend EXCEPT ![<<n, p>>] = @ - 1]
          /\ S \subseteq (IF txsrv[<<n, p>>] = "fresh" THEN pool[n] \ knownT[<<n, p>>] ELSE {})
          /\ txsrv' = [txsrv EXCEPT ![<<n, p>>] = "done"]
          /\ knownT' = [knownT EXCEPT ![<<n, p>>] = @ \cup S]
          /\ viol' = viol \cup UNION {Breach(n, {p}, "T", t) : t \in S}
          /\ sentH' = sentH \cup {<<n, p, "T", t>> : t \in S}
          /\ chan' = [chan EXCEPT ![<<n, p>>] = Append(@, LoggedMsg)]
          /\ UNCHANGED <<vNode, knownB, outbox, fetching, vEnv, recvH>>
     ELSE Send(LoggedMsg) /\ UNCHANGED txpend           \* only what a decision has put into the outbox can be written
  /\ Consume /\ UNCHANGED <<txcli, inh>>

\* ---- a message is read -------------------------------------------------------------------------------------------
TRecv ==
  /\ IsEvent("Recv")
  /\ chan[<<ev.from, ev.to>>] # <<>> /\ Head(chan[<<ev.from, ev.to>>]) = LoggedMsg       \* FIFO
  /\ inh[<<ev.from, ev.to>>] = NoMsg                                                    \* the previous handler has returned
  /\ chan' = [chan EXCEPT ![<<ev.from, ev.to>>] = Tail(@)]
  /\ inh' = [inh EXCEPT ![<<ev.from, ev.to>>] = LoggedMsg]
  /\ Consume /\ UNCHANGED <<vNode, vMarks, outbox, fetching, txsrv, vEnv, vHist, txcli, txpend>>

\* the handler of a message that was read (silent)
THandle ==
  /\ l <= Len(Trace)
  /\ \E pr \in Pairs :
       LET m == inh[pr]  p == pr[1]  n == pr[2] IN
       /\ m # NoMsg
       /\ inh' = [inh EXCEPT ![pr] = NoMsg]
       /\ IF n \in Hostile
          THEN UNCHANGED <<vNode, vMarks, outbox, fetching, txsrv, vHist, txpend>>
          ELSE IF m.t = "gettxs"
          THEN /\ txpend' = [txpend EXCEPT ![<<n, p>>] = @ + 1]
               /\ UNCHANGED <<vNode, vMarks, outbox, fetching, txsrv, vHist>>
          ELSE RecvHonest(n, p, m) /\ UNCHANGED txpend
  /\ UNCHANGED <<l, txcli, chan, vEnv>>

\* ---- silent steps ------------------------------------------------------------------------------------------------
TDecide ==
  /\ l <= Len(Trace)
  /\ \/ \E n \in Honest : \E b \in todoB[n] : \E F \in SUBSET Peers(n) : BroadcastB(n, b, F)
     \/ \E n \in Honest : \E t \in todoT[n] : RelayT(n, t)
     \/ \E n \in Honest : \E e \in fetching[n] : FetchDecide(n, e)
  /\ UNCHANGED <<l, txcli, txpend, inh>>

\* syncTxs of a connection starts (runPeer, once the node is synced): the first MsgGetTxs
TStartTxSync ==
  /\ l <= Len(Trace)
  /\ IsEvent("Send") /\ ev.t = "gettxs" /\ Msg(ev.from, ev.to, "gettxs", 0) \notin outbox      \* just in time
  /\ \E pr \in {<<ev.from, ev.to>>} :
       /\ pr[1] \in Honest /\ {pr[1], pr[2]} \in links /\ txcli[pr] = "idle"
       /\ txcli' = [txcli EXCEPT ![pr] = "started"]
       /\ outbox' = outbox \cup {Msg(pr[1], pr[2], "gettxs", 0)}
  /\ UNCHANGED <<l, txpend, inh, vNode, vMarks, chan, fetching, txsrv, vEnv, vHist>>

\* the announcement loop may pass over an announcement it could have taken up: its record of finished fetches lags behind
\* the answers read from the connection ("skip new block ID announcement")
TFetchSkip ==
  /\ l <= Len(Trace)
  /\ \E n \in Honest : \E e \in fetching[n] :
       /\ e.st = "new"
       /\ fetching' = [fetching EXCEPT ![n] = @ \ {e}]
  /\ UNCHANGED <<l, txcli, txpend, inh, vNode, vMarks, chan, outbox, txsrv, vEnv, vHist>>

\* ---- the network at rest -----------------------------------------------------------------------------------------
TUntouched == IsEvent("Untouched") /\ ev.same /\ Consume /\ UNCHANGED <<vars, txcli, txpend, inh>>

TMarks ==
  /\ IsEvent("Marks")
  /\ Quiesced
  /\ knownB[<<ev.n, ev.p>>] = ToSet(ev.blocks)
  /\ knownT[<<ev.n, ev.p>>] = ToSet(ev.txs)
  /\ Consume /\ UNCHANGED <<vars, txcli, txpend, inh>>

TState ==
  /\ IsEvent("State")
  /\ Quiesced
  /\ have[ev.n] = ToSet(ev.have)
  /\ pool[ev.n] = ToSet(ev.pool)
  /\ Consume /\ UNCHANGED <<vars, txcli, txpend, inh>>

\* every run ends with all honest nodes connected: everything produced / accepted is everywhere
TEnd ==
  /\ IsEvent("GEnd")
  /\ Quiesced
  /\ Connected => Spread
  /\ Consume /\ UNCHANGED <<vars, txcli, txpend, inh>>

TInit == Init /\ l = 1 /\ txcli = [pr \in Pairs |-> "idle"] /\ txpend = [pr \in Pairs |-> 0]
         /\ inh = [pr \in Pairs |-> NoMsg] /\ HWMInit
TNext == TReset \/ TProduce \/ TImport \/ TTxSubmit \/ TTxVerdict \/ TConnect \/ TDisconnect \/ TSend \/ TRecv \/ THandle \/ TDecide \/ TStartTxSync \/ TFetchSkip
         \/ TUntouched \/ TMarks \/ TState \/ TEnd
TSpec == TInit /\ [][TNext]_tvars

Progress == HWM(l)
TraceAccepted == Accepted(Len(Trace))
TInv == NoBreach /\ MarksCoverTruth /\ CleanState
====
