---- MODULE MC_FutureBlocks ----
EXTENDS FutureBlocks
\* a chain a1 <- a2 <- a3 one interval apart, a block refused by finality, an invalid block; T = 1
Blk(n, p, t, v, f) == [num |-> n, parent |-> p, ts |-> t, valid |-> v, bft |-> f]
MCBlocks == [id \in {"g", "a1", "a2", "a3", "x1", "v1"} |->
   CASE id = "g" -> Blk(0, "none", 0, TRUE, TRUE)
     [] id = "a1" -> Blk(1, "g", 3, TRUE, TRUE)
     [] id = "a2" -> Blk(2, "a1", 4, TRUE, TRUE)
     [] id = "a3" -> Blk(3, "a2", 5, TRUE, TRUE)
     [] id = "x1" -> Blk(1, "g", 4, TRUE, FALSE)
     [] id = "v1" -> Blk(1, "g", 3, FALSE, TRUE)]
====
