---- MODULE Sync ----
(* C19 - sync converges to the peer's better chain; hostile peer input is harmless.

   Three small machines over disjoint variables, transcribed from the pinned tree:

   (A) comm/sync.go:findCommonAncestor        - exponential back-off (fastSeek), then bisection (find)
   (B) comm/sync.go:download                  - fetchRawBlockBatches -> decodeAndWarmupBatches -> handler
                                                (cmd/thor/node: handleBlockStream -> processBlock)
   (C) p2psrv/rpc.Serve + comm/handle_rpc.go  - one received message: effect | reject | ignore

   Each machine has its own Init/Next (SpecA, SpecB, SpecC); the variables of the other two stay at a
   fixed dummy value, so an exhaustive run of one machine does not multiply with the others.
   Trace_Sync.tla re-uses the actions of this module to validate what the real code did.

   Chains.  A block is a record [id, num, parent, kind, score, ord]:
     kind   "ok"       a valid block                         "struct"  block RLP broken (phase 1 fails)
            "body"     header fine, transactions undecodable "invalid"  well-formed, refused by consensus
     score  total score of the block; ord: rank of the id (smaller id wins a score tie) - Header.BetterThan.
   Ids are opaque: <<branch, height>> with branch "c" (common), "l" (local only), "r" (remote only), "x" (orphan).
   Fork choice is (score, id); finality plays no part in the explored scenarios (assumption of the check).     *)
EXTENDS Integers, Sequences, FiniteSets, TLC

CONSTANTS MaxH,      \* (A) largest local head number explored
          ExtraR,    \* (A) the remote chain may be up to MaxH + ExtraR long
          MaxHB,     \* (B) largest local head number
          MaxRB,     \* (B) largest remote head number
          MaxBatch,  \* (B) proto.MaxBlocksFromNumber  (1024 in the code; small in the model)
          RawCap,    \* (B) capacity of the rawBatches channel (10)
          WarmCap,   \* (B) capacity of the warmedUp channel (2048)
          Slack,     \* (B) set of k: download starts from an ancestor k below the true one (0 = exact)
          FetchListens, \* (B) the fetch stage runs on the group context: blocked on a full rawBatches channel it returns when the
                     \*     group is cancelled (TRUE in the code; FALSE only in a negative configuration)
          DecListens \* (B) the decoder stage selects on the group context while it is blocked on the warmedUp channel
                     \*     (TRUE in the code; FALSE only in the negative configuration that shows BTerminates is not vacuous)

Nil == [id |-> <<"nil", 0>>]          \* the throttle token of decodeAndWarmupBatches
None == [start |-> 0, bs |-> <<>>, i |-> 0]
Max(a, b) == IF a >= b THEN a ELSE b
Min(a, b) == IF a <= b THEN a ELSE b

(* ------------------------------------------------------------------------------------------------------ *)
(* (A) findCommonAncestor                                                                                  *)
(* ------------------------------------------------------------------------------------------------------ *)
VARIABLES aH,      \* headNum: number of the local best block
          aA,      \* last height at which both chains hold the same block
          aR,      \* number of the remote best block
          apc,     \* "idle" | "seek" | "find" | "done"
          bw,      \* fastSeek: backward
          st, en, anc,   \* find(start, end, ancestor)
          res,     \* returned ancestor
          probes   \* heights asked with GetBlockIDByNumber, in order
varsA == <<aH, aA, aR, apc, bw, st, en, anc, res, probes>>

Zero == <<"zero", 0>>
LocalId(n)  == IF n <= aA THEN <<"c", n>> ELSE <<"l", n>>
RemoteId(n) == IF n > aR THEN Zero                  \* handleRPC answers the zero id for a height it does not have
               ELSE IF n <= aA THEN <<"c", n>> ELSE <<"r", n>>
Overlapped(n) == LocalId(n) = RemoteId(n)           \* isOverlapped

AStart(h, a, r) ==
  /\ apc \in {"idle", "done"}
  /\ a <= h /\ a <= r
  /\ aH' = h /\ aA' = a /\ aR' = r
  /\ bw' = 0 /\ st' = 0 /\ en' = 0 /\ anc' = 0 /\ probes' = <<>>
  /\ IF h = 0 THEN apc' = "done" /\ res' = 0        \* if headNum == 0 { return headNum }
     ELSE apc' = "seek" /\ res' = 0

\* fastSeek, loop head: backward >= headNum  =>  seekNum = 0, continue with find(0, headNum, 0)
SeekExhausted ==
  /\ apc = "seek" /\ bw >= aH
  /\ apc' = "find" /\ st' = 0 /\ en' = aH /\ anc' = 0
  /\ UNCHANGED <<aH, aA, aR, bw, res, probes>>

\* fastSeek, one probe of height headNum - backward; ov: the peer's id equals the local one (isOverlapped)
SeekProbeO(ov) ==
  /\ apc = "seek" /\ bw < aH
  /\ LET n == aH - bw IN
     /\ probes' = Append(probes, n)
     /\ IF ov
        THEN IF n = aH
             THEN apc' = "done" /\ res' = aH /\ UNCHANGED <<bw, st, en, anc>>        \* seekNum == headNum
             ELSE apc' = "find" /\ st' = n /\ en' = aH /\ anc' = 0 /\ UNCHANGED <<bw, res>>
        ELSE /\ bw' = IF bw = 0 THEN 1 ELSE 2 * bw
             /\ UNCHANGED <<apc, st, en, anc, res>>
  /\ UNCHANGED <<aH, aA, aR>>
SeekProbe == SeekProbeO(Overlapped(aH - bw))

\* find(start, end, ancestor): one probe
FindProbeO(ov) ==
  /\ apc = "find"
  /\ IF st = en
     THEN /\ probes' = Append(probes, st)
          /\ apc' = "done"
          /\ res' = IF ov THEN st ELSE anc
          /\ UNCHANGED <<st, en, anc>>
     ELSE LET mid == (st + en) \div 2 IN
          /\ probes' = Append(probes, mid)
          /\ IF ov
             THEN st' = mid + 1 /\ anc' = mid /\ UNCHANGED <<en, apc, res>>
             ELSE IF mid > st
                  THEN en' = mid - 1 /\ UNCHANGED <<st, anc, apc, res>>
                  ELSE apc' = "done" /\ res' = anc /\ UNCHANGED <<st, en, anc>>
  /\ UNCHANGED <<aH, aA, aR, bw>>
FindProbe == FindProbeO(Overlapped(IF st = en THEN st ELSE (st + en) \div 2))

AStep == SeekExhausted \/ SeekProbe \/ FindProbe

RECURSIVE Log2Ceil(_)
Log2Ceil(n) == IF n <= 1 THEN 0 ELSE 1 + Log2Ceil((n + 1) \div 2)

\* aA = -1: the peer lies about its ids (any answer to any probe); then only range, bound and termination are claimed
AncestorCorrect == (apc = "done" /\ aA >= 0) => res = aA
LiarHarmless    == apc = "done" => res \in 0..aH
ProbesInRange   == \A i \in 1..Len(probes) : probes[i] >= 0 /\ probes[i] <= aH
ProbesBounded   == Len(probes) <= 2 * Log2Ceil(aH + 1) + 3
FindWindow      == apc = "find" => st <= en /\ en <= aH /\ (aA >= 0 => anc <= aA)
ATerminates     == <>(apc = "done")

(* ------------------------------------------------------------------------------------------------------ *)
(* (B) download                                                                                            *)
(* ------------------------------------------------------------------------------------------------------ *)
VARIABLES from,       \* fetchRawBlockBatches: fromBlockNum
          fetchDone,  \* rawBatches closed
          rawQ,       \* channel rawBatches: sequence of [start, bs]
          dec,        \* batch being decoded [start, bs, i] or None
          warmQ,      \* channel warmedUp: blocks and Nil tokens
          store,      \* set of stored blocks (records)
          maxNum,     \* node.maxBlockNum
          best,       \* repo best block
          imported,   \* ids imported by this download, in order
          status,     \* "idle" | "run" | "ok" | error class
          dropped,    \* the peer's rpc.Serve loop ended (peer disconnected)
          tainted,    \* the peer has served an answer that the pipeline has to refuse
          reqs,       \* number of GetBlocksFromNumber round trips
          scen,       \* (SpecB only) the scripted scenario [H, A, R, wr, tie, k, fault, fpos]
          live        \* stages of the errgroup that have not returned yet; download returns (g.Wait) when it is empty
varsB == <<from, fetchDone, rawQ, dec, warmQ, store, maxNum, best, imported, status, dropped, tainted, reqs>>

ErrClasses == {"disconnected", "decode", "oversized", "struct", "sequence", "body",
               "unprocessable", "parent", "consensus"}

Blk(id, num, parent, kind, score, ord) ==
  [id |-> id, num |-> num, parent |-> parent, kind |-> kind, score |-> score, ord |-> ord]

Better(b, cur) == b.score > cur.score \/ (b.score = cur.score /\ b.ord < cur.ord)    \* Header.BetterThan
\* Communicator.Sync picks a peer whose announced total score is >= the own best's: every head the fork choice prefers -
\* a score tie won by the smaller id included - must be selectable
Selectable(peerScore, ownScore) == peerScore >= ownScore
ASSUME \A s1, s2 \in 0..3 : \A o1, o2 \in 0..2 :
         Better([score |-> s1, ord |-> o1], [score |-> s2, ord |-> o2]) => Selectable(s1, s2)
Known(b)        == \E s \in store : s.id = b.id
ParentStored(b) == \E s \in store : s.id = b.parent /\ s.num + 1 = b.num
BestOf(S)       == CHOOSE b \in S : \A o \in S : o = b \/ Better(b, o) \/ ~Better(o, b)

\* download: pipeline starts at ancestor + 1 over the given local store
\* (q, done): content of the warmedUp channel and whether the upstream stages are finished - <<>> / FALSE for a
\* download; a given stream / TRUE when the block stream handler is driven on its own (handler contract)
BStartWith(localStore, localBest, ancestor, q, done) ==
  /\ status \in {"idle", "ok", "panic"} \cup ErrClasses
  /\ store' = localStore /\ best' = localBest /\ maxNum' = localBest.num
  /\ from' = ancestor + 1 /\ fetchDone' = done /\ rawQ' = <<>> /\ dec' = None /\ warmQ' = q
  /\ imported' = <<>> /\ status' = "run" /\ dropped' = FALSE /\ tainted' = FALSE /\ reqs' = 0
BStart(localStore, localBest, ancestor) == BStartWith(localStore, localBest, ancestor, <<>>, FALSE)

\* An answer of the peer to GetBlocksFromNumber(from):
\*   [t |-> "blocks", bs |-> <<...>>] | [t |-> "undecodable"] | [t |-> "toolarge"] | [t |-> "disconnect"]
\* fetchRawBlockBatches: one round trip
Fetch(ans) ==
  \* the fetcher asks, gets the answer and THEN waits for room in rawBatches: the batch in its hand is the last element
  \* of rawQ here, so rawQ may hold RawCap + 1 batches (10 in the channel, 1 in the blocked send)
  /\ status = "run" /\ ~fetchDone /\ Len(rawQ) <= RawCap
  /\ reqs' = reqs + 1
  /\ CASE ans.t = "disconnect" ->                    \* Call: <-doneCh
            /\ status' = "disconnected" /\ dropped' = TRUE
            /\ UNCHANGED <<from, fetchDone, rawQ>>
       [] ans.t = "toolarge" ->                      \* Serve: msg.Size > maxMsgSize => loop ends
            /\ status' = "disconnected" /\ dropped' = TRUE
            /\ UNCHANGED <<from, fetchDone, rawQ>>
       [] ans.t = "undecodable" ->                   \* Call: msg.Decode(result) fails; Serve ends as well
            /\ status' \in {"decode", "disconnected"} /\ dropped' = TRUE
            /\ UNCHANGED <<from, fetchDone, rawQ>>
       [] ans.t = "blocks" ->
            /\ UNCHANGED dropped
            /\ IF Len(ans.bs) > MaxBatch             \* proto.GetBlocksFromNumber: result size exceeds limit
               THEN status' = "oversized" /\ UNCHANGED <<from, fetchDone, rawQ>>
               ELSE IF Len(ans.bs) = 0               \* no more blocks: close(rawBatches)
                    THEN fetchDone' = TRUE /\ UNCHANGED <<from, rawQ, status>>
                    ELSE /\ rawQ' = Append(rawQ, [start |-> from, bs |-> ans.bs])
                         /\ from' = from + Len(ans.bs)
                         /\ UNCHANGED <<fetchDone, status>>
  /\ UNCHANGED <<dec, warmQ, store, maxNum, best, imported>>

\* decodeAndWarmupBatches: take the next batch
DecTake ==
  /\ status = "run" /\ dec = None /\ rawQ # <<>>
  /\ dec' = [start |-> Head(rawQ).start, bs |-> Head(rawQ).bs, i |-> 1]
  /\ rawQ' = Tail(rawQ)
  /\ UNCHANGED <<from, fetchDone, warmQ, store, maxNum, best, imported, status, dropped, tainted, reqs>>

\* decodeAndWarmupBatches: one raw block - phase 1 (structure + header), sequence check, phase 2 (transactions)
DecBlock ==
  /\ status = "run" /\ dec # None /\ dec.i <= Len(dec.bs)
  /\ LET b == dec.bs[dec.i] IN
     IF b.kind = "struct" THEN status' = "struct" /\ UNCHANGED <<dec, warmQ>>
     ELSE IF b.num # dec.start + dec.i - 1 THEN status' = "sequence" /\ UNCHANGED <<dec, warmQ>>
     ELSE IF b.kind = "body" THEN status' = "body" /\ UNCHANGED <<dec, warmQ>>
     ELSE /\ Len(warmQ) < WarmCap
          /\ warmQ' = Append(warmQ, b)
          /\ dec' = [dec EXCEPT !.i = @ + 1]
          /\ UNCHANGED status
  /\ UNCHANGED <<from, fetchDone, rawQ, store, maxNum, best, imported, dropped, tainted, reqs>>

\* decodeAndWarmupBatches: throttle token
DecThrottle ==
  /\ status = "run" /\ dec # None /\ dec.i > 1 /\ Len(warmQ) < WarmCap /\ Len(warmQ) > 0
  /\ warmQ[Len(warmQ)] # Nil
  /\ warmQ' = Append(warmQ, Nil)
  /\ UNCHANGED <<from, fetchDone, rawQ, dec, store, maxNum, best, imported, status, dropped, tainted, reqs>>

DecDone ==
  /\ status = "run" /\ dec # None /\ dec.i > Len(dec.bs)
  /\ dec' = None
  /\ UNCHANGED <<from, fetchDone, rawQ, warmQ, store, maxNum, best, imported, status, dropped, tainted, reqs>>

\* handleBlockStream: one element of the stream -> processBlock (guardBlockProcessing, executeAndCommitBlock)
Handle ==
  /\ status = "run" /\ warmQ # <<>>
  /\ warmQ' = Tail(warmQ)
  /\ LET b == Head(warmQ) IN
     IF b = Nil THEN UNCHANGED <<store, maxNum, best, imported, status>>
     ELSE IF b.num > maxNum + 1 THEN status' = "unprocessable" /\ UNCHANGED <<store, maxNum, best, imported>>
     ELSE IF Known(b) THEN UNCHANGED <<store, maxNum, best, imported, status>>             \* errKnownBlock: ignored
     ELSE IF ~ParentStored(b) THEN status' = "parent" /\ UNCHANGED <<store, maxNum, best, imported>>
     ELSE IF b.kind # "ok" THEN status' = "consensus" /\ UNCHANGED <<store, maxNum, best, imported>>
     ELSE /\ store' = store \cup {b}
          /\ maxNum' = Max(maxNum, b.num)
          /\ best' = IF Better(b, best) THEN b ELSE best
          /\ imported' = Append(imported, b.id)
          /\ UNCHANGED status
  /\ UNCHANGED <<from, fetchDone, rawQ, dec, dropped, tainted, reqs>>

\* every stage returned nil
Finish ==
  /\ status = "run" /\ fetchDone /\ rawQ = <<>> /\ dec = None /\ warmQ = <<>>
  /\ status' = "ok"
  /\ UNCHANGED <<from, fetchDone, rawQ, dec, warmQ, store, maxNum, best, imported, dropped, tainted, reqs>>

BSilent == DecTake \/ DecBlock \/ DecThrottle \/ DecDone \/ Handle \/ Finish

\* errgroup: the first error (or the normal end) cancels the group context; EVERY stage has to return on it, wherever it
\* is blocked - the fetcher in Call or on `rawBatches <- batch`, the decoder on `warmedUp <- blk` with the channel full
\* (more than WarmCap decoded blocks behind a block the handler refused), the handler after its current block.
\* download() returns only when all three have returned (g.Wait()).
Stages == {"fetch", "dec", "handle"}
\* non-empty answers the scripted peer of SpecB still has from `from` on (0 outside SpecB)
PeerBatchesLeft == IF from > scen.R THEN 0 ELSE ((scen.R - from) \div MaxBatch) + 1
RECURSIVE QueuedBlocks(_)
QueuedBlocks(q) == IF q = <<>> THEN 0 ELSE Len(Head(q).bs) + QueuedBlocks(Tail(q))
DecRemaining == (IF dec = None THEN 0 ELSE Len(dec.bs) - dec.i + 1) + QueuedBlocks(rawQ)
StageExit(sg) ==
  /\ status # "run" /\ sg \in live
  \* a decoder that does not listen to the cancel returns only if what it still has to push fits into the channel
  /\ sg = "dec" => (DecListens \/ DecRemaining <= WarmCap - Len(warmQ))
  \* a fetcher that does not listen to the cancel keeps asking: it returns only if the batches the peer still has fit
  \* into the rawBatches channel (then it drains the peer, closes the channel and returns)
  /\ sg = "fetch" => (FetchListens \/ fetchDone \/ PeerBatchesLeft <= RawCap + 1 - Len(rawQ))
  /\ live' = live \ {sg}
  /\ UNCHANGED varsB
Returned == status # "run" /\ live = {}
\* the shape a hostile peer can produce at will: handler error while the pipeline is full
\* (the handler has taken the refused block off the channel: one slot is free, the decoder fills it and blocks again)
FullPipelineOnError == /\ status \in {"parent", "consensus"} /\ Len(warmQ) >= WarmCap - 1
                       /\ dec # None /\ dec.i <= Len(dec.bs) /\ rawQ # <<>>

\* --- invariants of (B) over any peer --------------------------------------------------------------------
NoInvalidStored == \A s \in store : s.kind = "ok"
ParentClosed    == \A s \in store : s.num = 0 \/ \E p \in store : p.id = s.parent /\ p.num + 1 = s.num
BestIsStoredMax == best \in store /\ \A s \in store : ~Better(s, best)
FaultReported   == status = "ok" => ~tainted
DroppedIsError  == dropped => status \in {"disconnected", "decode"}
\* the sequence check keeps every gap away from the node: "temporary unprocessable" cannot happen during a download
SequenceGuards  == status # "unprocessable"

(* ------------------------------------------------------------------------------------------------------ *)
(* (D) serving GetBlocksFromNumber: comm/handle_rpc.go                                                      *)
(* ------------------------------------------------------------------------------------------------------ *)
\* for size < maxSize && len(result) < MaxBlocksFromNumber { append block; size += len(raw) }
\* sizes: encoded sizes of the blocks the server holds from the requested number on.  The budget stops the reply AFTER the
\* block that crosses it: a reply is empty only if the server has no block at that number - which is exactly how
\* fetchRawBlockBatches reads an empty reply ("no more blocks", the download is complete).
RECURSIVE ServeLen(_, _, _, _, _)
ServeLen(sizes, k, acc, budget, maxCount) ==
  IF k > Len(sizes) \/ ~(acc < budget) \/ ~(k - 1 < maxCount) THEN k - 1
  ELSE ServeLen(sizes, k + 1, acc + sizes[k], budget, maxCount)
Served(sizes, budget, maxCount) == ServeLen(sizes, 1, 0, budget, maxCount)

RECURSIVE SumFirst(_, _)
SumFirst(sizes, n) == IF n = 0 THEN 0 ELSE SumFirst(sizes, n - 1) + sizes[n]
SeqsUpTo(S, n) == UNION {[1..m -> S] : m \in 0..n}
ServeRule ==
  \A sizes \in SeqsUpTo(1..4, 4) : \A budget \in 1..5 : \A mc \in 1..3 :
    LET n == Served(sizes, budget, mc) IN
    /\ n <= Len(sizes) /\ n <= mc
    /\ Len(sizes) > 0 => n >= 1                                   \* EmptyMeansEnd
    /\ n >= 1 => SumFirst(sizes, n - 1) < budget                  \* only the last block may cross the budget
    /\ (n < Len(sizes) /\ n < mc) => SumFirst(sizes, n) >= budget  \* and the reply stops for a reason
ASSUME ServeRule

(* ------------------------------------------------------------------------------------------------------ *)
(* (C) one received message: rpc.Serve -> handleRPC                                                         *)
(* ------------------------------------------------------------------------------------------------------ *)
VARIABLES conn,     \* "open" | "closed"  (closed = servePeer returned, the peer is dropped)
          cstore,   \* the chain store, an opaque value
          cpool,    \* number of txs handed to the pool
          cfeed,    \* number of NewBlockEvents published
          cann,     \* number of announcements handed to the announcement loop
          creply,   \* number of results written back
          last      \* verdict of the last message: "effect" | "reject" | "ignore" | "none"
varsC == <<conn, cstore, cpool, cfeed, cann, creply, last>>

GetStatus == 0  NewBlockID == 1  NewBlock == 2  NewTx == 3
GetBlockByID == 4  GetBlockIDByNumber == 5  GetBlocksFromNumber == 6  GetTxs == 7
Codes == 0..7
\* classes of a received message
\*  "ok"       well-formed call/notification of that code         "badarg"  envelope fine, argument does not decode
\*  "badenv"   [callID, isResult, ...] framing broken             "toolarge" Size > proto.MaxMsgSize
\*  "txbig"    MsgNewTx with Size > maxTxSize                     "result"  isResult = true, no pending call
Classes == {"ok", "badarg", "badenv", "toolarge", "txbig", "result"}

Verdict(code, cls) ==
  IF cls = "toolarge" \/ cls = "badenv" THEN "reject"
  ELSE IF cls = "result" THEN "ignore"                         \* handleResult: unexpected call result => nil
  ELSE IF code \notin Codes THEN "reject"                      \* unknown message
  ELSE IF cls = "badarg" THEN "reject"
  ELSE IF cls = "txbig" THEN "reject"                          \* MsgNewTx: msg.Size > maxTxSize
  ELSE "effect"

\* what an accepted message of that code may change
Effect(code, isCall, txAccepted) ==
  /\ creply' = creply + (IF isCall THEN 1 ELSE 0)
  /\ cfeed'  = cfeed + (IF code = NewBlock THEN 1 ELSE 0)
  /\ cann'   = cann + (IF code = NewBlockID THEN 1 ELSE 0)
  /\ cpool'  = cpool + (IF code = NewTx /\ txAccepted THEN 1 ELSE 0)
  /\ cstore' = cstore

HandleMsg(code, cls, isCall, txAccepted) ==
  /\ conn = "open"
  /\ LET v == Verdict(code, cls) IN
     /\ last' = v
     /\ CASE v = "reject" -> conn' = "closed" /\ UNCHANGED <<cstore, cpool, cfeed, cann, creply>>
          [] v = "ignore" -> UNCHANGED <<conn, cstore, cpool, cfeed, cann, creply>>
          [] v = "effect" -> Effect(code, isCall, txAccepted) /\ UNCHANGED conn

CReset ==
  /\ conn' = "open" /\ last' = "none"
  /\ UNCHANGED <<cstore, cpool, cfeed, cann, creply>>

StoreNeverChanges == cstore = "S0"
ClosedIffRejected == (conn = "closed") <=> (last = "reject")

(* ------------------------------------------------------------------------------------------------------ *)
(* dummy values + the three specifications                                                                 *)
(* ------------------------------------------------------------------------------------------------------ *)
G0 == Blk(<<"c", 0>>, 0, <<"none", 0>>, "ok", 0, 0)

IdleA == /\ aH = 0 /\ aA = 0 /\ aR = 0 /\ apc = "idle" /\ bw = 0 /\ st = 0 /\ en = 0 /\ anc = 0 /\ res = 0
         /\ probes = <<>>
IdleB == /\ from = 0 /\ fetchDone = FALSE /\ rawQ = <<>> /\ dec = None /\ warmQ = <<>> /\ store = {G0}
         /\ maxNum = 0 /\ best = G0 /\ imported = <<>> /\ status = "idle" /\ dropped = FALSE /\ tainted = FALSE
         /\ reqs = 0
IdleC == /\ conn = "open" /\ cstore = "S0" /\ cpool = 0 /\ cfeed = 0 /\ cann = 0 /\ creply = 0 /\ last = "none"

NoScen == [H |-> 0, A |-> 0, R |-> 0, wr |-> 1, tie |-> FALSE, k |-> 0, fault |-> "none", fpos |-> 1]
vars == <<varsA, varsB, varsC, scen, live>>

\* ---- SpecA: every (H, A, R) ---------------------------------------------------------------------------
InitA == /\ IdleB /\ IdleC /\ scen = NoScen /\ live = {}
         /\ \E h \in 0..MaxH : \E a \in 0..h : \E r \in a..(MaxH + ExtraR) :
              /\ aH = h /\ aA = a /\ aR = r
              /\ bw = 0 /\ st = 0 /\ en = 0 /\ anc = 0 /\ res = 0 /\ probes = <<>>
              /\ apc = IF h = 0 THEN "done" ELSE "seek"
NextA == AStep /\ UNCHANGED <<varsB, varsC, scen, live>>
\* a peer that answers every probe as it likes (lying, non-monotone)
InitAL == /\ IdleB /\ IdleC /\ scen = NoScen /\ live = {}
          /\ \E h \in 0..MaxH :
               /\ aH = h /\ aA = -1 /\ aR = 0
               /\ bw = 0 /\ st = 0 /\ en = 0 /\ anc = 0 /\ res = 0 /\ probes = <<>>
               /\ apc = IF h = 0 THEN "done" ELSE "seek"
NextAL == (SeekExhausted \/ \E ov \in BOOLEAN : SeekProbeO(ov) \/ FindProbeO(ov)) /\ UNCHANGED <<varsB, varsC, scen, live>>
SpecAL == InitAL /\ [][NextAL]_vars /\ WF_vars(NextAL)
SpecA == InitA /\ [][NextA]_vars /\ WF_vars(NextA)

\* ---- SpecB: scripted peers ----------------------------------------------------------------------------
\* scenario: local = c0..cA l(A+1)..lH, remote = c0..cA r(A+1)..rR; every local block weighs 1, every remote-only
\* block weighs wr; tie: the remote id wins a score tie.
LBlk(n) == IF n <= scen.A THEN Blk(<<"c", n>>, n, IF n = 0 THEN <<"none", 0>> ELSE <<"c", n - 1>>, "ok", n, 0)
           ELSE Blk(<<"l", n>>, n, IF n = scen.A + 1 THEN <<"c", scen.A>> ELSE <<"l", n - 1>>, "ok", n, 1)
RBlk(n) == IF n <= scen.A THEN LBlk(n)
           ELSE Blk(<<"r", n>>, n, IF n = scen.A + 1 THEN <<"c", scen.A>> ELSE <<"r", n - 1>>, "ok",
                    scen.A + (n - scen.A) * scen.wr, IF scen.tie THEN 0 ELSE 2)
LocalStore == {LBlk(n) : n \in 0..scen.H}

Honest(n) == [j \in 1..Max(0, Min(MaxBatch, scen.R - n + 1)) |-> RBlk(n + j - 1)]
FH == scen.A - scen.k + scen.fpos            \* height hit by the fault (stream position fpos)
Spoil(b, kind) == [b EXCEPT !.kind = kind, !.id = IF kind = "invalid" THEN <<"x", b.num>> ELSE @]   \* another signature/root => another id
Orphan(n) == Blk(<<"x", n>>, n, <<"x", n - 1>>, "ok", 100, 0)
RemoveAt(s, i) == [j \in 1..(Len(s) - 1) |-> IF j < i THEN s[j] ELSE s[j + 1]]
InsertAt(s, i, e) == [j \in 1..(Len(s) + 1) |-> IF j < i THEN s[j] ELSE IF j = i THEN e ELSE s[j - 1]]

BlockFaults  == {"struct", "body", "invalid", "orphan", "gap", "dup"}
AnswerFaults == {"shift", "shiftback", "oversized", "undecodable", "toolarge", "disconnect", "short"}
Detectable   == (BlockFaults \cup AnswerFaults) \ {"short"}

\* the scripted peer's answer to GetBlocksFromNumber(n)
PeerAnswer(n) ==
  LET hon == Honest(n)
      hit == scen.fault # "none" /\ FH >= n /\ FH < n + Len(hon)
      i   == FH - n + 1
  IN IF ~hit THEN [t |-> "blocks", bs |-> hon, bad |-> FALSE]
     ELSE CASE scen.fault \in {"struct", "body", "invalid"} ->
                 [t |-> "blocks", bs |-> [hon EXCEPT ![i] = Spoil(@, scen.fault)], bad |-> TRUE]
            [] scen.fault = "orphan" -> [t |-> "blocks", bs |-> [hon EXCEPT ![i] = Orphan(FH)], bad |-> TRUE]
            [] scen.fault = "gap" -> [t |-> "blocks", bs |-> RemoveAt(hon, i), bad |-> i < Len(hon)]
            [] scen.fault = "dup" -> [t |-> "blocks", bs |-> InsertAt(hon, i, hon[i]), bad |-> TRUE]
            [] scen.fault = "shift" -> [t |-> "blocks", bs |-> Honest(n + 1), bad |-> Honest(n + 1) # <<>>]
            [] scen.fault = "shiftback" -> [t |-> "blocks", bs |-> Honest(n - 1), bad |-> TRUE]
            [] scen.fault = "oversized" ->
                 [t |-> "blocks", bs |-> [j \in 1..(MaxBatch + 1) |-> hon[1]], bad |-> TRUE]
            [] scen.fault = "short" -> [t |-> "blocks", bs |-> <<>>, bad |-> FALSE]
            [] OTHER -> [t |-> scen.fault, bad |-> TRUE]

InitB == /\ IdleA /\ IdleC
         /\ \E h \in 0..MaxHB : \E a \in 0..h : \E r \in a..MaxRB : \E w \in 1..2 : \E tb \in BOOLEAN :
            \E k \in Slack : \E f \in {"none"} \cup BlockFaults \cup AnswerFaults : \E p \in 1..Max(1, r - a + k) :
              /\ k <= a
              /\ f = "none" => p = 1
              /\ scen = [H |-> h, A |-> a, R |-> r, wr |-> w, tie |-> tb, k |-> k, fault |-> f, fpos |-> p]
         /\ store = LocalStore /\ best = LBlk(scen.H) /\ maxNum = scen.H
         /\ from = scen.A - scen.k + 1 /\ fetchDone = FALSE /\ rawQ = <<>> /\ dec = None /\ warmQ = <<>>
         /\ imported = <<>> /\ status = "run" /\ dropped = FALSE /\ tainted = FALSE /\ reqs = 0
         /\ live = Stages

FetchScripted ==
  LET a == PeerAnswer(from) IN
  /\ Fetch(a)
  /\ tainted' = (tainted \/ a.bad)

NextB == /\ \/ (FetchScripted \/ BSilent) /\ UNCHANGED live
            \/ \E sg \in Stages : StageExit(sg)
         /\ UNCHANGED <<varsA, varsC, scen>>
SpecB == InitB /\ [][NextB]_vars /\ WF_vars(NextB)

RemoteIds == [j \in 1..(scen.R - scen.A) |-> <<"r", scen.A + j>>]
IsPrefix(s, t) == Len(s) <= Len(t) /\ \A j \in 1..Len(s) : s[j] = t[j]
RemotePreferred == Better(RBlk(scen.R), LBlk(scen.H))

\* store = local store + a prefix of the peer's valid chain, nothing else
StoreIsValidPrefix ==
  /\ IsPrefix(imported, RemoteIds)
  /\ store = LocalStore \cup {RBlk(scen.A + j) : j \in 1..Len(imported)}
\* blocks at or after a spoiled position are never imported
NothingPastFault ==
  scen.fault \in {"struct", "body", "invalid", "orphan"} => Len(imported) < Max(1, FH - scen.A)
Converges ==
  (status = "ok" /\ scen.fault = "none") =>
     /\ Len(imported) = scen.R - scen.A
     /\ RemotePreferred => best = RBlk(scen.R)
     /\ ~RemotePreferred => best = LBlk(scen.H)
HostileHarmless ==
  /\ NoInvalidStored /\ ParentClosed /\ BestIsStoredMax /\ StoreIsValidPrefix /\ NothingPastFault
  /\ FaultReported /\ DroppedIsError /\ SequenceGuards
  /\ ~Better(LBlk(scen.H), best)                  \* the local best never gets worse
BTerminates == <>Returned                        \* download() returns, whatever the peer did
HonestCompletes == scen.fault = "none" => <>(status = "ok")

\* ---- SpecC: every code x class ------------------------------------------------------------------------
InitC == IdleA /\ IdleB /\ IdleC /\ scen = NoScen /\ live = {}
NextC == /\ \/ \E code \in 0..8 : \E cls \in Classes : \E call \in BOOLEAN : \E acc \in BOOLEAN :
                  /\ cpool < 2 /\ cfeed < 2 /\ cann < 2 /\ creply < 3
                  /\ HandleMsg(code, cls, call, acc)
            \/ (conn = "closed" /\ CReset)
         /\ UNCHANGED <<varsA, varsB, scen, live>>
SpecC == InitC /\ [][NextC]_vars
RejectChangesNothing ==
  [][(last' = "reject" /\ conn = "open" /\ conn' = "closed") =>
        (cstore' = cstore /\ cpool' = cpool /\ cfeed' = cfeed /\ cann' = cann /\ creply' = creply)]_vars
====
