\* (C) every message code x payload class
SPECIFICATION SpecC
CONSTANTS
  MaxH = 0
  ExtraR = 0
  MaxHB = 0
  MaxRB = 0
  MaxBatch = 2
  RawCap = 1
  WarmCap = 1
  Slack = {0}
  FetchListens = TRUE
  DecListens = TRUE
INVARIANT StoreNeverChanges
INVARIANT ClosedIffRejected
PROPERTY RejectChangesNothing
CHECK_DEADLOCK FALSE
