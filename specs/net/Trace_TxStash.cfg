SPECIFICATION Spec
CONSTANTS
  Tx = {}
INVARIANT CapRespected
INVARIANT NoDuplicates
INVARIANT FifoIsDisk
INVARIANT StashReported
INVARIANT EvictsFront
INVARIANT OfferedOnce
INVARIANT FillKeepsObjects
CONSTRAINT Progress
POSTCONDITION TraceAccepted
CHECK_DEADLOCK FALSE
