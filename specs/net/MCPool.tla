------------------------------- MODULE MCPool -------------------------------
(* Model-checking harness for TxPool.tla: a fixed universe of signed transactions and a fixed chain of heads.
   hist (only when Record = TRUE) is the action sequence with the projected post-state of every step; the
   behaviours are exported for replay on the real pool (model -> implementation).                              *)
EXTENDS TxPool, Json

CONSTANTS CLimit, CLimitPerAccount, CLifetime, CIdentityCheck,
          TxDef,      \* hash -> tx record
          Heads,      \* sequence of head records; the chain advances along it
          Sources,    \* subset of {"remote", "local"}
          Stricts,    \* subset of BOOLEAN (StrictlyAdd)
          MaxGen,     \* objects per hash
          AllOrders,  \* TRUE: every evaluation order of a snapshot; FALSE: one fixed order
          StaleEval,  \* TRUE: Add may have evaluated against the previous head
          Blockable,  \* accounts that a blocklist fetch may add
          Record, MaxSteps,
          SplitAdd,   \* "off": Add is one step | "inlock": lookup-free prefix, then the critical section with its duplicate
                      \* test | "outside": the duplicate test happens in the prefix, the critical section inserts blindly
          Variant,    \* "base" | "fork": which real chain TxDef / Heads are the facts of
          Sample      \* TRUE (simulation only): one random candidate per operation kind, so that wash steps get their share

VARIABLES hidx, hist,
          padd       \* submissions that passed the lock-free prefix and wait for the map: set of [k, h, src, exec]
mcvars == <<vars, hidx, hist, padd>>

Fresh(h) == <<h, Cardinality({o \in DOMAIN objs : o[1] = h}) + 1>>
Now == <<Cardinality(DOMAIN objs)>>
CanCreate(h) == Fresh(h)[2] <= MaxGen

Perms(S) == LET n == Cardinality(S) IN {s \in [1..n -> S] : \A x, y \in 1..n : x # y => s[x] # s[y]}
Orders == IF AllOrders THEN Perms(Pooled) ELSE {CHOOSE s \in Perms(Pooled) : TRUE}

Pick(S) == IF Sample /\ S # {} THEN {RandomElement(S)} ELSE S

Post == [q |-> quota', c |-> cost', n |-> Cardinality(DOMAIN byHash'),
         pool |-> [h \in DOMAIN byHash' |-> [o |-> byHash'[h], flag |-> objs'[byHash'[h]].flag]]]
Log(a) == hist' = IF Record THEN Append(hist, a @@ Post) ELSE hist

MCInit ==
  /\ cfg = [limit |-> CLimit, lpa |-> CLimitPerAccount, lifetime |-> CLifetime, identity |-> CIdentityCheck]
  /\ txs = TxDef /\ objs = << >> /\ byHash = << >> /\ byID = << >> /\ quota = << >> /\ cost = << >>
  /\ pub = <<>> /\ head = Heads[1] /\ blocked = {} /\ tick = [seen |-> Heads[1].id, added |-> FALSE]
  /\ w = WIdle /\ lastDrop = NoDrop /\ hidx = 1 /\ hist = <<>> /\ padd = {}

EvalHeads == IF StaleEval /\ hidx > 1 THEN {Heads[hidx], Heads[hidx - 1]} ELSE {Heads[hidx]}

\* Add at the grain of the map: the prefix of TxPool.add ends before txObjectMap.Add's critical section; several
\* submissions (of the same tx, too) may be between the two
SubmitPrefix(k, h, src) ==
  LET p == AddPrefix(h, src, FALSE, head) IN
  /\ SplitAdd # "off" /\ p.v = "go" /\ \A x \in padd : x.k # k
  /\ padd' = padd \cup {[k |-> k, h |-> h, src |-> src, exec |-> p.exec]}
  /\ UNCHANGED <<vars, hidx>> /\ Log([a |-> "SubmitPrefix", h |-> h])
SubmitInsert(x) ==
  /\ SplitAdd # "off" /\ CanCreate(x.h)
  /\ AddLockedWith(Fresh(x.h), x.h, x.src, Now, x.exec, head, PrioOf(txs[x.h], head), SplitAdd = "inlock")
  /\ padd' = padd \ {x}
  /\ UNCHANGED <<cfg, txs, pub, head, blocked, tick, w, lastDrop, hidx>> /\ Log([a |-> "SubmitInsert", h |-> x.h])

MCNext0 ==
  /\ (Record => Len(hist) < MaxSteps)
  /\ \/ \E h \in Pick(DOMAIN TxDef), src \in Pick(Sources), strict \in Pick(Stricts), hd \in EvalHeads :
          /\ (strict => src = "remote")           \* StrictlyAdd is a remote submission
          /\ CanCreate(h) /\ Add(Fresh(h), h, src, strict, Now, hd) /\ UNCHANGED hidx
          /\ Log([a |-> "Add", h |-> h, src |-> src, strict |-> strict, stale |-> hd # head, o |-> Fresh(h),
                  v |-> AddVerdict(h, AddPrefix(h, src, strict, hd).exec, hd)])
     \/ \E h \in Pick(DOMAIN TxDef \ DOMAIN byHash) :
          /\ CanCreate(h) /\ h \notin DOMAIN byHash /\ Fill(Fresh(h), h, Now) /\ UNCHANGED hidx
          /\ Log([a |-> "Fill", h |-> h, o |-> Fresh(h)])
     \/ \E h \in Pick(DOMAIN byHash) : Remove(h) /\ UNCHANGED hidx /\ Log([a |-> "Remove", h |-> h])
     \/ /\ hidx < Len(Heads) /\ HeadAdvance(Heads[hidx + 1]) /\ hidx' = hidx + 1 /\ Log([a |-> "Head", i |-> hidx + 1])
     \/ \E S \in SUBSET Blockable : S # blocked /\ blocked \subseteq S /\ BlockAccounts(S) /\ UNCHANGED hidx
                                    /\ Log([a |-> "Block", s |-> S])
     \/ TickIdle /\ UNCHANGED hidx /\ Log([a |-> "TickIdle"])
     \/ \E order \in Pick(Orders) : WashStart(order, FALSE) /\ UNCHANGED hidx /\ Log([a |-> "WashStart", order |-> order])
     \/ \E ol \in BOOLEAN : /\ w.pc = "eval" /\ w.i <= Len(w.snap)
                            /\ WashEval(ol, EvalPrio(w.snap[w.i])) /\ UNCHANGED hidx
                            /\ Log([a |-> "WashEval", o |-> w.snap[w.i], r |-> EvalOf(w.snap[w.i], ol)])
     \/ WashLimit /\ UNCHANGED hidx /\ Log([a |-> "WashLimit", ex |-> w'.ex, rm |-> w'.rm])
     \/ WashKeep /\ UNCHANGED hidx /\ Log([a |-> "WashKeep", o |-> w.ex[w.k]])
     \/ WashPayCheck /\ UNCHANGED hidx /\ Log([a |-> "WashPayCheck", o |-> w.ex[w.k], ok |-> w'.chk])
     \/ WashPromote /\ UNCHANGED hidx /\ Log([a |-> "WashPromote", o |-> w.ex[w.k], v |-> PromoteVerdict(w.ex[w.k])])
     \/ WashReturn /\ UNCHANGED hidx /\ Log([a |-> "WashReturn"])
     \/ WashEvict /\ UNCHANGED hidx /\ Log([a |-> "WashEvict", o |-> w.rm[w.j].o, why |-> w.rm[w.j].why])
     \/ /\ w.pc = "evict" /\ w.j > Len(w.rm)
        /\ WashPublish([x \in 1..Len(w.out) |-> objs[w.out[x]].prio]) /\ UNCHANGED hidx
        /\ Log([a |-> "WashPublish", out |-> [x \in 1..Len(w.out) |-> objs[w.out[x]].h]])

MCNext ==
  \/ \E k \in 1..2, h \in DOMAIN TxDef, src \in Sources : SubmitPrefix(k, h, src)
  \/ \E x \in padd : SubmitInsert(x)
  \/ MCNext0 /\ UNCHANGED padd

MCSpec == MCInit /\ [][MCNext]_mcvars

\* objects that are neither pooled nor held by the wash can never be referenced again: they are irrelevant
Live(o) == o \in Pooled \/ (w.pc # "idle" /\ o \in SeqSet(w.snap))
MCView == <<cfg, txs, [o \in DOMAIN objs |-> IF Live(o) THEN objs[o] ELSE 0], byHash, byID, quota, cost, pub, head, blocked,
            tick, w, lastDrop, hidx, padd>>

\* behaviour export (simulation mode): print the history of every behaviour that reaches the bound or gets stuck
ExportDone == Record /\ Len(hist) >= MaxSteps => PrintT(<<"BEH", ToJson(hist)>>)

\* the regression config (IdentityCheck = FALSE, the code as it is): the counterexample's history is printed (F6)
CostExactOrExport == CostExact \/ ~PrintT(<<"F6", ToJson(hist)>>)

\* teeth config (SplitAdd = "outside", the duplicate test outside the critical section): the bookkeeping must break
QuotaExactOrExport == QuotaExact \/ ~PrintT(<<"DUPCHECK", ToJson(hist)>>)

\* a deliberately false invariant used once to see that the interesting paths are reachable (vacuity control)
NeverPromoted == \A o \in DOMAIN objs : ~(objs[o].flag /\ objs[o].src = "fill")

----------------------------------------------------------------------------------------------------------------
\* The universe.  These are the facts of a REAL chain and of REAL signed transactions built by harness/cmd/poolsim
\* (`poolsim -mode universe` prints them; the check compares that output with the UNIVERSE line TLC prints, so the
\* behaviours exported from here can be replayed on the real pool).  Amounts in units of 10^16 wei.
\*   accounts a, b, c hold VTHO only (no VET: their energy does not grow): 7600, 6000, 3000
\*   h1  a pays 5040, executable at once            h2  a's tx paid by delegator b, block ref 3: executable from head 2 on
\*   h3  b pays 2940; block 2 contains it           h4  b's tx depending on h3's id
\*   h5  a's tx expiring with block 2               h6 / h6b  one tx of a signed twice: delegator b / delegator c (same id)
UTxAll ==
  ("h1" :> [k |-> "h1", id |-> "i1", org |-> "a", dlg |-> "none", cost |-> 5040, costs |-> << >>, cap |-> <<0, 1200000, 0>>, prios |-> << >>, priosnw |-> << >>, prio |-> <<0, 1190000, 0>>, prio0 |-> <<0, 1200000, 0>>, ref |-> 0, exp |-> 100, dep |-> "none", typed |-> FALSE]) @@
  ("h2" :> [k |-> "h2", id |-> "i2", org |-> "a", dlg |-> "b", cost |-> 2100, costs |-> << >>, cap |-> <<0, 1000000, 0>>, prios |-> << >>, priosnw |-> << >>, prio |-> <<0, 990000, 0>>, prio0 |-> <<0, 1000000, 0>>, ref |-> 3, exp |-> 100, dep |-> "none", typed |-> FALSE]) @@
  ("h3" :> [k |-> "h3", id |-> "i3", org |-> "b", dlg |-> "none", cost |-> 2940, costs |-> << >>, cap |-> <<0, 1400000, 0>>, prios |-> << >>, priosnw |-> << >>, prio |-> <<0, 1390000, 0>>, prio0 |-> <<0, 1400000, 0>>, ref |-> 0, exp |-> 100, dep |-> "none", typed |-> FALSE]) @@
  ("h4" :> [k |-> "h4", id |-> "i4", org |-> "b", dlg |-> "none", cost |-> 2100, costs |-> << >>, cap |-> <<0, 1000000, 0>>, prios |-> << >>, priosnw |-> << >>, prio |-> <<0, 990000, 0>>, prio0 |-> <<0, 1000000, 0>>, ref |-> 0, exp |-> 100, dep |-> "i3", typed |-> FALSE]) @@
  ("h5" :> [k |-> "h5", id |-> "i5", org |-> "a", dlg |-> "none", cost |-> 2100, costs |-> << >>, cap |-> <<0, 1000000, 0>>, prios |-> << >>, priosnw |-> << >>, prio |-> <<0, 990000, 0>>, prio0 |-> <<0, 1000000, 0>>, ref |-> 1, exp |-> 1, dep |-> "none", typed |-> FALSE]) @@
  ("h6" :> [k |-> "h6", id |-> "i6", org |-> "a", dlg |-> "b", cost |-> 2520, costs |-> << >>, cap |-> <<0, 1200000, 0>>, prios |-> << >>, priosnw |-> << >>, prio |-> <<0, 1190000, 0>>, prio0 |-> <<0, 1200000, 0>>, ref |-> 0, exp |-> 100, dep |-> "none", typed |-> FALSE]) @@
  ("h7" :> [k |-> "h7", id |-> "i7", org |-> "a", dlg |-> "none", cost |-> 42, costs |-> << >>, cap |-> <<0, 30000, 0>>, prios |-> << >>, priosnw |-> << >>, prio |-> <<0, 10000, 0>>, prio0 |-> <<0, 0, 0>>, ref |-> 0, exp |-> 100, dep |-> "none", typed |-> TRUE]) @@
  ("h6b" :> [k |-> "h6b", id |-> "i6", org |-> "a", dlg |-> "c", cost |-> 2520, costs |-> << >>, cap |-> <<0, 1200000, 0>>, prios |-> << >>, priosnw |-> << >>, prio |-> <<0, 1190000, 0>>, prio0 |-> <<0, 1200000, 0>>, ref |-> 0, exp |-> 100, dep |-> "none", typed |-> FALSE])
UHeads == <<
  [id |-> "b0", num |-> 1, incl |-> {}, rev |-> {}, energy |-> ("a" :> 7600) @@ ("b" :> 6000) @@ ("c" :> 3000), payers |-> << >>, basefee |-> <<0, 10000, 0>>, bf |-> "10000000000000", refresh |-> FALSE, gala |-> TRUE, synced |-> TRUE],
  [id |-> "b1", num |-> 2, incl |-> {"i3"}, rev |-> {}, energy |-> ("a" :> 7600) @@ ("b" :> 3060) @@ ("c" :> 3000), payers |-> << >>, basefee |-> <<0, 10000, 0>>, bf |-> "10000000000000", refresh |-> FALSE, gala |-> TRUE, synced |-> TRUE],
  [id |-> "b2", num |-> 3, incl |-> {"i3"}, rev |-> {}, energy |-> ("a" :> 7600) @@ ("b" :> 3060) @@ ("c" :> 3000), payers |-> << >>, basefee |-> <<0, 10000, 0>>, bf |-> "10000000000000", refresh |-> FALSE, gala |-> TRUE, synced |-> TRUE] >>
\* the same transactions on a chain where GALACTICA starts with block 3 (variant "fork")
FTxAll ==
  ("h1" :> [k |-> "h1", id |-> "i1", org |-> "a", dlg |-> "none", cost |-> 5040, costs |-> << >>, cap |-> <<0, 1200000, 0>>, prios |-> << >>, priosnw |-> << >>, prio |-> <<0, 1190000, 0>>, prio0 |-> <<0, 1200000, 0>>, ref |-> 0, exp |-> 100, dep |-> "none", typed |-> FALSE]) @@
  ("h2" :> [k |-> "h2", id |-> "i2", org |-> "a", dlg |-> "b", cost |-> 2100, costs |-> << >>, cap |-> <<0, 1000000, 0>>, prios |-> << >>, priosnw |-> << >>, prio |-> <<0, 990000, 0>>, prio0 |-> <<0, 1000000, 0>>, ref |-> 3, exp |-> 100, dep |-> "none", typed |-> FALSE]) @@
  ("h3" :> [k |-> "h3", id |-> "i3", org |-> "b", dlg |-> "none", cost |-> 2940, costs |-> << >>, cap |-> <<0, 1400000, 0>>, prios |-> << >>, priosnw |-> << >>, prio |-> <<0, 1390000, 0>>, prio0 |-> <<0, 1400000, 0>>, ref |-> 0, exp |-> 100, dep |-> "none", typed |-> FALSE]) @@
  ("h4" :> [k |-> "h4", id |-> "i4", org |-> "b", dlg |-> "none", cost |-> 2100, costs |-> << >>, cap |-> <<0, 1000000, 0>>, prios |-> << >>, priosnw |-> << >>, prio |-> <<0, 990000, 0>>, prio0 |-> <<0, 1000000, 0>>, ref |-> 0, exp |-> 100, dep |-> "i3", typed |-> FALSE]) @@
  ("h5" :> [k |-> "h5", id |-> "i5", org |-> "a", dlg |-> "none", cost |-> 2100, costs |-> << >>, cap |-> <<0, 1000000, 0>>, prios |-> << >>, priosnw |-> << >>, prio |-> <<0, 990000, 0>>, prio0 |-> <<0, 1000000, 0>>, ref |-> 1, exp |-> 1, dep |-> "none", typed |-> FALSE]) @@
  ("h6" :> [k |-> "h6", id |-> "i6", org |-> "a", dlg |-> "b", cost |-> 2520, costs |-> << >>, cap |-> <<0, 1200000, 0>>, prios |-> << >>, priosnw |-> << >>, prio |-> <<0, 1190000, 0>>, prio0 |-> <<0, 1200000, 0>>, ref |-> 0, exp |-> 100, dep |-> "none", typed |-> FALSE]) @@
  ("h7" :> [k |-> "h7", id |-> "i7", org |-> "a", dlg |-> "none", cost |-> 42, costs |-> << >>, cap |-> <<0, 30000, 0>>, prios |-> << >>, priosnw |-> << >>, prio |-> <<0, 10000, 0>>, prio0 |-> <<0, 0, 0>>, ref |-> 0, exp |-> 100, dep |-> "none", typed |-> TRUE]) @@
  ("h6b" :> [k |-> "h6b", id |-> "i6", org |-> "a", dlg |-> "c", cost |-> 2520, costs |-> << >>, cap |-> <<0, 1200000, 0>>, prios |-> << >>, priosnw |-> << >>, prio |-> <<0, 1190000, 0>>, prio0 |-> <<0, 1200000, 0>>, ref |-> 0, exp |-> 100, dep |-> "none", typed |-> FALSE])
FHeads == <<
  [id |-> "b0", num |-> 1, incl |-> {}, rev |-> {}, energy |-> ("a" :> 7600) @@ ("b" :> 6000) @@ ("c" :> 3000), payers |-> << >>, basefee |-> <<0, 0, 0>>, bf |-> "0", refresh |-> FALSE, gala |-> FALSE, synced |-> TRUE],
  [id |-> "b1", num |-> 2, incl |-> {"i3"}, rev |-> {}, energy |-> ("a" :> 7600) @@ ("b" :> 3060) @@ ("c" :> 3000), payers |-> << >>, basefee |-> <<0, 10000, 0>>, bf |-> "10000000000000", refresh |-> FALSE, gala |-> TRUE, synced |-> TRUE],
  [id |-> "b2", num |-> 3, incl |-> {"i3"}, rev |-> {}, energy |-> ("a" :> 7600) @@ ("b" :> 3060) @@ ("c" :> 3000), payers |-> << >>, basefee |-> <<0, 10000, 0>>, bf |-> "10000000000000", refresh |-> TRUE, gala |-> TRUE, synced |-> TRUE] >>
Sub(S) == [h \in S |-> UTxAll[h]]
Tx2 == Sub({"h1", "h2"})
Tx3 == Sub({"h1", "h2", "h3"})
Tx4 == Sub({"h1", "h2", "h6", "h6b"})
Tx5 == Sub({"h1", "h2", "h3", "h4", "h5"})
TxDrops == Sub({"h3", "h4", "h5"})
TxSame == Sub({"h6", "h6b"})
TxModes == Sub({"h2", "h6"})        \* both paid by b: affordable together at head 1, not at head 2
Heads1 == SubSeq(UHeads, 1, 1)
Heads2 == SubSeq(UHeads, 1, 2)
Heads3 == UHeads
TxTyped == Sub({"h1", "h7"})          \* a legacy and a dynamic-fee tx of the same account
FTx == [h \in {"h1", "h7"} |-> FTxAll[h]]

ASSUME PrintT(<<"UNIVERSE", ToJson([txs |-> TxDef, heads |-> Heads, limit |-> CLimit, lpa |-> CLimitPerAccount, lifetime |-> CLifetime,
                                     variant |-> Variant])>>)
=============================================================================
