---- MODULE MC_BigNat ----
(* Self-test of BigNat.tla: every operator is compared with TLC's native arithmetic on a set of boundary and
   pseudo-random values below 2^30, and the algebraic identities (a+b)-b = a, a = b*(a div b) + (a mod b), 0 <= a mod b < b
   are checked on multi-limb values (up to ~10^36).  All checks are ASSUMEs: TLC evaluates them before exploring the
   (trivial) state space; run:  tlc -config MC_BigNat.cfg MC_BigNat.tla                                            *)
EXTENDS BigNat, FiniteSets

Lim == 1073741823   \* 2^30 - 1

Small == {0, 1, 2, 3, 7, 8, 10, 255, 1000, 32766, 32767, 32768, 32769, 65535, 65536, 99999, 1000000, 16777215,
          30000000, 40000000, 123456789, 536870911, 536870912, 1073709056, 1073741822, 1073741823}
Tiny == {1, 2, 3, 8, 100, 1971, 10000, 32766, 32767}

ASSUME \A x \in Small : /\ IsBigNat(FromInt(x)) /\ ToInt(FromInt(x)) = x /\ Norm(FromInt(x) \o <<0, 0>>) = FromInt(x)
                        /\ FitsInt(FromInt(x))
ASSUME \A x, y \in Small :
         /\ Cmp(FromInt(x), FromInt(y)) = (IF x < y THEN -1 ELSE IF x > y THEN 1 ELSE 0)
         /\ Cmp(FromInt(x) \o <<0>>, FromInt(y)) = (IF x < y THEN -1 ELSE IF x > y THEN 1 ELSE 0)
         /\ (x + y <= Lim => Add(FromInt(x), FromInt(y)) = FromInt(x + y))
         /\ (x >= y => Sub(FromInt(x), FromInt(y)) = FromInt(x - y))
         /\ Monus(FromInt(x), FromInt(y)) = FromInt(IF x >= y THEN x - y ELSE 0)
         /\ AbsDiff(FromInt(x), FromInt(y)) = FromInt(IF x >= y THEN x - y ELSE y - x)
         /\ Max(FromInt(x), FromInt(y)) = FromInt(IF x >= y THEN x ELSE y)
         /\ Min(FromInt(x), FromInt(y)) = FromInt(IF x <= y THEN x ELSE y)
         /\ ((x = 0 \/ y <= Lim \div x) => /\ Mul(FromInt(x), FromInt(y)) = FromInt(x * y)
                                           /\ MulInt(FromInt(x), y) = FromInt(x * y))
         /\ (y > 0 => /\ Div(FromInt(x), FromInt(y)) = FromInt(x \div y)
                      /\ Mod(FromInt(x), FromInt(y)) = FromInt(x % y)
                      /\ DivInt(FromInt(x), y) = FromInt(x \div y))
ASSUME \A x \in Small, k \in Tiny :
         /\ DivSmall(FromInt(x), k) = FromInt(x \div k)
         /\ ModSmall(FromInt(x), k) = x % k
         /\ (x <= Lim \div k => MulSmall(FromInt(x), k) = FromInt(x * k))
ASSUME \A x \in Small : MulSmall(FromInt(x), 0) = Zero /\ Mul(FromInt(x), Zero) = Zero /\ Add(FromInt(x), Zero) = FromInt(x)

\* multi-limb identities
Big == {Mul(FromInt(x), Pow10(k)) : x \in {1, 3, 32768, 99999, 123456789, 1073741823}, k \in {0, 5, 13, 18, 27}}
        \cup {Add(Mul(FromInt(x), Pow10(18)), FromInt(y)) : x \in {7, 40000000}, y \in {0, 1, 32767, 536870912}}
Divs == {FromInt(x) : x \in {1, 8, 32767, 32768, 30000000, 1073741823}} \cup {Pow10(13), Pow10(18), Mul(FromInt(32769), Pow10(9))}

ASSUME \A a \in Big : IsBigNat(a) /\ a = Norm(a)
ASSUME \A a, b \in Big : /\ Sub(Add(a, b), b) = a
                         /\ Add(a, b) = Add(b, a)
                         /\ Mul(a, b) = Mul(b, a)
                         /\ Div(Mul(a, b), b) = a
                         /\ Mod(Mul(a, b), b) = Zero
                         /\ (Cmp(a, b) = -Cmp(b, a))
                         /\ (LT(a, b) => Eq(Add(a, Sub(b, a)), b))
ASSUME \A a \in Big, d \in Divs :
         LET q == Div(a, d)  r == Mod(a, d)
         IN /\ Add(Mul(d, q), r) = a /\ LT(r, d) /\ IsBigNat(q) /\ IsBigNat(r)
ASSUME \A a \in Big, k \in Tiny :
         /\ Add(MulSmall(DivSmall(a, k), k), FromInt(ModSmall(a, k))) = a
         /\ DivSmall(a, k) = Div(a, FromInt(k))
\* floor division composes: a div 10^18 = ((((a div 10^4) div 10^4) div 10^4) div 10^4) div 100
ASSUME \A a \in Big : DivSmall(DivSmall(DivSmall(DivSmall(DivSmall(a, 10000), 10000), 10000), 10000), 100) = Div(a, Pow10(18))
ASSUME Sum(<<FromInt(5), Pow10(18), FromInt(32767)>>) = Add(Pow10(18), FromInt(32772))
ASSUME Pow10(18) = <<0, 20168, 23246, 28421>>          \* 10^18 in base 2^15, computed independently (python)

VARIABLE x
Init == x = 0
Next == x' = x
Spec == Init /\ [][Next]_x
====
