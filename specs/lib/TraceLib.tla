---- MODULE TraceLib ----
(* Shared helpers of all trace specifications (DESIGN 3.2).
   A trace specification declares   VARIABLE l   (position of the next unconsumed line of Trace),
   consumes one line per step and keeps the high-water mark of l in TLC register 1, because with
   unlogged variables / silent steps the diameter of the state graph is not the trace length.
   Run with -workers 1.  The runner reads the line "TRACE-HWM <reached> <length>".                       *)
EXTENDS Integers, Sequences, TLC, Json

LoadTrace(file) == ndJsonDeserialize(file)

\* to be used as a CONSTRAINT:  always TRUE, records how far the trace has been matched
HWM(l) == IF TLCGet(1) < l THEN TLCSet(1, l) ELSE TRUE

\* to be used in Init of the trace spec
HWMInit == TLCSet(1, 0)

\* POSTCONDITION: prints the mark; l - 1 lines were consumed when l is the next index
Accepted(len) ==
  /\ PrintT(<<"TRACE-HWM", TLCGet(1) - 1, len>>)
  /\ TLCGet(1) - 1 = len

Has(r, f) == f \in DOMAIN r
Get(r, f, default) == IF f \in DOMAIN r THEN r[f] ELSE default
====
