SPECIFICATION Spec
