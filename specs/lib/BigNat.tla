---- MODULE BigNat ----
(* Natural numbers that do not fit TLC's 32-bit integers (DESIGN 3.4).

   REPRESENTATION.  A BigNat is a sequence of limbs, little-endian, base 2^15 = 32768:
        Val(<<a1, ..., an>>) = a1 + a2*B + ... + an*B^(n-1),     0 <= ai < B.
   The NORMAL form has no trailing zero limb; zero is << >>.  harness/internal/trace.Limbs emits normal forms; a JSON
   array of ints deserializes to exactly this kind of sequence.  Every operator below accepts arbitrary (possibly
   non-normal) limb sequences and returns a NORMAL form, so results can be compared with "=".
   All intermediate products stay below 2^31:  32767*32767 + 2*32767 < 2^30.

   API (stable - used by specs/exec/Ledger*.tla, TxExec*.tla and free for other modules)
     Base                      32768
     IsBigNat(a)               well-formedness (every limb in 0..Base-1)
     Norm(a)                   strip trailing zero limbs
     Zero, One
     FromInt(n)                n >= 0 native integer -> BigNat
     ToInt(a)                  BigNat -> native integer; only for values < 2^31 (caller's duty)
     FitsInt(a)                TRUE iff value < 2^30 (safe to ToInt)
     Cmp(a, b)                 -1 / 0 / 1
     Eq, LT, LE, GT, GE        comparisons (on values, insensitive to trailing zeros)
     Max(a, b), Min(a, b)
     Add(a, b)
     Sub(a, b)                 PARTIAL: defined for a >= b only; for a < b TLC fails the ASSERT (never silently wraps)
     Monus(a, b)               a - b if a >= b else Zero
     AbsDiff(a, b)             |a - b|
     MulSmall(a, k)            0 <= k < Base
     Mul(a, b)                 schoolbook
     MulInt(a, n)              n any native integer 0 <= n < 2^31  (= Mul(a, FromInt(n)))
     DivSmall(a, k)            floor(a / k),   1 <= k < Base
     ModSmall(a, k)            a mod k (native integer)
     Div(a, b)                 floor(a / b),   b > 0, any size (long division, binary search per quotient limb)
     Mod(a, b)                 a - b*floor(a/b)
     DivInt(a, n)              floor(a / n) for native 1 <= n < 2^31
     Sum(s)                    sum of a sequence of BigNats
     Pow10(k)                  10^k
   Self-test: MC_BigNat.tla / MC_BigNat.cfg compare every operator with native arithmetic below 2^30.          *)
EXTENDS Integers, Sequences, TLC

Base == 32768

IsBigNat(a) == \A i \in 1..Len(a) : a[i] \in 0..(Base - 1)

RECURSIVE Norm(_)
Norm(a) == IF Len(a) = 0 THEN a
           ELSE IF a[Len(a)] = 0 THEN Norm(SubSeq(a, 1, Len(a) - 1)) ELSE a

Zero == << >>
One == <<1>>

RECURSIVE FromInt(_)
FromInt(n) == IF n = 0 THEN << >> ELSE <<n % Base>> \o FromInt(n \div Base)

RECURSIVE ToIntR(_, _)
ToIntR(a, i) == IF i > Len(a) THEN 0 ELSE a[i] + Base * ToIntR(a, i + 1)
ToInt(a) == ToIntR(Norm(a), 1)

FitsInt(a) == Len(Norm(a)) <= 2

Limb(a, i) == IF i <= Len(a) THEN a[i] ELSE 0

\* ---- comparison (from the most significant limb down) ----------------------------------------------------
RECURSIVE CmpR(_, _, _)
CmpR(a, b, i) == IF i = 0 THEN 0
                 ELSE IF Limb(a, i) < Limb(b, i) THEN -1
                 ELSE IF Limb(a, i) > Limb(b, i) THEN 1
                 ELSE CmpR(a, b, i - 1)
Cmp(a, b) == CmpR(a, b, IF Len(a) > Len(b) THEN Len(a) ELSE Len(b))
Eq(a, b) == Cmp(a, b) = 0
LT(a, b) == Cmp(a, b) = -1
LE(a, b) == Cmp(a, b) <= 0
GT(a, b) == Cmp(a, b) = 1
GE(a, b) == Cmp(a, b) >= 0
Max(a, b) == IF GE(a, b) THEN Norm(a) ELSE Norm(b)
Min(a, b) == IF LE(a, b) THEN Norm(a) ELSE Norm(b)

\* ---- addition / subtraction ------------------------------------------------------------------------------
RECURSIVE AddR(_, _, _, _, _)
AddR(a, b, i, n, c) ==
  IF i > n THEN (IF c = 0 THEN << >> ELSE <<c>>)
  ELSE LET s == Limb(a, i) + Limb(b, i) + c
       IN <<s % Base>> \o AddR(a, b, i + 1, n, s \div Base)
Add(a, b) == Norm(AddR(a, b, 1, IF Len(a) > Len(b) THEN Len(a) ELSE Len(b), 0))

RECURSIVE SubR(_, _, _, _, _)
SubR(a, b, i, n, br) ==
  IF i > n THEN << >>
  ELSE LET d == Limb(a, i) - Limb(b, i) - br
       IN IF d < 0 THEN <<d + Base>> \o SubR(a, b, i + 1, n, 1)
          ELSE <<d>> \o SubR(a, b, i + 1, n, 0)
Sub(a, b) == IF GE(a, b)
             THEN Norm(SubR(a, b, 1, IF Len(a) > Len(b) THEN Len(a) ELSE Len(b), 0))
             ELSE Assert(FALSE, <<"BigNat!Sub: negative result", a, b>>)
Monus(a, b) == IF GE(a, b) THEN Sub(a, b) ELSE Zero
AbsDiff(a, b) == IF GE(a, b) THEN Sub(a, b) ELSE Sub(b, a)

\* ---- multiplication --------------------------------------------------------------------------------------
RECURSIVE MulSmallR(_, _, _, _)
MulSmallR(a, k, i, c) ==
  IF i > Len(a) THEN (IF c = 0 THEN << >> ELSE <<c>>)       \* c < Base always
  ELSE LET p == a[i] * k + c
       IN <<p % Base>> \o MulSmallR(a, k, i + 1, p \div Base)
MulSmall(a, k) == IF k = 0 THEN Zero ELSE Norm(MulSmallR(a, k, 1, 0))

Shift(a, n) == IF Len(a) = 0 THEN a ELSE [i \in 1..n |-> 0] \o a        \* a * Base^n

RECURSIVE MulR(_, _, _)
MulR(a, b, j) == IF j > Len(b) THEN Zero
                 ELSE Add(Shift(MulSmall(a, b[j]), j - 1), MulR(a, b, j + 1))
Mul(a, b) == MulR(Norm(a), Norm(b), 1)
MulInt(a, n) == Mul(a, FromInt(n))

\* ---- division --------------------------------------------------------------------------------------------
\* by a single limb: from the most significant limb down; rem < k < Base so rem*Base + limb < 2^30
RECURSIVE DivSmallR(_, _, _, _)
DivSmallR(a, k, i, rem) ==       \* returns <<quotient limbs little-endian for positions 1..i, final remainder>>
  IF i = 0 THEN << << >>, rem >>
  ELSE LET cur == rem * Base + a[i]
           lo == DivSmallR(a, k, i - 1, cur % k)
       IN << lo[1] \o <<cur \div k>>, lo[2] >>
DivSmall(a, k) == Norm(DivSmallR(a, k, Len(a), 0)[1])
ModSmall(a, k) == DivSmallR(a, k, Len(a), 0)[2]

\* general long division: quotient limb by binary search (largest q in 0..Base-1 with b*q <= cur)
RECURSIVE QDigit(_, _, _, _)
QDigit(cur, b, lo, hi) ==        \* invariant: b*lo <= cur < b*(hi+1)
  IF lo = hi THEN lo
  ELSE LET mid == (lo + hi + 1) \div 2
       IN IF LE(MulSmall(b, mid), cur) THEN QDigit(cur, b, mid, hi) ELSE QDigit(cur, b, lo, mid - 1)

RECURSIVE DivR(_, _, _, _)
DivR(a, b, i, rem) ==
  IF i = 0 THEN << << >>, rem >>
  ELSE LET cur == Norm(<<a[i]>> \o rem)                 \* rem*Base + a[i]
           q == IF LT(cur, b) THEN 0 ELSE QDigit(cur, b, 0, Base - 1)
           lo == DivR(a, b, i - 1, Sub(cur, MulSmall(b, q)))
       IN << lo[1] \o <<q>>, lo[2] >>
DivMod(a, b) == IF Len(Norm(b)) = 0 THEN Assert(FALSE, "BigNat!Div: division by zero")
                ELSE DivR(a, Norm(b), Len(a), Zero)
Div(a, b) == Norm(DivMod(a, b)[1])
Mod(a, b) == Norm(DivMod(a, b)[2])
DivInt(a, n) == Div(a, FromInt(n))

RECURSIVE SumR(_, _)
SumR(s, i) == IF i > Len(s) THEN Zero ELSE Add(s[i], SumR(s, i + 1))
Sum(s) == SumR(s, 1)

RECURSIVE Pow10(_)
Pow10(k) == IF k = 0 THEN One ELSE MulSmall(Pow10(k - 1), 10)
====
