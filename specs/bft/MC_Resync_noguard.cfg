SPECIFICATION Spec
CONSTANTS N = 4
  Start = 1
  MaxCrashes = 0
  Variant = "noguard"
  RepairAtStart = TRUE
  AllowMissing = FALSE
INVARIANT NeverFails
CHECK_DEADLOCK FALSE
