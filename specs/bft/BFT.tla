------------------------------ MODULE BFT ------------------------------
(* Design-level model of thor's finality gadget (bft/engine.go, bft/justifier.go, bft/casts.go) together with
   the node's import/pack path (cmd/thor/node/block_exec.go, packer_loop.go).

   A block IS its path from genesis: a sequence of <<signer, com>> pairs.  Isomorphic block trees built in
   different orders are therefore the same state (canonical ids).

   Honest validators propose on their own best block with the COM bit given by the VIP-220 vote rule
   (ShouldVote); Byzantine validators propose on any known block with any bit and may equivocate.  Delivery is
   chain-sync style: a node receives a head together with all its unseen ancestors, oldest first, and stops
   at the first block refused by its finalized checkpoint.  Restart drops the in-memory casts and rebuilds them
   from the heads of the stored tree, exactly as bft.newCasts does.                                             *)
EXTENDS BFTOps

CONSTANTS V,          \* validators (model values)
          Byz,        \* Byzantine subset
          MaxBlocks,  \* bound on blocks created after the seed chain
          MaxByz,     \* bound on Byzantine blocks
          MaxRestarts,
          Seed        \* a chain every node starts with

Honest == V \ Byz

VARIABLES blocks,    \* all blocks ever created
          nbyz, nrst,
          seen,      \* seen[v]  : blocks stored by honest node v
          best,      \* best[v]
          fin,       \* fin[v]   : finalized checkpoint
          casts      \* casts[v] : set of <<checkpoint, quality>> own votes kept in memory
vars == <<blocks, nbyz, nrst, seen, best, fin, casts>>

ShouldVote(v, p) == ShouldVoteWith(fin[v], casts[v], p)
St(v) == [seen |-> seen[v], best |-> best[v], fin |-> fin[v], casts |-> casts[v]]
SetSt(v, st) == /\ seen' = [seen EXCEPT ![v] = st.seen] /\ best' = [best EXCEPT ![v] = st.best]
                /\ fin' = [fin EXCEPT ![v] = st.fin] /\ casts' = [casts EXCEPT ![v] = st.casts]

------------------------------------------------------------------------
Init == /\ blocks = Prefixes(Seed) /\ nbyz = 0 /\ nrst = 0
        /\ seen = [v \in Honest |-> Prefixes(Seed)]
        /\ best = [v \in Honest |-> Seed]
        /\ fin = [v \in Honest |-> <<>>]
        /\ casts = [v \in Honest |-> {}]

NewCount == Cardinality(blocks) - Len(Seed) - 1

ProposeHonest(v) ==
  /\ NewCount < MaxBlocks
  /\ LET p == best[v]
         b == Append(p, <<v, ShouldVote(v, p)>>)
     IN /\ b \notin blocks
        /\ blocks' = blocks \cup {b}
        /\ SetSt(v, CommitRec(St(v), v, b))
  /\ UNCHANGED <<nbyz, nrst>>

ProposeByz(v, p, com) ==
  /\ NewCount < MaxBlocks /\ nbyz < MaxByz
  /\ Append(p, <<v, com>>) \notin blocks
  /\ blocks' = blocks \cup {Append(p, <<v, com>>)}
  /\ nbyz' = nbyz + 1
  /\ UNCHANGED <<nrst, seen, best, fin, casts>>

RECURSIVE SyncTo(_,_,_,_)
SyncTo(st, v, h, n) == IF n > Len(h) THEN st
                       ELSE LET b == AncAt(h, n) IN
                            IF b \in st.seen THEN SyncTo(st, v, h, n + 1)
                            ELSE IF Accepts(st.fin, b) THEN SyncTo(CommitRec(st, v, b), v, h, n + 1)
                            ELSE st
Deliver(v, h) ==
  /\ h \notin seen[v]
  /\ LET st == SyncTo(St(v), v, h, 1) IN st # St(v) /\ SetSt(v, st)
  /\ UNCHANGED <<blocks, nbyz, nrst>>

Restart(v) ==
  /\ nrst < MaxRestarts
  /\ nrst' = nrst + 1
  /\ casts' = [casts EXCEPT ![v] = NewCasts(v, seen[v], fin[v])]
  /\ casts'[v] # casts[v]                  \* otherwise a stuttering step
  /\ UNCHANGED <<blocks, nbyz, seen, best, fin>>

Next == \/ \E v \in Honest : ProposeHonest(v)
        \/ \E v \in Byz, p \in blocks, c \in BOOLEAN : ProposeByz(v, p, c)
        \/ \E v \in Honest, h \in blocks : Deliver(v, h)
        \/ \E v \in Honest : Restart(v)
Spec == Init /\ [][Next]_vars

------------------------------------------------------------------------
\* C03
FinalitySafety == \A v, w \in Honest : SameChain(fin[v], fin[w])
FinMonotone == [][\A v \in Honest : IsAnc(fin[v], fin'[v])]_vars
BestExtendsFin == \A v \in Honest : IsAnc(fin[v], best[v])
FinIsCheckpoint == \A v \in Honest : Len(fin[v]) = CP(Len(fin[v]))
StoredDescendFromFin == \A v \in Honest : \A b \in seen[v] : Len(b) > Len(fin[v]) => TRUE
\* C04: best and finality are a function of the set of blocks seen
OrderIndependence == \A v, w \in Honest : seen[v] = seen[w] => best[v] = best[w] /\ fin[v] = fin[w]
\* the vote rule after a restart is at least as strict as before it (reconstructed casts lose nothing that matters)
RestartKeepsVoteRule ==
  \A v \in Honest : \A p \in seen[v] :
     ShouldVoteWith(fin[v], NewCasts(v, seen[v], fin[v]), p) => ShouldVoteWith(fin[v], casts[v], p)
\* vacuity probes (expected to be violated)
NeverFinalizes == \A v \in Honest : fin[v] = <<>>
NeverForks == \A a, b \in blocks : SameChain(a, b)

------------------------------------------------------------------------
\* Synchronous all-honest operation (C03, last clause): every proposal reaches every node before the next one.
SyncPropose(v) ==
  /\ NewCount < MaxBlocks
  /\ LET p == best[v]
         b == Append(p, <<v, ShouldVote(v, p)>>)
         NewSt(w) == IF w = v THEN CommitRec(St(w), w, b)
                     ELSE IF b \notin seen[w] /\ Par(b) \in seen[w] /\ Accepts(fin[w], b) THEN CommitRec(St(w), w, b) ELSE St(w)
     IN /\ b \notin blocks
        /\ blocks' = blocks \cup {b}
        /\ seen' = [w \in Honest |-> NewSt(w).seen]
        /\ best' = [w \in Honest |-> NewSt(w).best]
        /\ fin' = [w \in Honest |-> NewSt(w).fin]
        /\ casts' = [w \in Honest |-> NewSt(w).casts]
  /\ UNCHANGED <<nbyz, nrst>>
SyncNext == \E v \in Honest : SyncPropose(v)
SyncSpec == Init /\ [][SyncNext]_vars
\* all nodes always agree (one chain), every honest block on a chain that already holds a justified epoch votes COM,
\* every epoch signed by more than 2/3 is justified, and once a justified epoch exists every such epoch is committed
\* and finality follows two qualities behind.
SyncAgreement == \A v, w \in Honest : best[v] = best[w] /\ fin[v] = fin[w]
SyncVotes == \A b \in blocks : (Len(b) > Len(Seed) /\ Quality(Par(b)) >= 1) => Com(b)
SyncJustified == \A b \in blocks : (Len(b) = SP(Len(b)) /\ SumW(Voters(b)) > ThrW) => Justified(b) /\ Quality(b) = Quality(AncAt(b, CP(Len(b)) - 1)) + 1
SyncCommitted == \A b \in blocks :
   (Len(b) = SP(Len(b)) /\ CP(Len(b)) > Len(Seed) /\ Justified(b) /\ Quality(AncAt(b, CP(Len(b)) - 1)) >= 1) => Committed(b)
SyncFinality == \A v \in Honest : \A b \in seen[v] :
   (Len(b) = SP(Len(b)) /\ Committed(b) /\ Quality(b) > 1 /\ IsAnc(b, best[v]))
      => Len(fin[v]) >= Len(FindCP(Quality(b) - 1, <<>>, b)) /\ FindCP(Quality(b) - 1, <<>>, b) # NoBlock
=============================================================================
