---- MODULE Trace_BFT ----
(* Trace specification for C03 / C04: validates event traces recorded from the real bft.Engine + node import/pack path
   (internal/sim) against the finality rules.  The trace supplies only *facts the rules leave open*: block identity
   (id, parent, number, signer, COM bit as signed, total score, rank of the id).  Everything the rules determine is
   recomputed here from the definitions and must equal what the implementation reported:
     - the COM bit of every block an honest node packs          (ShouldVote, VIP-220)
     - whether an import is accepted or refused by finality     (Accepts)
     - the best block after each commit                         (Select: quality, score, id)
     - the finalized and the justified checkpoint               (NewFin / JustifiedOf)
     - the vote tally of the block (quality, justified, committed), recomputed FROM SCRATCH from the chain while
       the engine computes it incrementally from cached parent tallies            (C04, last clause)
     - the node's in-memory casts after packing
   All invariants of the design-level module are evaluated after every event over all nodes.
   Several traces are concatenated; a Reset event starts the next one (one JVM start for hundreds of traces).      *)
EXTENDS Integers, Sequences, FiniteSets, TLC, Json, TraceLib

Trace == LoadTrace("trace.ndjson")

VARIABLES cfg,    \* [E, thrW, w (validator -> weight), nodes]
          B,      \* block id -> [parent, num, signer, com, score, ord]
          seen, best, fin, casts, lazy,
          l
vars == <<cfg, B, seen, best, fin, casts, lazy, l>>

NoBlock == "none"
G == "b0"
E == cfg.E
\* height of the FINALITY fork (0 when the trace does not say): blocks below it carry no votes, the first round at or
\* after it starts from quality 0 and never votes COM
Fin == IF "fin" \in DOMAIN cfg THEN cfg.fin ELSE 0
CP(n) == (n \div E) * E
SP(n) == CP(n) + E - 1

RECURSIVE AncAt(_,_)
AncAt(b, n) == IF B[b].num = n THEN b ELSE AncAt(B[b].parent, n)
IsAnc(a, b) == B[a].num <= B[b].num /\ AncAt(b, B[a].num) = a
SameChain(a, b) == IsAnc(a, b) \/ IsAnc(b, a)

\* ---- definitional tally: walk the epoch of b from b back to its checkpoint -------------------------------
RECURSIVE EpochBlocks(_)
EpochBlocks(b) == IF B[b].num = 0 \/ B[b].num < Fin THEN {}
                  ELSE IF B[b].num = CP(B[b].num) THEN {b} ELSE {b} \cup EpochBlocks(B[b].parent)
Voters(b) == {B[x].signer : x \in EpochBlocks(b)}
ComVoters(b) == {v \in Voters(b) : \A x \in EpochBlocks(b) : B[x].signer = v => B[x].com}
\* Weights and threshold of an epoch are those of its checkpoint block (PoS: read by the driver from the checkpoint's
\* post-housekeep state and logged with the block as a fact; PoA / no table logged: the trace-wide cfg.w and cfg.thrW).
\* The threshold of a logged table is computed HERE: total weight * 2 / 3 (bft.newJustifier).
RECURSIVE SumTab(_, _)
SumTab(tab, S) == IF S = {} THEN 0 ELSE LET x == CHOOSE x \in S : TRUE IN tab[x] + SumTab(tab, S \ {x})
WtOf(b) == B[AncAt(b, CP(B[b].num))].wt
ThrOf(b) == LET cp == AncAt(b, CP(B[b].num)) IN
            IF B[cp].haswt THEN (SumTab(B[cp].wt, DOMAIN B[cp].wt) * 2) \div 3 ELSE cfg.thrW
SumW(b, S) == SumTab(WtOf(b), S)
Justified(b) == SumW(b, Voters(b)) > ThrOf(b)
Committed(b) == SumW(b, ComVoters(b)) > ThrOf(b)
RECURSIVE Quality(_)
Quality(b) == IF B[b].num = 0 \/ B[b].num < Fin THEN 0
              ELSE LET cp == CP(B[b].num)
                       pq == IF cp = CP(Fin) THEN 0 ELSE Quality(AncAt(b, cp - 1))      \* absRound = 0
                   IN pq + (IF Justified(b) THEN 1 ELSE 0)
EpochQ(h, n) == Quality(AncAt(h, SP(n)))

FindCP(target, f, h) ==
  LET start == IF B[f].num = 0 THEN CP(Fin) ELSE CP(B[f].num)
      cands == {k \in 0..(B[h].num \div E) : k*E >= start /\ k*E + E - 1 <= B[h].num /\ EpochQ(h, k*E) >= target}
  IN IF cands = {} THEN NoBlock
     ELSE LET k == CHOOSE k \in cands : \A j \in cands : k <= j
          IN IF EpochQ(h, k*E) = target THEN AncAt(h, k*E) ELSE NoBlock

ShouldVoteWith(f, cs, p) ==
  IF (B[p].num + 1) \div E = Fin \div E \/ B[p].num + 1 < Fin THEN FALSE
  ELSE LET q == Quality(p) IN
    IF q = 0 THEN FALSE
    ELSE LET jc == IF Justified(p) THEN AncAt(p, CP(B[p].num))
                   ELSE FindCP(q, f, AncAt(p, SP(B[p].num - E)))
         IN /\ jc # NoBlock
            /\ \A c \in cs : (B[c[1]].num >= B[f].num /\ c[2] >= q - 1) => SameChain(c[1], jc)

BetterThan(b, cur) == B[b].score > B[cur].score \/ (B[b].score = B[cur].score /\ B[b].ord < B[cur].ord)
\* commitBlock: the engine decides only when both the block and the previous best are at or above FINALITY
Better(b, cur) == IF B[b].num >= Fin /\ B[cur].num >= Fin
                  THEN \/ Quality(b) > Quality(cur)
                       \/ Quality(b) = Quality(cur) /\ BetterThan(b, cur)
                  ELSE BetterThan(b, cur)
Accepts(f, b) == IsAnc(f, B[b].parent)
NewFin(f, b) == IF B[b].num >= Fin /\ B[b].num = SP(B[b].num) /\ Committed(b) /\ Quality(b) > 1
                THEN LET c == FindCP(Quality(b) - 1, f, b) IN IF c = NoBlock \/ ~IsAnc(f, c) THEN f ELSE c
                ELSE f
\* Engine.Justified() from best h and finalized f
JustifiedOf(f, h) ==
  IF B[h].num < CP(Fin) + E - 1 THEN f
  ELSE LET concluded == IF B[h].num < SP(B[h].num) THEN CP(B[h].num) - E ELSE CP(B[h].num)
           sid == AncAt(h, SP(concluded))
       IN IF Quality(sid) = 0 THEN f ELSE FindCP(Quality(sid), f, sid)

\* bft.newCasts
Heads(S, f) == {h \in S : B[h].num >= B[f].num /\ ~\E x \in S : B[x].parent = h /\ x # G}
RECURSIVE LatestOwn(_,_,_)
LatestOwn(v, h, f) == IF B[h].signer = v THEN h
                      ELSE IF B[h].num <= B[f].num THEN NoBlock
                      ELSE LatestOwn(v, B[h].parent, f)
NewCasts(v, S, f) ==
  LET own == {LatestOwn(v, h, f) : h \in Heads(S, f)} \ {NoBlock}
      cps == {AncAt(b, CP(B[b].num)) : b \in own}
      Of(cp) == {Quality(b) : b \in {x \in own : AncAt(x, CP(B[x].num)) = cp}}
  IN {<<cp, CHOOSE q \in Of(cp) : \A r \in Of(cp) : r <= q>> : cp \in cps}

Nodes == 0..(cfg.nodes - 1)
Val(n) == "v" \o ToString(n)        \* node n runs validator vn

Genesis == [parent |-> G, num |-> 0, signer |-> "none", com |-> FALSE, score |-> 0, ord |-> 0, wt |-> <<>>, haswt |-> FALSE]
Ev == Trace[l]

InitWith(c) ==
  /\ cfg = c
  /\ B = [x \in {G} |-> [Genesis EXCEPT !.wt = c.w]]
  /\ seen = [n \in 0..(c.nodes - 1) |-> {G}]
  /\ best = [n \in 0..(c.nodes - 1) |-> G]
  /\ fin = [n \in 0..(c.nodes - 1) |-> G]
  /\ casts = [n \in 0..(c.nodes - 1) |-> {}]
  /\ lazy = [n \in 0..(c.nodes - 1) |-> TRUE]

Init == /\ HWMInit /\ Len(Trace) >= 1 /\ Trace[1].e = "Reset"
        /\ InitWith(Trace[1].cfg) /\ l = 2

Reset == /\ Ev.e = "Reset"
         /\ cfg' = Ev.cfg
         /\ B' = [x \in {G} |-> [Genesis EXCEPT !.wt = Ev.cfg.w]]
         /\ seen' = [n \in 0..(Ev.cfg.nodes - 1) |-> {G}]
         /\ best' = [n \in 0..(Ev.cfg.nodes - 1) |-> G]
         /\ fin' = [n \in 0..(Ev.cfg.nodes - 1) |-> G]
         /\ casts' = [n \in 0..(Ev.cfg.nodes - 1) |-> {}]
         /\ lazy' = [n \in 0..(Ev.cfg.nodes - 1) |-> TRUE]

New == /\ Ev.e = "New"
       /\ Ev.b \notin DOMAIN B /\ Ev.p \in DOMAIN B
       /\ Ev.num = B[Ev.p].num + 1
       /\ B' = [x \in DOMAIN B \cup {Ev.b} |->
                  IF x = Ev.b THEN [parent |-> Ev.p, num |-> Ev.num, signer |-> Ev.signer, com |-> Ev.com,
                                    score |-> Ev.score, ord |-> Ev.ord,
                                    wt |-> IF Has(Ev, "wt") THEN Ev.wt ELSE cfg.w, haswt |-> Has(Ev, "wt")]
                  ELSE B[x]]
       /\ UNCHANGED <<cfg, seen, best, fin, casts, lazy>>

CastSet(seq) == {<<seq[i][1], seq[i][2]>> : i \in 1..Len(seq)}

\* node n committed block b (imported it, or packed it itself when own)
Commit == /\ Ev.e = "Commit"
          /\ LET n == Ev.n
                 b == Ev.b
                 cs == IF Ev.own /\ lazy[n] THEN NewCasts(Val(n), seen[n], fin[n]) ELSE casts[n]
             IN
             /\ b \in DOMAIN B /\ b \notin seen[n]
             /\ B[b].parent \in seen[n]
             /\ Accepts(fin[n], b)
             \* own block: the flow was scheduled on the node's best at that time, which may have moved since
             \* (packerLoop re-checks once per second): the parent is any stored block; the COM bit follows the
             \* vote rule for THAT parent, and the block becomes best only if the fork choice says so
             /\ (Ev.own => /\ B[b].signer = Val(n)
                           /\ B[b].com = ShouldVoteWith(fin[n], cs, B[b].parent))
             /\ seen' = [seen EXCEPT ![n] = @ \cup {b}]
             /\ best' = [best EXCEPT ![n] = IF Better(b, @) THEN b ELSE @]
             /\ fin' = [fin EXCEPT ![n] = NewFin(@, b)]
             /\ casts' = IF Ev.own /\ B[b].num >= Fin
                         THEN LET cp == AncAt(b, CP(B[b].num)) IN
                              [casts EXCEPT ![n] = {c \in cs : c[1] # cp} \cup {<<cp, Quality(b)>>}]
                         ELSE casts
             /\ lazy' = IF Ev.own /\ B[b].num >= Fin THEN [lazy EXCEPT ![n] = FALSE] ELSE lazy
             \* ---- what the implementation reported must be what the rules give
             /\ best'[n] = Ev.best
             /\ fin'[n] = Ev.fin
             /\ JustifiedOf(fin'[n], best'[n]) = Ev.just
             /\ (Has(Ev, "q") => /\ Quality(b) = Ev.q
                                 /\ Justified(b) = Ev.tj
                                 /\ Committed(b) = Ev.tc)
             /\ (Has(Ev, "casts") => CastSet(Ev.casts) = casts'[n])
          /\ UNCHANGED <<cfg, B>>

\* node n refused block b because of finality
Refuse == /\ Ev.e = "Refuse"
          /\ Ev.b \in DOMAIN B /\ B[Ev.b].parent \in seen[Ev.n]
          /\ ~Accepts(fin[Ev.n], Ev.b)
          /\ UNCHANGED <<cfg, B, seen, best, fin, casts, lazy>>

\* node n was given a block it already has, or whose parent it lacks: no effect
Ignore == /\ Ev.e = "Ignore"
          /\ \/ (Ev.class = "known" /\ Ev.b \in seen[Ev.n])
             \/ (Ev.class = "parent-missing" /\ B[Ev.b].parent \notin seen[Ev.n])
          /\ Ev.best = best[Ev.n] /\ Ev.fin = fin[Ev.n]
          /\ UNCHANGED <<cfg, B, seen, best, fin, casts, lazy>>

\* node n restarted: in-memory casts are gone and will be rebuilt from the stored tree on the next vote;
\* best and finalized must come back unchanged from the store
Restart == /\ Ev.e = "Restart"
           /\ Ev.best = best[Ev.n] /\ Ev.fin = fin[Ev.n]
           /\ JustifiedOf(fin[Ev.n], best[Ev.n]) = Ev.just
           /\ lazy' = [lazy EXCEPT ![Ev.n] = TRUE]
           /\ casts' = [casts EXCEPT ![Ev.n] = {}]
           /\ UNCHANGED <<cfg, B, seen, best, fin>>

Next == /\ l <= Len(Trace) /\ l' = l + 1
        /\ (Reset \/ New \/ Commit \/ Refuse \/ Ignore \/ Restart)
Spec == Init /\ [][Next]_vars

\* ---- invariants of the design evaluated on every prefix of every observed execution -------------------------
FinalitySafety == \A n, m \in Nodes : SameChain(fin[n], fin[m])
\* (runs in which the driver makes honest nodes pack on a parent the schedule names, not on their best block
\* (cfg.forced: vote orders replayed from BFTEpoch.tla), can finalize on one branch while the best block still sits on
\* another of equal quality and higher score: the invariant is about nodes that pack on their best block)
BestExtendsFin == ("forced" \in DOMAIN cfg /\ cfg.forced) \/ \A n \in Nodes : IsAnc(fin[n], best[n])
FinIsCheckpoint == \A n \in Nodes : B[fin[n]].num = CP(B[fin[n]].num)
OrderIndependence == \A n, m \in Nodes : seen[n] = seen[m] => best[n] = best[m] /\ fin[n] = fin[m]

Progress == HWM(l)
TraceAccepted == Accepted(Len(Trace))
====
