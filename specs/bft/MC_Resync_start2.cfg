SPECIFICATION Spec
CONSTANTS N = 4
  Start = 2
  MaxCrashes = 2
  Variant = "asis"
  RepairAtStart = TRUE
  AllowMissing = TRUE
INVARIANTS TypeOK NeverFails VersionLast Completion Idempotent
PROPERTY FinMonotone
CHECK_DEADLOCK FALSE
