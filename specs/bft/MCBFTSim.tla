---- MODULE MCBFTSim ----
(* Behaviour export for model -> implementation replay (DESIGN 3.3): BFT.tla with a history variable that labels
   every step; run with  -simulate num=N -depth D ; every behaviour that reaches length D is written as one JSON
   file beh_<k>.json (sequence of labelled actions) into the working directory.                                  *)
EXTENDS MCBFT, Json
VARIABLE hist
svars == <<vars, hist>>
D == 28
SInit == Init /\ hist = <<>>
SNext == \/ \E v \in Honest : ProposeHonest(v) /\ hist' = Append(hist, [a |-> "ph", v |-> v, b |-> Append(best[v], <<v, ShouldVote(v, best[v])>>)])
         \/ \E v \in Byz, p \in blocks, cb \in BOOLEAN :
              ProposeByz(v, p, cb) /\ hist' = Append(hist, [a |-> "pb", v |-> v, p |-> p, com |-> cb])
         \/ \E v \in Honest, h \in blocks : Deliver(v, h) /\ hist' = Append(hist, [a |-> "d", v |-> v, h |-> h])
         \/ \E v \in Honest : Restart(v) /\ hist' = Append(hist, [a |-> "r", v |-> v])
SSpec == SInit /\ [][SNext]_svars
\* written once per behaviour, when it reaches length D
Export == Len(hist) = D =>
            JsonSerialize("beh_" \o ToString(TLCGet("stats").traces) \o ".json",
                          [seed |-> Seed, steps |-> hist, fin |-> [v \in Honest |-> fin[v]], best |-> [v \in Honest |-> best[v]]])
====
