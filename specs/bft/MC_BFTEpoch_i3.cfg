SPECIFICATION Spec
CONSTANTS
  h1 = h1
  h2 = h2
  h3 = h3
  h4 = h4
  h5 = h5
  z = z
  z2 = z2
  V = {h1, h2, h3, z}
  Byz = {z}
  W <- W4
  Thr = 2
  Nodes <- ShapeI
  ByzMax = TRUE
  MaxNodes = 5
  MaxVotes = 4
  Monotone = TRUE
  RootVotes = FALSE
  Variant = "asis"
INVARIANT FinalitySafety
SYMMETRY Sym
CHECK_DEADLOCK FALSE
