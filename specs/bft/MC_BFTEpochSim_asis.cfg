SPECIFICATION SSpec
CONSTANTS
  h1 = h1
  h2 = h2
  h3 = h3
  h4 = h4
  h5 = h5
  z = z
  z2 = z2
  V = {h1, h2, h3, z}
  Byz = {z}
  W <- W4
  Thr = 2
  Nodes <- ShapeY
  ByzMax = TRUE
  MaxNodes = 6
  MaxVotes = 5
  Monotone = TRUE
  RootVotes = FALSE
  Variant = "asis"
INVARIANT ExportSched
INVARIANT FinalitySafety
CHECK_DEADLOCK FALSE
