---- MODULE Trace_Resync ----
(* Trace specification for bft.Engine.Resync (driver harness/cmd/resync).  One file = many runs: a Config event gives
   the facts of a real chain (tally J / C of every store point as the real engine computed them, plus the qualities
   and the finalized checkpoint the real importing node persisted); a Reset event installs a stale store; then every
   storage write of the real pass - recorded under the kv engine - must be the next write of Resync.tla with the same
   store point and value, crashes and restarts included, and the End event must find the store the specification
   computed.  The import rule of the specification (Imported) is bound too: the real importing node's qualities and
   finalized checkpoint must equal Fresh(J, C). *)
EXTENDS Resync, Json, TraceLib

Trace == LoadTrace("trace.ndjson")
TrN == Trace[1].N
VARIABLE l
tvars == <<vars, l>>
Ev == Trace[l]
IsEv(name) == l <= Len(Trace) /\ Ev.e = name
ToFn(s) == [e \in Epochs |-> s[e]]

TInit == /\ HWMInit /\ l = 1 /\ hsp = FALSE
         /\ J = [e \in Epochs |-> FALSE] /\ C = [e \in Epochs |-> FALSE]
         /\ dq = [e \in Epochs |-> 0] /\ q0 = [e \in Epochs |-> 0]
         /\ dFin = 1 /\ fin0 = 1 /\ ver = 0 /\ k = 0 /\ pc = "off" /\ up = TRUE /\ crashes = 0

TConfig == /\ IsEv("Config") /\ pc \in {"off", "done", "failed"}
           /\ J' = ToFn(Ev.J) /\ C' = ToFn(Ev.C) /\ hsp' = Ev.hsp
           /\ \A e \in Epochs : Ev.C[e] => Ev.J[e]
           \* the real import of this chain left exactly what the specification's import rule computes
           /\ LET f == Fresh(ToFn(Ev.J), ToFn(Ev.C)) IN f[1] = ToFn(Ev.q) /\ f[2] = Ev.fin
           /\ ver' = 0 /\ pc' = "off"                    \* another chain, another store: Reset follows
           /\ UNCHANGED <<dq, dFin, k, up, crashes, fin0, q0>>
TReset == /\ IsEv("Reset")
          /\ dq' = ToFn(Ev.dq) /\ q0' = ToFn(Ev.dq) /\ dFin' = Ev.fin /\ fin0' = Ev.fin
          /\ ver' = 0 /\ k' = 0 /\ pc' = "off" /\ up' = TRUE /\ crashes' = 0
          /\ UNCHANGED <<J, C, hsp>>
TBegin == /\ IsEv("Begin")
          /\ \/ Begin
             \/ pc = "done" /\ ver = 1 /\ up /\ UNCHANGED vars       \* a later start-up: the version makes it a no-op
          /\ Ev.fin = dFin'                                          \* after the start-up repair, if any
TWQ == /\ IsEv("W") /\ Ev.cls = "q" /\ k = Ev.k /\ WQ /\ dq'[Ev.k] = Ev.v
TWFin == /\ IsEv("W") /\ Ev.cls = "fin"
         /\ \/ WFin /\ dFin' = Ev.v /\ dFin' # dFin
            \/ Ev.v = dFin /\ up /\ pc \in {"q", "fin", "ver"} /\ UNCHANGED vars   \* rewriting the same checkpoint is harmless
TWVer == /\ IsEv("W") /\ Ev.cls = "resync" /\ Ev.v = 1 /\ WVer
TCrash == IsEv("Crash") /\ Crash
TRestart == IsEv("Restart") /\ Restart
TEnd == /\ IsEv("End") /\ up /\ pc \in {"done", "failed"}
        /\ Ev.err = (pc = "failed")
        /\ dFin = Ev.fin /\ ver = Ev.ver /\ \A e \in Epochs : dq[e] = Ev.dq[e]
        /\ UNCHANGED vars
\* the finalized step of a store point that writes nothing (or fails) leaves no event
Silent == WFin /\ dFin' = dFin

TNext == \/ /\ l' = l + 1
            /\ (TConfig \/ TReset \/ TBegin \/ TWQ \/ TWFin \/ TWVer \/ TCrash \/ TRestart \/ TEnd)
         \/ /\ Silent /\ UNCHANGED l
TSpec == TInit /\ [][TNext]_tvars

TFinMonotone == [][IsEv("Reset") \/ dFin' >= dFin]_tvars
Progress == HWM(l)
TraceAccepted == Accepted(Len(Trace))
====
