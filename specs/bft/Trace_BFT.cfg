SPECIFICATION Spec
INVARIANT FinalitySafety
INVARIANT BestExtendsFin
INVARIANT FinIsCheckpoint
INVARIANT OrderIndependence
CONSTRAINT Progress
POSTCONDITION TraceAccepted
CHECK_DEADLOCK FALSE
