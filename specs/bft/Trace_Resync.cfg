SPECIFICATION TSpec
CONSTANTS N <- TrN
  Start = 1
  MaxCrashes = 99
  RepairAtStart = TRUE
  AllowMissing = TRUE
  Variant = "asis"
INVARIANTS NeverFails VersionLast Completion
PROPERTY TFinMonotone
CONSTRAINT Progress
POSTCONDITION TraceAccepted
CHECK_DEADLOCK FALSE
