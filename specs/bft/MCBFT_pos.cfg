SPECIFICATION Spec
CONSTANTS
  a = a
  b = b
  c = c
  d = d
  V = {a, b, c, d}
  Byz = {d}
  E = 3
  W <- WPos
  ThrW = 4
  MaxBlocks = 3
  MaxByz = 1
  MaxRestarts = 1
  Seed <- SeedDef
  Rank <- RankDef
INVARIANT FinalitySafety
INVARIANT BestExtendsFin
INVARIANT FinIsCheckpoint
INVARIANT OrderIndependence
INVARIANT RestartKeepsVoteRule
PROPERTY FinMonotone
CHECK_DEADLOCK FALSE
