---- MODULE MC_BFTEpoch ----
EXTENDS BFTEpoch
CONSTANTS h1, h2, h3, h4, h5, z, z2
W4 == (h1 :> 1) @@ (h2 :> 1) @@ (h3 :> 1) @@ (z :> 1)
\* PoS-like: total 7, threshold 7*2/3 = 4; the Byzantine validator holds 2 of 7 (< 1/3)
WPos == (h1 :> 2) @@ (h2 :> 2) @@ (h3 :> 1) @@ (z :> 2)
W7 == (h1 :> 1) @@ (h2 :> 1) @@ (h3 :> 1) @@ (h4 :> 1) @@ (h5 :> 1) @@ (z :> 1) @@ (z2 :> 1)
Sym == Permutations({h1, h2, h3})
\* two branches from the first round, three rounds each
ShapeY == {<<>>, <<1>>, <<2>>, <<1, 1>>, <<2, 1>>, <<1, 1, 1>>, <<2, 1, 1>>}
\* a common round, then two branches of three rounds
ShapeI == {<<>>, <<1>>, <<1, 1>>, <<1, 2>>, <<1, 1, 1>>, <<1, 2, 1>>, <<1, 1, 1, 1>>, <<1, 2, 1, 1>>}
ShapeY2 == {<<>>, <<1>>, <<2>>, <<1, 1>>, <<2, 1>>}
\* full binary tree of depth 2
ShapeT == {<<>>, <<1>>, <<2>>, <<1, 1>>, <<1, 2>>, <<2, 1>>, <<2, 2>>}
====
