SPECIFICATION SyncSpec
CONSTANTS
  a = a
  b = b
  c = c
  d = d
  V = {a, b, c, d}
  Byz = {}
  E = 3
  W <- W1
  ThrW = 2
  MaxBlocks = 6
  MaxByz = 0
  MaxRestarts = 0
  Seed <- SeedDef
  Rank <- RankDef
INVARIANT SyncAgreement
INVARIANT SyncVotes
INVARIANT SyncJustified
INVARIANT SyncCommitted
INVARIANT SyncFinality
INVARIANT FinalitySafety
CHECK_DEADLOCK FALSE
