SPECIFICATION SSpec
CONSTANTS
  a = a
  b = b
  c = c
  d = d
  V = {a, b, c, d}
  Byz = {d}
  E = 3
  W <- W1
  ThrW = 2
  MaxBlocks = 16
  MaxByz = 4
  MaxRestarts = 2
  Seed <- SeedDef
  Rank <- RankDef
INVARIANT FinalitySafety
INVARIANT Export
CHECK_DEADLOCK FALSE
