SPECIFICATION Spec
CONSTANTS N = 5
  Start = 1
  MaxCrashes = 2
  Variant = "asis"
  RepairAtStart = TRUE
  AllowMissing = FALSE
INVARIANTS TypeOK NeverFails VersionLast Completion Idempotent
PROPERTY FinMonotone
CHECK_DEADLOCK FALSE
